/-
C15 helper lemmas: the context-free dump text (`dumpNoCtx` = `remove_context("", ast.dump(node))`) is
injective on well-formed trees (`wfDump`), up to what it does not print (`eraseCtx`).

Method: direct structural induction on the two trees, with a continuation. A value is always followed, in a
dump, by the end of the text or by one of `,` `)` `]` (`stopB`); under that hypothesis
`dumpNoCtx v1 ++ s1 = dumpNoCtx v2 ++ s2` forces `v1`, `v2` to have the same shape and `s1 = s2`
(prefix-freeness). The workhorse is `span_unique`: a delimiter-free word followed by a delimiter (or the end)
is determined by the text.
-/
import Paroxy.Spec.FlatDump
import Paroxy.Proofs.FlatCtx
namespace Paroxy.Flat

/-! ## Words and delimiters -/

/-- What can follow a value in a dump: nothing, or `,` `)` `]`. -/
def stopB : Str → Bool
  | [] => true
  | c :: _ => c == ',' || c == ')' || c == ']'

/-- Empty, or starting with a delimiter. -/
def stopD : Str → Bool
  | [] => true
  | c :: _ => isDelimC c

theorem stopD_of_stopB {s : Str} (h : stopB s = true) : stopD s = true := by
  cases s with
  | nil => rfl
  | cons c t =>
    simp only [stopB, Bool.or_eq_true, beq_iff_eq] at h
    rcases h with (h | h) | h <;> subst h <;> rfl

theorem span_unique : ∀ {a b x y : Str}, delimFree a = true → delimFree b = true → stopD x = true →
    stopD y = true → a ++ x = b ++ y → a = b ∧ x = y
  | [], [], _, _, _, _, _, _, h => ⟨rfl, h⟩
  | [], c :: b, x, y, _, hb, hx, _, h => by
    simp only [List.nil_append, List.cons_append] at h
    subst h
    simp only [delimFree, List.all_cons, Bool.and_eq_true, Bool.not_eq_true'] at hb
    simp only [stopD] at hx
    rw [hb.1] at hx; cases hx
  | c :: a, [], x, y, ha, _, _, hy, h => by
    simp only [List.nil_append, List.cons_append] at h
    subst h
    simp only [delimFree, List.all_cons, Bool.and_eq_true, Bool.not_eq_true'] at ha
    simp only [stopD] at hy
    rw [ha.1] at hy; cases hy
  | c :: a, d :: b, x, y, ha, hb, hx, hy, h => by
    simp only [List.cons_append, List.cons.injEq] at h
    simp only [delimFree, List.all_cons, Bool.and_eq_true] at ha hb
    obtain ⟨h1, h2⟩ := span_unique (a := a) (b := b) ha.2 hb.2 hx hy h.2
    exact ⟨by rw [h.1, h1], h2⟩

/-! ## Quoted literals -/

theorem isQuote_ne_backslash {q : Char} (h : isQuote q = true) : (q == '\\') = false := by
  simp only [isQuote, Bool.or_eq_true, beq_iff_eq] at h
  rcases h with h | h <;> subst h <;> rfl

/-- The closing quote of a literal is determined by the text: the first unescaped occurrence of the quote. -/
theorem escScan_cancel (q : Char) (hq : (q == '\\') = false) : ∀ (b1 b2 : Str) (e : Bool) (s1 s2 : Str),
    escScan q e b1 = true → escScan q e b2 = true → b1 ++ q :: s1 = b2 ++ q :: s2 → b1 = b2 ∧ s1 = s2
  | [], [], _, _, _, _, _, h => by simpa using h
  | [], c :: t, e, s1, s2, h1, h2, h => by
    simp only [List.nil_append, List.cons_append, List.cons.injEq] at h
    obtain ⟨rfl, -⟩ := h
    simp only [escScan, Bool.not_eq_true'] at h1
    subst h1
    simp [escScan, hq] at h2
  | c :: t, [], e, s1, s2, h1, h2, h => by
    simp only [List.nil_append, List.cons_append, List.cons.injEq] at h
    obtain ⟨rfl, -⟩ := h
    simp only [escScan, Bool.not_eq_true'] at h2
    subst h2
    simp [escScan, hq] at h1
  | c :: t1, d :: t2, e, s1, s2, h1, h2, h => by
    simp only [List.cons_append, List.cons.injEq] at h
    obtain ⟨rfl, h⟩ := h
    cases e with
    | true =>
      simp only [escScan, if_true] at h1 h2
      obtain ⟨r1, r2⟩ := escScan_cancel q hq t1 t2 false s1 s2 h1 h2 h
      exact ⟨by rw [r1], r2⟩
    | false =>
      by_cases hc : (c == '\\') = true
      · simp only [escScan, Bool.false_eq_true, if_false, hc, if_true] at h1 h2
        obtain ⟨r1, r2⟩ := escScan_cancel q hq t1 t2 true s1 s2 h1 h2 h
        exact ⟨by rw [r1], r2⟩
      · simp only [escScan, Bool.false_eq_true, if_false, hc, Bool.and_eq_true] at h1 h2
        obtain ⟨r1, r2⟩ := escScan_cancel q hq t1 t2 false s1 s2 h1.2 h2.2 h
        exact ⟨by rw [r1], r2⟩

/-- A quoted tail: nothing, or `q body q` with a well-escaped body. -/
def QTail (tail : Str) : Prop :=
  tail = [] ∨ ∃ q body, tail = q :: (body ++ [q]) ∧ isQuote q = true ∧ escScan q false body = true

/-- A terminal repr is a delimiter-free word followed by a quoted tail (word = the whole token, or empty, or
the `b` of a bytes literal). -/
def ScalarForm (r : Str) : Prop := r ≠ [] ∧ ∃ w tail, r = w ++ tail ∧ delimFree w = true ∧ QTail tail

theorem qtail_of_quotedFrom {r : Str} (h : quotedFrom r = true) : r ≠ [] ∧ QTail r := by
  cases r with
  | nil => simp [quotedFrom] at h
  | cons q rest =>
    simp only [quotedFrom, Bool.and_eq_true, beq_iff_eq] at h
    refine ⟨by simp, Or.inr ⟨q, rest.dropLast, ?_, h.1.1, h.2⟩⟩
    obtain ⟨ys, hys⟩ := List.getLast?_eq_some_iff.mp h.1.2
    rw [hys]; simp

theorem scalarForm_of_wfScalar {r : Str} (h : wfScalar r = true) : ScalarForm r := by
  simp only [wfScalar, Bool.or_eq_true, Bool.and_eq_true, Bool.not_eq_true'] at h
  rcases h with (h | h) | h
  · refine ⟨?_, r, [], by simp, h.2, Or.inl rfl⟩
    intro e; subst e; simp at h
  · exact ⟨(qtail_of_quotedFrom h).1, [], r, rfl, rfl, (qtail_of_quotedFrom h).2⟩
  · cases r with
    | nil => simp at h
    | cons c t =>
      simp only [Bool.and_eq_true, beq_iff_eq] at h
      obtain ⟨rfl, h⟩ := h
      exact ⟨by simp, ['b'], t, rfl, by decide, (qtail_of_quotedFrom h).2⟩

theorem stopD_qtail {tail s : Str} (ht : QTail tail) (hs : stopB s = true) : stopD (tail ++ s) = true := by
  rcases ht with rfl | ⟨q, body, rfl, hq, -⟩
  · exact stopD_of_stopB hs
  · simp only [isQuote, Bool.or_eq_true, beq_iff_eq] at hq
    rcases hq with rfl | rfl <;> rfl

theorem not_stop_of_quote {q : Char} {t : Str} (hq : isQuote q = true) : stopB (q :: t) = false := by
  simp only [isQuote, Bool.or_eq_true, beq_iff_eq] at hq
  rcases hq with rfl | rfl <;> rfl

/-- A word followed by a non-quote delimiter, read against a scalar followed by a stop: the scalar is the
word. -/
theorem scalar_vs_word {r s a A : Str} {c : Char} (hr : ScalarForm r) (hs : stopB s = true)
    (ha : delimFree a = true) (hc : isDelimC c = true) (hcq : isQuote c = false)
    (h : a ++ c :: A = r ++ s) : r = a ∧ s = c :: A := by
  obtain ⟨-, w, tail, rfl, hw, ht⟩ := hr
  rw [List.append_assoc] at h
  obtain ⟨rfl, h2⟩ := span_unique ha hw (x := c :: A) (by simpa [stopD] using hc) (stopD_qtail ht hs) h
  rcases ht with rfl | ⟨q, body, rfl, hq, -⟩
  · simpa using h2.symm
  · simp only [List.cons_append, List.cons.injEq] at h2
    rw [h2.1, hq] at hcq; cases hcq

theorem scalar_cancel {r1 r2 s1 s2 : Str} (h1 : ScalarForm r1) (h2 : ScalarForm r2) (hs1 : stopB s1 = true)
    (hs2 : stopB s2 = true) (h : r1 ++ s1 = r2 ++ s2) : r1 = r2 ∧ s1 = s2 := by
  obtain ⟨-, w1, t1, rfl, hw1, ht1⟩ := h1
  obtain ⟨-, w2, t2, rfl, hw2, ht2⟩ := h2
  rw [List.append_assoc, List.append_assoc] at h
  obtain ⟨rfl, h'⟩ := span_unique hw1 hw2 (stopD_qtail ht1 hs1) (stopD_qtail ht2 hs2) h
  rcases ht1 with rfl | ⟨q1, b1, rfl, hq1, he1⟩ <;> rcases ht2 with rfl | ⟨q2, b2, rfl, hq2, he2⟩
  · exact ⟨rfl, by simpa using h'⟩
  · simp only [List.nil_append, List.cons_append] at h'
    subst h'
    rw [not_stop_of_quote hq2] at hs1; cases hs1
  · simp only [List.nil_append, List.cons_append] at h'
    subst h'
    rw [not_stop_of_quote hq1] at hs2; cases hs2
  · simp only [List.cons_append, List.append_assoc, List.nil_append, List.cons.injEq] at h'
    obtain ⟨rfl, h'⟩ := h'
    obtain ⟨rfl, rfl⟩ := escScan_cancel q1 (isQuote_ne_backslash hq1) b1 b2 false s1 s2 he1 he2 h'
    exact ⟨rfl, rfl⟩

/-! ## Erasing what the dump does not print -/

theorem isNoneScalar_eraseCtx (v : Val) : isNoneScalar (eraseCtx v) = isNoneScalar v := by
  cases v <;> simp [eraseCtx, isNoneScalar]

theorem droppedField_eraseCtx (ty n : Str) (v : Val) : droppedField ty n (eraseCtx v) = droppedField ty n v := by
  simp only [droppedField, isNoneScalar_eraseCtx]

mutual
theorem dumpNoCtx_eraseCtx : ∀ v : Val, dumpNoCtx (eraseCtx v) = dumpNoCtx v
  | .node ty e r ln fs => by simp only [eraseCtx, dumpNoCtx, dumpNoCtxFields_eraseCtx ty true fs]
  | .list q xs => by simp only [eraseCtx, dumpNoCtx, dumpNoCtxItems_eraseCtx true xs]
  | .scalar r k => rfl
theorem dumpNoCtxFields_eraseCtx (ty : Str) : ∀ (first : Bool) (fs : List (Str × Val)),
    dumpNoCtxFields ty first (eraseCtxFields ty fs) = dumpNoCtxFields ty first fs
  | _, [] => rfl
  | first, (n, v) :: rest => by
    by_cases hd : droppedField ty n v = true
    · have hd' := hd
      simp only [droppedField] at hd'
      simp only [eraseCtxFields, hd, if_true, dumpNoCtxFields, hd']
      exact dumpNoCtxFields_eraseCtx ty first rest
    · have hd' : droppedField ty n (eraseCtx v) = false := by rw [droppedField_eraseCtx]; simpa using hd
      have hd2 : droppedField ty n v = false := by simpa using hd
      simp only [droppedField] at hd' hd2
      simp only [eraseCtxFields, hd, Bool.false_eq_true, if_false, dumpNoCtxFields, hd', hd2,
        dumpNoCtx_eraseCtx v, dumpNoCtxFields_eraseCtx ty false rest]
theorem dumpNoCtxItems_eraseCtx : ∀ (first : Bool) (xs : List Val),
    dumpNoCtxItems first (eraseCtxItems xs) = dumpNoCtxItems first xs
  | _, [] => rfl
  | first, v :: rest => by
    simp only [eraseCtxItems, dumpNoCtxItems, dumpNoCtx_eraseCtx v, dumpNoCtxItems_eraseCtx false rest]
end

mutual
/-- No field of the tree is one that the dump drops. -/
def cleanE : Val → Bool
  | .node ty _ _ _ fs => cleanEFields ty fs
  | .list _ xs => cleanEItems xs
  | .scalar _ _ => true
def cleanEFields (ty : Str) : List (Str × Val) → Bool
  | [] => true
  | (n, v) :: rest => !droppedField ty n v && cleanE v && cleanEFields ty rest
def cleanEItems : List Val → Bool
  | [] => true
  | v :: rest => cleanE v && cleanEItems rest
end

mutual
theorem cleanE_eraseCtx : ∀ v : Val, cleanE (eraseCtx v) = true
  | .node ty e r ln fs => by simp only [eraseCtx, cleanE, cleanEFields_eraseCtx ty fs]
  | .list q xs => by simp only [eraseCtx, cleanE, cleanEItems_eraseCtx xs]
  | .scalar r k => rfl
theorem cleanEFields_eraseCtx (ty : Str) : ∀ fs : List (Str × Val), cleanEFields ty (eraseCtxFields ty fs) = true
  | [] => rfl
  | (n, v) :: rest => by
    by_cases hd : droppedField ty n v = true
    · simp only [eraseCtxFields, hd, if_true]
      exact cleanEFields_eraseCtx ty rest
    · have hd2 : droppedField ty n v = false := by simpa using hd
      simp only [eraseCtxFields, hd, Bool.false_eq_true, if_false, cleanEFields, droppedField_eraseCtx,
        cleanE_eraseCtx v, cleanEFields_eraseCtx ty rest, Bool.not_false, Bool.and_self]
theorem cleanEItems_eraseCtx : ∀ xs : List Val, cleanEItems (eraseCtxItems xs) = true
  | [] => rfl
  | v :: rest => by
    simp only [eraseCtxItems, cleanEItems, cleanE_eraseCtx v, cleanEItems_eraseCtx rest, Bool.and_self]
end

mutual
theorem wfDump_eraseCtx : ∀ v : Val, wfDump v = true → wfDump (eraseCtx v) = true
  | .node ty e r ln fs, h => by
    simp only [wfDump, Bool.and_eq_true] at h
    simp only [eraseCtx, wfDump, h.1, wfDumpFields_eraseCtx ty fs h.2, Bool.and_self]
  | .list q xs, h => by
    simp only [wfDump] at h
    simp only [eraseCtx, wfDump, wfDumpItems_eraseCtx xs h]
  | .scalar r k, h => h
theorem wfDumpFields_eraseCtx (ty : Str) : ∀ fs : List (Str × Val), wfDumpFields fs = true →
    wfDumpFields (eraseCtxFields ty fs) = true
  | [], _ => rfl
  | (n, v) :: rest, h => by
    simp only [wfDumpFields, Bool.and_eq_true] at h
    by_cases hd : droppedField ty n v = true
    · simp only [eraseCtxFields, hd, if_true]
      exact wfDumpFields_eraseCtx ty rest h.2
    · simp only [eraseCtxFields, hd, Bool.false_eq_true, if_false, wfDumpFields, h.1.1, wfDump_eraseCtx v h.1.2,
        wfDumpFields_eraseCtx ty rest h.2, Bool.and_self]
theorem wfDumpItems_eraseCtx : ∀ xs : List Val, wfDumpItems xs = true → wfDumpItems (eraseCtxItems xs) = true
  | [], _ => rfl
  | v :: rest, h => by
    simp only [wfDumpItems, Bool.and_eq_true] at h
    simp only [eraseCtxItems, wfDumpItems, wfDump_eraseCtx v h.1, wfDumpItems_eraseCtx rest h.2, Bool.and_self]
end

/-! ## What follows a value -/

theorem stopB_fields (ty : Str) (s : Str) : ∀ fs : List (Str × Val),
    stopB (dumpNoCtxFields ty false fs ++ ')' :: s) = true
  | [] => rfl
  | (n, v) :: rest => by
    by_cases hd : (n == cs!"ctx" || (isNoneScalar v && !keepsNone ty n)) = true
    · simp only [dumpNoCtxFields, hd, if_true]
      exact stopB_fields ty s rest
    · simp only [dumpNoCtxFields, hd, Bool.false_eq_true, if_false]
      rfl

theorem stopB_items (s : Str) : ∀ xs : List Val, stopB (dumpNoCtxItems false xs ++ ']' :: s) = true
  | [] => rfl
  | _ :: _ => rfl

/-- The dump of a well-formed value does not start with `]`. -/
theorem dump_not_close (v : Val) (Y s : Str) (hw : wfDump v = true) (hY : stopB Y = true)
    (h : dumpNoCtx v ++ Y = ']' :: s) : False := by
  cases v with
  | node ty e r ln fs =>
    simp only [dumpNoCtx, wfDump, Bool.and_eq_true, List.append_assoc, List.cons_append] at h hw
    have := span_unique (a := ty) (b := []) (y := ']' :: s) hw.1 rfl rfl rfl h
    simp at this
  | list q xs => simp [dumpNoCtx] at h
  | scalar r k =>
    simp only [dumpNoCtx, wfDump] at h hw
    have hf := scalarForm_of_wfScalar hw
    have := scalar_vs_word (a := []) (c := ']') (A := s) hf hY rfl rfl rfl h.symm
    exact hf.1 this.1

/-! ## Injectivity -/

mutual
theorem dump_inj : ∀ (v1 v2 : Val) (s1 s2 : Str), wfDump v1 = true → wfDump v2 = true →
    cleanE v1 = true → cleanE v2 = true → stopB s1 = true → stopB s2 = true →
    dumpNoCtx v1 ++ s1 = dumpNoCtx v2 ++ s2 → sameShape v1 v2 = true ∧ s1 = s2
  | .node t1 _ _ _ f1, .node t2 _ _ _ f2, s1, s2, w1, w2, c1, c2, _, _, h => by
    simp only [dumpNoCtx, wfDump, Bool.and_eq_true, List.append_assoc, List.cons_append] at h w1 w2
    simp only [cleanE] at c1 c2
    obtain ⟨rfl, h'⟩ := span_unique w1.1 w2.1 (x := '(' :: _) (y := '(' :: _) rfl rfl h
    simp only [List.cons.injEq, true_and, List.nil_append] at h'
    obtain ⟨r1, r2⟩ := dumpFields_inj t1 true f1 f2 s1 s2 w1.2 w2.2 c1 c2 h'
    exact ⟨by simp [sameShape, r1], r2⟩
  | .node t1 _ _ _ f1, .list _ x2, s1, s2, w1, _, _, _, _, _, h => by
    simp only [dumpNoCtx, wfDump, Bool.and_eq_true, List.append_assoc, List.cons_append] at h w1
    have := span_unique (a := t1) (b := []) (x := '(' :: _) (y := '[' :: _) w1.1 rfl rfl rfl h
    simp at this
  | .node t1 _ _ _ f1, .scalar r2 _, s1, s2, w1, w2, _, _, _, hs2, h => by
    simp only [dumpNoCtx, wfDump, Bool.and_eq_true, List.append_assoc, List.cons_append] at h w1 w2
    have := scalar_vs_word (c := '(') (scalarForm_of_wfScalar w2) hs2 w1.1 rfl rfl h
    rw [this.2] at hs2; cases hs2
  | .list _ x1, .node t2 _ _ _ f2, s1, s2, _, w2, _, _, _, _, h => by
    simp only [dumpNoCtx, wfDump, Bool.and_eq_true, List.append_assoc, List.cons_append] at h w2
    have := span_unique (a := t2) (b := []) (x := '(' :: _) (y := '[' :: _) w2.1 rfl rfl rfl h.symm
    simp at this
  | .list _ x1, .list _ x2, s1, s2, w1, w2, c1, c2, _, _, h => by
    simp only [dumpNoCtx, wfDump, List.append_assoc, List.cons_append, List.cons.injEq, true_and,
      List.nil_append] at h w1 w2
    simp only [cleanE] at c1 c2
    obtain ⟨r1, r2⟩ := dumpItems_inj true x1 x2 s1 s2 w1 w2 c1 c2 h
    exact ⟨by simp [sameShape, r1], r2⟩
  | .list _ x1, .scalar r2 _, s1, s2, _, w2, _, _, _, hs2, h => by
    simp only [dumpNoCtx, wfDump, List.append_assoc, List.cons_append] at h w2
    have := scalar_vs_word (a := []) (c := '[') (scalarForm_of_wfScalar w2) hs2 rfl rfl rfl h
    rw [this.2] at hs2; cases hs2
  | .scalar r1 _, .node t2 _ _ _ f2, s1, s2, w1, w2, _, _, hs1, _, h => by
    simp only [dumpNoCtx, wfDump, Bool.and_eq_true, List.append_assoc, List.cons_append] at h w1 w2
    have := scalar_vs_word (c := '(') (scalarForm_of_wfScalar w1) hs1 w2.1 rfl rfl h.symm
    rw [this.2] at hs1; cases hs1
  | .scalar r1 _, .list _ x2, s1, s2, w1, _, _, _, hs1, _, h => by
    simp only [dumpNoCtx, wfDump, List.append_assoc, List.cons_append] at h w1
    have := scalar_vs_word (a := []) (c := '[') (scalarForm_of_wfScalar w1) hs1 rfl rfl rfl h.symm
    rw [this.2] at hs1; cases hs1
  | .scalar r1 _, .scalar r2 _, s1, s2, w1, w2, _, _, hs1, hs2, h => by
    simp only [dumpNoCtx, wfDump] at h w1 w2
    obtain ⟨rfl, rfl⟩ := scalar_cancel (scalarForm_of_wfScalar w1) (scalarForm_of_wfScalar w2) hs1 hs2 h
    exact ⟨by simp [sameShape], rfl⟩
theorem dumpFields_inj (ty : Str) : ∀ (first : Bool) (f1 f2 : List (Str × Val)) (s1 s2 : Str),
    wfDumpFields f1 = true → wfDumpFields f2 = true → cleanEFields ty f1 = true → cleanEFields ty f2 = true →
    dumpNoCtxFields ty first f1 ++ ')' :: s1 = dumpNoCtxFields ty first f2 ++ ')' :: s2 →
    sameShapeFields f1 f2 = true ∧ s1 = s2
  | _, [], [], s1, s2, _, _, _, _, h => by
    simp only [dumpNoCtxFields, List.nil_append, List.cons.injEq, true_and] at h
    exact ⟨rfl, h⟩
  | first, [], (n, v) :: r2, s1, s2, _, w2, _, c2, h => by
    exfalso
    simp only [wfDumpFields, cleanEFields, droppedField, Bool.and_eq_true, Bool.not_eq_true'] at w2 c2
    simp only [dumpNoCtxFields, c2.1.1, Bool.false_eq_true, if_false, List.nil_append, List.append_assoc,
      List.cons_append] at h
    cases first with
    | true =>
      simp only [if_true, List.nil_append] at h
      have := span_unique (a := []) (b := n) (x := ')' :: s1) (y := '=' :: _) rfl w2.1.1 rfl rfl h
      simp at this
    | false => simp at h
  | first, (n, v) :: r1, [], s1, s2, w1, _, c1, _, h => by
    exfalso
    simp only [wfDumpFields, cleanEFields, droppedField, Bool.and_eq_true, Bool.not_eq_true'] at w1 c1
    simp only [dumpNoCtxFields, c1.1.1, Bool.false_eq_true, if_false, List.nil_append, List.append_assoc,
      List.cons_append] at h
    cases first with
    | true =>
      simp only [if_true, List.nil_append] at h
      have := span_unique (a := n) (b := []) (x := '=' :: _) (y := ')' :: s2) w1.1.1 rfl rfl rfl h
      simp at this
    | false => simp at h
  | first, (n1, v1) :: r1, (n2, v2) :: r2, s1, s2, w1, w2, c1, c2, h => by
    simp only [wfDumpFields, cleanEFields, droppedField, Bool.and_eq_true, Bool.not_eq_true'] at w1 c1 w2 c2
    simp only [dumpNoCtxFields, c1.1.1, c2.1.1, Bool.false_eq_true, if_false, List.append_assoc,
      List.cons_append] at h
    have h := List.append_cancel_left h
    obtain ⟨rfl, h'⟩ := span_unique w1.1.1 w2.1.1 (x := '=' :: _) (y := '=' :: _) rfl rfl h
    simp only [List.cons.injEq, true_and] at h'
    obtain ⟨a1, a2⟩ := dump_inj v1 v2 _ _ w1.1.2 w2.1.2 c1.1.2 c2.1.2 (stopB_fields ty s1 r1)
      (stopB_fields ty s2 r2) h'
    obtain ⟨b1, b2⟩ := dumpFields_inj ty false r1 r2 s1 s2 w1.2 w2.2 c1.2 c2.2 a2
    exact ⟨by simp [sameShapeFields, a1, b1], b2⟩
theorem dumpItems_inj : ∀ (first : Bool) (x1 x2 : List Val) (s1 s2 : Str),
    wfDumpItems x1 = true → wfDumpItems x2 = true → cleanEItems x1 = true → cleanEItems x2 = true →
    dumpNoCtxItems first x1 ++ ']' :: s1 = dumpNoCtxItems first x2 ++ ']' :: s2 →
    sameShapeItems x1 x2 = true ∧ s1 = s2
  | _, [], [], s1, s2, _, _, _, _, h => by
    simp only [dumpNoCtxItems, List.nil_append, List.cons.injEq, true_and] at h
    exact ⟨rfl, h⟩
  | first, [], v :: r2, s1, s2, _, w2, _, _, h => by
    exfalso
    simp only [wfDumpItems, Bool.and_eq_true] at w2
    simp only [dumpNoCtxItems, List.nil_append, List.append_assoc] at h
    cases first with
    | true =>
      simp only [if_true, List.nil_append] at h
      exact dump_not_close v _ s1 w2.1 (stopB_items s2 r2) h.symm
    | false => simp at h
  | first, v :: r1, [], s1, s2, w1, _, _, _, h => by
    exfalso
    simp only [wfDumpItems, Bool.and_eq_true] at w1
    simp only [dumpNoCtxItems, List.nil_append, List.append_assoc] at h
    cases first with
    | true =>
      simp only [if_true, List.nil_append] at h
      exact dump_not_close v _ s2 w1.1 (stopB_items s1 r1) h
    | false => simp at h
  | first, v1 :: r1, v2 :: r2, s1, s2, w1, w2, c1, c2, h => by
    simp only [wfDumpItems, cleanEItems, Bool.and_eq_true] at w1 c1 w2 c2
    simp only [dumpNoCtxItems, List.append_assoc] at h
    have h := List.append_cancel_left h
    obtain ⟨a1, a2⟩ := dump_inj v1 v2 _ _ w1.1 w2.1 c1.1 c2.1 (stopB_items s1 r1) (stopB_items s2 r2) h
    obtain ⟨b1, b2⟩ := dumpItems_inj false r1 r2 s1 s2 w1.2 w2.2 c1.2 c2.2 a2
    exact ⟨by simp [sameShapeItems, a1, b1], b2⟩
end

/-- **The context-free dump is injective on well-formed trees**, up to the fields it does not print. -/
theorem dumpNoCtx_injective {t1 t2 : Val} (w1 : wfDump t1 = true) (w2 : wfDump t2 = true)
    (h : dumpNoCtx t1 = dumpNoCtx t2) : sameExpr t1 t2 = true := by
  have h' : dumpNoCtx (eraseCtx t1) ++ [] = dumpNoCtx (eraseCtx t2) ++ [] := by
    rw [dumpNoCtx_eraseCtx, dumpNoCtx_eraseCtx, h]
  exact (dump_inj _ _ [] [] (wfDump_eraseCtx t1 w1) (wfDump_eraseCtx t2 w2) (cleanE_eraseCtx t1)
    (cleanE_eraseCtx t2) rfl rfl h').1

/-- The easy direction, for every tree. -/
theorem dumpNoCtx_of_sameExpr {t1 t2 : Val} (h : sameExpr t1 t2 = true) : dumpNoCtx t1 = dumpNoCtx t2 := by
  rw [← dumpNoCtx_eraseCtx t1, ← dumpNoCtx_eraseCtx t2]
  exact dumpNoCtx_of_sameShape _ _ h

theorem dumpNoCtx_eq_iff {t1 t2 : Val} (w1 : wfDump t1 = true) (w2 : wfDump t2 = true) :
    dumpNoCtx t1 = dumpNoCtx t2 ↔ sameExpr t1 t2 = true :=
  ⟨dumpNoCtx_injective w1 w2, dumpNoCtx_of_sameExpr⟩

/-! ## `wfDump` goes down to subtrees -/

theorem wfDumpFields_get {fs : List (Str × Val)} : ∀ {k : Nat} {n : Str} {c : Val},
    wfDumpFields fs = true → fs[k]? = some (n, c) → wfDump c = true := by
  induction fs with
  | nil => intro k n c _ h; simp at h
  | cons f rest ih =>
    intro k n c hw h
    obtain ⟨n0, v0⟩ := f
    simp only [wfDumpFields, Bool.and_eq_true] at hw
    cases k with
    | zero =>
      simp only [List.getElem?_cons_zero, Option.some.injEq, Prod.mk.injEq] at h
      rw [← h.2]; exact hw.1.2
    | succ k => exact ih hw.2 (by simpa using h)

theorem wfDumpItems_get {xs : List Val} : ∀ {k : Nat} {c : Val},
    wfDumpItems xs = true → xs[k]? = some c → wfDump c = true := by
  induction xs with
  | nil => intro k c _ h; simp at h
  | cons v rest ih =>
    intro k c hw h
    simp only [wfDumpItems, Bool.and_eq_true] at hw
    cases k with
    | zero =>
      simp only [List.getElem?_cons_zero, Option.some.injEq] at h
      rw [← h]; exact hw.1
    | succ k => exact ih hw.2 (by simpa using h)

theorem wfDump_of_at {v w : Val} {q : List Nat} {ns : List Str} (h : At v q ns w) :
    wfDump v = true → wfDump w = true := by
  induction h with
  | here v => exact id
  | field hk _ ih =>
    intro hv
    simp only [wfDump, Bool.and_eq_true] at hv
    exact ih (wfDumpFields_get hv.2 hk)
  | item hk _ ih =>
    intro hv
    simp only [wfDump] at hv
    exact ih (wfDumpItems_get hv hk)

/-! ## With one field list per node type, `sameExpr` is `sameUpToCtx` -/

theorem mem_names_eraseCtxFields (ty : Str) : ∀ (fs : List (Str × Val)) (x : Str),
    x ∈ (eraseCtxFields ty fs).map Prod.fst → x ∈ fs.map Prod.fst
  | [], _, h => by simp [eraseCtxFields] at h
  | (n, v) :: rest, x, h => by
    by_cases hd : droppedField ty n v = true
    · simp only [eraseCtxFields, hd, if_true] at h
      exact List.mem_cons_of_mem _ (mem_names_eraseCtxFields ty rest x h)
    · simp only [eraseCtxFields, hd, Bool.false_eq_true, if_false, List.map_cons, List.mem_cons] at h
      rcases h with h | h
      · simp [h]
      · exact List.mem_cons_of_mem _ (mem_names_eraseCtxFields ty rest x h)

/-- A kept field cannot face the erased rest of a list that does not contain its name. -/
theorem sameShapeFields_head_name {E1 E2 : List (Str × Val)} {n : Str} {w : Val}
    (h : sameShapeFields E1 ((n, w) :: E2) = true) : n ∈ E1.map Prod.fst := by
  cases E1 with
  | nil => simp [sameShapeFields] at h
  | cons f E1' =>
    obtain ⟨m, u⟩ := f
    simp only [sameShapeFields, Bool.and_eq_true, beq_iff_eq] at h
    simp [h.1.1]

theorem sameShapeFields_head_name' {E1 E2 : List (Str × Val)} {n : Str} {w : Val}
    (h : sameShapeFields ((n, w) :: E2) E1 = true) : n ∈ E1.map Prod.fst := by
  cases E1 with
  | nil => simp [sameShapeFields] at h
  | cons f E1' =>
    obtain ⟨m, u⟩ := f
    simp only [sameShapeFields, Bool.and_eq_true, beq_iff_eq] at h
    simp [h.1.1]

theorem sameShape_none_scalars {v1 v2 : Val} (h1 : isNoneScalar v1 = true) (h2 : isNoneScalar v2 = true) :
    sameShape (stripCtx v1) (stripCtx v2) = true := by
  cases v1 <;> cases v2 <;> simp_all [isNoneScalar, stripCtx, sameShape]

mutual
theorem stripShape_of_eraseShape (sch : List (Str × List Str)) : ∀ (a b : Val), conforms sch a = true →
    conforms sch b = true → sameShape (eraseCtx a) (eraseCtx b) = true →
    sameShape (stripCtx a) (stripCtx b) = true
  | .node t1 _ _ _ f1, .node t2 _ _ _ f2, c1, c2, h => by
    simp only [eraseCtx, sameShape, Bool.and_eq_true, beq_iff_eq] at h
    obtain ⟨rfl, hf⟩ := h
    simp only [conforms, Bool.and_eq_true, beq_iff_eq] at c1 c2
    simp only [stripCtx, sameShape, beq_self_eq_true, Bool.true_and]
    exact stripShapeFields_of_eraseShape sch t1 f1 f2 (c1.1.1.trans c2.1.1.symm) c1.1.2 c1.2 c2.2 hf
  | .list _ x1, .list _ x2, c1, c2, h => by
    simp only [eraseCtx, sameShape] at h
    simp only [conforms] at c1 c2
    simp only [stripCtx, sameShape]
    exact stripShapeItems_of_eraseShape sch x1 x2 c1 c2 h
  | .scalar _ _, .scalar _ _, _, _, h => by simpa [eraseCtx, stripCtx] using h
  | .node _ _ _ _ _, .list _ _, _, _, h => by simp [eraseCtx, sameShape] at h
  | .node _ _ _ _ _, .scalar _ _, _, _, h => by simp [eraseCtx, sameShape] at h
  | .list _ _, .node _ _ _ _ _, _, _, h => by simp [eraseCtx, sameShape] at h
  | .list _ _, .scalar _ _, _, _, h => by simp [eraseCtx, sameShape] at h
  | .scalar _ _, .node _ _ _ _ _, _, _, h => by simp [eraseCtx, sameShape] at h
  | .scalar _ _, .list _ _, _, _, h => by simp [eraseCtx, sameShape] at h
theorem stripShapeFields_of_eraseShape (sch : List (Str × List Str)) (ty : Str) :
    ∀ (f1 f2 : List (Str × Val)), f1.map Prod.fst = f2.map Prod.fst → nodupB (f1.map Prod.fst) = true →
    conformsFields sch f1 = true → conformsFields sch f2 = true →
    sameShapeFields (eraseCtxFields ty f1) (eraseCtxFields ty f2) = true →
    sameShapeFields (stripCtxFields f1) (stripCtxFields f2) = true
  | [], [], _, _, _, _, _ => rfl
  | [], _ :: _, hn, _, _, _, _ => by simp at hn
  | _ :: _, [], hn, _, _, _, _ => by simp at hn
  | (n1, v1) :: r1, (n2, v2) :: r2, hn, hnd, c1, c2, h => by
    simp only [List.map_cons, List.cons.injEq] at hn
    obtain ⟨rfl, hn⟩ := hn
    simp only [List.map_cons, nodupB, Bool.and_eq_true, Bool.not_eq_true', List.contains_eq_mem,
      decide_eq_false_iff_not] at hnd
    simp only [conformsFields, Bool.and_eq_true] at c1 c2
    by_cases hctx : (n1 == cs!"ctx") = true
    · have d1 : droppedField ty n1 v1 = true := by simp [droppedField, hctx]
      have d2 : droppedField ty n1 v2 = true := by simp [droppedField, hctx]
      simp only [eraseCtxFields, d1, d2, if_true] at h
      simp only [stripCtxFields, hctx, if_true]
      exact stripShapeFields_of_eraseShape sch ty r1 r2 hn hnd.2 c1.2 c2.2 h
    · simp only [stripCtxFields, hctx, Bool.false_eq_true, if_false, sameShapeFields, beq_self_eq_true,
        Bool.true_and, Bool.and_eq_true]
      by_cases d1 : droppedField ty n1 v1 = true <;> by_cases d2 : droppedField ty n1 v2 = true
      · simp only [eraseCtxFields, d1, d2, if_true] at h
        have e1 : isNoneScalar v1 = true := by
          simp only [droppedField, hctx, Bool.false_or, Bool.and_eq_true] at d1; exact d1.1
        have e2 : isNoneScalar v2 = true := by
          simp only [droppedField, hctx, Bool.false_or, Bool.and_eq_true] at d2; exact d2.1
        exact ⟨sameShape_none_scalars e1 e2, stripShapeFields_of_eraseShape sch ty r1 r2 hn hnd.2 c1.2 c2.2 h⟩
      · exfalso
        simp only [eraseCtxFields, d1, d2, if_true, Bool.false_eq_true, if_false] at h
        exact hnd.1 (mem_names_eraseCtxFields ty r1 n1 (sameShapeFields_head_name h))
      · exfalso
        simp only [eraseCtxFields, d1, d2, if_true, Bool.false_eq_true, if_false] at h
        exact hnd.1 (hn ▸ mem_names_eraseCtxFields ty r2 n1 (sameShapeFields_head_name' h))
      · simp only [eraseCtxFields, d1, d2, Bool.false_eq_true, if_false, sameShapeFields, beq_self_eq_true,
          Bool.true_and, Bool.and_eq_true] at h
        exact ⟨stripShape_of_eraseShape sch v1 v2 c1.1 c2.1 h.1,
          stripShapeFields_of_eraseShape sch ty r1 r2 hn hnd.2 c1.2 c2.2 h.2⟩
theorem stripShapeItems_of_eraseShape (sch : List (Str × List Str)) : ∀ (x1 x2 : List Val),
    conformsItems sch x1 = true → conformsItems sch x2 = true →
    sameShapeItems (eraseCtxItems x1) (eraseCtxItems x2) = true →
    sameShapeItems (stripCtxItems x1) (stripCtxItems x2) = true
  | [], [], _, _, _ => rfl
  | [], _ :: _, _, _, h => by simp [eraseCtxItems, sameShapeItems] at h
  | _ :: _, [], _, _, h => by simp [eraseCtxItems, sameShapeItems] at h
  | v1 :: r1, v2 :: r2, c1, c2, h => by
    simp only [conformsItems, Bool.and_eq_true] at c1 c2
    simp only [eraseCtxItems, sameShapeItems, Bool.and_eq_true] at h
    simp only [stripCtxItems, sameShapeItems, Bool.and_eq_true]
    exact ⟨stripShape_of_eraseShape sch v1 v2 c1.1 c2.1 h.1, stripShapeItems_of_eraseShape sch r1 r2 c1.2 c2.2 h.2⟩
end

/-- On trees with one field list per node type, the relation of the dump text is `sameUpToCtx`. -/
theorem sameUpToCtx_of_sameExpr {sch : List (Str × List Str)} {a b : Val} (ca : conforms sch a = true)
    (cb : conforms sch b = true) (h : sameExpr a b = true) : sameUpToCtx a b = true :=
  stripShape_of_eraseShape sch a b ca cb h

theorem conformsFields_get {sch : List (Str × List Str)} {fs : List (Str × Val)} : ∀ {k : Nat} {n : Str} {c : Val},
    conformsFields sch fs = true → fs[k]? = some (n, c) → conforms sch c = true := by
  induction fs with
  | nil => intro k n c _ h; simp at h
  | cons f rest ih =>
    intro k n c hw h
    obtain ⟨n0, v0⟩ := f
    simp only [conformsFields, Bool.and_eq_true] at hw
    cases k with
    | zero =>
      simp only [List.getElem?_cons_zero, Option.some.injEq, Prod.mk.injEq] at h
      rw [← h.2]; exact hw.1
    | succ k => exact ih hw.2 (by simpa using h)

theorem conformsItems_get {sch : List (Str × List Str)} {xs : List Val} : ∀ {k : Nat} {c : Val},
    conformsItems sch xs = true → xs[k]? = some c → conforms sch c = true := by
  induction xs with
  | nil => intro k c _ h; simp at h
  | cons v rest ih =>
    intro k c hw h
    simp only [conformsItems, Bool.and_eq_true] at hw
    cases k with
    | zero =>
      simp only [List.getElem?_cons_zero, Option.some.injEq] at h
      rw [← h]; exact hw.1
    | succ k => exact ih hw.2 (by simpa using h)

theorem conforms_of_at {sch : List (Str × List Str)} {v w : Val} {q : List Nat} {ns : List Str}
    (h : At v q ns w) : conforms sch v = true → conforms sch w = true := by
  induction h with
  | here v => exact id
  | field hk _ ih =>
    intro hv
    simp only [conforms, Bool.and_eq_true] at hv
    exact ih (conformsFields_get hv.2 hk)
  | item hk _ ih =>
    intro hv
    simp only [conforms] at hv
    exact ih (conformsItems_get hv hk)

end Paroxy.Flat
