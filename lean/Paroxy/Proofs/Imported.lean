/-
`add_imported_taxa` (Model/Filter.lean, `addImported`) on a well-formed database (`DB.WF`):
it succeeds, keeps the programs, yields a well-formed filter context (`Ctx.WF`), and every record
becomes its own items plus, with an empty span list, the non-`meta/` taxa of the programs it imports.

Core Lean only. The two nested `foldlM` are handled by one generic invariant lemma (`foldlM_inv`).
-/
import Paroxy.Spec.Filter
import Paroxy.Proofs.Dict
namespace Paroxy

/-! ### More about `dictGet?` -/

theorem dictGet?_key_mem {β : Type} {d : List (Codes × β)} {k : Codes} {v : β}
    (h : dictGet? d k = some v) : k ∈ d.map (·.1) :=
  List.mem_map.2 ⟨(k, v), dictGet?_mem h, rfl⟩

theorem dictGet?_of_mem_nodup {β : Type} {d : List (Codes × β)} {k : Codes} {v : β}
    (nd : (d.map (·.1)).Nodup) (h : (k, v) ∈ d) : dictGet? d k = some v := by
  induction d with
  | nil => cases h
  | cons p t ih =>
    obtain ⟨k', v'⟩ := p
    simp only [List.map_cons, List.nodup_cons] at nd
    unfold dictGet?
    rcases List.mem_cons.1 h with h | h
    · cases h; simp
    · by_cases hk : k' = k
      · subst hk
        exact absurd (List.mem_map.2 ⟨(k', v), h, rfl⟩) nd.1
      · simp only [hk, if_false]
        exact ih nd.2 h

theorem dictGet?_none_not_mem {β : Type} {d : List (Codes × β)} {k : Codes}
    (h : dictGet? d k = none) : k ∉ d.map (·.1) := by
  intro hk
  obtain ⟨v, hv⟩ := dictGet?_of_key_mem hk
  rw [h] at hv; cases hv

/-- Membership in `(dictGet? d k).getD []`. -/
theorem mem_getD_dictGet? {d : List (Codes × List Codes)} {k x : Codes}
    (h : x ∈ (dictGet? d k).getD []) : ∃ l, dictGet? d k = some l ∧ x ∈ l := by
  cases hd : dictGet? d k with
  | none => rw [hd] at h; simp at h
  | some l => rw [hd] at h; exact ⟨l, rfl, h⟩

/-! ### A generic invariant rule for `List.foldlM` in `Option` -/

theorem foldlM_inv {σ α : Type} (f : σ → α → Option σ) (I : σ → Prop) (M : σ → σ → Prop)
    (D : α → σ → Prop) (P : α → Prop)
    (mrefl : ∀ s, M s s) (mtrans : ∀ a b c, M a b → M b c → M a c)
    (dmono : ∀ a s s', D a s → M s s' → D a s')
    (step : ∀ s a, I s → P a → ∃ s', f s a = some s' ∧ I s' ∧ M s s' ∧ D a s') :
    ∀ (l : List α) (s : σ), I s → (∀ a ∈ l, P a) →
      ∃ s', l.foldlM f s = some s' ∧ I s' ∧ M s s' ∧ ∀ a ∈ l, D a s' := by
  intro l
  induction l with
  | nil =>
    intro s hI _
    exact ⟨s, rfl, hI, mrefl s, fun a ha => by cases ha⟩
  | cons a t ih =>
    intro s hI hP
    obtain ⟨s1, e1, i1, m1, d1⟩ := step s a hI (hP a List.mem_cons_self)
    obtain ⟨s2, e2, i2, m2, d2⟩ := ih s1 i1 (fun b hb => hP b (List.mem_cons_of_mem _ hb))
    refine ⟨s2, ?_, i2, mtrans _ _ _ m1 m2, ?_⟩
    · simp only [List.foldlM_cons, e1]
      exact e2
    · intro b hb
      rcases List.mem_cons.1 hb with rfl | hb
      · exact dmono _ _ _ d1 m2
      · exact d2 b hb

end Paroxy

namespace Paroxy.Filter
open Paroxy

/-! ### `updateProgram` -/

theorem updateProgram_keys (progs : List (Codes × TaxaSpans)) (p : Codes) (f : TaxaSpans → TaxaSpans) :
    (updateProgram progs p f).map (·.1) = progs.map (·.1) := by
  unfold updateProgram
  induction progs with
  | nil => rfl
  | cons x t ih =>
    obtain ⟨q, r⟩ := x
    simp only [List.map_cons, List.cons.injEq]
    refine ⟨?_, ih⟩
    split <;> rfl

theorem dictGet?_updateProgram (progs : List (Codes × TaxaSpans)) (p : Codes)
    (f : TaxaSpans → TaxaSpans) (q : Codes) :
    dictGet? (updateProgram progs p f) q =
      if q = p then (dictGet? progs q).map f else dictGet? progs q := by
  induction progs with
  | nil => simp [updateProgram, dictGet?]
  | cons x t ih =>
    obtain ⟨k, r⟩ := x
    have ih' : dictGet? (List.map (fun x => if x.1 = p then (x.1, f x.2) else (x.1, x.2)) t) q =
        if q = p then (dictGet? t q).map f else dictGet? t q := ih
    by_cases hkp : k = p <;> by_cases hkq : k = q
    · subst hkp; subst hkq
      simp [updateProgram, dictGet?]
    · have hqp : ¬ q = p := fun h => hkq (h ▸ hkp)
      simp only [updateProgram, List.map_cons, hkp, if_true, dictGet?] at ih' ⊢
      simp only [hkp ▸ hkq, if_false, hqp] at ih' ⊢
      exact ih'
    · have hqp : ¬ q = p := fun h => hkp (h ▸ hkq)
      simp only [updateProgram, List.map_cons, if_false, dictGet?, hkq, if_true, hqp]
    · simp only [updateProgram, List.map_cons, hkp, if_false, dictGet?, hkq] at ih' ⊢
      exact ih'

/-! ### `addIfAbsent` -/

theorem addIfAbsent_keys (r : TaxaSpans) (t u : Codes) :
    u ∈ (addIfAbsent r t).map (·.1) ↔ u ∈ r.map (·.1) ∨ u = t := by
  unfold addIfAbsent
  cases h : dictGet? r t with
  | some v =>
    simp only
    constructor
    · exact Or.inl
    · rintro (h' | rfl)
      · exact h'
      · exact dictGet?_key_mem h
  | none => simp

theorem foldl_addIfAbsent_keys (X : List Codes) (r : TaxaSpans) (u : Codes) :
    u ∈ (X.foldl addIfAbsent r).map (·.1) ↔ u ∈ r.map (·.1) ∨ u ∈ X := by
  induction X generalizing r with
  | nil => simp
  | cons t X ih =>
    rw [List.foldl_cons, ih, addIfAbsent_keys]
    simp only [List.mem_cons]
    constructor
    · rintro ((h | h) | h)
      · exact Or.inl h
      · exact Or.inr (Or.inl h)
      · exact Or.inr (Or.inr h)
    · rintro (h | h | h)
      · exact Or.inl (Or.inl h)
      · exact Or.inl (Or.inr h)
      · exact Or.inr h

/-! ### The invariant on one record -/

/-- `t` may legitimately be a key of `p`'s record: an own taxon, or a non-`meta/` own taxon of a
program that `p` imports. -/
def Sound (db : DB) (p : Codes) (rec : TaxaSpans) (t : Codes) : Prop :=
  t ∈ rec.map (·.1) ∨
    (isMeta t = false ∧ ∃ q recq, db.Exp p q ∧ dictGet? db.programs q = some recq ∧ t ∈ recq.map (·.1))

/-- Current record `rec'` of program `p` against its stored record `rec`. -/
structure RecInv (db : DB) (p : Codes) (rec rec' : TaxaSpans) : Prop where
  items : ∀ t spans, spans ≠ [] → ((t, spans) ∈ rec' ↔ (t, spans) ∈ rec)
  nodup : (rec'.map (·.1)).Nodup
  own : ∀ t, t ∈ rec.map (·.1) → t ∈ rec'.map (·.1)
  sound : ∀ t, t ∈ rec'.map (·.1) → Sound db p rec t

theorem RecInv.refl (db : DB) (p : Codes) (rec : TaxaSpans) (nd : (rec.map (·.1)).Nodup) :
    RecInv db p rec rec :=
  ⟨fun _ _ _ => Iff.rfl, nd, fun _ h => h, fun _ h => Or.inl h⟩

theorem RecInv.addIfAbsent {db : DB} {p : Codes} {rec rec' : TaxaSpans} (h : RecInv db p rec rec')
    (t : Codes) (ht : Sound db p rec t) : RecInv db p rec (addIfAbsent rec' t) := by
  unfold Filter.addIfAbsent
  cases hd : dictGet? rec' t with
  | some v => exact h
  | none =>
    have hnot := dictGet?_none_not_mem hd
    refine ⟨?_, ?_, ?_, ?_⟩
    · intro u spans hne
      rw [← h.items u spans hne]
      simp only [List.mem_append, List.mem_singleton, Prod.mk.injEq]
      constructor
      · rintro (h' | ⟨_, h'⟩)
        · exact h'
        · exact absurd h' hne
      · exact Or.inl
    · simp only [List.map_append, List.map_cons, List.map_nil]
      rw [List.nodup_append]
      refine ⟨h.nodup, by simp, ?_⟩
      intro a ha b hb
      simp only [List.mem_singleton] at hb
      subst hb
      intro hab; subst hab
      exact hnot ha
    · intro u hu
      simp only [List.map_append, List.mem_append]
      exact Or.inl (h.own u hu)
    · intro u hu
      simp only [List.map_append, List.mem_append, List.map_cons, List.map_nil,
        List.mem_singleton] at hu
      rcases hu with hu | rfl
      · exact h.sound u hu
      · exact ht

theorem RecInv.foldl {db : DB} {p : Codes} {rec : TaxaSpans} (X : List Codes) :
    ∀ {rec' : TaxaSpans}, RecInv db p rec rec' → (∀ t ∈ X, Sound db p rec t) →
      RecInv db p rec (X.foldl Filter.addIfAbsent rec') := by
  induction X with
  | nil => intro rec' h _; exact h
  | cons t X ih =>
    intro rec' h hX
    rw [List.foldl_cons]
    exact ih (h.addIfAbsent t (hX t List.mem_cons_self))
      (fun u hu => hX u (List.mem_cons_of_mem _ hu))

/-! ### The invariant on the whole `programs` dictionary -/

structure Inv (db : DB) (progs : List (Codes × TaxaSpans)) : Prop where
  keys : progs.map (·.1) = db.programs.map (·.1)
  recs : ∀ p rec', dictGet? progs p = some rec' →
    ∃ rec, dictGet? db.programs p = some rec ∧ RecInv db p rec rec'

/-- Records only gain keys. -/
def Mono (s s' : List (Codes × TaxaSpans)) : Prop :=
  ∀ p r, dictGet? s p = some r → ∃ r', dictGet? s' p = some r' ∧ ∀ t, t ∈ r.map (·.1) → t ∈ r'.map (·.1)

theorem Mono.refl (s : List (Codes × TaxaSpans)) : Mono s s := fun _ r h => ⟨r, h, fun _ h => h⟩

theorem Mono.trans {a b c : List (Codes × TaxaSpans)} (h1 : Mono a b) (h2 : Mono b c) : Mono a c := by
  intro p r h
  obtain ⟨r1, e1, s1⟩ := h1 p r h
  obtain ⟨r2, e2, s2⟩ := h2 p r1 e1
  exact ⟨r2, e2, fun t ht => s2 t (s1 t ht)⟩

theorem Inv.init (db : DB) (wf : db.WF) : Inv db db.programs :=
  ⟨rfl, fun p rec h => ⟨rec, h, RecInv.refl db p rec (wf.recNodup p rec (dictGet?_mem h))⟩⟩

/-! ### The inner loop: one exporter, its importers -/

/-- The body of the inner `foldlM` of `addImportedStep`. -/
def innerStep (X : List Codes) (acc : List (Codes × TaxaSpans)) (importer : Codes) :
    Option (List (Codes × TaxaSpans)) :=
  match dictGet? acc importer with
  | none => none
  | some _ => some (updateProgram acc importer (fun r => X.foldl addIfAbsent r))

/-- What one importer has received: every taxon of `X`. -/
def GotAll (X : List Codes) (i : Codes) (s : List (Codes × TaxaSpans)) : Prop :=
  ∃ r, dictGet? s i = some r ∧ ∀ t ∈ X, t ∈ r.map (·.1)

theorem GotAll.mono {X : List Codes} {i : Codes} {s s' : List (Codes × TaxaSpans)}
    (h : GotAll X i s) (m : Mono s s') : GotAll X i s' := by
  obtain ⟨r, e, hr⟩ := h
  obtain ⟨r', e', hr'⟩ := m i r e
  exact ⟨r', e', fun t ht => hr' t (hr t ht)⟩

theorem innerStep_spec (db : DB) (X : List Codes) (s : List (Codes × TaxaSpans)) (i : Codes)
    (hI : Inv db s)
    (hP : i ∈ db.programs.map (·.1) ∧ ∀ rec, dictGet? db.programs i = some rec → ∀ t ∈ X, Sound db i rec t) :
    ∃ s', innerStep X s i = some s' ∧ Inv db s' ∧ Mono s s' ∧ GotAll X i s' := by
  obtain ⟨hi, hX⟩ := hP
  obtain ⟨ri, hri⟩ := dictGet?_of_key_mem (hI.keys ▸ hi)
  refine ⟨updateProgram s i (fun r => X.foldl addIfAbsent r), ?_, ⟨?_, ?_⟩, ?_, ?_⟩
  · simp only [innerStep, hri]
  · rw [updateProgram_keys]; exact hI.keys
  · intro p rec' h
    rw [dictGet?_updateProgram] at h
    by_cases hp : p = i
    · subst hp
      simp only [if_true, hri, Option.map_some, Option.some.injEq] at h
      subst h
      obtain ⟨rec, e, inv⟩ := hI.recs p ri hri
      exact ⟨rec, e, inv.foldl X (hX rec e)⟩
    · simp only [hp, if_false] at h
      exact hI.recs p rec' h
  · intro p r h
    by_cases hp : p = i
    · subst hp
      rw [hri] at h; cases h
      refine ⟨X.foldl addIfAbsent ri, ?_, ?_⟩
      · rw [dictGet?_updateProgram]; simp [hri]
      · intro t ht
        exact (foldl_addIfAbsent_keys X ri t).2 (Or.inl ht)
    · refine ⟨r, ?_, fun _ h => h⟩
      rw [dictGet?_updateProgram]; simp only [hp, if_false]; exact h
  · refine ⟨X.foldl addIfAbsent ri, ?_, ?_⟩
    · rw [dictGet?_updateProgram]; simp [hri]
    · intro t ht
      exact (foldl_addIfAbsent_keys X ri t).2 (Or.inr ht)

theorem inner_spec (db : DB) (X : List Codes) (imps : List Codes) (s : List (Codes × TaxaSpans))
    (hI : Inv db s)
    (hP : ∀ i ∈ imps, i ∈ db.programs.map (·.1) ∧
      ∀ rec, dictGet? db.programs i = some rec → ∀ t ∈ X, Sound db i rec t) :
    ∃ s', imps.foldlM (innerStep X) s = some s' ∧ Inv db s' ∧ Mono s s' ∧ ∀ i ∈ imps, GotAll X i s' :=
  foldlM_inv (innerStep X) (Inv db) Mono (GotAll X)
    (fun i => i ∈ db.programs.map (·.1) ∧
      ∀ rec, dictGet? db.programs i = some rec → ∀ t ∈ X, Sound db i rec t)
    Mono.refl (fun _ _ _ => Mono.trans) (fun _ _ _ h m => h.mono m)
    (fun s i hI hP => innerStep_spec db X s i hI hP) imps s hI hP

/-! ### The outer loop: one `exportations` entry -/

/-- The entry `(e, imps)` has been processed: every importer holds every non-`meta/` own taxon
of the exporter. -/
def Done (db : DB) (x : Codes × List Codes) (s : List (Codes × TaxaSpans)) : Prop :=
  ∀ i ∈ x.2, ∀ rece, dictGet? db.programs x.1 = some rece → ∀ t, t ∈ rece.map (·.1) → isMeta t = false →
    ∃ r, dictGet? s i = some r ∧ t ∈ r.map (·.1)

theorem Done.mono {db : DB} {x : Codes × List Codes} {s s' : List (Codes × TaxaSpans)}
    (h : Done db x s) (m : Mono s s') : Done db x s' := by
  intro i hi rece he t ht hm
  obtain ⟨r, e, hr⟩ := h i hi rece he t ht hm
  obtain ⟨r', e', hr'⟩ := m i r e
  exact ⟨r', e', hr' t hr⟩

theorem addImportedStep_eq (progs : List (Codes × TaxaSpans)) (e : Codes × List Codes)
    (rec : TaxaSpans) (h : dictGet? progs e.1 = some rec) :
    addImportedStep progs e =
      if ((rec.map (·.1)).filter (fun t => !isMeta t)).isEmpty then some progs
      else e.2.foldlM (innerStep ((rec.map (·.1)).filter (fun t => !isMeta t))) progs := by
  unfold addImportedStep
  simp only [h, Option.bind_eq_bind, Option.bind_some, Option.pure_def]
  rfl

theorem addImportedStep_spec (db : DB) (wf : db.WF) (s : List (Codes × TaxaSpans))
    (x : Codes × List Codes) (hI : Inv db s) (hx : x ∈ db.exportations) :
    ∃ s', addImportedStep s x = some s' ∧ Inv db s' ∧ Mono s s' ∧ Done db x s' := by
  obtain ⟨e, imps⟩ := x
  have hget : dictGet? db.exportations e = some imps := dictGet?_of_mem_nodup wf.expNodup hx
  have hexp : ∀ i ∈ imps, db.Exp i e := by
    intro i hi; unfold DB.Exp; rw [hget]; exact hi
  have heprog : e ∈ db.programs.map (·.1) :=
    (wf.expKeys e).1 (List.mem_map.2 ⟨(e, imps), hx, rfl⟩)
  obtain ⟨rec', hrec'⟩ := dictGet?_of_key_mem (hI.keys ▸ heprog)
  obtain ⟨rece, hrece, inv⟩ := hI.recs e rec' hrec'
  rw [addImportedStep_eq s (e, imps) rec' hrec']
  -- membership in the snapshot
  have hmemX : ∀ t, t ∈ (rec'.map (·.1)).filter (fun t => !isMeta t) ↔
      t ∈ rec'.map (·.1) ∧ isMeta t = false := by
    intro t; simp [List.mem_filter]
  by_cases hemp : ((rec'.map (·.1)).filter (fun t => !isMeta t)).isEmpty = true
  · simp only [hemp, if_true]
    refine ⟨s, rfl, hI, Mono.refl s, ?_⟩
    intro i _ rece2 he2 t ht hm
    simp only at he2
    rw [hrece] at he2; cases he2
    have : t ∈ (rec'.map (·.1)).filter (fun t => !isMeta t) := (hmemX t).2 ⟨inv.own t ht, hm⟩
    rw [List.isEmpty_iff.1 hemp] at this
    cases this
  · simp only [hemp]
    have hP : ∀ i ∈ imps, i ∈ db.programs.map (·.1) ∧
        ∀ rec, dictGet? db.programs i = some rec →
          ∀ t ∈ (rec'.map (·.1)).filter (fun t => !isMeta t), Sound db i rec t := by
      intro i hi
      refine ⟨wf.expValues e i (hexp i hi), ?_⟩
      intro rec _ t ht
      obtain ⟨ht1, ht2⟩ := (hmemX t).1 ht
      rcases inv.sound t ht1 with h | ⟨_, q, recq, hq, hrq, htq⟩
      · exact Or.inr ⟨ht2, e, rece, hexp i hi, hrece, h⟩
      · exact Or.inr ⟨ht2, q, recq, wf.expTrans i e q (hexp i hi) hq, hrq, htq⟩
    obtain ⟨s', e1, i1, m1, d1⟩ := inner_spec db _ imps s hI hP
    refine ⟨s', ?_, i1, m1, ?_⟩
    · simpa using e1
    · intro i hi rece2 he2 t ht hm
      simp only at he2
      rw [hrece] at he2; cases he2
      obtain ⟨r, er, hr⟩ := d1 i hi
      exact ⟨r, er, hr t ((hmemX t).2 ⟨inv.own t ht, hm⟩)⟩

theorem addImported_inv (db : DB) (wf : db.WF) :
    ∃ progs, addImported db = some progs ∧ Inv db progs ∧ ∀ x ∈ db.exportations, Done db x progs := by
  obtain ⟨s', e, i, _, d⟩ :=
    foldlM_inv addImportedStep (Inv db) Mono (Done db) (fun x => x ∈ db.exportations)
      Mono.refl (fun _ _ _ => Mono.trans) (fun _ _ _ h m => h.mono m)
      (fun s x hI hx => addImportedStep_spec db wf s x hI hx)
      db.exportations db.programs (Inv.init db wf) (fun _ h => h)
  exact ⟨s', e, i, d⟩

/-! ### Consequences of the invariant -/

theorem Inv.complete {db : DB} {progs : List (Codes × TaxaSpans)}
    (d : ∀ x ∈ db.exportations, Done db x progs) {p q t : Codes} {rec' recq : TaxaSpans}
    (hp : dictGet? progs p = some rec') (hpq : db.Exp p q) (hq : dictGet? db.programs q = some recq)
    (ht : t ∈ recq.map (·.1)) (hm : isMeta t = false) : t ∈ rec'.map (·.1) := by
  obtain ⟨imps, hget, hmem⟩ := mem_getD_dictGet? hpq
  obtain ⟨r, er, hr⟩ := d (q, imps) (dictGet?_mem hget) p hmem recq hq t ht hm
  rw [hp] at er; cases er
  exact hr

theorem Inv.ctx_wf {db : DB} (wf : db.WF) {progs : List (Codes × TaxaSpans)} (inv : Inv db progs)
    (orc : Oracle) :
    Ctx.WF { orc := orc, programs := progs, taxa := db.taxa, exportations := db.exportations } := by
  -- a direct feature of the context is an item of the stored record
  have feat : ∀ p t,
      Features { orc := orc, programs := progs, taxa := db.taxa, exportations := db.exportations } p t →
        ∃ rec spans, (p, rec) ∈ db.programs ∧ (t, spans) ∈ rec := by
    rintro p t ⟨i, s, rec', spans, h1, h2, h3⟩
    obtain ⟨rec, e, ri⟩ := inv.recs p rec' h1
    have hne : spans ≠ [] := by rintro rfl; simp at h3
    exact ⟨rec, spans, dictGet?_mem e, (ri.items t spans hne).1 (dictGet?_mem h2)⟩
  refine ⟨?_, ?_, ?_, ?_, ?_, ?_⟩
  · intro t p
    rw [wf.index t p]
    constructor
    · rintro ⟨rec, spans, h1, h2⟩
      have hne := wf.spansNonempty p rec t spans h1 h2
      have hpk : p ∈ progs.map (·.1) := inv.keys ▸ List.mem_map.2 ⟨(p, rec), h1, rfl⟩
      obtain ⟨rec', hrec'⟩ := dictGet?_of_key_mem hpk
      obtain ⟨rec0, e0, ri⟩ := inv.recs p rec' hrec'
      rw [dictGet?_of_mem_nodup wf.progNodup h1] at e0; cases e0
      have h3 : dictGet? rec' t = some spans :=
        dictGet?_of_mem_nodup ri.nodup ((ri.items t spans hne).2 h2)
      cases spans with
      | nil => exact absurd rfl hne
      | cons s0 rest => exact ⟨0, s0, rec', s0 :: rest, hrec', h3, rfl⟩
    · exact feat p t
  · intro t p h
    obtain ⟨rec, spans, h1, h2⟩ := feat p t h
    exact wf.indexKey t p rec spans h1 h2
  · intro p hp
    have hp' : p ∈ db.programs.map (·.1) := inv.keys ▸ hp
    obtain ⟨v, hv⟩ := dictGet?_of_key_mem ((wf.expKeys p).2 hp')
    show (dictGet? db.exportations p).isSome = true
    rw [hv]; rfl
  · intro p rec h
    exact dictGet?_key_mem h
  · intro q p h
    show q ∈ progs.map (·.1)
    rw [inv.keys]
    exact wf.expValues p q h
  · intro a b d h1 h2
    exact wf.expTrans a b d h1 h2

/-! ### The specification of `add_imported_taxa` -/

theorem addImported_spec (db : DB) (wf : db.WF) (orc : Oracle) :
    ∃ progs, addImported db = some progs ∧
      progs.map (·.1) = db.programs.map (·.1) ∧
      Ctx.WF { orc := orc, programs := progs, taxa := db.taxa, exportations := db.exportations } ∧
      (∀ p rec', dictGet? progs p = some rec' → ∃ rec, dictGet? db.programs p = some rec ∧
        (∀ t spans, spans ≠ [] → ((t, spans) ∈ rec' ↔ (t, spans) ∈ rec)) ∧
        (rec'.map (·.1)).Nodup ∧
        (∀ t, t ∈ rec'.map (·.1) ↔ t ∈ rec.map (·.1) ∨
          (isMeta t = false ∧ ∃ q recq, db.Exp p q ∧ dictGet? db.programs q = some recq ∧
            t ∈ recq.map (·.1)))) := by
  obtain ⟨progs, e, inv, d⟩ := addImported_inv db wf
  refine ⟨progs, e, inv.keys, inv.ctx_wf wf orc, ?_⟩
  intro p rec' hp
  obtain ⟨rec, hrec, ri⟩ := inv.recs p rec' hp
  refine ⟨rec, hrec, ri.items, ri.nodup, fun t => ⟨ri.sound t, ?_⟩⟩
  rintro (h | ⟨hm, q, recq, hpq, hq, ht⟩)
  · exact ri.own t h
  · exact Inv.complete d hp hpq hq ht hm

/-! ### A concrete well-formed database (non-vacuity of `DB.WF`) -/

/-- A two-program database: `b.py` imports `a.py`; `a.py` features `x` and `meta/m`, `b.py` features `y`. -/
def exampleDB : DB where
  programs := [([97, 46, 112, 121], [([120], [((1, 1) : Span)]), ([109, 101, 116, 97, 47, 109], [(2, 2)])]),
               ([98, 46, 112, 121], [([121], [(1, 3), (5, 5)])])]
  taxa := [([120], [[97, 46, 112, 121]]), ([109, 101, 116, 97, 47, 109], [[97, 46, 112, 121]]),
           ([121], [[98, 46, 112, 121]])]
  importations := [([97, 46, 112, 121], []), ([98, 46, 112, 121], [[97, 46, 112, 121]])]
  exportations := [([97, 46, 112, 121], [[98, 46, 112, 121]]), ([98, 46, 112, 121], [])]

theorem exampleDB_wf : exampleDB.WF where
  progNodup := by decide
  recNodup := by
    intro p rec h
    simp only [exampleDB, List.mem_cons, Prod.mk.injEq, List.not_mem_nil, or_false] at h
    rcases h with ⟨rfl, rfl⟩ | ⟨rfl, rfl⟩ <;> decide
  expNodup := by decide
  spansNonempty := by
    intro p rec t spans h h2
    simp only [exampleDB, List.mem_cons, Prod.mk.injEq, List.not_mem_nil, or_false] at h
    rcases h with ⟨rfl, rfl⟩ | ⟨rfl, rfl⟩ <;>
      simp only [List.mem_cons, Prod.mk.injEq, List.not_mem_nil, or_false] at h2
    · rcases h2 with ⟨_, rfl⟩ | ⟨_, rfl⟩ <;> simp
    · rcases h2 with ⟨_, rfl⟩; simp
  index := by
    intro t p
    constructor
    · intro h
      obtain ⟨l, hl, hp⟩ := mem_getD_dictGet? h
      have hm := dictGet?_mem hl
      simp only [exampleDB, List.mem_cons, Prod.mk.injEq, List.not_mem_nil, or_false] at hm
      rcases hm with ⟨rfl, rfl⟩ | ⟨rfl, rfl⟩ | ⟨rfl, rfl⟩ <;>
        simp only [List.mem_cons, List.not_mem_nil, or_false] at hp <;> subst hp
      · exact ⟨_, _, List.mem_cons_self, List.mem_cons_self⟩
      · exact ⟨_, _, List.mem_cons_self, List.mem_cons_of_mem _ List.mem_cons_self⟩
      · exact ⟨_, _, List.mem_cons_of_mem _ List.mem_cons_self, List.mem_cons_self⟩
    · rintro ⟨rec, spans, h, h2⟩
      simp only [exampleDB, List.mem_cons, Prod.mk.injEq, List.not_mem_nil, or_false] at h
      rcases h with ⟨rfl, rfl⟩ | ⟨rfl, rfl⟩ <;>
        simp only [List.mem_cons, Prod.mk.injEq, List.not_mem_nil, or_false] at h2
      · rcases h2 with ⟨rfl, _⟩ | ⟨rfl, _⟩ <;> decide
      · rcases h2 with ⟨rfl, _⟩; decide
  indexKey := by
    intro t p rec spans h h2
    simp only [exampleDB, List.mem_cons, Prod.mk.injEq, List.not_mem_nil, or_false] at h
    rcases h with ⟨rfl, rfl⟩ | ⟨rfl, rfl⟩ <;>
      simp only [List.mem_cons, Prod.mk.injEq, List.not_mem_nil, or_false] at h2
    · rcases h2 with ⟨rfl, _⟩ | ⟨rfl, _⟩ <;> decide
    · rcases h2 with ⟨rfl, _⟩; decide
  expKeys := by
    intro p; simp [exampleDB]
  expValues := by
    intro p q h
    obtain ⟨l, hl, hq⟩ := mem_getD_dictGet? h
    have hm := dictGet?_mem hl
    simp only [exampleDB, List.mem_cons, Prod.mk.injEq, List.not_mem_nil, or_false] at hm
    rcases hm with ⟨rfl, rfl⟩ | ⟨rfl, rfl⟩ <;>
      simp only [List.mem_cons, List.not_mem_nil, or_false] at hq
    subst hq; decide
  expTrans := by
    intro a b d h1 h2
    obtain ⟨l1, hl1, ha⟩ := mem_getD_dictGet? h1
    obtain ⟨l2, hl2, hb⟩ := mem_getD_dictGet? h2
    have hm1 := dictGet?_mem hl1
    have hm2 := dictGet?_mem hl2
    simp only [exampleDB, List.mem_cons, Prod.mk.injEq, List.not_mem_nil, or_false] at hm1 hm2
    rcases hm1 with ⟨rfl, rfl⟩ | ⟨rfl, rfl⟩ <;>
      simp only [List.mem_cons, List.not_mem_nil, or_false] at ha
    subst ha
    rcases hm2 with ⟨rfl, rfl⟩ | ⟨rfl, rfl⟩ <;>
      simp only [List.mem_cons, List.not_mem_nil, or_false] at hb
    exact absurd hb (by decide)

end Paroxy.Filter
