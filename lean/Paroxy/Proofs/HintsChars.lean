/-
Helper lemmas for C12, character level: what the string primitives and the four hand-transcribed
regexes of Model/Hints.lean do on the text written by `decorate`.
-/
import Paroxy.Spec.Hints
import Mathlib.Tactic.IntervalCases
namespace Paroxy.Hints

variable {O : CharOracle}

/-- `decide`, or evaluation of the character classes on literal (ASCII) characters when the oracle
occurs in the goal. -/
macro "cdec" : tactic =>
  `(tactic| first | decide | simp [isSpacePy, isSpaceRe, isWord] | (simp [isSpacePy, isSpaceRe, isWord] <;> omega))

/-! ### `split("\n")` / `"\n".join` -/

theorem splitNL'_of_noNL (l : Str) (h : '\n' ∉ l) : splitNL' l = (l, []) := by
  induction l with
  | nil => rfl
  | cons c t ih =>
    have hc : c ≠ '\n' := fun e => h (by simp [e])
    have ht : '\n' ∉ t := fun e => h (by simp [e])
    simp [splitNL', hc, ih ht]

theorem splitNL'_append (l rest : Str) (h : '\n' ∉ l) :
    splitNL' (l ++ '\n' :: rest) = (l, (splitNL' rest).1 :: (splitNL' rest).2) := by
  induction l with
  | nil => simp [splitNL']
  | cons c t ih =>
    have hc : c ≠ '\n' := fun e => h (by simp [e])
    have ht : '\n' ∉ t := fun e => h (by simp [e])
    simp [splitNL', hc, ih ht]

theorem splitNL_joinNL (ls : List Str) (hne : ls ≠ []) (h : ∀ l ∈ ls, '\n' ∉ l) :
    splitNL (joinNL ls) = ls := by
  induction ls with
  | nil => exact absurd rfl hne
  | cons l t ih =>
    cases t with
    | nil => simp [joinNL, splitNL, splitNL'_of_noNL l (h l (by simp))]
    | cons l2 t2 =>
      have := ih (by simp) (fun x hx => h x (List.mem_cons_of_mem _ hx))
      simp only [splitNL] at this
      simp only [joinNL, splitNL, splitNL'_append l _ (h l (by simp))]
      rw [this]

theorem noNL_iff (l : Str) : noNL l = true ↔ '\n' ∉ l := by simp [noNL]

/-! ### Substring tests -/

theorem hasInfix_iff (p s : Str) : hasInfix p s = true ↔ p <:+: s := by
  induction s with
  | nil =>
    simp only [hasInfix, List.isPrefixOf_iff_prefix]
    constructor
    · intro h; exact h.isInfix
    · intro h
      have := List.eq_nil_of_infix_nil h
      subst this; exact List.prefix_refl _
  | cons c t ih =>
    simp only [hasInfix, Bool.or_eq_true, List.isPrefixOf_iff_prefix, ih]
    constructor
    · rintro (h | h)
      · exact h.isInfix
      · exact List.infix_cons h
    · intro h
      rcases List.infix_cons_iff.mp h with h | h
      · exact Or.inl h
      · exact Or.inr h

theorem noM13_of_infix {a s : Str} (h : noM13 s = true) (ha : a <:+: s) : noM13 a = true := by
  simp only [noM13, Bool.not_eq_true', ← Bool.not_eq_true, hasInfix_iff] at h ⊢
  exact fun h1 => h (h1.trans ha)

theorem not_isSpacePy_of (c : Char) (h : (isSpacePy O) c = false) : (isSpaceRe O) c = false := by
  simp only [isSpacePy, Bool.or_eq_false_iff] at h; exact h.1

/-- What may follow a code line in a decorated text: nothing, a line break, the spaces that
precede a hint comment, or the hint comment itself (glued to the code). -/
def SafeTail (Y : Str) : Prop :=
  Y = [] ∨ (∃ Z, Y = '\n' :: Z) ∨ (∃ c Z, Y = ' ' :: c :: Z ∧ (c = ' ' ∨ c = '#')) ∨ (∃ Z, Y = '#' :: Z)

/-- **No early marker.** A non-empty piece of code that does not contain `# paroxython:` cannot
start an occurrence of `# paroxython:` that would run over what follows it. -/
theorem no_m13_prefix (a Y : Str) (ha : a ≠ []) (hm : noM13 a = true) (hY : SafeTail Y) :
    m13.isPrefixOf (a ++ Y) = false := by
  rw [← Bool.not_eq_true, List.isPrefixOf_iff_prefix]
  intro hp
  have hm' : ¬ m13 <:+: a := by
    simpa [noM13, ← Bool.not_eq_true, hasInfix_iff] using hm
  by_cases hlen : 13 ≤ a.length
  · exact hm' (List.prefix_of_prefix_length_le hp (List.prefix_append a Y) (by simpa [m13] using hlen)).isInfix
  · have hpre : a <+: m13 :=
      List.prefix_of_prefix_length_le (List.prefix_append a Y) hp (by simp [m13]; omega)
    have ha' : a = m13.take a.length := List.prefix_iff_eq_take.mp hpre
    obtain ⟨t, ht⟩ := hp
    have hY' : Y = m13.drop a.length ++ t := by
      have h1 : m13.take a.length ++ Y = m13.take a.length ++ (m13.drop a.length ++ t) := by
        rw [← List.append_assoc, List.take_append_drop, ← ha', ht]
      exact List.append_cancel_left h1
    have hpos : 0 < a.length := List.length_pos_iff.mpr ha
    have hlt : a.length < 13 := by omega
    generalize a.length = n at hY' hpos hlt
    interval_cases n <;> simp [m13] at hY' <;>
      (rcases hY with rfl | ⟨Z, rfl⟩ | ⟨c, Z, rfl, hc⟩ | ⟨Z, rfl⟩ <;> simp at hY' <;>
        (try (rcases hc with rfl | rfl <;> simp at hY')))

theorem no_m14_prefix (a Y : Str) (ha : a ≠ []) (hm : noM13 a = true) (hY : SafeTail Y) :
    m14.isPrefixOf (a ++ Y) = false := by
  have h := no_m13_prefix a Y ha hm hY
  rw [← Bool.not_eq_true, List.isPrefixOf_iff_prefix] at h ⊢
  exact fun hp => h ((List.prefix_append m13 [' ']).trans hp)

theorem hasInfix_m14_false {a : Str} (hm : noM13 a = true) : hasInfix m14 a = false := by
  rw [← Bool.not_eq_true, hasInfix_iff]
  intro h
  have hm' : ¬ m13 <:+: a := by
    simpa [noM13, ← Bool.not_eq_true, hasInfix_iff] using hm
  exact hm' ((List.prefix_append m13 [' ']).isInfix.trans h)

theorem hasInfix_sp_m13_false {a : Str} (hm : noM13 a = true) : hasInfix (' ' :: m13) a = false := by
  rw [← Bool.not_eq_true, hasInfix_iff]
  intro h
  have hm' : ¬ m13 <:+: a := by
    simpa [noM13, ← Bool.not_eq_true, hasInfix_iff] using hm
  exact hm' ((List.suffix_cons ' ' m13).isInfix.trans h)

theorem partitionAt_none {a : Str} (h : hasInfix m14 a = false) : partitionAt m14 a = none := by
  induction a with
  | nil => simp [partitionAt, m14, m13]
  | cons c t ih =>
    simp only [hasInfix, Bool.or_eq_false_iff] at h
    simp [partitionAt, h.1, ih h.2]

theorem noM13_tail {c : Char} {t : Str} (h : noM13 (c :: t) = true) : noM13 t = true :=
  noM13_of_infix h (List.suffix_cons c t).isInfix

/-- `line.partition("# paroxython: ")` on a hinted code line. -/
theorem partitionAt_code (code : Str) (k : Nat) (rest : Str) (hm : noM13 code = true) :
    partitionAt m14 (code ++ (List.replicate k ' ' ++ (m14 ++ rest))) =
      some (code ++ List.replicate k ' ', rest) := by
  induction code with
  | nil =>
    induction k with
    | zero =>
      have h1 : partitionAt m14 (m14 ++ rest) = some ([], rest) := by
        cases rest <;> simp [partitionAt, m14, m13]
      simpa using h1
    | succ k ih =>
      have h0 : m14.isPrefixOf (' ' :: (List.replicate k ' ' ++ (m14 ++ rest))) = false := by
        simp [m14, m13, List.isPrefixOf_cons_cons]
      simp only [List.nil_append] at ih
      rw [List.replicate_succ]
      simp only [List.nil_append, List.cons_append, partitionAt, h0, ih]
      simp
  | cons c t ih =>
    have hsafe : SafeTail (List.replicate k ' ' ++ (m14 ++ rest)) := by
      right; right
      cases k with
      | zero => exact Or.inr ⟨m14.tail ++ rest, by simp [m14, m13]⟩
      | succ k =>
        left
        cases k with
        | zero => exact ⟨'#', m14.tail ++ rest, by simp [m14, m13], Or.inr rfl⟩
        | succ k => exact ⟨' ', List.replicate k ' ' ++ (m14 ++ rest), by simp [List.replicate_succ], Or.inl rfl⟩
    have h0 := no_m14_prefix (c :: t) _ (by simp) hm hsafe
    simp only [List.cons_append] at h0 ⊢
    simp [partitionAt, h0, ih (noM13_tail hm)]

/-! ### `str.split()` -/

theorem splitWs'_space (c : Char) (R : Str) (hc : (isSpacePy O) c = true) :
    (splitWs' O) (c :: R) = ([], (splitWs O) R) := by
  simp [splitWs', splitWs, hc]

theorem splitWs_space (c : Char) (R : Str) (hc : (isSpacePy O) c = true) : (splitWs O) (c :: R) = (splitWs O) R := by
  simp [splitWs, splitWs'_space c R hc]

theorem splitWs_spaces (n : Nat) (R : Str) : (splitWs O) (List.replicate n ' ' ++ R) = (splitWs O) R := by
  induction n with
  | zero => simp
  | succ n ih => rw [List.replicate_succ, List.cons_append, splitWs_space _ _ (by cdec), ih]

theorem splitWs'_word (tok R : Str) (h : ∀ c ∈ tok, (isSpacePy O) c = false) :
    (splitWs' O) (tok ++ R) = (tok ++ ((splitWs' O) R).1, ((splitWs' O) R).2) := by
  induction tok with
  | nil => simp
  | cons c t ih =>
    have hc := h c (by simp)
    simp [splitWs', hc, ih (fun x hx => h x (List.mem_cons_of_mem _ hx))]

/-- A word followed by nothing or by white space. -/
theorem splitWs_word (tok R : Str) (h : ∀ c ∈ tok, (isSpacePy O) c = false) (hne : tok ≠ [])
    (hR : ((splitWs' O) R).1 = []) : (splitWs O) (tok ++ R) = tok :: (splitWs O) R := by
  simp [splitWs, splitWs'_word tok R h, hR, hne]

/-! ### `str.strip()` -/

theorem stripPy_id (s : Str) (h1 : ∀ c, s.head? = some c → (isSpacePy O) c = false)
    (h2 : ∀ c, s.getLast? = some c → (isSpacePy O) c = false) : (stripPy O) s = s := by
  have e1 : s.dropWhile (isSpacePy O) = s := by
    cases s with
    | nil => rfl
    | cons c t => simp [List.dropWhile_cons, h1 c rfl]
  have e2 : s.reverse.dropWhile (isSpacePy O) = s.reverse := by
    cases hs : s.reverse with
    | nil => rfl
    | cons c t =>
      have : s.getLast? = some c := by rw [← List.head?_reverse, hs]; rfl
      simp [List.dropWhile_cons, h2 c this]
  simp [stripPy, e1, e2]

/-! ### The token regex on rendered hints -/

theorem splitAfter_false {r : Str} (h : (splitAfter r).2 = false) : (splitAfter r).1 = r := by
  unfold splitAfter at h ⊢
  split
  · rename_i heq; simp [heq] at h
  · rename_i heq
    simp only [heq] at h
    split
    · rename_i hc; simp [hc] at h
    · rfl
  · rfl

theorem splitAfter_dots3 (L : Str) : splitAfter (L ++ dots3) = (L, true) := by
  simp [splitAfter, dots3]

theorem splitAfter_ell (L : Str) : splitAfter (L ++ [ell]) = (L, true) := by
  simp [splitAfter, ell]

theorem splitAfter_ellipsis (L : Str) (u : Bool) : splitAfter (L ++ ellipsis u) = (L, true) := by
  cases u
  · exact splitAfter_dots3 L
  · exact splitAfter_ell L

structure Clean (O : CharOracle) (L : Str) : Prop where
  ne : L ≠ []
  word : ∀ c, L.head? = some c → (isWord O) c = true
  nosp : ∀ c ∈ L, (isSpacePy O) c = false
  noell : splitAfter L = (L, false)

theorem clean_of (L : Str) (h : (cleanLabel O) L = true) : (Clean O) L := by
  cases L with
  | nil => simp [cleanLabel] at h
  | cons c l =>
    simp only [cleanLabel, Bool.and_eq_true, Bool.not_eq_true', List.all_eq_true] at h
    refine ⟨by simp, ?_, ?_, ?_⟩
    · intro c' hc'; simp at hc'; subst hc'; exact h.1.1
    · intro x hx; simpa using h.1.2 x hx
    · exact Prod.ext (splitAfter_false h.2) h.2

/-- `match_label` on a token that starts with a word character. -/
theorem matchLabel_word (c : Char) (r : Str) (hc : (isWord O) c = true) :
    (matchLabel O) (c :: r) = some (.none, (splitAfter (c :: r)).1, (splitAfter (c :: r)).2) := by
  have h1 : c ≠ '-' := by rintro rfl; simp [isWord, Char.isAlphanum, Char.isAlpha, Char.isDigit, Char.isUpper, Char.isLower] at hc
  have h2 : c ≠ '+' := by rintro rfl; simp [isWord, Char.isAlphanum, Char.isAlpha, Char.isDigit, Char.isUpper, Char.isLower] at hc
  have h3 : c ≠ '.' := by rintro rfl; simp [isWord, Char.isAlphanum, Char.isAlpha, Char.isDigit, Char.isUpper, Char.isLower] at hc
  have h4 : c ≠ ell := by rintro rfl; simp [ell, isWord, Char.isAlphanum, Char.isAlpha, Char.isDigit, Char.isUpper, Char.isLower] at hc
  unfold matchLabel
  split <;> simp_all

theorem matchLabel_minus (c : Char) (r : Str) (hc : (isWord O) c = true) :
    (matchLabel O) ('-' :: c :: r) = some (.minus, (splitAfter (c :: r)).1, (splitAfter (c :: r)).2) := by
  simp [matchLabel, hc]

theorem matchLabel_plus (c : Char) (r : Str) (hc : (isWord O) c = true) :
    (matchLabel O) ('+' :: c :: r) = some (.plus, (splitAfter (c :: r)).1, (splitAfter (c :: r)).2) := by
  simp [matchLabel, hc]

theorem matchLabel_dots3 (c : Char) (r : Str) (hc : (isWord O) c = true) :
    (matchLabel O) ('.' :: '.' :: '.' :: c :: r) = some (.dots, (splitAfter (c :: r)).1, (splitAfter (c :: r)).2) := by
  simp [matchLabel, hc]

theorem matchLabel_ell (c : Char) (r : Str) (hc : (isWord O) c = true) :
    (matchLabel O) (ell :: c :: r) = some (.dots, (splitAfter (c :: r)).1, (splitAfter (c :: r)).2) := by
  simp [matchLabel, hc, ell]

/-! ### Rendered hints are clean tokens -/

theorem ellipsis_nosp (u : Bool) : ∀ c ∈ ellipsis u, (isSpacePy O) c = false := by
  cases u <;> simp [ellipsis, dots3, ell, isSpacePy, isSpaceRe]

theorem sign_nosp (p : Bool) : ∀ c ∈ sign p, (isSpacePy O) c = false := by
  cases p <;> simp [sign, isSpacePy, isSpaceRe]

theorem renderHint_nosp (h : Hint) (hc : (Clean O) h.label) : ∀ c ∈ renderHint h, (isSpacePy O) c = false := by
  intro c hmem
  obtain ⟨mark, L, sty⟩ := h
  have hs := sign_nosp (O := O) sty.plus
  have he := ellipsis_nosp (O := O) sty.uni
  have hl := hc.nosp
  cases mark with
  | one s =>
    cases s <;> simp only [renderHint, List.mem_append, List.mem_cons] at hmem
    · rcases hmem with h | h
      · exact hs c h
      · exact hl c h
    · rcases hmem with h | h
      · subst h; cdec
      · exact hl c h
  | opn s =>
    cases s <;> simp only [renderHint, List.mem_append, List.mem_cons] at hmem
    · rcases hmem with h | h | h
      · exact hs c h
      · exact hl c h
      · exact he c h
    · rcases hmem with h | h | h
      · subst h; cdec
      · exact hl c h
      · exact he c h
  | cls =>
    simp only [renderHint, List.mem_append] at hmem
    rcases hmem with h | h
    · exact he c h
    · exact hl c h

theorem renderHint_ne (h : Hint) (hc : (Clean O) h.label) : renderHint h ≠ [] := by
  obtain ⟨mark, L, sty⟩ := h
  have := hc.ne
  cases mark with
  | one s => cases s <;> simp_all [renderHint]
  | opn s => cases s <;> simp_all [renderHint]
  | cls => simp_all [renderHint]

theorem renderHints_fst (hs : List Hint) : ((splitWs' O) (renderHints hs)).1 = [] := by
  cases hs with
  | nil => rfl
  | cons h t => simp [renderHints, List.replicate_succ, splitWs', isSpacePy, isSpaceRe]

theorem renderHints_cons (h : Hint) (t : List Hint) :
    renderHints (h :: t) = List.replicate (h.style.gap + 1) ' ' ++ (renderHint h ++ renderHints t) := by
  simp [renderHints]

/-- `hints.split()` gives back the tokens. -/
theorem splitWs_renderHints (hs : List Hint) (hc : ∀ h ∈ hs, (Clean O) h.label) :
    (splitWs O) (renderHints hs) = hs.map renderHint := by
  induction hs with
  | nil => rfl
  | cons h t ih =>
    rw [renderHints_cons, splitWs_spaces,
      splitWs_word _ _ (renderHint_nosp h (hc h (by simp))) (renderHint_ne h (hc h (by simp))) (renderHints_fst t),
      ih (fun x hx => hc x (List.mem_cons_of_mem _ hx))]
    rfl

theorem renderHints_noNL (hs : List Hint) (hc : ∀ h ∈ hs, (Clean O) h.label) : '\n' ∉ renderHints hs := by
  induction hs with
  | nil => simp [renderHints]
  | cons h t ih =>
    rw [renderHints_cons]
    simp only [List.mem_append, not_or]
    refine ⟨by simp [List.mem_replicate], fun hm => ?_, ih (fun x hx => hc x (List.mem_cons_of_mem _ hx))⟩
    have := renderHint_nosp h (hc h (by simp)) _ hm
    simp [isSpacePy, isSpaceRe] at this

theorem renderHints_head (hs : List Hint) (hne : hs ≠ []) : ∃ R, renderHints hs = ' ' :: R := by
  cases hs with
  | nil => exact absurd rfl hne
  | cons h t => exact ⟨_, by rw [renderHints_cons, List.replicate_succ]; rfl⟩

/-! ### A rendered code line -/

/-- The text that follows the code on a hinted line. -/
def hintPart (c : CodeLine) : Str := List.replicate c.pad ' ' ++ (m13 ++ renderHints c.hints)

theorem renderCode_hinted (c : CodeLine) (h : c.hints ≠ []) : renderCode c = c.code ++ hintPart c := by
  simp [renderCode, h, hintPart]

theorem renderCode_plain (c : CodeLine) (h : c.hints = []) : renderCode c = c.code := by
  simp [renderCode, h]

theorem hintPart_eq (c : CodeLine) (h : c.hints ≠ []) :
    ∃ R, renderHints c.hints = ' ' :: R ∧ hintPart c = List.replicate c.pad ' ' ++ (m14 ++ R) := by
  obtain ⟨R, hR⟩ := renderHints_head c.hints h
  exact ⟨R, hR, by simp [hintPart, hR, m14]⟩

theorem hintPart_safe (c : CodeLine) (h : c.hints ≠ []) (Z : Str) : SafeTail (hintPart c ++ Z) := by
  right; right
  unfold hintPart
  cases c.pad with
  | zero => exact Or.inr ⟨m13.tail ++ renderHints c.hints ++ Z, by simp [m13]⟩
  | succ k =>
    left
    cases k with
    | zero => exact ⟨'#', m13.tail ++ renderHints c.hints ++ Z, by simp [m13], Or.inr rfl⟩
    | succ k =>
      exact ⟨' ', List.replicate k ' ' ++ (m13 ++ renderHints c.hints) ++ Z, by simp [List.replicate_succ], Or.inl rfl⟩

structure OkCode (O : CharOracle) (c : CodeLine) : Prop where
  nonl : '\n' ∉ c.code
  nom : noM13 c.code = true
  notrail : ∀ x, c.code.getLast? = some x → (isSpacePy O) x = false
  hinted : c.hints ≠ [] → c.code ≠ []
  clean : ∀ h ∈ c.hints, (Clean O) h.label

theorem okCode_of (c : CodeLine) (h : (okCode O) c = true) : (OkCode O) c := by
  simp only [okCode, Bool.and_eq_true, Bool.or_eq_true, List.all_eq_true, noNL_iff] at h
  obtain ⟨⟨⟨⟨h1, h2⟩, h3⟩, h4⟩, h5⟩ := h
  refine ⟨h1, h2, ?_, ?_, fun x hx => clean_of _ (h5 x hx)⟩
  · intro x hx; simpa [noTrailWs, hx] using h3
  · intro hne
    rcases h4 with h4 | h4
    · simp at h4; exact absurd h4 hne
    · simpa using h4

/-- The hint comment of a code line, tokenised. -/
theorem hintTokens_renderCode (c : CodeLine) (ok : (OkCode O) c) :
    (hintTokens O) (renderCode c) = c.hints.map renderHint := by
  by_cases h : c.hints = []
  · simp [renderCode_plain c h, hintTokens, partitionAt_none (hasInfix_m14_false ok.nom), h]
  · obtain ⟨R, hR, hP⟩ := hintPart_eq c h
    rw [renderCode_hinted c h, hP, hintTokens, partitionAt_code _ _ _ ok.nom]
    simp only
    have : (splitWs O) R = (splitWs O) (renderHints c.hints) := by
      rw [hR, splitWs_space _ _ (by cdec)]
    rw [this, splitWs_renderHints _ ok.clean]

theorem renderCode_noNL (c : CodeLine) (ok : (OkCode O) c) : '\n' ∉ renderCode c := by
  by_cases h : c.hints = []
  · rw [renderCode_plain c h]; exact ok.nonl
  · rw [renderCode_hinted c h]
    simp only [hintPart, List.mem_append, not_or]
    exact ⟨ok.nonl, by simp [List.mem_replicate], by simp [m13], renderHints_noNL _ ok.clean⟩

/-! ### Looking ahead for a hint comment -/

theorem dropWhile_append_of_exists {p : Char → Bool} (a Y : Str) (h : ∃ c ∈ a, p c = false) :
    (a ++ Y).dropWhile p = a.dropWhile p ++ Y := by
  induction a with
  | nil => simp at h
  | cons c t ih =>
    by_cases hc : p c = true
    · obtain ⟨x, hx, hpx⟩ := h
      rcases List.mem_cons.mp hx with rfl | hx
      · simp [hc] at hpx
      · simp [List.dropWhile_cons, hc, ih ⟨x, hx, hpx⟩]
    · simp [List.dropWhile_cons, hc]

theorem dropWhile_ne_nil_of_exists {p : Char → Bool} (a : Str) (h : ∃ c ∈ a, p c = false) :
    a.dropWhile p ≠ [] := by
  induction a with
  | nil => simp at h
  | cons c t ih =>
    by_cases hc : p c = true
    · obtain ⟨x, hx, hpx⟩ := h
      rcases List.mem_cons.mp hx with rfl | hx
      · simp [hc] at hpx
      · simp [List.dropWhile_cons, hc, ih ⟨x, hx, hpx⟩]
    · simp [List.dropWhile_cons, hc]

/-- Code that is not blank at its end is not followed, white space skipped, by a hint marker. -/
theorem hintAhead_code (a Y : Str) (ha : a ≠ []) (hm : noM13 a = true)
    (ht : ∀ x, a.getLast? = some x → (isSpacePy O) x = false) (hY : SafeTail Y) :
    (hintAhead O) (a ++ Y) = false := by
  have hex : ∃ c ∈ a, (isSpacePy O) c = false := by
    obtain ⟨x, hx⟩ : ∃ x, a.getLast? = some x := by
      cases h : a.getLast? with
      | none => simp at h; exact absurd h ha
      | some x => exact ⟨x, rfl⟩
    exact ⟨x, List.mem_of_getLast? hx, ht x hx⟩
  unfold hintAhead
  rw [dropWhile_append_of_exists a Y hex]
  exact no_m13_prefix _ Y (dropWhile_ne_nil_of_exists a hex)
    (noM13_of_infix hm (List.dropWhile_suffix _).isInfix) hY

theorem dropWhile_spaces_gen (p : Char → Bool) (hp : p ' ' = true) (n : Nat) (R : Str)
    (hR : ∀ c, R.head? = some c → p c = false) :
    (List.replicate n ' ' ++ R).dropWhile p = R := by
  induction n with
  | zero =>
    cases R with
    | nil => rfl
    | cons c t => simp [List.dropWhile_cons, hR c rfl]
  | succ n ih =>
    rw [List.replicate_succ, List.cons_append, List.dropWhile_cons_of_pos hp, ih]

theorem dropWhile_spaces (n : Nat) (R : Str) (hR : ∀ c, R.head? = some c → (isSpacePy O) c = false) :
    (List.replicate n ' ' ++ R).dropWhile (isSpacePy O) = R :=
  dropWhile_spaces_gen (isSpacePy O) (by cdec) n R hR

theorem dropWhile_spaces_re (n : Nat) (R : Str) (hR : ∀ c, R.head? = some c → (isSpaceRe O) c = false) :
    (List.replicate n ' ' ++ R).dropWhile (isSpaceRe O) = R :=
  dropWhile_spaces_gen (isSpaceRe O) (by cdec) n R hR

theorem isolatedRest_isolated (n : Nat) (L : Str) :
    (isolatedRest O) (List.replicate n ' ' ++ (m14 ++ L)) = some L := by
  have h1 := dropWhile_spaces (O := O) n (m14 ++ L) (by intro c hc; simp [m14, m13] at hc; subst hc; cdec)
  simp only [isolatedRest, h1]
  simp [m14, m13, List.isPrefixOf_cons_cons]

theorem suffix_getLast? {a s : Str} (h : a <:+ s) (ha : a ≠ []) : a.getLast? = s.getLast? := by
  obtain ⟨t, rfl⟩ := h
  cases a with
  | nil => exact absurd rfl ha
  | cons c r => rw [List.getLast?_append, List.getLast?_cons]; rfl

/-- The marker is not in sight, white space skipped, from the beginning of a piece of code. -/
theorem m13_ahead_code (a Y : Str) (ha : a ≠ []) (hm : noM13 a = true)
    (ht : ∀ x, a.getLast? = some x → (isSpacePy O) x = false) (hY : SafeTail Y) :
    m13.isPrefixOf ((a ++ Y).dropWhile (isSpacePy O)) = false := by
  have hex : ∃ c ∈ a, (isSpacePy O) c = false := by
    obtain ⟨x, hx⟩ : ∃ x, a.getLast? = some x := by
      cases h : a.getLast? with
      | none => simp at h; exact absurd h ha
      | some x => exact ⟨x, rfl⟩
    exact ⟨x, List.mem_of_getLast? hx, ht x hx⟩
  rw [dropWhile_append_of_exists a Y hex]
  exact no_m13_prefix _ Y (dropWhile_ne_nil_of_exists a hex)
    (noM13_of_infix hm (List.dropWhile_suffix _).isInfix) hY

theorem isolatedRest_renderCode (c : CodeLine) (ok : (OkCode O) c) : (isolatedRest O) (renderCode c) = none := by
  have key : m13.isPrefixOf ((renderCode c).dropWhile (isSpacePy O)) = false := by
    by_cases hcode : c.code = []
    · have hh : c.hints = [] := by
        by_cases h : c.hints = []
        · exact h
        · exact absurd hcode (ok.hinted h)
      simp [renderCode_plain c hh, hcode, m13]
    · by_cases h : c.hints = []
      · rw [renderCode_plain c h]
        simpa using m13_ahead_code c.code [] hcode ok.nom ok.notrail (Or.inl rfl)
      · rw [renderCode_hinted c h]
        simpa using m13_ahead_code c.code (hintPart c ++ []) hcode ok.nom ok.notrail (hintPart_safe c h [])
  simp [isolatedRest, key]

/-! ### `sub_hints` on a decorated text -/

theorem subHints_code (a Y : Str) (hm : noM13 a = true)
    (ht : ∀ x, a.getLast? = some x → (isSpacePy O) x = false) (hY : SafeTail Y) :
    (subHints O) false (a ++ Y) = a ++ (subHints O) false Y := by
  induction a with
  | nil => rfl
  | cons c t ih =>
    have h0 := hintAhead_code (c :: t) Y (by simp) hm ht hY
    have ht' : ∀ x, t.getLast? = some x → (isSpacePy O) x = false := by
      intro x hx
      apply ht x
      cases t with
      | nil => simp at hx
      | cons d r => simpa using hx
    simp only [List.cons_append] at h0 ⊢
    simp [subHints, h0, ih (noM13_tail hm) ht']

theorem subHints_skip (X R : Str) (h : '\n' ∉ X) : (subHints O) true (X ++ R) = (subHints O) true R := by
  induction X with
  | nil => rfl
  | cons c t ih =>
    have hc : c ≠ '\n' := fun e => h (by simp [e])
    simp [subHints, hc, ih (fun e => h (by simp [e]))]

theorem subHints_true_nil : (subHints O) true [] = [] := rfl

theorem hintPart_noNL (c : CodeLine) (ok : (OkCode O) c) : '\n' ∉ hintPart c := by
  simp only [hintPart, List.mem_append, not_or]
  exact ⟨by simp [List.mem_replicate], by simp [m13], renderHints_noNL _ ok.clean⟩

theorem hintAhead_hintPart (c : CodeLine) (h : c.hints ≠ []) (Z : Str) : (hintAhead O) (hintPart c ++ Z) = true := by
  obtain ⟨R, _, hP⟩ := hintPart_eq c h
  unfold hintAhead
  rw [hP, List.append_assoc, dropWhile_spaces _ _ (by intro x hx; simp [m14, m13] at hx; subst hx; cdec)]
  simp [m14, m13, List.isPrefixOf_cons_cons]

/-- The hint comment of a line is deleted up to the end of the line. -/
theorem subHints_hintPart (c : CodeLine) (ok : (OkCode O) c) (h : c.hints ≠ []) (Z : Str) :
    (subHints O) false (hintPart c ++ Z) = (subHints O) true Z := by
  have ha := hintAhead_hintPart (O := O) c h Z
  have hn := hintPart_noNL c ok
  have : ∃ x, hintPart c = x :: (hintPart c).tail := by
    cases hP : hintPart c with
    | nil => have := congrArg List.length hP; simp [hintPart, m13] at this
    | cons x t => exact ⟨x, rfl⟩
  obtain ⟨x, this⟩ := this
  rw [this] at ha hn ⊢
  simp only [List.cons_append] at ha ⊢
  simp only [subHints, Bool.false_and, ha, if_true, Bool.false_eq_true, if_false]
  exact subHints_skip _ _ (fun e => hn (List.mem_cons_of_mem _ e))

theorem subHints_nl (b : Bool) (T : Str) (h : (hintAhead O) T = false) :
    (subHints O) b ('\n' :: T) = '\n' :: (subHints O) false T := by
  have : (hintAhead O) ('\n' :: T) = false := by
    unfold hintAhead at h ⊢
    rw [List.dropWhile_cons_of_pos (by cdec)]; exact h
  cases b <;> simp [subHints, this]

def plainLines (cs : List CodeLine) : List Str := cs.map (·.code)

theorem joinNL_cons_cons (l l2 : Str) (ls : List Str) : joinNL (l :: l2 :: ls) = l ++ '\n' :: joinNL (l2 :: ls) := rfl

/-- No marker is in sight from the beginning of a decorated text or of one of its line breaks. -/
theorem hintAhead_lines (cs : List CodeLine) (ok : ∀ c ∈ cs, (OkCode O) c) :
    (hintAhead O) (joinNL (cs.map renderCode)) = false := by
  induction cs with
  | nil => simp [joinNL, hintAhead, m14, m13]
  | cons c t ih =>
    have okc := ok c (by simp)
    have iht := ih (fun x hx => ok x (List.mem_cons_of_mem _ hx))
    by_cases hcode : c.code = []
    · have hh : c.hints = [] := by
        by_cases h : c.hints = []
        · exact h
        · exact absurd hcode (okc.hinted h)
      cases t with
      | nil => simp [joinNL, renderCode_plain c hh, hcode, hintAhead, m14, m13]
      | cons c2 t2 =>
        simp only [List.map_cons, joinNL_cons_cons, renderCode_plain c hh, hcode, List.nil_append]
        simp only [List.map_cons] at iht
        unfold hintAhead at iht ⊢
        rw [List.dropWhile_cons_of_pos (by cdec)]
        exact iht
    · cases t with
      | nil =>
        simp only [List.map_cons, List.map_nil, joinNL]
        by_cases h : c.hints = []
        · rw [renderCode_plain c h]
          simpa using hintAhead_code c.code [] hcode okc.nom okc.notrail (Or.inl rfl)
        · rw [renderCode_hinted c h]
          simpa using hintAhead_code c.code (hintPart c ++ []) hcode okc.nom okc.notrail (hintPart_safe c h [])
      | cons c2 t2 =>
        simp only [List.map_cons, joinNL_cons_cons]
        by_cases h : c.hints = []
        · rw [renderCode_plain c h]
          exact hintAhead_code c.code _ hcode okc.nom okc.notrail (Or.inr (Or.inl ⟨_, rfl⟩))
        · rw [renderCode_hinted c h, List.append_assoc]
          exact hintAhead_code c.code _ hcode okc.nom okc.notrail (hintPart_safe c h _)

/-- **`sub_hints` removes exactly the hint comments** of a decorated text without isolated hints. -/
theorem subHints_lines (cs : List CodeLine) (ok : ∀ c ∈ cs, (OkCode O) c) :
    (subHints O) false (joinNL (cs.map renderCode)) = joinNL (plainLines cs) := by
  induction cs with
  | nil => rfl
  | cons c t ih =>
    have okc := ok c (by simp)
    have okt : ∀ x ∈ t, (OkCode O) x := fun x hx => ok x (List.mem_cons_of_mem _ hx)
    have iht := ih okt
    cases t with
    | nil =>
      simp only [List.map_cons, List.map_nil, joinNL, plainLines]
      by_cases h : c.hints = []
      · rw [renderCode_plain c h]
        simpa [subHints] using subHints_code c.code [] okc.nom okc.notrail (Or.inl rfl)
      · rw [renderCode_hinted c h]
        have h1 := subHints_code c.code (hintPart c ++ []) okc.nom okc.notrail (hintPart_safe c h [])
        have h2 := subHints_hintPart c okc h []
        simp only [List.append_nil] at h1 h2
        rw [h1, h2]; simp [subHints]
    | cons c2 t2 =>
      have hah := hintAhead_lines (c2 :: t2) okt
      have hnl := subHints_nl true _ hah
      have hnl' := subHints_nl false _ hah
      simp only [List.map_cons, joinNL_cons_cons, plainLines] at iht hnl hnl' ⊢
      by_cases h : c.hints = []
      · rw [renderCode_plain c h, subHints_code c.code _ okc.nom okc.notrail (Or.inr (Or.inl ⟨_, rfl⟩)), hnl', iht]
      · rw [renderCode_hinted c h, List.append_assoc,
          subHints_code c.code _ okc.nom okc.notrail (hintPart_safe c h _),
          subHints_hintPart c okc h, hnl, iht]

end Paroxy.Hints
