/-
For EVERY text: the source `get_program` stores shows no hint marker `# paroxython:` any more
(`source_noMarker`). This is the repaired finding F46 as a theorem: `remove_hints` deletes the hint
comments with or without a space after the colon.
-/
import Paroxy.Proofs.HintsSpaced
namespace Paroxy.Hints

variable {O : CharOracle}

theorem subHints_true_noNL (t : Str) (h : '\n' ∉ t) : (subHints O) true t = [] := by
  have := subHints_skip (O := O) t [] h
  simpa [subHints] using this

/-- On a single line `sub_hints` keeps a prefix of the line. -/
theorem subHints_prefix (l : Str) (h : '\n' ∉ l) : (subHints O) false l <+: l := by
  induction l with
  | nil => simp [subHints]
  | cons c t ih =>
    have ht : '\n' ∉ t := fun e => h (List.mem_cons_of_mem _ e)
    simp only [subHints, Bool.false_and, Bool.false_eq_true, if_false]
    split
    · rw [subHints_true_noNL t ht]; exact List.nil_prefix
    · exact (List.cons_prefix_cons).mpr ⟨rfl, ih ht⟩

/-- What `sub_hints` keeps of a line shows no marker. -/
theorem subHints_noM13 (l : Str) (h : '\n' ∉ l) : hasInfix m13 ((subHints O) false l) = false := by
  induction l with
  | nil => simp [subHints, hasInfix, m13]
  | cons c t ih =>
    have ht : '\n' ∉ t := fun e => h (List.mem_cons_of_mem _ e)
    simp only [subHints, Bool.false_and, Bool.false_eq_true, if_false]
    split
    · rw [subHints_true_noNL t ht]; simp [hasInfix, m13]
    · rename_i hah
      simp only [hasInfix, ih ht, Bool.or_false]
      rw [← Bool.not_eq_true, List.isPrefixOf_iff_prefix]
      intro hp
      apply hah
      have hp2 : m13 <+: c :: t := hp.trans ((List.cons_prefix_cons).mpr ⟨rfl, subHints_prefix t ht⟩)
      have hc : c = '#' := by
        obtain ⟨s, hs⟩ := hp2
        simp [m13] at hs
        exact hs.1.symm
      subst hc
      unfold hintAhead
      rw [List.dropWhile_cons_of_neg (by cdec), List.isPrefixOf_iff_prefix]
      exact hp2

theorem prefix_before_sep {p a b : Str} {sep : Char} (hs : sep ∉ p) (h : p <+: a ++ sep :: b) : p <+: a := by
  by_cases hlen : p.length ≤ a.length
  · exact List.prefix_of_prefix_length_le h (List.prefix_append a _) hlen
  · exfalso
    have h2 : (a ++ [sep]) <+: a ++ sep :: b := ⟨b, by simp⟩
    have h3 : (a ++ [sep]) <+: p := List.prefix_of_prefix_length_le h2 h (by simp; omega)
    exact hs (h3.subset (by simp))

/-- A text that does not contain the separator occurs on one side of it. -/
theorem infix_sep {p a b : Str} {sep : Char} (hs : sep ∉ p) (h : p <:+: a ++ sep :: b) : p <:+: a ∨ p <:+: b := by
  induction a with
  | nil =>
    rcases List.infix_cons_iff.mp (by simpa using h) with h | h
    · exact Or.inl (prefix_before_sep (a := []) hs (by simpa using h)).isInfix
    · exact Or.inr h
  | cons x a ih =>
    rcases List.infix_cons_iff.mp (by simpa using h) with h | h
    · exact Or.inl (prefix_before_sep (a := x :: a) hs (by simpa using h)).isInfix
    · rcases ih h with h | h
      · exact Or.inl (List.infix_cons h)
      · exact Or.inr h

theorem joinNL_noM13 (ls : List Str) (h : ∀ l ∈ ls, hasInfix m13 l = false) : hasInfix m13 (joinNL ls) = false := by
  induction ls with
  | nil => simp [joinNL, hasInfix, m13]
  | cons l t ih =>
    cases t with
    | nil => simpa [joinNL] using h l (by simp)
    | cons l2 t2 =>
      rw [joinNL_cons_cons, ← Bool.not_eq_true, hasInfix_iff]
      intro hin
      rcases infix_sep (by cdec) hin with h1 | h1
      · have := h l (by simp)
        rw [← Bool.not_eq_true, hasInfix_iff] at this
        exact this h1
      · have := ih (fun x hx => h x (List.mem_cons_of_mem _ hx))
        rw [← Bool.not_eq_true, hasInfix_iff] at this
        exact this h1

theorem stripPy_infix (s : Str) : (stripPy O) s <:+: s := by
  unfold stripPy
  have h1 : ((s.dropWhile (isSpacePy O)).reverse.dropWhile (isSpacePy O)).reverse <+: s.dropWhile (isSpacePy O) := by
    rw [← List.reverse_suffix, List.reverse_reverse]
    exact List.dropWhile_suffix _
  exact h1.isInfix.trans (List.dropWhile_suffix _).isInfix

/-- **Every text**: the stored source shows no hint marker. -/
theorem source_noMarker (src : Str) (p : Program) (h : (getProgram O) src = .ok p) :
    hasInfix m13 p.source = false := by
  cases hc : (centrifugate O) ((prepare O) src) with
  | error e => unfold getProgram getProgramFrom at h; simp [hc] at h
  | ok c =>
    have hps : p.source = (removeHints O) c := by
      unfold getProgram getProgramFrom at h
      simp only [hc] at h
      split at h
      · cases h
      · cases h; rfl
    rw [hps]
    rcases centrifugate_structure _ c (prepare_spaced src) hc with rfl | ⟨ls, hne, rfl, hgood, _, _, _⟩
    · simp [removeHints, subHints, stripPy, hasInfix, m13]
    · have hnl : ∀ l ∈ ls.map (fun p => p.1 ++ p.2), '\n' ∉ l := by
        intro l hl; simp only [List.mem_map] at hl; obtain ⟨q, hq, rfl⟩ := hl; exact (hgood q hq).nonl
      have hah : ∀ l ∈ ls.map (fun p => p.1 ++ p.2), (hintAhead O) l = false := by
        intro l hl; simp only [List.mem_map] at hl; obtain ⟨q, hq, rfl⟩ := hl; exact (hgood q hq).ahead
      rw [removeHints, subHints_joinNL _ hnl hah]
      have hj := joinNL_noM13 ((ls.map fun p => p.1 ++ p.2).map ((subHints O) false)) (by
        intro k hk
        simp only [List.mem_map] at hk
        obtain ⟨l, hl, rfl⟩ := hk
        exact subHints_noM13 l (hnl l (by simpa using hl)))
      rw [← Bool.not_eq_true, hasInfix_iff] at hj ⊢
      exact fun hin => hj (hin.trans (stripPy_infix _))

end Paroxy.Hints
