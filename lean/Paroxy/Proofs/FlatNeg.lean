/-
C15 helper lemmas, part 7: `simplify_negative_literals` as a tree-level tweak.
-/
import Paroxy.Proofs.FlatBackport
namespace Paroxy.Flat

/-! ## The scan -/

theorem neg_keep {l : Str} (L : List Str) (h : stripSuffix? unaryMark l = none) :
    simplifyNegativeLiterals (l :: L) = l :: simplifyNegativeLiterals L := by
  rw [simplifyNegativeLiterals]; simp [h]

theorem neg_nomatch1 {l g : Str} (L : List Str) (h : stripSuffix? unaryMark l = some g)
    (h1 : firstIdx (fun x => x == g ++ cs!"/op/_type=USub") (nonEmptyRun L) = none) :
    simplifyNegativeLiterals (l :: L) = l :: simplifyNegativeLiterals L := by
  rw [simplifyNegativeLiterals]; simp [h, h1]

theorem neg_nomatch2 {l g : Str} (L : List Str) (k : Nat) (h : stripSuffix? unaryMark l = some g)
    (h1 : firstIdx (fun x => x == g ++ cs!"/op/_type=USub") (nonEmptyRun L) = some k)
    (h2 : firstIdx (startsWithMore (g ++ cs!"/operand/n=")) ((nonEmptyRun L).drop (k + 1)) = none) :
    simplifyNegativeLiterals (l :: L) = l :: simplifyNegativeLiterals L := by
  rw [simplifyNegativeLiterals]; simp [h, h1, h2]

theorem firstIdx_none {p : Str → Bool} : ∀ {A : List Str}, (∀ x ∈ A, p x = false) → firstIdx p A = none
  | [], _ => rfl
  | a :: A, h => by
    simp [firstIdx, h a (by simp), firstIdx_none (fun x hx => h x (List.mem_cons_of_mem _ hx))]

theorem firstIdx_append_cons {p : Str → Bool} {y : Str} (B : List Str) (hy : p y = true) :
    ∀ (A : List Str), (∀ x ∈ A, p x = false) → firstIdx p (A ++ y :: B) = some A.length
  | [], _ => by simp [firstIdx, hy]
  | a :: A, h => by
    simp [firstIdx, h a (by simp), firstIdx_append_cons B hy A (fun x hx => h x (List.mem_cons_of_mem _ hx))]

theorem strip_unary_typeLine {pre : Str} : stripSuffix? unaryMark (typeLine pre cs!"UnaryOp") = some pre := by
  have : typeLine pre cs!"UnaryOp" = pre ++ unaryMark := by simp [typeLine]
  rw [this]
  simp [stripSuffix?, List.isSuffixOf_iff_suffix]

/-- The block of a `-literal`: type line, own lines `A`, the `USub` line, lines `B` (type / hash /
position of the operand), the `n` line, then the rest. -/
theorem neg_block (pre rv : Str) (A B R : List Str) (hrv : rv ≠ [])
    (hA : ∀ a ∈ A, a ≠ [] ∧ (a == pre ++ cs!"/op/_type=USub") = false)
    (hB : ∀ b ∈ B, b ≠ [] ∧ startsWithMore (pre ++ cs!"/operand/n=") b = false)
    (hR : ∀ l ∈ R, l ≠ []) :
    simplifyNegativeLiterals (typeLine pre cs!"UnaryOp" ::
        (A ++ (pre ++ cs!"/op/_type=USub") :: (B ++ ((pre ++ cs!"/operand/n=") ++ rv) :: R))) =
      typeLine pre cs!"Num" :: (A ++ [pre ++ cs!"/n=-" ++ rv] ++ simplifyNegativeLiterals R) := by
  have hlen : 0 < rv.length := List.length_pos_iff.mpr hrv
  have hne : ∀ l ∈ A ++ (pre ++ cs!"/op/_type=USub") :: (B ++ ((pre ++ cs!"/operand/n=") ++ rv) :: R), l ≠ [] := by
    intro l hl
    simp only [List.mem_append, List.mem_cons] at hl
    rcases hl with hl | rfl | hl | rfl | hl
    · exact (hA l hl).1
    · simp
    · exact (hB l hl).1
    · simp
    · exact hR l hl
  have h1 : firstIdx (fun x => x == pre ++ cs!"/op/_type=USub")
      (nonEmptyRun (A ++ (pre ++ cs!"/op/_type=USub") :: (B ++ ((pre ++ cs!"/operand/n=") ++ rv) :: R))) =
      some A.length := by
    rw [nonEmptyRun_eq hne]
    exact firstIdx_append_cons _ (by simp) A (fun a ha => (hA a ha).2)
  have hdrop1 : (A ++ (pre ++ cs!"/op/_type=USub") :: (B ++ ((pre ++ cs!"/operand/n=") ++ rv) :: R)).drop (A.length + 1) =
      B ++ ((pre ++ cs!"/operand/n=") ++ rv) :: R := by
    have e : A ++ (pre ++ cs!"/op/_type=USub") :: (B ++ ((pre ++ cs!"/operand/n=") ++ rv) :: R) =
        (A ++ [pre ++ cs!"/op/_type=USub"]) ++ (B ++ ((pre ++ cs!"/operand/n=") ++ rv) :: R) := by simp
    rw [e]; exact List.drop_left' (by simp)
  have hkey : startsWithMore (pre ++ cs!"/operand/n=") ((pre ++ cs!"/operand/n=") ++ rv) = true := by
    simp [startsWithMore, List.isPrefixOf_iff_prefix]; omega
  have h2 : firstIdx (startsWithMore (pre ++ cs!"/operand/n="))
      ((nonEmptyRun (A ++ (pre ++ cs!"/op/_type=USub") :: (B ++ ((pre ++ cs!"/operand/n=") ++ rv) :: R))).drop
        (A.length + 1)) = some B.length := by
    rw [nonEmptyRun_eq hne, hdrop1]
    exact firstIdx_append_cons _ hkey B (fun b hb => (hB b hb).2)
  rw [simplifyNegativeLiterals]
  simp only [strip_unary_typeLine, h1, h2]
  have hsplit : A ++ (pre ++ cs!"/op/_type=USub") :: (B ++ ((pre ++ cs!"/operand/n=") ++ rv) :: R) =
      (A ++ (pre ++ cs!"/op/_type=USub") :: B) ++ ((pre ++ cs!"/operand/n=") ++ rv) :: R := by simp
  have hl2 : (A ++ (pre ++ cs!"/op/_type=USub") :: B).length = A.length + 1 + B.length := by
    simp; omega
  have hget : (A ++ (pre ++ cs!"/op/_type=USub") :: (B ++ ((pre ++ cs!"/operand/n=") ++ rv) :: R)).getD
      (A.length + 1 + B.length) [] = (pre ++ cs!"/operand/n=") ++ rv := by
    rw [hsplit, List.getD_eq_getElem?_getD, List.getElem?_append_right (by omega)]
    simp [hl2]
  have htake : (A ++ (pre ++ cs!"/op/_type=USub") :: (B ++ ((pre ++ cs!"/operand/n=") ++ rv) :: R)).take A.length = A :=
    List.take_left
  have hdrop : (A ++ (pre ++ cs!"/op/_type=USub") :: (B ++ ((pre ++ cs!"/operand/n=") ++ rv) :: R)).drop
      (A.length + 1 + B.length + 1) = R := by
    have e : A ++ (pre ++ cs!"/op/_type=USub") :: (B ++ ((pre ++ cs!"/operand/n=") ++ rv) :: R) =
        ((A ++ (pre ++ cs!"/op/_type=USub") :: B) ++ [(pre ++ cs!"/operand/n=") ++ rv]) ++ R := by simp
    rw [e]; exact List.drop_left' (by simp; omega)
  rw [hget, htake, hdrop, List.drop_left]
  simp [typeLine]

/-! ## Lines that are not the type line of a `UnaryOp` -/

theorem unaryMark_eq : unaryMark = tyKey ++ '=' :: cs!"UnaryOp" := rfl

theorem unary_suffix_keyval {K V : Str} (hK : '=' ∉ K) (hV : '=' ∉ V) (h : unaryMark <:+ K ++ '=' :: V) :
    tyKey <:+ K ∧ V = cs!"UnaryOp" := by
  obtain ⟨X, hX⟩ := h
  have h' : (X ++ tyKey) ++ '=' :: cs!"UnaryOp" = K ++ '=' :: V := by rw [← hX]; simp
  obtain ⟨h1, h2⟩ := split_at_unique hK hV h'
  exact ⟨⟨X, h1⟩, h2.symm⟩

theorem stripU_none {l : Str} (h : ¬ unaryMark <:+ l) : stripSuffix? unaryMark l = none := by
  simp [stripSuffix?, List.isSuffixOf_iff_suffix, h]

theorem stripU_marker {pre lit V : Str} (head tail : Str) (hl : lit = head ++ tail)
    (h5 : tail.length = 5) (hne : tail ≠ cs!"_type") (hlit : '=' ∉ lit)
    (hpre : '=' ∉ pre) (hV : '=' ∉ V) : stripSuffix? unaryMark ((pre ++ lit) ++ '=' :: V) = none := by
  apply stripU_none
  intro hs
  obtain ⟨⟨X, h⟩, _⟩ := unary_suffix_keyval (not_mem_append_lit hpre hlit) hV hs
  have hs' : (cs!"_type") <:+ (pre ++ head) ++ tail :=
    ⟨X ++ cs!"/", by
      have e : pre ++ head ++ tail = pre ++ lit := by rw [hl]; simp
      rw [e, ← h]; simp [tyKey]⟩
  exact hne (suffix_same_length (by rw [h5]; rfl) hs').symm

theorem stripU_typeLine_ne {pre ty : Str} (hpre : '=' ∉ pre) (hty : '=' ∉ ty) (hne : (ty == cs!"UnaryOp") = false) :
    stripSuffix? unaryMark (typeLine pre ty) = none := by
  apply stripU_none
  intro hs
  have e : typeLine pre ty = (pre ++ tyKey) ++ '=' :: ty := by simp [typeLine]
  rw [e] at hs
  have := (unary_suffix_keyval (not_mem_append_lit hpre eq_not_mem_tyKey) hty hs).2
  rw [this] at hne; simp at hne

theorem hpLines_stripU (h : Str → Str) (hh : HashNoEq h) {pre path : Str} (e : Bool) (r : Str) (ln : Option Nat)
    (hpre : '=' ∉ pre) (hpath : '=' ∉ path) : ∀ l ∈ hpLines h pre path e r ln, stripSuffix? unaryMark l = none := by
  intro l hl
  simp only [hpLines, List.mem_append] at hl
  rcases hl with hl | hl
  · cases e with
    | false => simp at hl
    | true =>
      simp at hl; subst hl
      have : hashLine pre (h r) = (pre ++ cs!"/_hash") ++ '=' :: h r := by simp [hashLine]
      rw [this]; exact stripU_marker (cs!"/") (cs!"_hash") rfl rfl (by decide) (by decide) hpre (hh r)
  · cases ln with
    | none => simp at hl
    | some n =>
      simp at hl; subst hl
      have : posLine pre n path = (pre ++ cs!"/_pos") ++ '=' :: (dec n ++ ':' :: path.drop 2) := by simp [posLine]
      rw [this]
      refine stripU_marker [] (cs!"/_pos") rfl rfl (by decide) (by decide) hpre ?_
      simp only [List.mem_append, List.mem_cons, not_or]
      exact ⟨eq_not_mem_dec n, by decide, fun hm => hpath (List.mem_of_mem_drop hm)⟩

theorem neg_keep_list : ∀ (A L : List Str), (∀ l ∈ A, stripSuffix? unaryMark l = none) →
    simplifyNegativeLiterals (A ++ L) = A ++ simplifyNegativeLiterals L
  | [], _, _ => rfl
  | a :: A, L, h => by
    rw [List.cons_append, neg_keep _ (h a (by simp)), neg_keep_list A L (fun l hl => h l (List.mem_cons_of_mem _ hl))]
    rfl

/-! ## Own lines of a node against the two searched texts -/

theorem isPrefixOf_append_left : ∀ (pre A B : Str), (pre ++ A).isPrefixOf (pre ++ B) = A.isPrefixOf B
  | [], _, _ => rfl
  | c :: pre, A, B => by simp [List.isPrefixOf, isPrefixOf_append_left pre A B]

theorem hpLines_ne_usub (h : Str → Str) (pre path : Str) (e : Bool) (r : Str) (ln : Option Nat) :
    ∀ l ∈ hpLines h pre path e r ln, (l == pre ++ cs!"/op/_type=USub") = false := by
  intro l hl
  simp only [hpLines, List.mem_append] at hl
  rcases hl with hl | hl
  · cases e with
    | false => simp at hl
    | true => simp at hl; subst hl; simp [hashLine]
  · cases ln with
    | none => simp at hl
    | some n => simp at hl; subst hl; simp [posLine]

theorem hpLines_not_nkey (h : Str → Str) (pre path : Str) (e : Bool) (r : Str) (ln : Option Nat) :
    ∀ l ∈ hpLines h (subPre pre cs!"operand") path e r ln, startsWithMore (pre ++ cs!"/operand/n=") l = false := by
  intro l hl
  simp only [hpLines, List.mem_append] at hl
  rcases hl with hl | hl
  · cases e with
    | false => simp at hl
    | true => simp at hl; subst hl; simp [hashLine, subPre, startsWithMore, isPrefixOf_append_left, List.isPrefixOf]
  · cases ln with
    | none => simp at hl
    | some n => simp at hl; subst hl; simp [posLine, subPre, startsWithMore, isPrefixOf_append_left, List.isPrefixOf]

theorem typeLine_not_nkey (pre t2 : Str) :
    startsWithMore (pre ++ cs!"/operand/n=") (typeLine (subPre pre cs!"operand") t2) = false := by
  simp [typeLine, subPre, startsWithMore, isPrefixOf_append_left, List.isPrefixOf]

/-! ## The shape of a well-formed `UnaryOp` -/

theorem unaryOk_cases {fs : List (Str × Val)} (h : unaryOk fs = true) :
    ∃ t1 r1 t2 e2 r2 ln2 fs2, fs = [(cs!"op", .node t1 false r1 none []), (cs!"operand", .node t2 e2 r2 ln2 fs2)] ∧
      ((t1 == cs!"USub") = false ∨
        ((t1 == cs!"USub") = true ∧ ∃ rv k, fs2 = [(cs!"n", .scalar rv k)] ∧ rv ≠ []) ∨
        ((t1 == cs!"USub") = true ∧ cs!"n" ∉ fs2.map (·.1))) := by
  match fs, h with
  | [(n1, .node t1 e1 r1 ln1 fs1), (n2, .node t2 e2 r2 ln2 fs2)], h =>
    simp only [unaryOk, Bool.and_eq_true, Bool.or_eq_true, Bool.not_eq_true', beq_iff_eq,
      List.isEmpty_iff, Option.isNone_iff_eq_none] at h
    obtain ⟨⟨⟨⟨⟨hn1, hn2⟩, he1⟩, hl1⟩, hf1⟩, hrest⟩ := h
    subst hn1 hn2 he1 hl1 hf1
    refine ⟨t1, r1, t2, e2, r2, ln2, fs2, rfl, ?_⟩
    cases ht : (t1 == cs!"USub") with
    | false => exact Or.inl rfl
    | true =>
      right
      rcases hrest with hrest | hrest
      · rw [beq_eq_false_iff_ne] at hrest
        exact absurd (beq_iff_eq.mp ht) hrest
      · match fs2, hrest with
        | [(n3, .scalar rv k)], hrest =>
          simp only [Bool.or_eq_true, Bool.and_eq_true, beq_iff_eq, Bool.not_eq_true', List.isEmpty_eq_false_iff,
            beq_eq_false_iff_ne] at hrest
          rcases hrest with ⟨rfl, hrv⟩ | hne
          · exact Or.inl ⟨rfl, rv, k, rfl, hrv⟩
          · exact Or.inr ⟨rfl, by simpa using fun e => hne e.symm⟩
        | [], hrest => exact Or.inr ⟨rfl, by simp⟩
        | [(n3, .node _ _ _ _ _)], hrest => exact Or.inr ⟨rfl, by simpa using hrest⟩
        | [(n3, .list _ _)], hrest => exact Or.inr ⟨rfl, by simpa using hrest⟩
        | _ :: _ :: _, hrest => exact Or.inr ⟨rfl, by simpa using hrest⟩

theorem onlyN_none {t2 : Str} {e2 : Bool} {r2 : Str} {ln2 : Option Nat} {fs2 : List (Str × Val)}
    (h : cs!"n" ∉ fs2.map (·.1)) : onlyN (.node t2 e2 r2 ln2 fs2) = none := by
  match fs2, h with
  | [], _ => rfl
  | [(n3, .scalar rv k)], h =>
    have : (n3 == cs!"n") = false := by
      cases hb : n3 == cs!"n" with
      | false => rfl
      | true => exact absurd (by simp [beq_iff_eq.mp hb]) h
    simp [onlyN, this]
  | [(n3, .node _ _ _ _ _)], _ => rfl
  | [(n3, .list _ _)], _ => rfl
  | _ :: _ :: _, _ => simp [onlyN]

theorem negShape_ne_unary {ty : Str} (fs : List (Str × Val)) (h : (ty == cs!"UnaryOp") = false) :
    negShape ty fs = none := by simp [negShape, h]

theorem length_foldNegItems : ∀ xs : List Val, (foldNegItems xs).length = xs.length
  | [] => rfl
  | x :: xs => by simp [foldNegItems, length_foldNegItems xs]

/-! ## The whole dump -/

mutual
theorem neg_dumpP (h : Str → Str) (hh : HashNoEq h) : ∀ (v : Val) (pre path : Str) (R : List Str),
    '=' ∉ pre → '=' ∉ path → wfNeg pre v = true → RCond pre R →
    simplifyNegativeLiterals (dumpP h pre path v ++ R) =
      dumpP h pre path (foldNeg v) ++ simplifyNegativeLiterals R
  | .node ty e r ln fs, pre, path, R, hpre, hpath, hwf, hR => by
    simp only [wfNeg, Bool.and_eq_true] at hwf
    obtain ⟨⟨⟨⟨hty0, hnames⟩, hnodup⟩, hun⟩, hfs⟩ := hwf
    have hty : '=' ∉ ty := by simpa using hty0
    have hnd : (fs.map (·.1)).Nodup := by simpa using hnodup
    have ih := neg_dumpPFields h hh fs pre path 0 R hpre hpath hnames hnd hfs hR
    -- what happens once the type line is kept
    have generic : simplifyNegativeLiterals (hpLines h pre path e r ln ++ (dumpPFields h pre path 0 fs ++ R)) =
        hpLines h pre path e r ln ++ (dumpPFields h pre path 0 (foldNegFields fs) ++ simplifyNegativeLiterals R) := by
      rw [neg_keep_list _ _ (hpLines_stripU h hh e r ln hpre hpath), ih]
    have hsplitL : dumpP h pre path (.node ty e r ln fs) ++ R =
        typeLine pre ty :: (hpLines h pre path e r ln ++ (dumpPFields h pre path 0 fs ++ R)) := by
      rw [dumpP_node_eq]; simp
    cases hc : (ty == cs!"UnaryOp") with
    | false =>
      simp only [foldNeg, negShape_ne_unary fs hc]
      rw [hsplitL, neg_keep _ (stripU_typeLine_ne hpre hty hc), generic, dumpP_node_eq]; simp
    | true =>
      have hty' : ty = cs!"UnaryOp" := beq_iff_eq.mp hc
      subst hty'
      rw [hc] at hun
      simp only [if_true] at hun
      obtain ⟨t1, r1, t2, e2, r2, ln2, fs2, rfl, hcase⟩ := unaryOk_cases hun
      -- the lines of the two fields
      have hF : dumpPFields h pre path 0 [(cs!"op", Val.node t1 false r1 none []), (cs!"operand", Val.node t2 e2 r2 ln2 fs2)] =
          typeLine (subPre pre cs!"op") t1 ::
            (typeLine (subPre pre cs!"operand") t2 ::
              (hpLines h (subPre pre cs!"operand") (subPath path 1) e2 r2 ln2 ++
                dumpPFields h (subPre pre cs!"operand") (subPath path 1) 0 fs2)) := by
        simp [dumpPFields, dumpP_node_eq, hpLines]
      have hX : ∀ t, typeLine (subPre pre cs!"op") t = pre ++ cs!"/op/_type=" ++ t := by
        intro t; simp [typeLine, subPre]
      have hRne : ∀ l ∈ R, l ≠ [] := fun l hl => (hR l hl).1
      have hRX : ∀ l ∈ R, (l == pre ++ cs!"/op/_type=USub") = false := by
        intro l hl
        cases hb : l == pre ++ cs!"/op/_type=USub" with
        | false => rfl
        | true =>
          rw [beq_iff_eq] at hb
          exact absurd ⟨cs!"op/_type=USub", by rw [hb]; simp⟩ (hR l hl).2
      have hRK : ∀ l ∈ R, startsWithMore (pre ++ cs!"/operand/n=") l = false := by
        intro l hl
        cases hb : startsWithMore (pre ++ cs!"/operand/n=") l with
        | false => rfl
        | true =>
          simp only [startsWithMore, Bool.and_eq_true, List.isPrefixOf_iff_prefix] at hb
          obtain ⟨t, ht⟩ := hb.1
          exact absurd ⟨cs!"operand/n=" ++ t, by rw [← ht]; simp⟩ (hR l hl).2
      have hnames2 : (fs2.map (·.1)).all nameOk = true := by
        simp only [wfNegFields, wfNeg, Bool.and_eq_true] at hfs
        exact hfs.2.1.1.1.1.2
      -- lines of the operand's fields never start with the `n` key when no field is called `n`
      have hF2K : cs!"n" ∉ fs2.map (·.1) → ∀ l ∈ dumpPFields h (subPre pre cs!"operand") (subPath path 1) 0 fs2,
          startsWithMore (pre ++ cs!"/operand/n=") l = false := by
        intro hn l hl
        obtain ⟨n', hn', hu⟩ := under_dumpPFields h fs2 _ _ 0 l hl
        have hne : cs!"n" ≠ n' := fun e' => hn (e' ▸ hn')
        have := not_prefix_of_under_sibling (c := '=') (Or.inr rfl) (by decide : nameOk cs!"n" = true)
          (List.all_eq_true.mp hnames2 n' hn') hne hu
        cases hb : startsWithMore (pre ++ cs!"/operand/n=") l with
        | false => rfl
        | true =>
          simp only [startsWithMore, Bool.and_eq_true, List.isPrefixOf_iff_prefix] at hb
          exact absurd (by simpa [subPre] using hb.1) this
      -- lines of the operand are never the `USub` line
      have hOPDX : ∀ l ∈ typeLine (subPre pre cs!"operand") t2 ::
            (hpLines h (subPre pre cs!"operand") (subPath path 1) e2 r2 ln2 ++
              dumpPFields h (subPre pre cs!"operand") (subPath path 1) 0 fs2),
          (l == pre ++ cs!"/op/_type=USub") = false := by
        intro l hl
        have hl' : l ∈ dumpP h (subPre pre cs!"operand") (subPath path 1) (.node t2 e2 r2 ln2 fs2) := by
          rw [dumpP_node_eq]; exact hl
        have hu := under_dumpP h _ _ _ l hl'
        have := not_prefix_of_under_sibling (c := '/') (Or.inl rfl) (by decide : nameOk cs!"op" = true)
          (by decide : nameOk cs!"operand" = true) (by decide) hu
        cases hb : l == pre ++ cs!"/op/_type=USub" with
        | false => rfl
        | true =>
          rw [beq_iff_eq] at hb
          exact absurd ⟨cs!"_type=USub", by rw [hb]; simp [subPre]⟩ this
      have hne : ∀ t, ∀ l ∈ hpLines h pre path e r ln ++ (typeLine (subPre pre cs!"op") t ::
            (typeLine (subPre pre cs!"operand") t2 ::
              (hpLines h (subPre pre cs!"operand") (subPath path 1) e2 r2 ln2 ++
                dumpPFields h (subPre pre cs!"operand") (subPath path 1) 0 fs2)) ++ R), l ≠ [] := by
        intro t l hl
        simp only [List.mem_append, List.mem_cons] at hl
        rcases hl with hl | (rfl | rfl | hl | hl) | hl
        · exact hpLines_ne_nil h pre path e r ln l hl
        · simp [typeLine]
        · simp [typeLine]
        · exact hpLines_ne_nil h _ _ e2 r2 ln2 l hl
        · obtain ⟨n', _, hu⟩ := under_dumpPFields h fs2 _ _ 0 l hl
          exact hu.ne_nil
        · exact hRne l hl
      rw [hsplitL, hF]
      rcases hcase with ht1 | ⟨ht1, rv, k, rfl, hrv⟩ | ⟨ht1, hnon⟩
      · -- another operator: the `USub` line is nowhere
        have hshape : negShape cs!"UnaryOp" [(cs!"op", Val.node t1 false r1 none []),
            (cs!"operand", Val.node t2 e2 r2 ln2 fs2)] = none := by
          simp [negShape, isUSubNode, ht1]
        have h1 : firstIdx (fun x => x == pre ++ cs!"/op/_type=USub")
            (nonEmptyRun (hpLines h pre path e r ln ++ (typeLine (subPre pre cs!"op") t1 ::
              (typeLine (subPre pre cs!"operand") t2 ::
                (hpLines h (subPre pre cs!"operand") (subPath path 1) e2 r2 ln2 ++
                  dumpPFields h (subPre pre cs!"operand") (subPath path 1) 0 fs2)) ++ R))) = none := by
          rw [nonEmptyRun_eq (hne t1)]
          apply firstIdx_none
          intro x hx'
          simp only [List.mem_append, List.mem_cons] at hx'
          rcases hx' with hx' | (rfl | hx') | hx'
          · exact hpLines_ne_usub h pre path e r ln x hx'
          · rw [hX]
            cases hb : (pre ++ cs!"/op/_type=" ++ t1 == pre ++ cs!"/op/_type=USub") with
            | false => rfl
            | true =>
              rw [beq_iff_eq] at hb
              have : t1 = cs!"USub" := by simpa using hb
              rw [this] at ht1; simp at ht1
          · exact hOPDX x (by simpa [List.mem_append, List.mem_cons] using hx')
          · exact hRX x hx'
        rw [neg_nomatch1 _ strip_unary_typeLine h1, ← hF, generic]
        simp only [foldNeg, hshape]
        rw [dumpP_node_eq]; simp
      · -- `-literal`
        have ht1' : t1 = cs!"USub" := beq_iff_eq.mp ht1
        subst ht1'
        have hshape : negShape cs!"UnaryOp" [(cs!"op", Val.node cs!"USub" false r1 none []),
            (cs!"operand", Val.node t2 e2 r2 ln2 [(cs!"n", Val.scalar rv k)])] = some (rv, k) := by
          simp [negShape, isUSubNode, onlyN]
        have hN : dumpPFields h (subPre pre cs!"operand") (subPath path 1) 0 [(cs!"n", Val.scalar rv k)] =
            [(pre ++ cs!"/operand/n=") ++ rv] := by
          simp [dumpPFields, dumpP, scalarLine, subPre]
        rw [hN, hX]
        have hblock := neg_block pre rv (hpLines h pre path e r ln)
          (typeLine (subPre pre cs!"operand") t2 :: hpLines h (subPre pre cs!"operand") (subPath path 1) e2 r2 ln2) R hrv
          (fun a ha => ⟨hpLines_ne_nil h pre path e r ln a ha, hpLines_ne_usub h pre path e r ln a ha⟩)
          (by
            intro b hb
            rcases List.mem_cons.mp hb with rfl | hb
            · exact ⟨by simp [typeLine], typeLine_not_nkey pre t2⟩
            · exact ⟨hpLines_ne_nil h _ _ e2 r2 ln2 b hb, hpLines_not_nkey h pre _ e2 r2 ln2 b hb⟩)
          hRne
        have e1 : hpLines h pre path e r ln ++ ((pre ++ cs!"/op/_type=" ++ cs!"USub") ::
              (typeLine (subPre pre cs!"operand") t2 ::
                (hpLines h (subPre pre cs!"operand") (subPath path 1) e2 r2 ln2 ++ [(pre ++ cs!"/operand/n=") ++ rv])) ++ R) =
            hpLines h pre path e r ln ++ (pre ++ cs!"/op/_type=USub") ::
              ((typeLine (subPre pre cs!"operand") t2 :: hpLines h (subPre pre cs!"operand") (subPath path 1) e2 r2 ln2) ++
                ((pre ++ cs!"/operand/n=") ++ rv) :: R) := by simp
        rw [e1, hblock]
        simp only [foldNeg, hshape]
        rw [dumpP_node_eq]
        simp [dumpPFields, dumpP, scalarLine, subPre]
      · -- `USub` without a literal operand: the `n` line is nowhere
        have ht1' : t1 = cs!"USub" := beq_iff_eq.mp ht1
        subst ht1'
        have hshape : negShape cs!"UnaryOp" [(cs!"op", Val.node cs!"USub" false r1 none []),
            (cs!"operand", Val.node t2 e2 r2 ln2 fs2)] = none := by
          simp [negShape, isUSubNode, onlyN_none hnon]
        have hne := hne cs!"USub"
        have h1 : firstIdx (fun x => x == pre ++ cs!"/op/_type=USub")
            (nonEmptyRun (hpLines h pre path e r ln ++ (typeLine (subPre pre cs!"op") cs!"USub" ::
              (typeLine (subPre pre cs!"operand") t2 ::
                (hpLines h (subPre pre cs!"operand") (subPath path 1) e2 r2 ln2 ++
                  dumpPFields h (subPre pre cs!"operand") (subPath path 1) 0 fs2)) ++ R))) =
            some (hpLines h pre path e r ln).length := by
          rw [nonEmptyRun_eq hne]
          exact firstIdx_append_cons _ (by rw [hX]; simp) _ (hpLines_ne_usub h pre path e r ln)
        have h2 : firstIdx (startsWithMore (pre ++ cs!"/operand/n="))
            ((nonEmptyRun (hpLines h pre path e r ln ++ (typeLine (subPre pre cs!"op") cs!"USub" ::
              (typeLine (subPre pre cs!"operand") t2 ::
                (hpLines h (subPre pre cs!"operand") (subPath path 1) e2 r2 ln2 ++
                  dumpPFields h (subPre pre cs!"operand") (subPath path 1) 0 fs2)) ++ R))).drop
              ((hpLines h pre path e r ln).length + 1)) = none := by
          rw [nonEmptyRun_eq hne]
          apply firstIdx_none
          intro x hx
          have hx' := List.mem_of_mem_drop hx
          -- membership in the dropped list: use the explicit decomposition
          have hd : (hpLines h pre path e r ln ++ (typeLine (subPre pre cs!"op") cs!"USub" ::
              (typeLine (subPre pre cs!"operand") t2 ::
                (hpLines h (subPre pre cs!"operand") (subPath path 1) e2 r2 ln2 ++
                  dumpPFields h (subPre pre cs!"operand") (subPath path 1) 0 fs2)) ++ R)).drop
              ((hpLines h pre path e r ln).length + 1) =
              typeLine (subPre pre cs!"operand") t2 ::
                (hpLines h (subPre pre cs!"operand") (subPath path 1) e2 r2 ln2 ++
                  dumpPFields h (subPre pre cs!"operand") (subPath path 1) 0 fs2) ++ R := by
            have e2' : hpLines h pre path e r ln ++ (typeLine (subPre pre cs!"op") cs!"USub" ::
                (typeLine (subPre pre cs!"operand") t2 ::
                  (hpLines h (subPre pre cs!"operand") (subPath path 1) e2 r2 ln2 ++
                    dumpPFields h (subPre pre cs!"operand") (subPath path 1) 0 fs2)) ++ R) =
                (hpLines h pre path e r ln ++ [typeLine (subPre pre cs!"op") cs!"USub"]) ++
                  (typeLine (subPre pre cs!"operand") t2 ::
                    (hpLines h (subPre pre cs!"operand") (subPath path 1) e2 r2 ln2 ++
                      dumpPFields h (subPre pre cs!"operand") (subPath path 1) 0 fs2) ++ R) := by simp
            rw [e2']; exact List.drop_left' (by simp)
          rw [hd] at hx
          simp only [List.cons_append, List.mem_cons, List.mem_append] at hx
          rcases hx with rfl | (hx | hx) | hx
          · exact typeLine_not_nkey pre t2
          · exact hpLines_not_nkey h pre _ e2 r2 ln2 x hx
          · exact hF2K hnon x hx
          · exact hRK x hx
        rw [neg_nomatch2 _ _ strip_unary_typeLine h1 h2, ← hF, generic]
        simp only [foldNeg, hshape]
        rw [dumpP_node_eq]; simp
  | .list q xs, pre, path, R, hpre, hpath, hwf, hR => by
    simp only [wfNeg] at hwf
    have ih := neg_dumpPItems h hh xs pre path 1 R hpre hpath hwf hR
    have hL : stripSuffix? unaryMark (lengthLine pre xs.length) = none := by
      have : lengthLine pre xs.length = (pre ++ cs!"/_length") ++ '=' :: dec xs.length := by simp [lengthLine]
      rw [this]
      exact stripU_marker (cs!"/_l") (cs!"ength") rfl rfl (by decide) (by decide) hpre (eq_not_mem_dec _)
    have hlen := length_foldNegItems xs
    cases q with
    | true => simpa [dumpP, foldNeg] using ih
    | false =>
      simp only [dumpP, foldNeg, Bool.false_eq_true, if_false, List.cons_append, List.nil_append, hlen]
      rw [neg_keep _ hL, ih]
  | .scalar r k, pre, path, R, _, _, hwf, _ => by
    simp only [wfNeg, Bool.not_eq_true'] at hwf
    have hc : stripSuffix? unaryMark (scalarLine pre r) = none := by
      apply stripU_none
      intro hsuf
      rw [← List.isSuffixOf_iff_suffix] at hsuf
      rw [hsuf] at hwf; cases hwf
    simp only [dumpP, foldNeg, List.cons_append, List.nil_append]
    exact neg_keep _ hc
theorem neg_dumpPFields (h : Str → Str) (hh : HashNoEq h) :
    ∀ (fs : List (Str × Val)) (pre path : Str) (i : Nat) (R : List Str),
    '=' ∉ pre → '=' ∉ path → (fs.map (·.1)).all nameOk = true → (fs.map (·.1)).Nodup →
    wfNegFields pre fs = true → RCond pre R →
    simplifyNegativeLiterals (dumpPFields h pre path i fs ++ R) =
      dumpPFields h pre path i (foldNegFields fs) ++ simplifyNegativeLiterals R
  | [], _, _, _, _, _, _, _, _, _, _ => rfl
  | (n, v) :: rest, pre, path, i, R, hpre, hpath, hnames, hnd, hwf, hR => by
    simp only [wfNegFields, Bool.and_eq_true] at hwf
    simp only [List.map_cons, List.all_cons, Bool.and_eq_true] at hnames
    simp only [List.map_cons, List.nodup_cons] at hnd
    have hn := nameOk_iff.mp hnames.1
    have ih := neg_dumpPFields h hh rest pre path (i + 1) R hpre hpath hnames.2 hnd.2 hwf.2 hR
    have hR' : RCond (subPre pre n) (dumpPFields h pre path (i + 1) rest ++ R) := by
      intro l hl
      rcases List.mem_append.mp hl with hl | hl
      · obtain ⟨n', hn', hu⟩ := under_dumpPFields h rest pre path (i + 1) l hl
        have hne : n ≠ n' := fun e' => hnd.1 (e' ▸ hn')
        exact ⟨hu.ne_nil, not_prefix_of_under_sibling (c := '/') (Or.inl rfl) hnames.1
          (List.all_eq_true.mp hnames.2 n' hn') hne hu⟩
      · refine ⟨(hR l hl).1, fun hp => (hR l hl).2 ?_⟩
        obtain ⟨t, ht⟩ := hp
        exact ⟨n ++ '/' :: t, by rw [← ht]; simp [subPre]⟩
    have hv := neg_dumpP h hh v (subPre pre n) (subPath path i) _ (eq_not_mem_subPre hpre hn.1)
      (eq_not_mem_subPath i hpath) hwf.1 hR'
    simp only [dumpPFields, foldNegFields, List.append_assoc]
    rw [hv, ih]
theorem neg_dumpPItems (h : Str → Str) (hh : HashNoEq h) :
    ∀ (xs : List Val) (pre path : Str) (i : Nat) (R : List Str),
    '=' ∉ pre → '=' ∉ path → wfNegItems pre i xs = true → RCond pre R →
    simplifyNegativeLiterals (dumpPItems h pre path i xs ++ R) =
      dumpPItems h pre path i (foldNegItems xs) ++ simplifyNegativeLiterals R
  | [], _, _, _, _, _, _, _, _ => rfl
  | v :: rest, pre, path, i, R, hpre, hpath, hwf, hR => by
    simp only [wfNegItems, Bool.and_eq_true] at hwf
    have ih := neg_dumpPItems h hh rest pre path (i + 1) R hpre hpath hwf.2 hR
    have hok : ∀ j, nameOk (dec j) = true := fun j => nameOk_iff.mpr ⟨eq_not_mem_dec j, slash_not_mem_dec j⟩
    have hR' : RCond (subPre pre (dec i)) (dumpPItems h pre path (i + 1) rest ++ R) := by
      intro l hl
      rcases List.mem_append.mp hl with hl | hl
      · obtain ⟨j, hj, hu⟩ := under_dumpPItems h rest pre path (i + 1) l hl
        have hne : dec i ≠ dec j := fun e' => by have := dec_injective e'; omega
        exact ⟨hu.ne_nil, not_prefix_of_under_sibling (c := '/') (Or.inl rfl) (hok i) (hok j) hne hu⟩
      · refine ⟨(hR l hl).1, fun hp => (hR l hl).2 ?_⟩
        obtain ⟨t, ht⟩ := hp
        exact ⟨dec i ++ '/' :: t, by rw [← ht]; simp [subPre]⟩
    have hv := neg_dumpP h hh v (subPre pre (dec i)) (subPath path i) _ (eq_not_mem_subPre hpre (eq_not_mem_dec i))
      (eq_not_mem_subPath i hpath) hwf.1 hR'
    simp only [dumpPItems, foldNegItems, List.append_assoc]
    rw [hv, ih]
end

end Paroxy.Flat
