/-
Helper lemmas for C18 (model: Paroxy/Model/Cli.lean). Core Lean only.
-/
import Paroxy.Model.Cli
namespace Paroxy.Cli

theorem endsWith_iff (s suffix : Str) : endsWith s suffix = true ↔ ∃ stem, s = stem ++ suffix := by
  unfold endsWith
  rw [List.isSuffixOf_iff_suffix]
  constructor
  · rintro ⟨t, ht⟩; exact ⟨t, ht.symm⟩
  · rintro ⟨t, ht⟩; exact ⟨t, ht.symm⟩

theorem endsWith_false_iff (s suffix : Str) : endsWith s suffix = false ↔ ¬ ∃ stem, s = stem ++ suffix := by
  rw [← endsWith_iff]; simp

/-! ### collect -/

theorem taxonomyFor_spec (w : World) (d : PPath) (t : Str) :
    let sibling := d.parent.child "taxonomy.tsv".toList
    (t ≠ [] → taxonomyFor w d t = some (PPath.parse t)) ∧
    (t = [] → w.isFile sibling = true → taxonomyFor w d t = some sibling) ∧
    (t = [] → w.isFile sibling = false → taxonomyFor w d t = none) := by
  unfold taxonomyFor
  simp only
  refine ⟨?_, ?_, ?_⟩
  · intro ht
    cases t with
    | nil => exact absurd rfl ht
    | cons c cs => rfl
  · intro ht hf
    subst ht
    rw [if_neg (by decide), if_pos hf]
  · intro ht hf
    subst ht
    rw [if_neg (by decide), if_neg (by rw [hf]; decide)]

theorem collectOut_spec (d : PPath) (o : Str) :
    (o = [] → collectOut d o = .json (d.parent.child (d.name ++ "_db.json".toList))) ∧
    (o ≠ [] → endsWith o ".json".toList = true → collectOut d o = .json (PPath.parse o)) ∧
    (o ≠ [] → endsWith o ".json".toList = false →
      (endsWith o ".sqlite".toList = true ∨ endsWith o ".sql".toList = true) →
      collectOut d o = .sqlite (PPath.parse o)) ∧
    (o ≠ [] → endsWith o ".json".toList = false → endsWith o ".sqlite".toList = false →
      endsWith o ".sql".toList = false → collectOut d o = .nothing) := by
  unfold collectOut
  refine ⟨?_, ?_, ?_, ?_⟩
  · intro ho; subst ho; rfl
  · intro ho hj
    have he : o.isEmpty = false := by cases o <;> simp_all
    rw [he, if_neg (by decide), if_pos hj]
  · intro ho hj hs
    have he : o.isEmpty = false := by cases o <;> simp_all
    rw [he, if_neg (by decide), if_neg (by rw [hj]; decide), if_pos (by
      rcases hs with h | h
      · rw [h]; rfl
      · rw [h, Bool.or_true])]
  · intro ho hj h1 h2
    have he : o.isEmpty = false := by cases o <;> simp_all
    rw [he, if_neg (by decide), if_neg (by rw [hj]; decide), if_neg (by rw [h1, h2]; decide)]

/-! ### prefix -/

theorem prefixOf_of_shape (y : Str) (c : Char) (hy : y ≠ []) (hn : '\n' ∉ y) (hc : c = '_' ∨ c = '-') :
    prefixOf (y ++ [c] ++ "db.json".toList) = y ++ [c] := by
  unfold prefixOf
  simp only
  have he : endsWith (y ++ [c] ++ "db.json".toList) "db.json".toList = true :=
    (endsWith_iff _ _).mpr ⟨_, rfl⟩
  rw [if_pos he]
  have ht : (y ++ [c] ++ "db.json".toList).take
      ((y ++ [c] ++ "db.json".toList).length - "db.json".toList.length) = y ++ [c] := by
    have : (y ++ [c] ++ "db.json".toList).length - "db.json".toList.length = (y ++ [c]).length := by
      simp
    rw [this, List.take_left]
  rw [ht, List.getLast?_concat]
  simp only [List.dropLast_concat]
  have hlen : 2 ≤ (y ++ [c]).length := by
    cases y with
    | nil => exact absurd rfl hy
    | cons a as => simp
  have hy1 : 1 ≤ y.length := by
    cases y with
    | nil => exact absurd rfl hy
    | cons a as => simp
  simp [hc, hy1, hn]

theorem prefixOf_shape (name : Str) :
    prefixOf name = [] ∨ (name = prefixOf name ++ "db.json".toList ∧
      ∃ y c, prefixOf name = y ++ [c] ∧ y ≠ [] ∧ (c = '_' ∨ c = '-')) := by
  unfold prefixOf
  simp only
  split
  · rename_i he
    obtain ⟨stem, hs⟩ := (endsWith_iff _ _).mp he
    have ht : name.take (name.length - "db.json".toList.length) = stem := by
      rw [hs]
      have : (stem ++ "db.json".toList).length - "db.json".toList.length = stem.length := by simp
      rw [this, List.take_left]
    rw [ht]
    split
    · rename_i c hc
      split
      · rename_i hcond
        right
        refine ⟨hs, stem.dropLast, c, ?_, ?_, hcond.1⟩
        · have hne : stem ≠ [] := by intro h; simp [h] at hc
          have := List.dropLast_concat_getLast hne
          rw [List.getLast?_eq_some_getLast hne] at hc
          rw [Option.some.inj hc] at this
          exact this.symm
        · intro hd
          have h2 := hcond.2.1
          cases stem with
          | nil => simp at h2
          | cons a as =>
            cases as with
            | nil => simp at h2
            | cons b bs => simp at hd
      · left; rfl
    · left; rfl
  · left; rfl

/-! ### recommend -/

/-- What a plan that runs is made of. -/
theorem recommendPlan_run (a : RecArgs) (w : World) (p : RecPlan) (h : recommendPlan a w = .run p) :
    let given := PPath.parse a.dbPath
    w.exists given = true ∧ findDb w given = some (p.db, p.announcedDb) ∧
      p.pfx = prefixOf p.db.name ∧ pipeFor w a p.pfx given.parent = .ok p.pipe ∧
      p.base = baseFor a given.parent ∧ p.cost = a.cost ∧
      titleFormat a.format p.pfx given.parent w.cwd = .ok p.titleFormat ∧
      p.out = recOut a p.pfx given.parent := by
  unfold recommendPlan at h
  simp only at h
  split at h
  · cases h
  · rename_i hex
    split at h
    · cases h
    · rename_i db announced hfound
      split at h
      · cases h
      · rename_i pipe hpipe
        split at h
        · cases h
        · rename_i tf htf
          cases h
          exact ⟨by simpa using hex, hfound, rfl, hpipe, rfl, rfl, htf, rfl⟩

theorem findDb_spec (w : World) (given : PPath) (db : PPath) (ann : Bool)
    (h : findDb w given = some (db, ann)) :
    let c1 := given.parent.child (given.name ++ "_db.json".toList)
    let c2 := given.parent.child (c1.name ++ "-db.json".toList)
    (w.isDir given = false → db = given ∧ ann = false) ∧
    (w.isDir given = true → w.isFile c1 = true → db = c1 ∧ ann = true) ∧
    (w.isDir given = true → w.isFile c1 = false → db = c2 ∧ ann = true ∧ w.isFile c2 = true) := by
  unfold findDb at h
  simp only
  refine ⟨?_, ?_, ?_⟩
  · intro hd
    simp only [hd, Bool.false_eq_true, if_false, Option.some.injEq, Prod.mk.injEq] at h
    exact ⟨h.1.symm, h.2.symm⟩
  · intro hd h1
    simp only [hd, if_true, dbLookup, h1, Option.map_some, Option.some.injEq, Prod.mk.injEq] at h
    exact ⟨h.1.symm, h.2.symm⟩
  · intro hd h1
    simp only [hd, if_true, dbLookup, h1, Bool.false_eq_true, if_false] at h
    split at h
    · rename_i h2
      simp only [Option.map_some, Option.some.injEq, Prod.mk.injEq] at h
      exact ⟨h.1.symm, h.2.symm, h2⟩
    · simp at h

theorem findDb_none (w : World) (given : PPath) (hd : w.isDir given = true)
    (h1 : w.isFile (given.parent.child (given.name ++ "_db.json".toList)) = false)
    (h2 : w.isFile (given.parent.child
      ((given.parent.child (given.name ++ "_db.json".toList)).name ++ "-db.json".toList)) = false) :
    findDb w given = none := by
  simp only [findDb, hd, dbLookup, h1, h2, if_true, Bool.false_eq_true, if_false, Option.map_none]

theorem pipeFor_spec (w : World) (a : RecArgs) (pfx : Str) (parent : PPath) (pipe : Pipe)
    (h : pipeFor w a pfx parent = .ok pipe) :
    let pp := pipePath a pfx parent
    (w.isFile pp = true → pipe = .file pp ∧ w.pipelineParses pp = true) ∧
    (w.isFile pp = false → pipe = .empty ∧ a.pipe = "[]".toList) := by
  unfold pipeFor at h
  simp only at h ⊢
  constructor
  · intro hf
    rw [if_pos hf] at h
    split at h
    · rename_i hok
      exact ⟨(Except.ok.inj h).symm, hok⟩
    · cases h
  · intro hf
    rw [if_neg (by simp [hf])] at h
    split at h
    · rename_i he
      exact ⟨(Except.ok.inj h).symm, he⟩
    · cases h

theorem recOut_spec (a : RecArgs) (pfx : Str) (parent : PPath) :
    (a.output.map asciiUpper = "STDOUT".toList → recOut a pfx parent = .stdout) ∧
    (a.output = [] → recOut a pfx parent = .file (parent.child (pfx ++ "recommendations.md".toList))) ∧
    (a.output ≠ [] → a.output.map asciiUpper ≠ "STDOUT".toList →
      recOut a pfx parent = .file (PPath.parse a.output)) := by
  unfold recOut
  refine ⟨?_, ?_, ?_⟩
  · intro hs; rw [if_pos hs]
  · intro ho
    have hne : a.output.map asciiUpper ≠ "STDOUT".toList := by rw [ho]; decide
    rw [if_neg hne, ho]; rfl
  · intro ho hs
    have he : a.output.isEmpty = false := by simpa using ho
    rw [if_neg hs, he]; rfl

/-! ### resolve -/

def collapseStep (acc : List Str) (p : Str) : List Str := if p = ['.', '.'] then acc.tail else p :: acc

theorem collapse_eq_foldl (acc ps : List Str) : collapse acc ps = (ps.foldl collapseStep acc).reverse := by
  induction ps generalizing acc with
  | nil => rfl
  | cons p ps ih =>
    rw [collapse]
    split
    · rename_i hp; rw [ih]; simp [collapseStep, hp]
    · rename_i hp; rw [ih]; simp [collapseStep, hp]

/-- Going down into `l` (not `..`) and up again is staying where one was. -/
theorem collapse_snoc_dotdot (acc pre : List Str) (l : Str) (hl : l ≠ ['.', '.']) (tail : List Str) :
    collapse acc (pre ++ l :: ['.', '.'] :: tail) = collapse acc (pre ++ tail) := by
  simp only [collapse_eq_foldl, List.foldl_append, List.foldl_cons, collapseStep, hl, if_false, if_true,
    List.tail_cons]

/-! ### listing -/

theorem lexLe_total : ∀ a b : List Nat, (lexLe a b || lexLe b a) = true
  | [], _ => by simp [lexLe]
  | _ :: _, [] => by simp [lexLe]
  | a :: as, b :: bs => by
    have ih := lexLe_total as bs
    simp only [lexLe, Bool.or_eq_true, Bool.and_eq_true, decide_eq_true_eq, beq_iff_eq] at ih ⊢
    rcases Nat.lt_trichotomy a b with h | h | h
    · exact Or.inl (Or.inl h)
    · subst h
      rcases ih with ih | ih
      · exact Or.inl (Or.inr ⟨rfl, ih⟩)
      · exact Or.inr (Or.inr ⟨rfl, ih⟩)
    · exact Or.inr (Or.inl h)

theorem lexLe_trans : ∀ a b c : List Nat, lexLe a b = true → lexLe b c = true → lexLe a c = true
  | [], _, _, _, _ => by simp [lexLe]
  | _ :: _, [], _, h, _ => by simp [lexLe] at h
  | _ :: _, _ :: _, [], _, h => by simp [lexLe] at h
  | a :: as, b :: bs, c :: cs, h1, h2 => by
    have ih := lexLe_trans as bs cs
    simp only [lexLe, Bool.or_eq_true, Bool.and_eq_true, decide_eq_true_eq, beq_iff_eq] at h1 h2 ih ⊢
    rcases h1 with h1 | ⟨h1, h1'⟩
    · rcases h2 with h2 | ⟨h2, _⟩
      · exact Or.inl (Nat.lt_trans h1 h2)
      · subst h2; exact Or.inl h1
    · subst h1
      rcases h2 with h2 | ⟨h2, h2'⟩
      · exact Or.inl h2
      · exact Or.inr ⟨h2, ih h1' h2'⟩

theorem selectPrograms_spec (globbed : List PPath) (skips : Str → Bool) :
    let r := selectPrograms globbed skips
    r.Pairwise (fun p q => pathLe p q = true) ∧
    r.Perm (globbed.filter fun p => !skips p.name) ∧
    (∀ p, p ∈ r ↔ p ∈ globbed ∧ skips p.name = false) := by
  simp only [selectPrograms]
  refine ⟨?_, ?_, ?_⟩
  · apply List.Pairwise.filter
    exact List.pairwise_mergeSort (le := pathLe)
      (fun a b c h1 h2 => lexLe_trans _ _ _ h1 h2) (fun a b => lexLe_total _ _) globbed
  · exact (List.mergeSort_perm globbed pathLe).filter _
  · intro p
    simp only [List.mem_filter, Bool.not_eq_eq_eq_not, Bool.not_true]
    rw [(List.mergeSort_perm globbed pathLe).mem_iff]

end Paroxy.Cli
