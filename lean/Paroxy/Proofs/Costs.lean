/- Helper lemmas for C07. -/
import Paroxy.Model.Costs
import Paroxy.Proofs.Dict
namespace Paroxy.Costs
open Paroxy Paroxy.Filter

/-- `k` is the length of the longest imparted proper prefix of the taxon whose edges are `edges`
(0 when there is none). -/
def IsLongest (K : List Codes) (edges : List Codes) (k : Nat) : Prop :=
  k < edges.length ∧ (k = 0 ∨ prefixOf edges k ∈ K) ∧
    ∀ s, k < s → s < edges.length → prefixOf edges s ∉ K

theorem findStart_spec (K : List Codes) (edges : List Codes) (n : Nat) :
    (n = 0 → findStart K edges n = 0) ∧ (0 < n → findStart K edges n < n) ∧
    (findStart K edges n = 0 ∨ prefixOf edges (findStart K edges n) ∈ K) ∧
    ∀ s, findStart K edges n < s → s < n → prefixOf edges s ∉ K := by
  induction n with
  | zero => simp [findStart]
  | succ m ih =>
    obtain ⟨i0, i1, i2, i3⟩ := ih
    unfold findStart
    by_cases hc : K.contains (prefixOf edges m) = true
    · simp only [hc, if_true]
      refine ⟨by omega, by omega, Or.inr (List.contains_iff_mem.mp hc), fun s h1 h2 => by omega⟩
    · simp only [hc, Bool.false_eq_true, if_false]
      refine ⟨by omega, ?_, i2, ?_⟩
      · intro _
        rcases Nat.eq_zero_or_pos m with h | h
        · rw [i0 h]; omega
        · have := i1 h; omega
      · intro s h1 h2
        rcases Nat.lt_or_ge s m with h | h
        · exact i3 s h1 h
        · have : s = m := by omega
          subst this
          intro hm; exact hc (List.contains_iff_mem.mpr hm)

theorem isLongest_unique {K : List Codes} {edges : List Codes} {k k' : Nat}
    (h : IsLongest K edges k) (h' : IsLongest K edges k') : k = k' := by
  obtain ⟨a1, a2, a3⟩ := h
  obtain ⟨b1, b2, b3⟩ := h'
  rcases Nat.lt_trichotomy k k' with hlt | heq | hgt
  · rcases b2 with b2 | b2
    · omega
    · exact absurd b2 (a3 k' hlt b1)
  · exact heq
  · rcases a2 with a2 | a2
    · omega
    · exact absurd a2 (b3 k hgt a1)

theorem splitOn_length_pos (s : Codes) : 0 < (splitOn 47 s).length := by
  unfold splitOn
  induction s with
  | nil => simp
  | cons c t ih =>
    simp only [List.foldr_cons]
    split
    · simp
    · split
      · simp
      · simp

theorem rangeCost_zero (strat : Strategy) : rangeCost strat 0 0 = 0 := by
  cases strat <;> simp [rangeCost]

/-- The zeno cost of the edge range `[k, d)` is the sum of `2^-(i+1)`. -/
theorem foldl_add_eq (l : List Nat) (f : Nat → Rat) (a : Rat) :
    l.foldl (fun acc i => acc + f i) a = a + (l.map f).sum := by
  induction l generalizing a with
  | nil => simp [Rat.add_zero]
  | cons x t ih => simp only [List.foldl_cons, ih, List.map_cons, List.sum_cons]; grind

theorem two_pow_ne_zero (k : Nat) : (2 : Rat) ^ k ≠ 0 := by
  induction k with
  | zero => simp
  | succ n ih => rw [Rat.pow_succ]; grind

theorem zeno_sum_closed (k n : Nat) :
    ((List.range' k n).map fun i => 1 / (2 : Rat) ^ (i + 1)).sum =
      1 / (2 : Rat) ^ k - 1 / (2 : Rat) ^ (k + n) := by
  induction n generalizing k with
  | zero => simp; grind
  | succ m ih =>
    rw [List.range'_succ, List.map_cons, List.sum_cons, ih (k + 1)]
    have e1 : k + 1 + m = k + (m + 1) := by omega
    rw [e1]
    have h2 : (2 : Rat) ^ (k + 1) = 2 * 2 ^ k := by rw [Rat.pow_succ]; grind
    have hk := two_pow_ne_zero k
    rw [h2]
    generalize (1 : Rat) / 2 ^ (k + (m + 1)) = B
    generalize (2 : Rat) ^ k = a at hk
    grind

/-- Closed form of the zeno cost: `2^-k − 2^-d`. -/
theorem zeno_closed (k n : Nat) :
    rangeCost .zeno k (k + n) = 1 / (2 : Rat) ^ k - 1 / (2 : Rat) ^ (k + n) := by
  simp only [rangeCost]
  rw [foldl_add_eq]
  have : k + n - k = n := by omega
  rw [this, zeno_sum_closed]
  grind

theorem zeno_is_sum (k d : Nat) :
    rangeCost .zeno k d = ((List.range' k (d - k)).map fun i => 1 / (2 : Rat) ^ (i + 1)).sum := by
  simp only [rangeCost]
  rw [foldl_add_eq]; grind

theorem linear_closed (k d : Nat) : rangeCost .linear k d = ((d : Int) - (k : Int) : Int) := rfl

/-! ### taxon_cost -/

theorem taxonCost_zero (strat : Strategy) (K : List Codes) (t : Codes) (h : isMeta t = true ∨ t ∈ K) :
    taxonCost strat K t = 0 := by
  unfold taxonCost
  by_cases hm : isMeta t = true
  · simp [hm]
  · rcases h with h | h
    · exact absurd h hm
    · simp [hm, h, rangeCost_zero]

theorem taxonCost_pos (strat : Strategy) (K : List Codes) (t : Codes) (hm : isMeta t = false) (hk : t ∉ K) :
    ∃ k, IsLongest K (splitOn 47 t) k ∧
      taxonCost strat K t = rangeCost strat k (splitOn 47 t).length := by
  have hc : K.contains t = false := by
    rw [← Bool.not_eq_true, List.contains_iff_mem]; exact hk
  obtain ⟨_, s1, s2, s3⟩ := findStart_spec K (splitOn 47 t) (splitOn 47 t).length
  refine ⟨findStart K (splitOn 47 t) (splitOn 47 t).length, ⟨s1 (splitOn_length_pos t), s2, s3⟩, ?_⟩
  simp [taxonCost, hm, hk]

/-! ### program cost and ranking -/

theorem programCost_eq_sum (strat : Strategy) (K : List Codes) (rec : TaxaSpans) :
    programCost strat K rec = (rec.map fun ts => taxonCost strat K ts.1).sum := by
  unfold programCost
  have : ∀ (l : TaxaSpans) (a : Rat), l.foldl (fun acc ts => acc + taxonCost strat K ts.1) a =
      a + (l.map fun ts => taxonCost strat K ts.1).sum := by
    intro l
    induction l with
    | nil => intro a; simp [Rat.add_zero]
    | cons x t ih => intro a; simp only [List.foldl_cons, ih, List.map_cons, List.sum_cons]; grind
  rw [this]; grind

theorem leCostPath_total (a b : Rat × Codes) : (leCostPath a b || leCostPath b a) = true := by
  simp only [leCostPath, Bool.or_eq_true, Bool.and_eq_true, decide_eq_true_eq]
  have tri : a.1 < b.1 ∨ a.1 = b.1 ∨ b.1 < a.1 := by grind
  rcases tri with h | h | h
  · exact Or.inl (Or.inl h)
  · rcases List.le_total a.2 b.2 with h2 | h2
    · exact Or.inl (Or.inr ⟨h, h2⟩)
    · exact Or.inr (Or.inr ⟨h.symm, h2⟩)
  · exact Or.inr (Or.inl h)

theorem leCostPath_trans (a b c : Rat × Codes) (h1 : leCostPath a b = true) (h2 : leCostPath b c = true) :
    leCostPath a c = true := by
  simp only [leCostPath, Bool.or_eq_true, Bool.and_eq_true, decide_eq_true_eq] at *
  rcases h1 with h1 | ⟨e1, l1⟩ <;> rcases h2 with h2 | ⟨e2, l2⟩
  · exact Or.inl (by grind)
  · exact Or.inl (e2 ▸ h1)
  · exact Or.inl (e1 ▸ h2)
  · exact Or.inr ⟨e1.trans e2, List.le_trans l1 l2⟩

/-! ### Costs are non-negative -/

theorem sum_nonneg (l : List Rat) (h : ∀ x ∈ l, 0 ≤ x) : 0 ≤ l.sum := by
  induction l with
  | nil => simp
  | cons a t ih =>
    have ha := h a List.mem_cons_self
    have ht := ih fun x hx => h x (List.mem_cons_of_mem _ hx)
    simp only [List.sum_cons]
    grind

theorem rangeCost_zeno_nonneg (k d : Nat) : 0 ≤ rangeCost .zeno k d := by
  rw [zeno_is_sum]
  apply sum_nonneg
  intro x hx
  obtain ⟨j, _, rfl⟩ := List.mem_map.mp hx
  have hp : (0 : Rat) < 2 ^ (j + 1) := Rat.pow_pos (by decide)
  rw [Rat.div_def, Rat.one_mul]
  exact Rat.le_of_lt (Rat.inv_pos.mpr hp)

theorem rangeCost_linear_nonneg (k d : Nat) (h : k ≤ d) : 0 ≤ rangeCost .linear k d := by
  rw [linear_closed]
  exact Rat.intCast_nonneg.mpr (by omega)

theorem findStart_le (K : List Codes) (edges : List Codes) (n : Nat) : findStart K edges n ≤ n := by
  obtain ⟨h0, h1, _⟩ := findStart_spec K edges n
  rcases Nat.eq_zero_or_pos n with h | h
  · rw [h0 h]; omega
  · exact Nat.le_of_lt (h1 h)

theorem rangeCost_nonneg (strat : Strategy) (k d : Nat) (h : k ≤ d) : 0 ≤ rangeCost strat k d := by
  cases strat
  · exact rangeCost_zeno_nonneg k d
  · exact rangeCost_linear_nonneg k d h

/-- `taxon_cost` is never negative. -/
theorem taxonCost_nonneg (strat : Strategy) (K : List Codes) (t : Codes) : 0 ≤ taxonCost strat K t := by
  unfold taxonCost
  split
  · exact Rat.le_refl
  · split
    · exact rangeCost_nonneg strat 0 0 (Nat.le_refl 0)
    · exact rangeCost_nonneg strat _ _ (findStart_le K _ _)

/-- The total cost of a program is never negative. -/
theorem programCost_nonneg (strat : Strategy) (K : List Codes) (rec : TaxaSpans) :
    0 ≤ programCost strat K rec := by
  rw [programCost_eq_sum]
  apply sum_nonneg
  intro x hx
  obtain ⟨ts, _, rfl⟩ := List.mem_map.mp hx
  exact taxonCost_nonneg strat K ts.1

/-! ### The memoised assessor refines the pure functions -/

/-- Every cached value is the cost under the *current* knowledge. -/
def MemoOk (strat : Strategy) (s : AState) : Prop :=
  ∀ t v, dictGet? s.memo t = some v → v = taxonCost strat s.knowledge t

theorem dictGet?_append_single {β} (d : List (Codes × β)) (k : Codes) (v : β) (k' : Codes) :
    dictGet? (d ++ [(k, v)]) k' =
      match dictGet? d k' with
      | some x => some x
      | none => if k = k' then some v else none := by
  induction d with
  | nil => simp [dictGet?]
  | cons p t ih =>
    obtain ⟨a, b⟩ := p
    simp only [List.cons_append, dictGet?]
    split
    · rfl
    · exact ih

theorem memoCost_spec (strat : Strategy) (s : AState) (t : Codes) (h : MemoOk strat s) :
    (memoCost strat s t).2 = taxonCost strat s.knowledge t ∧ MemoOk strat (memoCost strat s t).1 ∧
      (memoCost strat s t).1.knowledge = s.knowledge := by
  unfold memoCost
  cases hg : dictGet? s.memo t with
  | some v => exact ⟨h t v hg, h, rfl⟩
  | none =>
    refine ⟨rfl, ?_, rfl⟩
    intro t' v' hv'
    simp only at hv'
    rw [dictGet?_append_single] at hv'
    cases hg' : dictGet? s.memo t' with
    | some x => rw [hg'] at hv'; cases hv'; exact h t' _ hg'
    | none =>
      rw [hg'] at hv'
      simp only at hv'
      split at hv'
      · rename_i he; cases hv'; subst he; rfl
      · cases hv'

theorem memoProgramCost_spec (strat : Strategy) (rec : TaxaSpans) (s : AState) (h : MemoOk strat s) :
    (memoProgramCost strat s rec).2 = programCost strat s.knowledge rec ∧
      MemoOk strat (memoProgramCost strat s rec).1 ∧
      (memoProgramCost strat s rec).1.knowledge = s.knowledge := by
  unfold memoProgramCost programCost
  have gen : ∀ (l : TaxaSpans) (s0 : AState) (a : Rat), MemoOk strat s0 → s0.knowledge = s.knowledge →
      (l.foldl (fun (acc : AState × Rat) ts =>
        ((memoCost strat acc.1 ts.1).1, acc.2 + (memoCost strat acc.1 ts.1).2)) (s0, a)).2 =
        l.foldl (fun acc ts => acc + taxonCost strat s.knowledge ts.1) a ∧
      MemoOk strat (l.foldl (fun (acc : AState × Rat) ts =>
        ((memoCost strat acc.1 ts.1).1, acc.2 + (memoCost strat acc.1 ts.1).2)) (s0, a)).1 ∧
      (l.foldl (fun (acc : AState × Rat) ts =>
        ((memoCost strat acc.1 ts.1).1, acc.2 + (memoCost strat acc.1 ts.1).2)) (s0, a)).1.knowledge = s.knowledge := by
    intro l
    induction l with
    | nil => intro s0 a h0 hk; exact ⟨rfl, h0, hk⟩
    | cons x t ih =>
      intro s0 a h0 hk
      simp only [List.foldl_cons]
      obtain ⟨e1, e2, e3⟩ := memoCost_spec strat s0 x.1 h0
      have := ih (memoCost strat s0 x.1).1 (a + (memoCost strat s0 x.1).2) e2 (e3.trans hk)
      rw [e1, hk] at this ⊢
      exact this
  exact gen rec s 0 h rfl

theorem memoAssess_spec (strat : Strategy) (progs : List (Codes × TaxaSpans)) (sel : List Codes) (s : AState)
    (h : MemoOk strat s) :
    (memoAssess strat progs s sel).2 =
      sel.mapM (fun p => (dictGet? progs p).map fun rec => (programCost strat s.knowledge rec, p)) ∧
    (MemoOk strat (memoAssess strat progs s sel).1) ∧
    (memoAssess strat progs s sel).1.knowledge = s.knowledge := by
  induction sel generalizing s with
  | nil => exact ⟨rfl, h, rfl⟩
  | cons p ps ih =>
    unfold memoAssess
    cases hg : dictGet? progs p with
    | none => simp [List.mapM_cons, hg, h]
    | some rec =>
      obtain ⟨e1, e2, e3⟩ := memoProgramCost_spec strat rec s h
      obtain ⟨f1, f2, f3⟩ := ih (memoProgramCost strat s rec).1 e2
      simp only
      refine ⟨?_, f2, f3.trans e3⟩
      rw [f1, e1, e3]
      simp only [List.mapM_cons, hg, Option.map_some, Option.bind_eq_bind, Option.bind_some]
      cases List.mapM (fun p => Option.map (fun rec => (programCost strat s.knowledge rec, p)) (dictGet? progs p)) ps <;> rfl

theorem memoCost_spec_knowledge (strat : Strategy) (s : AState) (t : Codes) :
    (memoCost strat s t).1.knowledge = s.knowledge := by
  unfold memoCost
  cases dictGet? s.memo t <;> rfl

theorem memoProgramCost_knowledge (strat : Strategy) (rec : TaxaSpans) (s : AState) :
    (memoProgramCost strat s rec).1.knowledge = s.knowledge := by
  unfold memoProgramCost
  have gen : ∀ (l : TaxaSpans) (s0 : AState) (a : Rat),
      (l.foldl (fun (acc : AState × Rat) ts =>
        ((memoCost strat acc.1 ts.1).1, acc.2 + (memoCost strat acc.1 ts.1).2)) (s0, a)).1.knowledge =
        s0.knowledge := by
    intro l
    induction l with
    | nil => intro s0 a; rfl
    | cons x t ih =>
      intro s0 a
      simp only [List.foldl_cons]
      rw [ih, memoCost_spec_knowledge]
  exact gen rec s 0

theorem memoAssess_knowledge (strat : Strategy) (progs : List (Codes × TaxaSpans)) (sel : List Codes) (s : AState) :
    (memoAssess strat progs s sel).1.knowledge = s.knowledge := by
  induction sel generalizing s with
  | nil => rfl
  | cons p ps ih =>
    unfold memoAssess
    cases dictGet? progs p with
    | none => rfl
    | some rec => simp only; rw [ih, memoProgramCost_knowledge]

theorem findStart_congr (K K' : List Codes) (h : ∀ t, t ∈ K ↔ t ∈ K') (edges : List Codes) (n : Nat) :
    findStart K edges n = findStart K' edges n := by
  induction n with
  | zero => rfl
  | succ m ih =>
    unfold findStart
    have : K.contains (prefixOf edges m) = K'.contains (prefixOf edges m) := by
      rw [Bool.eq_iff_iff, List.contains_iff_mem, List.contains_iff_mem]; exact h _
    rw [this, ih]

theorem taxonCost_congr (strat : Strategy) (K K' : List Codes) (h : ∀ t, t ∈ K ↔ t ∈ K') (t : Codes) :
    taxonCost strat K t = taxonCost strat K' t := by
  unfold taxonCost
  have : K.contains t = K'.contains t := by
    rw [Bool.eq_iff_iff, List.contains_iff_mem, List.contains_iff_mem]; exact h _
  rw [this]
  simp only [findStart_congr K K' h]

end Paroxy.Costs
