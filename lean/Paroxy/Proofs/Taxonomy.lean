/-
Refinement of the translation state machine (`Taxo.call`, with its memo and the aliasing of the
literal lists) to the specification `Spec.Taxo.translate`, for every oracle and every call history;
the accumulation loop of `to_taxa`; the meaning of `is_literal`.
-/
import Paroxy.Spec.Taxonomy
import Paroxy.Spec.TaxonomyDefault
import Paroxy.Proofs.Bag
namespace Paroxy.TaxoProofs
open Paroxy Paroxy.Taxo Paroxy.Spec.Taxo
set_option linter.unusedSectionVars false
set_option linter.unusedSimpArgs false

/-! ### dictionaries -/

theorem dget_dset {β : Type} (d : List (Str × β)) (k x : Str) (v : β) :
    dget (dset d k v) x = if k = x then some v else dget d x := by
  induction d with
  | nil => simp [dset, dget]
  | cons e t ih =>
    obtain ⟨k', w⟩ := e
    by_cases hk : k' = k
    · subst hk
      by_cases hx : k' = x <;> simp [dset, dget, hx]
    · by_cases hx : k' = x
      · subst hx; simp [dset, dget, hk, Ne.symm hk]
      · simp [dset, dget, hk, hx, ih]

/-! ### `__init__` -/

/-- The taxon patterns of the literal rows whose label pattern is `L`, in table order. -/
def litMatches (rows : List Row) (L : Str) : List Str :=
  ((litRows rows).filter fun r => decide (r.2 = L)).map Prod.fst

theorem litMatches_cons (r : Row) (t : List Row) (L : Str) :
    litMatches (r :: t) L = if isLiteral r.2 = true ∧ r.2 = L then r.1 :: litMatches t L
      else litMatches t L := by
  unfold litMatches litRows
  rw [List.filter_cons]
  by_cases h1 : isLiteral r.2 = true
  · rw [if_pos h1, List.filter_cons]
    by_cases h2 : r.2 = L
    · rw [if_pos (by simpa using h2), if_pos ⟨h1, h2⟩]; rfl
    · rw [if_neg (by simpa using h2), if_neg (fun h => h2 h.2)]
  · rw [if_neg h1, if_neg (fun h => h1 h.1)]

/-- What `literal_labels.get(L)` holds before any translation. -/
def literal0 (rows : List Row) (L : Str) : Option (List Str) :=
  if litMatches rows L = [] then none else some (litMatches rows L)

def combine (a : Option (List Str)) (l : List Str) : Option (List Str) :=
  if l = [] then a else some (a.getD [] ++ l)

theorem foldl_addRow (rows : List Row) :
    ∀ st : State,
      (rows.foldl addRow st).compiled = st.compiled ++ rxRows rows ∧
      (rows.foldl addRow st).memo = st.memo ∧
      ∀ L, dget (rows.foldl addRow st).literal L = combine (dget st.literal L) (litMatches rows L) := by
  induction rows with
  | nil => intro st; simp [rxRows, litMatches, litRows, combine]
  | cons r t ih =>
    intro st
    obtain ⟨h1, h2, h3⟩ := ih (addRow st r)
    simp only [List.foldl_cons]
    refine ⟨?_, ?_, ?_⟩
    · rw [h1]; unfold addRow rxRows
      by_cases hl : isLiteral r.2 = true <;> simp [hl, List.filter_cons]
    · rw [h2]; unfold addRow; split <;> rfl
    · intro L
      rw [h3, litMatches_cons]
      unfold addRow
      by_cases hl : isLiteral r.2 = true
      · simp only [hl, if_true, true_and, dget_dset]
        by_cases hL : r.2 = L
        · subst hL
          simp only [if_true, combine]
          by_cases hm : litMatches t r.2 = [] <;> simp [hm]
        · simp [hL]
      · simp [hl]

theorem init_spec (rows : List Row) :
    (init rows).compiled = rxRows rows ∧ (init rows).memo = [] ∧
      ∀ L, dget (init rows).literal L = literal0 rows L := by
  obtain ⟨h1, h2, h3⟩ := foldl_addRow rows ⟨[], [], []⟩
  refine ⟨by simpa [init] using h1, by simpa [init] using h2, ?_⟩
  intro L
  have := h3 L
  simp only [init, literal0]
  rw [this]
  simp [combine, dget]

/-! ### the memoised translation -/

/-- The invariant of an instance: rows compiled once; a literal list not yet translated is still
what `__init__` built; every memo entry — owned, or aliasing the literal list — is the
specification's translation. -/
structure MemoOK (o : Oracle) (rows : List Row) (st : State) : Prop where
  compiled : st.compiled = rxRows rows
  fresh : ∀ L, dget st.memo L = none → dget st.literal L = literal0 rows L
  own : ∀ L l, dget st.memo L = some (.own l) → l = translate o rows L
  alias : ∀ L, dget st.memo L = some .alias → dget st.literal L = some (translate o rows L)

theorem init_ok (o : Oracle) (rows : List Row) : MemoOK o rows (init rows) := by
  obtain ⟨h1, h2, h3⟩ := init_spec rows
  exact ⟨h1, fun L _ => h3 L, by simp [h2, dget], by simp [h2, dget]⟩

theorem translate_not_looks (o : Oracle) (rows : List Row) (L : Str) (h : o.looks L = false) :
    translate o rows L = litMatches rows L ++ (rxRows rows).filterMap fun r => o.full r L := by
  simp [translate, translateSplit, h, litMatches]

theorem call_ok (o : Oracle) (rows : List Row) (st : State) (h : MemoOK o rows st) (L : Str) :
    (call o st L).2 = translate o rows L ∧ MemoOK o rows (call o st L).1 := by
  unfold call
  cases hm : dget st.memo L with
  | some v =>
    cases v with
    | own l => exact ⟨h.own L l hm, h⟩
    | alias => simp only; rw [h.alias L hm]; exact ⟨rfl, h⟩
  | none =>
    simp only
    by_cases hl : o.looks L = true
    · simp only [hl, if_true]
      have ht : translate o rows L = [L] := by simp [translate, translateSplit, hl]
      refine ⟨ht.symm, ⟨h.compiled, ?_, ?_, ?_⟩⟩
      · intro L' hL'
        rw [dget_dset] at hL'
        split at hL'
        · cases hL'
        · exact h.fresh L' hL'
      · intro L' l hL'
        rw [dget_dset] at hL'
        split at hL'
        · rename_i heq; subst heq; cases hL'; exact ht.symm
        · exact h.own L' l hL'
      · intro L' hL'
        rw [dget_dset] at hL'
        split at hL'
        · cases hL'
        · exact h.alias L' hL'
    · have hl' : o.looks L = false := by simpa using hl
      simp only [hl', Bool.false_eq_true, if_false]
      have hfresh := h.fresh L hm
      have ht := translate_not_looks o rows L hl'
      rw [← h.compiled] at ht
      cases hlit : dget st.literal L with
      | some base =>
        have hbase : base = litMatches rows L := by
          rw [hlit] at hfresh
          unfold literal0 at hfresh
          split at hfresh
          · cases hfresh
          · exact Option.some.inj hfresh
        simp only
        refine ⟨by rw [ht, hbase], ⟨h.compiled, ?_, ?_, ?_⟩⟩
        · intro L' hL'
          rw [dget_dset] at hL'
          split at hL'
          · cases hL'
          · rename_i hne
            simp only [dget_dset, hne, if_false]
            exact h.fresh L' hL'
        · intro L' l hL'
          rw [dget_dset] at hL'
          split at hL'
          · cases hL'
          · exact h.own L' l hL'
        · intro L' hL'
          rw [dget_dset] at hL'
          split at hL'
          · rename_i heq; subst heq
            simp only [dget_dset, if_true, ht, hbase]
          · rename_i hne
            simp only [dget_dset, hne, if_false]
            exact h.alias L' hL'
      | none =>
        have hnil : litMatches rows L = [] := by
          rw [hlit] at hfresh
          unfold literal0 at hfresh
          split at hfresh
          · assumption
          · cases hfresh
        simp only
        refine ⟨by rw [ht, hnil]; rfl, ⟨h.compiled, ?_, ?_, ?_⟩⟩
        · intro L' hL'
          rw [dget_dset] at hL'
          split at hL'
          · cases hL'
          · exact h.fresh L' hL'
        · intro L' l hL'
          rw [dget_dset] at hL'
          split at hL'
          · rename_i heq; subst heq; cases hL'; rw [ht, hnil]; rfl
          · exact h.own L' l hL'
        · intro L' hL'
          rw [dget_dset] at hL'
          split at hL'
          · cases hL'
          · exact h.alias L' hL'

theorem run_ok (o : Oracle) (rows : List Row) (hist : List Str) :
    ∀ st, MemoOK o rows st → run o st hist = hist.map (translate o rows) := by
  induction hist with
  | nil => intro st _; rfl
  | cons L t ih =>
    intro st h
    obtain ⟨h1, h2⟩ := call_ok o rows st h L
    simp only [run, List.map_cons, h1, ih _ h2]

/-! ### membership in a translation -/

theorem mem_translate (o : Oracle) (rows : List Row) (L x : Str) :
    x ∈ translate o rows L ↔
      (o.looks L = true ∧ x = L) ∨
      (o.looks L = false ∧ ∃ r ∈ rows, rowResult o r L = some x) := by
  unfold translate translateSplit litRows rxRows rowResult
  by_cases hl : o.looks L = true
  · simp [hl]
  · have hl' : o.looks L = false := by simpa using hl
    simp only [hl', Bool.false_eq_true, if_false, List.mem_append, List.mem_map, List.mem_filter,
      List.mem_filterMap, false_and, false_or, true_and, decide_eq_true_eq, Bool.not_eq_true']
    constructor
    · rintro (⟨r, ⟨⟨hr, hlit⟩, hP⟩, rfl⟩ | ⟨r, ⟨hr, hlit⟩, hx⟩)
      · exact ⟨r, hr, by rw [if_pos hlit, if_pos hP]⟩
      · exact ⟨r, hr, by rw [if_neg (by simp [hlit])]; exact hx⟩
    · rintro ⟨r, hr, hx⟩
      by_cases hlit : isLiteral r.2 = true
      · simp only [hlit, if_true] at hx
        split at hx
        · rename_i hP
          left; exact ⟨r, ⟨⟨hr, hlit⟩, hP⟩, Option.some.inj hx⟩
        · cases hx
      · have hlit' : isLiteral r.2 = false := by simpa using hlit
        simp only [hlit', Bool.false_eq_true, if_false] at hx
        right; exact ⟨r, ⟨hr, hlit'⟩, hx⟩

/-! ### `is_literal` -/

/-- A character `regex.escape` leaves alone, or a dot. -/
def plainOrDot (c : Char) : Bool :=
  c == '.' || (!(metachars.contains c || isSpace c) && !(c == '\x00'))

theorem rd_cons (c : Char) (t : Str) :
    replaceDots (c :: t) = (if c = '.' then ['\\', '.'] else [c]) ++ replaceDots t := by
  simp [replaceDots, List.flatMap_cons]

theorem esc_cons (c : Char) (t : Str) :
    escape (c :: t) = (if (metachars.contains c || isSpace c) = true then ['\\', c]
      else if c = '\x00' then ['\\', '0', '0', '0'] else [c]) ++ escape t := by
  simp [escape, List.flatMap_cons]

theorem length_replaceDots_le (p : Str) : (replaceDots p).length ≤ (escape p).length := by
  induction p with
  | nil => simp [replaceDots, escape]
  | cons c t ih =>
    rw [rd_cons, esc_cons, List.length_append, List.length_append]
    have h1 : (if c = '.' then ['\\', '.'] else [c]).length
        ≤ (if (metachars.contains c || isSpace c) = true then ['\\', c]
            else if c = '\x00' then ['\\', '0', '0', '0'] else [c]).length := by
      by_cases hc : c = '.'
      · subst hc
        have h2 : (metachars.contains '.' || isSpace '.') = true := by decide
        rw [if_pos rfl, if_pos h2]
        exact Nat.le_refl _
      · rw [if_neg hc]
        split
        · simp
        · split <;> simp
    omega

theorem isLiteral_iff (p : Str) : isLiteral p = true ↔ ∀ c ∈ p, plainOrDot c = true := by
  unfold isLiteral
  rw [beq_iff_eq]
  induction p with
  | nil => simp [replaceDots, escape]
  | cons c t ih =>
    have hlen := length_replaceDots_le t
    rw [rd_cons, esc_cons]
    simp only [List.mem_cons, forall_eq_or_imp]
    rw [← ih]
    by_cases hc : c = '.'
    · subst hc
      have h1 : plainOrDot '.' = true := by decide
      have h2 : (metachars.contains '.' || isSpace '.') = true := by decide
      rw [if_pos rfl, if_pos h2, h1]
      simp
    · rw [if_neg hc]
      by_cases hs : (metachars.contains c || isSpace c) = true
      · have hp : plainOrDot c = false := by unfold plainOrDot; rw [hs]; simp [hc]
        rw [if_pos hs, hp]
        simp only [Bool.false_eq_true, false_and, iff_false]
        intro heq
        have := congrArg List.length heq
        simp only [List.length_append, List.length_cons, List.length_nil] at this
        omega
      · rw [if_neg hs]
        have hs' : (metachars.contains c || isSpace c) = false := Bool.eq_false_iff.mpr hs
        by_cases h0 : c = '\x00'
        · have hp : plainOrDot c = false := by unfold plainOrDot; rw [hs']; simp [hc, h0]
          rw [if_pos h0, hp]
          simp only [Bool.false_eq_true, false_and, iff_false]
          intro heq
          have := congrArg List.length heq
          simp only [List.length_append, List.length_cons, List.length_nil] at this
          omega
        · have hp : plainOrDot c = true := by unfold plainOrDot; rw [hs']; simp [hc, h0]
          rw [if_neg h0, hp]
          simp

/-! ### the accumulation loop of `to_taxa` -/

section Acc
variable {σ : Type} [DecidableEq σ]

theorem count_updateList (b : Bag σ) (l : List σ) (s : σ) :
    Bag.count (Bag.updateList b l) s = Bag.count b s + (l.count s : Nat) := by
  unfold Bag.updateList
  induction l generalizing b with
  | nil => simp
  | cons x t ih =>
    simp only [List.foldl_cons]
    rw [ih, Bag.count_set]
    by_cases hx : x = s
    · subst hx; simp; omega
    · simp [hx, List.count_cons]

/-- Count of span `s` in the bag filed under taxon `t` (0 when absent). -/
def accCount (acc : List (Str × Bag σ)) (t : Str) (s : σ) : Int :=
  Bag.count ((dget acc t).getD []) s

theorem accCount_accUpdate (acc : List (Str × Bag σ)) (t' : Str) (spans : List σ) (t : Str) (s : σ) :
    accCount (accUpdate acc t' spans) t s
      = accCount acc t s + if t' = t then ((spans.count s : Nat) : Int) else 0 := by
  unfold accCount accUpdate
  rw [dget_dset]
  by_cases h : t' = t
  · subst h; simp [count_updateList]
  · simp [h]

theorem accCount_foldl (names : List Str) (spans : List σ) (t : Str) (s : σ) :
    ∀ acc : List (Str × Bag σ),
      accCount (names.foldl (fun a t' => accUpdate a t' spans) acc) t s
        = accCount acc t s + ((mult t names * spans.count s : Nat) : Int) := by
  induction names with
  | nil => intro acc; simp [mult]
  | cons n rest ih =>
    intro acc
    simp only [List.foldl_cons]
    rw [ih, accCount_accUpdate]
    unfold mult
    by_cases h : n = t
    · subst h
      simp only [if_true, List.count_cons_self]
      rw [Nat.add_mul]; push_cast; omega
    · have : (n == t) = false := by simpa using h
      simp [h, List.count_cons, this]

theorem accumulate_ok (o : Oracle) (rows : List Row) (labels : List (Str × List σ)) (t : Str) (s : σ) :
    ∀ (st : State) (acc : List (Str × Bag σ)), MemoOK o rows st →
      accCount (accumulate o st acc labels).2 t s = accCount acc t s + rawCount o rows labels t s ∧
      MemoOK o rows (accumulate o st acc labels).1 := by
  induction labels with
  | nil => intro st acc h; simp [accumulate, rawCount, rawCountT, h]
  | cons ls rest ih =>
    obtain ⟨L, spans⟩ := ls
    intro st acc h
    obtain ⟨h1, h2⟩ := call_ok o rows st h L
    simp only [accumulate]
    obtain ⟨h3, h4⟩ := ih (call o st L).1
      ((call o st L).2.foldl (fun a t' => accUpdate a t' spans) acc) h2
    refine ⟨?_, h4⟩
    rw [h3, accCount_foldl, h1]
    simp only [rawCount, rawCountT, List.map_cons, List.sum_cons]
    omega

end Acc
end Paroxy.TaxoProofs

namespace Paroxy.TaxoProofs
open Paroxy Paroxy.Taxo Paroxy.Spec.Taxo

/-- The states one `Taxonomy` instance can be in: after `__init__`, after any
`get_taxon_name_list` call, after the accumulation loop of any `to_taxa` call. -/
inductive Reachable (o : Oracle) (rows : List Row) : State → Prop
  | init : Reachable o rows (init rows)
  | call {st : State} (h : Reachable o rows st) (L : Str) : Reachable o rows (call o st L).1
  | toTaxa {σ : Type} [DecidableEq σ] {st : State} (h : Reachable o rows st)
      (acc : List (Str × Bag σ)) (labels : List (Str × List σ)) :
      Reachable o rows (accumulate o st acc labels).1

theorem Reachable.ok {o : Oracle} {rows : List Row} {st : State} (h : Reachable o rows st) :
    MemoOK o rows st := by
  induction h with
  | init => exact init_ok o rows
  | call _ L ih => exact (call_ok o rows _ ih L).2
  | toTaxa _ acc labels ih =>
    rename_i σ _ st _
    cases labels with
    | nil => simpa [accumulate] using ih
    | cons ls rest =>
      -- any taxon / span will do to extract the state part of `accumulate_ok`
      have : ∀ (labels : List (Str × List σ)) (st : State) (acc : List (Str × Bag σ)),
          MemoOK o rows st → MemoOK o rows (accumulate o st acc labels).1 := by
        intro labels
        induction labels with
        | nil => intro st acc h; simpa [accumulate] using h
        | cons ls rest ih' =>
          intro st acc h
          obtain ⟨L, spans⟩ := ls
          simp only [accumulate]
          exact ih' _ _ (call_ok o rows st h L).2
      exact this _ _ _ ih

end Paroxy.TaxoProofs

namespace Paroxy.TaxoProofs
open Paroxy Paroxy.Taxo Paroxy.Spec.Taxo

/-- A table text that passes the executable check `tableOk` is read by `__init__` without error,
into the rows of its data lines (sorted), all distinct. -/
theorem parseTsv_of_tableOk (text : Str) (h : tableOk text = true) :
    ∃ rows, parseTsv text = .ok rows ∧ rows.Perm ((rawLines text).map parseLineD) ∧ rows.Nodup ∧
      rows ≠ [] := by
  simp only [tableOk, Bool.and_eq_true, decide_eq_true_eq, Bool.not_eq_true'] at h
  obtain ⟨⟨hall, hnd⟩, hne⟩ := h
  have hperm : (sortedLines text).Perm (rawLines text) := List.mergeSort_perm _ _
  have hall' : (sortedLines text).all okLine = true := by
    rw [List.all_eq_true] at hall ⊢
    intro x hx
    exact hall x (hperm.mem_iff.mp hx)
  have hp2 := hperm.map parseLineD
  refine ⟨(sortedLines text).map parseLineD, ?_, hp2, hp2.nodup_iff.mpr hnd, ?_⟩
  · simp [parseTsv, parseAll, hall']
  · intro h0
    have hl := hp2.length_eq
    rw [h0] at hl
    simp only [List.length_nil, List.length_map] at hl
    have : rawLines text = [] := List.eq_nil_of_length_eq_zero hl.symm
    simp [this] at hne

end Paroxy.TaxoProofs
