/-
Helper lemmas for C12 after 069b3bf: `centrifugate_hints` drops the blank lines left at the ends of
the kept lines, so a decorated program and the same program without its blank end code lines
(`core2`) are centrifugated alike.
-/
import Paroxy.Proofs.HintsPrepare
import Paroxy.Proofs.HintsAllTexts
namespace Paroxy.Hints

variable {O : CharOracle}

def trimBlankCode (cs : List CodeLine) : List CodeLine :=
  ((cs.dropWhile isBlankCode).reverse.dropWhile isBlankCode).reverse

theorem mem_codeLines_iff (d : Decorated) (c : CodeLine) : c ∈ codeLines d ↔ Line.code c ∈ d := by
  refine ⟨fun h => ?_, mem_codeLines⟩
  induction d with
  | nil => simp [codeLines] at h
  | cons l t ih =>
    cases l with
    | code c' =>
      simp only [codeLines, List.mem_cons] at h
      rcases h with rfl | h
      · simp
      · exact List.mem_cons_of_mem _ (ih h)
    | isolated n L => exact List.mem_cons_of_mem _ (ih (by simpa [codeLines] using h))

theorem mem_wholeLabels_iff (d : Decorated) (L : Str) : L ∈ wholeLabels d ↔ ∃ n, Line.isolated n L ∈ d := by
  refine ⟨fun h => ?_, fun ⟨n, h⟩ => mem_wholeLabels h⟩
  induction d with
  | nil => simp [wholeLabels] at h
  | cons l t ih =>
    cases l with
    | code c' =>
      obtain ⟨n, hn⟩ := ih (by simpa [wholeLabels] using h)
      exact ⟨n, List.mem_cons_of_mem _ hn⟩
    | isolated n' L' =>
      simp only [wholeLabels, List.mem_cons] at h
      rcases h with rfl | h
      · exact ⟨n', by simp⟩
      · obtain ⟨n, hn⟩ := ih h
        exact ⟨n, List.mem_cons_of_mem _ hn⟩

theorem codeLines_append (a b : Decorated) : codeLines (a ++ b) = codeLines a ++ codeLines b := by
  induction a with
  | nil => rfl
  | cons l t ih => cases l <;> simp [codeLines, ih]

theorem wholeLabels_append (a b : Decorated) : wholeLabels (a ++ b) = wholeLabels a ++ wholeLabels b := by
  induction a with
  | nil => rfl
  | cons l t ih => cases l <;> simp [wholeLabels, ih]

theorem codeLines_reverse (d : Decorated) : codeLines d.reverse = (codeLines d).reverse := by
  induction d with
  | nil => rfl
  | cons l t ih => cases l <;> simp [codeLines_append, codeLines, ih]

theorem wholeLabels_reverse (d : Decorated) : wholeLabels d.reverse = (wholeLabels d).reverse := by
  induction d with
  | nil => rfl
  | cons l t ih => cases l <;> simp [wholeLabels_append, wholeLabels, ih]

theorem codeLines_dropLeading (d : Decorated) :
    codeLines (dropLeadingBlank d) = (codeLines d).dropWhile isBlankCode := by
  induction d with
  | nil => rfl
  | cons l t ih =>
    cases l with
    | code c =>
      by_cases h : isBlankCode c = true
      · simp [dropLeadingBlank, codeLines, h, ih]
      · simp [dropLeadingBlank, codeLines, h]
    | isolated n L => simpa [dropLeadingBlank, codeLines] using ih

theorem wholeLabels_dropLeading (d : Decorated) : wholeLabels (dropLeadingBlank d) = wholeLabels d := by
  induction d with
  | nil => rfl
  | cons l t ih =>
    cases l with
    | code c =>
      by_cases h : isBlankCode c = true
      · simp [dropLeadingBlank, wholeLabels, h, ih]
      · simp [dropLeadingBlank, wholeLabels, h]
    | isolated n L => simp [dropLeadingBlank, wholeLabels, ih]

theorem dropLeading_sublist (d : Decorated) : (dropLeadingBlank d).Sublist d := by
  induction d with
  | nil => exact List.Sublist.slnil
  | cons l t ih =>
    cases l with
    | code c =>
      simp only [dropLeadingBlank]
      split
      · exact ih.trans (List.sublist_cons_self _ _)
      · exact List.Sublist.refl _
    | isolated n L => exact ih.cons_cons _

theorem codeLines_core2 (d : Decorated) : codeLines (core2 d) = trimBlankCode (codeLines d) := by
  simp [core2, trimBlankCode, codeLines_reverse, codeLines_dropLeading]

theorem wholeLabels_core2 (d : Decorated) : wholeLabels (core2 d) = wholeLabels d := by
  simp [core2, wholeLabels_reverse, wholeLabels_dropLeading]

theorem core2_sublist (d : Decorated) : (core2 d).Sublist d := by
  unfold core2
  have h1 := dropLeading_sublist (dropLeadingBlank d).reverse
  have h2 := List.reverse_sublist.mpr h1
  rw [List.reverse_reverse] at h2
  exact h2.trans (dropLeading_sublist d)

theorem core_sublist (d : Decorated) : (core d).Sublist d := by
  unfold core
  have h1 : ((d.dropWhile isBlankLine).reverse.dropWhile isBlankLine).Sublist (d.dropWhile isBlankLine).reverse :=
    List.dropWhile_sublist _
  have h2 := List.reverse_sublist.mpr h1
  rw [List.reverse_reverse] at h2
  exact h2.trans (List.dropWhile_sublist _)

theorem blankPy_renderCode (c : CodeLine) (ok : (OkCode O) c) : (blankPy O) (renderCode c) = isBlankCode c := by
  by_cases hb : isBlankCode c = true
  · have h := hb
    simp only [isBlankCode, Bool.and_eq_true, List.isEmpty_iff] at h
    simp [hb, renderCode, h.1, h.2, blankPy]
  · have hcode : c.code ≠ [] := by
      intro e
      by_cases hh : c.hints = []
      · exact hb (by simp [isBlankCode, e, hh])
      · exact ok.hinted hh e
    obtain ⟨x, hx⟩ : ∃ x, c.code.getLast? = some x := by
      cases h : c.code.getLast? with
      | none => simp at h; exact absurd h hcode
      | some x => exact ⟨x, rfl⟩
    have := blankPy_false_of_mem (renderCode_code_sub c x (List.mem_of_getLast? hx)) (ok.notrail x hx)
    rw [this]; simpa using hb

theorem trimBlank_map_render (cs : List CodeLine) (ok : ∀ c ∈ cs, (OkCode O) c) :
    (trimBlank O) (cs.map renderCode) = (trimBlankCode cs).map renderCode := by
  have hp : ∀ c ∈ cs, (blankPy O) (renderCode c) = isBlankCode c := fun c hc => blankPy_renderCode c (ok c hc)
  unfold trimBlank trimBlankCode
  rw [map_dropWhile_congr renderCode (blankPy O) isBlankCode cs hp, ← List.map_reverse,
    map_dropWhile_congr renderCode (blankPy O) isBlankCode _ (by
      intro c hc
      exact hp c ((List.dropWhile_sublist _).subset (List.mem_reverse.mp hc))),
    List.map_reverse]

theorem trimBoth_id {α : Type} (p : α → Bool) (ls : List α) (hf : ∀ x, ls.head? = some x → p x = false)
    (hl : ∀ x, ls.getLast? = some x → p x = false) :
    ((ls.dropWhile p).reverse.dropWhile p).reverse = ls := by
  have e1 : ls.dropWhile p = ls := by
    cases ls with
    | nil => rfl
    | cons a t => simp [List.dropWhile_cons, hf a rfl]
  have e2 : ls.reverse.dropWhile p = ls.reverse := by
    cases hr : ls.reverse with
    | nil => rfl
    | cons a t =>
      have : ls.getLast? = some a := by rw [← List.head?_reverse, hr]; rfl
      simp [List.dropWhile_cons, hl a this]
  simp [e1, e2]

theorem trimBlankCode_idem (cs : List CodeLine) : trimBlankCode (trimBlankCode cs) = trimBlankCode cs := by
  obtain ⟨_, h1, h2⟩ := trim_both_props isBlankCode cs
  exact trimBoth_id isBlankCode _ h1 h2

/-- **`centrifugate_hints` does not see the blank end code lines.** -/
theorem centrifugate_core2 (d : Decorated) (ok : ∀ c ∈ codeLines d, (OkCode O) c)
    (hw : ∀ L ∈ wholeLabels d, (Clean O) L) (hne : codeLines (core2 d) ≠ []) :
    (centrifugate O) (decorate d) = (centrifugate O) (decorate (core2 d)) := by
  have hsub := core2_sublist d
  have ok2 : ∀ c ∈ codeLines (core2 d), (OkCode O) c :=
    fun c hc => ok c ((mem_codeLines_iff d c).mpr (hsub.subset ((mem_codeLines_iff _ c).mp hc)))
  have hw2 : ∀ L ∈ wholeLabels (core2 d), (Clean O) L := by rw [wholeLabels_core2]; exact hw
  have hd2 : core2 d ≠ [] := by intro e; rw [e] at hne; exact hne rfl
  have hd : d ≠ [] := by intro e; rw [e] at hd2; exact hd2 rfl
  have hs1 : splitNL (decorate d) = d.map renderLine :=
    splitNL_joinNL _ (by simpa using hd) (renderLine_noNL d ok hw)
  have hs2 : splitNL (decorate (core2 d)) = (core2 d).map renderLine :=
    splitNL_joinNL _ (by simpa using hd2) (renderLine_noNL _ ok2 hw2)
  have e1 := trimBlank_map_render (codeLines d) ok
  have e2 : (trimBlank O) ((codeLines (core2 d)).map renderCode) = (trimBlankCode (codeLines d)).map renderCode := by
    rw [trimBlank_map_render _ ok2, codeLines_core2, trimBlankCode_idem]
  unfold centrifugate
  simp only [hs1, hs2, scanIsolated_decorated d ok hw, scanIsolated_decorated _ ok2 hw2, e1, e2,
    wholeLabels_core2]

/-- The normalised program is hygienic as soon as the lines are and one code line is not blank. -/
theorem hyg_core2 (d : Decorated) (ok : ∀ c ∈ codeLines d, (OkCode O) c) (hw : ∀ L ∈ wholeLabels d, (Clean O) L)
    (hne : codeLines (core2 d) ≠ []) : (Hyg O) (core2 d) := by
  have hsub := core2_sublist d
  have ok2 : ∀ c ∈ codeLines (core2 d), (OkCode O) c :=
    fun c hc => ok c ((mem_codeLines_iff d c).mpr (hsub.subset ((mem_codeLines_iff _ c).mp hc)))
  obtain ⟨_, h1, h2⟩ := trim_both_props isBlankCode (codeLines d)
  have hnb : ∀ c ∈ codeLines (core2 d), isBlankCode c = false → c.code ≠ [] := by
    intro c hc hb e
    by_cases hh : c.hints = []
    · simp [isBlankCode, e, hh] at hb
    · exact (ok2 c hc).hinted hh e
  refine ⟨ok2, by rw [wholeLabels_core2]; exact hw, hne, ?_, ?_⟩
  · intro c hc
    have hm := List.mem_of_head? hc
    rw [codeLines_core2] at hc
    exact hnb c hm (h1 c hc)
  · intro c hc
    have hm := List.mem_of_getLast? hc
    rw [codeLines_core2] at hc
    exact hnb c hm (h2 c hc)

/-- Hygiene of the prepared program. -/
theorem trimmed_ok (d : List (Line × MarkerStyle)) (hok : (LinesOk O) (d.map Prod.fst)) :
    (∀ c ∈ codeLines (trimmed d), (OkCode O) c) ∧ ∀ L ∈ wholeLabels (trimmed d), (Clean O) L := by
  have e : (d.map fun p => gap0 p.1) = (d.map Prod.fst).map gap0 := by simp [List.map_map, Function.comp_def]
  have hsub := core_sublist (d.map fun p => gap0 p.1)
  constructor
  · intro c' hc'
    have h1 : c' ∈ codeLines ((d.map Prod.fst).map gap0) := by
      rw [← e]; exact (mem_codeLines_iff _ c').mpr (hsub.subset ((mem_codeLines_iff _ c').mp hc'))
    obtain ⟨c, hc, hg⟩ := codeLines_map_gap0 _ c' h1
    exact okCode_gap0 c (hok.ok c hc) c' hg
  · intro L hL
    obtain ⟨n, hn⟩ := (mem_wholeLabels_iff _ L).mp hL
    have : L ∈ wholeLabels ((d.map Prod.fst).map gap0) := by
      rw [← e]; exact mem_wholeLabels (hsub.subset hn)
    rw [wholeLabels_map_gap0] at this
    exact hok.whole L this

end Paroxy.Hints
