/-
Helper lemmas for C02 (hint part): whatever the text, the spans `collect_hints` schedules are
ordered line numbers of the text it was given (the centrifugated text).
-/
import Paroxy.Proofs.HintsRound
import Paroxy.Proofs.HintsMalformed
namespace Paroxy.Hints

variable {O : CharOracle}

/-! ### `count("\n") + 1` is the number of lines -/

theorem splitNL'_length (s : Str) : (splitNL' s).2.length = s.count '\n' := by
  induction s with
  | nil => rfl
  | cons c t ih =>
    by_cases h : c = '\n'
    · subst h; simp [splitNL', ih]
    · have : ¬ (c == '\n') = true := by simpa using h
      simp [splitNL', h, ih, List.count_cons, this]

theorem lineCount_eq (s : Str) : lineCount s = s.count '\n' + 1 := by
  simp [lineCount, splitNL, splitNL'_length]

/-! ### The machine only records ordered line numbers it has seen -/

/-- Everything recorded so far lies within lines 1..cur, spans are ordered. -/
structure Within (st : Bufs) (cur : Nat) : Prop where
  sa : ∀ e ∈ st.add.stack, 1 ≤ e.2 ∧ e.2 ≤ cur
  sd : ∀ e ∈ st.del.stack, 1 ≤ e.2 ∧ e.2 ≤ cur
  ra : ∀ e ∈ st.add.result, 1 ≤ e.2.1 ∧ e.2.1 ≤ e.2.2 ∧ e.2.2 ≤ cur
  rd : ∀ e ∈ st.del.result, 1 ≤ e.2.1 ∧ e.2.1 ≤ e.2.2 ∧ e.2.2 ≤ cur

theorem Within.mono {st : Bufs} {a b : Nat} (h : Within st a) (hab : a ≤ b) : Within st b :=
  ⟨fun e he => ⟨(h.sa e he).1, Nat.le_trans (h.sa e he).2 hab⟩,
   fun e he => ⟨(h.sd e he).1, Nat.le_trans (h.sd e he).2 hab⟩,
   fun e he => ⟨(h.ra e he).1, (h.ra e he).2.1, Nat.le_trans (h.ra e he).2.2 hab⟩,
   fun e he => ⟨(h.rd e he).1, (h.rd e he).2.1, Nat.le_trans (h.rd e he).2.2 hab⟩⟩

theorem stepEv_within (i : Nat) (st st' : Bufs) (k : Tok) (cur : Nat) (hi : 1 ≤ i) (hcur : cur ≤ i)
    (hw : Within st cur) (h : stepEv i st k = .ok st') : Within st' i := by
  have hw' := hw.mono hcur
  obtain ⟨b, L, a⟩ := k
  have happ : ∀ (bf : Buf), (∀ e ∈ bf.result, 1 ≤ e.2.1 ∧ e.2.1 ≤ e.2.2 ∧ e.2.2 ≤ i) →
      ∀ e ∈ (bf.append L i).result, 1 ≤ e.2.1 ∧ e.2.1 ≤ e.2.2 ∧ e.2.2 ≤ i := by
    intro bf hb e he
    simp only [Buf.append, List.mem_append, List.mem_singleton] at he
    rcases he with he | rfl
    · exact hb e he
    · exact ⟨hi, Nat.le_refl _, Nat.le_refl _⟩
  have hopen : ∀ (bf : Buf), (∀ e ∈ bf.stack, 1 ≤ e.2 ∧ e.2 ≤ i) →
      ∀ e ∈ (bf.open L i).stack, 1 ≤ e.2 ∧ e.2 ≤ i := by
    intro bf hb e he
    simp only [Buf.open, List.mem_cons] at he
    rcases he with rfl | he
    · exact ⟨hi, Nat.le_refl _⟩
    · exact hb e he
  have hclose : ∀ (bf : Buf) (x : Nat), top L bf.stack = some x →
      (∀ e ∈ bf.stack, 1 ≤ e.2 ∧ e.2 ≤ i) → (∀ e ∈ bf.result, 1 ≤ e.2.1 ∧ e.2.1 ≤ e.2.2 ∧ e.2.2 ≤ i) →
      (∀ e ∈ (bf.close L x i).stack, 1 ≤ e.2 ∧ e.2 ≤ i) ∧
        ∀ e ∈ (bf.close L x i).result, 1 ≤ e.2.1 ∧ e.2.1 ≤ e.2.2 ∧ e.2.2 ≤ i := by
    intro bf x hx hs hr
    have hxm := hs _ (top_mem L _ x hx)
    refine ⟨fun e he => hs e (pop_subset L _ e he), fun e he => ?_⟩
    simp only [Buf.close, List.mem_append, List.mem_singleton] at he
    rcases he with he | rfl
    · exact hr e he
    · exact ⟨hxm.1, hxm.2, Nat.le_refl _⟩
  cases b <;> cases a <;> simp only [stepEv] at h
  · cases h; exact ⟨hw'.sa, hw'.sd, happ _ hw'.ra, hw'.rd⟩
  · cases h; exact ⟨hopen _ hw'.sa, hw'.sd, hw'.ra, hw'.rd⟩
  · cases h; exact ⟨hw'.sa, hw'.sd, happ _ hw'.ra, hw'.rd⟩
  · cases h; exact ⟨hopen _ hw'.sa, hw'.sd, hw'.ra, hw'.rd⟩
  · cases h; exact ⟨hw'.sa, hw'.sd, hw'.ra, happ _ hw'.rd⟩
  · cases h; exact ⟨hw'.sa, hopen _ hw'.sd, hw'.ra, hw'.rd⟩
  · split at h
    · cases h
    · rename_i x hx _
      cases h
      obtain ⟨h1, h2⟩ := hclose st.add x hx hw'.sa hw'.ra
      exact ⟨h1, hw'.sd, h2, hw'.rd⟩
    · rename_i y _ hy
      cases h
      obtain ⟨h1, h2⟩ := hclose st.del y hy hw'.sd hw'.rd
      exact ⟨hw'.sa, h1, hw'.ra, h2⟩
    · rename_i x y hx hy
      split at h
      · cases h
        obtain ⟨h1, h2⟩ := hclose st.del y hy hw'.sd hw'.rd
        exact ⟨hw'.sa, h1, hw'.ra, h2⟩
      · cases h
        obtain ⟨h1, h2⟩ := hclose st.add x hx hw'.sa hw'.ra
        exact ⟨h1, hw'.sd, h2, hw'.rd⟩
  · cases h

theorem runToks_within (toks : List (Nat × Str)) :
    ∀ st st' cur N, Within st cur → cur ≤ N →
      toks.Pairwise (fun a b => a.1 ≤ b.1) → (∀ t ∈ toks, 1 ≤ t.1 ∧ cur ≤ t.1 ∧ t.1 ≤ N) →
      (runToks O) st toks = .ok st' → Within st' N := by
  induction toks with
  | nil => intro st st' cur N hw hc _ _ h; simp [runToks] at h; subst h; exact hw.mono hc
  | cons p rest ih =>
    obtain ⟨i, t⟩ := p
    intro st st' cur N hw hc hp hb h
    simp only [runToks] at h
    split at h
    · rename_i st1 hst1
      have hbi := hb (i, t) (by simp)
      rw [stepTok_classify] at hst1
      cases hk : (classify O) t with
      | none => simp [hk] at hst1
      | some k =>
        simp only [hk] at hst1
        have hw1 := stepEv_within i st st1 k cur hbi.1 hbi.2.1 hw hst1
        have hp' := List.pairwise_cons.mp hp
        exact ih st1 st' i N hw1 hbi.2.2 hp'.2
          (fun q hq => ⟨(hb q (List.mem_cons_of_mem _ hq)).1, hp'.1 q hq, (hb q (List.mem_cons_of_mem _ hq)).2.2⟩) h
    · cases h

theorem numberedTokens_bounds (lines : List Str) : ∀ i, ∀ t ∈ (numberedTokens O) i lines,
    i ≤ t.1 ∧ t.1 < i + lines.length := by
  induction lines with
  | nil => intro i t ht; simp [numberedTokens] at ht
  | cons l ls ih =>
    intro i t ht
    simp only [numberedTokens, List.mem_append, List.mem_map] at ht
    rcases ht with ⟨x, _, rfl⟩ | ht
    · simp
    · have := ih (i + 1) t ht
      simp only [List.length_cons]; omega

theorem numberedTokens_sorted (lines : List Str) : ∀ i,
    ((numberedTokens O) i lines).Pairwise (fun a b => a.1 ≤ b.1) := by
  induction lines with
  | nil => intro i; simp [numberedTokens]
  | cons l ls ih =>
    intro i
    simp only [numberedTokens]
    refine List.pairwise_append.mpr ⟨?_, ih (i + 1), ?_⟩
    · exact List.pairwise_of_forall_mem_list (fun a ha b hb => by
        simp only [List.mem_map] at ha hb
        obtain ⟨_, _, rfl⟩ := ha
        obtain ⟨_, _, rfl⟩ := hb
        exact Nat.le_refl _)
    · intro a ha b hb
      simp only [List.mem_map] at ha
      obtain ⟨_, _, rfl⟩ := ha
      have := (numberedTokens_bounds ls (i + 1) b hb).1
      simp only; omega

theorem mem_entries_getResult (res : List Entry) (e : Entry) (h : e ∈ Sched.entries (getResult res)) :
    e ∈ res := by
  simp only [Sched.entries, getResult, List.mem_flatMap, List.mem_map] at h
  obtain ⟨p, ⟨L, _, rfl⟩, sp, hsp, rfl⟩ := h
  have : sp ∈ spansOf L res := (isort_perm _ _).mem_iff.mp hsp
  simp only [spansOf, List.mem_filterMap] at this
  obtain ⟨x, hx, hx2⟩ := this
  split at hx2
  · rename_i hL
    simp only [Option.some.injEq] at hx2
    subst hL; subst hx2
    exact hx
  · cases hx2

/-- **Every span `collect_hints` schedules is an ordered pair of line numbers of its input.** -/
theorem collectHints_spans (c : Str) (a d : Sched) (h : (collectHints O) c = .ok (a, d)) :
    ∀ e ∈ a.entries ++ d.entries, 1 ≤ e.2.1 ∧ e.2.1 ≤ e.2.2 ∧ e.2.2 ≤ lineCount c := by
  unfold collectHints collectToks at h
  split at h
  · rename_i st hst
    have hb := numberedTokens_bounds (O := O) (splitNL c) 1
    have hw := runToks_within _ {} st 0 (lineCount c) ⟨by simp, by simp, by simp, by simp⟩ (Nat.zero_le _)
      (numberedTokens_sorted _ 1)
      (fun t ht => by have := hb t ht; simp only [lineCount]; omega) hst
    unfold finish at h
    split at h
    · cases h
    · split at h
      · cases h
      · simp only [Except.ok.injEq, Prod.mk.injEq] at h
        obtain ⟨rfl, rfl⟩ := h
        intro e he
        rcases List.mem_append.mp he with he | he
        · exact hw.ra e (mem_entries_getResult _ e he)
        · exact hw.rd e (mem_entries_getResult _ e he)
  · cases h

end Paroxy.Hints
