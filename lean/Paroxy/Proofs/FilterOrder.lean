/- Helper lemmas for C06: every command acts on the filter state through an *effect* that depends on
the database and the command only — never on the state. -/
import Paroxy.Proofs.Filter
namespace Paroxy.Filter
open Paroxy

structure Effect where
  keep : Codes → Bool
  learn : List Codes
  hideT : List Codes
  hideP : List Codes

def Effect.id : Effect := { keep := fun _ => true, learn := [], hideT := [], hideP := [] }

def applyEffect (st : State) (e : Effect) : State :=
  { selected := st.selected.filter e.keep, knowledge := st.knowledge ++ e.learn,
    hiddenTaxa := st.hiddenTaxa ++ e.hideT, hiddenPrograms := st.hiddenPrograms ++ e.hideP }

/-- The effect of `update_filter(criteria, operation, quantifier)`: no filter state involved. -/
def effectOf (c : Ctx) (r : Relations) (criteria : List Criterion) (op : Operation) (quantAll : Bool) :
    Except Err Effect :=
  match op with
  | .impart =>
    let pats := criteria.filterMap patternOf
    let progs := (pats.filter endsWithPy).flatMap (programsOfPattern c)
    let taxa := pats.flatMap fun p =>
      if endsWithPy p then taxaOfPrograms c (programsOfPattern c p) false else taxaOfPattern c p
    .ok { Effect.id with keep := fun p => !progs.contains p, learn := taxa.flatMap prefixes }
  | .hide =>
    let pats := criteria.filterMap patternOf
    .ok { Effect.id with
      hideP := (pats.filter endsWithPy).flatMap (programsOfPattern c),
      hideT := (pats.filter (!endsWithPy ·)).flatMap (taxaOfPattern c) }
  | .include =>
    match mapE (criterionPrograms c r false) criteria with
    | .error e => .error e
    | .ok sets => .ok { Effect.id with keep := inBag sets quantAll }
  | .exclude =>
    match mapE (criterionPrograms c r true) criteria with
    | .error e => .error e
    | .ok sets =>
      let bag := (sets.flatten).filter (inBag sets quantAll)
      let drop := bag ++ bag.flatMap fun p => (dictGet? c.exportations p).getD []
      .ok { Effect.id with keep := fun p => !drop.contains p }

theorem filter_true {α} (l : List α) : l.filter (fun _ => true) = l := by
  induction l with
  | nil => rfl
  | cons a t ih => simp [List.filter_cons, ih]

theorem applyEffect_id (st : State) : applyEffect st Effect.id = st := by
  simp [applyEffect, Effect.id, filter_true]

theorem updateFilter_effect (c : Ctx) (r : Relations) (st : State) (cs : List Criterion) (op : Operation)
    (q : Bool) :
    updateFilter c r st cs op q =
      match effectOf c r cs op q with
      | .error e => .error e
      | .ok eff => .ok (applyEffect st eff) := by
  rcases op with _ | _ | _ | _
  · rw [updateFilter_include]; unfold effectOf
    cases mapE (criterionPrograms c r false) cs <;> simp [applyEffect, Effect.id]
  · rw [updateFilter_exclude]; unfold effectOf
    cases mapE (criterionPrograms c r true) cs <;> simp [applyEffect, Effect.id, excludePrograms]
  · simp [updateFilter, effectOf, applyEffect, Effect.id, excludePrograms]
  · simp [updateFilter, effectOf, applyEffect, Effect.id, filter_true]

def commandEffect (c : Ctx) (r : Relations) (cmd : Command) : Except Err Effect :=
  match parseOperation cmd.operation with
  | none => .ok Effect.id
  | some (op, q) => if cmd.data.isEmpty then .ok Effect.id else effectOf c r cmd.data op q

theorem runCommand_effect (c : Ctx) (r : Relations) (st : State) (cmd : Command) :
    runCommand c r st cmd =
      match commandEffect c r cmd with
      | .error e => .error e
      | .ok eff => .ok (applyEffect st eff) := by
  unfold runCommand commandEffect
  cases parseOperation cmd.operation with
  | none => simp [applyEffect_id]
  | some v =>
    obtain ⟨op, q⟩ := v
    by_cases hd : cmd.data.isEmpty = true
    · simp [hd, applyEffect_id]
    · simp only [hd]
      exact updateFilter_effect c r st cmd.data op q

/-- Two states with the same four *sets*. -/
def SameSets (s1 s2 : State) : Prop :=
  (∀ x, x ∈ s1.selected ↔ x ∈ s2.selected) ∧ (∀ x, x ∈ s1.knowledge ↔ x ∈ s2.knowledge) ∧
  (∀ x, x ∈ s1.hiddenTaxa ↔ x ∈ s2.hiddenTaxa) ∧ (∀ x, x ∈ s1.hiddenPrograms ↔ x ∈ s2.hiddenPrograms)

/-- What a whole pipeline does, stated command-wise (hence independently of their order). -/
theorem runPipeline_spec (c : Ctx) (r : Relations) (cmds : List Command) (st s : State)
    (h : runPipeline c r st cmds = .ok s) :
    (∀ p, p ∈ s.selected ↔ p ∈ st.selected ∧
      ∀ cmd ∈ cmds, ∀ e, commandEffect c r cmd = .ok e → e.keep p = true) ∧
    (∀ t, t ∈ s.knowledge ↔ t ∈ st.knowledge ∨
      ∃ cmd ∈ cmds, ∃ e, commandEffect c r cmd = .ok e ∧ t ∈ e.learn) ∧
    (∀ t, t ∈ s.hiddenTaxa ↔ t ∈ st.hiddenTaxa ∨
      ∃ cmd ∈ cmds, ∃ e, commandEffect c r cmd = .ok e ∧ t ∈ e.hideT) ∧
    (∀ p, p ∈ s.hiddenPrograms ↔ p ∈ st.hiddenPrograms ∨
      ∃ cmd ∈ cmds, ∃ e, commandEffect c r cmd = .ok e ∧ p ∈ e.hideP) := by
  induction cmds generalizing st with
  | nil =>
    simp only [runPipeline, foldE] at h; cases h
    simp
  | cons cmd t ih =>
    simp only [runPipeline, foldE] at h
    rw [runCommand_effect] at h
    cases he : commandEffect c r cmd with
    | error e => rw [he] at h; cases h
    | ok eff =>
      rw [he] at h
      simp only at h
      obtain ⟨h1, h2, h3, h4⟩ := ih (applyEffect st eff) h
      refine ⟨fun p => ?_, fun x => ?_, fun x => ?_, fun p => ?_⟩
      · rw [h1 p]
        simp only [applyEffect, List.mem_filter, List.mem_cons, forall_eq_or_imp, he, Except.ok.injEq,
          forall_eq']
        constructor
        · rintro ⟨⟨a, b⟩, d⟩; exact ⟨a, b, d⟩
        · rintro ⟨a, b, d⟩; exact ⟨⟨a, b⟩, d⟩
      · rw [h2 x]
        simp only [applyEffect, List.mem_append, List.mem_cons, exists_eq_or_imp, he, Except.ok.injEq,
          exists_eq_left']
        constructor
        · rintro ((a | b) | d)
          · exact Or.inl a
          · exact Or.inr (Or.inl b)
          · exact Or.inr (Or.inr d)
        · rintro (a | b | d)
          · exact Or.inl (Or.inl a)
          · exact Or.inl (Or.inr b)
          · exact Or.inr d
      · rw [h3 x]
        simp only [applyEffect, List.mem_append, List.mem_cons, exists_eq_or_imp, he, Except.ok.injEq,
          exists_eq_left']
        constructor
        · rintro ((a | b) | d)
          · exact Or.inl a
          · exact Or.inr (Or.inl b)
          · exact Or.inr (Or.inr d)
        · rintro (a | b | d)
          · exact Or.inl (Or.inl a)
          · exact Or.inl (Or.inr b)
          · exact Or.inr d
      · rw [h4 p]
        simp only [applyEffect, List.mem_append, List.mem_cons, exists_eq_or_imp, he, Except.ok.injEq,
          exists_eq_left']
        constructor
        · rintro ((a | b) | d)
          · exact Or.inl a
          · exact Or.inr (Or.inl b)
          · exact Or.inr (Or.inr d)
        · rintro (a | b | d)
          · exact Or.inl (Or.inl a)
          · exact Or.inl (Or.inr b)
          · exact Or.inr d

/-- A pipeline succeeds iff each of its commands has an effect (no rejected predicate string). -/
theorem runPipeline_ok_iff (c : Ctx) (r : Relations) (cmds : List Command) (st : State) :
    (∃ s, runPipeline c r st cmds = .ok s) ↔ ∀ cmd ∈ cmds, ∃ e, commandEffect c r cmd = .ok e := by
  induction cmds generalizing st with
  | nil => simp [runPipeline, foldE]
  | cons cmd t ih =>
    simp only [runPipeline, foldE, List.mem_cons, forall_eq_or_imp]
    rw [runCommand_effect]
    cases he : commandEffect c r cmd with
    | error e => simp
    | ok eff =>
      simp only [Except.ok.injEq, exists_eq', true_and]
      exact ih (applyEffect st eff)

/-- The selection after a pipeline is a sublist of the initial one (programs are only ever removed,
their relative order is kept). -/
theorem runPipeline_sublist (c : Ctx) (r : Relations) (cmds : List Command) (st s : State)
    (h : runPipeline c r st cmds = .ok s) : s.selected.Sublist st.selected := by
  induction cmds generalizing st with
  | nil => simp only [runPipeline, foldE] at h; cases h; exact List.Sublist.refl _
  | cons cmd t ih =>
    simp only [runPipeline, foldE] at h
    rw [runCommand_effect] at h
    cases he : commandEffect c r cmd with
    | error e => rw [he] at h; cases h
    | ok eff =>
      rw [he] at h
      exact (ih (applyEffect st eff) h).trans List.filter_sublist

/-- Two sublists of a duplicate-free list with the same members are the same list. -/
theorem sublist_ext {α} {l l1 l2 : List α} (hn : l.Nodup) (h1 : l1.Sublist l) (h2 : l2.Sublist l)
    (h : ∀ x, x ∈ l1 ↔ x ∈ l2) : l1 = l2 := by
  induction l generalizing l1 l2 with
  | nil => cases h1; cases h2; rfl
  | cons a t ih =>
    rw [List.nodup_cons] at hn
    cases h1 with
    | cons _ h1' =>
      cases h2 with
      | cons _ h2' => exact ih hn.2 h1' h2' h
      | cons_cons _ h2' =>
        exact absurd (h1'.subset ((h a).mpr List.mem_cons_self)) hn.1
    | cons_cons _ h1' =>
      cases h2 with
      | cons _ h2' =>
        exact absurd (h2'.subset ((h a).mp List.mem_cons_self)) hn.1
      | cons_cons _ h2' =>
        rename_i u v
        congr 1
        refine ih hn.2 h1' h2' fun x => ?_
        have hx := h x
        simp only [List.mem_cons] at hx
        constructor
        · intro hu
          rcases hx.mp (Or.inr hu) with rfl | hv
          · exact absurd (h1'.subset hu) hn.1
          · exact hv
        · intro hv
          rcases hx.mpr (Or.inr hv) with rfl | hu
          · exact absurd (h2'.subset hv) hn.1
          · exact hu

end Paroxy.Filter
