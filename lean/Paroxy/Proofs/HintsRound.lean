/-
Helper lemmas for C12: `get_program` on a decorated program, assembled from the character-level
lemmas (HintsChars) and the token-level ones (HintsSched).
-/
import Paroxy.Proofs.HintsChars
import Paroxy.Proofs.HintsSched
import Paroxy.Proofs.HintsNorm
import Paroxy.Proofs.HintsTrim
import Paroxy.Proofs.Isort
namespace Paroxy.Hints

variable {O : CharOracle}

/-! ### `set` / `sorted` of the isolated hints -/

theorem mem_dedup (x : Str) (l : List Str) : x ∈ dedup l ↔ x ∈ l := by
  induction l with
  | nil => simp [dedup]
  | cons y t ih =>
    simp only [dedup]
    split
    · rename_i h
      simp only [ih, List.mem_cons]
      constructor
      · exact Or.inr
      · rintro (rfl | h') <;> [exact ih.mp h; exact h']
    · simp [ih]

theorem nodup_dedup (l : List Str) : (dedup l).Nodup := by
  induction l with
  | nil => simp [dedup]
  | cons y t ih =>
    simp only [dedup]
    split
    · exact ih
    · rename_i h; exact List.nodup_cons.mpr ⟨h, ih⟩

theorem mem_sortDedup (x : Str) (l : List Str) : x ∈ sortDedup l ↔ x ∈ l := by
  rw [sortDedup, (isort_perm _ _).mem_iff, mem_dedup]

theorem nodup_sortDedup (l : List Str) : (sortDedup l).Nodup :=
  (isort_perm _ _).nodup_iff.mpr (nodup_dedup l)

theorem sortDedup_nil : sortDedup [] = [] := rfl

theorem sortDedup_ne_nil {l : List Str} (h : l ≠ []) : sortDedup l ≠ [] := by
  cases l with
  | nil => exact absurd rfl h
  | cons x t =>
    intro e
    have : x ∈ sortDedup (x :: t) := (mem_sortDedup _ _).mpr (by simp)
    rw [e] at this; simp at this

/-! ### Hygiene, as propositions -/

structure Hyg (O : CharOracle) (d : Decorated) : Prop where
  ok : ∀ c ∈ codeLines d, (OkCode O) c
  whole : ∀ L ∈ wholeLabels d, (Clean O) L
  ne : codeLines d ≠ []
  first : ∀ c, (codeLines d).head? = some c → c.code ≠ []
  last : ∀ c, (codeLines d).getLast? = some c → c.code ≠ []

theorem hyg_of (d : Decorated) (h : (hygienic O) d = true) : (Hyg O) d := by
  simp only [hygienic, Bool.and_eq_true, List.all_eq_true] at h
  obtain ⟨⟨h1, h2⟩, h3⟩ := h
  cases hcs : codeLines d with
  | nil => simp [hcs] at h3
  | cons c cs =>
    simp only [hcs, Bool.and_eq_true] at h3
    refine ⟨fun x hx => okCode_of x (h1 x hx), fun L hL => clean_of L (h2 L hL), by simp [hcs], ?_, ?_⟩
    · intro c' hc'
      rw [hcs] at hc'; simp at hc'; subst hc'
      simpa [firstOk] using h3.1
    · intro c' hc'
      rw [hcs, List.getLast?_eq_some_getLast (by simp)] at hc'
      simp only [Option.some.injEq] at hc'
      subst hc'
      simpa [lastOk] using h3.2

/-! ### `str.strip()` on the program without its hints -/

theorem joinNL_head? (l : Str) (ls : List Str) (h : l ≠ []) : (joinNL (l :: ls)).head? = l.head? := by
  cases ls with
  | nil => rfl
  | cons l2 t => cases l with
    | nil => exact absurd rfl h
    | cons c r => rfl

theorem joinNL_getLast? (ls : List Str) (last : Str) (hl : ls.getLast? = some last) (hne : last ≠ []) :
    (joinNL ls).getLast? = last.getLast? := by
  induction ls with
  | nil => simp at hl
  | cons l t ih =>
    cases t with
    | nil => simp at hl; subst hl; rfl
    | cons l2 t2 =>
      rw [joinNL_cons_cons, List.getLast?_append]
      have hl' : (l2 :: t2).getLast? = some last := by simpa using hl
      have h1 := ih hl'
      have : ('\n' :: joinNL (l2 :: t2)).getLast? = last.getLast? := by
        rw [List.getLast?_cons, h1]
        cases hh : last.getLast? with
        | none => simp at hh; exact absurd hh hne
        | some x => rfl
      rw [this]
      cases hh : last.getLast? with
      | none => simp at hh; exact absurd hh hne
      | some x => rfl

theorem stripPy_plain (cs : List CodeLine) (hne : cs ≠ [])
    (hfirst : ∀ c, cs.head? = some c → ∃ x t, c.code = x :: t ∧ (isSpacePy O) x = false)
    (hlast : ∀ c, cs.getLast? = some c → c.code ≠ [] ∧ ∀ x, c.code.getLast? = some x → (isSpacePy O) x = false) :
    (stripPy O) (joinNL (plainLines cs)) = joinNL (plainLines cs) := by
  apply stripPy_id
  · intro x hx
    cases cs with
    | nil => exact absurd rfl hne
    | cons c t =>
      obtain ⟨y, r, hy, hsp⟩ := hfirst c rfl
      simp only [plainLines, List.map_cons] at hx
      rw [joinNL_head? _ _ (by simp [hy]), hy] at hx
      simp at hx; subst hx; exact hsp
  · intro x hx
    obtain ⟨c, hc⟩ : ∃ c, cs.getLast? = some c := by
      cases h : cs.getLast? with
      | none => simp at h; exact absurd h hne
      | some c => exact ⟨c, rfl⟩
    obtain ⟨h1, h2⟩ := hlast c hc
    have : (plainLines cs).getLast? = some c.code := by simp [plainLines, hc]
    rw [joinNL_getLast? _ _ this h1] at hx
    exact h2 x hx

/-! ### Centrifugation of a decorated program -/

theorem splitWs_clean (L : Str) (h : (Clean O) L) : (splitWs O) L = [L] := by
  have := splitWs_word L [] h.nosp h.ne rfl
  simpa [splitWs, splitWs'] using this

theorem scanIsolated_decorated (d : Decorated) (ok : ∀ c ∈ codeLines d, (OkCode O) c)
    (hw : ∀ L ∈ wholeLabels d, (Clean O) L) :
    (scanIsolated O) (d.map renderLine) = ((codeLines d).map renderCode, wholeLabels d) := by
  induction d with
  | nil => rfl
  | cons l t ih =>
    cases l with
    | code c =>
      have okc := ok c (by simp [codeLines])
      have := ih (fun x hx => ok x (by simp [codeLines, hx])) (fun L hL => hw L (by simpa [wholeLabels] using hL))
      simp [scanIsolated, renderLine, isolatedRest_renderCode c okc, this, codeLines, wholeLabels]
    | isolated n L =>
      have hL := hw L (by simp [wholeLabels])
      have := ih (fun x hx => ok x (by simpa [codeLines] using hx)) (fun L' hL' => hw L' (by simp [wholeLabels, hL']))
      simp [scanIsolated, renderLine, isolatedRest_isolated n L, splitWs_clean L hL, this, codeLines, wholeLabels]

theorem renderLine_noNL (d : Decorated) (ok : ∀ c ∈ codeLines d, (OkCode O) c)
    (hw : ∀ L ∈ wholeLabels d, (Clean O) L) : ∀ l ∈ d.map renderLine, '\n' ∉ l := by
  induction d with
  | nil => simp
  | cons l t ih =>
    intro x hx
    simp only [List.map_cons, List.mem_cons] at hx
    cases l with
    | code c =>
      rcases hx with rfl | hx
      · exact renderCode_noNL c (ok c (by simp [codeLines]))
      · exact ih (fun x hx => ok x (by simp [codeLines, hx])) (fun L hL => hw L (by simpa [wholeLabels] using hL)) x hx
    | isolated n L =>
      rcases hx with rfl | hx
      · have hL := hw L (by simp [wholeLabels])
        simp only [renderLine, List.mem_append, not_or]
        refine ⟨by simp [List.mem_replicate], by simp [m14, m13], fun hm => ?_⟩
        have := hL.nosp _ hm
        simp [isSpacePy, isSpaceRe] at this
      · exact ih (fun x hx => ok x (by simpa [codeLines] using hx)) (fun L' hL' => hw L' (by simp [wholeLabels, hL'])) x hx

theorem lines_of_no_isolated (d : Decorated) (h : wholeLabels d = []) :
    d.map renderLine = (codeLines d).map renderCode := by
  induction d with
  | nil => rfl
  | cons l t ih =>
    cases l with
    | code c => simp [renderLine, codeLines, ih (by simpa [wholeLabels] using h)]
    | isolated n L => simp [wholeLabels] at h

theorem renderHints_wOpen (ws : List Str) : renderHints (ws.map wOpen) = ws.flatMap openTok := by
  induction ws with
  | nil => rfl
  | cons w t ih =>
    simp only [List.map_cons, renderHints_cons, List.flatMap_cons, ih]
    simp [wOpen, renderHint, sign, ellipsis, openTok]

theorem renderHints_wClose (ws : List Str) : renderHints (ws.map wClose) = ws.flatMap closeTok := by
  induction ws with
  | nil => rfl
  | cons w t ih =>
    simp only [List.map_cons, renderHints_cons, List.flatMap_cons, ih]
    simp [wClose, renderHint, ellipsis, closeTok]

theorem renderHints_wBoth (ws : List Str) :
    renderHints (ws.flatMap fun L => [wOpen L, wClose L]) = ws.flatMap fun h => openTok h ++ closeTok h := by
  induction ws with
  | nil => rfl
  | cons w t ih =>
    simp only [List.flatMap_cons, List.cons_append, List.nil_append, renderHints_cons, ih]
    simp [wOpen, wClose, renderHint, sign, ellipsis, openTok, closeTok]

theorem renderHints_append (a b : List Hint) : renderHints (a ++ b) = renderHints a ++ renderHints b := by
  simp [renderHints]

theorem hasInfix_hinted (c : CodeLine) (h : c.hints ≠ []) : hasInfix m13 (renderCode c) = true := by
  rw [hasInfix_iff, renderCode_hinted c h, hintPart]
  refine ⟨c.code ++ List.replicate c.pad ' ', renderHints c.hints, ?_⟩
  simp

/-- `lines[i] += " # paroxython:"` (if needed) then the appended tokens = the same code line with
more hints. -/
theorem addMarker_render (c : CodeLine) (ok : (OkCode O) c) (hs : List Hint) (hne : hs ≠ []) :
    addMarker (renderCode c) ++ renderHints hs = renderCode (c.addHints hs) := by
  have hne' : c.hints ++ hs ≠ [] := by simp [hne]
  by_cases h : c.hints = []
  · have : hasInfix m13 c.code = false := by simpa [noM13] using ok.nom
    simp [addMarker, renderCode_plain c h, this, renderCode, CodeLine.addHints, h, hne]
  · rw [addMarker, if_pos (hasInfix_hinted c h)]
    simp [renderCode, CodeLine.addHints, h, renderHints_append]

theorem addHints_nil_render (c : CodeLine) : renderCode (c.addHints []) = renderCode c := by
  by_cases h : c.hints = [] <;> simp [renderCode, CodeLine.addHints, h]

theorem dropLast_snoc' {α : Type} (x : α) (t : List α) (last : α) :
    (x :: (t ++ [last])).dropLast = x :: t := by
  rw [← List.cons_append, List.dropLast_concat]

theorem getLast_snoc' {α : Type} (x : α) (t : List α) (last : α) (h) :
    (x :: (t ++ [last])).getLast h = last := by
  simp [List.getLast_cons]

theorem centLines_snoc (hs : List Str) (l : Str) (mid : List Str) (last : Str) :
    centLines hs (l :: (mid ++ [last])) =
      (addMarker l ++ hs.flatMap openTok) :: (mid ++ [addMarker last ++ hs.flatMap closeTok]) := by
  cases mid with
  | nil => simp [centLines]
  | cons m t => simp only [List.cons_append, centLines, dropLast_snoc', getLast_snoc']

theorem centrifuged_snoc (ws : List Str) (c : CodeLine) (mid : List CodeLine) (last : CodeLine) :
    centrifuged ws (c :: (mid ++ [last])) =
      c.addHints (ws.map wOpen) :: (mid ++ [last.addHints (ws.map wClose)]) := by
  cases mid with
  | nil => simp [centrifuged]
  | cons m t => simp only [List.cons_append, centrifuged, dropLast_snoc', getLast_snoc']

theorem exists_snoc {α : Type} (a : α) (l : List α) : ∃ mid last, a :: l = mid ++ [last] :=
  ⟨(a :: l).dropLast, (a :: l).getLast (by simp), (List.dropLast_concat_getLast (by simp)).symm⟩

theorem map_flatMap_nil {α β : Type} (f : α → List β) : ([] : List α).flatMap f = [] := rfl

/-- The lines after centrifugation are again rendered code lines. -/
theorem centLines_render (ws : List Str) (hws : ws ≠ []) (cs : List CodeLine) (ok : ∀ c ∈ cs, (OkCode O) c) :
    centLines ws (cs.map renderCode) = (centrifuged ws cs).map renderCode := by
  cases cs with
  | nil => rfl
  | cons c t =>
    cases t with
    | nil =>
      have h1 : (ws.flatMap fun L => [wOpen L, wClose L]) ≠ [] := by
        cases ws with
        | nil => exact absurd rfl hws
        | cons w r => simp
      simp only [List.map_cons, List.map_nil, centLines, centrifuged]
      rw [← renderHints_wBoth, addMarker_render c (ok c (by simp)) _ h1]
    | cons c2 t2 =>
      obtain ⟨mid, last, hml⟩ := exists_snoc c2 t2
      have hlast : last ∈ c :: c2 :: t2 := by rw [hml]; simp
      rw [hml, List.map_cons, List.map_append, List.map_cons, List.map_nil, centLines_snoc, centrifuged_snoc]
      simp only [List.map_cons, List.map_append, List.map_nil]
      rw [← renderHints_wOpen, ← renderHints_wClose,
        addMarker_render c (ok c (by simp)) _ (by simpa using hws),
        addMarker_render last (ok last hlast) _ (by simpa using hws)]

theorem centrifuged_nil_render (cs : List CodeLine) :
    (centrifuged [] cs).map renderCode = cs.map renderCode := by
  cases cs with
  | nil => rfl
  | cons c t =>
    cases t with
    | nil => simp [centrifuged, addHints_nil_render]
    | cons c2 t2 =>
      obtain ⟨mid, last, hml⟩ := exists_snoc c2 t2
      rw [hml, centrifuged_snoc]
      simp [addHints_nil_render]

theorem centrifuged_plain (ws : List Str) (cs : List CodeLine) :
    plainLines (centrifuged ws cs) = plainLines cs := by
  cases cs with
  | nil => rfl
  | cons c t =>
    cases t with
    | nil => simp [centrifuged, plainLines, CodeLine.addHints]
    | cons c2 t2 =>
      obtain ⟨mid, last, hml⟩ := exists_snoc c2 t2
      rw [hml, centrifuged_snoc]
      simp [plainLines, CodeLine.addHints]

theorem trimBlank_id (ls : List Str) (hf : ∀ l, ls.head? = some l → (blankPy O) l = false)
    (hl : ∀ l, ls.getLast? = some l → (blankPy O) l = false) : (trimBlank O) ls = ls := by
  have e1 : ls.dropWhile (blankPy O) = ls := by
    cases ls with
    | nil => rfl
    | cons a t => simp [List.dropWhile_cons, hf a rfl]
  have e2 : ls.reverse.dropWhile (blankPy O) = ls.reverse := by
    cases hr : ls.reverse with
    | nil => rfl
    | cons a t =>
      have : ls.getLast? = some a := by rw [← List.head?_reverse, hr]; rfl
      simp [List.dropWhile_cons, hl a this]
  simp [trimBlank, e1, e2]

theorem blankPy_false_of_mem {l : Str} {x : Char} (hx : x ∈ l) (hs : (isSpacePy O) x = false) : (blankPy O) l = false := by
  simp only [blankPy, List.all_eq_false]
  exact ⟨x, hx, by simp [hs]⟩

theorem renderCode_code_sub (c : CodeLine) : ∀ x ∈ c.code, x ∈ renderCode c := by
  intro x hx
  by_cases h : c.hints = []
  · rw [renderCode_plain c h]; exact hx
  · rw [renderCode_hinted c h]; simp [hx]

theorem trimBlank_render (d : Decorated) (hy : (Hyg O) d) :
    (trimBlank O) ((codeLines d).map renderCode) = (codeLines d).map renderCode := by
  apply trimBlank_id
  · intro l hl
    simp only [List.head?_map, Option.map_eq_some_iff] at hl
    obtain ⟨c, hc, rfl⟩ := hl
    have hne := hy.first c hc
    obtain ⟨x, hx⟩ : ∃ x, c.code.getLast? = some x := by
      cases h : c.code.getLast? with
      | none => simp at h; exact absurd h hne
      | some x => exact ⟨x, rfl⟩
    exact blankPy_false_of_mem (renderCode_code_sub c x (List.mem_of_getLast? hx))
      ((hy.ok c (List.mem_of_head? hc)).notrail x hx)
  · intro l hl
    simp only [List.getLast?_map, Option.map_eq_some_iff] at hl
    obtain ⟨c, hc, rfl⟩ := hl
    have hne := hy.last c hc
    obtain ⟨x, hx⟩ : ∃ x, c.code.getLast? = some x := by
      cases h : c.code.getLast? with
      | none => simp at h; exact absurd h hne
      | some x => exact ⟨x, rfl⟩
    exact blankPy_false_of_mem (renderCode_code_sub c x (List.mem_of_getLast? hx))
      ((hy.ok c (List.mem_of_getLast? hc)).notrail x hx)

/-- **`centrifugate_hints` on a decorated program**: the isolated hints disappear, their labels
(sorted, without repetition) are opened at the end of the first code line and closed at the end of
the last one. -/
theorem centrifugate_decorate (d : Decorated) (hy : (Hyg O) d) :
    (centrifugate O) (decorate d) =
      .ok (joinNL ((centrifuged (sortDedup (wholeLabels d)) (codeLines d)).map renderCode)) := by
  have hdne : d ≠ [] := by
    intro e; exact hy.ne (by simp [e, codeLines])
  have hsplit : splitNL (decorate d) = d.map renderLine :=
    splitNL_joinNL _ (by simpa using hdne) (renderLine_noNL d hy.ok hy.whole)
  have hscan := scanIsolated_decorated d hy.ok hy.whole
  unfold centrifugate
  simp only [hsplit, hscan, trimBlank_render d hy]
  by_cases hw : wholeLabels d = []
  · simp only [hw, if_true, sortDedup_nil, centrifuged_nil_render]
  · simp only [hw, if_false]
    cases hcs : codeLines d with
    | nil => exact absurd hcs hy.ne
    | cons c t =>
      simp only [List.map_cons]
      have := centLines_render (sortDedup (wholeLabels d)) (sortDedup_ne_nil hw) (c :: t)
        (by rw [← hcs]; exact hy.ok)
      simp only [List.map_cons] at this
      rw [this]

/-! ### Collecting the hints of a decorated text -/

def numbered : Nat → List CodeLine → List (Nat × Hint)
  | _, [] => []
  | i, c :: cs => c.hints.map (fun h => (i, h)) ++ numbered (i + 1) cs

theorem numbered_append (i : Nat) (a b : List CodeLine) :
    numbered i (a ++ b) = numbered i a ++ numbered (i + a.length) b := by
  induction a generalizing i with
  | nil => simp [numbered]
  | cons c t ih => simp [numbered, ih, Nat.add_assoc, Nat.add_comm 1]

theorem numberedTokens_render (i : Nat) (cs : List CodeLine) (ok : ∀ c ∈ cs, (OkCode O) c) :
    (numberedTokens O) i (cs.map renderCode) = (numbered i cs).map fun p => (p.1, renderHint p.2) := by
  induction cs generalizing i with
  | nil => rfl
  | cons c t ih =>
    simp [numberedTokens, numbered, hintTokens_renderCode c (ok c (by simp)),
      ih (i + 1) (fun x hx => ok x (List.mem_cons_of_mem _ hx))]

/-- The token regex reads a rendered hint back. -/
theorem stepTok_render (i : Nat) (st : Bufs) (h : Hint) (hc : (Clean O) h.label) :
    (stepTok O) i st (renderHint h) = stepEv i st (tokOf h) := by
  obtain ⟨mark, L, sty⟩ := h
  obtain ⟨plus, uni, gap⟩ := sty
  cases L with
  | nil => exact absurd rfl hc.ne
  | cons c l =>
    have hw : (isWord O) c = true := hc.word c rfl
    have hno : splitAfter (c :: l) = (c :: l, false) := hc.noell
    have hel : ∀ u, splitAfter (c :: (l ++ ellipsis u)) = (c :: l, true) := fun u => splitAfter_ellipsis (c :: l) u
    cases mark with
    | one s =>
      cases s <;> cases plus <;>
        simp [stepTok, renderHint, tokOf, sign, matchLabel_word, matchLabel_plus, matchLabel_minus, hw, hno]
    | opn s =>
      cases s <;> cases plus <;>
        simp [stepTok, renderHint, tokOf, sign, matchLabel_word, matchLabel_plus, matchLabel_minus, hw, hel]
    | cls =>
      cases uni
      · simp [stepTok, renderHint, tokOf, ellipsis, dots3, matchLabel_dots3, hw, hno]
      · have := matchLabel_ell c l hw
        simp [stepTok, renderHint, tokOf, ellipsis, this, hno]

theorem runToks_render (st : Bufs) (toks : List (Nat × Hint)) (hc : ∀ p ∈ toks, (Clean O) p.2.label) :
    (runToks O) st (toks.map fun p => (p.1, renderHint p.2)) = runH st toks := by
  induction toks generalizing st with
  | nil => rfl
  | cons p t ih =>
    obtain ⟨i, h⟩ := p
    simp only [List.map_cons, runToks, runH, stepTok_render i st h (hc (i, h) (by simp))]
    cases stepEv i st (tokOf h) with
    | ok st' => exact ih st' (fun q hq => hc q (List.mem_cons_of_mem _ hq))
    | error e => rfl

theorem mem_numbered {i : Nat} {cs : List CodeLine} {p : Nat × Hint} (h : p ∈ numbered i cs) :
    ∃ c ∈ cs, p.2 ∈ c.hints := by
  induction cs generalizing i with
  | nil => simp [numbered] at h
  | cons c t ih =>
    simp only [numbered, List.mem_append, List.mem_map] at h
    rcases h with ⟨x, hx, rfl⟩ | h
    · exact ⟨c, by simp, hx⟩
    · obtain ⟨c', hc', hp⟩ := ih h
      exact ⟨c', List.mem_cons_of_mem _ hc', hp⟩

/-! ### The centrifuged lines are still hygienic -/

theorem okCode_addHints (c : CodeLine) (ok : (OkCode O) c) (hs : List Hint) (hne : c.code ≠ [])
    (hc : ∀ h ∈ hs, (Clean O) h.label) : (OkCode O) (c.addHints hs) :=
  ⟨ok.nonl, ok.nom, ok.notrail, fun _ => hne, fun h hh => by
    simp only [CodeLine.addHints, List.mem_append] at hh
    rcases hh with hh | hh
    · exact ok.clean h hh
    · exact hc h hh⟩

theorem okCode_centrifuged (ws : List Str) (hws : ∀ L ∈ ws, (Clean O) L) (cs : List CodeLine)
    (ok : ∀ c ∈ cs, (OkCode O) c)
    (hfirst : ∀ c, cs.head? = some c → c.code ≠ []) (hlast : ∀ c, cs.getLast? = some c → c.code ≠ []) :
    ∀ c ∈ centrifuged ws cs, (OkCode O) c := by
  have hO : ∀ h ∈ ws.map wOpen, (Clean O) h.label := by
    intro h hh; simp only [List.mem_map] at hh; obtain ⟨L, hL, rfl⟩ := hh; exact hws L hL
  have hC : ∀ h ∈ ws.map wClose, (Clean O) h.label := by
    intro h hh; simp only [List.mem_map] at hh; obtain ⟨L, hL, rfl⟩ := hh; exact hws L hL
  have hB : ∀ h ∈ (ws.flatMap fun L => [wOpen L, wClose L]), (Clean O) h.label := by
    intro h hh; simp only [List.mem_flatMap] at hh
    obtain ⟨L, hL, hcase⟩ := hh
    simp at hcase
    rcases hcase with rfl | rfl <;> exact hws L hL
  cases cs with
  | nil => simp [centrifuged]
  | cons c t =>
    cases t with
    | nil =>
      intro x hx
      simp only [centrifuged, List.mem_singleton] at hx; subst hx
      exact okCode_addHints c (ok c (by simp)) _ (hfirst c rfl) hB
    | cons c2 t2 =>
      obtain ⟨mid, last, hml⟩ := exists_snoc c2 t2
      rw [hml, centrifuged_snoc]
      have hlast' : last.code ≠ [] := hlast last (by rw [hml, List.getLast?_cons, List.getLast?_append]; simp)
      intro x hx
      simp only [List.mem_cons, List.mem_append, List.not_mem_nil, or_false] at hx
      rcases hx with rfl | hx | rfl
      · exact okCode_addHints c (ok c (by simp)) _ (hfirst c rfl) hO
      · exact ok x (by rw [hml]; simp [hx])
      · exact okCode_addHints last (ok last (by rw [hml]; simp)) _ hlast' hC

/-! ### The marks of one label in the centrifuged lines are those the specification names -/

theorem evsOf_line (L : Str) (i : Nat) (hs : List Hint) :
    evsOf L (hs.map fun h => (i, h)) = hintEvs L i hs := by
  simp [evsOf, hintEvs, List.filterMap_map, Function.comp_def]

theorem evsOf_nil (L : Str) : evsOf L [] = [] := rfl

theorem evsOf_append (L : Str) (a b : List (Nat × Hint)) : evsOf L (a ++ b) = evsOf L a ++ evsOf L b := by
  simp [evsOf]

theorem evsOf_numbered_cons (L : Str) (i : Nat) (c : CodeLine) (cs : List CodeLine) :
    evsOf L (numbered i (c :: cs)) = hintEvs L i c.hints ++ evsOf L (numbered (i + 1) cs) := by
  rw [numbered, evsOf_append, evsOf_line]

theorem hintEvs_append (L : Str) (i : Nat) (a b : List Hint) :
    hintEvs L i (a ++ b) = hintEvs L i a ++ hintEvs L i b := by
  simp [hintEvs]

theorem hintEvs_other (L : Str) (i : Nat) (hs : List Hint) (h : ∀ x ∈ hs, x.label ≠ L) :
    hintEvs L i hs = [] := by
  induction hs with
  | nil => rfl
  | cons x t ih =>
    have hx := h x (by simp)
    have := ih (fun y hy => h y (List.mem_cons_of_mem _ hy))
    simp only [hintEvs] at this
    simp [hintEvs, hx, this]

/-- The hints appended for the whole-program labels, seen from one label. -/
theorem hintEvs_flatMap (L : Str) (i : Nat) (g : Str → List Hint) (hg : ∀ x, ∀ h ∈ g x, h.label = x)
    (ws : List Str) (hnd : ws.Nodup) :
    hintEvs L i (ws.flatMap g) = if L ∈ ws then hintEvs L i (g L) else [] := by
  induction ws with
  | nil => rfl
  | cons w t ih =>
    have hnd' := List.nodup_cons.mp hnd
    rw [List.flatMap_cons, hintEvs_append, ih hnd'.2]
    by_cases hw : w = L
    · subst hw
      simp [hnd'.1]
    · have hne : ¬ L = w := fun e => hw e.symm
      have h0 : hintEvs L i (g w) = [] :=
        hintEvs_other L i _ (fun x hx => by rw [hg w x hx]; exact hw)
      simp [h0, hne]

theorem hintEvs_wOpen (L : Str) (i : Nat) (ws : List Str) (hnd : ws.Nodup) :
    hintEvs L i (ws.map wOpen) = if L ∈ ws then [Ev.opn false i] else [] := by
  have h := hintEvs_flatMap L i (fun x => [wOpen x]) (by intro x h hh; simp at hh; subst hh; rfl) ws hnd
  have e : ws.flatMap (fun x => [wOpen x]) = ws.map wOpen := by
    clear h hnd
    induction ws with
    | nil => rfl
    | cons w t ih => simp [List.flatMap_cons, ih]
  rw [e] at h; rw [h]; simp [hintEvs, wOpen, Mark.ev]

theorem hintEvs_wClose (L : Str) (i : Nat) (ws : List Str) (hnd : ws.Nodup) :
    hintEvs L i (ws.map wClose) = if L ∈ ws then [Ev.cls i] else [] := by
  have h := hintEvs_flatMap L i (fun x => [wClose x]) (by intro x h hh; simp at hh; subst hh; rfl) ws hnd
  have e : ws.flatMap (fun x => [wClose x]) = ws.map wClose := by
    clear h hnd
    induction ws with
    | nil => rfl
    | cons w t ih => simp [List.flatMap_cons, ih]
  rw [e] at h; rw [h]; simp [hintEvs, wClose, Mark.ev]

theorem hintEvs_wBoth (L : Str) (i : Nat) (ws : List Str) (hnd : ws.Nodup) :
    hintEvs L i (ws.flatMap fun x => [wOpen x, wClose x]) =
      if L ∈ ws then [Ev.opn false i, Ev.cls i] else [] := by
  have h := hintEvs_flatMap L i (fun x => [wOpen x, wClose x])
    (by intro x h hh; simp at hh; rcases hh with rfl | rfl <;> rfl) ws hnd
  rw [h]; simp [hintEvs, wOpen, wClose, Mark.ev]

/-- Between the first and the last line nothing is added. -/
theorem eventsFrom_mid (L : Str) (w : Bool) (n : Nat) (last : CodeLine) (mid : List CodeLine) :
    ∀ i, 2 ≤ i → i + mid.length = n →
      eventsFrom L w n i (mid ++ [last]) =
        evsOf L (numbered i mid) ++ (hintEvs L n last.hints ++ if w then [Ev.cls n] else []) := by
  induction mid with
  | nil =>
    intro i h2 hn
    simp only [List.length_nil, Nat.add_zero] at hn
    subst hn
    have h1 : (i == 1) = false := by simp; omega
    cases w <;> simp [eventsFrom, numbered, evsOf_nil, h1]
  | cons m t ih =>
    intro i h2 hn
    simp only [List.length_cons] at hn
    have h1 : (i == 1) = false := by simp; omega
    have hne : (i == n) = false := by simp; omega
    simp only [List.cons_append, eventsFrom, h1, hne, Bool.and_false, Bool.false_eq_true, if_false,
      List.nil_append, evsOf_numbered_cons]
    rw [ih (i + 1) (by omega) (by omega), List.append_assoc]

theorem eventsFrom_centrifuged (L : Str) (ws : List Str) (hnd : ws.Nodup) (cs : List CodeLine) :
    evsOf L (numbered 1 (centrifuged ws cs)) = eventsFrom L (decide (L ∈ ws)) cs.length 1 cs := by
  cases cs with
  | nil => rfl
  | cons c t =>
    cases t with
    | nil =>
      rw [centrifuged, evsOf_numbered_cons]
      simp only [numbered, evsOf_nil, List.append_nil, CodeLine.addHints, hintEvs_append,
        hintEvs_wBoth L 1 ws hnd, eventsFrom, List.length_singleton]
      by_cases h : L ∈ ws <;> simp [h]
    | cons c2 t2 =>
      obtain ⟨mid, last, hml⟩ := exists_snoc c2 t2
      rw [hml, centrifuged_snoc]
      have hlen : (c :: (mid ++ [last])).length = mid.length + 2 := by simp
      have hn1 : (1 == mid.length + 2) = false := by simp
      rw [evsOf_numbered_cons, hlen]
      simp only [eventsFrom, hn1, Bool.and_false, Bool.false_eq_true, if_false, List.nil_append,
        CodeLine.addHints, hintEvs_append, hintEvs_wOpen L 1 ws hnd]
      rw [eventsFrom_mid L _ (mid.length + 2) last mid 2 (by omega) (by omega)]
      rw [numbered_append, evsOf_append, evsOf_numbered_cons]
      simp only [numbered, evsOf_nil, List.append_nil, hintEvs_append, hintEvs_wClose L _ ws hnd]
      have h2 : 1 + 1 + mid.length = mid.length + 2 := by omega
      rw [h2]
      by_cases h : L ∈ ws <;> simp [h]

/-! ### Line numbers never decrease along the marks of a label -/

theorem hintEvs_line (L : Str) (i : Nat) (hs : List Hint) : ∀ e ∈ hintEvs L i hs, e.line = i := by
  intro e he
  simp only [hintEvs, List.mem_filterMap] at he
  obtain ⟨h, _, hh⟩ := he
  split at hh
  · simp only [Option.some.injEq] at hh; subst hh
    cases h.mark <;> rfl
  · cases hh

theorem eventsFrom_block (L : Str) (w : Bool) (n i : Nat) (c : CodeLine) (cs : List CodeLine) :
    ∃ blk, eventsFrom L w n i (c :: cs) = blk ++ eventsFrom L w n (i + 1) cs ∧ ∀ e ∈ blk, e.line = i := by
  refine ⟨hintEvs L i c.hints ++ ((if w && i == 1 then [Ev.opn false 1] else []) ++
      (if w && i == n then [Ev.cls n] else [])), by simp [eventsFrom], ?_⟩
  intro e he
  simp only [List.mem_append] at he
  rcases he with he | he | he
  · exact hintEvs_line L i _ e he
  · split at he
    · rename_i h; simp only [Bool.and_eq_true, beq_iff_eq] at h
      simp at he; subst he; simp [Ev.line, h.2]
    · simp at he
  · split at he
    · rename_i h; simp only [Bool.and_eq_true, beq_iff_eq] at h
      simp at he; subst he; simp [Ev.line, h.2]
    · simp at he

theorem eventsFrom_ge (L : Str) (w : Bool) (n : Nat) (cs : List CodeLine) :
    ∀ i, ∀ e ∈ eventsFrom L w n i cs, i ≤ e.line := by
  induction cs with
  | nil => intro i e he; simp [eventsFrom] at he
  | cons c t ih =>
    intro i e he
    obtain ⟨blk, hb, hl⟩ := eventsFrom_block L w n i c t
    rw [hb, List.mem_append] at he
    rcases he with he | he
    · exact Nat.le_of_eq (hl e he).symm
    · have := ih (i + 1) e he; omega

theorem eventsFrom_mono (L : Str) (w : Bool) (n : Nat) (cs : List CodeLine) :
    ∀ i, Mono (eventsFrom L w n i cs) := by
  induction cs with
  | nil => intro i; simp [eventsFrom, Mono]
  | cons c t ih =>
    intro i
    obtain ⟨blk, hb, hl⟩ := eventsFrom_block L w n i c t
    rw [hb]
    refine List.pairwise_append.mpr ⟨?_, ih (i + 1), ?_⟩
    · exact List.pairwise_of_forall_mem_list (fun a ha b hb' => Nat.le_of_eq ((hl a ha).trans (hl b hb').symm))
    · intro a ha b hb'
      have := eventsFrom_ge L w n t (i + 1) b hb'
      rw [hl a ha]; omega

theorem noTie_of (w : List Ev) (h : noTie w = true) : NoTie w := by
  intro i h1 h2
  simp only [noTie, List.all_eq_true] at h
  have := h _ h1
  simp at this
  exact this h2

/-! ### `get_result` -/

theorem mem_labelsOf (L : Str) (res : List Entry) : L ∈ labelsOf res ↔ ∃ e ∈ res, e.1 = L := by
  induction res with
  | nil => simp [labelsOf]
  | cons e t ih =>
    simp only [labelsOf, List.mem_cons, List.mem_filter, ih, decide_eq_true_eq]
    constructor
    · rintro (rfl | ⟨⟨x, hx, rfl⟩, _⟩)
      · exact ⟨e, Or.inl rfl, rfl⟩
      · exact ⟨x, Or.inr hx, rfl⟩
    · rintro ⟨x, rfl | hx, rfl⟩
      · exact Or.inl rfl
      · by_cases h : x.1 = e.1
        · exact Or.inl h
        · exact Or.inr ⟨⟨x, hx, rfl⟩, h⟩

theorem nodup_labelsOf (res : List Entry) : (labelsOf res).Nodup := by
  induction res with
  | nil => simp [labelsOf]
  | cons e t ih =>
    simp only [labelsOf]
    refine List.nodup_cons.mpr ⟨by simp, ih.sublist List.filter_sublist⟩

theorem sum_ite_nodup (L : Str) (f : Str → Nat) (ls : List Str) (hnd : ls.Nodup) :
    (ls.map fun x => if x = L then f x else 0).sum = if L ∈ ls then f L else 0 := by
  induction ls with
  | nil => rfl
  | cons x t ih =>
    have hnd' := List.nodup_cons.mp hnd
    simp only [List.map_cons, List.sum_cons, ih hnd'.2]
    by_cases hx : x = L
    · subst hx; simp [hnd'.1]
    · have : ¬ L = x := fun e => hx e.symm
      simp [hx, this]

theorem spansOf_nil_of_not_mem (L : Str) (res : List Entry) (h : L ∉ labelsOf res) : spansOf L res = [] := by
  rw [mem_labelsOf] at h
  simp only [spansOf, List.filterMap_eq_nil_iff]
  intro e he
  have : ¬ e.1 = L := fun e' => h ⟨e, he, e'⟩
  simp [this]

/-- `get_result` keeps, label by label, exactly the recorded spans. -/
theorem count_getResult (res : List Entry) (L : Str) (sp : Nat × Nat) :
    (getResult res).count L sp = (spansOf L res).count sp := by
  simp only [Sched.count, getResult, List.map_map, Function.comp_def]
  rw [sum_ite_nodup L (fun x => (isort spanLe (spansOf x res)).count sp) _ (nodup_labelsOf res)]
  split
  · exact (isort_perm _ _).count_eq sp
  · rename_i h; rw [spansOf_nil_of_not_mem L res h]; rfl

theorem stack_nil_of_linesOf (stk : List (Str × Nat)) (h : ∀ L, linesOf L stk = []) : stk = [] := by
  cases stk with
  | nil => rfl
  | cons p t =>
    have := h p.1
    simp [linesOf] at this

theorem count_adds (r : List SSpan) (sp : Nat × Nat) : (adds r).count sp = r.count (false, sp) := by
  induction r with
  | nil => rfl
  | cons x t ih =>
    obtain ⟨b, y⟩ := x
    cases b
    · by_cases h : y = sp <;> simp [List.count_cons, ih, h]
    · simp [List.count_cons, ih]

theorem count_dels (r : List SSpan) (sp : Nat × Nat) : (dels r).count sp = r.count (true, sp) := by
  induction r with
  | nil => rfl
  | cons x t ih =>
    obtain ⟨b, y⟩ := x
    cases b
    · simp [List.count_cons, ih]
    · by_cases h : y = sp <;> simp [List.count_cons, ih, h]

/-! ### The round trip -/

theorem events_eq (d : Decorated) (L : Str) :
    events d L =
      evsOf L (numbered 1 (centrifuged (sortDedup (wholeLabels d)) (codeLines d))) := by
  rw [eventsFrom_centrifuged L _ (nodup_sortDedup _), events]
  congr 1
  rw [List.contains_eq_mem]
  simp only [mem_sortDedup]

/-- **`get_program` on a decorated program.** -/
theorem getProgram_decorate (d : Decorated) (r : Str → List SSpan) (hy : (Hyg O) d)
    (hbal : ∀ L, Bal (events d L) (r L)) (hnt : ∀ L, NoTie (events d L)) :
    ∃ p, (getProgramFrom O) (decorate d) = .ok p ∧ p.source = (stripPy O) (joinNL (base d)) ∧
      (∀ L sp, p.addition.count L sp = (r L).count (false, sp)) ∧
      (∀ L sp, p.deletion.count L sp = (r L).count (true, sp)) := by
  let ws := sortDedup (wholeLabels d)
  let cs' := centrifuged ws (codeLines d)
  have hws : ∀ L ∈ ws, (Clean O) L := fun L hL => hy.whole L ((mem_sortDedup L _).mp hL)
  have ok' : ∀ c ∈ cs', (OkCode O) c := okCode_centrifuged ws hws _ hy.ok hy.first hy.last
  have hcent := centrifugate_decorate d hy
  -- the tokens
  have hne' : cs'.map renderCode ≠ [] := by
    intro e
    have h1 : plainLines cs' = plainLines (codeLines d) := centrifuged_plain ws _
    have h2 : cs' = [] := by simpa using e
    rw [h2] at h1
    exact hy.ne (by simpa [plainLines] using h1.symm)
  have hsplit : splitNL (joinNL (cs'.map renderCode)) = cs'.map renderCode :=
    splitNL_joinNL _ hne' (by
      intro l hl; simp only [List.mem_map] at hl; obtain ⟨c, hc, rfl⟩ := hl
      exact renderCode_noNL c (ok' c hc))
  have hclean : ∀ p ∈ numbered 1 cs', (Clean O) p.2.label := by
    intro p hp
    obtain ⟨c, hc, hh⟩ := mem_numbered hp
    exact (ok' c hc).clean _ hh
  have hrun : (runToks O) {} ((numberedTokens O) 1 (splitNL (joinNL (cs'.map renderCode)))) = runH {} (numbered 1 cs') := by
    rw [hsplit, numberedTokens_render 1 cs' ok', runToks_render _ _ hclean]
  -- label by label
  have hproj0 : ∀ L, proj L ({} : Bufs) = ({} : St1) := fun L => rfl
  have hlab : ∀ L, run1 (proj L {}) (evsOf L (numbered 1 cs')) =
      .ok { sa := [], sd := [], ra := adds (r L), rd := dels (r L) } := by
    intro L
    rw [← events_eq d L, hproj0]
    have hm : Mono (events d L) := eventsFrom_mono _ _ _ _ _
    have := run1_bal (hbal L) {} hm (hnt L) ⟨by simp, by simp⟩
    simpa using this
  obtain ⟨st', hst', hfin⟩ := runH_of_labels (numbered 1 cs') {} (fun L => ⟨_, hlab L⟩)
  have hp : ∀ L, proj L st' = { sa := [], sd := [], ra := adds (r L), rd := dels (r L) } := by
    intro L
    have := hfin L
    rw [hlab L] at this
    exact (Except.ok.inj this).symm
  have hsa : st'.add.stack = [] := stack_nil_of_linesOf _ (fun L => by have := hp L; simpa [proj] using congrArg St1.sa this)
  have hsd : st'.del.stack = [] := stack_nil_of_linesOf _ (fun L => by have := hp L; simpa [proj] using congrArg St1.sd this)
  have hcollect : (collectHints O) (joinNL (cs'.map renderCode)) =
      .ok (getResult st'.add.result, getResult st'.del.result) := by
    simp [collectHints, collectToks, hrun, hst', finish, hsa, hsd]
  -- the stored source
  have hsrc : (removeHints O) (joinNL (cs'.map renderCode)) = (stripPy O) (joinNL (base d)) := by
    rw [removeHints, subHints_lines cs' ok', centrifuged_plain]; rfl
  refine ⟨⟨(stripPy O) (joinNL (base d)), getResult st'.add.result, getResult st'.del.result⟩, ?_, rfl, ?_, ?_⟩
  · have hc2 := hcollect
    have hs2 := hsrc
    simp only [cs', ws] at hc2 hs2
    simp only [getProgramFrom, hcent, hc2, hs2]
  · intro L sp
    show (getResult st'.add.result).count L sp = _
    rw [count_getResult, ← count_adds]
    have := congrArg St1.ra (hp L)
    simp only [proj] at this
    rw [this]
  · intro L sp
    show (getResult st'.del.result).count L sp = _
    rw [count_getResult, ← count_dels]
    have := congrArg St1.rd (hp L)
    simp only [proj] at this
    rw [this]

end Paroxy.Hints
