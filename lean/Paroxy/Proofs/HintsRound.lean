/-
Helper lemmas for C12: `get_program` on a decorated program, assembled from the character-level
lemmas (HintsChars) and the token-level ones (HintsSched).
-/
import Paroxy.Proofs.HintsChars
import Paroxy.Proofs.HintsSched
namespace Paroxy.Hints

/-! ### `set` / `sorted` of the isolated hints -/

theorem mem_dedup (x : Str) (l : List Str) : x ∈ dedup l ↔ x ∈ l := by
  induction l with
  | nil => simp [dedup]
  | cons y t ih =>
    simp only [dedup]
    split
    · rename_i h
      simp only [ih, List.mem_cons]
      constructor
      · exact Or.inr
      · rintro (rfl | h') <;> [exact ih.mp h; exact h']
    · simp [ih]

theorem nodup_dedup (l : List Str) : (dedup l).Nodup := by
  induction l with
  | nil => simp [dedup]
  | cons y t ih =>
    simp only [dedup]
    split
    · exact ih
    · rename_i h; exact List.nodup_cons.mpr ⟨h, ih⟩

theorem mem_sortDedup (x : Str) (l : List Str) : x ∈ sortDedup l ↔ x ∈ l := by
  rw [sortDedup, (List.mergeSort_perm _ _).mem_iff, mem_dedup]

theorem nodup_sortDedup (l : List Str) : (sortDedup l).Nodup :=
  (List.mergeSort_perm _ _).nodup_iff.mpr (nodup_dedup l)

theorem sortDedup_nil : sortDedup [] = [] := by simp [sortDedup, dedup]

theorem sortDedup_ne_nil {l : List Str} (h : l ≠ []) : sortDedup l ≠ [] := by
  cases l with
  | nil => exact absurd rfl h
  | cons x t =>
    intro e
    have : x ∈ sortDedup (x :: t) := (mem_sortDedup _ _).mpr (by simp)
    rw [e] at this; simp at this

/-! ### Hygiene, as propositions -/

structure Hyg (d : Decorated) : Prop where
  ok : ∀ c ∈ codeLines d, OkCode c
  whole : ∀ L ∈ wholeLabels d, Clean L
  ne : codeLines d ≠ []
  first : ∀ c, (codeLines d).head? = some c → ∃ x t, c.code = x :: t ∧ isSpacePy x = false
  last : ∀ c, (codeLines d).getLast? = some c → c.code ≠ []

theorem hyg_of (d : Decorated) (h : hygienic d = true) : Hyg d := by
  simp only [hygienic, Bool.and_eq_true, List.all_eq_true] at h
  obtain ⟨⟨h1, h2⟩, h3⟩ := h
  cases hcs : codeLines d with
  | nil => simp [hcs] at h3
  | cons c cs =>
    simp only [hcs, Bool.and_eq_true] at h3
    refine ⟨fun x hx => okCode_of x (h1 x hx), fun L hL => clean_of L (h2 L hL), by simp [hcs], ?_, ?_⟩
    · intro c' hc'
      rw [hcs] at hc'; simp at hc'; subst hc'
      have := h3.1
      unfold firstOk at this
      split at this
      · simp at this
      · rename_i x t hxt; exact ⟨x, t, hxt, by simpa using this⟩
    · intro c' hc'
      rw [hcs, List.getLast?_eq_some_getLast (by simp)] at hc'
      simp only [Option.some.injEq] at hc'
      subst hc'
      simpa [lastOk] using h3.2

/-! ### `str.strip()` on the program without its hints -/

theorem joinNL_head? (l : Str) (ls : List Str) (h : l ≠ []) : (joinNL (l :: ls)).head? = l.head? := by
  cases ls with
  | nil => rfl
  | cons l2 t => cases l with
    | nil => exact absurd rfl h
    | cons c r => rfl

theorem joinNL_getLast? (ls : List Str) (last : Str) (hl : ls.getLast? = some last) (hne : last ≠ []) :
    (joinNL ls).getLast? = last.getLast? := by
  induction ls with
  | nil => simp at hl
  | cons l t ih =>
    cases t with
    | nil => simp at hl; subst hl; rfl
    | cons l2 t2 =>
      rw [joinNL_cons_cons, List.getLast?_append]
      have hl' : (l2 :: t2).getLast? = some last := by simpa using hl
      have h1 := ih hl'
      have : ('\n' :: joinNL (l2 :: t2)).getLast? = last.getLast? := by
        rw [List.getLast?_cons, h1]
        cases hh : last.getLast? with
        | none => simp at hh; exact absurd hh hne
        | some x => rfl
      rw [this]
      cases hh : last.getLast? with
      | none => simp at hh; exact absurd hh hne
      | some x => rfl

theorem stripPy_plain (cs : List CodeLine) (hne : cs ≠ [])
    (hfirst : ∀ c, cs.head? = some c → ∃ x t, c.code = x :: t ∧ isSpacePy x = false)
    (hlast : ∀ c, cs.getLast? = some c → c.code ≠ [] ∧ ∀ x, c.code.getLast? = some x → isSpacePy x = false) :
    stripPy (joinNL (plainLines cs)) = joinNL (plainLines cs) := by
  apply stripPy_id
  · intro x hx
    cases cs with
    | nil => exact absurd rfl hne
    | cons c t =>
      obtain ⟨y, r, hy, hsp⟩ := hfirst c rfl
      simp only [plainLines, List.map_cons] at hx
      rw [joinNL_head? _ _ (by simp [hy]), hy] at hx
      simp at hx; subst hx; exact hsp
  · intro x hx
    obtain ⟨c, hc⟩ : ∃ c, cs.getLast? = some c := by
      cases h : cs.getLast? with
      | none => simp at h; exact absurd h hne
      | some c => exact ⟨c, rfl⟩
    obtain ⟨h1, h2⟩ := hlast c hc
    have : (plainLines cs).getLast? = some c.code := by simp [plainLines, hc]
    rw [joinNL_getLast? _ _ this h1] at hx
    exact h2 x hx

/-! ### Centrifugation of a decorated program -/

theorem splitWs_clean (L : Str) (h : Clean L) : splitWs L = [L] := by
  have := splitWs_word L [] h.nosp h.ne rfl
  simpa [splitWs, splitWs'] using this

theorem scanIsolated_decorated (d : Decorated) (ok : ∀ c ∈ codeLines d, OkCode c)
    (hw : ∀ L ∈ wholeLabels d, Clean L) :
    scanIsolated (d.map renderLine) = ((codeLines d).map renderCode, wholeLabels d) := by
  induction d with
  | nil => rfl
  | cons l t ih =>
    cases l with
    | code c =>
      have okc := ok c (by simp [codeLines])
      have := ih (fun x hx => ok x (by simp [codeLines, hx])) (fun L hL => hw L (by simpa [wholeLabels] using hL))
      simp [scanIsolated, renderLine, isolatedRest_renderCode c okc, this, codeLines, wholeLabels]
    | isolated n L =>
      have hL := hw L (by simp [wholeLabels])
      have := ih (fun x hx => ok x (by simpa [codeLines] using hx)) (fun L' hL' => hw L' (by simp [wholeLabels, hL']))
      simp [scanIsolated, renderLine, isolatedRest_isolated n L hL.ne, splitWs_clean L hL, this, codeLines, wholeLabels]

theorem renderLine_noNL (d : Decorated) (ok : ∀ c ∈ codeLines d, OkCode c)
    (hw : ∀ L ∈ wholeLabels d, Clean L) : ∀ l ∈ d.map renderLine, '\n' ∉ l := by
  induction d with
  | nil => simp
  | cons l t ih =>
    intro x hx
    simp only [List.map_cons, List.mem_cons] at hx
    cases l with
    | code c =>
      rcases hx with rfl | hx
      · exact renderCode_noNL c (ok c (by simp [codeLines]))
      · exact ih (fun x hx => ok x (by simp [codeLines, hx])) (fun L hL => hw L (by simpa [wholeLabels] using hL)) x hx
    | isolated n L =>
      rcases hx with rfl | hx
      · have hL := hw L (by simp [wholeLabels])
        simp only [renderLine, List.mem_append, not_or]
        refine ⟨by simp [List.mem_replicate], by simp [m14, m13], fun hm => ?_⟩
        have := hL.nosp _ hm
        simp [isSpacePy, isSpaceRe] at this
      · exact ih (fun x hx => ok x (by simpa [codeLines] using hx)) (fun L' hL' => hw L' (by simp [wholeLabels, hL'])) x hx

theorem lines_of_no_isolated (d : Decorated) (h : wholeLabels d = []) :
    d.map renderLine = (codeLines d).map renderCode := by
  induction d with
  | nil => rfl
  | cons l t ih =>
    cases l with
    | code c => simp [renderLine, codeLines, ih (by simpa [wholeLabels] using h)]
    | isolated n L => simp [wholeLabels] at h

theorem renderHints_wOpen (ws : List Str) : renderHints (ws.map wOpen) = ws.flatMap openTok := by
  induction ws with
  | nil => rfl
  | cons w t ih =>
    simp only [List.map_cons, renderHints_cons, List.flatMap_cons, ih]
    simp [wOpen, renderHint, sign, ellipsis, openTok]

theorem renderHints_wClose (ws : List Str) : renderHints (ws.map wClose) = ws.flatMap closeTok := by
  induction ws with
  | nil => rfl
  | cons w t ih =>
    simp only [List.map_cons, renderHints_cons, List.flatMap_cons, ih]
    simp [wClose, renderHint, ellipsis, closeTok]

theorem renderHints_wBoth (ws : List Str) :
    renderHints (ws.flatMap fun L => [wOpen L, wClose L]) = ws.flatMap fun h => openTok h ++ closeTok h := by
  induction ws with
  | nil => rfl
  | cons w t ih =>
    simp only [List.flatMap_cons, List.cons_append, List.nil_append, renderHints_cons, ih]
    simp [wOpen, wClose, renderHint, sign, ellipsis, openTok, closeTok]

theorem renderHints_append (a b : List Hint) : renderHints (a ++ b) = renderHints a ++ renderHints b := by
  simp [renderHints]

theorem hasInfix_hinted (c : CodeLine) (h : c.hints ≠ []) : hasInfix (' ' :: m13) (renderCode c) = true := by
  rw [hasInfix_iff, renderCode_hinted c h, hintPart, List.replicate_succ']
  refine ⟨c.code ++ List.replicate c.pad ' ', renderHints c.hints, ?_⟩
  simp

/-- `lines[i] += " # paroxython:"` (if needed) then the appended tokens = the same code line with
more hints. -/
theorem addMarker_render (c : CodeLine) (ok : OkCode c) (hs : List Hint) (hne : hs ≠ []) :
    addMarker (renderCode c) ++ renderHints hs = renderCode (c.addHints hs) := by
  have hne' : c.hints ++ hs ≠ [] := by simp [hne]
  by_cases h : c.hints = []
  · have : hasInfix (' ' :: m13) c.code = false := hasInfix_sp_m13_false ok.nom
    simp [addMarker, renderCode_plain c h, this, renderCode, CodeLine.addHints, h, hne]
  · rw [addMarker, if_pos (hasInfix_hinted c h)]
    simp [renderCode, CodeLine.addHints, h, renderHints_append]

theorem addHints_nil_render (c : CodeLine) : renderCode (c.addHints []) = renderCode c := by
  by_cases h : c.hints = [] <;> simp [renderCode, CodeLine.addHints, h]

theorem dropLast_snoc' {α : Type} (x : α) (t : List α) (last : α) :
    (x :: (t ++ [last])).dropLast = x :: t := by
  rw [← List.cons_append, List.dropLast_concat]

theorem getLast_snoc' {α : Type} (x : α) (t : List α) (last : α) (h) :
    (x :: (t ++ [last])).getLast h = last := by
  simp [List.getLast_cons]

theorem centLines_snoc (hs : List Str) (l : Str) (mid : List Str) (last : Str) :
    centLines hs (l :: (mid ++ [last])) =
      (addMarker l ++ hs.flatMap openTok) :: (mid ++ [addMarker last ++ hs.flatMap closeTok]) := by
  cases mid with
  | nil => simp [centLines]
  | cons m t => simp only [List.cons_append, centLines, dropLast_snoc', getLast_snoc']

theorem centrifuged_snoc (ws : List Str) (c : CodeLine) (mid : List CodeLine) (last : CodeLine) :
    centrifuged ws (c :: (mid ++ [last])) =
      c.addHints (ws.map wOpen) :: (mid ++ [last.addHints (ws.map wClose)]) := by
  cases mid with
  | nil => simp [centrifuged]
  | cons m t => simp only [List.cons_append, centrifuged, dropLast_snoc', getLast_snoc']

theorem exists_snoc {α : Type} (a : α) (l : List α) : ∃ mid last, a :: l = mid ++ [last] :=
  ⟨(a :: l).dropLast, (a :: l).getLast (by simp), (List.dropLast_concat_getLast (by simp)).symm⟩

theorem map_flatMap_nil {α β : Type} (f : α → List β) : ([] : List α).flatMap f = [] := rfl

/-- The lines after centrifugation are again rendered code lines. -/
theorem centLines_render (ws : List Str) (hws : ws ≠ []) (cs : List CodeLine) (ok : ∀ c ∈ cs, OkCode c) :
    centLines ws (cs.map renderCode) = (centrifuged ws cs).map renderCode := by
  cases cs with
  | nil => rfl
  | cons c t =>
    cases t with
    | nil =>
      have h1 : (ws.flatMap fun L => [wOpen L, wClose L]) ≠ [] := by
        cases ws with
        | nil => exact absurd rfl hws
        | cons w r => simp
      simp only [List.map_cons, List.map_nil, centLines, centrifuged]
      rw [← renderHints_wBoth, addMarker_render c (ok c (by simp)) _ h1]
    | cons c2 t2 =>
      obtain ⟨mid, last, hml⟩ := exists_snoc c2 t2
      have hlast : last ∈ c :: c2 :: t2 := by rw [hml]; simp
      rw [hml, List.map_cons, List.map_append, List.map_cons, List.map_nil, centLines_snoc, centrifuged_snoc]
      simp only [List.map_cons, List.map_append, List.map_nil]
      rw [← renderHints_wOpen, ← renderHints_wClose,
        addMarker_render c (ok c (by simp)) _ (by simpa using hws),
        addMarker_render last (ok last hlast) _ (by simpa using hws)]

theorem centrifuged_nil_render (cs : List CodeLine) :
    (centrifuged [] cs).map renderCode = cs.map renderCode := by
  cases cs with
  | nil => rfl
  | cons c t =>
    cases t with
    | nil => simp [centrifuged, addHints_nil_render]
    | cons c2 t2 =>
      obtain ⟨mid, last, hml⟩ := exists_snoc c2 t2
      rw [hml, centrifuged_snoc]
      simp [addHints_nil_render]

theorem centrifuged_plain (ws : List Str) (cs : List CodeLine) :
    plainLines (centrifuged ws cs) = plainLines cs := by
  cases cs with
  | nil => rfl
  | cons c t =>
    cases t with
    | nil => simp [centrifuged, plainLines, CodeLine.addHints]
    | cons c2 t2 =>
      obtain ⟨mid, last, hml⟩ := exists_snoc c2 t2
      rw [hml, centrifuged_snoc]
      simp [plainLines, CodeLine.addHints]

/-- **`centrifugate_hints` on a decorated program**: the isolated hints disappear, their labels
(sorted, without repetition) are opened at the end of the first code line and closed at the end of
the last one. -/
theorem centrifugate_decorate (d : Decorated) (hy : Hyg d) :
    centrifugate (decorate d) =
      .ok (joinNL ((centrifuged (sortDedup (wholeLabels d)) (codeLines d)).map renderCode)) := by
  have hdne : d ≠ [] := by
    intro e; exact hy.ne (by simp [e, codeLines])
  have hsplit : splitNL (decorate d) = d.map renderLine :=
    splitNL_joinNL _ (by simpa using hdne) (renderLine_noNL d hy.ok hy.whole)
  have hscan := scanIsolated_decorated d hy.ok hy.whole
  unfold centrifugate
  simp only [hsplit, hscan]
  by_cases hw : wholeLabels d = []
  · simp only [hw, if_true, sortDedup_nil, centrifuged_nil_render]
    rw [decorate, lines_of_no_isolated d hw]
  · simp only [hw, if_false]
    cases hcs : codeLines d with
    | nil => exact absurd hcs hy.ne
    | cons c t =>
      simp only [List.map_cons]
      have := centLines_render (sortDedup (wholeLabels d)) (sortDedup_ne_nil hw) (c :: t)
        (by rw [← hcs]; exact hy.ok)
      simp only [List.map_cons] at this
      rw [this]

end Paroxy.Hints
