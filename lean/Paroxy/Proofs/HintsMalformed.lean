/-
Helper lemmas for C12_malformed: an accepted run of `collect_hints` means that every token was
accepted by the token regex and that, label by label, the marks are balanced; and the only way to
get a `TypeError` is a label opened for addition and for deletion on the same line.
-/
import Paroxy.Proofs.HintsSched
namespace Paroxy.Hints

/-! ### One label: depth counting -/

def depth1 (s : St1) : Nat := s.sa.length + s.sd.length

def Ev.isOpn : Ev → Bool
  | .opn _ _ => true
  | _ => false

def Ev.isCls : Ev → Bool
  | .cls _ => true
  | _ => false

theorem step1_depth (s s' : St1) (e : Ev) (h : step1 s e = .ok s') :
    depth1 s' + (if e.isCls then 1 else 0) = depth1 s + (if e.isOpn then 1 else 0) := by
  cases e with
  | one b i => cases b <;> (simp only [step1] at h; cases h; simp [depth1, Ev.isCls, Ev.isOpn])
  | opn b i => cases b <;> (simp only [step1] at h; cases h; simp [depth1, Ev.isCls, Ev.isOpn] <;> omega)
  | cls j =>
    simp only [step1] at h
    cases hsa : s.sa with
    | nil =>
      cases hsd : s.sd with
      | nil => simp [hsa, hsd] at h
      | cons y t =>
        simp [hsa, hsd] at h; cases h
        simp [depth1, Ev.isCls, Ev.isOpn, hsa, hsd]
    | cons x t =>
      cases hsd : s.sd with
      | nil =>
        simp [hsa, hsd] at h; cases h
        simp [depth1, Ev.isCls, Ev.isOpn, hsa, hsd] <;> omega
      | cons y t2 =>
        simp only [hsa, hsd, List.head?_cons] at h
        split at h
        · cases h; simp [depth1, Ev.isCls, Ev.isOpn, hsa, hsd] <;> omega
        · split at h
          · cases h; simp [depth1, Ev.isCls, Ev.isOpn, hsa, hsd] <;> omega
          · cases h

/-! ### Raw tokens as hints -/

/-- A hint whose `tokOf` is the given (legal) token. -/
def hintOfTok (k : Tok) : Hint :=
  match k.before, k.after with
  | .dots, _ => ⟨.cls, k.label, {}⟩
  | .minus, true => ⟨.opn true, k.label, {}⟩
  | .minus, false => ⟨.one true, k.label, {}⟩
  | .plus, true => ⟨.opn false, k.label, { plus := true }⟩
  | .plus, false => ⟨.one false, k.label, { plus := true }⟩
  | .none, true => ⟨.opn false, k.label, {}⟩
  | .none, false => ⟨.one false, k.label, {}⟩

theorem tokOf_hintOfTok (k : Tok) (h : k.illegal = false) : tokOf (hintOfTok k) = k := by
  obtain ⟨b, L, a⟩ := k
  cases b <;> cases a <;> simp_all [Tok.illegal, hintOfTok, tokOf]

theorem hintOfTok_label (k : Tok) : (hintOfTok k).label = k.label := by
  obtain ⟨b, L, a⟩ := k
  cases b <;> cases a <;> rfl

theorem hintOfTok_ev_isOpn (k : Tok) (i : Nat) (h : k.illegal = false) :
    ((hintOfTok k).mark.ev i).isOpn = k.isOpen k.label := by
  obtain ⟨b, L, a⟩ := k
  cases b <;> cases a <;> simp_all [Tok.illegal, hintOfTok, Mark.ev, Ev.isOpn, Tok.isOpen]

theorem hintOfTok_ev_isCls (k : Tok) (i : Nat) (h : k.illegal = false) :
    ((hintOfTok k).mark.ev i).isCls = k.isClose k.label := by
  obtain ⟨b, L, a⟩ := k
  cases b <;> cases a <;> simp_all [Tok.illegal, hintOfTok, Mark.ev, Ev.isCls, Tok.isClose]

theorem stepTok_classify (i : Nat) (st : Bufs) (t : Str) :
    stepTok i st t = match classify t with
      | none => .error .valueError
      | some k => stepEv i st k := by
  unfold stepTok classify
  cases matchLabel t with
  | none => rfl
  | some p => obtain ⟨b, L, a⟩ := p; rfl

theorem stepEv_illegal (i : Nat) (st : Bufs) (k : Tok) (h : k.illegal = true) :
    stepEv i st k = .error .valueError := by
  obtain ⟨b, L, a⟩ := k
  cases b <;> cases a <;> simp_all [Tok.illegal, stepEv]

def depth (L : Str) (st : Bufs) : Nat := depth1 (proj L st)

theorem isOpen_other {k : Tok} {L : Str} (h : L ≠ k.label) : k.isOpen L = false := by
  have : ¬ k.label = L := fun e => h e.symm
  simp [Tok.isOpen, this]

theorem isClose_other {k : Tok} {L : Str} (h : L ≠ k.label) : k.isClose L = false := by
  have : ¬ k.label = L := fun e => h e.symm
  simp [Tok.isClose, this]

/-- One accepted step: the token is legal and the depths move as the token says. -/
theorem stepTok_ok (i : Nat) (st st' : Bufs) (t : Str) (h : stepTok i st t = .ok st') :
    ∃ k, classify t = some k ∧ k.illegal = false ∧
      ∀ L, depth L st' + (if k.isClose L then 1 else 0) = depth L st + (if k.isOpen L then 1 else 0) := by
  rw [stepTok_classify] at h
  cases hk : classify t with
  | none => simp [hk] at h
  | some k =>
    simp only [hk] at h
    have hill : k.illegal = false := by
      cases hi : k.illegal with
      | false => rfl
      | true => rw [stepEv_illegal i st k hi] at h; cases h
    refine ⟨k, rfl, hill, fun L => ?_⟩
    rw [← tokOf_hintOfTok k hill] at h
    obtain ⟨hstep, hother⟩ := (stepEv_proj i st (hintOfTok k)).2.1 st' h
    rw [hintOfTok_label] at hstep hother
    by_cases hL : L = k.label
    · subst hL
      have := step1_depth _ _ _ hstep
      rw [hintOfTok_ev_isOpn k i hill, hintOfTok_ev_isCls k i hill] at this
      exact this
    · simp [depth, hother L hL, isOpen_other hL, isClose_other hL]

theorem tokCount_cons (f : Tok → Bool) (p : Nat × Str) (toks : List (Nat × Str)) :
    tokCount f (p :: toks) =
      (match classify p.2 with | some k => if f k then 1 else 0 | none => 0) + tokCount f toks := by
  unfold tokCount
  rw [List.countP_cons]
  cases classify p.2 with
  | none => simp
  | some k => cases f k <;> simp <;> omega

/-- **An accepted run**: every token accepted; depths account for the marks; no closing mark
without an open one. -/
theorem runToks_ok (toks : List (Nat × Str)) :
    ∀ st st', runToks st toks = .ok st' →
      (∀ p ∈ toks, rejected p.2 = false) ∧
      ∀ L, depth L st' + closesOf L toks = depth L st + opensOf L toks ∧
        ∀ pre, pre <+: toks → closesOf L pre ≤ depth L st + opensOf L pre := by
  induction toks with
  | nil =>
    intro st st' h
    simp only [runToks] at h; cases h
    refine ⟨by simp, fun L => ⟨by simp [closesOf, opensOf, tokCount], fun pre hpre => ?_⟩⟩
    have : pre = [] := List.prefix_nil.mp hpre
    subst this; simp [closesOf, opensOf, tokCount]
  | cons p rest ih =>
    obtain ⟨i, t⟩ := p
    intro st st' h
    simp only [runToks] at h
    split at h
    · rename_i st1 hst1
      obtain ⟨k, hk, hill, hd⟩ := stepTok_ok i st st1 t hst1
      obtain ⟨hrej, hcount⟩ := ih st1 st' h
      refine ⟨?_, fun L => ?_⟩
      · intro q hq
        rcases List.mem_cons.mp hq with rfl | hq
        · simp [rejected, hk, hill]
        · exact hrej q hq
      · obtain ⟨h1, h2⟩ := hcount L
        have hdL := hd L
        refine ⟨?_, fun pre hpre => ?_⟩
        · simp only [closesOf, opensOf, tokCount_cons, hk] at h1 ⊢
          omega
        · cases pre with
          | nil => simp [closesOf, opensOf, tokCount]
          | cons q pre' =>
            obtain ⟨rfl, hpre'⟩ := List.cons_prefix_cons.mp hpre
            have := h2 pre' hpre'
            simp only [closesOf, opensOf, tokCount_cons, hk] at this ⊢
            omega
    · cases h

theorem depth_nil (L : Str) : depth L {} = 0 := rfl

theorem depth_zero_of_empty (L : Str) (st : Bufs) (ha : st.add.stack = []) (hd : st.del.stack = []) :
    depth L st = 0 := by
  simp [depth, depth1, proj, ha, hd, linesOf]

/-- A schedule is only returned for well-formed hint tokens. -/
theorem collectToks_ok_not_malformed (toks : List (Nat × Str)) (r : Sched × Sched)
    (h : collectToks toks = .ok r) : ¬ Malformed toks := by
  unfold collectToks at h
  cases hrun : runToks {} toks with
  | error e => simp [hrun] at h
  | ok st =>
    simp only [hrun] at h
    obtain ⟨hrej, hcount⟩ := runToks_ok toks {} st hrun
    have hempty : st.add.stack = [] ∧ st.del.stack = [] := by
      unfold finish at h
      by_cases ha : st.add.stack = []
      · by_cases hd : st.del.stack = []
        · exact ⟨ha, hd⟩
        · simp [ha, hd] at h
      · simp [ha] at h
    rintro (⟨p, hp, hr⟩ | ⟨L, hL⟩)
    · rw [hrej p hp] at hr; cases hr
    · obtain ⟨h1, h2⟩ := hcount L
      rw [depth_zero_of_empty L st hempty.1 hempty.2, depth_nil] at h1
      rcases hL with ⟨pre, hpre, hlt⟩ | hne
      · have := h2 pre hpre
        rw [depth_nil] at this; omega
      · omega

/-! ### Where a `TypeError` can come from -/

/-- Every entry of a stack was pushed by an opening mark of its label, of the buffer's sign, on
the line it records. -/
def Prov (del : Bool) (stk : List (Str × Nat)) (pre : List (Nat × Str)) : Prop :=
  ∀ e ∈ stk, ∃ p ∈ pre, ∃ k, classify p.2 = some k ∧ p.1 = e.2 ∧ k.label = e.1 ∧ k.after = true ∧
    k.before ≠ .dots ∧ (k.before = .minus ↔ del = true)

theorem pop_subset (L : Str) (stk : List (Str × Nat)) : ∀ e ∈ pop L stk, e ∈ stk := by
  induction stk with
  | nil => simp [pop]
  | cons p t ih =>
    obtain ⟨l, x⟩ := p
    intro e he
    simp only [pop] at he
    split at he
    · exact List.mem_cons_of_mem _ he
    · rcases List.mem_cons.mp he with rfl | he
      · simp
      · exact List.mem_cons_of_mem _ (ih e he)

theorem top_mem (L : Str) (stk : List (Str × Nat)) (x : Nat) (h : top L stk = some x) : (L, x) ∈ stk := by
  induction stk with
  | nil => simp [top] at h
  | cons p t ih =>
    obtain ⟨l, y⟩ := p
    simp only [top] at h
    split at h
    · rename_i hl; cases h; subst hl; simp
    · exact List.mem_cons_of_mem _ (ih h)

theorem Prov.mono {del : Bool} {stk : List (Str × Nat)} {pre : List (Nat × Str)} (h : Prov del stk pre)
    (q : Nat × Str) : Prov del stk (pre ++ [q]) := by
  intro e he
  obtain ⟨p, hp, k, hk⟩ := h e he
  exact ⟨p, by simp [hp], k, hk⟩

theorem Prov.sub {del : Bool} {stk stk' : List (Str × Nat)} {pre : List (Nat × Str)} (h : Prov del stk pre)
    (hs : ∀ e ∈ stk', e ∈ stk) : Prov del stk' pre :=
  fun e he => h e (hs e he)

/-- One accepted step keeps the provenance of both stacks. -/
theorem stepTok_prov (i : Nat) (st st' : Bufs) (t : Str) (pre : List (Nat × Str))
    (h : stepTok i st t = .ok st') (ha : Prov false st.add.stack pre) (hd : Prov true st.del.stack pre) :
    Prov false st'.add.stack (pre ++ [(i, t)]) ∧ Prov true st'.del.stack (pre ++ [(i, t)]) := by
  rw [stepTok_classify] at h
  cases hk : classify t with
  | none => simp [hk] at h
  | some k =>
    simp only [hk] at h
    obtain ⟨b, L, a⟩ := k
    have ha' := ha.mono (i, t)
    have hd' := hd.mono (i, t)
    have hnew : ∀ del : Bool, b ≠ .dots → a = true → (b = .minus ↔ del = true) →
        ∀ stk, Prov del stk (pre ++ [(i, t)]) → Prov del ((L, i) :: stk) (pre ++ [(i, t)]) := by
      intro del hb hat hsign stk hstk e he
      rcases List.mem_cons.mp he with rfl | he
      · exact ⟨(i, t), by simp, ⟨b, L, a⟩, hk, rfl, rfl, hat, hb, hsign⟩
      · exact hstk e he
    cases b <;> cases a <;> simp only [stepEv] at h
    · cases h; exact ⟨ha', hd'⟩
    · cases h; exact ⟨hnew false (by simp) rfl (by simp) _ ha', hd'⟩
    · cases h; exact ⟨ha', hd'⟩
    · cases h; exact ⟨hnew false (by simp) rfl (by simp) _ ha', hd'⟩
    · cases h; exact ⟨ha', hd'⟩
    · cases h; exact ⟨ha', hnew true (by simp) rfl (by simp) _ hd'⟩
    · split at h
      · cases h
      · cases h; exact ⟨ha'.sub (pop_subset L _), hd'⟩
      · cases h; exact ⟨ha', hd'.sub (pop_subset L _)⟩
      · split at h
        · cases h; exact ⟨ha'.sub (pop_subset L _), hd'⟩
        · split at h
          · cases h; exact ⟨ha', hd'.sub (pop_subset L _)⟩
          · cases h
    · cases h

/-- A `TypeError` needs the same label on the same line on top of both stacks. -/
theorem stepTok_typeError (i : Nat) (st : Bufs) (t : Str) (h : stepTok i st t = .error .typeError) :
    ∃ L x, (L, x) ∈ st.add.stack ∧ (L, x) ∈ st.del.stack := by
  rw [stepTok_classify] at h
  cases hk : classify t with
  | none => simp [hk] at h
  | some k =>
    simp only [hk] at h
    obtain ⟨b, L, a⟩ := k
    cases b <;> cases a <;> simp only [stepEv] at h <;> try (cases h)
    split at h <;> try (cases h)
    rename_i x y hx hy
    split at h
    · cases h
    · split at h
      · cases h
      · have : x = y := by omega
        subst this
        exact ⟨L, x, top_mem L _ x hx, top_mem L _ x hy⟩

theorem stepTok_error_class (i : Nat) (st : Bufs) (t : Str) (e : Err) (h : stepTok i st t = .error e) :
    e = .valueError ∨ e = .typeError := by
  rw [stepTok_classify] at h
  cases hk : classify t with
  | none => simp [hk] at h; exact Or.inl h.symm
  | some k =>
    simp only [hk] at h
    obtain ⟨b, L, a⟩ := k
    cases b <;> cases a <;> simp only [stepEv] at h <;> try (cases h)
    · split at h <;> try (cases h)
      · exact Or.inl rfl
      · split at h
        · cases h
        · split at h
          · cases h
          · cases h; exact Or.inr rfl
    · exact Or.inl rfl

/-- Without a label opened with both signs on one line, no `TypeError`. -/
theorem runToks_no_typeError (toks : List (Nat × Str)) :
    ∀ st pre, Prov false st.add.stack pre → Prov true st.del.stack pre → TieFree (pre ++ toks) →
      runToks st toks ≠ .error .typeError := by
  induction toks with
  | nil => intro st pre _ _ _ h; simp [runToks] at h
  | cons p rest ih =>
    obtain ⟨i, t⟩ := p
    intro st pre ha hd htf h
    simp only [runToks] at h
    split at h
    · rename_i st1 hst1
      obtain ⟨ha1, hd1⟩ := stepTok_prov i st st1 t pre hst1 ha hd
      exact ih st1 (pre ++ [(i, t)]) ha1 hd1 (by simpa using htf) h
    · rename_i e he
      cases h
      obtain ⟨L, x, hxa, hxd⟩ := stepTok_typeError i st t he
      obtain ⟨p, hp, kp, hkp, hpl, hplab, hpa, hpb, hps⟩ := ha (L, x) hxa
      obtain ⟨q, hq, kq, hkq, hql, hqlab, hqa, hqb, hqs⟩ := hd (L, x) hxd
      have := htf p (by simp [hp]) q (by simp [hq]) kp kq hkp hkq (by rw [hpl, hql]) (by rw [hplab, hqlab])
        hpa hqa hpb hqb
      have h1 : ¬ kp.before = .minus := fun e => by simpa using hps.mp e
      have h2 : kq.before = .minus := hqs.mpr rfl
      exact h1 (this.mpr h2)

theorem runToks_error_class (toks : List (Nat × Str)) :
    ∀ st e, runToks st toks = .error e → e = .valueError ∨ e = .typeError := by
  induction toks with
  | nil => intro st e h; simp [runToks] at h
  | cons p rest ih =>
    obtain ⟨i, t⟩ := p
    intro st e h
    simp only [runToks] at h
    split at h
    · exact ih _ e h
    · rename_i e' he; cases h; exact stepTok_error_class i st t _ he

/-- `collect_hints` never raises anything else than `ValueError` when no label is opened with both
signs on one line. -/
theorem collectToks_error_value (toks : List (Nat × Str)) (htf : TieFree toks) (e : Err)
    (h : collectToks toks = .error e) : e = .valueError := by
  unfold collectToks at h
  cases hrun : runToks {} toks with
  | error e' =>
    simp only [hrun] at h; cases h
    rcases runToks_error_class toks {} e hrun with h1 | h1
    · exact h1
    · subst h1
      exact absurd hrun (runToks_no_typeError toks {} [] (by intro e he; simp at he) (by intro e he; simp at he)
        (by simpa using htf))
  | ok st =>
    simp only [hrun] at h
    unfold finish at h
    split at h
    · cases h; rfl
    · split at h
      · cases h; rfl
      · cases h

/-! ### The executable forms are sound -/

theorem malformed_of_B (toks : List (Nat × Str)) (h : malformedB toks = true) : Malformed toks := by
  simp only [malformedB, Bool.or_eq_true, List.any_eq_true] at h
  rcases h with ⟨p, hp, hr⟩ | ⟨L, _, hL⟩
  · exact Or.inl ⟨p, hp, hr⟩
  · refine Or.inr ⟨L, ?_⟩
    simp only [unbalancedB, Bool.or_eq_true, List.any_eq_true, decide_eq_true_eq, bne_iff_ne] at hL
    rcases hL with ⟨n, _, hn⟩ | hne
    · exact Or.inl ⟨toks.take n, List.take_prefix n toks, hn⟩
    · exact Or.inr hne

theorem tieFree_of_B (toks : List (Nat × Str)) (h : tieFreeB toks = true) : TieFree toks := by
  intro p hp q hq kp kq hkp hkq hline hlab hpa hqa hpb hqb
  simp only [tieFreeB, List.all_eq_true] at h
  have := h p hp q hq
  simp only [hkp, hkq, hline, hlab, hpa, hqa, beq_self_eq_true, Bool.and_true, Bool.true_and,
    Bool.or_eq_true, Bool.not_eq_true', Bool.and_eq_false_iff, bne_eq_false_iff_eq, beq_iff_eq] at this
  rcases this with (h1 | h1) | h1
  · exact absurd h1 hpb
  · exact absurd h1 hqb
  · constructor
    · intro e; simpa [e] using h1
    · intro e; simpa [e] using h1

end Paroxy.Hints
