/-
Helper lemmas for C12_malformed: an accepted run of `collect_hints` means that every token was
accepted by the token regex and that, label by label, the marks are balanced; and the only way to
get a `TypeError` is a label opened for addition and for deletion on the same line.
-/
import Paroxy.Proofs.HintsSched
namespace Paroxy.Hints

variable {O : CharOracle}

/-! ### One label: depth counting -/

def depth1 (s : St1) : Nat := s.sa.length + s.sd.length

def Ev.isOpn : Ev → Bool
  | .opn _ _ => true
  | _ => false

def Ev.isCls : Ev → Bool
  | .cls _ => true
  | _ => false

theorem step1_depth (s s' : St1) (e : Ev) (h : step1 s e = .ok s') :
    depth1 s' + (if e.isCls then 1 else 0) = depth1 s + (if e.isOpn then 1 else 0) := by
  cases e with
  | one b i => cases b <;> (simp only [step1] at h; cases h; simp [depth1, Ev.isCls, Ev.isOpn])
  | opn b i => cases b <;> (simp only [step1] at h; cases h; simp [depth1, Ev.isCls, Ev.isOpn] <;> omega)
  | cls j =>
    simp only [step1] at h
    cases hsa : s.sa with
    | nil =>
      cases hsd : s.sd with
      | nil => simp [hsa, hsd] at h
      | cons y t =>
        simp [hsa, hsd] at h; cases h
        simp [depth1, Ev.isCls, Ev.isOpn, hsa, hsd]
    | cons x t =>
      cases hsd : s.sd with
      | nil =>
        simp [hsa, hsd] at h; cases h
        simp [depth1, Ev.isCls, Ev.isOpn, hsa, hsd] <;> omega
      | cons y t2 =>
        simp only [hsa, hsd, List.head?_cons] at h
        split at h
        · cases h; simp [depth1, Ev.isCls, Ev.isOpn, hsa, hsd] <;> omega
        · cases h; simp [depth1, Ev.isCls, Ev.isOpn, hsa, hsd] <;> omega

/-! ### Raw tokens as hints -/

/-- A hint whose `tokOf` is the given (legal) token. -/
def hintOfTok (k : Tok) : Hint :=
  match k.before, k.after with
  | .dots, _ => ⟨.cls, k.label, {}⟩
  | .minus, true => ⟨.opn true, k.label, {}⟩
  | .minus, false => ⟨.one true, k.label, {}⟩
  | .plus, true => ⟨.opn false, k.label, { plus := true }⟩
  | .plus, false => ⟨.one false, k.label, { plus := true }⟩
  | .none, true => ⟨.opn false, k.label, {}⟩
  | .none, false => ⟨.one false, k.label, {}⟩

theorem tokOf_hintOfTok (k : Tok) (h : k.illegal = false) : tokOf (hintOfTok k) = k := by
  obtain ⟨b, L, a⟩ := k
  cases b <;> cases a <;> simp_all [Tok.illegal, hintOfTok, tokOf]

theorem hintOfTok_label (k : Tok) : (hintOfTok k).label = k.label := by
  obtain ⟨b, L, a⟩ := k
  cases b <;> cases a <;> rfl

theorem hintOfTok_ev_isOpn (k : Tok) (i : Nat) (h : k.illegal = false) :
    ((hintOfTok k).mark.ev i).isOpn = k.isOpen k.label := by
  obtain ⟨b, L, a⟩ := k
  cases b <;> cases a <;> simp_all [Tok.illegal, hintOfTok, Mark.ev, Ev.isOpn, Tok.isOpen]

theorem hintOfTok_ev_isCls (k : Tok) (i : Nat) (h : k.illegal = false) :
    ((hintOfTok k).mark.ev i).isCls = k.isClose k.label := by
  obtain ⟨b, L, a⟩ := k
  cases b <;> cases a <;> simp_all [Tok.illegal, hintOfTok, Mark.ev, Ev.isCls, Tok.isClose]

theorem stepTok_classify (i : Nat) (st : Bufs) (t : Str) :
    (stepTok O) i st t = match (classify O) t with
      | none => .error .valueError
      | some k => stepEv i st k := by
  unfold stepTok classify
  cases (matchLabel O) t with
  | none => rfl
  | some p => obtain ⟨b, L, a⟩ := p; rfl

theorem stepEv_illegal (i : Nat) (st : Bufs) (k : Tok) (h : k.illegal = true) :
    stepEv i st k = .error .valueError := by
  obtain ⟨b, L, a⟩ := k
  cases b <;> cases a <;> simp_all [Tok.illegal, stepEv]

def depth (L : Str) (st : Bufs) : Nat := depth1 (proj L st)

theorem isOpen_other {k : Tok} {L : Str} (h : L ≠ k.label) : k.isOpen L = false := by
  have : ¬ k.label = L := fun e => h e.symm
  simp [Tok.isOpen, this]

theorem isClose_other {k : Tok} {L : Str} (h : L ≠ k.label) : k.isClose L = false := by
  have : ¬ k.label = L := fun e => h e.symm
  simp [Tok.isClose, this]

/-- One accepted step: the token is legal and the depths move as the token says. -/
theorem stepTok_ok (i : Nat) (st st' : Bufs) (t : Str) (h : (stepTok O) i st t = .ok st') :
    ∃ k, (classify O) t = some k ∧ k.illegal = false ∧
      ∀ L, depth L st' + (if k.isClose L then 1 else 0) = depth L st + (if k.isOpen L then 1 else 0) := by
  rw [stepTok_classify] at h
  cases hk : (classify O) t with
  | none => simp [hk] at h
  | some k =>
    simp only [hk] at h
    have hill : k.illegal = false := by
      cases hi : k.illegal with
      | false => rfl
      | true => rw [stepEv_illegal i st k hi] at h; cases h
    refine ⟨k, rfl, hill, fun L => ?_⟩
    rw [← tokOf_hintOfTok k hill] at h
    obtain ⟨hstep, hother⟩ := (stepEv_proj i st (hintOfTok k)).2.1 st' h
    rw [hintOfTok_label] at hstep hother
    by_cases hL : L = k.label
    · subst hL
      have := step1_depth _ _ _ hstep
      rw [hintOfTok_ev_isOpn k i hill, hintOfTok_ev_isCls k i hill] at this
      exact this
    · simp [depth, hother L hL, isOpen_other hL, isClose_other hL]

theorem tokCount_cons (f : Tok → Bool) (p : Nat × Str) (toks : List (Nat × Str)) :
    (tokCount O) f (p :: toks) =
      (match (classify O) p.2 with | some k => if f k then 1 else 0 | none => 0) + (tokCount O) f toks := by
  unfold tokCount
  rw [List.countP_cons]
  cases (classify O) p.2 with
  | none => simp
  | some k => cases f k <;> simp <;> omega

/-- **An accepted run**: every token accepted; depths account for the marks; no closing mark
without an open one. -/
theorem runToks_ok (toks : List (Nat × Str)) :
    ∀ st st', (runToks O) st toks = .ok st' →
      (∀ p ∈ toks, (rejected O) p.2 = false) ∧
      ∀ L, depth L st' + (closesOf O) L toks = depth L st + (opensOf O) L toks ∧
        ∀ pre, pre <+: toks → (closesOf O) L pre ≤ depth L st + (opensOf O) L pre := by
  induction toks with
  | nil =>
    intro st st' h
    simp only [runToks] at h; cases h
    refine ⟨by simp, fun L => ⟨by simp [closesOf, opensOf, tokCount], fun pre hpre => ?_⟩⟩
    have : pre = [] := List.prefix_nil.mp hpre
    subst this; simp [closesOf, opensOf, tokCount]
  | cons p rest ih =>
    obtain ⟨i, t⟩ := p
    intro st st' h
    simp only [runToks] at h
    split at h
    · rename_i st1 hst1
      obtain ⟨k, hk, hill, hd⟩ := stepTok_ok i st st1 t hst1
      obtain ⟨hrej, hcount⟩ := ih st1 st' h
      refine ⟨?_, fun L => ?_⟩
      · intro q hq
        rcases List.mem_cons.mp hq with rfl | hq
        · simp [rejected, hk, hill]
        · exact hrej q hq
      · obtain ⟨h1, h2⟩ := hcount L
        have hdL := hd L
        refine ⟨?_, fun pre hpre => ?_⟩
        · simp only [closesOf, opensOf, tokCount_cons, hk] at h1 ⊢
          omega
        · cases pre with
          | nil => simp [closesOf, opensOf, tokCount]
          | cons q pre' =>
            obtain ⟨rfl, hpre'⟩ := List.cons_prefix_cons.mp hpre
            have := h2 pre' hpre'
            simp only [closesOf, opensOf, tokCount_cons, hk] at this ⊢
            omega
    · cases h

theorem depth_nil (L : Str) : depth L {} = 0 := rfl

theorem depth_zero_of_empty (L : Str) (st : Bufs) (ha : st.add.stack = []) (hd : st.del.stack = []) :
    depth L st = 0 := by
  simp [depth, depth1, proj, ha, hd, linesOf]

/-- A schedule is only returned for well-formed hint tokens. -/
theorem collectToks_ok_not_malformed (toks : List (Nat × Str)) (r : Sched × Sched)
    (h : (collectToks O) toks = .ok r) : ¬ (Malformed O) toks := by
  unfold collectToks at h
  cases hrun : (runToks O) {} toks with
  | error e => simp [hrun] at h
  | ok st =>
    simp only [hrun] at h
    obtain ⟨hrej, hcount⟩ := runToks_ok toks {} st hrun
    have hempty : st.add.stack = [] ∧ st.del.stack = [] := by
      unfold finish at h
      by_cases ha : st.add.stack = []
      · by_cases hd : st.del.stack = []
        · exact ⟨ha, hd⟩
        · simp [ha, hd] at h
      · simp [ha] at h
    rintro (⟨p, hp, hr⟩ | ⟨L, hL⟩)
    · rw [hrej p hp] at hr; cases hr
    · obtain ⟨h1, h2⟩ := hcount L
      rw [depth_zero_of_empty L st hempty.1 hempty.2, depth_nil] at h1
      rcases hL with ⟨pre, hpre, hlt⟩ | hne
      · have := h2 pre hpre
        rw [depth_nil] at this; omega
      · omega

/-! ### The only exception of `collect_hints` is `ValueError` -/

theorem pop_subset (L : Str) (stk : List (Str × Nat)) : ∀ e ∈ pop L stk, e ∈ stk := by
  induction stk with
  | nil => simp [pop]
  | cons p t ih =>
    obtain ⟨l, x⟩ := p
    intro e he
    simp only [pop] at he
    split at he
    · exact List.mem_cons_of_mem _ he
    · rcases List.mem_cons.mp he with rfl | he
      · simp
      · exact List.mem_cons_of_mem _ (ih e he)

theorem top_mem (L : Str) (stk : List (Str × Nat)) (x : Nat) (h : top L stk = some x) : (L, x) ∈ stk := by
  induction stk with
  | nil => simp [top] at h
  | cons p t ih =>
    obtain ⟨l, y⟩ := p
    simp only [top] at h
    split at h
    · rename_i hl; cases h; subst hl; simp
    · exact List.mem_cons_of_mem _ (ih h)

theorem stepTok_error_class (i : Nat) (st : Bufs) (t : Str) (e : Err) (h : (stepTok O) i st t = .error e) :
    e = .valueError := by
  rw [stepTok_classify] at h
  cases hk : (classify O) t with
  | none => simp [hk] at h; exact h.symm
  | some k =>
    simp only [hk] at h
    obtain ⟨b, L, a⟩ := k
    cases b <;> cases a <;> simp only [stepEv] at h <;> try (cases h)
    · split at h <;> try (cases h)
      · rfl
      · split at h <;> cases h
    · rfl

theorem runToks_error_class (toks : List (Nat × Str)) :
    ∀ st e, (runToks O) st toks = .error e → e = .valueError := by
  induction toks with
  | nil => intro st e h; simp [runToks] at h
  | cons p rest ih =>
    obtain ⟨i, t⟩ := p
    intro st e h
    simp only [runToks] at h
    split at h
    · exact ih _ e h
    · rename_i e' he; cases h; exact stepTok_error_class i st t _ he

/-- `collect_hints` never raises anything else than `ValueError`. -/
theorem collectToks_error_value (toks : List (Nat × Str)) (e : Err)
    (h : (collectToks O) toks = .error e) : e = .valueError := by
  unfold collectToks at h
  cases hrun : (runToks O) {} toks with
  | error e' =>
    simp only [hrun] at h; cases h
    exact runToks_error_class toks {} e hrun
  | ok st =>
    simp only [hrun] at h
    unfold finish at h
    split at h
    · cases h; rfl
    · split at h
      · cases h; rfl
      · cases h

/-! ### The executable forms are sound -/

theorem malformed_of_B (toks : List (Nat × Str)) (h : (malformedB O) toks = true) : (Malformed O) toks := by
  simp only [malformedB, Bool.or_eq_true, List.any_eq_true] at h
  rcases h with ⟨p, hp, hr⟩ | ⟨L, _, hL⟩
  · exact Or.inl ⟨p, hp, hr⟩
  · refine Or.inr ⟨L, ?_⟩
    simp only [unbalancedB, Bool.or_eq_true, List.any_eq_true, decide_eq_true_eq, bne_iff_ne] at hL
    rcases hL with ⟨n, _, hn⟩ | hne
    · exact Or.inl ⟨toks.take n, List.take_prefix n toks, hn⟩
    · exact Or.inr hne


end Paroxy.Hints
