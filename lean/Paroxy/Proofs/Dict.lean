import Paroxy.Model.CompareSpans
namespace Paroxy

theorem dictGet?_mem {β : Type} {d : List (Codes × β)} {k : Codes} {v : β}
    (h : dictGet? d k = some v) : (k, v) ∈ d := by
  induction d with
  | nil => simp [dictGet?] at h
  | cons p t ih =>
    obtain ⟨k', v'⟩ := p
    unfold dictGet? at h
    split at h
    · rename_i hk; cases h; cases hk; exact List.mem_cons_self
    · exact List.mem_cons_of_mem _ (ih h)

theorem dictGet?_of_key_mem {β : Type} {d : List (Codes × β)} {k : Codes}
    (h : k ∈ d.map (·.1)) : ∃ v, dictGet? d k = some v := by
  induction d with
  | nil => simp at h
  | cons p t ih =>
    obtain ⟨k', v'⟩ := p
    unfold dictGet?
    by_cases hk : k' = k
    · exact ⟨v', by simp [hk]⟩
    · simp only [hk, if_false]
      apply ih
      simp only [List.map_cons, List.mem_cons] at h
      rcases h with h | h
      · exact absurd h.symm hk
      · exact h

end Paroxy
