/-
Helper lemmas for C11: insertion-ordered dictionaries (`get?`, `set`, `push`, `sortKeys`), the
inverted index `collect`, and `exportations`.
-/
import Paroxy.Proofs.MakeDbSort
namespace Paroxy.DB
open Std

/-! ## get? / set / push -/

theorem get?_cons {β : Type} (k' : Name) (v : β) (t : List (Name × β)) (k : Name) :
    get? ((k', v) :: t) k = if k' = k then some v else get? t k := rfl

theorem get?_eq_none {β : Type} {d : List (Name × β)} {k : Name} :
    get? d k = none ↔ k ∉ keys d := by
  induction d with
  | nil => simp [get?, keys]
  | cons e t ih =>
    obtain ⟨k', v⟩ := e
    rw [get?_cons]
    by_cases h : k' = k
    · simp [h, keys]
    · simp only [h, if_false, ih, keys, List.map_cons, List.mem_cons, not_or]
      exact ⟨fun h' => ⟨fun e => h e.symm, h'⟩, fun h' => h'.2⟩

theorem get?_isSome {β : Type} {d : List (Name × β)} {k : Name} :
    (∃ v, get? d k = some v) ↔ k ∈ keys d := by
  cases h : get? d k with
  | none => simp [get?_eq_none.mp h]
  | some v =>
    have : ¬ (k ∉ keys d) := fun hn => by rw [get?_eq_none.mpr hn] at h; cases h
    simp only [Option.some.injEq, exists_eq', true_iff]
    exact Classical.not_not.mp this

theorem get?_mem {β : Type} {d : List (Name × β)} {k : Name} {v : β} (h : get? d k = some v) :
    (k, v) ∈ d := by
  induction d with
  | nil => simp [get?] at h
  | cons e t ih =>
    obtain ⟨k', v'⟩ := e
    rw [get?_cons] at h
    split at h
    · rename_i hk; cases h; rw [hk]; exact List.mem_cons_self
    · exact List.mem_cons_of_mem _ (ih h)

theorem get?_of_mem_nodup {β : Type} {d : List (Name × β)} {k : Name} {v : β}
    (hn : (keys d).Nodup) (h : (k, v) ∈ d) : get? d k = some v := by
  induction d with
  | nil => cases h
  | cons e t ih =>
    obtain ⟨k', v'⟩ := e
    simp only [keys, List.map_cons, List.nodup_cons] at hn
    rw [get?_cons]
    rcases List.mem_cons.mp h with e | h'
    · cases e; simp
    · have : k' ≠ k := by
        intro e; apply hn.1; rw [e]
        exact List.mem_map.mpr ⟨(k, v), h', rfl⟩
      simp only [this, if_false]
      exact ih hn.2 h'

theorem get?_set {β : Type} (d : List (Name × β)) (k : Name) (v : β) (k' : Name) :
    get? (set d k v) k' = if k' = k then some v else get? d k' := by
  induction d with
  | nil =>
    simp only [set, get?_cons, get?]
    by_cases h : k = k'
    · simp [h]
    · have : ¬ k' = k := fun e => h e.symm
      simp [h, this]
  | cons e t ih =>
    obtain ⟨k0, v0⟩ := e
    unfold set
    by_cases h0 : k0 = k
    · simp only [h0, if_true, get?_cons]
      by_cases h : k = k'
      · simp [h]
      · have : ¬ k' = k := fun e => h e.symm
        simp [h, this]
    · simp only [h0, if_false, get?_cons, ih]
      by_cases h : k0 = k'
      · have : ¬ k' = k := fun e => h0 (h.trans e)
        simp [h, this]
      · simp [h]

theorem keys_set {β : Type} (d : List (Name × β)) (k : Name) (v : β) :
    keys (set d k v) = if k ∈ keys d then keys d else keys d ++ [k] := by
  induction d with
  | nil => simp [set, keys]
  | cons e t ih =>
    obtain ⟨k0, v0⟩ := e
    unfold set
    by_cases h0 : k0 = k
    · simp [h0, keys]
    · have hne : ¬ k = k0 := fun e => h0 e.symm
      simp only [h0, if_false, keys, List.map_cons, List.mem_cons, hne, false_or]
      have := ih
      simp only [keys] at this
      rw [this]
      by_cases hk : k ∈ List.map (fun x => x.fst) t <;> simp [hk]

theorem keys_set_of_mem {β : Type} {d : List (Name × β)} {k : Name} (v : β) (h : k ∈ keys d) :
    keys (set d k v) = keys d := by
  rw [keys_set, if_pos h]

theorem mem_set {β : Type} {d : List (Name × β)} {k : Name} {v : β} {e : Name × β}
    (h : e ∈ set d k v) : e ∈ d ∨ e.2 = v := by
  induction d with
  | nil => simp [set] at h; right; rw [h]
  | cons f t ih =>
    obtain ⟨k0, v0⟩ := f
    unfold set at h
    split at h
    · rcases List.mem_cons.mp h with e' | h'
      · right; rw [e']
      · left; exact List.mem_cons_of_mem _ h'
    · rcases List.mem_cons.mp h with e' | h'
      · left; rw [e']; exact List.mem_cons_self
      · rcases ih h' with h'' | h''
        · left; exact List.mem_cons_of_mem _ h''
        · right; exact h''

theorem set_of_not_mem {β : Type} {d : List (Name × β)} {k : Name} (v : β) (h : k ∉ keys d) :
    set d k v = d ++ [(k, v)] := by
  induction d with
  | nil => rfl
  | cons e t ih =>
    obtain ⟨k0, v0⟩ := e
    simp only [keys, List.map_cons, List.mem_cons, not_or] at h
    have h0 : ¬ k0 = k := fun e => h.1 e.symm
    unfold set
    simp only [h0, if_false, List.cons_append]
    rw [ih h.2]

/-- A `for x in xs: d[key x] = val x` loop over distinct keys builds the dictionary in order. -/
theorem foldl_set_nodup {β γ : Type} (key : γ → Name) (val : γ → β) (xs : List γ)
    (d : List (Name × β)) (hn : (keys d ++ xs.map key).Nodup) :
    xs.foldl (fun d x => set d (key x) (val x)) d = d ++ xs.map fun x => (key x, val x) := by
  induction xs generalizing d with
  | nil => simp
  | cons x t ih =>
    simp only [List.foldl_cons, List.map_cons]
    have hx : key x ∉ keys d := by
      intro h
      rw [List.nodup_append] at hn
      exact hn.2.2 _ h _ List.mem_cons_self rfl
    rw [set_of_not_mem _ hx, ih]
    · simp
    · simp only [keys, List.map_append, List.map_cons, List.map_nil, List.append_assoc,
        List.cons_append, List.nil_append]
      simpa [keys] using hn

theorem get?_push (d : List (Name × List Name)) (k v k' : Name) :
    get? (push d k v) k' =
      if k' = k then some ((get? d k).getD [] ++ [v]) else get? d k' := by
  induction d with
  | nil =>
    simp only [push, get?_cons, get?]
    by_cases h : k = k'
    · simp [h]
    · have : ¬ k' = k := fun e => h e.symm
      simp [h, this]
  | cons e t ih =>
    obtain ⟨k0, v0⟩ := e
    unfold push
    by_cases h0 : k0 = k
    · simp only [h0, if_true, get?_cons]
      by_cases h : k = k'
      · simp [h]
      · have : ¬ k' = k := fun e => h e.symm
        simp [h, this]
    · simp only [h0, if_false, get?_cons, ih]
      by_cases h : k0 = k'
      · have : ¬ k' = k := fun e => h0 (h.trans e)
        simp [h, this]
      · simp [h]

theorem keys_push (d : List (Name × List Name)) (k v : Name) :
    keys (push d k v) = if k ∈ keys d then keys d else keys d ++ [k] := by
  induction d with
  | nil => simp [push, keys]
  | cons e t ih =>
    obtain ⟨k0, v0⟩ := e
    unfold push
    by_cases h0 : k0 = k
    · simp [h0, keys]
    · have hne : ¬ k = k0 := fun e => h0 e.symm
      simp only [h0, if_false, keys, List.map_cons, List.mem_cons, hne, false_or]
      have := ih
      simp only [keys] at this
      rw [this]
      by_cases hk : k ∈ List.map (fun x => x.fst) t <;> simp [hk]

theorem nodup_keys_push {d : List (Name × List Name)} (k v : Name) (h : (keys d).Nodup) :
    (keys (push d k v)).Nodup := by
  rw [keys_push]
  split
  · exact h
  · rename_i hk
    rw [List.nodup_append]
    refine ⟨h, by simp, ?_⟩
    intro a ha b hb
    simp only [List.mem_singleton] at hb
    rw [hb]; intro e; exact hk (e ▸ ha)

/-! ## The inverted index -/

/-- occurrences of `k`, in order -/
def occOf (occ : List (Name × Name)) (k : Name) : List Name :=
  (occ.filter fun o => decide (o.1 = k)).map (·.2)

theorem get?_foldl_push (occ : List (Name × Name)) (d : List (Name × List Name)) (k : Name) :
    get? (occ.foldl (fun d o => push d o.1 o.2) d) k =
      match get? d k with
      | some l => some (l ++ occOf occ k)
      | none => if occOf occ k = [] then none else some (occOf occ k) := by
  induction occ generalizing d with
  | nil =>
    simp only [List.foldl_nil, occOf, List.filter_nil, List.map_nil, List.append_nil, if_true]
    cases get? d k <;> rfl
  | cons o t ih =>
    obtain ⟨n, p⟩ := o
    simp only [List.foldl_cons]
    rw [ih, get?_push]
    by_cases h : k = n
    · subst h
      simp only [if_true, occOf, List.filter_cons, decide_true, List.map_cons]
      cases hg : get? d k with
      | none => simp
      | some l => simp
    · have hn : ¬ n = k := fun e => h e.symm
      simp only [h, if_false, occOf, List.filter_cons, hn, decide_false, Bool.false_eq_true]
      cases hg : get? d k <;> rfl

theorem nodup_keys_foldl_push (occ : List (Name × Name)) (d : List (Name × List Name))
    (h : (keys d).Nodup) : (keys (occ.foldl (fun d o => push d o.1 o.2) d)).Nodup := by
  induction occ generalizing d with
  | nil => exact h
  | cons o t ih => exact ih _ (nodup_keys_push _ _ h)

theorem get?_collect (occ : List (Name × Name)) (k : Name) :
    get? (collect occ) k = if occOf occ k = [] then none else some (occOf occ k) := by
  unfold collect
  rw [get?_foldl_push]
  rfl

theorem nodup_keys_collect (occ : List (Name × Name)) : (keys (collect occ)).Nodup :=
  nodup_keys_foldl_push occ [] (by simp [keys])

/-! ## sortKeys -/

theorem keys_insertKey {β : Type} (e : Name × β) (d : List (Name × β)) :
    keys (insertKey e d) = insort e.1 (keys d) := by
  induction d with
  | nil => rfl
  | cons f t ih =>
    unfold insertKey
    simp only [keys, List.map_cons, insort]
    split
    · rfl
    · simp only [List.map_cons]
      have := ih
      simp only [keys] at this
      rw [this]

theorem get?_insertKey {β : Type} {e : Name × β} {d : List (Name × β)} (h : e.1 ∉ keys d)
    (k : Name) : get? (insertKey e d) k = if e.1 = k then some e.2 else get? d k := by
  induction d with
  | nil => rfl
  | cons f t ih =>
    obtain ⟨k0, v0⟩ := f
    simp only [keys, List.map_cons, List.mem_cons, not_or] at h
    unfold insertKey
    split
    · rfl
    · simp only [get?_cons]
      have := ih (by simpa [keys] using h.2)
      rw [this]
      by_cases h0 : k0 = k
      · have : ¬ e.1 = k := fun e' => h.1 (e'.trans h0.symm)
        simp [h0, this]
      · simp [h0]

theorem sortKeys_props {β : Type} (d : List (Name × β)) (hn : (keys d).Nodup) :
    StrictSorted (keys (sortKeys d)) ∧ (∀ k, get? (sortKeys d) k = get? d k) ∧
      (∀ k, k ∈ keys (sortKeys d) ↔ k ∈ keys d) := by
  induction d with
  | nil => simp [sortKeys, StrictSorted, keys]
  | cons e t ih =>
    obtain ⟨k0, v0⟩ := e
    simp only [keys, List.map_cons, List.nodup_cons] at hn
    obtain ⟨hs, hg, hm⟩ := ih hn.2
    have he : sortKeys ((k0, v0) :: t) = insertKey (k0, v0) (sortKeys t) := rfl
    have hk0 : k0 ∉ keys (sortKeys t) := fun h => hn.1 ((hm k0).mp h)
    rw [he]
    refine ⟨?_, ?_, ?_⟩
    · rw [keys_insertKey]; exact strictSorted_insort hs hk0
    · intro k
      rw [get?_insertKey hk0, hg, get?_cons]
    · intro k
      rw [keys_insertKey, mem_insort, hm]
      simp [keys, List.mem_cons]

/-! ## foldExcept and exportations -/

theorem foldExcept_ok_of {σ α : Type} {f : σ → α → Except Err σ} (P : σ → Prop)
    (hstep : ∀ s a, P s → ∃ s', f s a = .ok s' ∧ P s') (s : σ) (l : List α) (hP : P s) :
    ∃ s', foldExcept f s l = .ok s' ∧ P s' := by
  induction l generalizing s with
  | nil => exact ⟨s, rfl, hP⟩
  | cons a t ih =>
    obtain ⟨s1, h1, hP1⟩ := hstep s a hP
    obtain ⟨s2, h2, hP2⟩ := ih s1 hP1
    refine ⟨s2, ?_, hP2⟩
    simp only [foldExcept, h1]
    exact h2

theorem inAt_set {d : List (Name × List Name)} {k : Name} {v : List Name} {p q : Name} :
    InAt (set d k v) p q ↔ (p = k ∧ q ∈ v) ∨ (p ≠ k ∧ InAt d p q) := by
  unfold InAt
  rw [get?_set]
  by_cases h : p = k
  · simp [h]
  · simp [h]

/-- The inner loop `for imported in importeds:` of `compute_and_collect_exportations`. -/
theorem exportInner (i : Name) (xs : List Name) (acc acc' : List (Name × List Name))
    (h : foldExcept (exportStep i) acc xs = .ok acc') :
    keys acc' = keys acc ∧ (∀ x ∈ xs, x ∈ keys acc) ∧
    (∀ p q, InAt acc' p q ↔ InAt acc p q ∨ (q = i ∧ p ∈ xs)) ∧
    ((∀ e ∈ acc, StrictSorted e.2) → ∀ e ∈ acc', StrictSorted e.2) := by
  induction xs generalizing acc with
  | nil =>
    simp only [foldExcept, Except.ok.injEq] at h
    subst h
    simp
  | cons x t ih =>
    simp only [foldExcept] at h
    cases hstep : exportStep i acc x with
    | error e => rw [hstep] at h; cases h
    | ok acc1 =>
      rw [hstep] at h
      simp only at h
      unfold exportStep at hstep
      cases hg : get? acc x with
      | none => rw [hg] at hstep; cases hstep
      | some l =>
        rw [hg] at hstep
        simp only [Except.ok.injEq] at hstep
        have hx : x ∈ keys acc := get?_isSome.mp ⟨l, hg⟩
        obtain ⟨hk, hin, hmem, hsort⟩ := ih acc1 h
        have hk1 : keys acc1 = keys acc := by rw [← hstep]; exact keys_set_of_mem _ hx
        refine ⟨hk.trans hk1, ?_, ?_, ?_⟩
        · intro y hy
          rcases List.mem_cons.mp hy with e | hy'
          · rw [e]; exact hx
          · rw [← hk1]; exact hin y hy'
        · intro p q
          rw [hmem, ← hstep, inAt_set]
          constructor
          · rintro ((⟨hp, hq⟩ | ⟨hp, hq⟩) | ⟨hq, hp⟩)
            · rcases mem_insortNew.mp hq with e | hq'
              · exact Or.inr ⟨e, by rw [hp]; exact List.mem_cons_self⟩
              · exact Or.inl ⟨l, by rw [hp]; exact hg, hq'⟩
            · exact Or.inl hq
            · exact Or.inr ⟨hq, List.mem_cons_of_mem _ hp⟩
          · rintro (hq | ⟨hq, hp⟩)
            · by_cases hpx : p = x
              · obtain ⟨l', hl', hq'⟩ := hq
                rw [hpx, hg] at hl'
                cases hl'
                exact Or.inl (Or.inl ⟨hpx, mem_insortNew.mpr (Or.inr hq')⟩)
              · exact Or.inl (Or.inr ⟨hpx, hq⟩)
            · rcases List.mem_cons.mp hp with e | hp'
              · exact Or.inl (Or.inl ⟨e, mem_insortNew.mpr (Or.inl hq)⟩)
              · exact Or.inr ⟨hq, hp'⟩
        · intro hs
          apply hsort
          intro e he
          rw [← hstep] at he
          rcases mem_set he with he' | he'
          · exact hs e he'
          · rw [he']
            exact strictSorted_insortNew (hs (x, l) (get?_mem hg))

theorem exportInner_ok (i : Name) (xs : List Name) (acc : List (Name × List Name))
    (hx : ∀ x ∈ xs, x ∈ keys acc) : ∃ acc', foldExcept (exportStep i) acc xs = .ok acc' := by
  induction xs generalizing acc with
  | nil => exact ⟨acc, rfl⟩
  | cons x t ih =>
    obtain ⟨l, hl⟩ := get?_isSome.mpr (hx x List.mem_cons_self)
    have hstep : exportStep i acc x = .ok (set acc x (insortNew i l)) := by
      unfold exportStep; rw [hl]
    have hk : keys (set acc x (insortNew i l)) = keys acc :=
      keys_set_of_mem _ (hx x List.mem_cons_self)
    obtain ⟨acc', h'⟩ := ih (set acc x (insortNew i l))
      (fun y hy => by rw [hk]; exact hx y (List.mem_cons_of_mem _ hy))
    refine ⟨acc', ?_⟩
    simp only [foldExcept, hstep]
    exact h'

/-- The outer loop. -/
theorem exportOuter (imps : List (Name × List Name)) (acc acc' : List (Name × List Name))
    (h : foldExcept (fun acc (e : Name × List Name) => foldExcept (exportStep e.1) acc e.2) acc imps
      = .ok acc') :
    keys acc' = keys acc ∧ (∀ e ∈ imps, ∀ x ∈ e.2, x ∈ keys acc) ∧
    (∀ p q, InAt acc' p q ↔ InAt acc p q ∨ ∃ e ∈ imps, e.1 = q ∧ p ∈ e.2) ∧
    ((∀ e ∈ acc, StrictSorted e.2) → ∀ e ∈ acc', StrictSorted e.2) := by
  induction imps generalizing acc with
  | nil =>
    simp only [foldExcept, Except.ok.injEq] at h
    subst h
    simp
  | cons e t ih =>
    simp only [foldExcept] at h
    cases hstep : foldExcept (exportStep e.1) acc e.2 with
    | error err => rw [hstep] at h; cases h
    | ok acc1 =>
      rw [hstep] at h
      simp only at h
      obtain ⟨hk1, hin1, hmem1, hsort1⟩ := exportInner e.1 e.2 acc acc1 hstep
      obtain ⟨hk, hin, hmem, hsort⟩ := ih acc1 h
      refine ⟨hk.trans hk1, ?_, ?_, fun hs => hsort (hsort1 hs)⟩
      · intro f hf x hx
        rcases List.mem_cons.mp hf with e' | hf'
        · rw [e'] at hx; exact hin1 x hx
        · rw [← hk1]; exact hin f hf' x hx
      · intro p q
        rw [hmem, hmem1]
        constructor
        · rintro ((h' | ⟨hq, hp⟩) | ⟨f, hf, hq, hp⟩)
          · exact Or.inl h'
          · exact Or.inr ⟨e, List.mem_cons_self, hq.symm, hp⟩
          · exact Or.inr ⟨f, List.mem_cons_of_mem _ hf, hq, hp⟩
        · rintro (h' | ⟨f, hf, hq, hp⟩)
          · exact Or.inl (Or.inl h')
          · rcases List.mem_cons.mp hf with e' | hf'
            · rw [e'] at hq hp; exact Or.inl (Or.inr ⟨hq.symm, hp⟩)
            · exact Or.inr ⟨f, hf', hq, hp⟩

theorem exportOuter_ok (imps : List (Name × List Name)) (acc : List (Name × List Name))
    (hx : ∀ e ∈ imps, ∀ x ∈ e.2, x ∈ keys acc) :
    ∃ acc', foldExcept (fun acc (e : Name × List Name) => foldExcept (exportStep e.1) acc e.2)
      acc imps = .ok acc' := by
  induction imps generalizing acc with
  | nil => exact ⟨acc, rfl⟩
  | cons e t ih =>
    obtain ⟨acc1, h1⟩ := exportInner_ok e.1 e.2 acc (hx e List.mem_cons_self)
    have hk := (exportInner e.1 e.2 acc acc1 h1).1
    obtain ⟨acc', h'⟩ := ih acc1 (fun f hf x hx' => by
      rw [hk]; exact hx f (List.mem_cons_of_mem _ hf) x hx')
    refine ⟨acc', ?_⟩
    simp only [foldExcept, h1]
    exact h'

theorem keys_init (paths : List Name) : keys (paths.map fun p => (p, ([] : List Name))) = paths := by
  simp [keys, List.map_map, Function.comp_def]

theorem inAt_init (paths : List Name) (p q : Name) :
    ¬ InAt (paths.map fun p => (p, ([] : List Name))) p q := by
  rintro ⟨l, hl, hq⟩
  have := get?_mem hl
  simp only [List.mem_map, Prod.mk.injEq] at this
  obtain ⟨_, _, _, e⟩ := this
  rw [← e] at hq; cases hq

/-- `compute_and_collect_exportations`: when it returns, every imported path is a program path and
the result is the exact sorted inverse of `importations`, with the program paths as keys. -/
theorem exportations_spec {paths : List Name} {imps exps : List (Name × List Name)}
    (h : exportations paths imps = .ok exps) :
    keys exps = paths ∧ (∀ e ∈ imps, ∀ x ∈ e.2, x ∈ paths) ∧
    (∀ p q, InAt exps p q ↔ ∃ e ∈ imps, e.1 = q ∧ p ∈ e.2) ∧
    (∀ e ∈ exps, StrictSorted e.2) := by
  unfold exportations at h
  obtain ⟨hk, hin, hmem, hsort⟩ := exportOuter imps _ exps h
  rw [keys_init] at hk hin
  refine ⟨hk, hin, ?_, ?_⟩
  · intro p q
    rw [hmem]
    constructor
    · rintro (h' | h')
      · exact absurd h' (inAt_init paths p q)
      · exact h'
    · exact Or.inr
  · apply hsort
    intro e he
    simp only [List.mem_map] at he
    obtain ⟨_, _, e'⟩ := he
    rw [← e']
    simp [StrictSorted]

theorem exportations_ok {paths : List Name} {imps : List (Name × List Name)}
    (hx : ∀ e ∈ imps, ∀ x ∈ e.2, x ∈ paths) : ∃ exps, exportations paths imps = .ok exps := by
  unfold exportations
  apply exportOuter_ok
  rw [keys_init]
  exact hx

end Paroxy.DB

namespace Paroxy.DB

/-! ## The labels index after fix F47: `pushNew` / `collectNew` -/

theorem get?_pushNew (d : List (Name × List Name)) (k v k' : Name) :
    get? (pushNew d k v) k' =
      if k' = k then some (addNew ((get? d k).getD []) v) else get? d k' := by
  induction d with
  | nil =>
    simp only [pushNew, get?_cons, get?]
    by_cases h : k = k'
    · simp [h, addNew]
    · have : ¬ k' = k := fun e => h e.symm
      simp [h, this]
  | cons e t ih =>
    obtain ⟨k0, v0⟩ := e
    unfold pushNew
    by_cases h0 : k0 = k
    · simp only [h0, if_true, get?_cons]
      by_cases h : k = k'
      · simp [h]
      · have : ¬ k' = k := fun e => h e.symm
        simp [h, this]
    · simp only [h0, if_false, get?_cons, ih]
      by_cases h : k0 = k'
      · have : ¬ k' = k := fun e => h0 (h.trans e)
        simp [h, this]
      · simp [h]

theorem keys_pushNew (d : List (Name × List Name)) (k v : Name) :
    keys (pushNew d k v) = if k ∈ keys d then keys d else keys d ++ [k] := by
  induction d with
  | nil => simp [pushNew, keys]
  | cons e t ih =>
    obtain ⟨k0, v0⟩ := e
    unfold pushNew
    by_cases h0 : k0 = k
    · simp [h0, keys]
    · have hne : ¬ k = k0 := fun e => h0 e.symm
      simp only [h0, if_false, keys, List.map_cons, List.mem_cons, hne, false_or]
      have := ih
      simp only [keys] at this
      rw [this]
      by_cases hk : k ∈ List.map (fun x => x.fst) t <;> simp [hk]

theorem nodup_keys_pushNew {d : List (Name × List Name)} (k v : Name) (h : (keys d).Nodup) :
    (keys (pushNew d k v)).Nodup := by
  rw [keys_pushNew]
  split
  · exact h
  · rename_i hk
    rw [List.nodup_append]
    refine ⟨h, by simp, ?_⟩
    intro a ha b hb
    simp only [List.mem_singleton] at hb
    rw [hb]; intro e; exact hk (e ▸ ha)

/-- the consecutive-duplicate-free list: what `addNew` builds from the occurrences -/
def dedupAdj (xs : List Name) : List Name := xs.foldl addNew []

theorem get?_foldl_pushNew (occ : List (Name × Name)) (d : List (Name × List Name)) (k : Name) :
    get? (occ.foldl (fun d o => pushNew d o.1 o.2) d) k =
      match get? d k with
      | some l => some ((occOf occ k).foldl addNew l)
      | none => if occOf occ k = [] then none else some ((occOf occ k).foldl addNew []) := by
  induction occ generalizing d with
  | nil =>
    simp only [List.foldl_nil, occOf, List.filter_nil, List.map_nil, if_true]
    cases get? d k <;> rfl
  | cons o t ih =>
    obtain ⟨n, p⟩ := o
    simp only [List.foldl_cons]
    rw [ih, get?_pushNew]
    by_cases h : k = n
    · subst h
      simp only [if_true, occOf, List.filter_cons, decide_true, List.map_cons, List.foldl_cons]
      cases hg : get? d k with
      | none => simp [addNew]
      | some l => simp
    · have hn : ¬ n = k := fun e => h e.symm
      simp only [h, if_false, occOf, List.filter_cons, hn, decide_false, Bool.false_eq_true]
      cases hg : get? d k <;> rfl

theorem nodup_keys_collectNew (occ : List (Name × Name)) : (keys (collectNew occ)).Nodup := by
  unfold collectNew
  have : ∀ (occ : List (Name × Name)) (d : List (Name × List Name)), (keys d).Nodup →
      (keys (occ.foldl (fun d o => pushNew d o.1 o.2) d)).Nodup := by
    intro occ
    induction occ with
    | nil => intro d h; exact h
    | cons o t ih => intro d h; exact ih _ (nodup_keys_pushNew _ _ h)
  exact this occ [] (by simp [keys])

theorem get?_collectNew (occ : List (Name × Name)) (k : Name) :
    get? (collectNew occ) k = if occOf occ k = [] then none else some (dedupAdj (occOf occ k)) := by
  unfold collectNew
  rw [get?_foldl_pushNew]
  rfl

theorem mem_foldl_addNew (xs l : List Name) (x : Name) :
    x ∈ xs.foldl addNew l ↔ x ∈ l ∨ x ∈ xs := by
  induction xs generalizing l with
  | nil => simp
  | cons a t ih =>
    simp only [List.foldl_cons, ih, List.mem_cons]
    unfold addNew
    split
    · rename_i hl
      have ha : a ∈ l := List.mem_of_getLast? hl
      constructor
      · rintro (h | h)
        · exact Or.inl h
        · exact Or.inr (Or.inr h)
      · rintro (h | h | h)
        · exact Or.inl h
        · rw [h]; exact Or.inl ha
        · exact Or.inr h
    · simp only [List.mem_append, List.mem_singleton]
      constructor
      · rintro ((h | h) | h)
        · exact Or.inl h
        · exact Or.inr (Or.inl h)
        · exact Or.inr (Or.inr h)
      · rintro (h | h | h)
        · exact Or.inl (Or.inl h)
        · exact Or.inl (Or.inr h)
        · exact Or.inr h

theorem mem_dedupAdj (xs : List Name) (x : Name) : x ∈ dedupAdj xs ↔ x ∈ xs := by
  unfold dedupAdj
  rw [mem_foldl_addNew]
  simp

end Paroxy.DB
