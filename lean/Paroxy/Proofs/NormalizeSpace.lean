/-
Helper lemmas for C16, part 4 (round 11, B3): decoration words and negation markers separated by ANY
white space.

Plan. The code detects the negation with `not\s+` / `\s+not` but removes only the literal `"not "` /
`" not"`, and removes `is` only next to a literal space: with another white-space character the word
STAYS in the text that reaches the salvage pipeline, which erases it with every other character outside
`xy<=≤`. So the normalisation lemma is: a text `P ++ T ++ Q` whose middle `T` is the core of a formula
spelling (no letters but `x`/`y`, non-blank at both ends) and whose outer parts are DEAD (no character of
`xy<=≤`) keeps this shape through every stage (`Keeps`: strip, `!` removal, the two `replace`, the `is`
substitution only delete characters of `P` and `Q`), and the salvage pipeline ignores dead characters at
both ends. Hence the result is the key of `T`, and the flag is whatever the negation stage computed.
-/
import Paroxy.Proofs.NormalizeAbbrev
namespace Paroxy.NP
open Paroxy Paroxy.Spec Paroxy.Spec.NP

/-! ### Dead characters and the salvage pipeline -/

/-- No character of `xy<=≤`. -/
def Dead (s : Str) : Prop := ∀ c ∈ s, allowed c = false

theorem Dead.nil : Dead [] := fun _ hc => by cases hc

theorem Dead.append {a b : Str} (ha : Dead a) (hb : Dead b) : Dead (a ++ b) := by
  intro c hc
  rcases List.mem_append.mp hc with h | h
  · exact ha c h
  · exact hb c h

theorem Dead.sub {a b : Str} (hb : Dead b) (h : ∀ c ∈ a, c ∈ b) : Dead a := fun c hc => hb c (h c hc)

theorem Dead.ne {s : Str} (h : Dead s) (a : Nat) (ha : allowed a = true) : ∀ c ∈ s, c ≠ a := by
  intro c hc e
  have := h c hc
  rw [e, ha] at this
  cases this

theorem filter_dead {D : Str} (h : Dead D) : D.filter allowed = [] := by
  rw [List.filter_eq_nil_iff]
  intro c hc
  simp [h c hc]

theorem junk_dead {j : Str} (h : j.all junkChar = true) : Dead j := by
  intro c hc
  have := List.all_eq_true.mp h c hc
  simp only [junkChar, Bool.and_eq_true, Bool.not_eq_true', decide_eq_true_eq, Bool.and_eq_false_iff,
    decide_eq_false_iff_not, bne_iff_ne] at this
  simp only [allowed, Bool.or_eq_false_iff, beq_eq_false_iff_ne]
  omega

/-- `str.replace` of a two-character pattern does not look at a suffix that contains neither character. -/
theorem ra_append_dead (a b r : Nat) (D : Str) (hD : ∀ c ∈ D, c ≠ a ∧ c ≠ b) :
    ∀ (Y : Str) (n : Nat), n ≤ Y.length →
      replaceAll [a, b] [r] n (Y ++ D) = replaceAll [a, b] [r] n Y ++ D := by
  have hDa : replaceAll [a, b] [r] 0 D = D := ra_junk' a b r D (fun c hc => (hD c hc).1)
  intro Y
  induction Y with
  | nil =>
    intro n hn
    have : n = 0 := by simpa using hn
    subst this
    simpa [replaceAll] using hDa
  | cons c t ih =>
    intro n hn
    cases n with
    | succ m =>
      have hm : m ≤ t.length := by simpa using hn
      simp only [List.cons_append, replaceAll]
      exact ih m hm
    | zero =>
      cases t with
      | nil =>
        have hb : D.head? ≠ some b := by
          cases D with
          | nil => simp
          | cons d D' => simpa using (hD d List.mem_cons_self).2
        by_cases hc : c = a
        · subst hc
          rw [List.cons_append, List.nil_append, ra_miss _ _ _ _ hb, hDa, ra_miss _ _ _ [] (by simp)]
          rfl
        · rw [List.cons_append, List.nil_append, ra_other _ _ _ _ _ hc, ra_other _ _ _ _ _ hc, hDa]
          rfl
      | cons d t' =>
        by_cases hc : c = a
        · subst hc
          by_cases hd : d = b
          · subst hd
            have := ih 1 (by simp)
            simp only [List.cons_append, replaceAll] at this
            rw [List.cons_append, List.cons_append, ra_hit, ra_hit, this]
            rfl
          · have h0 := ih 0 (Nat.zero_le _)
            rw [List.cons_append, ra_miss _ _ _ _ (by simpa using hd), h0,
              ra_miss _ _ _ (d :: t') (by simpa using hd)]
            rfl
        · have h0 := ih 0 (Nat.zero_le _)
          rw [List.cons_append, ra_other _ _ _ _ _ hc, h0, ra_other _ _ _ _ _ hc]
          rfl

theorem salvage_dead_pre {D : Str} (h : Dead D) (Y : Str) : salvage (D ++ Y) = salvage Y := by
  have h60 := h.ne 60 rfl
  have h61 := h.ne 61 rfl
  simp only [salvage, ra_junk 60 61 8804 D Y h60, ra_junk 61 61 61 D _ h61, List.filter_append, filter_dead h,
    List.nil_append]

theorem salvage_dead_post {D : Str} (h : Dead D) (Y : Str) : salvage (Y ++ D) = salvage Y := by
  have h1 : ∀ c ∈ D, c ≠ 60 ∧ c ≠ 61 := fun c hc => ⟨h.ne 60 rfl c hc, h.ne 61 rfl c hc⟩
  have h2 : ∀ c ∈ D, c ≠ 61 ∧ c ≠ 61 := fun c hc => ⟨h.ne 61 rfl c hc, h.ne 61 rfl c hc⟩
  simp only [salvage, ra_append_dead 60 61 8804 D h1 Y 0 (Nat.zero_le _),
    ra_append_dead 61 61 61 D h2 _ 0 (Nat.zero_le _), List.filter_append, filter_dead h, List.append_nil]

/-! ### The dictionary stage needs only the salvaged text -/

/-- An entry of the dictionary is a canonical key bound to itself, or a name whose salvaged text is
not a key (it has not seven characters). -/
theorem names_len7 :
    names.all (fun p => (p.1 == p.2 && valueOk p.1) || (salvage p.1).length != 7) = true := by
  decide +kernel

theorem lookup_of_salvage {k : Key} (hk : k ∈ allKeys) {p : Str} (hs : salvage p = k.codes) (neg : Bool) :
    lookup names p neg = some (k.codes, neg) := by
  unfold lookup
  split
  · rename_i v hv
    have hm := dictGet?_mem hv
    have sh := List.all_eq_true.mp names_len7 _ hm
    simp only [Bool.or_eq_true, Bool.and_eq_true, beq_iff_eq, bne_iff_ne] at sh
    rcases sh with ⟨he, hvo⟩ | hl
    · obtain ⟨k', hk', hv'⟩ := valueOk_spec hvo
      rw [hv', salvage_key k' hk'] at hs
      rw [← he, hv', hs]
    · rw [hs] at hl
      exact absurd rfl hl
  · rw [hs]
    have := beq_iff_eq.mp (List.all_eq_true.mp names_keys k hk)
    rw [this]

/-! ### Scanners that only delete -/

theorem ra_del_mem (pat : Str) : ∀ (s : Str) (n : Nat) (c : Nat), c ∈ replaceAll pat [] n s → c ∈ s := by
  intro s
  induction s with
  | nil => intro n c h; cases n <;> simp [replaceAll] at h
  | cons d t ih =>
    intro n c h
    cases n with
    | succ m =>
      simp only [replaceAll] at h
      exact List.mem_cons_of_mem _ (ih m c h)
    | zero =>
      simp only [replaceAll] at h
      split at h
      · simp only [List.nil_append] at h
        exact List.mem_cons_of_mem _ (ih _ c h)
      · rcases List.mem_cons.mp h with rfl | h
        · exact List.mem_cons_self
        · exact List.mem_cons_of_mem _ (ih 0 c h)

theorem subIs_mem : ∀ (s : Str) (prev : Option Nat) (n : Nat) (c : Nat), c ∈ subIs prev n s → c ∈ s := by
  intro s
  induction s with
  | nil => intro prev n c h; cases n <;> simp [subIs] at h
  | cons d t ih =>
    intro prev n c h
    cases n with
    | succ m =>
      simp only [subIs] at h
      exact List.mem_cons_of_mem _ (ih _ m c h)
    | zero =>
      simp only [subIs] at h
      split at h <;> split at h <;> first
        | exact List.mem_cons_of_mem _ (ih _ _ c h)
        | (rcases List.mem_cons.mp h with rfl | h
           · exact List.mem_cons_self
           · exact List.mem_cons_of_mem _ (ih _ 0 c h))

theorem lstrip_mem (s : Str) : ∀ c ∈ lstrip s, c ∈ s := fun _ hc => (List.dropWhile_sublist _).subset hc

theorem rstrip_mem (s : Str) : ∀ c ∈ rstrip s, c ∈ s := by
  intro c hc
  unfold rstrip at hc
  exact List.mem_reverse.mp ((List.dropWhile_sublist _).subset (List.mem_reverse.mp hc))

/-- A four-character pattern that starts in `P` ends in `P` when the next character is none of its last
three. -/
theorem ra4_pre (p0 p1 p2 p3 t0 : Nat) (Z' : Str) (h1 : t0 ≠ p1) (h2 : t0 ≠ p2) (h3 : t0 ≠ p3) :
    ∀ (P : Str) (n : Nat), n ≤ P.length → ∃ P', (∀ c ∈ P', c ∈ P) ∧
      replaceAll [p0, p1, p2, p3] [] n (P ++ t0 :: Z') = P' ++ replaceAll [p0, p1, p2, p3] [] 0 (t0 :: Z') := by
  intro P
  induction P with
  | nil =>
    intro n hn
    have : n = 0 := by simpa using hn
    subst this
    exact ⟨[], fun _ h => h, rfl⟩
  | cons c P1 ih =>
    intro n hn
    cases n with
    | succ m =>
      obtain ⟨P', hs, he⟩ := ih m (by simpa using hn)
      refine ⟨P', fun x hx => List.mem_cons_of_mem _ (hs x hx), ?_⟩
      simp only [List.cons_append, replaceAll]
      exact he
    | zero =>
      by_cases hp : [p0, p1, p2, p3].isPrefixOf (c :: (P1 ++ t0 :: Z')) = true
      · have h3l : 3 ≤ P1.length := by
          rcases P1 with _ | ⟨a, _ | ⟨b, _ | ⟨d, P4⟩⟩⟩
          · simp [List.isPrefixOf] at hp; exact absurd hp.2.1.symm h1
          · simp [List.isPrefixOf] at hp; exact absurd hp.2.2.1.symm h2
          · simp [List.isPrefixOf] at hp; exact absurd hp.2.2.2.symm h3
          · simp
        obtain ⟨P', hs, he⟩ := ih 3 h3l
        refine ⟨P', fun x hx => List.mem_cons_of_mem _ (hs x hx), ?_⟩
        rw [List.cons_append]
        simp only [replaceAll, hp, if_true, List.nil_append]
        exact he
      · obtain ⟨P', hs, he⟩ := ih 0 (Nat.zero_le _)
        refine ⟨c :: P', ?_, ?_⟩
        · intro x hx
          rcases List.mem_cons.mp hx with rfl | hx
          · exact List.mem_cons_self
          · exact List.mem_cons_of_mem _ (hs x hx)
        · have e : replaceAll [p0, p1, p2, p3] [] 0 (c :: (P1 ++ t0 :: Z')) =
              c :: replaceAll [p0, p1, p2, p3] [] 0 (P1 ++ t0 :: Z') := by
            simp only [replaceAll, hp, Bool.false_eq_true, if_false]
          rw [List.cons_append, e, he]
          rfl

/-- `"not "` is not found in a text without `n`. -/
theorem raNotSp_pass (T Q : Str) (h : ∀ c ∈ T, c ≠ 110) :
    replaceAll sNotSp [] 0 (T ++ Q) = T ++ replaceAll sNotSp [] 0 Q := by
  induction T with
  | nil => rfl
  | cons c t ih =>
    have hc : c ≠ 110 := h c List.mem_cons_self
    have hb : (110 == c) = false := by simpa using Ne.symm hc
    have := ih (fun d hd => h d (List.mem_cons_of_mem _ hd))
    simp only [sNotSp] at this
    simp [replaceAll, sNotSp, List.isPrefixOf, hb, this]

/-- `" not"` is not found in a text without `n` that ends with a non-blank. -/
theorem raSpNot_pass (ys : Str) (d : Nat) (Q : Str) (h : ∀ c ∈ ys, c ≠ 110) (hd : d ≠ 110) (hd' : d ≠ 32) :
    replaceAll sSpNot [] 0 (ys ++ d :: Q) = ys ++ d :: replaceAll sSpNot [] 0 Q := by
  induction ys with
  | nil =>
    have hb : (32 == d) = false := by simpa using Ne.symm hd'
    simp [replaceAll, sSpNot, List.isPrefixOf, hb]
  | cons c t ih =>
    have ht : ∀ x ∈ t, x ≠ 110 := fun x hx => h x (List.mem_cons_of_mem _ hx)
    have hp : sSpNot.isPrefixOf (c :: (t ++ d :: Q)) = false := by
      cases t with
      | nil =>
        have hb : (110 == d) = false := by simpa using Ne.symm hd
        simp [sSpNot, List.isPrefixOf, hb]
      | cons e t' =>
        have : e ≠ 110 := ht e List.mem_cons_self
        have hb : (110 == e) = false := by simpa using Ne.symm this
        simp [sSpNot, List.isPrefixOf, hb]
    rw [List.cons_append]
    simp only [replaceAll, hp, Bool.false_eq_true, if_false]
    rw [ih ht]
    rfl

/-- A match of ` is\b|\bis ` that starts in `P` ends in `P` when the next character is none of `i`, `s`,
space. -/
theorem subIs_pre (t0 : Nat) (Z' : Str) (h1 : t0 ≠ 105) (h2 : t0 ≠ 115) (h3 : t0 ≠ 32) :
    ∀ (P : Str) (prev : Option Nat) (n : Nat), n ≤ P.length → ∃ P' prev', (∀ c ∈ P', c ∈ P) ∧
      subIs prev n (P ++ t0 :: Z') = P' ++ subIs prev' 0 (t0 :: Z') := by
  intro P
  induction P with
  | nil =>
    intro prev n hn
    have : n = 0 := by simpa using hn
    subst this
    exact ⟨[], prev, fun _ h => h, rfl⟩
  | cons c P1 ih =>
    intro prev n hn
    cases n with
    | succ m =>
      obtain ⟨P', pv, hs, he⟩ := ih (some c) m (by simpa using hn)
      refine ⟨P', pv, fun x hx => List.mem_cons_of_mem _ (hs x hx), ?_⟩
      simp only [List.cons_append, subIs]
      exact he
    | zero =>
      by_cases hp : ((c == 32 && [105, 115].isPrefixOf (P1 ++ t0 :: Z') && !headIsWord ((P1 ++ t0 :: Z').drop 2)) ||
          (c == 105 && [115, 32].isPrefixOf (P1 ++ t0 :: Z') &&
            !(match prev with | some p => isWord p | none => false))) = true
      · have h2l : 2 ≤ P1.length := by
          rcases P1 with _ | ⟨a, _ | ⟨b, P3⟩⟩
          · simp [List.isPrefixOf, h1.symm, h2.symm] at hp
          · simp [List.isPrefixOf, h2.symm, h3.symm] at hp
          · simp
        obtain ⟨P', pv, hs, he⟩ := ih (some c) 2 h2l
        refine ⟨P', pv, fun x hx => List.mem_cons_of_mem _ (hs x hx), ?_⟩
        have e : subIs prev 0 (c :: (P1 ++ t0 :: Z')) = subIs (some c) 2 (P1 ++ t0 :: Z') := by
          rw [subIs.eq_def]
          exact if_pos hp
        rw [List.cons_append, e, he]
      · obtain ⟨P', pv, hs, he⟩ := ih (some c) 0 (Nat.zero_le _)
        refine ⟨c :: P', pv, ?_, ?_⟩
        · intro x hx
          rcases List.mem_cons.mp hx with rfl | hx
          · exact List.mem_cons_self
          · exact List.mem_cons_of_mem _ (hs x hx)
        · have e : subIs prev 0 (c :: (P1 ++ t0 :: Z')) = c :: subIs (some c) 0 (P1 ++ t0 :: Z') := by
            rw [subIs.eq_def]
            exact if_neg hp
          rw [List.cons_append, e, he]
          rfl

/-- Neither alternative matches inside a text without `i` that ends with a non-blank. -/
theorem subIs_pass (ys : Str) (d : Nat) (Q : Str) (h : ∀ c ∈ ys, c ≠ 105) (hd : d ≠ 105) (hd' : d ≠ 32) :
    ∀ prev, ∃ prev', subIs prev 0 (ys ++ d :: Q) = ys ++ d :: subIs prev' 0 Q := by
  induction ys with
  | nil =>
    intro prev
    have hb : (d == 32) = false := by simpa using hd'
    have hb' : (d == 105) = false := by simpa using hd
    exact ⟨some d, by simp [subIs, hb, hb']⟩
  | cons c t ih =>
    intro prev
    have ht : ∀ x ∈ t, x ≠ 105 := fun x hx => h x (List.mem_cons_of_mem _ hx)
    have hc : c ≠ 105 := h c List.mem_cons_self
    have hb : (c == 105) = false := by simpa using hc
    have a1 : ([105, 115] : Str).isPrefixOf (t ++ d :: Q) = false := by
      cases t with
      | nil => simp [List.isPrefixOf, Ne.symm hd]
      | cons e t' =>
        have : e ≠ 105 := ht e List.mem_cons_self
        simp [List.isPrefixOf, Ne.symm this]
    obtain ⟨pv, he⟩ := ih ht (some c)
    exact ⟨pv, by simp [subIs, a1, hb, he]⟩

/-! ### The shape kept by every stage -/

/-- What the stages need to know about the middle part: characters of a formula spelling, non-blank at
both ends. -/
structure Mid (T : Str) : Prop where
  fch : T.all fchar = true
  hd : ∃ c r, T = c :: r ∧ isSpace c = false
  lst : ∃ ys d, T = ys ++ [d] ∧ isSpace d = false

theorem Core.mid {k : Key} {T : Str} (h : Core k T) : Mid T := ⟨h.fch, h.hd, h.lst⟩

/-- `p` is `T` between two dead strings. -/
def Keeps (T p : Str) : Prop := ∃ P Q, p = P ++ (T ++ Q) ∧ Dead P ∧ Dead Q

theorem fchar_ne' {c : Nat} (h : fchar c = true) : c ≠ 111 ∧ c ≠ 116 ∧ c ≠ 115 := by
  have := (fchar_ne h).2.2.2
  refine ⟨?_, ?_, ?_⟩ <;> (intro e; subst e; revert this; decide)

theorem Mid.ne {T : Str} (h : Mid T) : ∀ c ∈ T, c ≠ 110 ∧ c ≠ 105 ∧ c ≠ 33 := fun c hc =>
  let f := fchar_ne (List.all_eq_true.mp h.fch c hc)
  ⟨f.1, f.2.1, f.2.2.1⟩

theorem space32 {c : Nat} (h : isSpace c = false) : c ≠ 32 := by
  intro e; subst e; cases h

section keeps
variable {T : Str} (hT : Mid T)
include hT

theorem keeps_lstrip {p : Str} (hp : Keeps T p) : Keeps T (lstrip p) := by
  obtain ⟨P, Q, rfl, hP, hQ⟩ := hp
  obtain ⟨c, r, rfl, hc⟩ := hT.hd
  exact ⟨lstrip P, Q, lstrip_junk_cons P c (r ++ Q) hc, hP.sub (lstrip_mem P), hQ⟩

theorem keeps_rstrip {p : Str} (hp : Keeps T p) : Keeps T (rstrip p) := by
  obtain ⟨P, Q, rfl, hP, hQ⟩ := hp
  obtain ⟨ys, d, rfl, hd⟩ := hT.lst
  refine ⟨P, rstrip Q, ?_, hP, hQ.sub (rstrip_mem Q)⟩
  have := rstrip_append (P ++ ys) [d] Q (by simp) (by simpa using hd)
  simpa [List.append_assoc] using this

theorem keeps_bang {t : Str} (hp : Keeps T (33 :: t)) : Keeps T t := by
  obtain ⟨P, Q, e, hP, hQ⟩ := hp
  cases P with
  | nil =>
    obtain ⟨c, r, rfl, _⟩ := hT.hd
    have := (hT.ne c List.mem_cons_self).2.2
    simp only [List.nil_append, List.cons_append, List.cons.injEq] at e
    exact absurd e.1.symm this
  | cons a P1 =>
    simp only [List.cons_append, List.cons.injEq] at e
    exact ⟨P1, Q, e.2, fun c hc => hP c (List.mem_cons_of_mem _ hc), hQ⟩

theorem keeps_raNotSp {p : Str} (hp : Keeps T p) : Keeps T (replaceAll sNotSp [] 0 p) := by
  obtain ⟨P, Q, rfl, hP, hQ⟩ := hp
  obtain ⟨c, r, hcr, hc⟩ := hT.hd
  have hf : fchar c = true := List.all_eq_true.mp hT.fch c (by rw [hcr]; exact List.mem_cons_self)
  obtain ⟨P', hs, he⟩ := ra4_pre 110 111 116 32 c (r ++ Q) (fchar_ne' hf).1 (fchar_ne' hf).2.1 (space32 hc) P 0
    (Nat.zero_le _)
  refine ⟨P', replaceAll sNotSp [] 0 Q, ?_, hP.sub hs, hQ.sub (fun x hx => ra_del_mem _ _ _ _ hx)⟩
  have e2 := raNotSp_pass T Q (fun x hx => (hT.ne x hx).1)
  rw [hcr] at e2 ⊢
  exact he.trans (congrArg (P' ++ ·) e2)

theorem keeps_raSpNot {p : Str} (hp : Keeps T p) : Keeps T (replaceAll sSpNot [] 0 p) := by
  obtain ⟨P, Q, rfl, hP, hQ⟩ := hp
  obtain ⟨c, r, hcr, hc⟩ := hT.hd
  obtain ⟨ys, d, hyd, hd⟩ := hT.lst
  have hf : fchar c = true := List.all_eq_true.mp hT.fch c (by rw [hcr]; exact List.mem_cons_self)
  obtain ⟨P', hs, he⟩ := ra4_pre 32 110 111 116 c (r ++ Q) (fchar_ne hf).1 (fchar_ne' hf).1 (fchar_ne' hf).2.1 P 0
    (Nat.zero_le _)
  refine ⟨P', replaceAll sSpNot [] 0 Q, ?_, hP.sub hs, hQ.sub (fun x hx => ra_del_mem _ _ _ _ hx)⟩
  have e2 : replaceAll sSpNot [] 0 (T ++ Q) = T ++ replaceAll sSpNot [] 0 Q := by
    have := raSpNot_pass ys d Q (fun x hx => (hT.ne x (by rw [hyd]; simp [hx])).1)
      (hT.ne d (by rw [hyd]; simp)).1 (space32 hd)
    rw [hyd]
    simpa [List.append_assoc] using this
  have he' : replaceAll sSpNot [] 0 (P ++ (T ++ Q)) = P' ++ replaceAll sSpNot [] 0 (T ++ Q) := by
    rw [hcr]; exact he
  rw [he', e2]

theorem keeps_subIs {p : Str} (hp : Keeps T p) (prev : Option Nat) : Keeps T (subIs prev 0 p) := by
  obtain ⟨P, Q, rfl, hP, hQ⟩ := hp
  obtain ⟨c, r, hcr, hc⟩ := hT.hd
  obtain ⟨ys, d, hyd, hd⟩ := hT.lst
  have hf : fchar c = true := List.all_eq_true.mp hT.fch c (by rw [hcr]; exact List.mem_cons_self)
  obtain ⟨P', pv, hs, he⟩ := subIs_pre c (r ++ Q) (fchar_ne hf).2.1 (fchar_ne' hf).2.2 (space32 hc) P prev 0
    (Nat.zero_le _)
  obtain ⟨pv', e2⟩ := subIs_pass ys d Q (fun x hx => (hT.ne x (by rw [hyd]; simp [hx])).2.1)
      (hT.ne d (by rw [hyd]; simp)).2.1 (space32 hd) pv
  refine ⟨P', subIs pv' 0 Q, ?_, hP.sub hs, hQ.sub (fun x hx => subIs_mem _ _ _ _ hx)⟩
  have he' : subIs prev 0 (P ++ (T ++ Q)) = P' ++ subIs pv 0 (T ++ Q) := by
    rw [hcr]; exact he
  have e2' : subIs pv 0 (T ++ Q) = T ++ subIs pv' 0 Q := by
    rw [hyd]
    simpa [List.append_assoc] using e2
  rw [he', e2']

theorem keeps_negation {p : Str} (hp : Keeps T p) : Keeps T (negation p).1 := by
  unfold negation
  split
  · exact keeps_bang hT hp
  · split
    · exact keeps_raNotSp hT hp
    · split
      · exact keeps_raSpNot hT hp
      · exact hp

end keeps

/-- Everything after the negation stage, on a core between dead strings. -/
theorem finish_keeps {k : Key} (hk : k ∈ allKeys) {T : Str} (hT : Core k T) {p : Str} (hp : Keeps T p)
    (neg : Bool) : finish names p neg = some (k.codes, neg) := by
  rw [finish_eq]
  obtain ⟨P, Q, e, hP, hQ⟩ := keeps_subIs hT.mid (keeps_rstrip hT.mid (keeps_lstrip hT.mid hp)) none
  apply lookup_of_salvage hk
  have : strip p = rstrip (lstrip p) := rfl
  rw [this, e, salvage_dead_pre hP, salvage_dead_post hQ]
  have := hT.salv [] [] rfl rfl
  simpa using this

theorem negation_snd (p : Str) :
    (negation p).2 = (p.head? == some 33 || searchNot1 p || searchNot2 p) := by
  unfold negation
  split
  · simp
  · rename_i hne
    have h0 : (p.head? == some 33) = false := by
      cases p with
      | nil => rfl
      | cons c t =>
        have : c ≠ 33 := fun e => hne t (by rw [e])
        simpa using this
    rw [h0]
    by_cases h1 : searchNot1 p = true
    · simp [h1]
    · by_cases h2 : searchNot2 p = true
      · simp [h1, h2]
      · simp [h1, h2]

theorem hasNotWs_eq : ∀ s : Str, hasNotWs s = searchNot1 s := by
  intro s
  induction s with
  | nil => rfl
  | cons c t ih =>
    simp only [hasNotWs, searchNot1, ih]
    generalize List.drop 3 (c :: t) = l
    cases l <;> rfl

theorem hasWsNot_eq : ∀ s : Str, hasWsNot s = searchNot2 s := by
  intro s
  induction s with
  | nil => rfl
  | cons c t ih => simp only [hasWsNot, searchNot2, ih]

/-- **Normalisation lemma.** A core between two dead strings resolves to its key, with the flag of the
property's clause. -/
theorem keeps_normalizeLow {k : Key} (hk : k ∈ allKeys) {T : Str} (hT : Core k T) {p : Str} (hp : Keeps T p) :
    normalizeLow names p = some (k.codes, p.head? == some 33 || hasNotWs p || hasWsNot p) := by
  rw [hasNotWs_eq, hasWsNot_eq, ← negation_snd]
  exact finish_keeps hk hT (keeps_negation hT.mid hp) _

theorem deco_dead {P : Str} (h : P.all decoChar = true) : Dead (lower P) := by
  intro c hc
  obtain ⟨a, ha, rfl⟩ := List.mem_map.mp hc
  have := List.all_eq_true.mp h a ha
  simp only [decoChar, isSpace, Bool.or_eq_true, beq_iff_eq, Bool.and_eq_true, decide_eq_true_eq] at this
  simp only [allowed, lowerC, Bool.or_eq_false_iff, beq_eq_false_iff_ne]
  split <;> omega

/-- Any decoration text around any text whose lower-casing is a body. -/
theorem spaced_body {k : Key} (hk : k ∈ allKeys) {R : Str} (hR : Body k (lower R)) {P Q : Str}
    (hP : P.all decoChar = true) (hQ : Q.all decoChar = true) :
    normalize names (P ++ R ++ Q) = some (k.codes, carriesNeg (P ++ R ++ Q)) := by
  obtain ⟨a, T, b, e, ha, hb, hT⟩ := hR
  have h0 : Keeps T (lower (P ++ R ++ Q)) := by
    refine ⟨lower P ++ a, b ++ lower Q, ?_, (deco_dead hP).append (junk_dead ha), (junk_dead hb).append (deco_dead hQ)⟩
    rw [lower_append, lower_append, e]
    simp [List.append_assoc]
  have h1 : Keeps T (strip (lower (P ++ R ++ Q))) := keeps_rstrip hT.mid (keeps_lstrip hT.mid h0)
  rw [normalize_eq, keeps_normalizeLow hk hT h1]
  rfl

/-! ### A full formula spelling is a body (a chain of three links) -/

def formulaLinks (k : Key) (st : FormulaStyle) : List Link :=
  [⟨st.j1, k.o1, st.p1, st.j2, k.l2, st.s2⟩, ⟨st.j3, k.o2, st.p2, st.j4, k.l3, st.s3⟩,
   ⟨st.j5, k.o3, st.p3, st.j6, k.l4, st.s4⟩]

theorem formula_chain (k : Key) (st : FormulaStyle) :
    renderFormula k st = st.j0 ++ (renderChain k.l1 st.s1 (formulaLinks k st) ++ st.j7) := by
  simp [renderFormula, renderChain, formulaLinks, List.append_assoc]

theorem body_formula (k : Key) (hk : k ∈ allKeys) (st : FormulaStyle) (ok : StyleOk st)
    (hl : isLowerStyle st = true) : Body k (renderFormula k st) := by
  simp only [isLowerStyle, Bool.and_eq_true, Bool.not_eq_true'] at hl
  obtain ⟨⟨⟨h1, h2⟩, h3⟩, h4⟩ := hl
  refine ⟨st.j0, _, st.j7, ?_, ok.j0, ok.j7, core_chain k.l1 st.s1 (formulaLinks k st) ok.i1
    ⟨ok.j1, ok.j2, ok.i2, ok.j3, ok.j4, ok.i3, ok.j5, ok.j6, ok.i4, trivial⟩ ?_⟩
  · rw [formula_chain, renderChain_eq _ _ _ h1 (by simp [formulaLinks, linksLower, h2, h3, h4])]
  · obtain ⟨e1, e2, e3⟩ := expand_balanced k hk
    show expandStep k.codes = k.codes
    unfold expandStep
    simp [e2, e3, e1]

theorem body_lower_formula (k : Key) (hk : k ∈ allKeys) (st : FormulaStyle) (ok : StyleOk st) :
    Body k (lower (renderFormula k st)) := by
  rw [lower_formula k st ok]
  exact body_formula k hk _ (styleOk_low ok) (isLower_low st)

/-! ### Names: only the white space AFTER the literal space of `not ` (and after `!`) is tolerated -/

theorem lstrip_ws_app {W : Str} (h : W.all isSpace = true) (X : Str) : lstrip (W ++ X) = lstrip X := by
  induction W with
  | nil => rfl
  | cons c t ih =>
    simp only [List.all_cons, Bool.and_eq_true] at h
    simp only [lstrip, List.cons_append, List.dropWhile_cons, h.1, if_true]
    exact ih h.2

theorem finish_ws_app (nm : List (Codes × Codes)) {W : Str} (h : W.all isSpace = true) (X : Str) (neg : Bool) :
    finish nm (W ++ X) neg = finish nm X neg := by
  rw [finish_eq, finish_eq]
  unfold strip
  rw [lstrip_ws_app h]

/-- `not ` + extra white space + `X` goes where `not ` + `X` goes (any `X`). -/
theorem normalizeLow_not_ws (nm : List (Codes × Codes)) {W : Str} (h : W.all isSpace = true) (X : Str) :
    normalizeLow nm (sNotSp ++ (W ++ X)) = normalizeLow nm (sNotSp ++ X) := by
  have hn : ∀ Y : Str, negation (sNotSp ++ Y) = (replaceAll sNotSp [] 0 Y, true) := by
    intro Y
    simp [negation, sNotSp, searchNot1, sNot, List.isPrefixOf, isSpace, replaceAll]
  have hW : ∀ c ∈ W, c ≠ 110 := fun c hc => (clean_ne (ws_clean h) c hc).1
  unfold normalizeLow
  rw [hn, hn]
  simp only
  rw [raNotSp_pass W X hW, finish_ws_app nm h]

/-- `!` + any white space + `X` goes where `!` + `X` goes. -/
theorem normalizeLow_bang_ws (nm : List (Codes × Codes)) {W : Str} (h : W.all isSpace = true) (X : Str) :
    normalizeLow nm (33 :: (W ++ X)) = normalizeLow nm (33 :: X) := by
  unfold normalizeLow
  rw [negation_bang, negation_bang]
  exact finish_ws_app nm h X true

theorem tight_last {X : Str} (h : tight X = true) : ∃ ys d, X = ys ++ [d] ∧ isSpace d = false := by
  unfold tight at h
  simp only [Bool.and_eq_true] at h
  obtain ⟨_, hd⟩ := h
  split at hd
  · rename_i d hlast
    obtain ⟨ys, hys⟩ := List.getLast?_eq_some_iff.mp hlast
    exact ⟨ys, d, hys, by simpa using hd⟩
  · cases hd

theorem aliases_tight : aliases.all (fun p => tight p.1) = true := by decide +kernel

/-- Names with extra white space after `not ` / after `!`: `w` any case spelling of the name. -/
theorem name_not_spaced (n : Codes) (k : Key) (h : (n, k) ∈ aliases) {w ws ws' wN W : Str} (hw : lower w = n)
    (hN : lower wN = sNot) (hws : ws.all isSpace = true) (hws' : ws'.all isSpace = true)
    (hW : W.all isSpace = true) :
    normalize names (ws ++ wN ++ 32 :: W ++ w ++ ws') = some (k.codes, true) := by
  obtain ⟨ys, d, hyd, hd⟩ := tight_last (List.all_eq_true.mp aliases_tight (n, k) h)
  have row := List.all_eq_true.mp (nameTable (codesOf "not ", codesOf "", true) (by decide +kernel)) (n, k) h
  simp only [Bool.and_eq_true, beq_iff_eq] at row
  have c1 : codesOf "not " = sNotSp := by decide +kernel
  have c2 : codesOf "" = [] := by decide +kernel
  rw [c1, c2, List.append_nil] at row
  replace hyd : n = ys ++ [d] := hyd
  subst hyd
  have e0 : strip (lower (ws ++ wN ++ 32 :: W ++ w ++ ws')) = sNotSp ++ (W ++ (ys ++ [d])) := by
    have : lower (ws ++ wN ++ 32 :: W ++ w ++ ws') = ws ++ 110 :: ((111 :: 116 :: 32 :: W ++ ys) ++ d :: ws') := by
      simp [lower_append, lower_cons, lower_ws hws, lower_ws hws', lower_ws hW, hN, hw, sNot, lowerC]
    unfold strip
    rw [this, lstrip_ws_cons hws _ _ (by rfl)]
    have := rstrip_snoc_ws (110 :: (111 :: 116 :: 32 :: W ++ ys)) d hws' hd
    simpa [sNotSp] using this
  rw [normalize_eq, e0, normalizeLow_not_ws names hW]
  simpa using row.2

theorem name_bang_spaced (n : Codes) (k : Key) (h : (n, k) ∈ aliases) {w ws ws' W : Str} (hw : lower w = n)
    (hws : ws.all isSpace = true) (hws' : ws'.all isSpace = true) (hW : W.all isSpace = true) :
    normalize names (ws ++ 33 :: W ++ w ++ ws') = some (k.codes, true) := by
  obtain ⟨ys, d, hyd, hd⟩ := tight_last (List.all_eq_true.mp aliases_tight (n, k) h)
  have row := List.all_eq_true.mp (nameTable (codesOf "!", codesOf "", true) (by decide +kernel)) (n, k) h
  simp only [Bool.and_eq_true, beq_iff_eq] at row
  have c1 : codesOf "!" = [33] := by decide +kernel
  have c2 : codesOf "" = [] := by decide +kernel
  rw [c1, c2, List.append_nil] at row
  replace hyd : n = ys ++ [d] := hyd
  subst hyd
  have e0 : strip (lower (ws ++ 33 :: W ++ w ++ ws')) = 33 :: (W ++ (ys ++ [d])) := by
    have : lower (ws ++ 33 :: W ++ w ++ ws') = ws ++ 33 :: ((W ++ ys) ++ d :: ws') := by
      simp [lower_append, lower_cons, lower_ws hws, lower_ws hws', lower_ws hW, hw, lowerC]
    unfold strip
    rw [this, lstrip_ws_cons hws _ _ (by rfl)]
    have := rstrip_snoc_ws (33 :: (W ++ ys)) d hws' hd
    simpa using this
  rw [normalize_eq, e0, normalizeLow_bang_ws names hW]
  simpa using row.2

/-! ### The flag a spaced decoration carries by construction is the flag of the property's clause -/

def carries' (L : Str) : Bool := (strip L).head? == some 33 || hasNotWs (strip L) || hasWsNot (strip L)

theorem carriesNeg_eq (s : Str) : carriesNeg s = carries' (lower s) := rfl

theorem searchNot1_mid (A B : Str) {c : Nat} (hc : isSpace c = true) :
    searchNot1 (A ++ sNot ++ c :: B) = true := by
  induction A with
  | nil => simp [searchNot1, sNot, List.isPrefixOf, hc]
  | cons a t ih =>
    simp only [List.cons_append, searchNot1, Bool.or_eq_true]
    exact Or.inr ih

theorem searchNot2_mid (A B : Str) {c : Nat} (hc : isSpace c = true) :
    searchNot2 (A ++ c :: (sNot ++ B)) = true := by
  induction A with
  | nil => simp [searchNot2, sNot, List.isPrefixOf, hc]
  | cons a t ih =>
    simp only [List.cons_append, searchNot2, Bool.or_eq_true]
    exact Or.inr ih

theorem flag_bang {ws : Str} (hws : ws.all isSpace = true) (rest : Str) : carries' (ws ++ 33 :: rest) = true := by
  have : strip (ws ++ 33 :: rest) = 33 :: rstrip rest := by
    unfold strip
    rw [lstrip_ws_cons hws _ _ (by rfl)]
    have := rstrip_append [] [33] rest (by simp) (by simp [isSpace])
    simpa using this
  simp [carries', this]

theorem flag_not1 (A B : Str) {c : Nat} (hc : isSpace c = true) (hB : ∃ x ∈ B, isSpace x = false) :
    carries' (A ++ sNot ++ c :: B) = true := by
  have : strip (A ++ sNot ++ c :: B) = lstrip A ++ sNot ++ c :: rstrip B := by
    unfold strip
    have e1 : A ++ sNot ++ c :: B = A ++ 110 :: (111 :: 116 :: c :: B) := by simp [sNot]
    rw [e1, lstrip_junk_cons _ _ _ (by rfl)]
    have := rstrip_app_of_nonspace hB (lstrip A ++ [110, 111, 116, c])
    simpa [sNot] using this
  unfold carries'
  rw [this, hasNotWs_eq, searchNot1_mid _ _ hc]
  simp

theorem flag_not2 (A B : Str) {c : Nat} (hc : isSpace c = true) (hA : ∃ x ∈ A, isSpace x = false) :
    carries' (A ++ c :: (sNot ++ B)) = true := by
  have : strip (A ++ c :: (sNot ++ B)) = lstrip A ++ c :: (sNot ++ rstrip B) := by
    unfold strip
    rw [lstrip_app_of_nonspace hA]
    have := rstrip_append (lstrip A ++ [c, 110, 111]) [116] B (by simp) (by simp [isSpace])
    simpa [sNot] using this
  unfold carries'
  rw [this, hasWsNot_eq, searchNot2_mid _ _ hc]
  simp

theorem flag_none (L : Str) (h : L.all clean = true) : carries' L = false := by
  have hs : ∀ x ∈ strip L, x ≠ 110 ∧ x ≠ 33 := fun x hx => clean_ne h x (lstrip_mem _ x (rstrip_mem _ x hx))
  unfold carries'
  rw [hasNotWs_eq, hasWsNot_eq, searchNot1_false _ (fun x hx => (hs x hx).1),
    searchNot2_false _ (fun x hx => (hs x hx).1)]
  cases hh : strip L with
  | nil => rfl
  | cons a t =>
    have := (hs a (by rw [hh]; exact List.mem_cons_self)).2
    simp [this]

theorem word_cases {w : SpWord} (h : w.ok = true) :
    (lower w.word = sNot ∨ lower w.word = sIs) ∧ w.ws.all isSpace = true ∧ w.ws ≠ [] := by
  simp only [SpWord.ok, Bool.and_eq_true, Bool.or_eq_true, beq_iff_eq, Bool.not_eq_true'] at h
  refine ⟨h.1.1, h.1.2, ?_⟩
  intro e
  rw [e] at h
  simp at h

theorem flat_clean (l : List SpWord) (f : SpWord → Str) (h : ∀ w ∈ l, (lower (f w)).all clean = true) :
    (lower (l.flatMap f)).all clean = true := by
  induction l with
  | nil => rfl
  | cons w t ih =>
    simp only [List.flatMap_cons, lower_append, List.all_append]
    rw [h w List.mem_cons_self, ih (fun x hx => h x (List.mem_cons_of_mem _ hx))]
    rfl

theorem word_clean {w : SpWord} (h : w.ok = true) (hn : w.isNot = false) :
    (lower w.word).all clean = true ∧ (lower w.ws).all clean = true := by
  obtain ⟨h1, h2, _⟩ := word_cases h
  refine ⟨?_, by rw [lower_ws h2]; exact ws_clean h2⟩
  rcases h1 with h1 | h1
  · simp [SpWord.isNot, h1] at hn
  · rw [h1]; rfl

/-- **The flag of a spaced decoration.** Around a text whose lower-casing has no `n`, no `!` and a non-blank
character, the property's clause gives exactly the flag the decoration carries: `!`, a prefix `not<ws>`
or a suffix `<ws>not`. -/
theorem spaced_flag (d : Spaced) (hd : d.ok = true) {R : Str} (hR : (lower R).all clean = true)
    (hns : ∃ x ∈ lower R, isSpace x = false) : carriesNeg (renderSpaced d R) = d.neg := by
  simp only [Spaced.ok, Bool.and_eq_true] at hd
  obtain ⟨⟨⟨⟨hL, hRr⟩, hb⟩, hpre⟩, hpost⟩ := hd
  obtain ⟨x, hx, hxs⟩ := hns
  rw [carriesNeg_eq]
  unfold renderSpaced Spaced.before Spaced.after Spaced.neg
  cases hbang : d.bang with
  | some w =>
    rw [hbang] at hb
    have e : lower (d.outerL ++ (33 :: w) ++ (d.pre.flatMap fun w => w.word ++ w.ws) ++ R ++
        ((d.post.flatMap fun w => w.ws ++ w.word) ++ d.outerR)) =
        d.outerL ++ 33 :: lower (w ++ (d.pre.flatMap fun w => w.word ++ w.ws) ++ R ++
        ((d.post.flatMap fun w => w.ws ++ w.word) ++ d.outerR)) := by
      simp [lower_append, lower_cons, lower_ws hL, lowerC]
    simp only
    rw [e, flag_bang hL]
    rfl
  | none =>
    simp only [List.append_nil, Option.isSome_none, Bool.false_or]
    by_cases h1 : d.pre.any SpWord.isNot = true
    · obtain ⟨w, hw, hn⟩ := List.any_eq_true.mp h1
      obtain ⟨s, t, e⟩ := List.append_of_mem hw
      obtain ⟨_, hws, hne⟩ := word_cases (List.all_eq_true.mp hpre w hw)
      have hN : lower w.word = sNot := by simpa [SpWord.isNot] using hn
      obtain ⟨c, ws', hcw⟩ := List.exists_cons_of_ne_nil hne
      have hc : isSpace c = true := by
        rw [hcw] at hws; simp only [List.all_cons, Bool.and_eq_true] at hws; exact hws.1
      have hlw : lower w.ws = c :: lower ws' := by
        rw [lower_ws hws, hcw]
        rw [hcw] at hws; simp only [List.all_cons, Bool.and_eq_true] at hws
        rw [lower_ws hws.2]
      rw [h1, e]
      simp only [List.flatMap_append, List.flatMap_cons, lower_append, hN, hlw]
      have := flag_not1 (lower d.outerL ++ lower (s.flatMap fun w => w.word ++ w.ws))
        (lower ws' ++ (lower (t.flatMap fun w => w.word ++ w.ws) ++ (lower R ++
          (lower (d.post.flatMap fun w => w.ws ++ w.word) ++ lower d.outerR)))) hc ⟨x, by simp [hx], hxs⟩
      simpa [List.append_assoc] using this
    · by_cases h2 : d.post.any SpWord.isNot = true
      · obtain ⟨w, hw, hn⟩ := List.any_eq_true.mp h2
        obtain ⟨s, t, e⟩ := List.append_of_mem hw
        obtain ⟨_, hws, hne⟩ := word_cases (List.all_eq_true.mp hpost w hw)
        have hN : lower w.word = sNot := by simpa [SpWord.isNot] using hn
        rcases List.eq_nil_or_concat w.ws with h0 | ⟨ws', c, hcw⟩
        · exact absurd h0 hne
        · rw [List.concat_eq_append] at hcw
          have hc : isSpace c = true := by
            rw [hcw] at hws; simp only [List.all_append, List.all_cons, Bool.and_eq_true] at hws; exact hws.2.1
          have hlw : lower w.ws = lower ws' ++ [c] := by
            rw [lower_ws hws, hcw]
            rw [hcw] at hws; simp only [List.all_append, Bool.and_eq_true] at hws
            rw [lower_ws hws.1]
          rw [h2, e]
          simp only [List.flatMap_append, List.flatMap_cons, lower_append, hN, hlw]
          have := flag_not2 (lower d.outerL ++ (lower (d.pre.flatMap fun w => w.word ++ w.ws) ++ (lower R ++
            (lower (s.flatMap fun w => w.ws ++ w.word) ++ lower ws'))))
            (lower (t.flatMap fun w => w.ws ++ w.word) ++ lower d.outerR) hc ⟨x, by simp [hx], hxs⟩
          simpa [List.append_assoc] using this
      · have h1' : d.pre.any SpWord.isNot = false := by simpa using h1
        have h2' : d.post.any SpWord.isNot = false := by simpa using h2
        rw [h1', h2']
        apply flag_none
        have hp : ∀ w ∈ d.pre, (lower (w.word ++ w.ws)).all clean = true := by
          intro w hw
          have hn : w.isNot = false := by
            have := List.any_eq_false.mp h1' w hw
            simpa using this
          obtain ⟨a, b⟩ := word_clean (List.all_eq_true.mp hpre w hw) hn
          rw [lower_append, List.all_append, a, b]; rfl
        have hq : ∀ w ∈ d.post, (lower (w.ws ++ w.word)).all clean = true := by
          intro w hw
          have hn : w.isNot = false := by
            have := List.any_eq_false.mp h2' w hw
            simpa using this
          obtain ⟨a, b⟩ := word_clean (List.all_eq_true.mp hpost w hw) hn
          rw [lower_append, List.all_append, a, b]; rfl
        simp only [lower_append, List.all_append, flat_clean _ _ hp, flat_clean _ _ hq, hR, lower_ws hL, lower_ws hRr,
          ws_clean hL, ws_clean hRr, Bool.and_self]

/-! ### What surrounds the body in a spaced rendering is a decoration text -/

theorem lowerC_deco {a : Nat}
    (h : lowerC a = 110 ∨ lowerC a = 111 ∨ lowerC a = 116 ∨ lowerC a = 105 ∨ lowerC a = 115) :
    decoChar a = true := by
  unfold lowerC at h
  simp only [decoChar, isSpace, Bool.or_eq_true, beq_iff_eq, Bool.and_eq_true, decide_eq_true_eq]
  split at h <;> omega

theorem ws_deco {l : Str} (h : l.all isSpace = true) : l.all decoChar = true := by
  rw [List.all_eq_true] at *
  intro c hc
  simp [decoChar, h c hc]

theorem word_deco {w : Str} (h : lower w = sNot ∨ lower w = sIs) : w.all decoChar = true := by
  rw [List.all_eq_true]
  intro a ha
  have hm : lowerC a ∈ lower w := List.mem_map_of_mem ha
  apply lowerC_deco
  rcases h with h | h <;> (rw [h] at hm; simp [sNot, sIs] at hm; omega)

theorem flat_all (l : List SpWord) (f : SpWord → Str) (p : Nat → Bool) (h : ∀ w ∈ l, (f w).all p = true) :
    (l.flatMap f).all p = true := by
  induction l with
  | nil => rfl
  | cons w t ih =>
    simp only [List.flatMap_cons, List.all_append]
    rw [h w List.mem_cons_self, ih (fun x hx => h x (List.mem_cons_of_mem _ hx))]
    rfl

theorem spaced_deco (d : Spaced) (hd : d.ok = true) :
    d.before.all decoChar = true ∧ d.after.all decoChar = true := by
  simp only [Spaced.ok, Bool.and_eq_true] at hd
  obtain ⟨⟨⟨⟨hL, hRr⟩, hb⟩, hpre⟩, hpost⟩ := hd
  have hp : ∀ w ∈ d.pre, (w.word ++ w.ws).all decoChar = true := by
    intro w hw
    obtain ⟨a, b, _⟩ := word_cases (List.all_eq_true.mp hpre w hw)
    rw [List.all_append, word_deco a, ws_deco b]; rfl
  have hq : ∀ w ∈ d.post, (w.ws ++ w.word).all decoChar = true := by
    intro w hw
    obtain ⟨a, b, _⟩ := word_cases (List.all_eq_true.mp hpost w hw)
    rw [List.all_append, word_deco a, ws_deco b]; rfl
  constructor
  · unfold Spaced.before
    cases hh : d.bang with
    | none =>
      simp only [List.append_nil]
      rw [List.all_append, ws_deco hL, flat_all _ _ _ hp]; rfl
    | some w =>
      rw [hh] at hb
      simp only at hb ⊢
      rw [List.all_append, List.all_append, ws_deco hL, flat_all _ _ _ hp, List.all_cons, ws_deco hb]; rfl
  · unfold Spaced.after
    rw [List.all_append, flat_all _ _ _ hq, ws_deco hRr]; rfl

/-- A spaced decoration around a text whose lower-casing is a body: the key, and the flag the decoration
carries. -/
theorem spaced_render {k : Key} (hk : k ∈ allKeys) {R : Str} (hR : Body k (lower R)) (d : Spaced)
    (hd : d.ok = true) : normalize names (renderSpaced d R) = some (k.codes, d.neg) := by
  obtain ⟨h1, h2⟩ := spaced_deco d hd
  have := spaced_body hk hR h1 h2
  rw [← spaced_flag d hd (body_clean hR) (body_nonspace hR)]
  exact this

/-! ### Names followed by white space and ` not` -/

/-- `not` occurs nowhere in the text. -/
def noNot : Str → Bool
  | [] => true
  | c :: t => !sNot.isPrefixOf (c :: t) && noNot t

theorem space_ne {z : Nat} (h : isSpace z = true) : z ≠ 110 ∧ z ≠ 111 ∧ z ≠ 116 := by
  simp only [isSpace, Bool.or_eq_true, beq_iff_eq, Bool.and_eq_true, decide_eq_true_eq] at h
  omega

theorem isPrefix_sNot_app (t' : Str) (z0 : Nat) (Z' : Str) (hz : isSpace z0 = true) :
    sNot.isPrefixOf (t' ++ z0 :: Z') = sNot.isPrefixOf t' := by
  obtain ⟨h0, h1, h2⟩ := space_ne hz
  rcases t' with _ | ⟨a, _ | ⟨b, _ | ⟨c, r⟩⟩⟩ <;> simp [sNot, List.isPrefixOf, h0.symm, h1.symm, h2.symm]

theorem noNot_head {t : Str} (h : noNot t = true) : sNot.isPrefixOf t = false := by
  cases t with
  | nil => rfl
  | cons d t' =>
    simp only [noNot, Bool.and_eq_true, Bool.not_eq_true'] at h
    exact h.1

theorem searchNot1_noNot (n : Str) (hn : noNot n = true) (z0 : Nat) (Z' : Str) (hz : isSpace z0 = true) :
    searchNot1 (n ++ z0 :: Z') = searchNot1 (z0 :: Z') := by
  induction n with
  | nil => rfl
  | cons c t ih =>
    have h1 := noNot_head hn
    simp only [noNot, Bool.and_eq_true, Bool.not_eq_true'] at hn
    have h2 := isPrefix_sNot_app (c :: t) z0 Z' hz
    rw [h1] at h2
    rw [List.cons_append, searchNot1, ← List.cons_append, h2, ih hn.2]
    rfl

theorem raSpNot_noNot (n : Str) (hn : noNot n = true) (z0 : Nat) (Z' : Str) (hz : isSpace z0 = true) :
    replaceAll sSpNot [] 0 (n ++ z0 :: Z') = n ++ replaceAll sSpNot [] 0 (z0 :: Z') := by
  induction n with
  | nil => rfl
  | cons c t ih =>
    simp only [noNot, Bool.and_eq_true, Bool.not_eq_true'] at hn
    have hp : sSpNot.isPrefixOf (c :: (t ++ z0 :: Z')) = false := by
      have : sSpNot.isPrefixOf (c :: (t ++ z0 :: Z')) = ((32 == c) && sNot.isPrefixOf (t ++ z0 :: Z')) := by
        simp [sSpNot, sNot, List.isPrefixOf]
      rw [this, isPrefix_sNot_app t z0 Z' hz, noNot_head hn.2]
      simp
    rw [List.cons_append]
    simp only [replaceAll, hp, Bool.false_eq_true, if_false]
    rw [ih hn.2]
    rfl

def nameOk (p : Codes × Key) : Bool :=
  tight p.1 && noNot p.1 && p.1.head? != some 33 && finish names p.1 true == some (p.2.codes, true)

theorem aliases_nameOk : aliases.all nameOk = true := by decide +kernel

/-- `name<W>␣not`: any white space before the literal space of ` not`. -/
theorem name_not_suffix_spaced (n : Codes) (k : Key) (h : (n, k) ∈ aliases) {w ws ws' wN W : Str}
    (hw : lower w = n) (hN : lower wN = sNot) (hws : ws.all isSpace = true) (hws' : ws'.all isSpace = true)
    (hW : W.all isSpace = true) :
    normalize names (ws ++ w ++ W ++ 32 :: wN ++ ws') = some (k.codes, true) := by
  have ok := List.all_eq_true.mp aliases_nameOk (n, k) h
  simp only [nameOk, Bool.and_eq_true, beq_iff_eq, bne_iff_ne] at ok
  obtain ⟨⟨⟨htight, hnn⟩, hbang⟩, hfin⟩ := ok
  have hWn : ∀ c ∈ W, c ≠ 110 := fun c hc => (clean_ne (ws_clean hW) c hc).1
  -- the stripped lower-cased text
  have e0 : strip (lower (ws ++ w ++ W ++ 32 :: wN ++ ws')) = n ++ (W ++ sSpNot) := by
    have hX : tight (n ++ (W ++ sSpNot)) = true := by
      unfold tight at htight ⊢
      simp only [Bool.and_eq_true] at htight ⊢
      refine ⟨?_, ?_⟩
      · cases n with
        | nil => simp at htight
        | cons a r => simpa using htight.1
      · simp [sSpNot, List.getLast?_append, isSpace]
    have : lower (ws ++ w ++ W ++ 32 :: wN ++ ws') = ws ++ (n ++ (W ++ sSpNot)) ++ ws' := by
      simp [lower_append, lower_cons, lower_ws hws, lower_ws hws', lower_ws hW, hN, hw, sNot, sSpNot, lowerC]
    rw [this, strip_tight hws hws' hX]
  -- the text after the name starts with a white-space character
  obtain ⟨z0, Z', hZ, hz⟩ : ∃ z0 Z', W ++ sSpNot = z0 :: Z' ∧ isSpace z0 = true := by
    cases W with
    | nil => exact ⟨32, [110, 111, 116], rfl, rfl⟩
    | cons a W' =>
      simp only [List.all_cons, Bool.and_eq_true] at hW
      exact ⟨a, W' ++ sSpNot, rfl, hW.1⟩
  have hneg : negation (n ++ (W ++ sSpNot)) = (n ++ W, true) := by
    have hb : ∀ t, n ++ (W ++ sSpNot) ≠ 33 :: t := by
      intro t e
      cases n with
      | nil => simp [tight] at htight
      | cons a r =>
        simp only [List.cons_append, List.cons.injEq] at e
        exact hbang (by simp [e.1])
    have s1 : searchNot1 (n ++ (W ++ sSpNot)) = false := by
      rw [hZ, searchNot1_noNot n hnn z0 Z' hz, ← hZ]
      exact searchNot1_tail W hWn
    have s2 : searchNot2 (n ++ (W ++ sSpNot)) = true := by
      have := searchNot2_mid (n ++ W) [] (c := 32) rfl
      simpa [sSpNot, sNot, List.append_assoc] using this
    have r2 : replaceAll sSpNot [] 0 (n ++ (W ++ sSpNot)) = n ++ W := by
      rw [hZ, raSpNot_noNot n hnn z0 Z' hz, ← hZ, raSpNot_tail W hWn]
    unfold negation
    split
    · rename_i t e; exact absurd e (hb t)
    · rw [s1, s2, r2]; rfl
  have hfinW : finish names (n ++ W) true = finish names n true := by
    obtain ⟨ys, d, hyd, hd⟩ := tight_last htight
    rw [finish_eq, finish_eq]
    have e1 : strip (n ++ W) = n := by
      have := strip_tight (ws := []) (ws' := W) rfl hW htight
      simpa using this
    have e2 : strip n = n := by
      have := strip_tight (ws := []) (ws' := []) rfl rfl htight
      simpa using this
    rw [e1, e2]
  rw [normalize_eq, e0]
  unfold normalizeLow
  rw [hneg]
  simp only
  rw [hfinW]
  exact hfin

end Paroxy.NP
