/-
C15 / C01 / C02 helper lemmas: the escaping of `_pos=` in terminal values (fix b1d74a8).
-/
import Paroxy.Proofs.FlatAlias
namespace Paroxy.Flat

/-! ## Escaping at dump time = dumping the escaped tree -/

theorem length_escapeItems : ∀ xs : List Val, (escapeItems xs).length = xs.length
  | [] => rfl
  | x :: xs => by simp [escapeItems, length_escapeItems xs]

mutual
theorem dumpPE_eq (h : Str → Str) : ∀ (v : Val) (pre path : Str),
    dumpPE h pre path v = dumpP h pre path (escapeTree v)
  | .node ty e r ln fs, pre, path => by
    simp only [dumpPE, dumpP, escapeTree, dumpPEFields_eq h fs pre path 0]
  | .list q xs, pre, path => by
    have hl := length_escapeItems xs
    simp only [dumpPE, dumpP, escapeTree, dumpPEItems_eq h xs pre path 1, hl]
  | .scalar r k, pre, path => by simp [dumpPE, dumpP, escapeTree]
theorem dumpPEFields_eq (h : Str → Str) : ∀ (fs : List (Str × Val)) (pre path : Str) (i : Nat),
    dumpPEFields h pre path i fs = dumpPFields h pre path i (escapeFields fs)
  | [], _, _, _ => rfl
  | (n, v) :: rest, pre, path, i => by
    simp only [dumpPEFields, dumpPFields, escapeFields, dumpPE_eq h v, dumpPEFields_eq h rest pre path (i + 1)]
theorem dumpPEItems_eq (h : Str → Str) : ∀ (xs : List Val) (pre path : Str) (i : Nat),
    dumpPEItems h pre path i xs = dumpPItems h pre path i (escapeItems xs)
  | [], _, _, _ => rfl
  | v :: rest, pre, path, i => by
    simp only [dumpPEItems, dumpPItems, escapeItems, dumpPE_eq h v, dumpPEItems_eq h rest pre path (i + 1)]
end

/-! ## No `_pos=` survives in an escaped value -/

/-- A text without underscore that starts the escaped value also starts the value. -/
theorem prefix_of_prefix_escapePos : ∀ (P t : Str), '_' ∉ P → P <+: escapePos t → P <+: t
  | [], _, _, _ => List.nil_prefix
  | a :: P, t, hP, h => by
    have ha : a ≠ '_' := fun e => hP (by simp [e])
    have hP' : '_' ∉ P := fun e => hP (List.mem_cons_of_mem _ e)
    unfold escapePos at h
    split at h
    · simp only [List.cons_prefix_cons] at h
      exact absurd h.1 ha
    · rename_i c t' _
      simp only [List.cons_prefix_cons] at h ⊢
      exact ⟨h.1, prefix_of_prefix_escapePos P t' hP' h.2⟩
    · simp at h

theorem escapePos_no_pos : ∀ r : Str, hasInfix posMark (escapePos r) = false := by
  intro r
  fun_induction escapePos r with
  | case1 t ih =>
    simp [hasInfix, List.isPrefixOf, ih]
  | case2 c t hne ih =>
    simp only [hasInfix, ih, Bool.or_false]
    cases hb : posMark.isPrefixOf (c :: escapePos t) with
    | false => rfl
    | true =>
      rw [List.isPrefixOf_iff_prefix] at hb
      simp only [posMark, List.cons_prefix_cons] at hb
      have := prefix_of_prefix_escapePos cs!"pos=" t (by decide) hb.2
      obtain ⟨t', ht'⟩ := this
      exact absurd (hne t' hb.1.symm ht'.symm) id
  | case3 => simp [hasInfix, posMark]

/-- A scalar line whose value is escaped never looks like a position line (`.+_pos=.+`), whatever the
value was, provided its key does not end with `_pos`. -/
theorem not_posLike_escaped {pre : Str} (r : Str) (hpre : '=' ∉ pre) (hsuf : ¬ posKey <:+ pre) :
    isPosLike (scalarLine pre (escapePos r)) = false := by
  cases hb : isPosLike (scalarLine pre (escapePos r)) with
  | false => rfl
  | true =>
    obtain ⟨a, b, _, h, _⟩ := (isPosLike_iff _).mp hb
    have h' : (a ++ posKey) ++ '=' :: b = pre ++ '=' :: escapePos r := by
      rw [← show scalarLine pre (escapePos r) = pre ++ '=' :: escapePos r from rfl, h]; simp
    rcases split_first hpre h' with ⟨h1, _⟩ | ⟨E, h1, h2⟩
    · exact absurd ⟨a, h1⟩ hsuf
    · obtain ⟨a', ha'⟩ := lit_suffix_inside (Q := posKey) (by decide) h1
      have : hasInfix posMark (escapePos r) = true :=
        (hasInfix_iff posMark _).mpr ⟨a', b, by rw [h2, ha']; simp⟩
      rw [escapePos_no_pos] at this; cases this

end Paroxy.Flat
