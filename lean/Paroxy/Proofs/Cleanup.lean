/-
Helper lemmas for C13 (model: Paroxy/Model/Cleanup.lean). Core Lean only.
-/
import Paroxy.Model.Cleanup
import Paroxy.Spec.Cleanup
namespace Paroxy.Cleanup
open Paroxy.Cleanup.Spec

/-! ### whitespace -/

theorem isWs_nl : isWs '\n' = true := by decide

theorem ne_nl_of_not_ws {c : Char} (h : isWs c = false) : c ≠ '\n' := by
  intro hc; subst hc; simp [isWs_nl] at h

theorem blank_cons (c : Char) (l : Line) : blank (c :: l) = (isWs c && blank l) := by
  simp [blank]

theorem blank_nil : blank [] = true := by simp [blank]

/-! ### `splitNl` / `joinNl` -/

theorem splitNl_cons_nl (cs : Text) : splitNl ('\n' :: cs) = [] :: splitNl cs := by
  rw [splitNl]; simp

theorem splitNl_cons_of_ne {c : Char} (hc : c ≠ '\n') {cs : Text} {l : Line} {ls : List Line}
    (hs : splitNl cs = l :: ls) : splitNl (c :: cs) = (c :: l) :: ls := by
  rw [splitNl, if_neg hc, hs]

theorem splitNl_ne_nil (t : Text) : splitNl t ≠ [] := by
  cases t with
  | nil => simp [splitNl]
  | cons c cs =>
    unfold splitNl
    split
    · simp
    · split <;> simp

theorem joinNl_cons_cons (l m : Line) (rest : List Line) :
    joinNl (l :: m :: rest) = l ++ '\n' :: joinNl (m :: rest) := by
  simp [joinNl]

theorem joinNl_splitNl (t : Text) : joinNl (splitNl t) = t := by
  induction t with
  | nil => simp [splitNl, joinNl]
  | cons c cs ih =>
    unfold splitNl
    split
    · rename_i h
      subst h
      cases hs : splitNl cs with
      | nil => exact absurd hs (splitNl_ne_nil cs)
      | cons m rest => rw [joinNl_cons_cons, ← hs, ih]; simp
    · cases hs : splitNl cs with
      | nil => exact absurd hs (splitNl_ne_nil cs)
      | cons m rest =>
        simp only
        rw [hs] at ih
        cases rest with
        | nil => simp [joinNl] at ih ⊢; exact ih
        | cons m' rest' =>
          rw [joinNl_cons_cons] at ih ⊢
          simp [← ih]

theorem splitNl_no_nl (t : Text) : ∀ l ∈ splitNl t, '\n' ∉ l := by
  induction t with
  | nil => simp [splitNl]
  | cons c cs ih =>
    unfold splitNl
    split
    · intro l hl
      simp only [List.mem_cons] at hl
      rcases hl with h | h
      · subst h; simp
      · exact ih l h
    · rename_i hc
      cases hs : splitNl cs with
      | nil => exact absurd hs (splitNl_ne_nil cs)
      | cons m rest =>
        rw [hs] at ih
        intro l hl
        simp only [List.mem_cons] at hl
        rcases hl with h | h
        · subst h
          have := ih m (by simp)
          simp only [List.mem_cons, not_or]
          exact ⟨fun h => hc h.symm, this⟩
        · exact ih l (by simp [h])

/-- A line without newline, followed by more lines: splitting the join gives the lines back. -/
theorem splitNl_append_nl (l : Line) (h : '\n' ∉ l) (t : Text) :
    splitNl (l ++ '\n' :: t) = l :: splitNl t := by
  induction l with
  | nil => simp [splitNl]
  | cons c cs ih =>
    have hc : c ≠ '\n' := by intro hc; subst hc; simp at h
    have hcs : '\n' ∉ cs := by intro h'; exact h (by simp [h'])
    simp only [List.cons_append]
    exact splitNl_cons_of_ne hc (ih hcs)

theorem splitNl_of_no_nl (l : Line) (h : '\n' ∉ l) : splitNl l = [l] := by
  induction l with
  | nil => simp [splitNl]
  | cons c cs ih =>
    have hc : c ≠ '\n' := by intro hc; subst hc; simp at h
    have hcs : '\n' ∉ cs := by intro h'; exact h (by simp [h'])
    exact splitNl_cons_of_ne hc (ih hcs)

theorem splitNl_joinNl (ls : List Line) (hne : ls ≠ []) (h : ∀ l ∈ ls, '\n' ∉ l) :
    splitNl (joinNl ls) = ls := by
  induction ls with
  | nil => exact absurd rfl hne
  | cons l rest ih =>
    cases rest with
    | nil => simpa [joinNl] using splitNl_of_no_nl l (h l (by simp))
    | cons m rest' =>
      rw [joinNl_cons_cons, splitNl_append_nl l (h l (by simp))]
      rw [ih (by simp) (fun x hx => h x (by simp [hx]))]

/-! ### `rstrip`, `strip` -/

theorem rstrip_cons_of_nil {cs : Text} (h : rstrip cs = []) (c : Char) :
    rstrip (c :: cs) = if isWs c then [] else [c] := by
  rw [rstrip, h]

theorem rstrip_cons_of_cons {cs : Text} {r : Char} {rs : Text} (h : rstrip cs = r :: rs) (c : Char) :
    rstrip (c :: cs) = c :: r :: rs := by
  rw [rstrip, h]

theorem rstrip_eq_nil (l : Text) : rstrip l = [] ↔ blank l = true := by
  induction l with
  | nil => simp [rstrip, blank]
  | cons c cs ih =>
    rw [blank_cons]
    cases h : rstrip cs with
    | nil =>
      rw [rstrip_cons_of_nil h]
      have := ih.mp h
      by_cases hc : isWs c = true <;> simp [hc, this]
    | cons r rs =>
      rw [rstrip_cons_of_cons h]
      have : blank cs ≠ true := fun hb => by simp [ih.mpr hb] at h
      simp [this]

theorem rstrip_rstrip (l : Text) : rstrip (rstrip l) = rstrip l := by
  induction l with
  | nil => simp [rstrip]
  | cons c cs ih =>
    cases h : rstrip cs with
    | nil =>
      rw [rstrip_cons_of_nil h]
      by_cases hc : isWs c = true
      · simp [hc, rstrip]
      · simp [hc, rstrip]
    | cons r rs =>
      rw [rstrip_cons_of_cons h]
      rw [h] at ih
      exact rstrip_cons_of_cons ih c

theorem rstrip_subset (l : Text) : ∀ c ∈ rstrip l, c ∈ l := by
  induction l with
  | nil => simp [rstrip]
  | cons c cs ih =>
    cases h : rstrip cs with
    | nil =>
      rw [rstrip_cons_of_nil h]
      by_cases hc : isWs c = true <;> simp [hc]
    | cons r rs =>
      rw [rstrip_cons_of_cons h]
      rw [h] at ih
      intro x hx
      simp only [List.mem_cons] at hx ⊢
      rcases hx with hx | hx | hx
      · exact Or.inl hx
      · exact Or.inr (ih x (by simp [hx]))
      · exact Or.inr (ih x (by simp [hx]))

theorem rstrip_nonblank {l : Text} (h : blank l = false) : blank (rstrip l) = false := by
  cases hb : blank (rstrip l) with
  | false => rfl
  | true =>
    have h1 := (rstrip_eq_nil (rstrip l)).mpr hb
    rw [rstrip_rstrip] at h1
    have := (rstrip_eq_nil l).mp h1
    simp [this] at h

/-- Last character of a text, as an option. -/
def lastNonWs : Text → Bool
  | [] => false
  | [c] => !isWs c
  | _ :: c :: cs => lastNonWs (c :: cs)

theorem rstrip_cons_nonws {c : Char} (hc : isWs c = false) (cs : Text) :
    ∃ r, rstrip (c :: cs) = c :: r := by
  cases h : rstrip cs with
  | nil => exact ⟨[], by rw [rstrip_cons_of_nil h]; simp [hc]⟩
  | cons r rs => exact ⟨_, rstrip_cons_of_cons h c⟩

theorem lastNonWs_rstrip (l : Text) (h : rstrip l ≠ []) : lastNonWs (rstrip l) = true := by
  induction l with
  | nil => simp [rstrip] at h
  | cons c cs ih =>
    cases hr : rstrip cs with
    | nil =>
      rw [rstrip_cons_of_nil hr] at h ⊢
      by_cases hc : isWs c = true
      · simp [hc] at h
      · simp [hc, lastNonWs]
    | cons r rs =>
      rw [rstrip_cons_of_cons hr]
      simp only [lastNonWs]
      rw [hr] at ih
      exact ih (by simp)

theorem lstrip_head (t : Text) : lstrip t = [] ∨ ∃ c r, lstrip t = c :: r ∧ isWs c = false := by
  induction t with
  | nil => simp [lstrip]
  | cons c cs ih =>
    unfold lstrip at ih ⊢
    rw [List.dropWhile_cons]
    split
    · exact ih
    · rename_i h
      exact Or.inr ⟨c, cs, rfl, by simpa using h⟩

/-- `strip`: empty, or begins and ends with a non-whitespace character. -/
theorem strip_spec (t : Text) :
    strip t = [] ∨ ∃ c r, strip t = c :: r ∧ isWs c = false ∧ lastNonWs (c :: r) = true := by
  unfold strip
  rcases lstrip_head t with h | ⟨c, r, h, hc⟩
  · left; rw [h]; simp [rstrip]
  · right
    rw [h]
    obtain ⟨r', hr'⟩ := rstrip_cons_nonws hc r
    refine ⟨c, r', hr', hc, ?_⟩
    rw [← hr']
    exact lastNonWs_rstrip _ (by simp [hr'])

/-! ### the last line -/

/-- The last line of a list of lines is not blank. -/
def lastNonblank : List Line → Bool
  | [] => true
  | [l] => !blank l
  | _ :: m :: rest => lastNonblank (m :: rest)

theorem lastNonWs_not_blank {l : Text} (h : lastNonWs l = true) : blank l = false := by
  induction l with
  | nil => simp [lastNonWs] at h
  | cons c cs ih =>
    cases cs with
    | nil => simp [lastNonWs] at h; simp [blank, h]
    | cons d ds =>
      simp only [lastNonWs] at h
      rw [blank_cons, ih h]; simp

theorem splitNl_lastNonblank (t : Text) (h : lastNonWs t = true) : lastNonblank (splitNl t) = true := by
  induction t with
  | nil => simp [lastNonWs] at h
  | cons c cs ih =>
    cases cs with
    | nil =>
      simp only [lastNonWs, Bool.not_eq_eq_eq_not, Bool.not_true] at h
      have hc := ne_nl_of_not_ws h
      simp [splitNl, hc, lastNonblank, blank, h]
    | cons d ds =>
      simp only [lastNonWs] at h
      have ih := ih h
      unfold splitNl
      split
      · cases hs : splitNl (d :: ds) with
        | nil => exact absurd hs (splitNl_ne_nil _)
        | cons m rest => rw [hs] at ih; simpa [lastNonblank] using ih
      · cases hs : splitNl (d :: ds) with
        | nil => exact absurd hs (splitNl_ne_nil _)
        | cons m rest =>
          rw [hs] at ih
          cases rest with
          | nil =>
            simp only [lastNonblank, Bool.not_eq_eq_eq_not, Bool.not_true] at ih ⊢
            rw [blank_cons, ih]; simp
          | cons m' rest' => simpa [lastNonblank] using ih

theorem splitNl_head_nonblank (c : Char) (r : Text) (hc : isWs c = false) :
    ∃ l ls, splitNl (c :: r) = l :: ls ∧ blank l = false := by
  unfold splitNl
  rw [if_neg (ne_nl_of_not_ws hc)]
  cases hs : splitNl r with
  | nil => exact absurd hs (splitNl_ne_nil _)
  | cons m rest => exact ⟨c :: m, rest, rfl, by rw [blank_cons, hc]; simp⟩

/-! ### `suppress_blank_lines` on lines -/

theorem sblTail_ne_nil : ∀ ls : List Line, ls ≠ [] → sblTail ls ≠ []
  | [], h => absurd rfl h
  | [l], _ => by simp [sblTail]
  | l :: m :: rest, _ => by
    unfold sblTail
    split
    · exact sblTail_ne_nil (m :: rest) (by simp)
    · simp

theorem sblTail_nonblank : ∀ ls : List Line, lastNonblank ls = true →
    ∀ l ∈ sblTail ls, blank l = false
  | [], _ => by simp [sblTail]
  | [l], h => by simpa [sblTail, lastNonblank] using h
  | l :: m :: rest, h => by
    have ih := sblTail_nonblank (m :: rest) (by simpa [lastNonblank] using h)
    unfold sblTail
    split
    · exact ih
    · rename_i hb
      intro x hx
      simp only [List.mem_cons] at hx
      rcases hx with hx | hx
      · subst hx; exact rstrip_nonblank (by simpa using hb)
      · exact ih x hx

theorem sblLines_nonblank (l : Line) (ls : List Line) (hl : blank l = false)
    (hlast : lastNonblank (l :: ls) = true) : ∀ x ∈ sblLines (l :: ls), blank x = false := by
  cases ls with
  | nil => simpa [sblLines] using hl
  | cons m rest =>
    simp only [sblLines]
    intro x hx
    simp only [List.mem_cons] at hx
    rcases hx with hx | hx
    · subst hx; exact rstrip_nonblank hl
    · exact sblTail_nonblank (m :: rest) (by simpa [lastNonblank] using hlast) x
        (by simpa using hx)

theorem sblTail_no_nl : ∀ ls : List Line, (∀ l ∈ ls, '\n' ∉ l) → ∀ l ∈ sblTail ls, '\n' ∉ l
  | [], _ => by simp [sblTail]
  | [l], h => by simpa [sblTail] using h
  | l :: m :: rest, h => by
    have ih := sblTail_no_nl (m :: rest) (fun x hx => h x (List.mem_cons_of_mem _ hx))
    unfold sblTail
    split
    · exact ih
    · intro x hx
      simp only [List.mem_cons] at hx
      rcases hx with hx | hx
      · subst hx; exact fun hc => h l (by simp) (rstrip_subset l _ hc)
      · exact ih x hx

theorem sblLines_no_nl (ls : List Line) (h : ∀ l ∈ ls, '\n' ∉ l) : ∀ l ∈ sblLines ls, '\n' ∉ l := by
  match ls with
  | [] => simp [sblLines]
  | [l] => simpa [sblLines] using h
  | l :: m :: rest =>
    simp only [sblLines]
    intro x hx
    simp only [List.mem_cons] at hx
    rcases hx with hx | hx
    · subst hx; exact fun hc => h l (by simp) (rstrip_subset l _ hc)
    · exact sblTail_no_nl (m :: rest) (fun y hy => h y (List.mem_cons_of_mem _ hy)) x
        (by simpa using hx)

theorem sblLines_ne_nil (ls : List Line) (h : ls ≠ []) : sblLines ls ≠ [] := by
  match ls with
  | [] => exact absurd rfl h
  | [l] => simp [sblLines]
  | l :: m :: rest => simp [sblLines]

theorem sblTail_idem : ∀ ls : List Line, sblTail (sblTail ls) = sblTail ls
  | [] => by simp [sblTail]
  | [l] => by simp [sblTail]
  | l :: m :: rest => by
    have ih := sblTail_idem (m :: rest)
    rw [sblTail]
    split
    · exact ih
    · rename_i hb
      cases hs : sblTail (m :: rest) with
      | nil => exact absurd hs (sblTail_ne_nil _ (by simp))
      | cons a as =>
        rw [hs] at ih
        rw [sblTail]
        have : blank (rstrip l) = false := rstrip_nonblank (by simpa using hb)
        simp [this, rstrip_rstrip, ih]

theorem sblLines_idem (ls : List Line) : sblLines (sblLines ls) = sblLines ls := by
  match ls with
  | [] => simp [sblLines]
  | [l] => simp [sblLines]
  | l :: m :: rest =>
    simp only [sblLines]
    cases hs : sblTail (m :: rest) with
    | nil => exact absurd hs (sblTail_ne_nil _ (by simp))
    | cons a as =>
      simp only []
      rw [rstrip_rstrip, ← hs, sblTail_idem]

/-! ### `suppress_useless_pass_statements` on lines -/

theorem supPassLines_subset (ls : List Line) : ∀ l ∈ supPassLines ls, l ∈ ls := by
  fun_induction supPassLines ls with
  | case1 => simp
  | case2 l => simp
  | case3 l m rest hk hok ih =>
    intro x hx; exact List.mem_cons_of_mem _ (ih x hx)
  | case4 l m rest k hk hok hk0 ih =>
    intro x hx
    simp only [List.mem_cons] at hx ⊢
    rcases hx with hx | hx
    · exact Or.inr (Or.inl hx)
    · exact Or.inr (Or.inr (ih x hx))
  | case5 l m rest k hk hok ih =>
    intro x hx
    simp only [List.mem_cons] at hx ⊢
    rcases hx with hx | hx
    · exact Or.inl hx
    · have := ih x hx
      simp only [List.mem_cons] at this
      exact Or.inr this
  | case6 l m rest hk ih =>
    intro x hx
    simp only [List.mem_cons] at hx ⊢
    rcases hx with hx | hx
    · exact Or.inl hx
    · have := ih x hx
      simp only [List.mem_cons] at this
      exact Or.inr this

theorem supPassLines_ne_nil (ls : List Line) (h : ls ≠ []) : supPassLines ls ≠ [] := by
  fun_induction supPassLines ls with
  | case1 => exact absurd rfl h
  | case2 l => simp
  | case3 l m rest hk hok ih => exact ih (by simp)
  | case4 l m rest k hk hok hk0 ih => simp
  | case5 l m rest k hk hok ih => simp
  | case6 l m rest hk ih => simp

/-- No `pass` line is indented. -/
def NoIndentedPass (ls : List Line) : Prop := ∀ l ∈ ls, ∀ k, passIndent? l = some k → k = 0

theorem passIndent_zero {m : Line} (h : passIndent? m = some 0) : m = "pass".toList := by
  unfold passIndent? at h
  simp only at h
  split at h
  · rename_i hd
    have hk : (m.takeWhile (· == ' ')).length = 0 := by simpa using h
    rw [hk] at hd
    simpa using hd
  · cases h

theorem nextOk_of_pass {m : Line} (h : passIndent? m = some 0) (b : Bool) : nextOk 0 m b = true := by
  rw [passIndent_zero h]; cases b <;> decide

theorem supPassLines_cons_of_none {m : Line} (h : passIndent? m = none) (rest : List Line) :
    supPassLines (m :: rest) = m :: supPassLines rest := by
  cases rest with
  | nil => simp [supPassLines]
  | cons a as => rw [supPassLines]; simp [h]

theorem supPassLines_isEmpty (ls : List Line) : (supPassLines ls).isEmpty = ls.isEmpty := by
  cases ls with
  | nil => simp [supPassLines]
  | cons a as =>
    have := supPassLines_ne_nil (a :: as) (by simp)
    cases h : supPassLines (a :: as) with
    | nil => exact absurd h this
    | cons x xs => simp

theorem supPassLines_idem (ls : List Line) (h : NoIndentedPass ls) :
    supPassLines (supPassLines ls) = supPassLines ls := by
  fun_induction supPassLines ls with
  | case1 => simp [supPassLines]
  | case2 l => simp [supPassLines]
  | case3 l m rest hk hok ih =>
    exact ih (fun x hx => h x (List.mem_cons_of_mem _ hx))
  | case4 l m rest k hk hok hk0 ih =>
    exact absurd (h l (by simp) k hk) hk0
  | case5 l m rest k hk hok ih =>
    have hk0 : k = 0 := h l (by simp) k hk
    subst hk0
    have hm : passIndent? m = none := by
      cases hpm : passIndent? m with
      | none => rfl
      | some k' =>
        have : k' = 0 := h m (by simp) k' hpm
        subst this
        exact absurd (nextOk_of_pass hpm _) hok
    have ih := ih (fun x hx => h x (List.mem_cons_of_mem _ hx))
    rw [supPassLines_cons_of_none hm] at ih ⊢
    rw [supPassLines]
    simp only [hk, supPassLines_isEmpty]
    rw [if_neg hok, ih]
  | case6 l m rest hk ih =>
    have ih := ih (fun x hx => h x (List.mem_cons_of_mem _ hx))
    cases hs : supPassLines (m :: rest) with
    | nil => exact absurd hs (supPassLines_ne_nil _ (by simp))
    | cons a as =>
      rw [hs] at ih
      rw [supPassLines]
      simp only [hk]
      rw [ih]

/-! ### `suppress_first_comments` on lines -/

def startsWithHash (l : Line) : Bool := l.head? == some '#'

theorem dropLeadingComments_spec : ∀ ls : List Line,
    ∃ d, ls = d ++ dropLeadingComments ls ∧ (∀ l ∈ d, l ∈ ls.takeWhile startsWithHash) ∧
      (ls ≠ [] → dropLeadingComments ls ≠ [])
  | [] => ⟨[], by simp [dropLeadingComments]⟩
  | [l] => ⟨[], by simp [dropLeadingComments]⟩
  | l :: m :: rest => by
    obtain ⟨d, hd, hmem, hne⟩ := dropLeadingComments_spec (m :: rest)
    rw [dropLeadingComments]
    split
    · rename_i hh
      refine ⟨l :: d, by simpa using hd, ?_, fun _ => hne (by simp)⟩
      have hp : startsWithHash l = true := by simp [startsWithHash, hh]
      intro x hx
      rw [List.takeWhile_cons, if_pos hp]
      simp only [List.mem_cons] at hx ⊢
      rcases hx with hx | hx
      · exact Or.inl hx
      · exact Or.inr (hmem x hx)
    · exact ⟨[], by simp⟩

/-! ### the end of `full_cleaning`: no blank line -/

theorem finish_nil_of_strip_nil {s : Text} (h : strip s = []) : finish s = [] := by
  simp [finish, h, suppressBlankLines, suppressUselessPass, splitNl, sblLines, joinNl, supPassLines]

theorem finish_lines (s : Text) (c : Char) (r : Text) (h : strip s = c :: r) (hc : isWs c = false)
    (hl : lastNonWs (c :: r) = true) :
    splitNl (finish s) = supPassLines (sblLines (splitNl (c :: r))) ∧
      ∀ l ∈ sblLines (splitNl (c :: r)), blank l = false := by
  obtain ⟨l, ls, hsp, hlb⟩ := splitNl_head_nonblank c r hc
  have hlast := splitNl_lastNonblank (c :: r) hl
  have hX : ∀ x ∈ sblLines (splitNl (c :: r)), blank x = false := by
    rw [hsp] at hlast ⊢
    exact sblLines_nonblank l ls hlb hlast
  have hXn : ∀ x ∈ sblLines (splitNl (c :: r)), '\n' ∉ x :=
    sblLines_no_nl _ (splitNl_no_nl _)
  have hXne : sblLines (splitNl (c :: r)) ≠ [] := sblLines_ne_nil _ (splitNl_ne_nil _)
  refine ⟨?_, hX⟩
  simp only [finish, h, suppressBlankLines, suppressUselessPass]
  rw [splitNl_joinNl _ hXne hXn]
  exact splitNl_joinNl _ (supPassLines_ne_nil _ hXne)
    (fun x hx => hXn x (supPassLines_subset _ x hx))

theorem finish_noBlankLine (s : Text) : NoBlankLine (finish s) := by
  rcases strip_spec s with h | ⟨c, r, h, hc, hl⟩
  · exact Or.inl (finish_nil_of_strip_nil h)
  · right
    obtain ⟨hlines, hX⟩ := finish_lines s c r h hc hl
    rw [hlines]
    exact fun l hl' => hX l (supPassLines_subset _ l hl')

theorem supPassLines_no_nl (ls : List Line) (h : ∀ l ∈ ls, '\n' ∉ l) :
    ∀ l ∈ supPassLines ls, '\n' ∉ l := fun l hl => h l (supPassLines_subset _ l hl)

theorem suppressUselessPass_idem (t : Text) (h : NoIndentedPass (splitNl t)) :
    suppressUselessPass (suppressUselessPass t) = suppressUselessPass t := by
  simp only [suppressUselessPass]
  rw [splitNl_joinNl _ (supPassLines_ne_nil _ (splitNl_ne_nil _))
    (supPassLines_no_nl _ (splitNl_no_nl _)), supPassLines_idem _ h]

theorem suppressBlankLines_idem (t : Text) :
    suppressBlankLines (suppressBlankLines t) = suppressBlankLines t := by
  simp only [suppressBlankLines]
  rw [splitNl_joinNl _ (sblLines_ne_nil _ (splitNl_ne_nil _)) (sblLines_no_nl _ (splitNl_no_nl _)),
    sblLines_idem]

end Paroxy.Cleanup
