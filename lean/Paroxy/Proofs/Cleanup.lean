/-
Helper lemmas for C13 (model: Paroxy/Model/Cleanup.lean). Core Lean only.
-/
import Paroxy.Model.Cleanup
import Paroxy.Spec.Cleanup
namespace Paroxy.Cleanup
open Paroxy.Cleanup.Spec

/-! ### whitespace -/

theorem isWs_nl : isWs '\n' = true := by decide

theorem ne_nl_of_not_ws {c : Char} (h : isWs c = false) : c ≠ '\n' := by
  intro hc; subst hc; simp [isWs_nl] at h

theorem blank_cons (c : Char) (l : Line) : blank (c :: l) = (isWs c && blank l) := by
  simp [blank]

theorem blank_nil : blank [] = true := by simp [blank]

/-! ### `splitNl` / `joinNl` -/

theorem splitNl_cons_nl (cs : Text) : splitNl ('\n' :: cs) = [] :: splitNl cs := by
  rw [splitNl]; simp

theorem splitNl_cons_of_ne {c : Char} (hc : c ≠ '\n') {cs : Text} {l : Line} {ls : List Line}
    (hs : splitNl cs = l :: ls) : splitNl (c :: cs) = (c :: l) :: ls := by
  rw [splitNl, if_neg hc, hs]

theorem splitNl_ne_nil (t : Text) : splitNl t ≠ [] := by
  cases t with
  | nil => simp [splitNl]
  | cons c cs =>
    unfold splitNl
    split
    · simp
    · split <;> simp

theorem joinNl_cons_cons (l m : Line) (rest : List Line) :
    joinNl (l :: m :: rest) = l ++ '\n' :: joinNl (m :: rest) := by
  simp [joinNl]

theorem joinNl_splitNl (t : Text) : joinNl (splitNl t) = t := by
  induction t with
  | nil => simp [splitNl, joinNl]
  | cons c cs ih =>
    unfold splitNl
    split
    · rename_i h
      subst h
      cases hs : splitNl cs with
      | nil => exact absurd hs (splitNl_ne_nil cs)
      | cons m rest => rw [joinNl_cons_cons, ← hs, ih]; simp
    · cases hs : splitNl cs with
      | nil => exact absurd hs (splitNl_ne_nil cs)
      | cons m rest =>
        simp only
        rw [hs] at ih
        cases rest with
        | nil => simp [joinNl] at ih ⊢; exact ih
        | cons m' rest' =>
          rw [joinNl_cons_cons] at ih ⊢
          simp [← ih]

theorem splitNl_no_nl (t : Text) : ∀ l ∈ splitNl t, '\n' ∉ l := by
  induction t with
  | nil => simp [splitNl]
  | cons c cs ih =>
    unfold splitNl
    split
    · intro l hl
      simp only [List.mem_cons] at hl
      rcases hl with h | h
      · subst h; simp
      · exact ih l h
    · rename_i hc
      cases hs : splitNl cs with
      | nil => exact absurd hs (splitNl_ne_nil cs)
      | cons m rest =>
        rw [hs] at ih
        intro l hl
        simp only [List.mem_cons] at hl
        rcases hl with h | h
        · subst h
          have := ih m (by simp)
          simp only [List.mem_cons, not_or]
          exact ⟨fun h => hc h.symm, this⟩
        · exact ih l (by simp [h])

/-- A line without newline, followed by more lines: splitting the join gives the lines back. -/
theorem splitNl_append_nl (l : Line) (h : '\n' ∉ l) (t : Text) :
    splitNl (l ++ '\n' :: t) = l :: splitNl t := by
  induction l with
  | nil => simp [splitNl]
  | cons c cs ih =>
    have hc : c ≠ '\n' := by intro hc; subst hc; simp at h
    have hcs : '\n' ∉ cs := by intro h'; exact h (by simp [h'])
    simp only [List.cons_append]
    exact splitNl_cons_of_ne hc (ih hcs)

theorem splitNl_of_no_nl (l : Line) (h : '\n' ∉ l) : splitNl l = [l] := by
  induction l with
  | nil => simp [splitNl]
  | cons c cs ih =>
    have hc : c ≠ '\n' := by intro hc; subst hc; simp at h
    have hcs : '\n' ∉ cs := by intro h'; exact h (by simp [h'])
    exact splitNl_cons_of_ne hc (ih hcs)

theorem splitNl_joinNl (ls : List Line) (hne : ls ≠ []) (h : ∀ l ∈ ls, '\n' ∉ l) :
    splitNl (joinNl ls) = ls := by
  induction ls with
  | nil => exact absurd rfl hne
  | cons l rest ih =>
    cases rest with
    | nil => simpa [joinNl] using splitNl_of_no_nl l (h l (by simp))
    | cons m rest' =>
      rw [joinNl_cons_cons, splitNl_append_nl l (h l (by simp))]
      rw [ih (by simp) (fun x hx => h x (by simp [hx]))]

/-! ### `rstrip`, `strip` -/

theorem rstrip_cons_of_nil {cs : Text} (h : rstrip cs = []) (c : Char) :
    rstrip (c :: cs) = if isWs c then [] else [c] := by
  rw [rstrip, h]

theorem rstrip_cons_of_cons {cs : Text} {r : Char} {rs : Text} (h : rstrip cs = r :: rs) (c : Char) :
    rstrip (c :: cs) = c :: r :: rs := by
  rw [rstrip, h]

theorem rstrip_eq_nil (l : Text) : rstrip l = [] ↔ blank l = true := by
  induction l with
  | nil => simp [rstrip, blank]
  | cons c cs ih =>
    rw [blank_cons]
    cases h : rstrip cs with
    | nil =>
      rw [rstrip_cons_of_nil h]
      have := ih.mp h
      by_cases hc : isWs c = true <;> simp [hc, this]
    | cons r rs =>
      rw [rstrip_cons_of_cons h]
      have : blank cs ≠ true := fun hb => by simp [ih.mpr hb] at h
      simp [this]

theorem rstrip_rstrip (l : Text) : rstrip (rstrip l) = rstrip l := by
  induction l with
  | nil => simp [rstrip]
  | cons c cs ih =>
    cases h : rstrip cs with
    | nil =>
      rw [rstrip_cons_of_nil h]
      by_cases hc : isWs c = true
      · simp [hc, rstrip]
      · simp [hc, rstrip]
    | cons r rs =>
      rw [rstrip_cons_of_cons h]
      rw [h] at ih
      exact rstrip_cons_of_cons ih c

theorem rstrip_subset (l : Text) : ∀ c ∈ rstrip l, c ∈ l := by
  induction l with
  | nil => simp [rstrip]
  | cons c cs ih =>
    cases h : rstrip cs with
    | nil =>
      rw [rstrip_cons_of_nil h]
      by_cases hc : isWs c = true <;> simp [hc]
    | cons r rs =>
      rw [rstrip_cons_of_cons h]
      rw [h] at ih
      intro x hx
      simp only [List.mem_cons] at hx ⊢
      rcases hx with hx | hx | hx
      · exact Or.inl hx
      · exact Or.inr (ih x (by simp [hx]))
      · exact Or.inr (ih x (by simp [hx]))

theorem rstrip_nonblank {l : Text} (h : blank l = false) : blank (rstrip l) = false := by
  cases hb : blank (rstrip l) with
  | false => rfl
  | true =>
    have h1 := (rstrip_eq_nil (rstrip l)).mpr hb
    rw [rstrip_rstrip] at h1
    have := (rstrip_eq_nil l).mp h1
    simp [this] at h

/-- Last character of a text, as an option. -/
def lastNonWs : Text → Bool
  | [] => false
  | [c] => !isWs c
  | _ :: c :: cs => lastNonWs (c :: cs)

theorem rstrip_cons_nonws {c : Char} (hc : isWs c = false) (cs : Text) :
    ∃ r, rstrip (c :: cs) = c :: r := by
  cases h : rstrip cs with
  | nil => exact ⟨[], by rw [rstrip_cons_of_nil h]; simp [hc]⟩
  | cons r rs => exact ⟨_, rstrip_cons_of_cons h c⟩

theorem lastNonWs_rstrip (l : Text) (h : rstrip l ≠ []) : lastNonWs (rstrip l) = true := by
  induction l with
  | nil => simp [rstrip] at h
  | cons c cs ih =>
    cases hr : rstrip cs with
    | nil =>
      rw [rstrip_cons_of_nil hr] at h ⊢
      by_cases hc : isWs c = true
      · simp [hc] at h
      · simp [hc, lastNonWs]
    | cons r rs =>
      rw [rstrip_cons_of_cons hr]
      simp only [lastNonWs]
      rw [hr] at ih
      exact ih (by simp)

theorem lstrip_head (t : Text) : lstrip t = [] ∨ ∃ c r, lstrip t = c :: r ∧ isWs c = false := by
  induction t with
  | nil => simp [lstrip]
  | cons c cs ih =>
    unfold lstrip at ih ⊢
    rw [List.dropWhile_cons]
    split
    · exact ih
    · rename_i h
      exact Or.inr ⟨c, cs, rfl, by simpa using h⟩

/-- `strip`: empty, or begins and ends with a non-whitespace character. -/
theorem strip_spec (t : Text) :
    strip t = [] ∨ ∃ c r, strip t = c :: r ∧ isWs c = false ∧ lastNonWs (c :: r) = true := by
  unfold strip
  rcases lstrip_head t with h | ⟨c, r, h, hc⟩
  · left; rw [h]; simp [rstrip]
  · right
    rw [h]
    obtain ⟨r', hr'⟩ := rstrip_cons_nonws hc r
    refine ⟨c, r', hr', hc, ?_⟩
    rw [← hr']
    exact lastNonWs_rstrip _ (by simp [hr'])

/-! ### the last line -/

/-- The last line of a list of lines is not blank. -/
def lastNonblank : List Line → Bool
  | [] => true
  | [l] => !blank l
  | _ :: m :: rest => lastNonblank (m :: rest)

theorem lastNonWs_not_blank {l : Text} (h : lastNonWs l = true) : blank l = false := by
  induction l with
  | nil => simp [lastNonWs] at h
  | cons c cs ih =>
    cases cs with
    | nil => simp [lastNonWs] at h; simp [blank, h]
    | cons d ds =>
      simp only [lastNonWs] at h
      rw [blank_cons, ih h]; simp

theorem splitNl_lastNonblank (t : Text) (h : lastNonWs t = true) : lastNonblank (splitNl t) = true := by
  induction t with
  | nil => simp [lastNonWs] at h
  | cons c cs ih =>
    cases cs with
    | nil =>
      simp only [lastNonWs, Bool.not_eq_eq_eq_not, Bool.not_true] at h
      have hc := ne_nl_of_not_ws h
      simp [splitNl, hc, lastNonblank, blank, h]
    | cons d ds =>
      simp only [lastNonWs] at h
      have ih := ih h
      unfold splitNl
      split
      · cases hs : splitNl (d :: ds) with
        | nil => exact absurd hs (splitNl_ne_nil _)
        | cons m rest => rw [hs] at ih; simpa [lastNonblank] using ih
      · cases hs : splitNl (d :: ds) with
        | nil => exact absurd hs (splitNl_ne_nil _)
        | cons m rest =>
          rw [hs] at ih
          cases rest with
          | nil =>
            simp only [lastNonblank, Bool.not_eq_eq_eq_not, Bool.not_true] at ih ⊢
            rw [blank_cons, ih]; simp
          | cons m' rest' => simpa [lastNonblank] using ih

theorem splitNl_head_nonblank (c : Char) (r : Text) (hc : isWs c = false) :
    ∃ l ls, splitNl (c :: r) = l :: ls ∧ blank l = false := by
  unfold splitNl
  rw [if_neg (ne_nl_of_not_ws hc)]
  cases hs : splitNl r with
  | nil => exact absurd hs (splitNl_ne_nil _)
  | cons m rest => exact ⟨c :: m, rest, rfl, by rw [blank_cons, hc]; simp⟩

/-! ### `suppress_blank_lines` on lines -/

theorem sblTail_ne_nil : ∀ ls : List Line, ls ≠ [] → sblTail ls ≠ []
  | [], h => absurd rfl h
  | [l], _ => by simp [sblTail]
  | l :: m :: rest, _ => by
    unfold sblTail
    split
    · exact sblTail_ne_nil (m :: rest) (by simp)
    · simp

theorem sblTail_nonblank : ∀ ls : List Line, lastNonblank ls = true →
    ∀ l ∈ sblTail ls, blank l = false
  | [], _ => by simp [sblTail]
  | [l], h => by simpa [sblTail, lastNonblank] using h
  | l :: m :: rest, h => by
    have ih := sblTail_nonblank (m :: rest) (by simpa [lastNonblank] using h)
    unfold sblTail
    split
    · exact ih
    · rename_i hb
      intro x hx
      simp only [List.mem_cons] at hx
      rcases hx with hx | hx
      · subst hx; exact rstrip_nonblank (by simpa using hb)
      · exact ih x hx

theorem sblLines_nonblank (l : Line) (ls : List Line) (hl : blank l = false)
    (hlast : lastNonblank (l :: ls) = true) : ∀ x ∈ sblLines (l :: ls), blank x = false := by
  cases ls with
  | nil => simpa [sblLines] using hl
  | cons m rest =>
    simp only [sblLines]
    intro x hx
    simp only [List.mem_cons] at hx
    rcases hx with hx | hx
    · subst hx; exact rstrip_nonblank hl
    · exact sblTail_nonblank (m :: rest) (by simpa [lastNonblank] using hlast) x
        (by simpa using hx)

theorem sblTail_no_nl : ∀ ls : List Line, (∀ l ∈ ls, '\n' ∉ l) → ∀ l ∈ sblTail ls, '\n' ∉ l
  | [], _ => by simp [sblTail]
  | [l], h => by simpa [sblTail] using h
  | l :: m :: rest, h => by
    have ih := sblTail_no_nl (m :: rest) (fun x hx => h x (List.mem_cons_of_mem _ hx))
    unfold sblTail
    split
    · exact ih
    · intro x hx
      simp only [List.mem_cons] at hx
      rcases hx with hx | hx
      · subst hx; exact fun hc => h l (by simp) (rstrip_subset l _ hc)
      · exact ih x hx

theorem sblLines_no_nl (ls : List Line) (h : ∀ l ∈ ls, '\n' ∉ l) : ∀ l ∈ sblLines ls, '\n' ∉ l := by
  match ls with
  | [] => simp [sblLines]
  | [l] => simpa [sblLines] using h
  | l :: m :: rest =>
    simp only [sblLines]
    intro x hx
    simp only [List.mem_cons] at hx
    rcases hx with hx | hx
    · subst hx; exact fun hc => h l (by simp) (rstrip_subset l _ hc)
    · exact sblTail_no_nl (m :: rest) (fun y hy => h y (List.mem_cons_of_mem _ hy)) x
        (by simpa using hx)

theorem sblLines_ne_nil (ls : List Line) (h : ls ≠ []) : sblLines ls ≠ [] := by
  match ls with
  | [] => exact absurd rfl h
  | [l] => simp [sblLines]
  | l :: m :: rest => simp [sblLines]

theorem sblTail_idem : ∀ ls : List Line, sblTail (sblTail ls) = sblTail ls
  | [] => by simp [sblTail]
  | [l] => by simp [sblTail]
  | l :: m :: rest => by
    have ih := sblTail_idem (m :: rest)
    rw [sblTail]
    split
    · exact ih
    · rename_i hb
      cases hs : sblTail (m :: rest) with
      | nil => exact absurd hs (sblTail_ne_nil _ (by simp))
      | cons a as =>
        rw [hs] at ih
        rw [sblTail]
        have : blank (rstrip l) = false := rstrip_nonblank (by simpa using hb)
        simp [this, rstrip_rstrip, ih]

theorem sblLines_idem (ls : List Line) : sblLines (sblLines ls) = sblLines ls := by
  match ls with
  | [] => simp [sblLines]
  | [l] => simp [sblLines]
  | l :: m :: rest =>
    simp only [sblLines]
    cases hs : sblTail (m :: rest) with
    | nil => exact absurd hs (sblTail_ne_nil _ (by simp))
    | cons a as =>
      simp only []
      rw [rstrip_rstrip, ← hs, sblTail_idem]

/-! ### `suppress_useless_pass_statements` on lines -/

theorem supPassLines_subset (ls : List Line) : ∀ l ∈ supPassLines ls, l ∈ ls := by
  fun_induction supPassLines ls with
  | case1 => simp
  | case2 l => simp
  | case3 l m rest k hk ht ih =>
    intro x hx; exact List.mem_cons_of_mem _ (ih x hx)
  | case4 l m rest k hk ht ih =>
    intro x hx
    simp only [List.mem_cons] at hx ⊢
    rcases hx with hx | hx
    · exact Or.inl hx
    · have := ih x hx
      simp only [List.mem_cons] at this
      exact Or.inr this
  | case5 l m rest hk ih =>
    intro x hx
    simp only [List.mem_cons] at hx ⊢
    rcases hx with hx | hx
    · exact Or.inl hx
    · have := ih x hx
      simp only [List.mem_cons] at this
      exact Or.inr this

theorem supPassLines_ne_nil (ls : List Line) (h : ls ≠ []) : supPassLines ls ≠ [] := by
  fun_induction supPassLines ls with
  | case1 => exact absurd rfl h
  | case2 l => simp
  | case3 l m rest k hk ht ih => exact ih (by simp)
  | case4 l m rest k hk ht ih => simp
  | case5 l m rest hk ih => simp

theorem siblingAt_indent {k : Nat} {m : Line} {b : Bool} (h : siblingAt k m b = true) : k = indentOf m := by
  unfold siblingAt at h
  simp only [Bool.and_eq_true, beq_iff_eq] at h
  exact h.1.symm

/-- The look-ahead succeeds for at most one indentation. -/
theorem passTarget_unique : ∀ (S : List Line) (k k' : Nat),
    passTarget k S = true → passTarget k' S = true → k = k'
  | [], _, _, h, _ => by simp [passTarget] at h
  | [m], k, k', h, h' => by
    simp only [passTarget] at h h'
    rw [siblingAt_indent h, siblingAt_indent h']
  | m :: m' :: rest, k, k', h, h' => by
    simp only [passTarget] at h h'
    by_cases hc : isCommentLine m = true
    · rw [if_pos hc] at h h'
      exact passTarget_unique (m' :: rest) k k' h h'
    · rw [if_neg hc] at h h'
      rw [siblingAt_indent h, siblingAt_indent h']

/-- A `pass` line of indentation `k'` is not a comment line, and is a sibling at exactly `k'`. -/
theorem passLine_spec {m : Line} {k' : Nat} (h : passIndent? m = some k') :
    isCommentLine m = false ∧ ∀ k b, siblingAt k m b = (k' == k) := by
  unfold passIndent? at h
  split at h
  · rename_i hd
    have hk : indentOf m = k' := Option.some.inj h
    constructor
    · simp only [isCommentLine, hd]; decide
    · intro k b
      have hpass : "pass".toList = ['p', 'a', 's', 's'] := rfl
      rw [hk, hpass] at hd
      have : (!isWs 'p' && 'p' != '#') = true := by decide
      simp only [siblingAt, hk, hd, this, Bool.and_true]
  · cases h

/-- Removing useless `pass` lines does not change what a look-ahead sees. -/
theorem passTarget_supPassLines (k : Nat) (S : List Line) :
    passTarget k (supPassLines S) = passTarget k S := by
  fun_induction supPassLines S with
  | case1 => rfl
  | case2 l => rfl
  | case3 l m rest k0 hk ht ih =>
    rw [ih]
    obtain ⟨hc, hs⟩ := passLine_spec hk
    rw [passTarget, if_neg (by simp [hc]), hs]
    by_cases hkk : k0 = k
    · subst hkk; simp [ht]
    · have : passTarget k (m :: rest) = false := by
        cases h : passTarget k (m :: rest) with
        | false => rfl
        | true => exact absurd (passTarget_unique _ _ _ ht h) hkk
      simp [this, hkk]
  | case4 l m rest k0 hk ht ih =>
    cases hs : supPassLines (m :: rest) with
    | nil => exact absurd hs (supPassLines_ne_nil _ (by simp))
    | cons a as =>
      rw [hs] at ih
      rw [passTarget, passTarget, ih]
  | case5 l m rest hk ih =>
    cases hs : supPassLines (m :: rest) with
    | nil => exact absurd hs (supPassLines_ne_nil _ (by simp))
    | cons a as =>
      rw [hs] at ih
      rw [passTarget, passTarget, ih]

theorem supPassLines_idem (ls : List Line) : supPassLines (supPassLines ls) = supPassLines ls := by
  fun_induction supPassLines ls with
  | case1 => simp [supPassLines]
  | case2 l => simp [supPassLines]
  | case3 l m rest k hk ht ih => exact ih
  | case4 l m rest k hk ht ih =>
    have hB := passTarget_supPassLines k (m :: rest)
    cases hs : supPassLines (m :: rest) with
    | nil => exact absurd hs (supPassLines_ne_nil _ (by simp))
    | cons a as =>
      rw [hs] at ih hB
      rw [supPassLines]
      simp only [hk, hB, ht, Bool.false_eq_true, if_false, ih]
  | case5 l m rest hk ih =>
    cases hs : supPassLines (m :: rest) with
    | nil => exact absurd hs (supPassLines_ne_nil _ (by simp))
    | cons a as =>
      rw [hs] at ih
      rw [supPassLines]
      simp only [hk, ih]

/-! ### the normalised hint comment -/

/-- When a marker is counted, the result contains `# paroxython: `. -/
theorem normAux_marker (skip : Nat) (s : Text) (h : (normAux skip s).2 ≠ 0) :
    ∃ a b, (normAux skip s).1 = a ++ hintMarker ++ b := by
  induction s generalizing skip with
  | nil => simp [normAux] at h
  | cons c cs ih =>
    cases skip with
    | succ k =>
      rw [normAux] at h ⊢
      exact ih k h
    | zero =>
      rw [normAux] at h ⊢
      cases hm : markerRest? (c :: cs) with
      | some rest => exact ⟨[], (normAux (cs.length - rest.length) cs).1, by simp⟩
      | none =>
        rw [hm] at h
        simp only at h ⊢
        obtain ⟨a, b, hab⟩ := ih 0 h
        exact ⟨c :: a, b, by simp [hab]⟩

/-- The count is positive exactly when the marker regex matches at some position. -/
theorem normAux_zero_count (s : Text) :
    (normAux 0 s).2 ≠ 0 ↔ ∃ a b, s = a ++ b ∧ (markerRest? b).isSome = true := by
  induction s with
  | nil =>
    simp only [normAux, ne_eq, not_true_eq_false, false_iff]
    rintro ⟨a, b, h, hb⟩
    have : b = [] := by
      cases a <;> simp_all
    subst this
    simp [markerRest?] at hb
  | cons c cs ih =>
    rw [normAux]
    cases hm : markerRest? (c :: cs) with
    | some rest =>
      simp only [ne_eq, Nat.add_eq_zero_iff, Nat.succ_ne_self, and_false, not_false_eq_true, true_iff]
      exact ⟨[], c :: cs, rfl, by simp [hm]⟩
    | none =>
      simp only
      rw [ih]
      constructor
      · rintro ⟨a, b, h, hb⟩
        exact ⟨c :: a, b, by simp [h], hb⟩
      · rintro ⟨a, b, h, hb⟩
        cases a with
        | nil =>
          simp only [List.nil_append] at h
          rw [← h, hm] at hb
          simp at hb
        | cons x xs =>
          simp only [List.cons_append, List.cons.injEq] at h
          exact ⟨xs, b, h.2, hb⟩


/-! ### `suppress_first_comments` on lines -/

def startsWithHash (l : Line) : Bool := l.head? == some '#'

theorem dropPrefixCI?_append : ∀ (p a r x : Text), dropPrefixCI? p a = some r →
    dropPrefixCI? p (a ++ x) = some (r ++ x)
  | [], a, r, x, h => by simp only [dropPrefixCI?] at h ⊢; rw [Option.some.inj h]
  | _ :: _, [], _, _, h => by simp [dropPrefixCI?] at h
  | c :: p, b :: a, r, x, h => by
    simp only [dropPrefixCI?, List.cons_append] at h ⊢
    split at h
    · rename_i hc
      rw [if_pos hc]
      exact dropPrefixCI?_append p a r x h
    · cases h

theorem skipWs_append_of_ne_nil (a x : Text) (h : skipWs a ≠ []) : skipWs (a ++ x) = skipWs a ++ x := by
  induction a with
  | nil => simp [skipWs] at h
  | cons c cs ih =>
    unfold skipWs at h ih ⊢
    simp only [List.cons_append, List.dropWhile_cons] at h ⊢
    split
    · rename_i hc
      rw [if_pos hc] at h
      exact ih h
    · rfl

/-- A line that begins with the hint marker makes the look-ahead succeed, whatever follows it. -/
theorem hintAhead_of_marker (tl x : Text) (h : (markerRest? ('#' :: tl)).isSome = true) :
    hintAhead (tl ++ x) = true := by
  unfold markerRest? at h
  simp only at h
  unfold hintAhead
  cases h1 : dropPrefixCI? "paroxython".toList (skipWs tl) with
  | none => rw [h1] at h; simp at h
  | some r2 =>
    rw [h1] at h
    simp only at h
    have hne : skipWs tl ≠ [] := by
      intro he
      have hp : "paroxython".toList = 'p' :: "aroxython".toList := rfl
      rw [he, hp] at h1
      simp [dropPrefixCI?] at h1
    rw [skipWs_append_of_ne_nil tl x hne, dropPrefixCI?_append _ _ _ x h1]
    simp only
    cases h2 : skipWs r2 with
    | nil => rw [h2] at h; simp at h
    | cons c r3 =>
      rw [h2] at h
      rw [skipWs_append_of_ne_nil r2 x (by rw [h2]; simp), h2]
      by_cases hc : c = ':'
      · subst hc; rfl
      · split at h
        · rename_i heq; simp only [List.cons.injEq] at heq; exact absurd heq.1 hc
        · simp at h

theorem markerRest?_some_head {b : Text} (h : (markerRest? b).isSome = true) :
    ∃ tl, b = '#' :: tl := by
  unfold markerRest? at h
  split at h
  · exact ⟨_, rfl⟩
  · simp at h

/-- A later `#` of the line followed by the marker is found by the scan (no newline before it). -/
theorem hashScan_of_marker (a tl x : Text) (ha : '\n' ∉ a)
    (h : (markerRest? ('#' :: tl)).isSome = true) : hashScan (a ++ '#' :: tl ++ x) = true := by
  induction a with
  | nil =>
    simp only [List.nil_append, List.cons_append, hashScan]
    rw [if_neg (by decide), hintAhead_of_marker tl x h]; rfl
  | cons c cs ih =>
    have hc : c ≠ '\n' := by intro hc; subst hc; simp at ha
    have hcs : '\n' ∉ cs := by intro h'; exact ha (by simp [h'])
    simp only [List.cons_append, hashScan, if_neg hc]
    rw [ih hcs, Bool.or_true]

/-- A `#` line that carries the hint marker anywhere makes the look-ahead succeed. -/
theorem hintAheadAny_of_isHint (tl x : Text) (hn : '\n' ∉ tl) (h : isHint ('#' :: tl) = true) :
    hintAheadAny (tl ++ x) = true := by
  have hc : (normAux 0 ('#' :: tl)).2 ≠ 0 := by simpa [isHint, normalizeComment] using h
  obtain ⟨a, b, hab, hb⟩ := (normAux_zero_count ('#' :: tl)).mp hc
  obtain ⟨btl, hbt⟩ := markerRest?_some_head hb
  subst hbt
  unfold hintAheadAny
  cases a with
  | nil =>
    simp only [List.nil_append, List.cons.injEq, true_and] at hab
    subst hab
    rw [hintAhead_of_marker _ x hb]; rfl
  | cons a0 a' =>
    simp only [List.cons_append, List.cons.injEq] at hab
    obtain ⟨_, htl⟩ := hab
    subst htl
    have ha' : '\n' ∉ a' := by intro h'; exact hn (by simp [h'])
    have := hashScan_of_marker a' btl x ha' hb
    rw [this, Bool.or_true]

theorem dropLeadingComments_spec : ∀ ls : List Line, (∀ l ∈ ls, '\n' ∉ l) →
    ∃ d, ls = d ++ dropLeadingComments ls ∧
      (∀ l ∈ d, l ∈ ls.takeWhile startsWithHash ∧ isHint l = false) ∧
      (ls ≠ [] → dropLeadingComments ls ≠ [])
  | [], _ => ⟨[], by simp [dropLeadingComments]⟩
  | [l], _ => ⟨[], by simp [dropLeadingComments]⟩
  | l :: m :: rest, hnl => by
    obtain ⟨d, hd, hmem, hne⟩ := dropLeadingComments_spec (m :: rest)
      (fun x hx => hnl x (List.mem_cons_of_mem _ hx))
    rw [dropLeadingComments]
    split
    · rename_i hh
      obtain ⟨hhead, hah⟩ := hh
      cases l with
      | nil => simp at hhead
      | cons c tl =>
        simp only [List.head?_cons, Option.some.injEq] at hhead
        subst hhead
        simp only [List.tail_cons] at hah
        refine ⟨('#' :: tl) :: d, by simpa using hd, ?_, fun _ => hne (by simp)⟩
        have hp : startsWithHash ('#' :: tl) = true := by simp [startsWithHash]
        intro x hx
        rw [List.takeWhile_cons, if_pos hp]
        simp only [List.mem_cons] at hx ⊢
        rcases hx with hx | hx
        · subst hx
          refine ⟨Or.inl rfl, ?_⟩
          cases hm : isHint ('#' :: tl) with
          | false => rfl
          | true =>
            have hntl : '\n' ∉ tl := by
              intro h'; exact hnl ('#' :: tl) (by simp) (by simp [h'])
            have := hintAheadAny_of_isHint tl ('\n' :: joinNl (m :: rest)) hntl hm
            rw [joinNl_cons_cons, this] at hah
            cases hah
        · exact ⟨Or.inr (hmem x hx).1, (hmem x hx).2⟩
    · exact ⟨[], by simp⟩

theorem isInjection_nil : isInjection [] = false := by decide

/-! ### `suppress_main_guard` -/

theorem dropGuards_append (ls : List Line) (xs ys : List IfStmt) :
    dropGuards ls (xs ++ ys) = dropGuards (dropGuards ls xs) ys := by
  induction xs generalizing ls with
  | nil => rfl
  | cons x xs ih =>
    simp only [List.cons_append, dropGuards]
    exact ih _

/-- Deleting the guarded blocks from the last to the first = walking through the source and keeping
what is outside them. -/
theorem dropGuards_reverse (ifs : List IfStmt) : ∀ (pos : Nat) (ls pre : List Line),
    pre.length = pos → RangesOk pos ls.length ifs →
    dropGuards (pre ++ ls) ifs.reverse = pre ++ keepOutsideGuards pos ls ifs := by
  induction ifs with
  | nil => intro pos ls pre _ _; simp [dropGuards, keepOutsideGuards]
  | cons r rest ih =>
    obtain ⟨a, b, g⟩ := r
    intro pos ls pre hpre hok
    obtain ⟨h1, h2, h3, hrest⟩ := hok
    simp only at h1 h2 h3 hrest
    have hk : b - pos ≤ ls.length := by omega
    have hlen' : (pre ++ ls.take (b - pos)).length = b := by
      simp only [List.length_append, List.length_take, hpre]; omega
    have hrest' : RangesOk b (ls.drop (b - pos)).length rest := by
      simpa only [List.length_drop] using hrest
    have ihh := ih b (ls.drop (b - pos)) (pre ++ ls.take (b - pos)) hlen' hrest'
    rw [List.append_assoc, List.take_append_drop] at ihh
    obtain ⟨K, hK⟩ : ∃ K, K = keepOutsideGuards b (ls.drop (b - pos)) rest := ⟨_, rfl⟩
    rw [← hK] at ihh
    rw [List.reverse_cons, dropGuards_append, ihh]
    have hsplit : ls.take (b - pos) =
        ls.take (a - 1 - pos) ++ (ls.drop (a - 1 - pos)).take (b - (a - 1)) := by
      have : b - pos = (a - 1 - pos) + (b - (a - 1)) := by omega
      rw [this, List.take_add]
    simp only [dropGuards, keepOutsideGuards]
    rw [← hK]
    cases g with
    | false =>
      simp only [Bool.false_eq_true, if_false]
      rw [hsplit]; simp only [List.append_assoc]
    | true =>
      simp only [if_true, List.append_nil]
      unfold delRange
      have hA : (pre ++ ls.take (a - 1 - pos)).length = a - 1 := by
        simp only [List.length_append, List.length_take, hpre]; omega
      have ht : (pre ++ ls.take (b - pos) ++ K).take (a - 1) = pre ++ ls.take (a - 1 - pos) := by
        rw [hsplit]
        have : pre ++ (ls.take (a - 1 - pos) ++ (ls.drop (a - 1 - pos)).take (b - (a - 1))) ++ K =
            (pre ++ ls.take (a - 1 - pos)) ++ ((ls.drop (a - 1 - pos)).take (b - (a - 1)) ++ K) := by
          simp only [List.append_assoc]
        rw [this, List.take_left' hA]
      rw [ht, List.drop_left' hlen', List.append_assoc]

/-! ### `suppress_sys_path_injection` (statement level, repair F50) -/

theorem dropInjectionStmts_append (ls : List Line) (xs ys : List Stmt) :
    dropInjectionStmts ls (xs ++ ys) = dropInjectionStmts (dropInjectionStmts ls xs) ys := by
  induction xs generalizing ls with
  | nil => rfl
  | cons x xs ih =>
    simp only [List.cons_append, dropInjectionStmts]
    exact ih _

/-- The algebra of one deletion, shared with `dropGuards_reverse`: what is left of
`pre ++ ls.take (b - pos) ++ K` once the lines `a … b` are deleted (or not). -/
theorem delRange_step (pre ls K : List Line) (a b pos : Nat) (g : Bool) (hpre : pre.length = pos)
    (h1 : pos < a) (h2 : a ≤ b) (h3 : b ≤ pos + ls.length) :
    (if g = true then delRange (pre ++ ls.take (b - pos) ++ K) a b else pre ++ ls.take (b - pos) ++ K) =
      pre ++ (ls.take (a - 1 - pos) ++ (if g = true then [] else (ls.drop (a - 1 - pos)).take (b - (a - 1))) ++ K) := by
  have hlen' : (pre ++ ls.take (b - pos)).length = b := by
    simp only [List.length_append, List.length_take, hpre]; omega
  have hsplit : ls.take (b - pos) =
      ls.take (a - 1 - pos) ++ (ls.drop (a - 1 - pos)).take (b - (a - 1)) := by
    have : b - pos = (a - 1 - pos) + (b - (a - 1)) := by omega
    rw [this, List.take_add]
  cases g with
  | false =>
    simp only [Bool.false_eq_true, if_false]
    rw [hsplit]; simp only [List.append_assoc]
  | true =>
    simp only [if_true, List.append_nil]
    unfold delRange
    have hA : (pre ++ ls.take (a - 1 - pos)).length = a - 1 := by
      simp only [List.length_append, List.length_take, hpre]; omega
    have ht : (pre ++ ls.take (b - pos) ++ K).take (a - 1) = pre ++ ls.take (a - 1 - pos) := by
      rw [hsplit]
      have : pre ++ (ls.take (a - 1 - pos) ++ (ls.drop (a - 1 - pos)).take (b - (a - 1))) ++ K =
          (pre ++ ls.take (a - 1 - pos)) ++ ((ls.drop (a - 1 - pos)).take (b - (a - 1)) ++ K) := by
        simp only [List.append_assoc]
      rw [this, List.take_left' hA]
    rw [ht, List.drop_left' hlen', List.append_assoc]

/-- Deleting the injection statements from the last to the first — the first line being tested on the
list as it is at that moment — = walking through the source and keeping what is outside the
statements whose first line IN THE SOURCE is an injection. -/
theorem dropInjectionStmts_reverse (ss : List Stmt) : ∀ (pos : Nat) (ls pre : List Line),
    pre.length = pos → RangesOk pos ls.length (injectionMarks (pre ++ ls) ss) →
    dropInjectionStmts (pre ++ ls) ss.reverse =
      pre ++ keepOutsideGuards pos ls (injectionMarks (pre ++ ls) ss) := by
  induction ss with
  | nil => intro pos ls pre _ _; simp [dropInjectionStmts, keepOutsideGuards, injectionMarks]
  | cons s rest ih =>
    obtain ⟨a, b, c0⟩ := s
    intro pos ls pre hpre hok
    cases c0 with
    | false =>
      have hm : injectionMarks (pre ++ ls) (⟨a, b, false⟩ :: rest) = injectionMarks (pre ++ ls) rest := by
        simp [injectionMarks]
      rw [hm] at hok ⊢
      rw [List.reverse_cons, dropInjectionStmts_append, ih pos ls pre hpre hok]
      simp [dropInjectionStmts, stmtIsInjection]
    | true =>
      have hm : injectionMarks (pre ++ ls) (⟨a, b, true⟩ :: rest) =
          ⟨a, b, isInjection ((pre ++ ls).getD (a - 1) [])⟩ :: injectionMarks (pre ++ ls) rest := by
        simp [injectionMarks]
      rw [hm] at hok ⊢
      obtain ⟨h1, h2, h3, hrest⟩ := hok
      simp only at h1 h2 h3 hrest
      have hlen' : (pre ++ ls.take (b - pos)).length = b := by
        simp only [List.length_append, List.length_take, hpre]; omega
      have hfull : pre ++ ls.take (b - pos) ++ ls.drop (b - pos) = pre ++ ls := by
        rw [List.append_assoc, List.take_append_drop]
      have hrest' : RangesOk b (ls.drop (b - pos)).length
          (injectionMarks (pre ++ ls.take (b - pos) ++ ls.drop (b - pos)) rest) := by
        rw [hfull]; simpa only [List.length_drop] using hrest
      have ihh := ih b (ls.drop (b - pos)) (pre ++ ls.take (b - pos)) hlen' hrest'
      rw [hfull] at ihh
      obtain ⟨K, hK⟩ : ∃ K, K = keepOutsideGuards b (ls.drop (b - pos)) (injectionMarks (pre ++ ls) rest) :=
        ⟨_, rfl⟩
      rw [← hK] at ihh
      rw [List.reverse_cons, dropInjectionStmts_append, ihh]
      have hget : (pre ++ ls.take (b - pos) ++ K).getD (a - 1) [] = (pre ++ ls).getD (a - 1) [] := by
        simp only [List.getD_eq_getElem?_getD]
        have e1 : (pre ++ ls.take (b - pos) ++ K)[a - 1]? = (pre ++ ls.take (b - pos))[a - 1]? :=
          List.getElem?_append_left (by rw [hlen']; omega)
        have e2 : (pre ++ ls.take (b - pos) ++ ls.drop (b - pos))[a - 1]? = (pre ++ ls.take (b - pos))[a - 1]? :=
          List.getElem?_append_left (by rw [hlen']; omega)
        rw [← hfull, e1, e2]
      simp only [dropInjectionStmts, stmtIsInjection, Bool.true_and, hget, keepOutsideGuards]
      rw [← hK]
      exact delRange_step pre ls K a b pos _ hpre h1 h2 h3

/-! ### the end of `full_cleaning`: no blank line -/

theorem finish_nil_of_strip_nil {s : Text} (h : strip s = []) : finish s = [] := by
  simp [finish, h, suppressBlankLines, suppressUselessPass, splitNl, sblLines, joinNl, supPassLines]

theorem finish_lines (s : Text) (c : Char) (r : Text) (h : strip s = c :: r) (hc : isWs c = false)
    (hl : lastNonWs (c :: r) = true) :
    splitNl (finish s) = supPassLines (sblLines (splitNl (c :: r))) ∧
      ∀ l ∈ sblLines (splitNl (c :: r)), blank l = false := by
  obtain ⟨l, ls, hsp, hlb⟩ := splitNl_head_nonblank c r hc
  have hlast := splitNl_lastNonblank (c :: r) hl
  have hX : ∀ x ∈ sblLines (splitNl (c :: r)), blank x = false := by
    rw [hsp] at hlast ⊢
    exact sblLines_nonblank l ls hlb hlast
  have hXn : ∀ x ∈ sblLines (splitNl (c :: r)), '\n' ∉ x :=
    sblLines_no_nl _ (splitNl_no_nl _)
  have hXne : sblLines (splitNl (c :: r)) ≠ [] := sblLines_ne_nil _ (splitNl_ne_nil _)
  refine ⟨?_, hX⟩
  simp only [finish, h, suppressBlankLines, suppressUselessPass]
  rw [splitNl_joinNl _ hXne hXn]
  exact splitNl_joinNl _ (supPassLines_ne_nil _ hXne)
    (fun x hx => hXn x (supPassLines_subset _ x hx))

theorem finish_noBlankLine (s : Text) : NoBlankLine (finish s) := by
  rcases strip_spec s with h | ⟨c, r, h, hc, hl⟩
  · exact Or.inl (finish_nil_of_strip_nil h)
  · right
    obtain ⟨hlines, hX⟩ := finish_lines s c r h hc hl
    rw [hlines]
    exact fun l hl' => hX l (supPassLines_subset _ l hl')

theorem supPassLines_no_nl (ls : List Line) (h : ∀ l ∈ ls, '\n' ∉ l) :
    ∀ l ∈ supPassLines ls, '\n' ∉ l := fun l hl => h l (supPassLines_subset _ l hl)

theorem suppressUselessPass_idem (t : Text) :
    suppressUselessPass (suppressUselessPass t) = suppressUselessPass t := by
  simp only [suppressUselessPass]
  rw [splitNl_joinNl _ (supPassLines_ne_nil _ (splitNl_ne_nil _))
    (supPassLines_no_nl _ (splitNl_no_nl _)), supPassLines_idem]

theorem suppressBlankLines_idem (t : Text) :
    suppressBlankLines (suppressBlankLines t) = suppressBlankLines t := by
  simp only [suppressBlankLines]
  rw [splitNl_joinNl _ (sblLines_ne_nil _ (splitNl_ne_nil _)) (sblLines_no_nl _ (splitNl_no_nl _)),
    sblLines_idem]

end Paroxy.Cleanup
