/-
Reflection lemma for C08: a `PyExpr` only *compares* the four endpoints, so its value on any
integer environment equals its value on the rank environment in {0,1,2,3}⁴. Agreement of two
expressions on the 256 small environments therefore implies agreement on all of `Int⁴`.
-/
import Paroxy.Model.CompareSpans
namespace Paroxy

def allVars : List Var := [.x0, .x1, .y0, .y1]

/-- Rank of an endpoint = number of endpoints strictly below it. -/
def rank (ρ : Env) (v : Var) : Int := ((allVars.filter (fun w => decide (ρ w < ρ v))).length : Nat)

theorem rank_lt (ρ : Env) (a b : Var) : rank ρ a < rank ρ b ↔ ρ a < ρ b := by
  unfold rank allVars
  cases a <;> cases b <;> simp only [List.filter, Int.lt_irrefl, decide_false] <;>
    (repeat' split) <;> simp_all <;> omega

theorem rank_le (ρ : Env) (a b : Var) : rank ρ a ≤ rank ρ b ↔ ρ a ≤ ρ b := by
  have h := rank_lt ρ b a
  constructor
  · intro h1; by_cases h2 : ρ a ≤ ρ b
    · exact h2
    · have : ρ b < ρ a := by omega
      have := h.mpr this; omega
  · intro h1; by_cases h2 : rank ρ a ≤ rank ρ b
    · exact h2
    · have : rank ρ b < rank ρ a := by omega
      have := h.mp this; omega

theorem rank_eq (ρ : Env) (a b : Var) : rank ρ a = rank ρ b ↔ ρ a = ρ b := by
  have h1 := rank_le ρ a b; have h2 := rank_le ρ b a
  constructor <;> intro h <;> omega

theorem Op.eval_rank (o : Op) (ρ : Env) (a b : Var) :
    o.eval (rank ρ a) (rank ρ b) = o.eval (ρ a) (ρ b) := by
  cases o <;> simp [Op.eval, rank_lt, rank_le, rank_eq]

theorem evalChain_rank (ρ : Env) (v : Var) (r : List (Op × Var)) :
    evalChain (rank ρ) v r = evalChain ρ v r := by
  induction r generalizing v with
  | nil => rfl
  | cons h t ih => obtain ⟨o, w⟩ := h; simp [evalChain, Op.eval_rank, ih]

theorem PyExpr.eval_rank (e : PyExpr) (ρ : Env) : e.eval (rank ρ) = e.eval ρ := by
  induction e with
  | cmp f r => exact evalChain_rank ρ f r
  | and a b iha ihb => simp [PyExpr.eval, iha, ihb]
  | or a b iha ihb => simp [PyExpr.eval, iha, ihb]
  | not a ih => simp [PyExpr.eval, ih]
  | const b => rfl

/-- Environments over {0,1,2,3}. -/
def envOf (a b c d : Nat) : Env
  | .x0 => a | .x1 => b | .y0 => c | .y1 => d

def small : List Nat := [0, 1, 2, 3]

/-- Two expressions agree on the 256 small environments. -/
def agree (e1 e2 : PyExpr) : Bool :=
  small.all fun a => small.all fun b => small.all fun c => small.all fun d =>
    e1.eval (envOf a b c d) == e2.eval (envOf a b c d)

/-- `e1` on `(x, y)` agrees with `e2` on `(y, x)` on the 256 small environments. -/
def agreeSwap (e1 e2 : PyExpr) : Bool :=
  small.all fun a => small.all fun b => small.all fun c => small.all fun d =>
    e1.eval (envOf a b c d) == e2.eval (envOf c d a b)

theorem rank_range (ρ : Env) (v : Var) : 0 ≤ rank ρ v ∧ rank ρ v ≤ 4 := by
  unfold rank
  constructor
  · omega
  · have := List.length_filter_le (fun w => decide (ρ w < ρ v)) allVars
    simp [allVars] at this ⊢; omega

theorem rank_lt4 (ρ : Env) (v : Var) : rank ρ v < 4 := by
  unfold rank allVars
  cases v <;> simp only [List.filter, Int.lt_irrefl, decide_false] <;> (repeat' split) <;> simp

theorem rank_small (ρ : Env) : ∃ a ∈ small, ∃ b ∈ small, ∃ c ∈ small, ∃ d ∈ small,
    rank ρ = envOf a b c d := by
  have hr : ∀ v, ∃ n ∈ small, rank ρ v = (n : Int) := by
    intro v
    have h1 := rank_range ρ v; have h2 := rank_lt4 ρ v
    refine ⟨(rank ρ v).toNat, ?_, ?_⟩
    · have : (rank ρ v).toNat < 4 := by omega
      simp [small]; omega
    · omega
  obtain ⟨a, ha, ea⟩ := hr .x0; obtain ⟨b, hb, eb⟩ := hr .x1
  obtain ⟨c, hc, ec⟩ := hr .y0; obtain ⟨d, hd, ed⟩ := hr .y1
  refine ⟨a, ha, b, hb, c, hc, d, hd, ?_⟩
  funext v; cases v <;> simp [envOf, ea, eb, ec, ed]

theorem agree_sound (e1 e2 : PyExpr) (h : agree e1 e2 = true) (ρ : Env) :
    e1.eval ρ = e2.eval ρ := by
  rw [← PyExpr.eval_rank e1 ρ, ← PyExpr.eval_rank e2 ρ]
  obtain ⟨a, ha, b, hb, c, hc, d, hd, hEnv⟩ := rank_small ρ
  rw [hEnv]
  simp only [agree, List.all_eq_true] at h
  simpa using h a ha b hb c hc d hd

/-- The environment with the roles of `x` and `y` exchanged. -/
def swapEnv (ρ : Env) : Env
  | .x0 => ρ .y0 | .x1 => ρ .y1 | .y0 => ρ .x0 | .y1 => ρ .x1

def Var.swap : Var → Var
  | .x0 => .y0 | .x1 => .y1 | .y0 => .x0 | .y1 => .x1

def PyExpr.swap : PyExpr → PyExpr
  | .cmp f r => .cmp f.swap (r.map fun (o, v) => (o, v.swap))
  | .and a b => .and a.swap b.swap
  | .or a b => .or a.swap b.swap
  | .not a => .not a.swap
  | .const b => .const b

theorem swapEnv_apply (ρ : Env) (v : Var) : swapEnv ρ v = ρ v.swap := by cases v <;> rfl

theorem evalChain_swap (ρ : Env) (v : Var) (r : List (Op × Var)) :
    evalChain ρ v.swap (r.map fun (o, w) => (o, w.swap)) = evalChain (swapEnv ρ) v r := by
  induction r generalizing v with
  | nil => rfl
  | cons h t ih => obtain ⟨o, w⟩ := h; simp [evalChain, swapEnv_apply, ih]

theorem PyExpr.eval_swap (e : PyExpr) (ρ : Env) : e.swap.eval ρ = e.eval (swapEnv ρ) := by
  induction e with
  | cmp f r => exact evalChain_swap ρ f r
  | and a b iha ihb => simp [PyExpr.eval, PyExpr.swap, iha, ihb]
  | or a b iha ihb => simp [PyExpr.eval, PyExpr.swap, iha, ihb]
  | not a ih => simp [PyExpr.eval, PyExpr.swap, ih]
  | const b => rfl

theorem swapEnv_spanEnv (x y : Span) : swapEnv (spanEnv x y) = spanEnv y x := by
  funext v; cases v <;> rfl

end Paroxy
