/-
After the normalisation of the markers (`Cleanup.normalize_paroxython_comments`, first step of
`get_program`) a marker in sight from the beginning of a line is always followed by a space, or by
the end of the text (the final trimming eats that space on the last line, F46). This is what makes
`remove_hints` (`[\s\x1c-\x1f]*# paroxython:.*`, no space required since F46) and the isolated-hint
regex (`# paroxython:(?: (.*))?$`) agree on which lines are hint comments alone: `prepare_spaced`.
-/
import Paroxy.Proofs.HintsAllTexts
namespace Paroxy.Hints

variable {O : CharOracle}

/-! ### The scan: its output starts with a normalised marker or with the pending text -/

theorem nstep_hash_char {st : NState} {c : Char} (h : (nstep O) st c = .hash) : c = '#' := by
  unfold nstep at h
  split at h
  · assumption
  · cases st <;> simp only at h <;> (repeat' split at h) <;> cases h

theorem normGo_head (t : Str) : ∀ (st : NState) (pend : Str), (st = .tail → pend = []) →
    (∃ r, (normGo O) st pend t = m14 ++ r) ∨ (∃ r, (normGo O) st pend t = pend ++ r) := by
  induction t with
  | nil => intro st pend _; right; exact ⟨[], by simp [normGo]⟩
  | cons c t ih =>
    intro st pend hst
    simp only [normGo]
    cases hn : (nstep O) st c <;> simp only
    · rename_i s
      rcases ih s (pend ++ [c]) (fun e => absurd e (nstep_cont_ne_tail hn)) with ⟨r, h⟩ | ⟨r, h⟩
      · left; exact ⟨r, h⟩
      · right; exact ⟨c :: r, by rw [h]; simp⟩
    · right; exact ⟨_, rfl⟩
    · right; exact ⟨_, rfl⟩
    · left; exact ⟨_, rfl⟩
    · right
      have := hst (nstep_drop hn)
      subst this
      exact ⟨(normGo O) .tail [] t, by simp⟩

theorem normGo_step (st : NState) (hst : st ≠ .tail) (pend : Str) (c : Char) (t : Str) :
    (∃ r, (normGo O) st pend (c :: t) = m14 ++ r) ∨ (∃ r, (normGo O) st pend (c :: t) = pend ++ c :: r) := by
  simp only [normGo]
  cases hn : (nstep O) st c <;> simp only
  · rename_i s
    rcases normGo_head (O := O) t s (pend ++ [c]) (fun e => absurd e (nstep_cont_ne_tail hn)) with ⟨r, h⟩ | ⟨r, h⟩
    · left; exact ⟨r, h⟩
    · right; exact ⟨r, by rw [h]; simp⟩
  · right; exact ⟨_, rfl⟩
  · right
    have hc := nstep_hash_char hn
    subst hc
    rcases normGo_head (O := O) t .hash ['#'] (fun e => by cases e) with ⟨r, h⟩ | ⟨r, h⟩
    · exact ⟨m14.tail ++ r, by rw [h]; simp [m14, m13]⟩
    · exact ⟨r, by rw [h]; simp⟩
  · left; exact ⟨_, rfl⟩
  · exact absurd (nstep_drop hn) hst

/-- The state of the scan after the first `k` characters of `# paroxython:`. -/
def stAt : Nat → NState
  | 0 => .idle
  | 1 => .hash
  | 2 => .hash
  | k + 3 => .letters (k + 1)

theorem stAt_ne_tail (k : Nat) : stAt k ≠ .tail := by
  match k with
  | 0 => simp [stAt]
  | 1 => simp [stAt]
  | 2 => simp [stAt]
  | k + 3 => simp [stAt]

theorem m13_prefix_take (k : Nat) (hk : k < 13) (c : Char) (r : Str)
    (h : m13 <+: (m13.take k ++ c :: r)) : m13[k]? = some c := by
  obtain ⟨s, hs⟩ := h
  have h1 := congrArg (fun l => l[k]?) hs
  rw [List.getElem?_append_left (by simpa [m13] using hk),
    List.getElem?_append_right (by simp [m13])] at h1
  have : k - (List.take k m13).length = 0 := by simp [m13]; omega
  rw [this] at h1
  simpa using h1

/-- **The scan never leaves a marker without its space**: from the state reached after `k` characters
of the marker, an output that begins with `# paroxython:` begins with `# paroxython: `. -/
theorem normGo_m13 (t : Str) : ∀ k, 1 ≤ k → k ≤ 12 →
    m13.isPrefixOf ((normGo O) (stAt k) (m13.take k) t) = true →
    m14.isPrefixOf ((normGo O) (stAt k) (m13.take k) t) = true := by
  induction t with
  | nil =>
    intro k _ hk h
    exfalso
    simp only [normGo, List.isPrefixOf_iff_prefix] at h
    have := h.length_le
    simp [m13] at this
    omega
  | cons c t ih =>
    intro k hk1 hk h
    by_cases hc : m13[k]? = some c
    · by_cases h12 : k = 12
      · subst h12
        have : c = ':' := by simpa [m13] using hc.symm
        subst this
        have hs : (nstep O) (stAt 12) ':' = .accept := by rfl
        simp only [normGo, hs]
        simp [List.isPrefixOf_iff_prefix]
      · have hs : (nstep O) (stAt k) c = .cont (stAt (k + 1)) ∧ m13.take k ++ [c] = m13.take (k + 1) := by
          have hk' : k ≤ 11 := by omega
          interval_cases k <;> (simp [m13] at hc; subst hc; exact ⟨by rfl, by rfl⟩)
        have hgo : (normGo O) (stAt k) (m13.take k) (c :: t) = (normGo O) (stAt (k + 1)) (m13.take (k + 1)) t := by
          simp only [normGo, hs.1, hs.2]
        rw [hgo] at h ⊢
        exact ih (k + 1) (by omega) (by omega) h
    · rcases normGo_step (O := O) (stAt k) (stAt_ne_tail k) (m13.take k) c t with ⟨r, hr⟩ | ⟨r, hr⟩
      · rw [hr]; simp [List.isPrefixOf_iff_prefix]
      · exfalso
        rw [hr, List.isPrefixOf_iff_prefix] at h
        exact hc (m13_prefix_take k (by omega) c r h)

/-- What a line looks like, white space skipped, once its markers are normalised: a marker in sight
comes with its space. -/
def Spaced14 (O : CharOracle) (l : Str) : Prop :=
  m13.isPrefixOf (l.dropWhile (isSpacePy O)) = true → m14.isPrefixOf (l.dropWhile (isSpacePy O)) = true

theorem normGo_idle_spaced (l : Str) : Spaced14 O ((normGo O) .idle [] l) := by
  induction l with
  | nil => intro h; simp [normGo, m13] at h
  | cons c t ih =>
    by_cases hc : c = '#'
    · subst hc
      have hs : (nstep O) .idle '#' = .hash := by rfl
      have hgo : (normGo O) .idle [] ('#' :: t) = (normGo O) (stAt 1) (m13.take 1) t := by
        simp only [normGo, hs]; rfl
      have hd : ((normGo O) (stAt 1) (m13.take 1) t).dropWhile (isSpacePy O) = (normGo O) (stAt 1) (m13.take 1) t := by
        rcases normGo_head (O := O) t (stAt 1) (m13.take 1) (fun e => by cases e) with ⟨r, hr⟩ | ⟨r, hr⟩
        · rw [hr]; simp only [m14, m13, List.cons_append]; rw [List.dropWhile_cons_of_neg (by cdec)]
        · rw [hr]; simp only [m13, List.take, List.cons_append]; rw [List.dropWhile_cons_of_neg (by cdec)]
      unfold Spaced14
      rw [hgo, hd]
      exact normGo_m13 t 1 (by omega) (by omega)
    · have hs : (nstep O) .idle c = .reset := by simp [nstep, hc]
      have hgo : (normGo O) .idle [] (c :: t) = c :: (normGo O) .idle [] t := by
        simp only [normGo, hs]; rfl
      unfold Spaced14
      rw [hgo]
      by_cases hw : (isSpacePy O) c = true
      · rw [List.dropWhile_cons_of_pos hw]; exact ih
      · rw [List.dropWhile_cons_of_neg hw]
        intro h
        simp [m13, List.isPrefixOf_cons_cons] at h
        exact absurd h.1.symm hc

theorem normLine_spaced (l : Str) : Spaced14 O ((normLine O) l) := normGo_idle_spaced l

/-- Removing white space at the end of a line keeps it well spaced, the marker being possibly left
without its space at the very end. -/
theorem spacedLine_of_trimmed (l' w : Str) (hw : ∀ c ∈ w, (isSpaceRe O) c = true) (h : Spaced14 O (l' ++ w)) :
    SpacedLine O l' := by
  intro hah
  unfold hintAhead at hah
  have hex : ∃ c ∈ l', (isSpacePy O) c = false := by
    by_contra hno
    have hall : ∀ c ∈ l', (isSpacePy O) c = true := by
      intro c hc
      cases hh : (isSpacePy O) c with
      | true => rfl
      | false => exact absurd ⟨c, hc, hh⟩ hno
    have : l'.dropWhile (isSpacePy O) = [] := by
      have := List.dropWhile_append_of_pos (l₂ := []) hall
      simpa using this
    rw [this] at hah; simp [m13] at hah
  have h14 := h (by rw [dropWhile_append_of_exists l' w hex]
                    rw [List.isPrefixOf_iff_prefix] at hah ⊢
                    exact hah.trans (List.prefix_append _ _))
  rw [dropWhile_append_of_exists l' w hex] at h14
  rw [List.isPrefixOf_iff_prefix] at hah h14
  obtain ⟨t, ht⟩ := hah
  intro hnone
  rw [← ht] at h14
  simp only [isolatedRest, ← ht] at hnone
  have hp : m13.isPrefixOf (m13 ++ t) = true := by simp [List.isPrefixOf_iff_prefix]
  rw [hp] at hnone
  simp only [if_true] at hnone
  have hd : (m13 ++ t).drop 13 = t := by simp [m13]
  rw [hd] at hnone
  cases t with
  | nil => simp at hnone
  | cons x r =>
    have hx : x = ' ' := by
      obtain ⟨s, hs⟩ := h14
      have h1 := congrArg (fun l => l[13]?) hs
      simpa [m14, m13] using h1.symm
    simp [hx] at hnone

/-! ### The lines of a trimmed text -/

theorem mem_splitNL_cons_nl (R : Str) (l : Str) (h : l ∈ splitNL R) : l ∈ splitNL ('\n' :: R) := by
  simp only [splitNL, splitNL', if_true] at h ⊢
  exact List.mem_cons_of_mem _ h

theorem mem_splitNL_tail (c : Char) (R : Str) (l : Str) (h : l ∈ (splitNL' R).2) : l ∈ (splitNL' (c :: R)).2 := by
  by_cases hc : c = '\n'
  · simp only [splitNL', hc, if_true]; exact List.mem_cons_of_mem _ h
  · simp only [splitNL', hc, if_false]; exact h

/-- The lines of what follows a line break are lines of the text. -/
theorem mem_splitNL_append_nl (A R : Str) (l : Str) (h : l ∈ splitNL R) : l ∈ splitNL (A ++ '\n' :: R) := by
  have h0 : l ∈ (splitNL' ('\n' :: R)).2 := by
    simp only [splitNL', if_true]; exact h
  have : l ∈ (splitNL' (A ++ '\n' :: R)).2 := by
    induction A with
    | nil => exact h0
    | cons a A ih => exact mem_splitNL_tail a _ l ih
  exact List.mem_cons_of_mem _ this

/-- The lines of a text from which trailing white space is missing are the lines of the text, the
last one without some white space at its end. -/
theorem splitNL'_trailing (T B : Str) (hB : ∀ c ∈ B, (isSpaceRe O) c = true) :
    (∃ w, (splitNL' (T ++ B)).1 = (splitNL' T).1 ++ w ∧ ∀ c ∈ w, (isSpaceRe O) c = true) ∧
      ∀ l' ∈ (splitNL' T).2, ∃ l ∈ (splitNL' (T ++ B)).2, ∃ w, l = l' ++ w ∧ ∀ c ∈ w, (isSpaceRe O) c = true := by
  induction T with
  | nil =>
    refine ⟨⟨(splitNL' B).1, by simp [splitNL'], fun c hc => hB c ((mem_splitNL' B).1 c hc)⟩, ?_⟩
    intro l' hl'; simp [splitNL'] at hl'
  | cons x T ih =>
    obtain ⟨⟨w0, hw0, hws0⟩, ih2⟩ := ih
    by_cases hx : x = '\n'
    · subst hx
      simp only [splitNL', if_true, List.cons_append]
      refine ⟨⟨[], by simp, fun c hc => absurd hc List.not_mem_nil⟩, ?_⟩
      intro l' hl'
      rcases List.mem_cons.mp hl' with rfl | hl'
      · exact ⟨_, List.mem_cons_self, w0, hw0, hws0⟩
      · obtain ⟨l, hl, w, hw, hws⟩ := ih2 l' hl'
        exact ⟨l, List.mem_cons_of_mem _ hl, w, hw, hws⟩
    · simp only [splitNL', hx, if_false, List.cons_append]
      exact ⟨⟨w0, by rw [hw0], hws0⟩, ih2⟩

theorem splitNL_trailing (T B : Str) (hB : ∀ c ∈ B, (isSpaceRe O) c = true) :
    ∀ l' ∈ splitNL T, ∃ l ∈ splitNL (T ++ B), ∃ w, l = l' ++ w ∧ ∀ c ∈ w, (isSpaceRe O) c = true := by
  obtain ⟨⟨w0, hw0, hws0⟩, h2⟩ := splitNL'_trailing (O := O) T B hB
  intro l' hl'
  rcases List.mem_cons.mp hl' with rfl | hl'
  · exact ⟨_, List.mem_cons_self, w0, hw0, hws0⟩
  · obtain ⟨l, hl, w, hw, hws⟩ := h2 l' hl'
    exact ⟨l, List.mem_cons_of_mem _ hl, w, hw, hws⟩

theorem mem_dropWhile_of_not {p : Char → Bool} {l : Str} {c : Char} (hc : c ∈ l) (hpc : ¬ p c = true) :
    c ∈ l.dropWhile p := by
  induction l with
  | nil => cases hc
  | cons x t ih =>
    rcases List.mem_cons.mp hc with rfl | hc
    · rw [List.dropWhile_cons_of_neg hpc]; simp
    · by_cases hx : p x = true
      · rw [List.dropWhile_cons_of_pos hx]; exact ih hc
      · rw [List.dropWhile_cons_of_neg hx]; exact List.mem_cons_of_mem _ hc

/-- What the trimming removes in front of the text ends with a line break. -/
theorem lead_decomp (s : Str) :
    ∃ A, s = A ++ (keepAfterLastNL (s.takeWhile (isSpaceRe O)) ++ s.dropWhile (isSpaceRe O)) ∧
      (A = [] ∨ ∃ A', A = A' ++ ['\n']) := by
  unfold keepAfterLastNL
  split
  · rename_i hnl
    let W := s.takeWhile (isSpaceRe O)
    let p : Char → Bool := fun c => c != '\n'
    have hmem : '\n' ∈ W.reverse := by simpa [W] using hnl
    have hd : ∃ D, W.reverse.dropWhile p = '\n' :: D := by
      cases hdw : W.reverse.dropWhile p with
      | nil =>
        exfalso
        have hall : ∀ c ∈ W.reverse, p c = true := by
          intro c hc
          by_contra hpc
          have : c ∈ W.reverse.dropWhile p := mem_dropWhile_of_not hc hpc
          rw [hdw] at this; cases this
        have := hall _ hmem
        simp [p] at this
      | cons x D =>
        have := List.head?_dropWhile_not p W.reverse
        rw [hdw] at this
        simp [p] at this
        exact ⟨D, by rw [this]⟩
    obtain ⟨D, hD⟩ := hd
    refine ⟨D.reverse ++ ['\n'], ?_, Or.inr ⟨D.reverse, rfl⟩⟩
    have hW : W = (W.reverse.dropWhile p).reverse ++ (W.reverse.takeWhile p).reverse := by
      rw [← List.reverse_append, List.takeWhile_append_dropWhile, List.reverse_reverse]
    have hs : s = W ++ s.dropWhile (isSpaceRe O) := (List.takeWhile_append_dropWhile).symm
    conv_lhs => rw [hs, hW, hD]
    simp [W, p]
  · exact ⟨[], by simp, Or.inl rfl⟩

/-- Every line of the trimmed text is a line of the text, without some white space at its end. -/
theorem lines_of_trimEnds (s : Str) :
    ∀ l' ∈ splitNL ((trimEnds O) s), ∃ l ∈ splitNL s, ∃ w, l = l' ++ w ∧ ∀ c ∈ w, (isSpaceRe O) c = true := by
  obtain ⟨A, hA, hAe⟩ := lead_decomp (O := O) s
  generalize hlead : keepAfterLastNL (s.takeWhile (isSpaceRe O)) ++ s.dropWhile (isSpaceRe O) = lead at hA
  have ht : (trimEnds O) s = (lead.reverse.dropWhile (isSpaceRe O)).reverse := by
    unfold trimEnds; simp only [hlead]
  have hB : lead = (trimEnds O) s ++ (lead.reverse.takeWhile (isSpaceRe O)).reverse := by
    rw [ht, ← List.reverse_append, List.takeWhile_append_dropWhile, List.reverse_reverse]
  intro l' hl'
  obtain ⟨l, hl, w, hw, hws⟩ := splitNL_trailing (O := O) ((trimEnds O) s)
    (lead.reverse.takeWhile (isSpaceRe O)).reverse
    (fun c hc => mem_takeWhile_imp' (List.mem_reverse.mp hc)) l' hl'
  rw [← hB] at hl
  refine ⟨l, ?_, w, hw, hws⟩
  rcases hAe with rfl | ⟨A', rfl⟩
  · rw [hA]; simpa using hl
  · rw [hA, List.append_assoc]; exact mem_splitNL_append_nl A' lead l hl

theorem normLine_noNL (l : Str) (h : '\n' ∉ l) : '\n' ∉ (normLine O) l := by
  intro hm
  rcases mem_normGo (O := O) l .idle [] '\n' hm with h1 | h1 | h1
  · cases h1
  · exact h h1
  · revert h1; cdec

/-- **The prepared text is well spaced**: on every line of the text `get_program` numbers the hints
on, a marker in sight from the beginning of the line is followed by a space or ends the line — the
line is then a hint alone on its line for `centrifugate_hints`, so `remove_hints` never deletes a
line that `centrifugate_hints` kept. -/
theorem prepare_spaced (src : Str) : ∀ l ∈ splitNL ((prepare O) src), SpacedLine O l := by
  intro l' hl'
  unfold prepare at hl'
  obtain ⟨l, hl, w, hw, hws⟩ := lines_of_trimEnds (O := O) _ l' hl'
  rw [splitNL_joinNL _ (by simp [splitNL]) (by
    intro x hx
    simp only [List.mem_map] at hx
    obtain ⟨l0, h0, rfl⟩ := hx
    exact normLine_noNL l0 (splitNL_noNL src l0 h0))] at hl
  simp only [List.mem_map] at hl
  obtain ⟨l0, _, rfl⟩ := hl
  exact spacedLine_of_trimmed l' w hws (by rw [← hw]; exact normLine_spaced l0)

end Paroxy.Hints
