/-
C02 helper lemmas on the tree model: the positions captured by the `node` feature are positions of
nodes of the tree, the second one later in pre-order than the first.
-/
import Paroxy.Proofs.NodeFeature
import Paroxy.Proofs.FlatTweaks
import Paroxy.Model.WholeSpan
namespace Paroxy.Flat

/-- Sharper form of `nodeMatchAt_positioned`: the second POS (if any) is what `findLastPos` finds in
the lines that follow the node's own position line. -/
theorem nodeMatchAt_positioned' (h : Str → Str) (pre ty r : Str) (isE : Bool) (n : Nat) (addr : List Nat)
    (rest : List Str) (hpre : '=' ∉ pre) (hty : '=' ∉ ty) (hne : ty ≠ []) :
    nodeMatchAt (typeLine pre ty :: ((if isE then [hashLine pre (h r)] else []) ++
      [posLine pre n (encPath addr)] ++ rest)) =
      some (ty, posText n addr :: (findLastPos pre rest).toList) := by
  obtain ⟨hm, hall⟩ := typeSplits_typeLine hpre hty hne
  have hnn : typeSplits (typeLine pre ty) ≠ [] := fun e => by rw [e] at hm; cases hm
  simp only [nodeMatchAt]
  rw [firstSome_of_all_eq _ (pre, ty) _ hnn hall]
  have hfp : findFirstPos pre ((if isE then [hashLine pre (h r)] else []) ++
      [posLine pre n (encPath addr)] ++ rest) = some (posText n addr, rest) := by
    have hp : firstPos? pre (posLine pre n (encPath addr)) = some (posText n addr) := by
      rw [posLine_eq]; exact firstPos_posLine pre _ (posText_ne_nil n addr)
    cases isE with
    | false => simp [findFirstPos, hp]
    | true => simp [findFirstPos, hp, firstPos_hashLine, startsWithMore_hashLine]
  simp only [nodeTry, hfp]
  cases findLastPos pre rest <;> rfl

/-- What `findLastPos` returns comes from one of the lines it is given. -/
theorem findLastPos_some {g p : Str} : ∀ {L : List Str}, findLastPos g L = some p →
    ∃ l L', l ∈ L ∧ lastPos? g l L' = some p
  | [], h => by simp [findLastPos] at h
  | l :: rest, h => by
    simp only [findLastPos] at h
    split at h
    · cases hr : findLastPos g rest with
      | some q =>
        rw [hr] at h
        simp only [Option.some.injEq] at h
        obtain ⟨l', L', hl, hp⟩ := findLastPos_some hr
        exact ⟨l', L', List.mem_cons_of_mem _ hl, h ▸ hp⟩
      | none =>
        rw [hr] at h
        exact ⟨l, rest, List.mem_cons_self, h⟩
    · cases h

theorem prefix_of_keyval {P K V : Str} (hP : '=' ∉ P) (h : P <+: K ++ '=' :: V) : P <+: K := by
  obtain ⟨t, ht⟩ := h
  rcases List.append_eq_append_iff.mp ht with ⟨a', h1, _⟩ | ⟨c', h1, h2⟩
  · exact ⟨a', h1.symm⟩
  · cases c' with
    | nil => simp at h1; exact ⟨[], by simp [h1]⟩
    | cons x c'' =>
      simp only [List.cons_append, List.cons.injEq] at h2
      exact absurd (by rw [h1, ← h2.1]; simp) hP

theorem takeWhile_ne_of_not_mem (c : Char) : ∀ (V : Str), c ∉ V → V.takeWhile (· != c) = V
  | [], _ => rfl
  | x :: V, h => by
    have hx : x ≠ c := fun e => h (by simp [e])
    have hV : c ∉ V := fun e => h (List.mem_cons_of_mem _ e)
    have hb : (x != c) = true := by simp [hx]
    rw [List.takeWhile_cons_of_pos (p := fun y => y != c) (a := x) hb, takeWhile_ne_of_not_mem c V hV]

theorem takeWhile_ne_append (c : Char) : ∀ (V W : Str), c ∉ V → (V ++ c :: W).takeWhile (· != c) = V
  | [], W, _ => by simp [List.takeWhile]
  | x :: V, W, h => by
    have hx : x ≠ c := fun e => h (by simp [e])
    have hV : c ∉ V := fun e => h (List.mem_cons_of_mem _ e)
    have hb : (x != c) = true := by simp [hx]
    rw [List.cons_append, List.takeWhile_cons_of_pos (p := fun y => y != c) (a := x) hb,
      takeWhile_ne_append c V W hV]

theorem joinLines_cons (l : Str) (L : List Str) :
    joinLines (l :: L) = l ∨ ∃ W, joinLines (l :: L) = l ++ '\n' :: W := by
  cases L with
  | nil => left; rfl
  | cons x xs => right; exact ⟨joinLines (x :: xs), rfl⟩

/-- On a `key=value` line (no `=` in the key, no newline in the value) the last-POS pattern can only
succeed if the key ends with `/_pos`, and then captures the whole value. -/
theorem lastPos_keyval {g K V p : Str} (L' : List Str) (hg : '=' ∉ g) (hK : '=' ∉ K) (hV : '\n' ∉ V)
    (h : lastPos? g (K ++ '=' :: V) L' = some p) : (cs!"/_pos") <:+ K ∧ p = V := by
  unfold lastPos? at h
  split at h
  · rename_i hp
    rw [List.isPrefixOf_iff_prefix] at hp
    have hp' : g ++ ['/'] <+: K := prefix_of_keyval (by simp [hg]) hp
    obtain ⟨K2, hK2⟩ := hp'
    have hd : (K ++ '=' :: V).drop (g.length + 1) = K2 ++ '=' :: V := by
      rw [← hK2]
      have : g ++ ['/'] ++ K2 ++ '=' :: V = (g ++ ['/']) ++ (K2 ++ '=' :: V) := by simp
      rw [this]; exact List.drop_left' (by simp)
    have hK2' : '=' ∉ K2 := fun e => hK (by rw [← hK2]; simp [e])
    rw [hd] at h
    have hkey : ∀ T, (K2 ++ '=' :: T).takeWhile (· != '=') = K2 := fun T => takeWhile_ne_append '=' K2 T hK2'
    rcases joinLines_cons (K2 ++ '=' :: V) L' with hj | ⟨W, hj⟩
    · rw [hj] at h
      simp only [hkey, List.drop_left] at h
      split at h
      · rename_i hc
        simp only [Bool.and_eq_true, List.isSuffixOf_iff_suffix] at hc
        simp only [Option.some.injEq] at h
        refine ⟨?_, by rw [← h, takeWhile_ne_of_not_mem '\n' V hV]⟩
        obtain ⟨t, ht⟩ := hc.1.1
        exact ⟨g ++ ['/'] ++ t, by rw [← hK2, ← ht]; simp⟩
      · cases h
    · rw [hj] at h
      have e : K2 ++ '=' :: V ++ '\n' :: W = K2 ++ '=' :: (V ++ '\n' :: W) := by simp
      rw [e] at h
      simp only [hkey, List.drop_left] at h
      split at h
      · rename_i hc
        simp only [Bool.and_eq_true, List.isSuffixOf_iff_suffix] at hc
        simp only [Option.some.injEq] at h
        refine ⟨?_, by rw [← h, takeWhile_ne_append '\n' V W hV]⟩
        obtain ⟨t, ht⟩ := hc.1.1
        exact ⟨g ++ ['/'] ++ t, by rw [← hK2, ← ht]; simp⟩
      · cases h
  · cases h

/-! ## Which lines of a dump can give a last POS -/

def HashNoNewline (h : Str → Str) : Prop := ∀ r, '\n' ∉ h r

theorem newline_not_mem_dec (n : Nat) : '\n' ∉ dec n := fun h => by
  have := isDigit_of_mem_dec h
  revert this; decide

theorem newline_not_mem_encPath : ∀ p : List Nat, '\n' ∉ encPath p
  | [] => by simp [encPath]
  | i :: p => by
    simp only [encPath, List.mem_append, List.mem_cons, not_or]
    exact ⟨newline_not_mem_dec i, by decide, newline_not_mem_encPath p⟩

theorem not_pos_suffix_marker {pre lit : Str} (head tail : Str) (hl : lit = head ++ tail)
    (h5 : tail.length = 5) (hne : tail ≠ cs!"/_pos") : ¬ (cs!"/_pos") <:+ pre ++ lit := by
  intro hs
  have hs' : (cs!"/_pos") <:+ (pre ++ head) ++ tail := by rw [List.append_assoc, ← hl]; exact hs
  exact hne (suffix_same_length (by rw [h5]; rfl) hs').symm

/-- A line of a well-formed entry from which the last-POS pattern succeeds is the position line of
that entry, and the capture is its position text. -/
theorem lastPos_entry_line (h : Str → Str) (hh : HashNoEq h) (hn : HashNoNewline h) (e : Entry)
    (hok : e.ok2 = true) {g l p : Str} (L' : List Str) (hg : '=' ∉ g) (hl : l ∈ e.lines h)
    (hp : lastPos? g l L' = some p) : ∃ ty n, e.posStart = some (ty, p) ∧ e.posStart = some (ty, posText n e.addr) := by
  simp only [Entry.ok2, Bool.and_eq_true] at hok
  have hpre := Entry.ok_pre hok.1
  obtain ⟨addr, names, item⟩ := e
  cases item with
  | node ty isE r ln =>
    have hty : '=' ∉ ty := by
      have := hok.1; unfold Entry.ok at this
      simp only [Bool.and_eq_true] at this; simpa using this.2.1
    have htn : '\n' ∉ ty := by simpa using hok.2
    simp only [Entry.lines, List.mem_cons, List.mem_append] at hl
    rcases hl with rfl | hl | hl
    · have e1 : typeLine (encNames names) ty = (encNames names ++ cs!"/_type") ++ '=' :: ty := by simp [typeLine]
      rw [e1] at hp
      have := (lastPos_keyval L' hg (not_mem_append_lit hpre (by decide)) htn hp).1
      exact absurd this (not_pos_suffix_marker (cs!"/") (cs!"_type") rfl rfl (by decide))
    · cases isE with
      | false => simp at hl
      | true =>
        simp at hl; subst hl
        have e1 : hashLine (encNames names) (h r) = (encNames names ++ cs!"/_hash") ++ '=' :: h r := by simp [hashLine]
        rw [e1] at hp
        have := (lastPos_keyval L' hg (not_mem_append_lit hpre (by decide)) (hn r) hp).1
        exact absurd this (not_pos_suffix_marker (cs!"/") (cs!"_hash") rfl rfl (by decide))
    · cases ln with
      | none => simp at hl
      | some n =>
        simp at hl; subst hl
        rw [posLine_eq] at hp
        have e1 : encNames names ++ cs!"/_pos=" ++ posText n addr =
            (encNames names ++ cs!"/_pos") ++ '=' :: posText n addr := by simp
        rw [e1] at hp
        have hv : '\n' ∉ posText n addr := by
          simp only [posText, posPath, List.mem_append, List.mem_cons, not_or]
          exact ⟨newline_not_mem_dec n, by decide, fun hm => newline_not_mem_encPath addr (List.mem_of_mem_drop hm)⟩
        have := (lastPos_keyval L' hg (not_mem_append_lit hpre (by decide)) hv hp).2
        exact ⟨ty, n, by simp [Entry.posStart, this], by simp [Entry.posStart]⟩
  | list q n =>
    cases q with
    | true => simp [Entry.lines] at hl
    | false =>
      simp [Entry.lines] at hl; subst hl
      have e1 : lengthLine (encNames names) n = (encNames names ++ cs!"/_length") ++ '=' :: dec n := by simp [lengthLine]
      rw [e1] at hp
      have := (lastPos_keyval L' hg (not_mem_append_lit hpre (by decide)) (newline_not_mem_dec n) hp).1
      exact absurd this (not_pos_suffix_marker (cs!"/_l") (cs!"ength") rfl rfl (by decide))
  | scalar r =>
    simp [Entry.lines] at hl; subst hl
    simp only [Bool.and_eq_true, Bool.not_eq_true'] at hok
    have hrn : '\n' ∉ r := by simpa using hok.2.1
    have := (lastPos_keyval (K := encNames names) (V := r) L' hg hpre hrn hp).1
    rw [← List.isSuffixOf_iff_suffix] at this
    rw [this] at hok; exact absurd hok.2.2 (by simp)

/-! ## The spans of the `node` feature on a dump -/

theorem mem_positionedOfEntries {ty p : Str} {n : Nat} : ∀ {es : List Entry} {e : Entry}, e ∈ es →
    e.posStart = some (ty, posText n e.addr) → (ty, n) ∈ positionedOfEntries es
  | [], _, he, _ => by cases he
  | x :: es, e, he, hp => by
    rcases List.mem_cons.mp he with rfl | he
    · obtain ⟨addr, names, item⟩ := e
      cases item with
      | node ty' isE r ln =>
        cases ln with
        | none => simp [Entry.posStart] at hp
        | some m =>
          simp only [Entry.posStart, Option.some.injEq, Prod.mk.injEq] at hp
          have : m = n := by
            have := congrArg parsePos? hp.2
            simp [parsePos_posText] at this; exact this
          simp [positionedOfEntries, hp.1, this]
      | list q k => simp [Entry.posStart] at hp
      | scalar r => simp [Entry.posStart] at hp
    · have ih := mem_positionedOfEntries (p := p) he hp
      obtain ⟨addr, names, item⟩ := x
      cases item with
      | node ty' isE r ln => cases ln <;> simp [positionedOfEntries, ih]
      | list q k => simpa [positionedOfEntries] using ih
      | scalar r => simpa [positionedOfEntries] using ih

theorem nodeMatches_entries_span (h : Str → Str) (hh : HashNoEq h) (hn : HashNoNewline h) (P : Str → Bool) :
    ∀ (es : List Entry), (∀ e ∈ es, e.ok2 = true) → (∀ e ∈ es, e.typed P = true) → PreorderMonotone es →
    ∀ m ∈ nodeMatches (es.flatMap (Entry.lines h)), P m.1 = true → GoodSpan m
  | [], _, _, _, m, hm, _ => by simp [nodeMatches] at hm
  | e :: es, hok, hty, hmono, m, hm, hP => by
    have ih := nodeMatches_entries_span h hh hn P es (fun x hx => hok x (List.mem_cons_of_mem _ hx))
      (fun x hx => hty x (List.mem_cons_of_mem _ hx))
    have hok_e := hok e (by simp)
    have hok1 : e.ok = true := by
      simp only [Entry.ok2, Bool.and_eq_true] at hok_e; exact hok_e.1
    have hpre := Entry.ok_pre hok1
    have hty_e := hty e (by simp)
    rw [List.flatMap_cons] at hm
    -- lines without candidate are skipped
    have hskip : ∀ (tail R' : List Str), (∀ l ∈ tail, typeSplits l = []) →
        nodeMatches (tail ++ R') = nodeMatches R' := by
      intro tail R' ht
      induction tail with
      | nil => rfl
      | cons l tl ihh =>
        rw [List.cons_append, nodeMatches_cons_nosplit _ (ht l (by simp))]
        exact ihh (fun l' hl' => ht l' (List.mem_cons_of_mem _ hl'))
    obtain ⟨addr, names, item⟩ := e
    cases item with
    | node ty isE r ln =>
      have hok' : '=' ∉ ty ∧ ty ≠ [] := by
        unfold Entry.ok at hok1
        simp only [Bool.and_eq_true] at hok1
        exact ⟨by simpa using hok1.2.1, by simpa using hok1.2.2⟩
      have hhash : ∀ l ∈ (if isE then [hashLine (encNames names) (h r)] else []), typeSplits l = [] := by
        intro l hl
        cases isE with
        | false => simp at hl
        | true => simp at hl; rw [hl]; exact typeSplits_hashLine hpre (hh r)
      cases ln with
      | some n =>
        have hmA := nodeMatchAt_positioned' h (encNames names) ty r isE n addr (es.flatMap (Entry.lines h))
          hpre hok'.1 hok'.2
        have hrest : nodeMatches (((if isE then [hashLine (encNames names) (h r)] else []) ++
            [posLine (encNames names) n (encPath addr)]) ++ es.flatMap (Entry.lines h)) =
            nodeMatches (es.flatMap (Entry.lines h)) := by
          apply hskip
          intro l hl
          rcases List.mem_append.mp hl with hl | hl
          · exact hhash l hl
          · simp at hl; rw [hl]; exact typeSplits_posLine n addr hpre
        have hsplit : nodeMatches (Entry.lines h ⟨addr, names, .node ty isE r (some n)⟩ ++ es.flatMap (Entry.lines h)) =
            (ty, posText n addr :: (findLastPos (encNames names) (es.flatMap (Entry.lines h))).toList) ::
              nodeMatches (es.flatMap (Entry.lines h)) := by
          simp only [Entry.lines, List.cons_append]
          rw [nodeMatches]
          have hmA' : nodeMatchAt (typeLine (encNames names) ty ::
              (((if isE then [hashLine (encNames names) (h r)] else []) ++
                [posLine (encNames names) n (encPath addr)]) ++ es.flatMap (Entry.lines h))) = _ := hmA
          rw [hmA', hrest]; rfl
        rw [hsplit] at hm
        rcases List.mem_cons.mp hm with rfl | hm
        · -- the match of this very node
          cases hf : findLastPos (encNames names) (es.flatMap (Entry.lines h)) with
          | none => exact ⟨n, addr, Or.inl (by simp)⟩
          | some p2 =>
            obtain ⟨l, L', hl, hp⟩ := findLastPos_some hf
            obtain ⟨e', he', hl'⟩ := List.mem_flatMap.mp hl
            obtain ⟨ty', n', h1, h2⟩ := lastPos_entry_line h hh hn e' (hok e' (List.mem_cons_of_mem _ he')) L' hpre hl' hp
            have hp2 : p2 = posText n' e'.addr := by
              rw [h1] at h2; simpa using h2
            have hmem : (ty', n') ∈ positionedOfEntries es := mem_positionedOfEntries (p := p2) he' h2
            have hle : n ≤ n' := by
              have := hmono
              simp only [PreorderMonotone, positionedOfEntries, List.pairwise_cons] at this
              exact this.1 (ty', n') hmem
            exact ⟨n, addr, Or.inr ⟨n', e'.addr, by simp [hp2], hle⟩⟩
        · exact ih (by
            have := hmono
            simp only [PreorderMonotone, positionedOfEntries, List.pairwise_cons] at this
            exact this.2) m hm hP
      | none =>
        have hPty : P ty = false := by simpa [Entry.typed] using hty_e
        have hmono' : PreorderMonotone es := by
          have := hmono; simpa [PreorderMonotone, positionedOfEntries] using this
        have hrest : nodeMatches ((if isE then [hashLine (encNames names) (h r)] else []) ++ es.flatMap (Entry.lines h)) =
            nodeMatches (es.flatMap (Entry.lines h)) := hskip _ _ hhash
        simp only [Entry.lines, List.cons_append, List.append_nil] at hm
        rw [nodeMatches] at hm
        rcases nodeMatchAt_typeLine_suffix (encNames names) ty
            ((if isE then [hashLine (encNames names) (h r)] else []) ++ es.flatMap (Entry.lines h)) hpre hok'.1 hok'.2
          with hnone | ⟨ps, hs⟩
        · rw [hnone, hrest] at hm
          exact ih hmono' m (by simpa using hm) hP
        · rw [hs, hrest] at hm
          rcases List.mem_cons.mp (by simpa using hm) with rfl | hm'
          · rw [hPty] at hP; cases hP
          · exact ih hmono' m hm' hP
    | list q k =>
      have hmono' : PreorderMonotone es := by
        have := hmono; simpa [PreorderMonotone, positionedOfEntries] using this
      cases q with
      | true => exact ih hmono' m (by simpa [Entry.lines] using hm) hP
      | false =>
        simp only [Entry.lines, Bool.false_eq_true, if_false, List.cons_append, List.nil_append] at hm
        rw [nodeMatches_cons_nosplit _ (typeSplits_lengthLine k hpre)] at hm
        exact ih hmono' m hm hP
    | scalar r =>
      have hmono' : PreorderMonotone es := by
        have := hmono; simpa [PreorderMonotone, positionedOfEntries] using this
      have hok'' : ¬ tyKey <:+ encNames names ∧ hasInfix tyMark r = false := by
        unfold Entry.ok at hok1
        simp only [Bool.and_eq_true] at hok1
        obtain ⟨_, h2, h3⟩ := hok1
        refine ⟨?_, by simpa using h3⟩
        intro hs
        rw [← List.isSuffixOf_iff_suffix] at hs
        simp only [tyKey] at hs
        rw [hs] at h2
        cases h2
      simp only [Entry.lines, List.cons_append, List.nil_append] at hm
      rw [nodeMatches_cons_nosplit _ (typeSplits_scalarLine hpre hok''.1 hok''.2)] at hm
      exact ih hmono' m hm hP

/-- The binding of a good match is a span with `start ≤ end`. -/
theorem goodSpan_binding {m : Str × List Str} (hg : GoodSpan m) {b : Str × SpanP}
    (hb : nodeBinding? m = some b) : b.2.start ≤ b.2.stop := by
  obtain ⟨n, a, h | ⟨n', a', h, hle⟩⟩ := hg
  · obtain ⟨s, ps⟩ := m
    simp only at h; subst h
    simp only [nodeBinding?, posToSpan?, List.head?_cons, List.getLast?_singleton, parsePos_posText,
      Option.map_some, Option.some.injEq] at hb
    rw [← hb]; simp
  · obtain ⟨s, ps⟩ := m
    simp only at h; subst h
    simp only [nodeBinding?, posToSpan?, List.head?_cons, List.getLast?_cons_cons, List.getLast?_singleton,
      parsePos_posText, Option.map_some, Option.some.injEq] at hb
    rw [← hb]; exact Nat.le_trans (Nat.min_le_left _ _) (Nat.le_max_left _ _)

/-- `pos_to_span` sorts the two line numbers: whatever the captures, `start ≤ end`. -/
theorem posToSpan_ordered {pos : List Str} {s : SpanP} (h : posToSpan? pos = some s) : s.start ≤ s.stop := by
  unfold posToSpan? at h
  split at h
  · split at h
    · simp only [Option.some.injEq] at h
      rw [← h]; exact Nat.le_trans (Nat.min_le_left _ _) (Nat.le_max_left _ _)
    · cases h
  · cases h

/-- The two line numbers of a span are those of two of the captures (the first and the last one). -/
theorem posToSpan_lines {pos : List Str} {s : SpanP} (h : posToSpan? pos = some s) :
    ∃ p ∈ pos, ∃ q ∈ pos, ∃ n1 x n2 y, parsePos? p = some (n1, x) ∧ parsePos? q = some (n2, y) ∧
      s.start = min n1 n2 ∧ s.stop = max n1 n2 := by
  unfold posToSpan? at h
  split at h
  · rename_i a z ha hz
    split at h
    · rename_i n1 x n2 y hpa hpz
      simp only [Option.some.injEq] at h
      refine ⟨a, List.mem_of_mem_head? (by simp [ha]), z, List.mem_of_getLast? hz, n1, x, n2, y, hpa, hpz, ?_, ?_⟩
      · rw [← h]
      · rw [← h]
    · cases h
  · cases h

/-- The binding of **any** `node` match (any text, any captures) has `start ≤ end`. -/
theorem nodeBinding_ordered {m : Str × List Str} {b : Str × SpanP} (hb : nodeBinding? m = some b) :
    b.2.start ≤ b.2.stop := by
  unfold nodeBinding? at hb
  split at hb
  all_goals
    simp only [Option.map_eq_some_iff] at hb
    obtain ⟨s, hp, hs⟩ := hb
    rw [← hs]; exact posToSpan_ordered hp

theorem hashNoNewline_hashFn (t : Val) : HashNoNewline (hashFn t) := by
  intro r hm
  simp only [hashFn, hex4, List.mem_cons, List.mem_append, List.mem_replicate] at hm
  rcases hm with hm | hm | ⟨_, hm⟩ | hm
  · revert hm; decide
  · revert hm; decide
  · revert hm; decide
  · obtain ⟨d, hd, e⟩ := mem_toDigits16 _ _ hm
    have : ∀ d, d < 16 → '\n' ≠ Nat.digitChar d := by decide
    exact this d hd e

/-- `pos_to_span` on the two captures of `whole_span`: the first one has an empty path. -/
theorem posToSpan_whole (n n' : Nat) (a' : List Nat) :
    posToSpan? [dec n ++ [':'], posText n' a'] = some ⟨min n n', max n n', []⟩ := by
  have h1 : parsePos? (dec n ++ [':']) = some (n, []) := by
    simp [parsePos?, splitColon_append _ _ (colon_not_mem_dec n), splitColon, parseNat_dec]
  simp [posToSpan?, h1, parsePos_posText]

end Paroxy.Flat
