/- Facts about the specification's key set, independent of the Python table. -/
import Paroxy.Spec.CompareSpans
namespace Paroxy.Spec
open Paroxy

theorem Letter.ofCode_code (l : Letter) : Letter.ofCode l.code = some l := by cases l <;> rfl
theorem KOp.ofCode_code (o : KOp) : KOp.ofCode o.code = some o := by cases o <;> rfl

theorem Letter.ofCode_some {n : Nat} {l : Letter} (h : Letter.ofCode n = some l) : n = l.code := by
  unfold Letter.ofCode at h
  split at h
  · cases h; simp [Letter.code, *]
  · split at h
    · cases h; simp [Letter.code, *]
    · cases h

theorem KOp.ofCode_some {n : Nat} {o : KOp} (h : KOp.ofCode n = some o) : n = o.code := by
  unfold KOp.ofCode at h
  split at h
  · cases h; simp [KOp.code, *]
  · split at h
    · cases h; simp [KOp.code, *]
    · split at h
      · cases h; simp [KOp.code, *]
      · cases h

theorem parseKey_codes (k : Key) : parseKey k.codes = some k := by
  simp [parseKey, Key.codes, Letter.ofCode_code, KOp.ofCode_code]

/-- `parseKey` only accepts the seven code points of the key it returns. -/
theorem parseKey_some {c : Codes} {k : Key} (h : parseKey c = some k) : c = k.codes := by
  unfold parseKey at h
  split at h
  · simp only [bind, pure, Option.bind_eq_some_iff] at h
    obtain ⟨l1, h1, l2, h2, l3, h3, l4, h4, o1, h5, o2, h6, o3, h7, hk⟩ := h
    cases hk
    simp [Key.codes, Letter.ofCode_some h1, Letter.ofCode_some h2, Letter.ofCode_some h3,
      Letter.ofCode_some h4, KOp.ofCode_some h5, KOp.ofCode_some h6, KOp.ofCode_some h7]
  · cases h

theorem Key.codes_injective {k k' : Key} (h : k.codes = k'.codes) : k = k' := by
  have := parseKey_codes k
  rw [h, parseKey_codes] at this
  exact (Option.some.inj this).symm

theorem mem_kops (o : KOp) : o ∈ kops := by cases o <;> simp [kops]

theorem mem_allKeys (k : Key) : k ∈ allKeys ↔ k.balanced = true := by
  cases k with | mk l1 l2 l3 l4 o1 o2 o3 =>
  simp only [allKeys, List.mem_flatMap, List.mem_map, Key.balanced, decide_eq_true_eq]
  constructor
  · rintro ⟨⟨a, b, c, d⟩, hm, p1, _, p2, _, p3, _, he⟩
    cases he; exact hm
  · intro h
    exact ⟨(l1, l2, l3, l4), h, o1, mem_kops _, o2, mem_kops _, o3, mem_kops _, rfl⟩

/-- Position of a key in `allKeys`. -/
def Key.index (k : Key) : Nat :=
  let a := match k.l1, k.l2, k.l3, k.l4 with
    | .x,.x,.y,.y => 0 | .x,.y,.x,.y => 1 | .x,.y,.y,.x => 2 | .y,.x,.x,.y => 3
    | .y,.x,.y,.x => 4 | .y,.y,.x,.x => 5 | _,_,_,_ => 6
  let o : KOp → Nat := fun | .lt => 0 | .le => 1 | .eq => 2
  a * 27 + o k.o1 * 9 + o k.o2 * 3 + o k.o3

theorem allKeys_index : allKeys.map Key.index = List.range 162 := by decide +kernel

theorem nodup_of_map {α β} (f : α → β) {l : List α} (h : (l.map f).Nodup) : l.Nodup := by
  rw [List.nodup_iff_pairwise_ne] at *
  exact List.Pairwise.of_map f (fun a b hne hab => hne (congrArg f hab)) h

theorem nodup_map_of_inj {α β} (f : α → β) (hf : ∀ a b, f a = f b → a = b) {l : List α}
    (h : l.Nodup) : (l.map f).Nodup := by
  rw [List.nodup_iff_pairwise_ne] at *
  rw [List.pairwise_map]
  exact h.imp (fun hne hab => hne (hf _ _ hab))

theorem allKeys_nodup : allKeys.Nodup :=
  nodup_of_map Key.index (by rw [allKeys_index]; exact List.nodup_range)

theorem allKeys_length : allKeys.length = 162 := by
  have := congrArg List.length allKeys_index; simpa using this

theorem allKeys_codes_nodup : (allKeys.map Key.codes).Nodup := by
  exact nodup_map_of_inj _ (fun a b h => Key.codes_injective h) allKeys_nodup

end Paroxy.Spec
