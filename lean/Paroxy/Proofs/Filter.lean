/- Helper lemmas for C04/C05/C06: the filter model computes what the specification says. -/
import Paroxy.Spec.Filter
import Paroxy.Proofs.Dict
namespace Paroxy.Filter
open Paroxy

/-! ### mapE / foldE -/

/-- Pointwise relation between two lists (core Lean has no `Forall₂`). -/
inductive All2 {α β} (R : α → β → Prop) : List α → List β → Prop
  | nil : All2 R [] []
  | cons {a b l r} : R a b → All2 R l r → All2 R (a :: l) (b :: r)

theorem mapE_ok_length {α β ε} {f : α → Except ε β} {l : List α} {r : List β}
    (h : mapE f l = .ok r) : r.length = l.length := by
  induction l generalizing r with
  | nil => simp [mapE] at h; subst h; rfl
  | cons a t ih =>
    unfold mapE at h
    split at h
    · cases h
    · split at h
      · cases h
      · rename_i bs hbs; cases h; simp [ih hbs]

/-- `mapE f l = ok r`: `r` lists the successful results, in order. -/
theorem mapE_ok_iff {α β ε} {f : α → Except ε β} {l : List α} {r : List β} :
    mapE f l = .ok r ↔ All2 (fun a b => f a = .ok b) l r := by
  induction l generalizing r with
  | nil =>
    constructor
    · intro h; simp [mapE] at h; subst h; exact .nil
    · intro h; cases h; rfl
  | cons a t ih =>
    constructor
    · intro h
      unfold mapE at h
      split at h
      · cases h
      · rename_i b hb
        split at h
        · cases h
        · rename_i bs hbs; cases h; exact .cons hb (ih.mp hbs)
    · intro h
      cases h with
      | cons hb ht => unfold mapE; rw [hb]; simp only; rw [ih.mpr ht]

theorem forall₂_mem_right {α β} {R : α → β → Prop} {l : List α} {r : List β}
    (h : All2 R l r) {b : β} (hb : b ∈ r) : ∃ a ∈ l, R a b := by
  induction h with
  | nil => cases hb
  | cons hab _ ih =>
    rcases List.mem_cons.mp hb with rfl | hb'
    · exact ⟨_, List.mem_cons_self, hab⟩
    · obtain ⟨a, ha, hr⟩ := ih hb'; exact ⟨a, List.mem_cons_of_mem _ ha, hr⟩

theorem forall₂_mem_left {α β} {R : α → β → Prop} {l : List α} {r : List β}
    (h : All2 R l r) {a : α} (ha : a ∈ l) : ∃ b ∈ r, R a b := by
  induction h with
  | nil => cases ha
  | cons hab _ ih =>
    rcases List.mem_cons.mp ha with rfl | ha'
    · exact ⟨_, List.mem_cons_self, hab⟩
    · obtain ⟨b, hb, hr⟩ := ih ha'; exact ⟨b, List.mem_cons_of_mem _ hb, hr⟩

/-- `mapE` fails iff some element fails. -/
theorem mapE_error_iff {α β ε} {f : α → Except ε β} {l : List α} :
    (∃ e, mapE f l = .error e) ↔ ∃ a ∈ l, ∃ e, f a = .error e := by
  induction l with
  | nil => simp [mapE]
  | cons a t ih =>
    unfold mapE
    cases hfa : f a with
    | error e => exact ⟨fun _ => ⟨a, List.mem_cons_self, e, hfa⟩, fun _ => ⟨e, rfl⟩⟩
    | ok b =>
      simp only
      cases hm : mapE f t with
      | error e =>
        obtain ⟨a', ha', e', he'⟩ := ih.mp ⟨e, hm⟩
        exact ⟨fun _ => ⟨a', List.mem_cons_of_mem _ ha', e', he'⟩, fun _ => ⟨e, rfl⟩⟩
      | ok bs =>
        constructor
        · rintro ⟨e, he⟩; cases he
        · rintro ⟨a', ha', e', he'⟩
          rcases List.mem_cons.mp ha' with rfl | ha''
          · rw [hfa] at he'; cases he'
          · have := ih.mpr ⟨a', ha'', e', he'⟩
            rw [hm] at this; obtain ⟨e, he⟩ := this; cases he

/-! ### Patterns -/

theorem mem_taxaOfPattern (c : Ctx) (pat t : Codes) :
    t ∈ taxaOfPattern c pat ↔ t ∈ c.taxa.map (·.1) ∧ c.orc.matchTaxon pat t = true := by
  simp [taxaOfPattern, List.mem_filter]

theorem mem_programsOfPattern (c : Ctx) (pat p : Codes) :
    p ∈ programsOfPattern c pat ↔ IsProgram c p ∧ c.orc.matchProg pat p = true := by
  simp [programsOfPattern, List.mem_filter, IsProgram]

/-- The programs the index gives for the taxa matching a pattern = those directly featuring one. -/
theorem mem_direct (c : Ctx) (wf : c.WF) (pat p : Codes) :
    p ∈ (taxaOfPattern c pat).flatMap (fun t => (dictGet? c.taxa t).getD []) ↔
      ∃ t, c.orc.matchTaxon pat t = true ∧ Features c p t := by
  simp only [List.mem_flatMap, mem_taxaOfPattern]
  constructor
  · rintro ⟨t, ⟨_, hm⟩, hp⟩
    exact ⟨t, hm, (wf.index t p).mp hp⟩
  · rintro ⟨t, hm, hf⟩
    exact ⟨t, ⟨wf.indexKey t p hf, hm⟩, (wf.index t p).mpr hf⟩

theorem features_isProgram (c : Ctx) (wf : c.WF) {p t : Codes} (h : Features c p t) : IsProgram c p := by
  obtain ⟨i, s, rec, spans, hr, _, _⟩ := h
  exact wf.recProgram p rec hr

theorem programsOfTaxa_false (c : Ctx) (taxa : List Codes) :
    programsOfTaxa c taxa false = some (taxa.flatMap fun t => (dictGet? c.taxa t).getD []) := by
  simp [programsOfTaxa]

theorem programsOfTaxa_true (c : Ctx) (wf : c.WF) (pat : Codes) :
    ∃ l, programsOfTaxa c (taxaOfPattern c pat) true = some l ∧
      ∀ p, p ∈ l ↔ (∃ t, c.orc.matchTaxon pat t = true ∧ Features c p t) ∨
        ∃ q, (∃ t, c.orc.matchTaxon pat t = true ∧ Features c q t) ∧ Imports c p q := by
  have hall : ((taxaOfPattern c pat).flatMap fun t => (dictGet? c.taxa t).getD []).all
      (fun p => (dictGet? c.exportations p).isSome) = true := by
    rw [List.all_eq_true]
    intro p hp
    obtain ⟨t, _, hf⟩ := (mem_direct c wf pat p).mp hp
    exact wf.exportTotal p (features_isProgram c wf hf)
  refine ⟨_, by simp only [programsOfTaxa, if_true, hall]; rfl, fun p => ?_⟩
  rw [List.mem_append, mem_direct c wf, List.mem_flatMap]
  constructor
  · rintro (h | ⟨q, hq, hp⟩)
    · exact Or.inl h
    · exact Or.inr ⟨q, (mem_direct c wf pat q).mp hq, hp⟩
  · rintro (h | ⟨q, hq, hp⟩)
    · exact Or.inl h
    · exact Or.inr ⟨q, (mem_direct c wf pat q).mpr hq, hp⟩

/-! ### Occurrences and triples -/

theorem mem_occurrences (rec : TaxaSpans) (taxa : List Codes) (t : Codes) (i : Nat) (s : Span) :
    (t, i, s) ∈ occurrences rec taxa ↔
      t ∈ taxa ∧ ∃ spans, dictGet? rec t = some spans ∧ spans[i]? = some s := by
  simp only [occurrences, List.mem_flatMap]
  constructor
  · rintro ⟨t', ht', h⟩
    split at h
    · cases h
    · rename_i spans hs
      simp only [List.mem_map, Prod.mk.injEq] at h
      obtain ⟨⟨s', i'⟩, hm, rfl, rfl, rfl⟩ := h
      exact ⟨ht', spans, hs, List.mem_zipIdx_iff_getElem?.mp hm⟩
  · rintro ⟨ht, spans, hs, hi⟩
    refine ⟨t, ht, ?_⟩
    rw [hs]
    simp only [List.mem_map, Prod.mk.injEq]
    exact ⟨(s, i), List.mem_zipIdx_iff_getElem?.mpr hi, by simp⟩

theorem occ_iff (c : Ctx) (p : Codes) (rec : TaxaSpans) (hr : dictGet? c.programs p = some rec)
    (t : Codes) (i : Nat) (s : Span) :
    Occ c p t i s ↔ ∃ spans, dictGet? rec t = some spans ∧ spans[i]? = some s := by
  constructor
  · rintro ⟨rec', spans, hr', hs, hi⟩
    rw [hr] at hr'; cases hr'; exact ⟨spans, hs, hi⟩
  · rintro ⟨spans, hs, hi⟩; exact ⟨rec, spans, hr, hs, hi⟩

theorem occ_taxon_key (c : Ctx) (wf : c.WF) {p t : Codes} {i : Nat} {s : Span} (h : Occ c p t i s) :
    t ∈ c.taxa.map (·.1) := wf.indexKey t p ⟨i, s, h⟩

theorem mem_programsOfTriple (c : Ctx) (wf : c.WF) (p1 p2 : Codes) (pred : Span → Span → Bool) (p : Codes) :
    p ∈ programsOfTriple c p1 pred p2 ↔ MeetsTriple c p1 pred p2 p := by
  unfold programsOfTriple MeetsTriple
  simp only [List.mem_filter, List.contains_iff_mem, mem_direct c wf]
  constructor
  · rintro ⟨_, h⟩
    split at h
    · cases h
    · rename_i rec hr
      rw [List.any_eq_true] at h
      obtain ⟨⟨s1, s2⟩, hm, hp⟩ := h
      simp only [spanPairs, List.mem_flatMap, List.mem_filterMap] at hm
      obtain ⟨⟨t1, i1, s1'⟩, ho1, ⟨t2, i2, s2'⟩, ho2, hite⟩ := hm
      split at hite
      · cases hite
      · rename_i hne
        simp only [Option.some.injEq, Prod.mk.injEq] at hite
        obtain ⟨rfl, rfl⟩ := hite
        obtain ⟨ht1, h1⟩ := (mem_occurrences _ _ _ _ _).mp ho1
        obtain ⟨ht2, h2⟩ := (mem_occurrences _ _ _ _ _).mp ho2
        exact ⟨t1, i1, s1', t2, i2, s2', ((mem_taxaOfPattern ..).mp ht1).2,
          ((mem_taxaOfPattern ..).mp ht2).2, (occ_iff c p rec hr ..).mpr h1,
          (occ_iff c p rec hr ..).mpr h2, hne, hp⟩
  · rintro ⟨t1, i, s1, t2, j, s2, hm1, hm2, ho1, ho2, hne, hp⟩
    refine ⟨⟨⟨t1, hm1, i, s1, ho1⟩, ⟨t2, hm2, j, s2, ho2⟩⟩, ?_⟩
    obtain ⟨rec, spans, hr, hs, hi⟩ := ho1
    rw [hr]
    simp only
    rw [List.any_eq_true]
    refine ⟨(s1, s2), ?_, hp⟩
    simp only [spanPairs, List.mem_flatMap, List.mem_filterMap]
    refine ⟨(t1, i, s1), (mem_occurrences ..).mpr
      ⟨(mem_taxaOfPattern ..).mpr ⟨occ_taxon_key c wf ⟨rec, spans, hr, hs, hi⟩, hm1⟩, spans, hs, hi⟩,
      (t2, j, s2), (mem_occurrences ..).mpr
      ⟨(mem_taxaOfPattern ..).mpr ⟨occ_taxon_key c wf ho2, hm2⟩, (occ_iff c p rec hr ..).mp ho2⟩, ?_⟩
    simp [hne]

theorem mem_programsOfNegatedTriple (c : Ctx) (wf : c.WF) (p1 p2 : Codes) (pred : Span → Span → Bool)
    (p : Codes) :
    p ∈ programsOfNegatedTriple c p1 pred p2 ↔ MeetsNegTriple c p1 pred p2 p := by
  unfold programsOfNegatedTriple MeetsNegTriple
  simp only [List.mem_filter, mem_direct c wf]
  constructor
  · rintro ⟨⟨t1, hm1, i, s1, ho1⟩, h⟩
    rw [Bool.or_eq_true] at h
    rcases h with h | h
    · -- no object taxon at all
      refine ⟨t1, i, s1, hm1, ho1, fun t2 j s2 hm2 ho2 _ => ?_⟩
      have : p ∈ (taxaOfPattern c p2).flatMap fun t => (dictGet? c.taxa t).getD [] :=
        (mem_direct c wf p2 p).mpr ⟨t2, hm2, j, s2, ho2⟩
      exact absurd this (by simpa using h)
    · obtain ⟨rec, spans, hr, hs, hi⟩ := ho1
      rw [hr] at h
      simp only at h
      rw [List.any_eq_true] at h
      obtain ⟨⟨t1', i', s1'⟩, ho, hnone⟩ := h
      obtain ⟨ht1', h1'⟩ := (mem_occurrences _ _ _ _ _).mp ho
      refine ⟨t1', i', s1', ((mem_taxaOfPattern ..).mp ht1').2, (occ_iff c p rec hr ..).mpr h1',
        fun t2 j s2 hm2 ho2 hne => ?_⟩
      simp only [Bool.not_eq_true', List.any_eq_false] at hnone
      have hmem : (t2, j, s2) ∈ occurrences rec (taxaOfPattern c p2) :=
        (mem_occurrences ..).mpr ⟨(mem_taxaOfPattern ..).mpr ⟨occ_taxon_key c wf ho2, hm2⟩,
          (occ_iff c p rec hr ..).mp ho2⟩
      have := hnone _ hmem
      simp only [Bool.and_eq_true, Bool.not_eq_true', decide_eq_false_iff_not, not_and] at this
      cases hp : pred s1' s2 with
      | false => rfl
      | true => exact absurd hp (this (by simpa using hne))
  · rintro ⟨t1, i, s1, hm1, ho1, hall⟩
    refine ⟨⟨t1, hm1, i, s1, ho1⟩, ?_⟩
    rw [Bool.or_eq_true]
    by_cases h2 : ((taxaOfPattern c p2).flatMap fun t => (dictGet? c.taxa t).getD []).contains p = true
    · right
      obtain ⟨rec, spans, hr, hs, hi⟩ := ho1
      rw [hr]
      simp only
      rw [List.any_eq_true]
      refine ⟨(t1, i, s1), (mem_occurrences ..).mpr
        ⟨(mem_taxaOfPattern ..).mpr ⟨occ_taxon_key c wf ⟨rec, spans, hr, hs, hi⟩, hm1⟩, spans, hs, hi⟩, ?_⟩
      simp only [Bool.not_eq_true', List.any_eq_false]
      rintro ⟨t2, j, s2⟩ hmem
      obtain ⟨ht2, h2'⟩ := (mem_occurrences _ _ _ _ _).mp hmem
      simp only [Bool.and_eq_true, Bool.not_eq_true', decide_eq_false_iff_not, not_and]
      intro hne
      have := hall t2 j s2 ((mem_taxaOfPattern ..).mp ht2).2 ((occ_iff c p rec hr ..).mpr h2')
        (by simpa using hne)
      simp [this]
    · left; simpa using h2

/-! ### Criteria -/

theorem criterionPrograms_pattern (c : Ctx) (r : Relations) (follow : Bool) (pat : Codes) :
    criterionPrograms c r follow (.pattern pat) =
      if endsWithPy pat then .ok (programsOfPattern c pat)
      else match programsOfTaxa c (taxaOfPattern c pat) follow with
        | some l => .ok l
        | none => .error .keyError := rfl

theorem criterionPrograms_triple (c : Ctx) (r : Relations) (follow : Bool) (p1 raw p2 : Codes) :
    criterionPrograms c r follow (.triple p1 raw p2) =
      match r.predicate raw with
      | .error e => .error e
      | .ok (pred, neg) =>
        .ok (if neg then programsOfNegatedTriple c p1 pred p2 else programsOfTriple c p1 pred p2) := rfl

theorem criterionPrograms_include (c : Ctx) (wf : c.WF) (r : Relations) (crit : Criterion) (S : List Codes)
    (h : criterionPrograms c r false crit = .ok S) (p : Codes) : p ∈ S ↔ Meets c r crit p := by
  cases crit with
  | pattern pat =>
    rw [criterionPrograms_pattern] at h
    unfold Meets
    by_cases hpy : endsWithPy pat = true
    · simp only [hpy, if_true] at h ⊢
      cases h
      exact mem_programsOfPattern c pat p
    · simp only [hpy, programsOfTaxa_false] at h ⊢
      cases h
      exact mem_direct c wf pat p
  | triple p1 raw p2 =>
    rw [criterionPrograms_triple] at h
    unfold Meets
    cases hp : r.predicate raw with
    | error e => rw [hp] at h; cases h
    | ok v =>
      obtain ⟨pred, neg⟩ := v
      rw [hp] at h
      simp only at h
      cases h
      cases neg
      · simp only [hp, Bool.false_eq_true, if_false]; exact mem_programsOfTriple c wf p1 p2 pred p
      · simp only [hp, if_true]; exact mem_programsOfNegatedTriple c wf p1 p2 pred p

theorem criterionPrograms_exclude (c : Ctx) (wf : c.WF) (r : Relations) (crit : Criterion) (S : List Codes)
    (h : criterionPrograms c r true crit = .ok S) (p : Codes) : p ∈ S ↔ MeetsExcl c r crit p := by
  cases crit with
  | pattern pat =>
    rw [criterionPrograms_pattern] at h
    unfold MeetsExcl Meets
    by_cases hpy : endsWithPy pat = true
    · simp only [hpy, if_true] at h ⊢
      cases h
      exact mem_programsOfPattern c pat p
    · obtain ⟨l, hl, hmem⟩ := programsOfTaxa_true c wf pat
      simp only [hpy, hl] at h ⊢
      cases h
      exact hmem p
  | triple p1 raw p2 =>
    have := criterionPrograms_include c wf r (.triple p1 raw p2) S (by
      rw [criterionPrograms_triple] at h ⊢; exact h) p
    simpa [MeetsExcl] using this

/-- A criterion fails (raises) only through its predicate string, whatever `follow` is. -/
theorem criterionPrograms_error (c : Ctx) (wf : c.WF) (r : Relations) (follow : Bool) (crit : Criterion) :
    (∃ e, criterionPrograms c r follow crit = .error e) ↔
      ∃ p1 raw p2 e, crit = .triple p1 raw p2 ∧ r.predicate raw = .error e := by
  cases crit with
  | pattern pat =>
    rw [criterionPrograms_pattern]
    constructor
    · rintro ⟨e, he⟩
      by_cases hpy : endsWithPy pat = true
      · simp [hpy] at he
      · cases follow
        · simp [hpy, programsOfTaxa_false] at he
        · obtain ⟨l, hl, _⟩ := programsOfTaxa_true c wf pat
          simp [hpy, hl] at he
    · rintro ⟨_, _, _, _, h, _⟩; cases h
  | triple p1 raw p2 =>
    rw [criterionPrograms_triple]
    cases hp : r.predicate raw with
    | error e => exact ⟨fun _ => ⟨p1, raw, p2, e, rfl, hp⟩, fun _ => ⟨e, rfl⟩⟩
    | ok v =>
      obtain ⟨pred, neg⟩ := v
      constructor
      · rintro ⟨e, he⟩; cases he
      · rintro ⟨_, _, _, e, h, he⟩; cases h; rw [hp] at he; cases he

/-! ### The bag -/

theorem inBag_any (sets : List (List Codes)) (p : Codes) :
    inBag sets false p = true ↔ ∃ S ∈ sets, p ∈ S := by
  simp only [inBag, Bool.false_eq_true, if_false, decide_eq_true_eq, List.length_pos_iff_exists_mem,
    List.mem_filter, List.contains_iff_mem]

theorem inBag_all (sets : List (List Codes)) (p : Codes) :
    inBag sets true p = true ↔ sets ≠ [] ∧ ∀ S ∈ sets, p ∈ S := by
  simp only [inBag, if_true, Bool.and_eq_true, decide_eq_true_eq]
  have hle := List.length_filter_le (fun S : List Codes => S.contains p) sets
  constructor
  · rintro ⟨h1, h2⟩
    have hlen : (sets.filter (·.contains p)).length = sets.length := by omega
    refine ⟨?_, ?_⟩
    · intro he; subst he; simp at h2
    · intro S hS
      have := (List.filter_eq_self.mp ((List.filter_sublist).eq_of_length hlen)) S hS
      simpa using this
  · rintro ⟨hne, hall⟩
    have : sets.filter (·.contains p) = sets := by
      rw [List.filter_eq_self]; intro S hS; simpa using hall S hS
    rw [this]
    have : 0 < sets.length := List.length_pos_iff.mpr hne
    omega

/-! ### `update_filter` -/

theorem all2_sets (c : Ctx) (wf : c.WF) (r : Relations) {cs : List Criterion} {sets : List (List Codes)}
    (h : mapE (criterionPrograms c r false) cs = .ok sets) (p : Codes) :
    ((∃ S ∈ sets, p ∈ S) ↔ ∃ crit ∈ cs, Meets c r crit p) ∧
    ((∀ S ∈ sets, p ∈ S) ↔ ∀ crit ∈ cs, Meets c r crit p) ∧ (sets = [] ↔ cs = []) := by
  have h2 := mapE_ok_iff.mp h
  refine ⟨⟨?_, ?_⟩, ⟨?_, ?_⟩, ?_⟩
  · rintro ⟨S, hS, hp⟩
    obtain ⟨crit, hc, hr⟩ := forall₂_mem_right h2 hS
    exact ⟨crit, hc, (criterionPrograms_include c wf r crit S hr p).mp hp⟩
  · rintro ⟨crit, hc, hm⟩
    obtain ⟨S, hS, hr⟩ := forall₂_mem_left h2 hc
    exact ⟨S, hS, (criterionPrograms_include c wf r crit S hr p).mpr hm⟩
  · intro hall crit hc
    obtain ⟨S, hS, hr⟩ := forall₂_mem_left h2 hc
    exact (criterionPrograms_include c wf r crit S hr p).mp (hall S hS)
  · intro hall S hS
    obtain ⟨crit, hc, hr⟩ := forall₂_mem_right h2 hS
    exact (criterionPrograms_include c wf r crit S hr p).mpr (hall crit hc)
  · have := mapE_ok_length h
    constructor
    · intro he; subst he; exact List.eq_nil_of_length_eq_zero (by simpa using this.symm)
    · intro he; subst he; exact List.eq_nil_of_length_eq_zero (by simpa using this)

theorem all2_sets_excl (c : Ctx) (wf : c.WF) (r : Relations) {cs : List Criterion} {sets : List (List Codes)}
    (h : mapE (criterionPrograms c r true) cs = .ok sets) (p : Codes) :
    ((∃ S ∈ sets, p ∈ S) ↔ ∃ crit ∈ cs, MeetsExcl c r crit p) ∧
    ((∀ S ∈ sets, p ∈ S) ↔ ∀ crit ∈ cs, MeetsExcl c r crit p) ∧ (sets = [] ↔ cs = []) := by
  have h2 := mapE_ok_iff.mp h
  refine ⟨⟨?_, ?_⟩, ⟨?_, ?_⟩, ?_⟩
  · rintro ⟨S, hS, hp⟩
    obtain ⟨crit, hc, hr⟩ := forall₂_mem_right h2 hS
    exact ⟨crit, hc, (criterionPrograms_exclude c wf r crit S hr p).mp hp⟩
  · rintro ⟨crit, hc, hm⟩
    obtain ⟨S, hS, hr⟩ := forall₂_mem_left h2 hc
    exact ⟨S, hS, (criterionPrograms_exclude c wf r crit S hr p).mpr hm⟩
  · intro hall crit hc
    obtain ⟨S, hS, hr⟩ := forall₂_mem_left h2 hc
    exact (criterionPrograms_exclude c wf r crit S hr p).mp (hall S hS)
  · intro hall S hS
    obtain ⟨crit, hc, hr⟩ := forall₂_mem_right h2 hS
    exact (criterionPrograms_exclude c wf r crit S hr p).mpr (hall crit hc)
  · have := mapE_ok_length h
    constructor
    · intro he; subst he; exact List.eq_nil_of_length_eq_zero (by simpa using this.symm)
    · intro he; subst he; exact List.eq_nil_of_length_eq_zero (by simpa using this)

theorem updateFilter_include (c : Ctx) (r : Relations) (st : State) (cs : List Criterion) (qa : Bool) :
    updateFilter c r st cs .include qa =
      match mapE (criterionPrograms c r false) cs with
      | .error e => .error e
      | .ok sets => .ok { st with selected := st.selected.filter (inBag sets qa) } := by
  unfold updateFilter
  cases mapE (criterionPrograms c r false) cs <;> rfl

theorem updateFilter_exclude (c : Ctx) (r : Relations) (st : State) (cs : List Criterion) (qa : Bool) :
    updateFilter c r st cs .exclude qa =
      match mapE (criterionPrograms c r true) cs with
      | .error e => .error e
      | .ok sets => .ok (excludePrograms c st ((sets.flatten).filter (inBag sets qa)) true) := by
  unfold updateFilter
  cases mapE (criterionPrograms c r true) cs <;> rfl

theorem include_any_spec (c : Ctx) (wf : c.WF) (r : Relations) (st st' : State) (cs : List Criterion)
    (h : updateFilter c r st cs .include false = .ok st') :
    (∀ p, p ∈ st'.selected ↔ p ∈ st.selected ∧ ∃ crit ∈ cs, Meets c r crit p) ∧
      st'.knowledge = st.knowledge ∧ st'.hiddenTaxa = st.hiddenTaxa ∧
      st'.hiddenPrograms = st.hiddenPrograms := by
  rw [updateFilter_include] at h
  cases hm : mapE (criterionPrograms c r false) cs with
  | error e => rw [hm] at h; cases h
  | ok sets =>
    rw [hm] at h; cases h
    refine ⟨fun p => ?_, rfl, rfl, rfl⟩
    simp only [List.mem_filter, inBag_any]
    rw [(all2_sets c wf r hm p).1]

theorem include_all_spec (c : Ctx) (wf : c.WF) (r : Relations) (st st' : State) (cs : List Criterion)
    (hne : cs ≠ []) (h : updateFilter c r st cs .include true = .ok st') :
    (∀ p, p ∈ st'.selected ↔ p ∈ st.selected ∧ ∀ crit ∈ cs, Meets c r crit p) ∧
      st'.knowledge = st.knowledge ∧ st'.hiddenTaxa = st.hiddenTaxa ∧
      st'.hiddenPrograms = st.hiddenPrograms := by
  rw [updateFilter_include] at h
  cases hm : mapE (criterionPrograms c r false) cs with
  | error e => rw [hm] at h; cases h
  | ok sets =>
    rw [hm] at h; cases h
    refine ⟨fun p => ?_, rfl, rfl, rfl⟩
    have hs := all2_sets c wf r hm p
    simp only [List.mem_filter, inBag_all]
    rw [hs.2.1]
    constructor
    · rintro ⟨h1, _, h3⟩; exact ⟨h1, h3⟩
    · rintro ⟨h1, h3⟩; exact ⟨h1, fun he => hne (hs.2.2.mp he), h3⟩

theorem contains_false_iff (l : List Codes) (p : Codes) : l.contains p = false ↔ p ∉ l := by
  rw [← Bool.not_eq_true, List.contains_iff_mem]

theorem mem_excluded (c : Ctx) (st : State) (bag : List Codes) (p : Codes) :
    p ∈ (excludePrograms c st bag true).selected ↔
      p ∈ st.selected ∧ ¬ ∃ q ∈ bag, (q = p ∨ Imports c p q) := by
  simp only [excludePrograms, if_true, List.mem_filter, Bool.not_eq_true', contains_false_iff,
    List.mem_append, List.mem_flatMap, Imports]
  constructor
  · rintro ⟨h1, h2⟩
    refine ⟨h1, ?_⟩
    rintro ⟨q, hq, rfl | hi⟩
    · exact h2 (Or.inl hq)
    · exact h2 (Or.inr ⟨q, hq, hi⟩)
  · rintro ⟨h1, h2⟩
    refine ⟨h1, ?_⟩
    rintro (hq | ⟨q, hq, hi⟩)
    · exact h2 ⟨p, hq, Or.inl rfl⟩
    · exact h2 ⟨q, hq, Or.inr hi⟩

theorem exclude_any_spec (c : Ctx) (wf : c.WF) (r : Relations) (st st' : State) (cs : List Criterion)
    (h : updateFilter c r st cs .exclude false = .ok st') :
    (∀ p, p ∈ st'.selected ↔ p ∈ st.selected ∧
        ¬ ∃ q, (∃ crit ∈ cs, MeetsExcl c r crit q) ∧ (q = p ∨ Imports c p q)) ∧
      st'.knowledge = st.knowledge ∧ st'.hiddenTaxa = st.hiddenTaxa ∧
      st'.hiddenPrograms = st.hiddenPrograms := by
  rw [updateFilter_exclude] at h
  cases hm : mapE (criterionPrograms c r true) cs with
  | error e => rw [hm] at h; cases h
  | ok sets =>
    rw [hm] at h; cases h
    refine ⟨fun p => ?_, rfl, rfl, rfl⟩
    rw [mem_excluded]
    have key : ∀ q, q ∈ (sets.flatten).filter (inBag sets false) ↔ ∃ crit ∈ cs, MeetsExcl c r crit q := by
      intro q
      simp only [List.mem_filter, inBag_any, List.mem_flatten]
      rw [← (all2_sets_excl c wf r hm q).1]
      constructor
      · rintro ⟨_, h⟩; exact h
      · intro h; exact ⟨h, h⟩
    constructor
    · rintro ⟨h1, h2⟩
      exact ⟨h1, fun ⟨q, hq, ho⟩ => h2 ⟨q, (key q).mpr hq, ho⟩⟩
    · rintro ⟨h1, h2⟩
      exact ⟨h1, fun ⟨q, hq, ho⟩ => h2 ⟨q, (key q).mp hq, ho⟩⟩

theorem exclude_all_spec (c : Ctx) (wf : c.WF) (r : Relations) (st st' : State) (cs : List Criterion)
    (hne : cs ≠ []) (h : updateFilter c r st cs .exclude true = .ok st') :
    (∀ p, p ∈ st'.selected ↔ p ∈ st.selected ∧
        ¬ ∃ q, (∀ crit ∈ cs, MeetsExcl c r crit q) ∧ (q = p ∨ Imports c p q)) ∧
      st'.knowledge = st.knowledge ∧ st'.hiddenTaxa = st.hiddenTaxa ∧
      st'.hiddenPrograms = st.hiddenPrograms := by
  rw [updateFilter_exclude] at h
  cases hm : mapE (criterionPrograms c r true) cs with
  | error e => rw [hm] at h; cases h
  | ok sets =>
    rw [hm] at h; cases h
    refine ⟨fun p => ?_, rfl, rfl, rfl⟩
    rw [mem_excluded]
    have key : ∀ q, q ∈ (sets.flatten).filter (inBag sets true) ↔ ∀ crit ∈ cs, MeetsExcl c r crit q := by
      intro q
      have hs := all2_sets_excl c wf r hm q
      simp only [List.mem_filter, inBag_all, List.mem_flatten]
      rw [← hs.2.1]
      constructor
      · rintro ⟨_, _, h⟩; exact h
      · intro h
        have hsne : sets ≠ [] := fun he => hne (hs.2.2.mp he)
        obtain ⟨S, hS⟩ := List.exists_mem_of_ne_nil sets hsne
        exact ⟨⟨S, hS, h S hS⟩, hsne, h⟩
    constructor
    · rintro ⟨h1, h2⟩
      exact ⟨h1, fun ⟨q, hq, ho⟩ => h2 ⟨q, (key q).mpr hq, ho⟩⟩
    · rintro ⟨h1, h2⟩
      exact ⟨h1, fun ⟨q, hq, ho⟩ => h2 ⟨q, (key q).mp hq, ho⟩⟩

theorem updateFilter_error (c : Ctx) (wf : c.WF) (r : Relations) (st : State) (cs : List Criterion)
    (op : Operation) (q : Bool) :
    (∃ e, updateFilter c r st cs op q = .error e) ↔
      (op = .include ∨ op = .exclude) ∧
        ∃ p1 raw p2 e, Criterion.triple p1 raw p2 ∈ cs ∧ r.predicate raw = .error e := by
  have core : ∀ follow, (∃ e, mapE (criterionPrograms c r follow) cs = .error e) ↔
      ∃ p1 raw p2 e, Criterion.triple p1 raw p2 ∈ cs ∧ r.predicate raw = .error e := by
    intro follow
    rw [mapE_error_iff]
    constructor
    · rintro ⟨crit, hc, he⟩
      obtain ⟨p1, raw, p2, e, rfl, hp⟩ := (criterionPrograms_error c wf r follow crit).mp he
      exact ⟨p1, raw, p2, e, hc, hp⟩
    · rintro ⟨p1, raw, p2, e, hc, hp⟩
      exact ⟨_, hc, (criterionPrograms_error c wf r follow _).mpr ⟨p1, raw, p2, e, rfl, hp⟩⟩
  rcases op with _ | _ | _ | _
  · rw [updateFilter_include]
    rw [← core false]
    cases mapE (criterionPrograms c r false) cs with
    | error e => simp
    | ok sets => simp
  · rw [updateFilter_exclude]
    rw [← core true]
    cases mapE (criterionPrograms c r true) cs with
    | error e => simp
    | ok sets => simp
  · simp [updateFilter]
  · simp [updateFilter]

theorem filterMap_pattern (pats : List Codes) :
    (pats.map Criterion.pattern).filterMap patternOf = pats := by
  induction pats with
  | nil => rfl
  | cons a t ih => simp [List.filterMap_cons, patternOf, ih]

theorem mem_taxaOfPrograms (c : Ctx) (progs : List Codes) (u : Codes) :
    u ∈ taxaOfPrograms c progs false ↔ ∃ p ∈ progs, FeaturesRec c p u := by
  simp only [taxaOfPrograms, List.mem_flatMap, FeaturesRec]
  constructor
  · rintro ⟨p, hp, h⟩
    split at h
    · cases h
    · rename_i rec hr
      simp only [Bool.or_false, List.mem_map, List.mem_filter, Bool.not_eq_true',
        List.isEmpty_eq_false_iff] at h
      obtain ⟨⟨u', spans⟩, ⟨hm, hne⟩, rfl⟩ := h
      exact ⟨p, hp, rec, spans, hr, hm, hne⟩
  · rintro ⟨p, hp, rec, spans, hr, hm, hne⟩
    refine ⟨p, hp, ?_⟩
    rw [hr]
    simp only [Bool.or_false, List.mem_map, List.mem_filter, Bool.not_eq_true',
      List.isEmpty_eq_false_iff]
    exact ⟨(u, spans), ⟨hm, hne⟩, rfl⟩

theorem impart_spec (c : Ctx) (r : Relations) (st st' : State) (pats : List Codes) (qa : Bool)
    (h : updateFilter c r st (pats.map .pattern) .impart qa = .ok st') :
    (∀ p, p ∈ st'.selected ↔ p ∈ st.selected ∧
        ¬ ∃ pat ∈ pats, endsWithPy pat = true ∧ IsProgram c p ∧ c.orc.matchProg pat p = true) ∧
    (∀ t, t ∈ st'.knowledge ↔ t ∈ st.knowledge ∨ ∃ pat ∈ pats, ∃ u, t ∈ prefixes u ∧
        (if endsWithPy pat then
          ∃ p, IsProgram c p ∧ c.orc.matchProg pat p = true ∧ FeaturesRec c p u
         else u ∈ c.taxa.map (·.1) ∧ c.orc.matchTaxon pat u = true)) ∧
      st'.hiddenTaxa = st.hiddenTaxa ∧ st'.hiddenPrograms = st.hiddenPrograms := by
  simp only [updateFilter, filterMap_pattern] at h
  cases h
  refine ⟨fun p => ?_, fun t => ?_, rfl, rfl⟩
  · simp only [excludePrograms, Bool.false_eq_true, if_false, List.mem_filter, Bool.not_eq_true',
      contains_false_iff, List.mem_flatMap, mem_programsOfPattern]
    constructor
    · rintro ⟨h1, h2⟩
      exact ⟨h1, fun ⟨pat, hp, hpy, hip, hm⟩ => h2 ⟨pat, ⟨hp, hpy⟩, hip, hm⟩⟩
    · rintro ⟨h1, h2⟩
      exact ⟨h1, fun ⟨pat, ⟨hp, hpy⟩, hip, hm⟩ => h2 ⟨pat, hp, hpy, hip, hm⟩⟩
  · simp only [excludePrograms, List.mem_append, List.mem_flatMap]
    constructor
    · rintro (hk | ⟨u, ⟨pat, hp, hu⟩, ht⟩)
      · exact Or.inl hk
      · refine Or.inr ⟨pat, hp, u, ht, ?_⟩
        by_cases hpy : endsWithPy pat = true
        · simp only [hpy, if_true] at hu ⊢
          obtain ⟨p, hpm, hf⟩ := (mem_taxaOfPrograms c _ u).mp hu
          obtain ⟨hip, hm⟩ := (mem_programsOfPattern c pat p).mp hpm
          exact ⟨p, hip, hm, hf⟩
        · simp only [hpy] at hu ⊢
          exact (mem_taxaOfPattern c pat u).mp hu
    · rintro (hk | ⟨pat, hp, u, ht, hu⟩)
      · exact Or.inl hk
      · refine Or.inr ⟨u, ⟨pat, hp, ?_⟩, ht⟩
        by_cases hpy : endsWithPy pat = true
        · simp only [hpy, if_true] at hu ⊢
          obtain ⟨p, hip, hm, hf⟩ := hu
          exact (mem_taxaOfPrograms c _ u).mpr ⟨p, (mem_programsOfPattern c pat p).mpr ⟨hip, hm⟩, hf⟩
        · simp only [hpy] at hu ⊢
          exact (mem_taxaOfPattern c pat u).mpr hu

theorem hide_spec (c : Ctx) (r : Relations) (st st' : State) (pats : List Codes) (qa : Bool)
    (h : updateFilter c r st (pats.map .pattern) .hide qa = .ok st') :
    st'.selected = st.selected ∧ st'.knowledge = st.knowledge ∧
    (∀ p, p ∈ st'.hiddenPrograms ↔ p ∈ st.hiddenPrograms ∨
        ∃ pat ∈ pats, endsWithPy pat = true ∧ IsProgram c p ∧ c.orc.matchProg pat p = true) ∧
    (∀ t, t ∈ st'.hiddenTaxa ↔ t ∈ st.hiddenTaxa ∨
        ∃ pat ∈ pats, endsWithPy pat = false ∧ t ∈ c.taxa.map (·.1) ∧ c.orc.matchTaxon pat t = true) := by
  simp only [updateFilter, filterMap_pattern] at h
  cases h
  refine ⟨rfl, rfl, fun p => ?_, fun t => ?_⟩
  · simp only [List.mem_append, List.mem_flatMap, List.mem_filter, mem_programsOfPattern]
    constructor
    · rintro (h | ⟨pat, ⟨hp, hpy⟩, hip, hm⟩)
      · exact Or.inl h
      · exact Or.inr ⟨pat, hp, hpy, hip, hm⟩
    · rintro (h | ⟨pat, hp, hpy, hip, hm⟩)
      · exact Or.inl h
      · exact Or.inr ⟨pat, ⟨hp, hpy⟩, hip, hm⟩
  · simp only [List.mem_append, List.mem_flatMap, List.mem_filter, mem_taxaOfPattern, Bool.not_eq_true']
    constructor
    · rintro (h | ⟨pat, ⟨hp, hpy⟩, hk, hm⟩)
      · exact Or.inl h
      · exact Or.inr ⟨pat, hp, hpy, hk, hm⟩
    · rintro (h | ⟨pat, hp, hpy, hk, hm⟩)
      · exact Or.inl h
      · exact Or.inr ⟨pat, ⟨hp, hpy⟩, hk, hm⟩

end Paroxy.Filter
