/-
Lemmas about the text of the Location cell (Model/ReportCell.lean, Spec/ReportCell.lean):
wrapping only deletes spaces and cuts lines; the parse-back reads the spans again.
-/
import Paroxy.Spec.ReportCell
namespace Paroxy.ReportCell
open Paroxy

/-- `t` is `s` with some spaces deleted. -/
inductive SpDel : Str → Str → Prop
  | nil : SpDel [] []
  | keep (c : Char) {s t : Str} : SpDel s t → SpDel (c :: s) (c :: t)
  | del {s t : Str} : SpDel s t → SpDel (' ' :: s) t

theorem SpDel.refl : ∀ s : Str, SpDel s s
  | [] => .nil
  | c :: t => .keep c (SpDel.refl t)

theorem SpDel.append {a a' b b' : Str} (h1 : SpDel a a') (h2 : SpDel b b') : SpDel (a ++ b) (a' ++ b') := by
  induction h1 with
  | nil => simpa using h2
  | keep c _ ih => exact .keep c ih
  | del _ ih => exact .del ih

theorem SpDel.trans {a b c : Str} (h1 : SpDel a b) (h2 : SpDel b c) : SpDel a c := by
  induction h1 generalizing c with
  | nil => exact h2
  | keep x _ ih =>
    cases h2 with
    | keep _ h => exact .keep x (ih h)
    | del h => exact .del (ih h)
  | del _ ih => exact .del (ih h2)

theorem SpDel.ws {c : Str} (h : isWs c = true) (x : Str) : SpDel (c ++ x) x := by
  induction c with
  | nil => exact SpDel.refl x
  | cons a t ih =>
    simp only [isWs, List.all_cons, Bool.and_eq_true, beq_iff_eq] at h
    obtain ⟨rfl, ht⟩ := h
    exact .del (ih (by simpa [isWs] using ht))

theorem SpDel.ws' {c : Str} (h : isWs c = true) : SpDel c [] := by
  simpa using SpDel.ws h []

/-! ### Tokens are insensitive to the deletion of spaces that follow a comma -/

/-- Every space of the text directly follows a comma (`b` = "the previous character is a comma"). -/
def okSp : Bool → Str → Bool
  | _, [] => true
  | b, c :: t => if c = ' ' then b && okSp false t else okSp (c == ',') t

theorem tokensAux_spdel {s t : Str} (h : SpDel s t) : ∀ (b : Bool) (cur : Str),
    okSp b s = true → (b = true → cur = []) → tokensAux cur s = tokensAux cur t := by
  induction h with
  | nil => intros; rfl
  | keep c _ ih =>
    intro b cur hok hb
    by_cases hc : c = ' '
    · subst hc
      simp only [okSp, if_true, Bool.and_eq_true] at hok
      have := hb hok.1
      subst this
      simp only [tokensAux, isSep, List.isEmpty_nil, if_true]
      simpa using ih false [] hok.2 (by simp)
    · simp only [okSp, hc, if_false] at hok
      by_cases hc2 : c = ','
      · subst hc2
        simp only [tokensAux, isSep]
        have := ih true [] (by simpa using hok) (fun _ => rfl)
        simp [this]
      · have hs : isSep c = false := by simp [isSep, hc, hc2]
        simp only [tokensAux, hs]
        have hb2 : (c == ',') = false := by simp [hc2]
        rw [hb2] at hok
        exact ih false _ hok (by simp)
  | del _ ih =>
    intro b cur hok hb
    simp only [okSp, if_true, Bool.and_eq_true] at hok
    have := hb hok.1
    subst this
    simp only [tokensAux, isSep, List.isEmpty_nil, if_true]
    simpa using ih false [] hok.2 (by simp)

theorem tokens_spdel {s t : Str} (h : SpDel s t) (hok : okSp true s = true) : tokens s = tokens t :=
  tokensAux_spdel h true [] hok (fun _ => rfl)

/-! ### One pass of the wrapping loop -/

theorem fill_append (w : Int) : ∀ (n : Nat) (l : List Str), (fill w n l).1 ++ (fill w n l).2 = l
  | _, [] => rfl
  | n, c :: t => by
    unfold fill
    split
    · simp [fill_append w (n + c.length) t]
    · rfl

theorem fill_head (w : Int) (n : Nat) (c : Str) (t : List Str) :
    ((fill w n (c :: t)).1 = [] ∧ (fill w n (c :: t)).2 = c :: t ∧ ¬ ((n + c.length : Nat) : Int) ≤ w) ∨
      ∃ l, (fill w n (c :: t)).1 = c :: l := by
  unfold fill
  split
  · exact .inr ⟨_, rfl⟩
  · rename_i h; exact .inl ⟨rfl, rfl, h⟩

theorem measure_cons (c : Str) (t : List Str) : measure (c :: t) = c.length + 1 + measure t := by
  simp [measure]; omega

theorem measure_append (a b : List Str) : measure (a ++ b) = measure a + measure b := by
  simp [measure]; omega

theorem breakEnd_pos (r : Str) (sl : Nat) (h : 1 ≤ sl) : 1 ≤ breakEnd r sl := by
  unfold breakEnd
  split
  · split
    · split <;> omega
    · exact h
  · exact h

theorem handleLong_flatten (w : Int) (f : List Str × List Str) :
    (handleLong w f).1.flatten ++ (handleLong w f).2.flatten = f.1.flatten ++ f.2.flatten := by
  unfold handleLong
  split
  · rename_i r rs h
    split
    · simp only [h, List.flatten_append, List.flatten_cons, List.flatten_nil, List.append_nil, List.append_assoc]
      rw [← List.append_assoc (List.take _ r), List.take_append_drop]
    · rfl
  · rfl

theorem handleLong_measure (w : Int) (f : List Str × List Str) : measure (handleLong w f).2 ≤ measure f.2 := by
  unfold handleLong
  split
  · rename_i r rs h
    split
    · simp only [h, measure_cons, List.length_drop]; omega
    · exact Nat.le_refl _
  · exact Nat.le_refl _

theorem dropLastWs_spdel : ∀ l : List Str, SpDel l.flatten (dropLastWs l).flatten
  | [] => .nil
  | [c] => by
    unfold dropLastWs
    split
    · rename_i h; simpa using SpDel.ws' h
    · exact SpDel.refl _
  | c :: d :: t => by
    unfold dropLastWs
    simpa using SpDel.append (SpDel.refl c) (dropLastWs_spdel (d :: t))

theorem dropLastWs_eq_nil (c : Str) (t : List Str) (h : dropLastWs (c :: t) = []) : t = [] ∧ isWs c = true := by
  cases t with
  | nil => unfold dropLastWs at h; split at h <;> simp_all
  | cons d t => simp [dropLastWs] at h

/-- What one pass keeps: the line and the rest are the chunks, some spaces deleted. -/
theorem step_spdel (W ind : Nat) (first : Bool) (c : Str) (t : List Str) :
    SpDel (c :: t).flatten ((step W ind first c t).1.flatten ++ (step W ind first c t).2.flatten) := by
  unfold step
  simp only
  generalize hw : ((W : Int) - if first = true then (ind : Int) else 0) = w
  generalize hch : (if (!first && isWs c) = true then t else c :: t) = chunks
  have h1 : SpDel (c :: t).flatten chunks.flatten := by
    rw [← hch]
    split
    · rename_i h
      simp only [Bool.and_eq_true] at h
      simpa using SpDel.ws h.2 t.flatten
    · exact SpDel.refl _
  have h2 := handleLong_flatten w (fill w 0 chunks)
  have h3 : (fill w 0 chunks).1.flatten ++ (fill w 0 chunks).2.flatten = chunks.flatten := by
    rw [← List.flatten_append, fill_append]
  rw [h3] at h2
  refine h1.trans ?_
  rw [← h2]
  exact SpDel.append (dropLastWs_spdel _) (SpDel.refl _)

theorem fill_measure (w : Int) (n : Nat) (l : List Str) :
    measure (fill w n l).1 + measure (fill w n l).2 = measure l := by
  rw [← measure_append, fill_append]

theorem handleLong_fst (w : Int) (f : List Str × List Str) : ∃ l, (handleLong w f).1 = f.1 ++ l := by
  unfold handleLong
  split
  · split
    · exact ⟨_, rfl⟩
    · exact ⟨[], by simp⟩
  · exact ⟨[], by simp⟩

theorem handleLong_nil (w : Int) (c : Str) (t : List Str) (h : ¬ ((0 + c.length : Nat) : Int) ≤ w) :
    handleLong w ([], c :: t) =
      ([c.take (breakEnd c (if w < 1 then 1 else w.toNat))], c.drop (breakEnd c (if w < 1 then 1 else w.toNat)) :: t) := by
  have h' : (c.length : Int) > w := by omega
  simp [handleLong, h']

/-- Every pass consumes a chunk or a character (so the fuel given by `wrapContents` is enough). -/
theorem step_progress (W ind : Nat) (first : Bool) (c : Str) (t : List Str) (hW : 1 ≤ W)
    (hc : first = true → c ≠ []) : measure (step W ind first c t).2 < measure (c :: t) := by
  unfold step
  simp only
  generalize hw : ((W : Int) - if first = true then (ind : Int) else 0) = w
  split
  · have h1 := handleLong_measure w (fill w 0 t)
    have h2 := fill_measure w 0 t
    rw [measure_cons]; omega
  · rename_i hd
    rcases fill_head w 0 c t with ⟨h1, h2, h3⟩ | ⟨l, h1⟩
    · have hf : fill w 0 (c :: t) = ([], c :: t) := Prod.ext h1 h2
      rw [hf, handleLong_nil w c t h3]
      simp only [measure_cons, List.length_drop]
      have he : 1 ≤ breakEnd c (if w < 1 then 1 else w.toNat) := by
        apply breakEnd_pos
        split <;> omega
      have hcl : 1 ≤ c.length := by
        cases first with
        | true =>
          have := hc rfl
          cases c with
          | nil => exact absurd rfl this
          | cons _ _ => simp
        | false => simp only [Bool.false_eq_true, if_false, Int.sub_zero] at hw; omega
      omega
    · have h2 := handleLong_measure w (fill w 0 (c :: t))
      have h3 := fill_measure w 0 (c :: t)
      rw [h1, measure_cons] at h3
      omega

theorem isWs_cons_ne (x : Char) (w : Str) (h : x ≠ ' ') : isWs (x :: w) = false := by
  simp [isWs, h]

/-- The first pass emits a line when the text starts with a non-space. -/
theorem step_first_ne (W ind : Nat) (x : Char) (w' : Str) (t : List Str) (hx : x ≠ ' ') :
    (step W ind true (x :: w') t).1 ≠ [] := by
  unfold step
  simp only [Bool.not_true, Bool.false_and, Bool.false_eq_true, if_false, if_true]
  generalize ((W : Int) - (ind : Int)) = w
  intro h
  rcases fill_head w 0 (x :: w') t with ⟨h1, h2, h3⟩ | ⟨l, h1⟩
  · have hf : fill w 0 ((x :: w') :: t) = ([], (x :: w') :: t) := Prod.ext h1 h2
    rw [hf, handleLong_nil w _ t h3] at h
    have he : 1 ≤ breakEnd (x :: w') (if w < 1 then 1 else w.toNat) := by
      apply breakEnd_pos
      split <;> omega
    obtain ⟨k, hk⟩ : ∃ k, breakEnd (x :: w') (if w < 1 then 1 else w.toNat) = k + 1 := ⟨_, (Nat.sub_add_cancel he).symm⟩
    rw [hk] at h
    simp only [List.take_succ_cons] at h
    have := (dropLastWs_eq_nil _ _ h).2
    rw [isWs_cons_ne x _ hx] at this
    cases this
  · obtain ⟨l', h2⟩ := handleLong_fst w (fill w 0 ((x :: w') :: t))
    rw [h2, h1] at h
    have := (dropLastWs_eq_nil _ _ h).2
    rw [isWs_cons_ne x _ hx] at this
    cases this

/-- The first chunk, if any, starts with a non-space. -/
def HeadOk (cs : List Str) : Prop := ∀ c t, cs = c :: t → ∃ x w, c = x :: w ∧ x ≠ ' '

/-- **The wrapping loop only deletes spaces**: the lines, put end to end, are the chunks with some
spaces deleted — whatever the width, long-word cuts included. -/
theorem wrapLoop_spdel (W ind : Nat) (hW : 1 ≤ W) : ∀ (fuel : Nat) (first : Bool) (cs : List Str),
    measure cs < fuel → (first = true → HeadOk cs) → SpDel cs.flatten (wrapLoop W ind fuel first cs).flatten := by
  intro fuel
  induction fuel with
  | zero => intro _ _ h; omega
  | succ fuel ih =>
    intro first cs hm hh
    cases cs with
    | nil => simp [wrapLoop]; exact .nil
    | cons c t =>
      have hsp := step_spdel W ind first c t
      have hpr : measure (step W ind first c t).2 < measure (c :: t) := by
        apply step_progress W ind first c t hW
        intro hf
        obtain ⟨x, w, hc, _⟩ := hh hf c t rfl
        simp [hc]
      unfold wrapLoop
      simp only
      split
      · rename_i he
        have hnil : (step W ind first c t).1 = [] := by simpa using he
        have hfirst : first = false := by
          cases first with
          | false => rfl
          | true =>
            obtain ⟨x, w, hc, hx⟩ := hh rfl c t rfl
            subst hc
            exact absurd hnil (step_first_ne W ind x w t hx)
        rw [hnil] at hsp
        simp only [List.flatten_nil, List.nil_append] at hsp
        exact hsp.trans (ih first _ (by omega) (by simp [hfirst]))
      · simp only [List.flatten_cons]
        exact hsp.trans (SpDel.append (SpDel.refl _) (ih false _ (by omega) (by simp)))

end Paroxy.ReportCell
