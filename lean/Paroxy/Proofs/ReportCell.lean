/-
Lemmas about the text of the Location cell (Model/ReportCell.lean, Spec/ReportCell.lean):
wrapping only deletes spaces and cuts lines; the parse-back reads the spans again.
-/
import Paroxy.Spec.ReportCell
namespace Paroxy.ReportCell
open Paroxy

/-- `t` is `s` with some spaces deleted. -/
inductive SpDel : Str → Str → Prop
  | nil : SpDel [] []
  | keep (c : Char) {s t : Str} : SpDel s t → SpDel (c :: s) (c :: t)
  | del {s t : Str} : SpDel s t → SpDel (' ' :: s) t

theorem SpDel.refl : ∀ s : Str, SpDel s s
  | [] => .nil
  | c :: t => .keep c (SpDel.refl t)

theorem SpDel.append {a a' b b' : Str} (h1 : SpDel a a') (h2 : SpDel b b') : SpDel (a ++ b) (a' ++ b') := by
  induction h1 with
  | nil => simpa using h2
  | keep c _ ih => exact .keep c ih
  | del _ ih => exact .del ih

theorem SpDel.trans {a b c : Str} (h1 : SpDel a b) (h2 : SpDel b c) : SpDel a c := by
  induction h1 generalizing c with
  | nil => exact h2
  | keep x _ ih =>
    cases h2 with
    | keep _ h => exact .keep x (ih h)
    | del h => exact .del (ih h)
  | del _ ih => exact .del (ih h2)

theorem SpDel.ws {c : Str} (h : isWs c = true) (x : Str) : SpDel (c ++ x) x := by
  induction c with
  | nil => exact SpDel.refl x
  | cons a t ih =>
    simp only [isWs, List.all_cons, Bool.and_eq_true, beq_iff_eq] at h
    obtain ⟨rfl, ht⟩ := h
    exact .del (ih (by simpa [isWs] using ht))

theorem SpDel.ws' {c : Str} (h : isWs c = true) : SpDel c [] := by
  simpa using SpDel.ws h []

/-! ### Tokens are insensitive to the deletion of spaces that follow a comma -/

/-- Every space of the text directly follows a comma (`b` = "the previous character is a comma"). -/
def okSp : Bool → Str → Bool
  | _, [] => true
  | b, c :: t => if c = ' ' then b && okSp false t else okSp (c == ',') t

theorem tokensAux_spdel {s t : Str} (h : SpDel s t) : ∀ (b : Bool) (cur : Str),
    okSp b s = true → (b = true → cur = []) → tokensAux cur s = tokensAux cur t := by
  induction h with
  | nil => intros; rfl
  | keep c _ ih =>
    intro b cur hok hb
    by_cases hc : c = ' '
    · subst hc
      simp only [okSp, if_true, Bool.and_eq_true] at hok
      have := hb hok.1
      subst this
      simp only [tokensAux, isSep, List.isEmpty_nil, if_true]
      simpa using ih false [] hok.2 (by simp)
    · simp only [okSp, hc, if_false] at hok
      by_cases hc2 : c = ','
      · subst hc2
        simp only [tokensAux, isSep]
        have := ih true [] (by simpa using hok) (fun _ => rfl)
        simp [this]
      · have hs : isSep c = false := by simp [isSep, hc, hc2]
        simp only [tokensAux, hs]
        have hb2 : (c == ',') = false := by simp [hc2]
        rw [hb2] at hok
        exact ih false _ hok (by simp)
  | del _ ih =>
    intro b cur hok hb
    simp only [okSp, if_true, Bool.and_eq_true] at hok
    have := hb hok.1
    subst this
    simp only [tokensAux, isSep, List.isEmpty_nil, if_true]
    simpa using ih false [] hok.2 (by simp)

theorem tokens_spdel {s t : Str} (h : SpDel s t) (hok : okSp true s = true) : tokens s = tokens t :=
  tokensAux_spdel h true [] hok (fun _ => rfl)

/-! ### One pass of the wrapping loop -/

theorem fill_append (w : Int) : ∀ (n : Nat) (l : List Str), (fill w n l).1 ++ (fill w n l).2 = l
  | _, [] => rfl
  | n, c :: t => by
    unfold fill
    split
    · simp [fill_append w (n + c.length) t]
    · rfl

theorem fill_head (w : Int) (n : Nat) (c : Str) (t : List Str) :
    ((fill w n (c :: t)).1 = [] ∧ (fill w n (c :: t)).2 = c :: t ∧ ¬ ((n + c.length : Nat) : Int) ≤ w) ∨
      ∃ l, (fill w n (c :: t)).1 = c :: l := by
  unfold fill
  split
  · exact .inr ⟨_, rfl⟩
  · rename_i h; exact .inl ⟨rfl, rfl, h⟩

theorem measure_cons (c : Str) (t : List Str) : measure (c :: t) = c.length + 1 + measure t := by
  simp [measure]; omega

theorem measure_append (a b : List Str) : measure (a ++ b) = measure a + measure b := by
  simp [measure]; omega

theorem breakEnd_pos (r : Str) (sl : Nat) (h : 1 ≤ sl) : 1 ≤ breakEnd r sl := by
  unfold breakEnd
  split
  · split
    · split <;> omega
    · exact h
  · exact h

theorem handleLong_flatten (w : Int) (f : List Str × List Str) :
    (handleLong w f).1.flatten ++ (handleLong w f).2.flatten = f.1.flatten ++ f.2.flatten := by
  unfold handleLong
  split
  · rename_i r rs h
    split
    · simp only [h, List.flatten_append, List.flatten_cons, List.flatten_nil, List.append_nil, List.append_assoc]
      rw [← List.append_assoc (List.take _ r), List.take_append_drop]
    · rfl
  · rfl

theorem handleLong_measure (w : Int) (f : List Str × List Str) : measure (handleLong w f).2 ≤ measure f.2 := by
  unfold handleLong
  split
  · rename_i r rs h
    split
    · simp only [h, measure_cons, List.length_drop]; omega
    · exact Nat.le_refl _
  · exact Nat.le_refl _

theorem dropLastWs_spdel : ∀ l : List Str, SpDel l.flatten (dropLastWs l).flatten
  | [] => .nil
  | [c] => by
    unfold dropLastWs
    split
    · rename_i h; simpa using SpDel.ws' h
    · exact SpDel.refl _
  | c :: d :: t => by
    unfold dropLastWs
    simpa using SpDel.append (SpDel.refl c) (dropLastWs_spdel (d :: t))

theorem dropLastWs_eq_nil (c : Str) (t : List Str) (h : dropLastWs (c :: t) = []) : t = [] ∧ isWs c = true := by
  cases t with
  | nil => unfold dropLastWs at h; split at h <;> simp_all
  | cons d t => simp [dropLastWs] at h

/-- What one pass keeps: the line and the rest are the chunks, some spaces deleted. -/
theorem step_spdel (W ind : Nat) (first : Bool) (c : Str) (t : List Str) :
    SpDel (c :: t).flatten ((step W ind first c t).1.flatten ++ (step W ind first c t).2.flatten) := by
  unfold step
  simp only
  generalize hw : ((W : Int) - if first = true then (ind : Int) else 0) = w
  generalize hch : (if (!first && isWs c) = true then t else c :: t) = chunks
  have h1 : SpDel (c :: t).flatten chunks.flatten := by
    rw [← hch]
    split
    · rename_i h
      simp only [Bool.and_eq_true] at h
      simpa using SpDel.ws h.2 t.flatten
    · exact SpDel.refl _
  have h2 := handleLong_flatten w (fill w 0 chunks)
  have h3 : (fill w 0 chunks).1.flatten ++ (fill w 0 chunks).2.flatten = chunks.flatten := by
    rw [← List.flatten_append, fill_append]
  rw [h3] at h2
  refine h1.trans ?_
  rw [← h2]
  exact SpDel.append (dropLastWs_spdel _) (SpDel.refl _)

theorem fill_measure (w : Int) (n : Nat) (l : List Str) :
    measure (fill w n l).1 + measure (fill w n l).2 = measure l := by
  rw [← measure_append, fill_append]

theorem handleLong_fst (w : Int) (f : List Str × List Str) : ∃ l, (handleLong w f).1 = f.1 ++ l := by
  unfold handleLong
  split
  · split
    · exact ⟨_, rfl⟩
    · exact ⟨[], by simp⟩
  · exact ⟨[], by simp⟩

theorem handleLong_nil (w : Int) (c : Str) (t : List Str) (h : ¬ ((0 + c.length : Nat) : Int) ≤ w) :
    handleLong w ([], c :: t) =
      ([c.take (breakEnd c (if w < 1 then 1 else w.toNat))], c.drop (breakEnd c (if w < 1 then 1 else w.toNat)) :: t) := by
  have h' : (c.length : Int) > w := by omega
  simp [handleLong, h']

/-- Every pass consumes a chunk or a character (so the fuel given by `wrapContents` is enough). -/
theorem step_progress (W ind : Nat) (first : Bool) (c : Str) (t : List Str) (hW : 1 ≤ W)
    (hc : first = true → c ≠ []) : measure (step W ind first c t).2 < measure (c :: t) := by
  unfold step
  simp only
  generalize hw : ((W : Int) - if first = true then (ind : Int) else 0) = w
  split
  · have h1 := handleLong_measure w (fill w 0 t)
    have h2 := fill_measure w 0 t
    rw [measure_cons]; omega
  · rename_i hd
    rcases fill_head w 0 c t with ⟨h1, h2, h3⟩ | ⟨l, h1⟩
    · have hf : fill w 0 (c :: t) = ([], c :: t) := Prod.ext h1 h2
      rw [hf, handleLong_nil w c t h3]
      simp only [measure_cons, List.length_drop]
      have he : 1 ≤ breakEnd c (if w < 1 then 1 else w.toNat) := by
        apply breakEnd_pos
        split <;> omega
      have hcl : 1 ≤ c.length := by
        cases first with
        | true =>
          have := hc rfl
          cases c with
          | nil => exact absurd rfl this
          | cons _ _ => simp
        | false => simp only [Bool.false_eq_true, if_false, Int.sub_zero] at hw; omega
      omega
    · have h2 := handleLong_measure w (fill w 0 (c :: t))
      have h3 := fill_measure w 0 (c :: t)
      rw [h1, measure_cons] at h3
      omega

theorem isWs_cons_ne (x : Char) (w : Str) (h : x ≠ ' ') : isWs (x :: w) = false := by
  simp [isWs, h]

/-- The first pass emits a line when the text starts with a non-space. -/
theorem step_first_ne (W ind : Nat) (x : Char) (w' : Str) (t : List Str) (hx : x ≠ ' ') :
    (step W ind true (x :: w') t).1 ≠ [] := by
  unfold step
  simp only [Bool.not_true, Bool.false_and, Bool.false_eq_true, if_false, if_true]
  generalize ((W : Int) - (ind : Int)) = w
  intro h
  rcases fill_head w 0 (x :: w') t with ⟨h1, h2, h3⟩ | ⟨l, h1⟩
  · have hf : fill w 0 ((x :: w') :: t) = ([], (x :: w') :: t) := Prod.ext h1 h2
    rw [hf, handleLong_nil w _ t h3] at h
    have he : 1 ≤ breakEnd (x :: w') (if w < 1 then 1 else w.toNat) := by
      apply breakEnd_pos
      split <;> omega
    obtain ⟨k, hk⟩ : ∃ k, breakEnd (x :: w') (if w < 1 then 1 else w.toNat) = k + 1 := ⟨_, (Nat.sub_add_cancel he).symm⟩
    rw [hk] at h
    simp only [List.take_succ_cons] at h
    have := (dropLastWs_eq_nil _ _ h).2
    rw [isWs_cons_ne x _ hx] at this
    cases this
  · obtain ⟨l', h2⟩ := handleLong_fst w (fill w 0 ((x :: w') :: t))
    rw [h2, h1] at h
    have := (dropLastWs_eq_nil _ _ h).2
    rw [isWs_cons_ne x _ hx] at this
    cases this

/-- The first chunk, if any, starts with a non-space. -/
def HeadOk (cs : List Str) : Prop := ∀ c t, cs = c :: t → ∃ x w, c = x :: w ∧ x ≠ ' '

/-- **The wrapping loop only deletes spaces**: the lines, put end to end, are the chunks with some
spaces deleted — whatever the width, long-word cuts included. -/
theorem wrapLoop_spdel (W ind : Nat) (hW : 1 ≤ W) : ∀ (fuel : Nat) (first : Bool) (cs : List Str),
    measure cs < fuel → (first = true → HeadOk cs) → SpDel cs.flatten (wrapLoop W ind fuel first cs).flatten := by
  intro fuel
  induction fuel with
  | zero => intro _ _ h; omega
  | succ fuel ih =>
    intro first cs hm hh
    cases cs with
    | nil => simp [wrapLoop]; exact .nil
    | cons c t =>
      have hsp := step_spdel W ind first c t
      have hpr : measure (step W ind first c t).2 < measure (c :: t) := by
        apply step_progress W ind first c t hW
        intro hf
        obtain ⟨x, w, hc, _⟩ := hh hf c t rfl
        simp [hc]
      unfold wrapLoop
      simp only
      split
      · rename_i he
        have hnil : (step W ind first c t).1 = [] := by simpa using he
        have hfirst : first = false := by
          cases first with
          | false => rfl
          | true =>
            obtain ⟨x, w, hc, hx⟩ := hh rfl c t rfl
            subst hc
            exact absurd hnil (step_first_ne W ind x w t hx)
        rw [hnil] at hsp
        simp only [List.flatten_nil, List.nil_append] at hsp
        exact hsp.trans (ih first _ (by omega) (by simp [hfirst]))
      · simp only [List.flatten_cons]
        exact hsp.trans (SpDel.append (SpDel.refl _) (ih false _ (by omega) (by simp)))

/-! ### Chunks -/

theorem splitChunks_flatten : ∀ s : Str, (splitChunks s).flatten = s
  | [] => rfl
  | c :: t => by
    have ih := splitChunks_flatten t
    unfold splitChunks
    split
    · rename_i d w r h
      rw [h] at ih
      split <;> simp_all
    · simp [ih]

theorem splitChunks_head (x : Char) (t : Str) : ∃ w r, splitChunks (x :: t) = (x :: w) :: r := by
  unfold splitChunks
  split
  · split
    · exact ⟨_, _, rfl⟩
    · exact ⟨_, _, rfl⟩
  · exact ⟨_, _, rfl⟩

theorem headOk_splitChunks (s : Str) (h : ∀ x t, s = x :: t → x ≠ ' ') : HeadOk (splitChunks s) := by
  intro c t hc
  cases s with
  | nil => simp [splitChunks] at hc
  | cons x u =>
    obtain ⟨w, r, hw⟩ := splitChunks_head x u
    rw [hw] at hc
    injection hc with h1 _
    exact ⟨x, w, h1.symm, h x u rfl⟩

/-- `textwrap.wrap` only deletes spaces: the contents of the lines, end to end, are the text with
some spaces deleted (for every width ≥ 1 and every text that does not start with a space). -/
theorem wrapContents_spdel (W ind : Nat) (hW : 1 ≤ W) (s : Str) (h : ∀ x t, s = x :: t → x ≠ ' ') :
    SpDel s (wrapContents W ind s).flatten := by
  have := wrapLoop_spdel W ind hW (measure (splitChunks s) + 1) true (splitChunks s) (by omega)
    (fun _ => headOk_splitChunks s h)
  rwa [splitChunks_flatten] at this

theorem SpDel.mem {s t : Str} (h : SpDel s t) : ∀ c ∈ t, c ∈ s := by
  induction h with
  | nil => simp
  | keep x _ ih => intro c hc; simp at hc ⊢; rcases hc with rfl | hc; exact .inl rfl; exact .inr (ih c hc)
  | del _ ih => intro c hc; exact List.mem_cons_of_mem _ (ih c hc)

/-! ### Tags -/

theorem tagOpen_eq : tagOpen = ['<','d','e','t','a','i','l','s','>','<','s','u','m','m','a','r','y','>'] := by decide
theorem tagMid_eq : tagMid = ['<','/','s','u','m','m','a','r','y','>'] := by decide
theorem tagClose_eq : tagClose = ['<','/','d','e','t','a','i','l','s','>'] := by decide
theorem tagBr_eq : tagBr = ['<','b','r','>'] := by decide
theorem imported_eq : imported = ['_','i','m','p','o','r','t','e','d','_'] := by decide

theorem stripGo_append (a b : Str) (h : '<' ∉ a) : stripGo false (a ++ b) = a ++ stripGo false b := by
  induction a with
  | nil => rfl
  | cons c t ih =>
    simp only [List.mem_cons, not_or] at h
    have hc : c ≠ '<' := fun e => h.1 e.symm
    simp [stripGo, hc, ih h.2]

theorem stripGo_open (b : Str) : stripGo false (tagOpen ++ b) = stripGo false b := by simp [tagOpen_eq, stripGo]
theorem stripGo_mid (b : Str) : stripGo false (tagMid ++ b) = stripGo false b := by simp [tagMid_eq, stripGo]
theorem stripGo_close : stripGo false tagClose = [] := by simp [tagClose_eq, stripGo]
theorem stripGo_br (b : Str) : stripGo false (tagBr ++ b) = stripGo false b := by simp [tagBr_eq, stripGo]

theorem stripGo_joinBr : ∀ (lines : List Str) (rest : Str), (∀ l ∈ lines, '<' ∉ l) →
    stripGo false (joinWith tagBr lines ++ rest) = lines.flatten ++ stripGo false rest
  | [], rest, _ => rfl
  | [a], rest, h => by simp [joinWith, stripGo_append a rest (h a (by simp))]
  | a :: b :: t, rest, h => by
    have ih := stripGo_joinBr (b :: t) rest (fun l hl => h l (List.mem_cons_of_mem _ hl))
    simp only [joinWith, List.append_assoc]
    rw [stripGo_append a _ (h a (by simp)), stripGo_br, ih]
    simp

/-- Deleting the tags of a wrapped cell gives the contents of the lines, end to end. -/
theorem stripTags_wrapped (W : Nat) (s : Str) (hlt : ∀ l ∈ wrapContents W 3 s, '<' ∉ l) :
    stripTags (tagOpen ++ ((wrapLines W 3 s).headD []).drop 3 ++ tagMid ++
      joinWith tagBr (wrapLines W 3 s).tail ++ tagClose) = (wrapContents W 3 s).flatten := by
  unfold stripTags wrapLines
  cases hc : wrapContents W 3 s with
  | nil => simp [stripGo_open, stripGo_mid, joinWith, stripGo_close, stripGo_append]
  | cons l r =>
    rw [hc] at hlt
    simp only [List.headD_cons, List.tail_cons, List.append_assoc, List.flatten_cons]
    rw [stripGo_open]
    have : (List.replicate 3 ' ' ++ l).drop 3 = l := by simp
    rw [this, stripGo_append l _ (hlt l (by simp)), stripGo_mid,
      stripGo_joinBr r tagClose (fun x hx => hlt x (List.mem_cons_of_mem _ hx)), stripGo_close]
    simp

/-! ### The enumeration `", ".join(map(couple_to_string, spans))` of natural spans -/

/-- A character of a number or of `a-b`. -/
def wordCh (c : Char) : Bool := c.isDigit || c == '-'

theorem wordCh_ne (c : Char) (h : wordCh c = true) : c ≠ ' ' ∧ c ≠ ',' ∧ c ≠ '<' ∧ c ≠ '_' := by
  refine ⟨?_, ?_, ?_, ?_⟩ <;> (intro e; subst e; revert h; decide)

def toSpan (p : Nat × Nat) : Span := (Int.ofNat p.1, Int.ofNat p.2)

theorem digits_word (n : Nat) : ∀ c ∈ Nat.toDigits 10 n, wordCh c = true := by
  intro c hc
  simp [wordCh, Nat.isDigit_of_mem_toDigits (by decide) (by decide) hc]

theorem couple_word (p : Nat × Nat) : ∀ c ∈ coupleToString (toSpan p), wordCh c = true := by
  intro c hc
  unfold coupleToString toSpan intStr at hc
  split at hc
  · exact digits_word _ c hc
  · simp only [List.mem_append, List.mem_cons] at hc
    rcases hc with h | rfl | h
    · exact digits_word _ c h
    · decide
    · exact digits_word _ c h

theorem couple_ne_nil (p : Nat × Nat) : coupleToString (toSpan p) ≠ [] := by
  unfold coupleToString toSpan intStr
  split
  · exact Nat.toDigits_ne_nil
  · simp

theorem tokensAux_word (w : Str) (hw : ∀ c ∈ w, wordCh c = true) (cur rest : Str) :
    tokensAux cur (w ++ rest) = tokensAux (cur ++ w) rest := by
  induction w generalizing cur with
  | nil => simp
  | cons c t ih =>
    have hc := wordCh_ne c (hw c (by simp))
    have hs : isSep c = false := by simp [isSep, hc.1, hc.2.1]
    simp only [List.cons_append, tokensAux, hs]
    have := ih (fun x hx => hw x (List.mem_cons_of_mem _ hx)) (cur ++ [c])
    simpa using this

theorem okSp_word (w : Str) (hw : ∀ c ∈ w, wordCh c = true) (b : Bool) : okSp b w = true := by
  induction w generalizing b with
  | nil => rfl
  | cons c t ih =>
    have hc := wordCh_ne c (hw c (by simp))
    simp only [okSp, hc.1, if_false]
    exact ih (fun x hx => hw x (List.mem_cons_of_mem _ hx)) _

theorem okSp_word_sep (w : Str) (hw : ∀ c ∈ w, wordCh c = true) (b : Bool) (r : Str) :
    okSp b (w ++ ',' :: ' ' :: r) = okSp false r := by
  induction w generalizing b with
  | nil => simp [okSp]
  | cons c t ih =>
    have hc := wordCh_ne c (hw c (by simp))
    simp only [List.cons_append, okSp, hc.1, if_false]
    exact ih (fun x hx => hw x (List.mem_cons_of_mem _ hx)) _

theorem join_okSp : ∀ (ps : List (Nat × Nat)) (b : Bool), okSp b (joinSpans (ps.map toSpan)) = true
  | [], _ => rfl
  | [a], b => by simpa [joinSpans] using okSp_word _ (couple_word a) b
  | a :: c :: t, b => by
    have ih := join_okSp (c :: t) false
    simp only [List.map_cons, joinSpans] at ih ⊢
    rw [okSp_word_sep _ (couple_word a)]
    exact ih

theorem join_tokens : ∀ ps : List (Nat × Nat),
    tokens (joinSpans (ps.map toSpan)) = ps.map fun p => coupleToString (toSpan p)
  | [] => rfl
  | [a] => by
    have := tokensAux_word _ (couple_word a) [] []
    simp only [List.append_nil, List.nil_append] at this
    have hne := couple_ne_nil a
    simp [tokens, joinSpans, this, tokensAux, hne]
  | a :: c :: t => by
    have ih := join_tokens (c :: t)
    have hne := couple_ne_nil a
    simp only [List.map_cons, joinSpans, tokens] at ih ⊢
    rw [tokensAux_word _ (couple_word a)]
    simp only [List.nil_append, tokensAux, isSep, beq_self_eq_true, Bool.true_or, Bool.or_true, if_true,
      List.isEmpty_nil]
    simp [hne, ih]

/-- The characters of the enumeration. -/
theorem join_chars : ∀ (ps : List (Nat × Nat)) (c : Char), c ∈ joinSpans (ps.map toSpan) →
    wordCh c = true ∨ c = ',' ∨ c = ' '
  | [], c, h => by simp [joinSpans] at h
  | [a], c, h => .inl (couple_word a c (by simpa [joinSpans] using h))
  | a :: d :: t, c, h => by
    simp only [List.map_cons, joinSpans, List.mem_append, List.mem_cons] at h
    rcases h with h | rfl | rfl | h
    · exact .inl (couple_word a c h)
    · exact .inr (.inl rfl)
    · exact .inr (.inr rfl)
    · exact join_chars (d :: t) c (by simpa using h)

theorem join_head (ps : List (Nat × Nat)) (x : Char) (t : Str) (h : joinSpans (ps.map toSpan) = x :: t) :
    wordCh x = true := by
  match ps, h with
  | [a], h =>
    simp only [List.map_cons, List.map_nil, joinSpans] at h
    exact couple_word a x (by rw [h]; simp)
  | a :: d :: t', h =>
    simp only [List.map_cons, joinSpans] at h
    have hne := couple_ne_nil a
    cases hc : coupleToString (toSpan a) with
    | nil => exact absurd hc hne
    | cons y u =>
      rw [hc] at h
      injection h with h1 _
      subst h1
      exact couple_word a y (by rw [hc]; simp)

theorem join_ne_nil (p : Nat × Nat) (ps : List (Nat × Nat)) : joinSpans ((p :: ps).map toSpan) ≠ [] := by
  cases ps with
  | nil => simpa [joinSpans] using couple_ne_nil p
  | cons q t => simp [joinSpans]

/-! ### Reading a number and a span back -/

theorem readNat_digits (n : Nat) : readNat (Nat.toDigits 10 n) = some n := by
  unfold readNat
  have h1 : (Nat.toDigits 10 n).isEmpty = false := by
    cases h : Nat.toDigits 10 n with
    | nil => exact absurd h Nat.toDigits_ne_nil
    | cons _ _ => rfl
  have h2 : (Nat.toDigits 10 n).all Char.isDigit = true :=
    List.all_eq_true.mpr fun c hc => Nat.isDigit_of_mem_toDigits (by decide) (by decide) hc
  simp [h1, h2]

theorem digits_no_hyphen (n : Nat) : ∀ c ∈ Nat.toDigits 10 n, (c != '-') = true := by
  intro c hc
  have := Nat.isDigit_of_mem_toDigits (b := 10) (by decide) (by decide) hc
  have : c ≠ '-' := by intro e; subst e; revert this; decide
  simpa using this

theorem dropWhile_all {α} (p : α → Bool) (l : List α) (h : ∀ c ∈ l, p c = true) (r : List α) :
    (l ++ r).dropWhile p = r.dropWhile p ∧ (l ++ r).takeWhile p = l ++ r.takeWhile p := by
  induction l with
  | nil => simp
  | cons c t ih =>
    have hc := h c (by simp)
    have := ih (fun x hx => h x (List.mem_cons_of_mem _ hx))
    simp [List.dropWhile_cons, List.takeWhile_cons, hc, this]

theorem readSpan_couple (p : Nat × Nat) : readSpan (coupleToString (toSpan p)) = some (toSpan p) := by
  obtain ⟨a, b⟩ := p
  unfold coupleToString toSpan intStr
  simp only
  split
  · rename_i h
    have hab : a = b := Int.ofNat.inj h
    subst hab
    have := dropWhile_all (· != '-') _ (digits_no_hyphen a) []
    simp only [List.append_nil, List.dropWhile_nil] at this
    unfold readSpan
    rw [this.1]
    simp [readNat_digits]
  · have := dropWhile_all (· != '-') _ (digits_no_hyphen a) ('-' :: Nat.toDigits 10 b)
    unfold readSpan
    rw [this.1, this.2]
    simp [List.dropWhile_cons, List.takeWhile_cons, readNat_digits]

theorem mapM_readSpan : ∀ ps : List (Nat × Nat),
    (ps.map fun p => coupleToString (toSpan p)).mapM readSpan = some (ps.map toSpan)
  | [] => rfl
  | p :: t => by
    simp [List.mapM_cons, readSpan_couple p, mapM_readSpan t]

/-! ### The cell -/

theorem join_no_lt (ps : List (Nat × Nat)) (c : Char) (hc : c ∈ joinSpans (ps.map toSpan)) : c ≠ '<' ∧ c ≠ '_' := by
  rcases join_chars ps c hc with h | rfl | rfl
  · exact ⟨(wordCh_ne c h).2.2.1, (wordCh_ne c h).2.2.2⟩
  · decide
  · decide

theorem render_tokens (W : Nat) (hW : 1 ≤ W) (p : Nat × Nat) (ps : List (Nat × Nat)) :
    tokens (stripTags (renderCell W ((p :: ps).map toSpan))) =
      (p :: ps).map fun q => coupleToString (toSpan q) := by
  rw [← join_tokens]
  generalize hs : joinSpans ((p :: ps).map toSpan) = s
  have hne : s ≠ [] := hs ▸ join_ne_nil p ps
  have hlt : '<' ∉ s := fun h => (join_no_lt (p :: ps) _ (hs ▸ h)).1 rfl
  have hhead : ∀ x t, s = x :: t → x ≠ ' ' := fun x t e =>
    (wordCh_ne x (join_head (p :: ps) x t (hs.trans e))).1
  have hok : okSp true s = true := hs ▸ join_okSp (p :: ps) true
  unfold renderCell enumerationToTxt
  rw [hs]
  have he : s.isEmpty = false := by cases s with | nil => exact absurd rfl hne | cons _ _ => rfl
  simp only [he, Bool.false_eq_true, if_false]
  split
  · have := stripGo_append s [] hlt
    simp only [List.append_nil, stripGo] at this
    unfold stripTags
    rw [this]
  · have hsp := wrapContents_spdel W 3 hW s hhead
    rw [stripTags_wrapped W s (fun l hl hc => hlt (hsp.mem _ (List.mem_flatten.mpr ⟨l, hl, hc⟩)))]
    exact (tokens_spdel hsp hok).symm

theorem render_ne_imported (W : Nat) (p : Nat × Nat) (ps : List (Nat × Nat)) :
    renderCell W ((p :: ps).map toSpan) ≠ imported := by
  generalize hs : joinSpans ((p :: ps).map toSpan) = s
  have hne : s ≠ [] := hs ▸ join_ne_nil p ps
  have hu : '_' ∉ s := fun h => (join_no_lt (p :: ps) _ (hs ▸ h)).2 rfl
  unfold renderCell enumerationToTxt
  rw [hs]
  have he : s.isEmpty = false := by cases s with | nil => exact absurd rfl hne | cons _ _ => rfl
  simp only [he, Bool.false_eq_true, if_false]
  split
  · intro e
    exact hu (e ▸ by simp [imported_eq])
  · simp [tagOpen_eq, imported_eq]

theorem parse_render (W : Nat) (hW : 1 ≤ W) (ps : List (Nat × Nat)) :
    parseCell (renderCell W (ps.map toSpan)) = some (ps.map toSpan) := by
  cases ps with
  | nil => simp [renderCell, enumerationToTxt, joinSpans, parseCell]
  | cons p t =>
    unfold parseCell
    rw [if_neg (render_ne_imported W p t), render_tokens W hW p t]
    simp only [List.map_cons, List.isEmpty_cons, Bool.false_eq_true, if_false]
    exact mapM_readSpan (p :: t)

theorem toSpan_of_nonneg (spans : List Span) (h : ∀ sp ∈ spans, 0 ≤ sp.1 ∧ 0 ≤ sp.2) :
    (spans.map fun sp => (sp.1.toNat, sp.2.toNat)).map toSpan = spans := by
  induction spans with
  | nil => rfl
  | cons sp t ih =>
    have h1 := h sp (by simp)
    simp only [List.map_cons, List.cons.injEq]
    refine ⟨?_, ih fun x hx => h x (List.mem_cons_of_mem _ hx)⟩
    obtain ⟨a, b⟩ := sp
    simp only [toSpan, Int.ofNat_eq_natCast, Prod.mk.injEq]
    exact ⟨Int.toNat_of_nonneg h1.1, Int.toNat_of_nonneg h1.2⟩

end Paroxy.ReportCell
