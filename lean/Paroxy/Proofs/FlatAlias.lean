/-
C15 helper lemmas, part 5: `suppress_alias_pos` as a tree-level tweak.
-/
import Paroxy.Proofs.FlatTweaks
namespace Paroxy.Flat

/-! ## Line facts -/

abbrev aliasTail : Str := cs!"/_type=alias"

theorem isAliasLine_keyval {K V : Str} (hK : '=' ∉ K) (hV : '=' ∉ V) :
    isAliasLine (K ++ '=' :: V) = true ↔ (∃ X, X ≠ [] ∧ K = X ++ tyKey) ∧ V = cs!"alias" := by
  simp only [isAliasLine, Bool.and_eq_true, List.isSuffixOf_iff_suffix, decide_eq_true_eq]
  constructor
  · rintro ⟨⟨X, hX⟩, hlen⟩
    have h' : (X ++ tyKey) ++ '=' :: cs!"alias" = K ++ '=' :: V := by rw [← hX]; simp
    obtain ⟨h1, h2⟩ := split_at_unique hK hV h'
    refine ⟨⟨X, ?_, h1.symm⟩, h2.symm⟩
    rintro rfl
    rw [← hX] at hlen; simp at hlen
  · rintro ⟨⟨X, hX, rfl⟩, rfl⟩
    refine ⟨⟨X, by simp⟩, ?_⟩
    have : 0 < X.length := List.length_pos_iff.mpr hX
    simp only [List.length_append, List.length_cons]; simp; omega

theorem isAliasLine_typeLine {pre ty : Str} (hpre : '=' ∉ pre) (hty : '=' ∉ ty) :
    isAliasLine (typeLine pre ty) = (!pre.isEmpty && ty == cs!"alias") := by
  have hl : typeLine pre ty = (pre ++ tyKey) ++ '=' :: ty := by simp [typeLine]
  have hK : '=' ∉ pre ++ tyKey := not_mem_append_lit hpre eq_not_mem_tyKey
  have key : isAliasLine (typeLine pre ty) = true ↔ (pre ≠ [] ∧ ty = cs!"alias") := by
    rw [hl, isAliasLine_keyval hK hty]
    constructor
    · rintro ⟨⟨X, hX, h⟩, h2⟩
      exact ⟨(List.append_cancel_right h) ▸ hX, h2⟩
    · rintro ⟨h1, h2⟩; exact ⟨⟨pre, h1, rfl⟩, h2⟩
  cases hb : isAliasLine (typeLine pre ty) with
  | true =>
    obtain ⟨h1, h2⟩ := key.mp hb
    cases pre with
    | nil => exact absurd rfl h1
    | cons _ _ => simp [h2]
  | false =>
    cases hc : (!pre.isEmpty && ty == cs!"alias") with
    | false => rfl
    | true =>
      simp only [Bool.and_eq_true, Bool.not_eq_true', beq_iff_eq] at hc
      have : isAliasLine (typeLine pre ty) = true := key.mpr ⟨fun e => by rw [e] at hc; simp at hc, hc.2⟩
      rw [hb] at this; cases this

theorem isAliasLine_marker {pre lit V : Str} (head tail : Str) (hl : lit = head ++ tail)
    (h5 : tail.length = 5) (hne : tail ≠ cs!"_type") (hlit : '=' ∉ lit)
    (hpre : '=' ∉ pre) (hV : '=' ∉ V) : isAliasLine ((pre ++ lit) ++ '=' :: V) = false := by
  cases hb : isAliasLine ((pre ++ lit) ++ '=' :: V) with
  | false => rfl
  | true =>
    obtain ⟨⟨X, _, h⟩, _⟩ := (isAliasLine_keyval (not_mem_append_lit hpre hlit) hV).mp hb
    have hs : (cs!"_type") <:+ (pre ++ head) ++ tail :=
      ⟨X ++ cs!"/", by
        have e : pre ++ head ++ tail = pre ++ lit := by rw [hl]; simp
        rw [e, h]; simp [tyKey]⟩
    exact absurd (suffix_same_length (by rw [h5]; rfl) hs).symm hne

abbrev posMark : Str := cs!"_pos="
abbrev posKey : Str := cs!"_pos"

theorem posLikeFrom_iff : ∀ s : Str, posLikeFrom s = true ↔ ∃ a b, s = a ++ posMark ++ b ∧ b ≠ []
  | [] => by
    simp only [posLikeFrom, Bool.false_eq_true, false_iff]
    rintro ⟨a, b, h, _⟩
    have := congrArg List.length h
    simp at this
  | c :: t => by
    simp only [posLikeFrom, Bool.or_eq_true, posLikeFrom_iff t]
    constructor
    · rintro (h | ⟨a, b, h1, h2⟩)
      · simp only [Bool.and_eq_true, List.isPrefixOf_iff_prefix, decide_eq_true_eq] at h
        obtain ⟨⟨b, hb⟩, hlen⟩ := h
        refine ⟨[], b, by simpa using hb.symm, ?_⟩
        rintro rfl
        rw [← hb] at hlen; simp at hlen
      · exact ⟨c :: a, b, by simp [h1], h2⟩
    · rintro ⟨a, b, h1, h2⟩
      cases a with
      | nil =>
        left
        simp only [Bool.and_eq_true, List.isPrefixOf_iff_prefix, decide_eq_true_eq]
        refine ⟨⟨b, by simpa using h1.symm⟩, ?_⟩
        have : 0 < b.length := List.length_pos_iff.mpr h2
        rw [h1]; simp; omega
      | cons x a' =>
        simp only [List.cons_append, List.cons.injEq] at h1
        right; exact ⟨a', b, h1.2, h2⟩

theorem isPosLike_iff (l : Str) : isPosLike l = true ↔ ∃ a b, a ≠ [] ∧ l = a ++ posMark ++ b ∧ b ≠ [] := by
  cases l with
  | nil =>
    simp only [isPosLike, Bool.false_eq_true, false_iff]
    rintro ⟨a, b, ha, h, _⟩
    cases a with
    | nil => exact ha rfl
    | cons x a => simp at h
  | cons c t =>
    simp only [isPosLike, posLikeFrom_iff]
    constructor
    · rintro ⟨a, b, h1, h2⟩; exact ⟨c :: a, b, by simp, by simp [h1], h2⟩
    · rintro ⟨a, b, ha, h1, h2⟩
      cases a with
      | nil => exact absurd rfl ha
      | cons x a' =>
        simp only [List.cons_append, List.cons.injEq] at h1
        exact ⟨a', b, h1.2, h2⟩

/-- A node's own position line looks like a position line (whatever its prefix). -/
theorem isPosLike_posLine (pre path : Str) (n : Nat) : isPosLike (posLine pre n path) = true := by
  rw [isPosLike_iff]
  refine ⟨pre ++ cs!"/", dec n ++ ':' :: path.drop 2, by simp, by simp [posLine], by simp⟩

theorem isPosLike_marker {pre lit V : Str} (head tail : Str) (hl : lit = head ++ tail)
    (h4 : tail.length = 4) (hne : tail ≠ cs!"_pos") (hlit : '=' ∉ lit)
    (hpre : '=' ∉ pre) (hV : '=' ∉ V) : isPosLike ((pre ++ lit) ++ '=' :: V) = false := by
  cases hb : isPosLike ((pre ++ lit) ++ '=' :: V) with
  | false => rfl
  | true =>
    obtain ⟨a, b, _, h, _⟩ := (isPosLike_iff _).mp hb
    have h' : (a ++ posKey) ++ '=' :: b = (pre ++ lit) ++ '=' :: V := by rw [h]; simp
    rcases split_first (not_mem_append_lit hpre hlit) h' with ⟨h1, _⟩ | ⟨E, _, h2⟩
    · have hs : posKey <:+ (pre ++ head) ++ tail :=
        ⟨a, by
          have e : pre ++ head ++ tail = pre ++ lit := by rw [hl]; simp
          rw [e, h1]⟩
      exact absurd (suffix_same_length (by rw [h4]; rfl) hs).symm hne
    · exact absurd (by rw [h2]; simp) hV

/-! ## The scan -/

def headPosLike : List Str → Bool
  | [] => false
  | l :: _ => isPosLike l

theorem scan_keep {a : Str} (L : List Str) (h : isAliasLine a = false) :
    suppressAliasPos (a :: L) = a :: suppressAliasPos L := by
  cases L with
  | nil => simp [suppressAliasPos]
  | cons b rest => simp [suppressAliasPos, h]

theorem scan_keep' {a : Str} (L : List Str) (h : headPosLike L = false) :
    suppressAliasPos (a :: L) = a :: suppressAliasPos L := by
  cases L with
  | nil => simp [suppressAliasPos]
  | cons b rest =>
    simp only [headPosLike] at h
    simp [suppressAliasPos, h]

theorem scan_drop {a b : Str} (rest : List Str) (h1 : isAliasLine a = true) (h2 : isPosLike b = true) :
    suppressAliasPos (a :: b :: rest) = a :: suppressAliasPos rest := by
  simp [suppressAliasPos, h1, h2]

theorem length_dropAliasPosItems : ∀ xs : List Val, (dropAliasPosItems xs).length = xs.length
  | [] => rfl
  | x :: xs => by simp [dropAliasPosItems, length_dropAliasPosItems xs]

mutual
theorem alias_dumpP (h : Str → Str) (hh : HashNoEq h) : ∀ (v : Val) (pre path : Str) (R : List Str),
    '=' ∉ pre → '=' ∉ path → wfAlias pre v = true → headPosLike R = false →
    suppressAliasPos (dumpP h pre path v ++ R) =
        dumpP h pre path (dropAliasPos (!pre.isEmpty) v) ++ suppressAliasPos R ∧
      headPosLike (dumpP h pre path v ++ R) = false
  | .node ty e r ln fs, pre, path, R, hpre, hpath, hwf, hR => by
    simp only [wfAlias, Bool.and_eq_true] at hwf
    have hty : '=' ∉ ty := by simpa using hwf.1
    obtain ⟨ih1, ih2⟩ := alias_dumpPFields h hh fs pre path 0 R hpre hpath hwf.2 hR
    have hT := isAliasLine_typeLine hpre hty
    have hTp : isPosLike (typeLine pre ty) = false := by
      have : typeLine pre ty = (pre ++ cs!"/_type") ++ '=' :: ty := by simp [typeLine]
      rw [this]; exact isPosLike_marker (cs!"/_") (cs!"type") rfl rfl (by decide) (by decide) hpre hty
    have hH : isAliasLine (hashLine pre (h r)) = false := by
      have : hashLine pre (h r) = (pre ++ cs!"/_hash") ++ '=' :: h r := by simp [hashLine]
      rw [this]; exact isAliasLine_marker (cs!"/") (cs!"_hash") rfl rfl (by decide) (by decide) hpre (hh r)
    have hHp : isPosLike (hashLine pre (h r)) = false := by
      have : hashLine pre (h r) = (pre ++ cs!"/_hash") ++ '=' :: h r := by simp [hashLine]
      rw [this]; exact isPosLike_marker (cs!"/_") (cs!"hash") rfl rfl (by decide) (by decide) hpre (hh r)
    have hP : ∀ n, isAliasLine (posLine pre n path) = false := by
      intro n
      have : posLine pre n path = (pre ++ cs!"/_pos") ++ '=' :: (dec n ++ ':' :: path.drop 2) := by simp [posLine]
      rw [this]
      refine isAliasLine_marker [] (cs!"/_pos") rfl rfl (by decide) (by decide) hpre ?_
      simp only [List.mem_append, List.mem_cons, not_or]
      exact ⟨eq_not_mem_dec n, by decide, fun hm => hpath (List.mem_of_mem_drop hm)⟩
    have hPp : ∀ n, isPosLike (posLine pre n path) = true := fun n => isPosLike_posLine pre path n
    refine ⟨?_, by simp [dumpP, headPosLike, hTp]⟩
    cases e with
    | true =>
      cases ln with
      | some n =>
        simp only [dumpP, dropAliasPos, if_true, List.cons_append, List.nil_append, List.append_assoc,
          Bool.not_true, Bool.and_false, Bool.false_eq_true, if_false]
        rw [scan_keep' _ (by simp [headPosLike, hHp]), scan_keep _ hH, scan_keep _ (hP n), ih1]
      | none =>
        simp only [dumpP, dropAliasPos, if_true, List.cons_append, List.nil_append, List.append_assoc,
          Bool.not_true, Bool.and_false, Bool.false_eq_true, if_false]
        rw [scan_keep' _ (by simp [headPosLike, hHp]), scan_keep _ hH, ih1]
    | false =>
      cases ln with
      | some n =>
        cases hc : (!pre.isEmpty && ty == cs!"alias") with
        | true =>
          rw [hc] at hT
          simp only [dumpP, dropAliasPos, hc, Bool.false_eq_true, if_false, List.cons_append, List.nil_append,
            List.append_assoc, Bool.not_false, Bool.and_true, if_true]
          rw [scan_drop _ hT (hPp n), ih1]
        | false =>
          rw [hc] at hT
          simp only [dumpP, dropAliasPos, hc, Bool.false_eq_true, if_false, List.cons_append, List.nil_append,
            List.append_assoc, Bool.false_and]
          rw [scan_keep _ hT, scan_keep _ (hP n), ih1]
      | none =>
        simp only [dumpP, dropAliasPos, Bool.false_eq_true, if_false, List.cons_append, List.nil_append,
          List.append_assoc, ite_self]
        rw [scan_keep' _ ih2, ih1]
  | .list q xs, pre, path, R, hpre, hpath, hwf, hR => by
    simp only [wfAlias] at hwf
    obtain ⟨ih1, ih2⟩ := alias_dumpPItems h hh xs pre path 1 R hpre hpath hwf hR
    have hL : isAliasLine (lengthLine pre xs.length) = false := by
      have : lengthLine pre xs.length = (pre ++ cs!"/_length") ++ '=' :: dec xs.length := by simp [lengthLine]
      rw [this]
      exact isAliasLine_marker (cs!"/_l") (cs!"ength") rfl rfl (by decide) (by decide) hpre (eq_not_mem_dec _)
    have hLp : isPosLike (lengthLine pre xs.length) = false := by
      have : lengthLine pre xs.length = (pre ++ cs!"/_length") ++ '=' :: dec xs.length := by simp [lengthLine]
      rw [this]
      exact isPosLike_marker (cs!"/_le") (cs!"ngth") rfl rfl (by decide) (by decide) hpre (eq_not_mem_dec _)
    cases q with
    | true =>
      simp only [dumpP, dropAliasPos, if_true, List.nil_append]
      exact ⟨ih1, ih2⟩
    | false =>
      simp only [dumpP, dropAliasPos, Bool.false_eq_true, if_false, List.cons_append, List.nil_append,
        length_dropAliasPosItems]
      exact ⟨by rw [scan_keep _ hL, ih1], by simp [headPosLike, hLp]⟩
  | .scalar r k, pre, path, R, _, _, hwf, _ => by
    simp only [wfAlias, Bool.and_eq_true, Bool.not_eq_true'] at hwf
    simp only [dumpP, dropAliasPos, List.cons_append, List.nil_append]
    exact ⟨scan_keep _ hwf.1, by simp [headPosLike, hwf.2]⟩
theorem alias_dumpPFields (h : Str → Str) (hh : HashNoEq h) :
    ∀ (fs : List (Str × Val)) (pre path : Str) (i : Nat) (R : List Str),
    '=' ∉ pre → '=' ∉ path → wfAliasFields pre fs = true → headPosLike R = false →
    suppressAliasPos (dumpPFields h pre path i fs ++ R) =
        dumpPFields h pre path i (dropAliasPosFields fs) ++ suppressAliasPos R ∧
      headPosLike (dumpPFields h pre path i fs ++ R) = false
  | [], _, _, _, R, _, _, _, hR => ⟨rfl, hR⟩
  | (n, v) :: rest, pre, path, i, R, hpre, hpath, hwf, hR => by
    simp only [wfAliasFields, Bool.and_eq_true] at hwf
    have hn : '=' ∉ n := by simpa using hwf.1.1
    obtain ⟨r1, r2⟩ := alias_dumpPFields h hh rest pre path (i + 1) R hpre hpath hwf.2 hR
    obtain ⟨v1, v2⟩ := alias_dumpP h hh v (subPre pre n) (subPath path i) (dumpPFields h pre path (i + 1) rest ++ R)
      (eq_not_mem_subPre hpre hn) (eq_not_mem_subPath i hpath) hwf.1.2 r2
    rw [subPre_not_empty] at v1
    simp only [dumpPFields, dropAliasPosFields, List.append_assoc]
    exact ⟨by rw [v1, r1], v2⟩
theorem alias_dumpPItems (h : Str → Str) (hh : HashNoEq h) :
    ∀ (xs : List Val) (pre path : Str) (i : Nat) (R : List Str),
    '=' ∉ pre → '=' ∉ path → wfAliasItems pre i xs = true → headPosLike R = false →
    suppressAliasPos (dumpPItems h pre path i xs ++ R) =
        dumpPItems h pre path i (dropAliasPosItems xs) ++ suppressAliasPos R ∧
      headPosLike (dumpPItems h pre path i xs ++ R) = false
  | [], _, _, _, R, _, _, _, hR => ⟨rfl, hR⟩
  | v :: rest, pre, path, i, R, hpre, hpath, hwf, hR => by
    simp only [wfAliasItems, Bool.and_eq_true] at hwf
    obtain ⟨r1, r2⟩ := alias_dumpPItems h hh rest pre path (i + 1) R hpre hpath hwf.2 hR
    obtain ⟨v1, v2⟩ := alias_dumpP h hh v (subPre pre (dec i)) (subPath path i)
      (dumpPItems h pre path (i + 1) rest ++ R)
      (eq_not_mem_subPre hpre (eq_not_mem_dec i)) (eq_not_mem_subPath i hpath) hwf.1 r2
    rw [subPre_not_empty] at v1
    simp only [dumpPItems, dropAliasPosItems, List.append_assoc]
    exact ⟨by rw [v1, r1], v2⟩
end

end Paroxy.Flat
