/- `prefixes` (the ancestors of a taxon, itself included) characterised without `split`/`join`. -/
import Paroxy.Model.Filter
namespace Paroxy.Filter
open Paroxy

theorem splitOn_cons (sep ch : Nat) (s : Codes) :
    splitOn sep (ch :: s) = if ch = sep then [] :: splitOn sep s
      else match splitOn sep s with
        | [] => [[ch]]
        | h :: t => (ch :: h) :: t := rfl

theorem splitOn_ne_nil (sep : Nat) (s : Codes) : splitOn sep s ≠ [] := by
  induction s with
  | nil => simp [splitOn]
  | cons ch t ih =>
    rw [splitOn_cons]
    split
    · simp
    · split <;> simp

theorem joinWith_cons_cons (sep : Nat) (a b : Codes) (t : List Codes) :
    joinWith sep (a :: b :: t) = a ++ sep :: joinWith sep (b :: t) := rfl

theorem joinWith_splitOn (sep : Nat) (s : Codes) : joinWith sep (splitOn sep s) = s := by
  induction s with
  | nil => simp [splitOn, joinWith]
  | cons ch t ih =>
    rw [splitOn_cons]
    split
    · rename_i h
      subst h
      cases hs : splitOn ch t with
      | nil => exact absurd hs (splitOn_ne_nil _ _)
      | cons a r => rw [joinWith_cons_cons, ← hs, ih]; rfl
    · cases hs : splitOn sep t with
      | nil => exact absurd hs (splitOn_ne_nil _ _)
      | cons a r =>
        rw [hs] at ih
        cases r with
        | nil => simp only [joinWith] at ih ⊢; rw [ih]
        | cons b r' =>
          simp only [joinWith_cons_cons] at ih ⊢
          rw [← ih]; rfl

theorem splitOn_append_sep (sep : Nat) (a b : Codes) :
    splitOn sep (a ++ sep :: b) = splitOn sep a ++ splitOn sep b := by
  induction a with
  | nil => simp [splitOn_cons, splitOn]
  | cons ch t ih =>
    rw [List.cons_append, splitOn_cons, splitOn_cons, ih]
    split
    · rfl
    · cases hs : splitOn sep t with
      | nil => exact absurd hs (splitOn_ne_nil _ _)
      | cons h r => rfl

theorem joinWith_append (sep : Nat) (a b : List Codes) (ha : a ≠ []) (hb : b ≠ []) :
    joinWith sep (a ++ b) = joinWith sep a ++ sep :: joinWith sep b := by
  induction a with
  | nil => exact absurd rfl ha
  | cons x t ih =>
    cases t with
    | nil =>
      cases b with
      | nil => exact absurd rfl hb
      | cons y r => simp [joinWith]
    | cons y r =>
      have := ih (by simp)
      simp only [List.cons_append, joinWith_cons_cons] at this ⊢
      rw [this]
      simp

/-- **Ancestors.** `t` is one of the `prefixes` of `u` — what `impart` adds to the knowledge for a
matched taxon `u` — iff `t` is `u` itself or `t/` is a string prefix of `u`: the taxon and all its
ancestors in the taxonomy tree, nothing else. -/
theorem mem_prefixes (t u : Codes) : t ∈ prefixes u ↔ t = u ∨ (t ++ [47]) <+: u := by
  unfold prefixes
  simp only [List.mem_map, List.mem_range]
  constructor
  · rintro ⟨k, hk, rfl⟩
    by_cases hd : (splitOn 47 u).drop (k + 1) = []
    · left
      have : (splitOn 47 u).take (k + 1) = splitOn 47 u := by
        have h := List.take_append_drop (k + 1) (splitOn 47 u)
        rw [hd, List.append_nil] at h
        exact h
      rw [this, joinWith_splitOn]
    · right
      have hne : (splitOn 47 u).take (k + 1) ≠ [] := by
        intro h
        rw [List.take_eq_nil_iff] at h
        rcases h with h | h
        · omega
        · exact splitOn_ne_nil _ _ h
      have e : u = joinWith 47 ((splitOn 47 u).take (k + 1)) ++ 47 :: joinWith 47 ((splitOn 47 u).drop (k + 1)) :=
        calc u = joinWith 47 (splitOn 47 u) := (joinWith_splitOn 47 u).symm
          _ = joinWith 47 ((splitOn 47 u).take (k + 1) ++ (splitOn 47 u).drop (k + 1)) := by
            rw [List.take_append_drop]
          _ = _ := joinWith_append 47 _ _ hne hd
      exact ⟨joinWith 47 ((splitOn 47 u).drop (k + 1)), by
        rw [List.append_assoc]; exact e.symm⟩
  · rintro (rfl | ⟨rest, hr⟩)
    · refine ⟨(splitOn 47 t).length - 1, ?_, ?_⟩
      · have := List.length_pos_iff.mpr (splitOn_ne_nil 47 t); omega
      · have hpos := List.length_pos_iff.mpr (splitOn_ne_nil 47 t)
        rw [show (splitOn 47 t).length - 1 + 1 = (splitOn 47 t).length by omega, List.take_length,
          joinWith_splitOn]
    · have hu : u = t ++ 47 :: rest := by rw [← hr]; simp
      subst hu
      have hpos := List.length_pos_iff.mpr (splitOn_ne_nil 47 t)
      have hpos' := List.length_pos_iff.mpr (splitOn_ne_nil 47 rest)
      refine ⟨(splitOn 47 t).length - 1, ?_, ?_⟩
      · rw [splitOn_append_sep, List.length_append]; omega
      · rw [splitOn_append_sep, show (splitOn 47 t).length - 1 + 1 = (splitOn 47 t).length by omega,
          List.take_left', joinWith_splitOn]
        rfl

end Paroxy.Filter
