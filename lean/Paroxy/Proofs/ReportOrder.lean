/- Helper lemmas for `C17_order_across`: the report lists costs in non-decreasing order across
headings (cost buckets in first-appearance order are in increasing order when the assessed list is
sorted by cost). -/
import Paroxy.Proofs.Report
namespace Paroxy.Report
open Paroxy Paroxy.Filter Paroxy.Costs

/-! ### A rank on buckets, injective, and monotone along `costBucket` -/

/-- An injective numbering of the headings, increasing with the interval. -/
def Bucket.rank : Bucket → Nat
  | .zero => 0
  | .q1 => 1
  | .q2 => 2
  | .q3 => 3
  | .noGroup => 4
  | .pow lo => 5 + lo

theorem Bucket.rank_inj {a b : Bucket} (h : a.rank = b.rank) : a = b := by
  cases a <;> cases b <;> simp only [Bucket.rank] at h <;> first | rfl | omega | (congr 1; omega)

theorem log2_mono {a b : Nat} (ha : a ≠ 0) (h : a ≤ b) : a.log2 ≤ b.log2 := by
  have hb : b ≠ 0 := by omega
  exact (Nat.le_log2 hb).mpr (Nat.le_trans (Nat.log2_self_le ha) h)

/-- `cost_bucket` is monotone on non-negative costs. -/
theorem costBucket_rank_mono {c c' : Rat} (h0 : 0 ≤ c) (h : c ≤ c') :
    (costBucket c).rank ≤ (costBucket c').rank := by
  by_cases h1 : c < 1
  · -- `c` is in one of the four small buckets
    unfold costBucket
    (repeat' split) <;> first
      | (exfalso; grind)
      | (simp only [Bucket.rank]; try generalize 2 ^ Nat.log2 _ = z; omega)
  · have hc1 : (1 : Rat) ≤ c := by grind
    have hc1' : (1 : Rat) ≤ c' := by grind
    have e : ∀ x : Rat, 1 ≤ x → costBucket x = .pow (2 ^ Nat.log2 x.floor.toNat) := by
      intro x hx
      unfold costBucket
      rw [if_neg (by grind), if_neg (by grind), if_neg (by grind), if_neg (by grind)]
    rw [e c hc1, e c' hc1']
    simp only [Bucket.rank]
    have hfl : (1 : Int) ≤ c.floor := Rat.le_floor_iff.mpr (by simpa using hc1)
    have hmono : c.floor ≤ c'.floor := Rat.floor_monotone h
    have hn : c.floor.toNat ≠ 0 := by omega
    have := log2_mono hn (Int.toNat_le_toNat hmono)
    have := Nat.pow_le_pow_right (n := 2) (by omega) this
    omega

/-! ### Keys of `groupBy` -/

theorem insertGroup_keys {κ α} [DecidableEq κ] (g : List (κ × List α)) (k : κ) (a : α) :
    (insertGroup g k a).map (·.1) = if k ∈ g.map (·.1) then g.map (·.1) else g.map (·.1) ++ [k] := by
  induction g with
  | nil => simp [insertGroup]
  | cons q t ih =>
    obtain ⟨k', l⟩ := q
    unfold insertGroup
    by_cases hk : k' = k
    · simp [hk]
    · have hk' : ¬ k = k' := fun e => hk e.symm
      simp only [hk, if_false, List.map_cons, ih, List.mem_cons, hk', false_or]
      split <;> simp

/-- On a list whose keys have non-decreasing ranks (for an injective rank), the groups of `groupBy`
come in strictly increasing rank order. -/
theorem groupBy_keys_strict {κ α} [DecidableEq κ] (r : κ → Nat) (hinj : ∀ a b, r a = r b → a = b)
    (key : α → κ) (l : List α) (hl : l.Pairwise fun a b => r (key a) ≤ r (key b)) :
    ((groupBy key l).map fun p => r p.1).Pairwise (· < ·) := by
  unfold groupBy
  have gen : ∀ (l : List α) (g : List (κ × List α)),
      l.Pairwise (fun a b => r (key a) ≤ r (key b)) →
      ((g.map (·.1)).map r).Pairwise (· < ·) →
      (∀ k ∈ g.map (·.1), ∀ a ∈ l, r k ≤ r (key a)) →
      (((l.foldl (fun g a => insertGroup g (key a) a) g).map (·.1)).map r).Pairwise (· < ·) := by
    intro l
    induction l with
    | nil => intro g _ hg _; exact hg
    | cons a t ih =>
      intro g hl hg hb
      rw [List.pairwise_cons] at hl
      simp only [List.foldl_cons]
      apply ih _ hl.2
      · rw [insertGroup_keys]
        split
        · exact hg
        · rename_i hnot
          rw [List.map_append, List.pairwise_append]
          refine ⟨hg, by simp, ?_⟩
          intro x hx y hy
          simp only [List.map_cons, List.map_nil, List.mem_singleton] at hy
          subst hy
          obtain ⟨k, hk, rfl⟩ := List.mem_map.mp hx
          have h1 := hb k hk a List.mem_cons_self
          rcases Nat.lt_or_ge (r k) (r (key a)) with h2 | h2
          · exact h2
          · exact absurd (hinj _ _ (Nat.le_antisymm h1 h2) ▸ hk) hnot
      · intro k hk b hbt
        rw [insertGroup_keys] at hk
        split at hk
        · exact hb k hk b (List.mem_cons_of_mem _ hbt)
        · rcases List.mem_append.mp hk with hk | hk
          · exact hb k hk b (List.mem_cons_of_mem _ hbt)
          · simp only [List.mem_singleton] at hk
            subst hk
            exact hl.1 b hbt
  have := gen l [] hl (by simp) (by simp)
  simpa [List.map_map, Function.comp_def] using this

/-! ### The report -/

/-- Rank of the heading of a program. -/
def keyRank (i : Input) (cp : Rat × Codes) : Nat := (groupKey i cp).rank

theorem keyRank_mono (i : Input) (a b : Rat × Codes) (h0 : 0 ≤ a.1) (h : a.1 ≤ b.1) :
    keyRank i a ≤ keyRank i b := by
  unfold keyRank groupKey
  split
  · exact costBucket_rank_mono h0 h
  · exact Nat.le_refl _

/-- The headings of the body are the keys of the grouping. -/
theorem body_keys (i : Input) (b : List (Bucket × List Section)) (h : body i = some b) :
    b.map (·.1) = (groupBy (groupKey i) (visible i)).map (·.1) := by
  rw [body_eq] at h
  exact mapM_some_map (groupSections i) (·.1) (·.1) _ b h
    (fun g r hr => (groupSections_spec i g r hr).1)

/-- Headings of the body come in strictly increasing rank order when the assessed list is sorted
by non-negative cost. -/
theorem body_keys_strict (i : Input)
    (hsorted : i.assessed.Pairwise (fun a b => a.1 ≤ b.1)) (hnonneg : ∀ cp ∈ i.assessed, 0 ≤ cp.1)
    (b : List (Bucket × List Section)) (h : body i = some b) :
    b.Pairwise fun g1 g2 => g1.1.rank < g2.1.rank := by
  have hv : (visible i).Pairwise fun a b => keyRank i a ≤ keyRank i b := by
    unfold visible
    apply List.Pairwise.filter
    exact hsorted.imp_of_mem fun {a b} ha _ hab => keyRank_mono i a b (hnonneg a ha) hab
  have := groupBy_keys_strict Bucket.rank (fun _ _ => Bucket.rank_inj) (groupKey i) (visible i) hv
  have e : (groupBy (groupKey i) (visible i)).map (fun p => p.1.rank) = b.map (fun p => p.1.rank) := by
    have := congrArg (List.map Bucket.rank) (body_keys i b h)
    simpa [List.map_map, Function.comp_def] using this.symm
  rw [e, List.pairwise_map] at this
  exact this

theorem leMember_cost_le (sloc : Codes → Nat) (x y : Rat × Codes)
    (h : leMember .byCostAndSloc sloc x y = true) : x.1 ≤ y.1 := by
  simp only [leMember, Bool.or_eq_true, Bool.and_eq_true, decide_eq_true_eq] at h
  rcases h with h | ⟨h, _⟩
  · exact Rat.le_of_lt h
  · rw [h]; exact Rat.le_refl

/-- Under `by_cost_and_sloc`, with an assessed list sorted by non-negative cost, the costs of the
whole listing (all headings, in order) are non-decreasing. -/
theorem body_costs_sorted (i : Input) (hs : i.sorting = .byCostAndSloc)
    (hsorted : i.assessed.Pairwise (fun a b => a.1 ≤ b.1)) (hnonneg : ∀ cp ∈ i.assessed, 0 ≤ cp.1)
    (b : List (Bucket × List Section)) (h : body i = some b) :
    (b.flatMap fun g => g.2.map fun s => s.cost).Pairwise (· ≤ ·) := by
  obtain ⟨hperm, hkey, hin⟩ := body_spec i b h
  rw [List.pairwise_flatMap]
  constructor
  · intro g hg
    have := hin g hg
    rw [List.pairwise_map] at this ⊢
    exact this.imp fun {x y} hxy => leMember_cost_le i.sloc (x.cost, x.path) (y.cost, y.path) (hs ▸ hxy)
  · refine (body_keys_strict i hsorted hnonneg b h).imp_of_mem ?_
    intro g1 g2 hg1 hg2 hlt x hx y hy
    obtain ⟨s1, hs1, rfl⟩ := List.mem_map.mp hx
    obtain ⟨s2, hs2, rfl⟩ := List.mem_map.mp hy
    have k1 := (hkey g1 hg1 s1 hs1).1
    have k2 := (hkey g2 hg2 s2 hs2).1
    have hmem : (s2.cost, s2.path) ∈ i.assessed := by
      have h1 : (s2.cost, s2.path) ∈ b.flatMap fun g => g.2.map fun s => (s.cost, s.path) :=
        List.mem_flatMap.mpr ⟨g2, hg2, List.mem_map_of_mem hs2⟩
      exact (List.mem_filter.mp (hperm.mem_iff.mp h1)).1
    rcases Rat.le_total (a := s1.cost) (b := s2.cost) with hle | hle
    · exact hle
    · have := keyRank_mono i (s2.cost, s2.path) (s1.cost, s1.path) (hnonneg _ hmem) hle
      unfold keyRank at this
      rw [k1, k2] at this
      omega

/-! ### A concrete report (non-vacuity of `C17_order_across`) -/

/-- Three programs of zeno costs 0, 1/2 and 5/4 (buckets `0`, `[0.5, 1[`, `[1, 2[`). -/
def exampleInput (grouping : Bool) : Input where
  strat := .zeno
  programs := [(codesOf "a.py", [(codesOf "x", [])]),
               (codesOf "b.py", [(codesOf "x/y", []), (codesOf "z", [])]),
               (codesOf "c.py", [(codesOf "meta/q", [])])]
  sloc := fun _ => 1
  knowledge := []
  hiddenTaxa := []
  hiddenPrograms := []
  assessed := [(0, codesOf "c.py"), (1 / 2, codesOf "a.py"), (5 / 4, codesOf "b.py")]
  sorting := .byCostAndSloc
  grouping := grouping

/-- The headings and `(cost, path)` listing of a body. -/
def listing (b : List (Bucket × List Section)) : List (Bucket × List (Rat × Codes)) :=
  b.map fun g => (g.1, g.2.map fun s => (s.cost, s.path))

/-- `mergeSort` does not reduce in the kernel: to evaluate a concrete `body` whose groups are
already in order, use this sort-free form. -/
def bodyPresorted (i : Input) : Option (List (Bucket × List Section)) :=
  (groupBy (groupKey i) (visible i)).mapM fun g => (g.2.mapM (sectionOf i)).map fun secs => (g.1, secs)

theorem mapM_congr_mem {α β} {f g : α → Option β} (l : List α) (h : ∀ a ∈ l, f a = g a) :
    l.mapM f = l.mapM g := by
  induction l with
  | nil => rfl
  | cons a t ih =>
    simp only [List.mapM_cons, h a List.mem_cons_self,
      ih fun x hx => h x (List.mem_cons_of_mem _ hx)]

theorem body_of_presorted (i : Input)
    (h : ∀ g ∈ groupBy (groupKey i) (visible i),
      g.2.Pairwise fun a b => leMember i.sorting i.sloc a b = true) :
    body i = bodyPresorted i := by
  rw [body_eq]
  unfold bodyPresorted
  apply mapM_congr_mem
  intro g hg
  unfold groupSections
  rw [List.mergeSort_of_pairwise (h g hg)]

end Paroxy.Report
