/-
The row of the default taxonomy that files construction errors, and the kernel-checked fact that it IS
a data line of the current `taxonomy.tsv` (`Gen.TaxonomyCodes` is regenerated from /repo on every run).
Kept in its own module because the kernel computation takes ≈ 45 s: it is redone only when the table
changes. Used by `Props/C14.lean: C14_meta_ast`.
-/
import Paroxy.Spec.TaxonomyDefault
namespace Paroxy.MetaAst
open Paroxy Paroxy.Taxo Paroxy.Spec.Taxo

/-- The line of taxonomy.tsv that files construction errors: `meta/ast/\1 <TAB> ast_construction:(.+)`. -/
def astLine : Str := "meta/ast/\\1\tast_construction:(.+)".toList
def astRow : Row := ("meta/ast/\\1".toList, "ast_construction:(.+)".toList)
def astPrefix : Str := "ast_construction:".toList
def metaAstPrefix : Str := "meta/ast/".toList

/-- Proof obligation on the CURRENT taxonomy.tsv (kernel computation on the regenerated table): the
line is one of its data lines. Removing or changing that row breaks this theorem. -/
theorem astLine_in_default_table : (rawLines defaultText).contains astLine = true := by
  decide +kernel

theorem astRow_of_line : parseLineD astLine = astRow ∧ isLiteral astRow.2 = false := by decide

end Paroxy.MetaAst
