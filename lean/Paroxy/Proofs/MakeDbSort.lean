/-
Helper lemmas for C11: the sorting primitives (`insort`, `insortNew`, `sortU`) and Python's order.
-/
import Paroxy.Spec.MakeDb
namespace Paroxy.DB
open Std

set_option linter.unusedSectionVars false
section SortSec
variable {α : Type} [Ord α] [DecidableEq α] [TransOrd α] [LawfulEqOrd α]

theorem ltB_iff {a b : α} : ltB a b = true ↔ compare a b = .lt := by
  simp [ltB]

theorem lt_of_not_lt_ne {a b : α} (h : ¬ compare a b = .lt) (hne : a ≠ b) : compare b a = .lt := by
  cases hc : compare a b with
  | lt => exact absurd hc h
  | eq => exact absurd (LawfulEqOrd.compare_eq_iff_eq.mp hc) hne
  | gt => exact OrientedCmp.lt_of_gt hc

theorem lt_irrefl' {a : α} : ¬ compare a a = .lt := by
  rw [ReflOrd.compare_self]; simp

theorem mem_insort {a x : α} {l : List α} : x ∈ insort a l ↔ x = a ∨ x ∈ l := by
  induction l with
  | nil => simp [insort]
  | cons b t ih =>
    unfold insort
    split
    · simp
    · simp only [List.mem_cons, ih]
      constructor
      · rintro (h | h | h)
        · exact Or.inr (Or.inl h)
        · exact Or.inl h
        · exact Or.inr (Or.inr h)
      · rintro (h | h | h)
        · exact Or.inr (Or.inl h)
        · exact Or.inl h
        · exact Or.inr (Or.inr h)

theorem strictSorted_insort {a : α} {l : List α} (hs : StrictSorted l) (ha : a ∉ l) :
    StrictSorted (insort a l) := by
  induction l with
  | nil => simp [insort, StrictSorted]
  | cons b t ih =>
    unfold StrictSorted at hs ⊢
    rw [List.pairwise_cons] at hs
    unfold insort
    split
    · rename_i hlt
      have hab : compare a b = .lt := ltB_iff.mp hlt
      rw [List.pairwise_cons]
      refine ⟨?_, List.pairwise_cons.mpr hs⟩
      intro x hx
      rcases List.mem_cons.mp hx with h | h
      · rw [h]; exact hab
      · exact TransCmp.lt_trans hab (hs.1 x h)
    · rename_i hlt
      have hnlt : ¬ compare a b = .lt := fun h => hlt (ltB_iff.mpr h)
      have hne : a ≠ b := fun h => ha (h ▸ List.mem_cons_self)
      have hba : compare b a = .lt := lt_of_not_lt_ne hnlt hne
      rw [List.pairwise_cons]
      refine ⟨?_, ih hs.2 (fun h => ha (List.mem_cons_of_mem _ h))⟩
      intro x hx
      rcases mem_insort.mp hx with h | h
      · rw [h]; exact hba
      · exact hs.1 x h

theorem mem_insortNew {a x : α} {l : List α} : x ∈ insortNew a l ↔ x = a ∨ x ∈ l := by
  unfold insortNew
  split
  · rename_i h
    constructor
    · exact Or.inr
    · rintro (h' | h')
      · rw [h']; exact h
      · exact h'
  · exact mem_insort

theorem strictSorted_insortNew {a : α} {l : List α} (hs : StrictSorted l) :
    StrictSorted (insortNew a l) := by
  unfold insortNew
  split
  · exact hs
  · rename_i h; exact strictSorted_insort hs h

theorem insortNew_idem {a : α} {l : List α} : insortNew a (insortNew a l) = insortNew a l := by
  have : a ∈ insortNew a l := mem_insortNew.mpr (Or.inl rfl)
  show (if a ∈ insortNew a l then insortNew a l else insort a (insortNew a l)) = _
  rw [if_pos this]

theorem mem_sortU {x : α} {l : List α} : x ∈ sortU l ↔ x ∈ l := by
  induction l with
  | nil => simp [sortU]
  | cons a t ih =>
    have : sortU (a :: t) = insortNew a (sortU t) := rfl
    rw [this, mem_insortNew, ih, List.mem_cons]

theorem strictSorted_sortU (l : List α) : StrictSorted (sortU l) := by
  induction l with
  | nil => simp [sortU, StrictSorted]
  | cons a t ih =>
    have : sortU (a :: t) = insortNew a (sortU t) := rfl
    rw [this]; exact strictSorted_insortNew ih

theorem StrictSorted.nodup {l : List α} (h : StrictSorted l) : l.Nodup := by
  unfold StrictSorted at h
  exact h.imp (fun {a b} hab heq => by rw [heq] at hab; exact lt_irrefl' hab)

/-- A strictly sorted list is determined by its members: "THE sorted duplicate-free list of a set". -/
theorem strictSorted_ext {l₁ l₂ : List α} (h₁ : StrictSorted l₁) (h₂ : StrictSorted l₂)
    (h : ∀ x, x ∈ l₁ ↔ x ∈ l₂) : l₁ = l₂ := by
  induction l₁ generalizing l₂ with
  | nil =>
    cases l₂ with
    | nil => rfl
    | cons b t => exact absurd ((h b).mpr List.mem_cons_self) (by simp)
  | cons a t ih =>
    cases l₂ with
    | nil => exact absurd ((h a).mp List.mem_cons_self) (by simp)
    | cons b u =>
      unfold StrictSorted at h₁ h₂
      rw [List.pairwise_cons] at h₁ h₂
      have hab : a = b := by
        have ha : a ∈ b :: u := (h a).mp List.mem_cons_self
        have hb : b ∈ a :: t := (h b).mpr List.mem_cons_self
        rcases List.mem_cons.mp ha with e | ha'
        · exact e
        · rcases List.mem_cons.mp hb with e | hb'
          · exact e.symm
          · have h1 := h₂.1 a ha'
            have h2 := h₁.1 b hb'
            exact absurd (TransCmp.lt_trans h1 h2) lt_irrefl'
      subst hab
      congr 1
      apply ih h₁.2 h₂.2
      intro x
      constructor
      · intro hx
        have := (h x).mp (List.mem_cons_of_mem _ hx)
        rcases List.mem_cons.mp this with e | hx'
        · exact absurd (e ▸ h₁.1 x hx) lt_irrefl'
        · exact hx'
      · intro hx
        have := (h x).mpr (List.mem_cons_of_mem _ hx)
        rcases List.mem_cons.mp this with e | hx'
        · exact absurd (e ▸ h₂.1 x hx) lt_irrefl'
        · exact hx'

end SortSec

/-! ## Spans: projecting sorted triples gives sorted pairs -/

theorem compare_prod {α β : Type} [Ord α] [Ord β] (a b : α × β) :
    @compare (α × β) lexOrd a b = (compare a.1 b.1).then (compare a.2 b.2) := rfl

theorem poor_le_of_lt {a b : Span3} (h : compare a b = .lt) :
    compare (Span3.poor a) (Span3.poor b) ≠ .gt := by
  obtain ⟨a1, a2, a3⟩ := a
  obtain ⟨b1, b2, b3⟩ := b
  change @compare (Int × Int × Name) lexOrd (a1, a2, a3) (b1, b2, b3) = .lt at h
  change @compare (Int × Int) lexOrd (a1, a2) (b1, b2) ≠ .gt
  rw [compare_prod] at h ⊢
  simp only at h ⊢
  change (compare a1 b1).then (@compare (Int × Name) lexOrd (a2, a3) (b2, b3)) = .lt at h
  rw [compare_prod] at h
  simp only at h
  cases h1 : compare a1 b1 <;> rw [h1] at h <;> simp [Ordering.then] at h ⊢
  cases h2 : compare a2 b2 <;> rw [h2] at h <;> simp at h ⊢

theorem sorted_preparedSpans (spans : List Span3) : Sorted (preparedSpans spans) := by
  unfold preparedSpans Sorted
  have h := strictSorted_sortU spans
  unfold StrictSorted at h
  rw [List.pairwise_map]
  exact h.imp (fun {a b} hab => poor_le_of_lt hab)

theorem mem_preparedSpans {spans : List Span3} {s : PoorSpan} :
    s ∈ preparedSpans spans ↔ ∃ t ∈ spans, Span3.poor t = s := by
  unfold preparedSpans
  simp only [List.mem_map, mem_sortU]

end Paroxy.DB
