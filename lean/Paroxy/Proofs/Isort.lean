/-
Insertion sort of Model/Hints.lean: it permutes, and it sorts for a transitive total comparison.
-/
import Paroxy.Model.Hints
namespace Paroxy.Hints

theorem insertBy_perm {α : Type} (le : α → α → Bool) (x : α) (l : List α) : (insertBy le x l).Perm (x :: l) := by
  induction l with
  | nil => exact List.Perm.refl _
  | cons y ys ih =>
    simp only [insertBy]
    split
    · exact List.Perm.refl _
    · exact (List.Perm.cons y ih).trans (List.Perm.swap x y ys)

theorem isort_perm {α : Type} (le : α → α → Bool) (l : List α) : (isort le l).Perm l := by
  induction l with
  | nil => exact List.Perm.refl _
  | cons x xs ih =>
    simp only [isort, List.foldr_cons] at ih ⊢
    exact (insertBy_perm le x _).trans (List.Perm.cons x ih)

theorem insertBy_pairwise {α : Type} (le : α → α → Bool)
    (trans : ∀ a b c, le a b = true → le b c = true → le a c = true)
    (total : ∀ a b, (le a b || le b a) = true) (x : α) (l : List α)
    (h : l.Pairwise fun a b => le a b = true) : (insertBy le x l).Pairwise fun a b => le a b = true := by
  induction l with
  | nil => simp [insertBy]
  | cons y ys ih =>
    simp only [insertBy]
    have hy := List.pairwise_cons.mp h
    split
    · rename_i hxy
      refine List.pairwise_cons.mpr ⟨fun z hz => ?_, h⟩
      rcases List.mem_cons.mp hz with rfl | hz
      · exact hxy
      · exact trans _ _ _ hxy (hy.1 z hz)
    · rename_i hxy
      have hyx : le y x = true := by
        have := total x y
        simp only [Bool.or_eq_true] at this
        rcases this with h1 | h1
        · exact absurd h1 hxy
        · exact h1
      refine List.pairwise_cons.mpr ⟨fun z hz => ?_, ih hy.2⟩
      have := (insertBy_perm le x ys).mem_iff.mp hz
      rcases List.mem_cons.mp this with rfl | hz'
      · exact hyx
      · exact hy.1 z hz'

theorem isort_pairwise {α : Type} (le : α → α → Bool)
    (trans : ∀ a b c, le a b = true → le b c = true → le a c = true)
    (total : ∀ a b, (le a b || le b a) = true) (l : List α) :
    (isort le l).Pairwise fun a b => le a b = true := by
  induction l with
  | nil => simp [isort]
  | cons x xs ih =>
    simp only [isort, List.foldr_cons] at ih ⊢
    exact insertBy_pairwise le trans total x _ ih

end Paroxy.Hints
