/-
Helper lemmas for C11: decomposition of `makeDb` and the facts about each of its components.
-/
import Paroxy.Proofs.MakeDbDict
import Paroxy.Proofs.MakeDbClosure
namespace Paroxy.DB
open Std

/-- The dictionary of direct importations of a collection. -/
def directD (progs : List Prog) : List (Name × List Name) := directImportations (labelled progs)

/-- `p` directly imports `q` (an `import_internally:…` label of `p` names `q`). -/
def Imports (progs : List Prog) (p q : Name) : Prop := Direct (directD progs) p q

def pathsOf (progs : List Prog) : List Name := progs.map (·.path)

/-- Every direct internal import of a collected program names a collected program. -/
def Resolved (progs : List Prog) : Prop :=
  ∀ p q, Imports progs p q → q ∈ pathsOf progs

theorem keys_labelled (progs : List Prog) : keys (labelled progs) = pathsOf progs := by
  simp [keys, labelled, pathsOf, List.map_map, Function.comp_def]

theorem keys_directD (progs : List Prog) : keys (directD progs) = pathsOf progs := by
  rw [← keys_labelled]
  simp [keys, directD, directImportations, List.map_map, Function.comp_def]

theorem keys_completeImportations (d : List (Name × List Name)) :
    keys (completeImportations d) = keys d := by
  simp [keys, completeImportations, List.map_map, Function.comp_def]

theorem get?_map_val {β γ : Type} (d : List (Name × β)) (f : Name → γ) (k : Name) :
    get? (d.map fun e => (e.1, f e.1)) k = (get? d k).map fun _ => f k := by
  induction d with
  | nil => rfl
  | cons e t ih =>
    obtain ⟨k0, v0⟩ := e
    simp only [List.map_cons, get?_cons]
    by_cases h : k0 = k
    · simp [h]
    · simp [h, ih]

theorem get?_completeImportations (d : List (Name × List Name)) (p : Name) :
    get? (completeImportations d) p = (get? d p).map fun _ => sortU (closureOf d p) := by
  unfold completeImportations
  exact get?_map_val d (fun k => sortU (closureOf d k)) p

theorem inAt_completeImportations {d : List (Name × List Name)} {p q : Name} :
    InAt (completeImportations d) p q ↔ p ∈ keys d ∧ Reach (Direct d) p q := by
  unfold InAt
  rw [get?_completeImportations]
  constructor
  · rintro ⟨l, hl, hq⟩
    cases hg : get? d p with
    | none => rw [hg] at hl; cases hl
    | some v =>
      rw [hg] at hl
      simp only [Option.map_some, Option.some.injEq] at hl
      rw [← hl, mem_sortU, mem_closureOf] at hq
      exact ⟨get?_isSome.mp ⟨v, hg⟩, hq⟩
  · rintro ⟨hp, hr⟩
    obtain ⟨v, hv⟩ := get?_isSome.mpr hp
    refine ⟨sortU (closureOf d p), by rw [hv]; rfl, ?_⟩
    rw [mem_sortU, mem_closureOf]; exact hr

theorem mem_completeImportations_sorted {d : List (Name × List Name)} :
    ∀ e ∈ completeImportations d, StrictSorted e.2 := by
  intro e he
  simp only [completeImportations, List.mem_map] at he
  obtain ⟨_, _, e'⟩ := he
  rw [← e']
  exact strictSorted_sortU _

/-- A node that is not a key has no successor. -/
theorem direct_key {d : List (Name × List Name)} {p q : Name} (h : Direct d p q) : p ∈ keys d := by
  unfold Direct succs at h
  cases hg : get? d p with
  | none => rw [hg] at h; cases h
  | some v => exact get?_isSome.mp ⟨v, hg⟩

theorem reach_key {d : List (Name × List Name)} {p q : Name} (h : Reach (Direct d) p q) :
    p ∈ keys d := by
  induction h with
  | single h => exact direct_key h
  | tail _ _ ih => exact ih

theorem reach_last {d : List (Name × List Name)} {p q : Name} (h : Reach (Direct d) p q) :
    ∃ b, b ∈ keys d ∧ Direct d b q := by
  cases h with
  | single h => exact ⟨p, direct_key h, h⟩
  | tail _ h' => exact ⟨_, direct_key h', h'⟩

/-! ## Decomposition of `makeDb` -/

theorem makeDb_ok {toTaxa : Name → List Label → List Taxon} {progs : List Prog} {db : Db}
    (h : makeDb toTaxa progs = .ok db) :
    db.importations = completeImportations (directD progs) ∧
    exportations (pathsOf progs) (completeImportations (directD progs)) = .ok db.exportations ∧
    db.labels = sortKeys (collectNew (labelOcc (labelled progs))) ∧
    db.taxa = sortKeys (collect (taxonOcc (taxaed toTaxa progs))) ∧
    db.programs =
      progs.foldl (fun d p => set d p.path (recordOf toTaxa (internalOf progs) p)) [] := by
  unfold makeDb at h
  simp only at h
  split at h
  · cases h
  · rename_i exps hexp
    simp only [Except.ok.injEq] at h
    subst h
    exact ⟨rfl, hexp, rfl, rfl, rfl⟩

theorem makeDb_error {toTaxa : Name → List Label → List Taxon} {progs : List Prog} {e : Err}
    (h : makeDb toTaxa progs = .error e) :
    exportations (pathsOf progs) (completeImportations (directD progs)) = .error e := by
  unfold makeDb at h
  simp only at h
  split at h
  · rename_i e' hexp
    simp only [Except.error.injEq] at h
    subst h
    exact hexp
  · cases h

theorem makeDb_isOk_of {toTaxa : Name → List Label → List Taxon} {progs : List Prog} {exps}
    (h : exportations (pathsOf progs) (completeImportations (directD progs)) = .ok exps) :
    ∃ db, makeDb toTaxa progs = .ok db := by
  unfold makeDb
  simp only
  have h' : exportations (List.map (fun x => x.path) progs)
      (completeImportations (directImportations (labelled progs))) = .ok exps := h
  rw [h']
  exact ⟨_, rfl⟩

theorem programs_eq {toTaxa : Name → List Label → List Taxon} (progs : List Prog)
    (hn : (pathsOf progs).Nodup) :
    progs.foldl (fun d p => set d p.path (recordOf toTaxa (internalOf progs) p)) [] =
      progs.map fun p => (p.path, recordOf toTaxa (internalOf progs) p) := by
  have := foldl_set_nodup (fun p : Prog => p.path) (recordOf toTaxa (internalOf progs)) progs []
    (by simpa [keys, pathsOf] using hn)
  simpa using this

/-! ## Prepared labels / taxa -/

theorem mem_set' {β : Type} {d : List (Name × β)} {k : Name} {v : β} {e : Name × β}
    (h : e ∈ set d k v) : e ∈ d ∨ e = (k, v) := by
  induction d with
  | nil => simp only [set, List.mem_singleton] at h; exact Or.inr h
  | cons f t ih =>
    obtain ⟨k0, v0⟩ := f
    unfold set at h
    split at h
    · rename_i hk0
      rcases List.mem_cons.mp h with e' | h'
      · right; rw [e', hk0]
      · left; exact List.mem_cons_of_mem _ h'
    · rcases List.mem_cons.mp h with e' | h'
      · left; rw [e']; exact List.mem_cons_self
      · rcases ih h' with h'' | h''
        · left; exact List.mem_cons_of_mem _ h''
        · right; exact h''

theorem foldl_set_props {β γ : Type} (key : γ → Name) (val : γ → β) (xs : List γ)
    (d : List (Name × β)) :
    (∀ e ∈ xs.foldl (fun d x => set d (key x) (val x)) d, e ∈ d ∨ ∃ x ∈ xs, key x = e.1 ∧ val x = e.2) ∧
    (∀ k, k ∈ keys (xs.foldl (fun d x => set d (key x) (val x)) d) ↔ k ∈ keys d ∨ k ∈ xs.map key) ∧
    ((keys d).Nodup → (keys (xs.foldl (fun d x => set d (key x) (val x)) d)).Nodup) := by
  induction xs generalizing d with
  | nil => simp
  | cons x t ih =>
    simp only [List.foldl_cons]
    obtain ⟨h1, h2, h3⟩ := ih (set d (key x) (val x))
    refine ⟨?_, ?_, ?_⟩
    · intro e he
      rcases h1 e he with h | ⟨y, hy, hk⟩
      · rcases mem_set' h with hd | hd
        · exact Or.inl hd
        · exact Or.inr ⟨x, List.mem_cons_self, by rw [hd], by rw [hd]⟩
      · exact Or.inr ⟨y, List.mem_cons_of_mem _ hy, hk⟩
    · intro k
      rw [h2, keys_set]
      by_cases hk : key x ∈ keys d
      · simp only [hk, if_true, List.map_cons, List.mem_cons]
        constructor
        · rintro (h | h)
          · exact Or.inl h
          · exact Or.inr (Or.inr h)
        · rintro (h | h | h)
          · exact Or.inl h
          · rw [h]; exact Or.inl hk
          · exact Or.inr h
      · simp only [hk, if_false, List.mem_append, List.map_cons, List.mem_cons, List.not_mem_nil, or_false]
        constructor
        · rintro ((h | h) | h)
          · exact Or.inl h
          · exact Or.inr (Or.inl h)
          · exact Or.inr (Or.inr h)
        · rintro (h | h | h)
          · exact Or.inl (Or.inl h)
          · exact Or.inl (Or.inr h)
          · exact Or.inr h
    · intro hn
      apply h3
      rw [keys_set]
      split
      · exact hn
      · rename_i hk
        rw [List.nodup_append]
        refine ⟨hn, by simp, ?_⟩
        intro a ha b hb
        simp only [List.mem_singleton] at hb
        rw [hb]; intro e; exact hk (e ▸ ha)

/-- the spans of all the entries named `k`, in order -/
def spansNamed (ls : List Label) (k : Name) : List Span3 :=
  (ls.filter fun l => decide (l.name = k)).flatMap (·.spans)

theorem get?_foldl_bags (ls : List Label) (d : List (Name × List Span3)) (k : Name) :
    get? (ls.foldl (fun d l => set d l.name ((get? d l.name).getD [] ++ l.spans)) d) k =
      match get? d k with
      | some v => some (v ++ spansNamed ls k)
      | none => if k ∈ ls.map (·.name) then some (spansNamed ls k) else none := by
  induction ls generalizing d with
  | nil =>
    simp only [List.foldl_nil, spansNamed, List.filter_nil, List.flatMap_nil, List.append_nil,
      List.map_nil, List.not_mem_nil, if_false]
    cases get? d k <;> rfl
  | cons l t ih =>
    simp only [List.foldl_cons]
    rw [ih, get?_set]
    by_cases h : k = l.name
    · subst h
      simp only [if_true, spansNamed, List.filter_cons, decide_true, List.flatMap_cons, List.map_cons,
        List.mem_cons, true_or]
      cases hg : get? d l.name with
      | none => simp
      | some v => simp
    · have hn : ¬ l.name = k := fun e => h e.symm
      simp only [h, if_false, spansNamed, List.filter_cons, hn, decide_false, Bool.false_eq_true,
        List.map_cons, List.mem_cons, false_or]

theorem get?_labelBags (ls : List Label) (k : Name) :
    get? (labelBags ls) k = if k ∈ ls.map (·.name) then some (spansNamed ls k) else none := by
  unfold labelBags
  rw [get?_foldl_bags]
  rfl

theorem labelBags_keys (ls : List Label) :
    (∀ k, k ∈ keys (labelBags ls) ↔ k ∈ ls.map (·.name)) ∧ (keys (labelBags ls)).Nodup := by
  obtain ⟨-, h2, h3⟩ := foldl_set_props (fun l : Label => l.name) (fun l : Label => l.spans) ls []
  -- `foldl_set_props` is about constant values; redo the two key facts for the accumulating step
  clear h2 h3
  have key : ∀ (ls : List Label) (d : List (Name × List Span3)),
      (∀ k, k ∈ keys (ls.foldl (fun d l => set d l.name ((get? d l.name).getD [] ++ l.spans)) d) ↔
        k ∈ keys d ∨ k ∈ ls.map (·.name)) ∧
      ((keys d).Nodup →
        (keys (ls.foldl (fun d l => set d l.name ((get? d l.name).getD [] ++ l.spans)) d)).Nodup) := by
    intro ls
    induction ls with
    | nil => intro d; simp
    | cons l t ih =>
      intro d
      simp only [List.foldl_cons]
      obtain ⟨h1, h2⟩ := ih (set d l.name ((get? d l.name).getD [] ++ l.spans))
      refine ⟨?_, ?_⟩
      · intro k
        rw [h1, keys_set]
        by_cases hk : l.name ∈ keys d
        · simp only [hk, if_true, List.map_cons, List.mem_cons]
          constructor
          · rintro (h | h)
            · exact Or.inl h
            · exact Or.inr (Or.inr h)
          · rintro (h | h | h)
            · exact Or.inl h
            · rw [h]; exact Or.inl hk
            · exact Or.inr h
        · simp only [hk, if_false, List.mem_append, List.map_cons, List.mem_cons, List.not_mem_nil,
            or_false]
          constructor
          · rintro ((h | h) | h)
            · exact Or.inl h
            · exact Or.inr (Or.inl h)
            · exact Or.inr (Or.inr h)
          · rintro (h | h | h)
            · exact Or.inl (Or.inl h)
            · exact Or.inl (Or.inr h)
            · exact Or.inr h
      · intro hn
        apply h2
        rw [keys_set]
        split
        · exact hn
        · rename_i hk
          rw [List.nodup_append]
          refine ⟨hn, by simp, ?_⟩
          intro a ha b hb
          simp only [List.mem_singleton] at hb
          rw [hb]; intro e; exact hk (e ▸ ha)
  obtain ⟨k1, k2⟩ := key ls []
  refine ⟨fun k => ?_, k2 (by simp [keys])⟩
  have := k1 k
  simpa [keys, labelBags] using this

theorem keys_preparedLabels (ls : List Label) : keys (preparedLabels ls) = keys (labelBags ls) := by
  simp [keys, preparedLabels, List.map_map, Function.comp_def]

/-- **`prepared_labels`, at full strength** (no hypothesis on the names): the keys are the label names,
each once, and the value at a name is the sorted distinct spans of ALL the entries of that name. -/
theorem preparedLabels_props (ls : List Label) :
    (∀ e ∈ preparedLabels ls, e.1 ∈ ls.map (·.name) ∧ e.2 = preparedSpans (spansNamed ls e.1)) ∧
    (∀ k, k ∈ keys (preparedLabels ls) ↔ k ∈ ls.map (·.name)) ∧
    (keys (preparedLabels ls)).Nodup := by
  obtain ⟨hk, hn⟩ := labelBags_keys ls
  refine ⟨?_, ?_, ?_⟩
  · intro e he
    simp only [preparedLabels, List.mem_map] at he
    obtain ⟨b, hb, rfl⟩ := he
    have hg := get?_of_mem_nodup hn (show (b.1, b.2) ∈ labelBags ls from hb)
    rw [get?_labelBags] at hg
    split at hg
    · rename_i hmem
      simp only [Option.some.injEq] at hg
      exact ⟨hmem, by rw [← hg]⟩
    · cases hg
  · intro k; rw [keys_preparedLabels]; exact hk k
  · rw [keys_preparedLabels]; exact hn

theorem get?_map_snd {β γ : Type} (d : List (Name × β)) (f : β → γ) (k : Name) :
    get? (d.map fun e => (e.1, f e.2)) k = (get? d k).map f := by
  induction d with
  | nil => rfl
  | cons e t ih =>
    obtain ⟨k0, v0⟩ := e
    simp only [List.map_cons, get?_cons]
    by_cases h : k0 = k
    · simp [h]
    · simp [h, ih]

theorem preparedTaxa_props (ts : List Taxon) :
    (∀ e ∈ preparedTaxa ts, ∃ t ∈ ts, t.name = e.1 ∧ e.2 = preparedSpans t.spans) ∧
    (∀ k, k ∈ keys (preparedTaxa ts) ↔ k ∈ ts.map (·.name)) ∧
    (keys (preparedTaxa ts)).Nodup := by
  obtain ⟨h1, h2, h3⟩ := foldl_set_props (fun l : Taxon => l.name)
    (fun l : Taxon => preparedSpans l.spans) ts []
  refine ⟨?_, ?_, h3 (by simp [keys])⟩
  · intro e he
    rcases h1 e he with h | ⟨l, hl, hk, hv⟩
    · cases h
    · exact ⟨l, hl, hk, hv.symm⟩
  · intro k
    have := h2 k
    simpa [keys, preparedTaxa] using this

/-- Every label name is a key, with the sorted distinct spans of all the entries of that name — whether
or not a name occurs several times in the parser's result. -/
theorem get?_preparedLabels (ls : List Label) {l : Label} (hl : l ∈ ls) :
    get? (preparedLabels ls) l.name = some (preparedSpans (spansNamed ls l.name)) := by
  unfold preparedLabels
  rw [get?_map_snd, get?_labelBags]
  have : l.name ∈ ls.map (·.name) := List.mem_map.mpr ⟨l, hl, rfl⟩
  simp [this]

theorem get?_preparedTaxa {ts : List Taxon} (hn : (ts.map (·.name)).Nodup) {t : Taxon}
    (ht : t ∈ ts) : get? (preparedTaxa ts) t.name = some (preparedSpans t.spans) := by
  have := foldl_set_nodup (fun l : Taxon => l.name) (fun l : Taxon => preparedSpans l.spans) ts []
    (by simpa [keys] using hn)
  unfold preparedTaxa
  rw [this]
  apply get?_of_mem_nodup
  · simpa [keys, List.map_map, Function.comp_def] using hn
  · simp only [List.nil_append, List.mem_map]
    exact ⟨t, ht, rfl⟩

/-! ## Occurrence lists -/

theorem mem_occOf {occ : List (Name × Name)} {k p : Name} : p ∈ occOf occ k ↔ (k, p) ∈ occ := by
  unfold occOf
  simp only [List.mem_map, List.mem_filter, decide_eq_true_eq]
  constructor
  · rintro ⟨⟨a, b⟩, ⟨hm, hk⟩, hp⟩
    simp only at hk hp
    rw [← hk, ← hp]; exact hm
  · intro h
    exact ⟨(k, p), ⟨h, rfl⟩, rfl⟩

theorem mem_labelOcc {lab : List (Name × List Label)} {k p : Name} :
    (k, p) ∈ labelOcc lab ↔ ∃ e ∈ lab, e.1 = p ∧ k ∈ e.2.map (·.name) := by
  unfold labelOcc
  simp only [List.mem_flatMap, List.mem_map, Prod.mk.injEq]
  constructor
  · rintro ⟨e, he, l, hl, hk, hp⟩
    exact ⟨e, he, hp, l, hl, hk⟩
  · rintro ⟨e, he, hp, l, hl, hk⟩
    exact ⟨e, he, l, hl, hk, hp⟩

theorem mem_taxonOcc {tax : List (Name × List Taxon)} {k p : Name} :
    (k, p) ∈ taxonOcc tax ↔ ∃ e ∈ tax, e.1 = p ∧ k ∈ e.2.map (·.name) := by
  unfold taxonOcc
  simp only [List.mem_flatMap, List.mem_map, Prod.mk.injEq]
  constructor
  · rintro ⟨e, he, l, hl, hk, hp⟩
    exact ⟨e, he, hp, l, hl, hk⟩
  · rintro ⟨e, he, hp, l, hl, hk⟩
    exact ⟨e, he, l, hl, hk, hp⟩

/-- the sorted inverted index: value at `k` and membership -/
theorem index_get? (occ : List (Name × Name)) (k : Name) :
    get? (sortKeys (collect occ)) k = if occOf occ k = [] then none else some (occOf occ k) := by
  rw [(sortKeys_props _ (nodup_keys_collect occ)).2.1, get?_collect]

theorem index_inAt (occ : List (Name × Name)) (k p : Name) :
    InAt (sortKeys (collect occ)) k p ↔ (k, p) ∈ occ := by
  unfold InAt
  rw [index_get?]
  constructor
  · rintro ⟨l, hl, hp⟩
    split at hl
    · cases hl
    · simp only [Option.some.injEq] at hl
      rw [← hl] at hp
      exact mem_occOf.mp hp
  · intro h
    have hp := mem_occOf.mpr h
    have hne : occOf occ k ≠ [] := fun e => by rw [e] at hp; cases hp
    exact ⟨occOf occ k, by simp [hne], hp⟩

/-! ## The labels index after fix F47 -/

theorem indexNew_get? (occ : List (Name × Name)) (k : Name) :
    get? (sortKeys (collectNew occ)) k =
      if occOf occ k = [] then none else some (dedupAdj (occOf occ k)) := by
  rw [(sortKeys_props _ (nodup_keys_collectNew occ)).2.1, get?_collectNew]

theorem indexNew_inAt (occ : List (Name × Name)) (k p : Name) :
    InAt (sortKeys (collectNew occ)) k p ↔ (k, p) ∈ occ := by
  unfold InAt
  rw [indexNew_get?]
  constructor
  · rintro ⟨l, hl, hp⟩
    split at hl
    · cases hl
    · simp only [Option.some.injEq] at hl
      rw [← hl, mem_dedupAdj] at hp
      exact mem_occOf.mp hp
  · intro h
    have hp := mem_occOf.mpr h
    have hne : occOf occ k ≠ [] := fun e => by rw [e] at hp; cases hp
    exact ⟨dedupAdj (occOf occ k), by simp [hne], (mem_dedupAdj _ _).mpr hp⟩

theorem occOf_append (a b : List (Name × Name)) (k : Name) :
    occOf (a ++ b) k = occOf a k ++ occOf b k := by
  simp [occOf]

theorem occOf_block (e : Name × List Label) (k : Name) :
    ∀ x ∈ occOf (e.2.map fun l => (l.name, e.1)) k, x = e.1 := by
  intro x hx
  simp only [occOf, List.mem_map, List.mem_filter, decide_eq_true_eq] at hx
  obtain ⟨o, ⟨⟨l, -, rfl⟩, -⟩, rfl⟩ := hx
  rfl

theorem getLast?_addNew (l : List Name) (a : Name) : (addNew l a).getLast? = some a := by
  unfold addNew
  split
  · rename_i h; exact h
  · simp

/-- a block of equal values adds its value at most once -/
theorem foldl_addNew_const (xs l : List Name) (a : Name) (h : ∀ x ∈ xs, x = a) :
    xs.foldl addNew l = if xs = [] then l else addNew l a := by
  induction xs generalizing l with
  | nil => rfl
  | cons x t ih =>
    have hx : x = a := h x List.mem_cons_self
    subst hx
    simp only [List.foldl_cons, List.cons_ne_nil, if_false]
    rw [ih _ (fun y hy => h y (List.mem_cons_of_mem _ hy))]
    split
    · rfl
    · have := getLast?_addNew l x
      unfold addNew at this ⊢
      split
      · rename_i hl; simp [hl]
      · rename_i hl
        simp [hl] at this ⊢

/-- **Each path at most once.** With distinct program paths, the list of a label name in the index is
duplicate-free: the occurrences come grouped by program, and a group adds its path once. -/
theorem nodup_foldl_addNew_labelOcc (lab : List (Name × List Label)) (k : Name) (acc : List Name)
    (hn : (keys lab).Nodup) (hacc : acc.Nodup) (hdis : ∀ a ∈ acc, a ∉ keys lab) :
    ((occOf (labelOcc lab) k).foldl addNew acc).Nodup := by
  induction lab generalizing acc with
  | nil => simpa [labelOcc, occOf] using hacc
  | cons e t ih =>
    have hocc : occOf (labelOcc (e :: t)) k =
        occOf (e.2.map fun l => (l.name, e.1)) k ++ occOf (labelOcc t) k := by
      simp only [labelOcc, List.flatMap_cons]
      exact occOf_append _ _ k
    rw [hocc, List.foldl_append, foldl_addNew_const _ _ e.1 (occOf_block e k)]
    simp only [keys, List.map_cons, List.nodup_cons] at hn
    have he : e.1 ∉ acc := fun h => hdis e.1 h (by simp [keys])
    split
    · apply ih _ hn.2 hacc
      intro a ha hk
      exact hdis a ha (by simp only [keys, List.map_cons, List.mem_cons]; exact Or.inr hk)
    · have hadd : addNew acc e.1 = acc ++ [e.1] := by
        unfold addNew
        split
        · rename_i hl; exact absurd (List.mem_of_getLast? hl) he
        · rfl
      rw [hadd]
      apply ih _ hn.2
      · rw [List.nodup_append]
        refine ⟨hacc, by simp, ?_⟩
        intro a ha b hb
        simp only [List.mem_singleton] at hb
        rw [hb]; intro e'; exact he (e' ▸ ha)
      · intro a ha hk
        rcases List.mem_append.mp ha with h | h
        · exact hdis a h (by simp only [keys, List.map_cons, List.mem_cons]; exact Or.inr hk)
        · simp only [List.mem_singleton] at h
          rw [h] at hk
          exact hn.1 (by simpa [keys] using hk)

theorem nodup_dedupAdj_labelOcc (lab : List (Name × List Label)) (k : Name) (hn : (keys lab).Nodup) :
    (dedupAdj (occOf (labelOcc lab) k)).Nodup :=
  nodup_foldl_addNew_labelOcc lab k [] hn (by simp) (by simp)

end Paroxy.DB
