/-
C02 helper lemmas, tree-structured: the second capture of the `node` feature at a positioned node is
the position of its last positioned strict descendant in dump order.
-/
import Paroxy.Proofs.NodeSpan
import Paroxy.Proofs.FlatBackport
import Paroxy.Proofs.FlatEntries
namespace Paroxy.Flat

/-! ## `findLastPos` on the lines of entries -/

theorem findLastPos_cons_run {g l : Str} (L : List Str) (h : startsWithMore g l = true) :
    findLastPos g (l :: L) = (findLastPos g L).orElse (fun _ => lastPos? g l L) := by
  simp only [findLastPos, h, if_true]
  cases findLastPos g L <;> rfl

/-- A position line under `g/` is accepted by the last-POS pattern, which captures its position text. -/
theorem lastPos_posLine {g t : Str} (n : Nat) (addr : List Nat) (Z : List Str) (ht : t ≠ []) (hg : '=' ∉ g)
    (ht' : '=' ∉ t) :
    lastPos? g (posLine (g ++ '/' :: t) n (encPath addr)) Z = some (posText n addr) := by
  have hl : posLine (g ++ '/' :: t) n (encPath addr) = (g ++ ['/']) ++ ((t ++ cs!"/_pos") ++ '=' :: posText n addr) := by
    simp [posLine, posText, posPath]
  have hkey : '=' ∉ t ++ cs!"/_pos" := not_mem_append_lit ht' (by decide)
  have hv : '\n' ∉ posText n addr := by
    simp only [posText, posPath, List.mem_append, List.mem_cons, not_or]
    exact ⟨newline_not_mem_dec n, by decide, fun hm => newline_not_mem_encPath addr (List.mem_of_mem_drop hm)⟩
  have hne : posText n addr ≠ [] := posText_ne_nil n addr
  have hlen : 0 < t.length := List.length_pos_iff.mpr ht
  unfold lastPos?
  rw [hl]
  have hp : (g ++ ['/']).isPrefixOf ((g ++ ['/']) ++ ((t ++ cs!"/_pos") ++ '=' :: posText n addr)) = true := by
    rw [List.isPrefixOf_iff_prefix]; exact ⟨_, rfl⟩
  rw [if_pos hp]
  have hd : ((g ++ ['/']) ++ ((t ++ cs!"/_pos") ++ '=' :: posText n addr)).drop (g.length + 1) =
      (t ++ cs!"/_pos") ++ '=' :: posText n addr := List.drop_left' (by simp)
  rw [hd]
  rcases joinLines_cons ((t ++ cs!"/_pos") ++ '=' :: posText n addr) Z with hj | ⟨W, hj⟩
  · rw [hj]
    simp only [takeWhile_ne_append '=' _ _ hkey, List.drop_left]
    rw [takeWhile_ne_of_not_mem '\n' _ hv]
    have hs : (cs!"/_pos").isSuffixOf (t ++ cs!"/_pos") = true := by
      rw [List.isSuffixOf_iff_suffix]; exact ⟨t, rfl⟩
    have hne' : (posText n addr).isEmpty = false := by
      cases hq : posText n addr with
      | nil => exact absurd hq hne
      | cons _ _ => rfl
    simp [hs, hne']; omega
  · rw [hj]
    have e : (t ++ cs!"/_pos") ++ '=' :: posText n addr ++ '\n' :: W =
        (t ++ cs!"/_pos") ++ '=' :: (posText n addr ++ '\n' :: W) := by simp
    rw [e]
    simp only [takeWhile_ne_append '=' _ _ hkey, List.drop_left]
    rw [takeWhile_ne_append '\n' _ W hv]
    have hs : (cs!"/_pos").isSuffixOf (t ++ cs!"/_pos") = true := by
      rw [List.isSuffixOf_iff_suffix]; exact ⟨t, rfl⟩
    have hne' : (posText n addr).isEmpty = false := by
      cases hq : posText n addr with
      | nil => exact absurd hq hne
      | cons _ _ => rfl
    simp [hs, hne']; omega

/-- The entry lies strictly under the prefix `g`. -/
def EntryUnder (g : Str) (e : Entry) : Prop := ∃ t, t ≠ [] ∧ encNames e.names = g ++ '/' :: t

theorem entry_lines_in_run (h : Str → Str) {g : Str} {e : Entry} (hu : EntryUnder g e) :
    ∀ l ∈ e.lines h, startsWithMore g l = true := by
  obtain ⟨t, _, ht⟩ := hu
  intro l hl
  have key : ∀ w : Str, startsWithMore g (encNames e.names ++ w) = true := by
    intro w
    rw [ht]
    simp only [startsWithMore, Bool.and_eq_true, List.isPrefixOf_iff_prefix, decide_eq_true_eq]
    exact ⟨⟨'/' :: t ++ w, by simp⟩, by simp⟩
  obtain ⟨addr, names, item⟩ := e
  cases item with
  | node ty isE r ln =>
    simp only [Entry.lines, List.mem_cons, List.mem_append] at hl
    rcases hl with rfl | hl | hl
    · simpa [typeLine] using key (cs!"/_type=" ++ ty)
    · cases isE with
      | false => simp at hl
      | true => simp at hl; subst hl; simpa [hashLine] using key (cs!"/_hash=" ++ h r)
    · cases ln with
      | none => simp at hl
      | some n => simp at hl; subst hl; simpa [posLine] using key (cs!"/_pos=" ++ (dec n ++ ':' :: (encPath addr).drop 2))
  | list q n =>
    cases q with
    | true => simp [Entry.lines] at hl
    | false => simp [Entry.lines] at hl; subst hl; simpa [lengthLine] using key (cs!"/_length=" ++ dec n)
  | scalar r =>
    simp [Entry.lines] at hl; subst hl; simpa [scalarLine] using key ('=' :: r)

theorem findLastPos_keep {g l x : Str} (L : List Str) (h : startsWithMore g l = true)
    (hx : findLastPos g L = some x) : findLastPos g (l :: L) = some x := by
  rw [findLastPos_cons_run L h, hx]; rfl

theorem findLastPos_keep_list {g x : Str} : ∀ (A L : List Str), (∀ l ∈ A, startsWithMore g l = true) →
    findLastPos g L = some x → findLastPos g (A ++ L) = some x
  | [], _, _, hx => hx
  | a :: A, L, h, hx =>
    findLastPos_keep _ (h a (by simp)) (findLastPos_keep_list A L (fun l hl => h l (List.mem_cons_of_mem _ hl)) hx)

theorem findLastPos_skip_list {g : Str} : ∀ (A L : List Str), (∀ l ∈ A, startsWithMore g l = true) →
    (∀ l ∈ A, ∀ L', lastPos? g l L' = none) → findLastPos g (A ++ L) = findLastPos g L
  | [], _, _, _ => rfl
  | a :: A, L, h, hf => by
    rw [List.cons_append, findLastPos_cons_run _ (h a (by simp)),
      findLastPos_skip_list A L (fun l hl => h l (List.mem_cons_of_mem _ hl))
        (fun l hl => hf l (List.mem_cons_of_mem _ hl)), hf a (by simp)]
    cases findLastPos g L <;> rfl

/-- `findLastPos` across the lines of one entry under `g`. -/
theorem findLastPos_entry (h : Str → Str) (hh : HashNoEq h) (hn : HashNoNewline h) {g : Str} (hg : '=' ∉ g)
    (e : Entry) (hok : e.ok2 = true) (hu : EntryUnder g e) (Z : List Str) :
    findLastPos g (e.lines h ++ Z) = (findLastPos g Z).orElse (fun _ => e.posStart.map (·.2)) := by
  have hrun := entry_lines_in_run h hu
  cases hp : e.posStart with
  | none =>
    have hfail : ∀ l ∈ e.lines h, ∀ L', lastPos? g l L' = none := by
      intro l hl L'
      cases hq : lastPos? g l L' with
      | none => rfl
      | some p =>
        obtain ⟨ty, n, h1, _⟩ := lastPos_entry_line h hh hn e hok L' hg hl hq
        rw [hp] at h1; cases h1
    rw [findLastPos_skip_list _ _ hrun hfail]
    cases findLastPos g Z <;> rfl
  | some tp =>
    obtain ⟨addr, names, item⟩ := e
    cases item with
    | node ty isE r ln =>
      cases ln with
      | none => simp [Entry.posStart] at hp
      | some n =>
        simp only [Entry.posStart, Option.some.injEq] at hp
        subst hp
        obtain ⟨t, ht, htn⟩ := hu
        simp only at htn
        have hpre : '=' ∉ encNames names := by
          have := Entry.ok_pre (e := ⟨addr, names, .node ty isE r (some n)⟩) (by
            simp only [Entry.ok2, Bool.and_eq_true] at hok; exact hok.1)
          simpa using this
        have ht' : '=' ∉ t := fun hm => hpre (by rw [htn]; simp [hm])
        have hpos : lastPos? g (posLine (encNames names) n (encPath addr)) Z = some (posText n addr) := by
          rw [htn]; exact lastPos_posLine n addr Z ht hg ht'
        have hlines : Entry.lines h ⟨addr, names, .node ty isE r (some n)⟩ =
            (typeLine (encNames names) ty :: (if isE then [hashLine (encNames names) (h r)] else [])) ++
              [posLine (encNames names) n (encPath addr)] := by
          simp [Entry.lines]
        have hposrun : startsWithMore g (posLine (encNames names) n (encPath addr)) = true :=
          hrun _ (by rw [hlines]; simp)
        have hlast : findLastPos g (posLine (encNames names) n (encPath addr) :: Z) =
            some ((findLastPos g Z).getD (posText n addr)) := by
          rw [findLastPos_cons_run _ hposrun, hpos]
          cases findLastPos g Z <;> rfl
        rw [hlines, List.append_assoc]
        rw [findLastPos_keep_list _ _ (fun l hl => hrun l (by rw [hlines]; exact List.mem_append_left _ hl))
          (by simpa using hlast)]
        cases findLastPos g Z <;> rfl
    | list q k => simp [Entry.posStart] at hp
    | scalar r => simp [Entry.posStart] at hp

theorem lastPosOfEntries_cons (e : Entry) (es : List Entry) :
    (lastPosOfEntries (e :: es)).map (fun p => posText p.1 p.2) =
      ((lastPosOfEntries es).map (fun p => posText p.1 p.2)).orElse (fun _ => e.posStart.map (·.2)) := by
  obtain ⟨addr, names, item⟩ := e
  cases item with
  | node ty isE r ln =>
    cases ln with
    | none => simp [lastPosOfEntries, Entry.posStart]
    | some n =>
      simp only [lastPosOfEntries, List.filterMap_cons, Entry.posStart, List.getLast?_cons]
      cases (List.filterMap _ es).getLast? <;> rfl
  | list q k => simp [lastPosOfEntries, Entry.posStart]
  | scalar r => simp [lastPosOfEntries, Entry.posStart]

/-- `findLastPos` across the lines of a list of entries under `g`, followed by lines where it finds
nothing: the position text of the last positioned entry. -/
theorem findLastPos_entries (h : Str → Str) (hh : HashNoEq h) (hn : HashNoNewline h) {g : Str} (hg : '=' ∉ g)
    (Y : List Str) (hY : findLastPos g Y = none) : ∀ (es : List Entry),
    (∀ e ∈ es, e.ok2 = true ∧ EntryUnder g e) →
    findLastPos g (es.flatMap (Entry.lines h) ++ Y) = (lastPosOfEntries es).map (fun p => posText p.1 p.2)
  | [], _ => by simp [hY, lastPosOfEntries]
  | e :: es, hall => by
    have ih := findLastPos_entries h hh hn hg Y hY es (fun x hx => hall x (List.mem_cons_of_mem _ hx))
    rw [List.flatMap_cons, List.append_assoc,
      findLastPos_entry h hh hn hg e (hall e (by simp)).1 (hall e (by simp)).2, ih, lastPosOfEntries_cons]

/-- Lines that do not lie under `g/` give nothing. -/
theorem findLastPos_none_of_not_under {g : Str} : ∀ (Y : List Str), (∀ l ∈ Y, ¬ (g ++ ['/']) <+: l) →
    findLastPos g Y = none
  | [], _ => rfl
  | l :: Y, h => by
    have hl : lastPos? g l Y = none := by
      unfold lastPos?
      have : (g ++ ['/']).isPrefixOf l = false := by
        cases hb : (g ++ ['/']).isPrefixOf l with
        | false => rfl
        | true => exact absurd (List.isPrefixOf_iff_prefix.mp hb) (h l (by simp))
      simp [this]
    simp only [findLastPos]
    split
    · rw [findLastPos_none_of_not_under Y (fun x hx => h x (List.mem_cons_of_mem _ hx)), hl]
    · rfl

/-! ## The matches of the `node` feature, tree by tree -/

def GoodMatches (P : Str → Bool) (MS : List (Str × List Str)) : Prop :=
  ∀ m ∈ MS, P m.1 = true → GoodSpan m

theorem nodeMatches_skip : ∀ (tail R' : List Str), (∀ l ∈ tail, typeSplits l = []) →
    nodeMatches (tail ++ R') = nodeMatches R'
  | [], _, _ => rfl
  | l :: tl, R', ht => by
    rw [List.cons_append, nodeMatches_cons_nosplit _ (ht l (by simp))]
    exact nodeMatches_skip tl R' (fun l' hl' => ht l' (List.mem_cons_of_mem _ hl'))

theorem fieldNameOk_iff {n : Str} : fieldNameOk n = true ↔ nameOk n = true ∧ n ≠ [] := by
  simp [fieldNameOk, nameOk, and_assoc]

theorem rcond_sub {pre n : Str} {R : List Str} (hR : RCond pre R) : ∀ l ∈ R, l ≠ [] ∧ ¬ (subPre pre n ++ ['/']) <+: l := by
  intro l hl
  refine ⟨(hR l hl).1, fun hp => (hR l hl).2 ?_⟩
  obtain ⟨t, ht⟩ := hp
  exact ⟨n ++ '/' :: t, by rw [← ht]; simp [subPre]⟩

mutual
theorem nm_tree (h : Str → Str) (hh : HashNoEq h) (hn : HashNoNewline h) (P : Str → Bool) :
    ∀ (v : Val) (names : List Str) (addr : List Nat) (R : List Str),
    (∀ e ∈ entries names addr v, e.ok2 = true ∧ e.typed P = true) → namesOkTree v = true →
    lastDescMono names addr v = true → RCond (encNames names) R →
    ∃ MS, nodeMatches (dumpP h (encNames names) (encPath addr) v ++ R) = MS ++ nodeMatches R ∧ GoodMatches P MS
  | .node ty isE r ln fs, names, addr, R, hall, hnames, hmono, hR => by
    have hroot := hall ⟨addr, names, .node ty isE r ln⟩ (by simp [entries])
    have hok1 : (⟨addr, names, .node ty isE r ln⟩ : Entry).ok = true := by
      have := hroot.1; simp only [Entry.ok2, Bool.and_eq_true] at this; exact this.1
    have hpre : '=' ∉ encNames names := by simpa using Entry.ok_pre hok1
    have hok' : '=' ∉ ty ∧ ty ≠ [] := by
      unfold Entry.ok at hok1
      simp only [Bool.and_eq_true] at hok1
      exact ⟨by simpa using hok1.2.1, by simpa using hok1.2.2⟩
    simp only [namesOkTree, Bool.and_eq_true] at hnames
    obtain ⟨⟨hfn, hnd0⟩, hnf⟩ := hnames
    have hnd : (fs.map (·.1)).Nodup := by simpa using hnd0
    simp only [lastDescMono, Bool.and_eq_true] at hmono
    obtain ⟨hm0, hmf⟩ := hmono
    have hallF : ∀ e ∈ entriesFields names addr 0 fs, e.ok2 = true ∧ e.typed P = true :=
      fun e he => hall e (by simp [entries, he])
    obtain ⟨MSF, hF, hGF⟩ := nm_fields h hh hn P fs names addr 0 R hallF hfn hnd hnf hmf hR hpre
    have hFe : dumpPFields h (encNames names) (encPath addr) 0 fs =
        (entriesFields names addr 0 fs).flatMap (Entry.lines h) := dumpPFields_eq_entries h names addr 0 fs
    have hhp : ∀ l ∈ hpLines h (encNames names) (encPath addr) isE r ln, typeSplits l = [] := by
      intro l hl
      simp only [hpLines, List.mem_append] at hl
      rcases hl with hl | hl
      · cases isE with
        | false => simp at hl
        | true => simp at hl; rw [hl]; exact typeSplits_hashLine hpre (hh r)
      · cases ln with
        | none => simp at hl
        | some n => simp at hl; rw [hl]; exact typeSplits_posLine n addr hpre
    have hdump : dumpP h (encNames names) (encPath addr) (.node ty isE r ln fs) ++ R =
        typeLine (encNames names) ty :: (hpLines h (encNames names) (encPath addr) isE r ln ++
          (dumpPFields h (encNames names) (encPath addr) 0 fs ++ R)) := by
      rw [dumpP_node_eq]; simp
    have hrest : nodeMatches (hpLines h (encNames names) (encPath addr) isE r ln ++
        (dumpPFields h (encNames names) (encPath addr) 0 fs ++ R)) = MSF ++ nodeMatches R := by
      rw [nodeMatches_skip _ _ hhp, hF]
    rw [hdump]
    cases ln with
    | some n =>
      have hmA := nodeMatchAt_positioned' h (encNames names) ty r isE n addr
        (dumpPFields h (encNames names) (encPath addr) 0 fs ++ R) hpre hok'.1 hok'.2
      have hmA' : nodeMatchAt (typeLine (encNames names) ty ::
          (hpLines h (encNames names) (encPath addr) isE r (some n) ++
            (dumpPFields h (encNames names) (encPath addr) 0 fs ++ R))) =
          some (ty, posText n addr ::
            (findLastPos (encNames names) (dumpPFields h (encNames names) (encPath addr) 0 fs ++ R)).toList) := by
        simpa [hpLines, List.append_assoc] using hmA
      -- the second capture: the last positioned strict descendant
      have hunder : ∀ e ∈ entriesFields names addr 0 fs, e.ok2 = true ∧ EntryUnder (encNames names) e := by
        intro e he
        refine ⟨(hallF e he).1, ?_⟩
        obtain ⟨k, n', c, q, ns, w, hk, _, rfl⟩ := (mem_entriesFields_iff names addr 0 e fs).mp he
        have hn' : n' ∈ fs.map (·.1) := by
          have := List.mem_of_getElem? hk
          exact List.mem_map.mpr ⟨(n', c), this, rfl⟩
        have hne : n' ≠ [] := (fieldNameOk_iff.mp (List.all_eq_true.mp hfn n' hn')).2
        exact ⟨n' ++ encNames ns, by simp [hne], by simp [encNames_append, encNames]⟩
      have hY : findLastPos (encNames names) R = none :=
        findLastPos_none_of_not_under R (fun l hl => (hR l hl).2)
      have hfl : findLastPos (encNames names) (dumpPFields h (encNames names) (encPath addr) 0 fs ++ R) =
          (lastPosOfEntries (entriesFields names addr 0 fs)).map (fun p => posText p.1 p.2) := by
        rw [hFe]; exact findLastPos_entries h hh hn hpre R hY _ hunder
      refine ⟨(ty, posText n addr :: ((lastPosOfEntries (entriesFields names addr 0 fs)).map
          (fun p => posText p.1 p.2)).toList) :: MSF, ?_, ?_⟩
      · rw [nodeMatches, hmA', hfl, hrest]; rfl
      · intro m hm hP
        rcases List.mem_cons.mp hm with rfl | hm
        · cases hl : lastPosOfEntries (entriesFields names addr 0 fs) with
          | none => exact ⟨n, addr, Or.inl (by simp)⟩
          | some p =>
            obtain ⟨n', a'⟩ := p
            rw [hl] at hm0
            exact ⟨n, addr, Or.inr ⟨n', a', by simp, by simpa using hm0⟩⟩
        · exact hGF m hm hP
    | none =>
      have hPty : P ty = false := by simpa [Entry.typed] using hroot.2
      rw [nodeMatches, hrest]
      rcases nodeMatchAt_typeLine_suffix (encNames names) ty
          (hpLines h (encNames names) (encPath addr) isE r none ++
            (dumpPFields h (encNames names) (encPath addr) 0 fs ++ R)) hpre hok'.1 hok'.2 with hnone | ⟨ps, hs⟩
      · rw [hnone]; exact ⟨MSF, rfl, hGF⟩
      · rw [hs]
        refine ⟨(ty, ps) :: MSF, rfl, ?_⟩
        intro m hm hP
        rcases List.mem_cons.mp hm with rfl | hm
        · rw [hPty] at hP; cases hP
        · exact hGF m hm hP
  | .list q xs, names, addr, R, hall, hnames, hmono, hR => by
    have hroot := hall ⟨addr, names, .list q xs.length⟩ (by simp [entries])
    have hok1 : (⟨addr, names, .list q xs.length⟩ : Entry).ok = true := by
      have := hroot.1; simp only [Entry.ok2, Bool.and_eq_true] at this; exact this.1
    have hpre : '=' ∉ encNames names := by simpa using Entry.ok_pre hok1
    simp only [namesOkTree] at hnames
    simp only [lastDescMono] at hmono
    have hallI : ∀ e ∈ entriesItems names addr 1 xs, e.ok2 = true ∧ e.typed P = true :=
      fun e he => hall e (by simp [entries, he])
    obtain ⟨MSI, hI, hGI⟩ := nm_items h hh hn P xs names addr 1 R hallI hnames hmono hR hpre
    refine ⟨MSI, ?_, hGI⟩
    cases q with
    | true => simpa [dumpP] using hI
    | false =>
      simp only [dumpP, Bool.false_eq_true, if_false, List.cons_append, List.nil_append]
      rw [nodeMatches_cons_nosplit _ (typeSplits_lengthLine _ hpre), hI]
  | .scalar r k, names, addr, R, hall, _, _, _ => by
    have hroot := hall ⟨addr, names, .scalar r⟩ (by simp [entries])
    have hok1 : (⟨addr, names, .scalar r⟩ : Entry).ok = true := by
      have := hroot.1; simp only [Entry.ok2, Bool.and_eq_true] at this; exact this.1
    have hpre : '=' ∉ encNames names := by simpa using Entry.ok_pre hok1
    have hok'' : ¬ tyKey <:+ encNames names ∧ hasInfix tyMark r = false := by
      unfold Entry.ok at hok1
      simp only [Bool.and_eq_true] at hok1
      obtain ⟨_, h2, h3⟩ := hok1
      refine ⟨?_, by simpa using h3⟩
      intro hs
      rw [← List.isSuffixOf_iff_suffix] at hs
      simp only [tyKey] at hs
      rw [hs] at h2
      cases h2
    refine ⟨[], ?_, fun m hm => by cases hm⟩
    simp only [dumpP, List.cons_append, List.nil_append]
    exact nodeMatches_cons_nosplit _ (typeSplits_scalarLine hpre hok''.1 hok''.2)
theorem nm_fields (h : Str → Str) (hh : HashNoEq h) (hn : HashNoNewline h) (P : Str → Bool) :
    ∀ (fs : List (Str × Val)) (names : List Str) (addr : List Nat) (i : Nat) (R : List Str),
    (∀ e ∈ entriesFields names addr i fs, e.ok2 = true ∧ e.typed P = true) →
    (fs.map (·.1)).all fieldNameOk = true → (fs.map (·.1)).Nodup → namesOkFields fs = true →
    lastDescMonoFields names addr i fs = true → RCond (encNames names) R → '=' ∉ encNames names →
    ∃ MS, nodeMatches (dumpPFields h (encNames names) (encPath addr) i fs ++ R) = MS ++ nodeMatches R ∧
      GoodMatches P MS
  | [], _, _, _, R, _, _, _, _, _, _, _ => ⟨[], rfl, fun m hm => by cases hm⟩
  | (n, v) :: rest, names, addr, i, R, hall, hfn, hnd, hnf, hmono, hR, hpre => by
    simp only [List.map_cons, List.all_cons, Bool.and_eq_true] at hfn
    simp only [List.map_cons, List.nodup_cons] at hnd
    simp only [namesOkFields, Bool.and_eq_true] at hnf
    simp only [lastDescMonoFields, Bool.and_eq_true] at hmono
    have hnok := fieldNameOk_iff.mp hfn.1
    obtain ⟨MSr, hr, hGr⟩ := nm_fields h hh hn P rest names addr (i + 1) R
      (fun e he => hall e (by simp [entriesFields, he])) hfn.2 hnd.2 hnf.2 hmono.2 hR hpre
    have hR' : RCond (encNames (names ++ [n])) (dumpPFields h (encNames names) (encPath addr) (i + 1) rest ++ R) := by
      rw [← subPre_encNames]
      intro l hl
      rcases List.mem_append.mp hl with hl | hl
      · obtain ⟨n', hn', hu⟩ := under_dumpPFields h rest _ _ (i + 1) l hl
        have hne : n ≠ n' := fun e' => hnd.1 (e' ▸ hn')
        exact ⟨hu.ne_nil, not_prefix_of_under_sibling (c := '/') (Or.inl rfl) hnok.1
          (fieldNameOk_iff.mp (List.all_eq_true.mp hfn.2 n' hn')).1 hne hu⟩
      · exact rcond_sub hR l hl
    obtain ⟨MSv, hv, hGv⟩ := nm_tree h hh hn P v (names ++ [n]) (addr ++ [i]) _
      (fun e he => hall e (by simp [entriesFields, he])) hnf.1 hmono.1 hR'
    refine ⟨MSv ++ MSr, ?_, ?_⟩
    · simp only [dumpPFields, List.append_assoc, subPre_encNames, subPath_encPath]
      rw [hv, hr]
    · intro m hm hP
      rcases List.mem_append.mp hm with hm | hm
      · exact hGv m hm hP
      · exact hGr m hm hP
theorem nm_items (h : Str → Str) (hh : HashNoEq h) (hn : HashNoNewline h) (P : Str → Bool) :
    ∀ (xs : List Val) (names : List Str) (addr : List Nat) (i : Nat) (R : List Str),
    (∀ e ∈ entriesItems names addr i xs, e.ok2 = true ∧ e.typed P = true) → namesOkItems xs = true →
    lastDescMonoItems names addr i xs = true → RCond (encNames names) R → '=' ∉ encNames names →
    ∃ MS, nodeMatches (dumpPItems h (encNames names) (encPath addr) i xs ++ R) = MS ++ nodeMatches R ∧
      GoodMatches P MS
  | [], _, _, _, R, _, _, _, _, _ => ⟨[], rfl, fun m hm => by cases hm⟩
  | v :: rest, names, addr, i, R, hall, hnf, hmono, hR, hpre => by
    simp only [namesOkItems, Bool.and_eq_true] at hnf
    simp only [lastDescMonoItems, Bool.and_eq_true] at hmono
    have hok : ∀ j, nameOk (dec j) = true := fun j => nameOk_iff.mpr ⟨eq_not_mem_dec j, slash_not_mem_dec j⟩
    obtain ⟨MSr, hr, hGr⟩ := nm_items h hh hn P rest names addr (i + 1) R
      (fun e he => hall e (by simp [entriesItems, he])) hnf.2 hmono.2 hR hpre
    have hR' : RCond (encNames (names ++ [dec i])) (dumpPItems h (encNames names) (encPath addr) (i + 1) rest ++ R) := by
      rw [← subPre_encNames]
      intro l hl
      rcases List.mem_append.mp hl with hl | hl
      · obtain ⟨j, hj, hu⟩ := under_dumpPItems h rest _ _ (i + 1) l hl
        have hne : dec i ≠ dec j := fun e' => by have := dec_injective e'; omega
        exact ⟨hu.ne_nil, not_prefix_of_under_sibling (c := '/') (Or.inl rfl) (hok i) (hok j) hne hu⟩
      · exact rcond_sub hR l hl
    obtain ⟨MSv, hv, hGv⟩ := nm_tree h hh hn P v (names ++ [dec i]) (addr ++ [i]) _
      (fun e he => hall e (by simp [entriesItems, he])) hnf.1 hmono.1 hR'
    refine ⟨MSv ++ MSr, ?_, ?_⟩
    · simp only [dumpPItems, List.append_assoc, subPre_encNames, subPath_encPath]
      rw [hv, hr]
    · intro m hm hP
      rcases List.mem_append.mp hm with hm | hm
      · exact hGv m hm hP
      · exact hGr m hm hP
end

end Paroxy.Flat
