/-
C01 helper lemmas: what the `node` matcher does on the lines of a dump.
-/
import Paroxy.Proofs.FlatStr
import Paroxy.Proofs.FlatPath
import Paroxy.Spec.NodeFeature
namespace Paroxy.Flat

theorem nodeMatchAt_nosplit {l : Str} (rest : List Str) (h : typeSplits l = []) :
    nodeMatchAt (l :: rest) = none := by
  simp [nodeMatchAt, h, firstSome]

theorem nodeMatches_cons_nosplit {l : Str} (rest : List Str) (h : typeSplits l = []) :
    nodeMatches (l :: rest) = nodeMatches rest := by
  simp [nodeMatches, nodeMatchAt_nosplit rest h]

/-! ## The three kinds of non-type lines offer no candidate -/

theorem not_contains_iff {s : Str} {c : Char} : (!s.contains c) = true ↔ c ∉ s := by
  simp

theorem hasInfix_false_of_not_mem {pat s : Str} {c : Char} (hc : c ∈ pat) (hs : c ∉ s) :
    hasInfix pat s = false := by
  cases h : hasInfix pat s with
  | false => rfl
  | true =>
    obtain ⟨a, b, e⟩ := (hasInfix_iff pat s).mp h
    exact absurd (by rw [e]; simp [hc]) hs

theorem suffix_same_length {a b pre : Str} (hl : a.length = b.length) (h : a <:+ pre ++ b) : a = b := by
  obtain ⟨g, hg⟩ := h
  have e1 : (g ++ a).drop ((g ++ a).length - a.length) = a := by
    rw [List.length_append, Nat.add_sub_cancel]; exact List.drop_left
  have e2 : (pre ++ b).drop ((pre ++ b).length - b.length) = b := by
    rw [List.length_append, Nat.add_sub_cancel]; exact List.drop_left
  rw [hg, hl, e2] at e1
  exact e1.symm

theorem typeSplits_hashLine {pre hx : Str} (hpre : '=' ∉ pre) (hhx : '=' ∉ hx) :
    typeSplits (hashLine pre hx) = [] := by
  have : hashLine pre hx = (pre ++ cs!"/_hash") ++ '=' :: hx := by simp [hashLine]
  rw [this]
  apply typeSplits_keyval
  · simp only [List.mem_append, not_or]; exact ⟨hpre, by decide⟩
  · intro hs
    have := suffix_same_length (by rfl) hs
    revert this; decide
  · exact hasInfix_false_of_not_mem (c := '=') (by decide) hhx

theorem typeSplits_lengthLine {pre : Str} (n : Nat) (hpre : '=' ∉ pre) :
    typeSplits (lengthLine pre n) = [] := by
  have : lengthLine pre n = (pre ++ cs!"/_length") ++ '=' :: dec n := by simp [lengthLine]
  rw [this]
  apply typeSplits_keyval
  · simp only [List.mem_append, not_or]; exact ⟨hpre, by decide⟩
  · intro hs
    have h2 : tyKey <:+ (pre ++ cs!"/_") ++ cs!"length" := by simpa using hs
    have := suffix_same_length (by rfl) h2
    revert this; decide
  · exact hasInfix_false_of_not_mem (c := '=') (by decide) (eq_not_mem_dec n)

theorem eq_not_mem_encPath : ∀ p : List Nat, '=' ∉ encPath p
  | [] => by simp [encPath]
  | i :: p => by
    simp only [encPath, List.mem_append, List.mem_cons, not_or]
    exact ⟨eq_not_mem_dec i, by decide, eq_not_mem_encPath p⟩

theorem typeSplits_posLine {pre : Str} (n : Nat) (addr : List Nat) (hpre : '=' ∉ pre) :
    typeSplits (posLine pre n (encPath addr)) = [] := by
  have : posLine pre n (encPath addr) = (pre ++ cs!"/_pos") ++ '=' :: (dec n ++ ':' :: (encPath addr).drop 2) := by
    simp [posLine]
  rw [this]
  apply typeSplits_keyval
  · simp only [List.mem_append, not_or]; exact ⟨hpre, by decide⟩
  · intro hs
    -- `/_type` (6 characters) against the last 6 characters of `pre ++ "/_pos"`: the last 5 differ
    obtain ⟨g, hg⟩ := hs
    have e := congrArg (fun l => l.drop (l.length - 5)) hg
    simp only [List.length_append] at e
    have e1 : (g ++ tyKey).drop (g.length + tyKey.length - 5) = cs!"_type" := by
      have : g.length + tyKey.length - 5 = (g ++ cs!"/").length := by simp [tyKey]
      rw [this]
      have : g ++ tyKey = (g ++ cs!"/") ++ cs!"_type" := by simp [tyKey]
      rw [this]; exact List.drop_left
    have e2 : (pre ++ cs!"/_pos").drop (pre.length + (cs!"/_pos").length - 5) = cs!"/_pos" := by
      have : pre.length + (cs!"/_pos").length - 5 = pre.length := by simp
      rw [this]; exact List.drop_left
    rw [e1, e2] at e
    revert e; decide
  · apply hasInfix_false_of_not_mem (c := '=') (by decide)
    simp only [List.mem_append, List.mem_cons, not_or]
    refine ⟨eq_not_mem_dec n, by decide, fun h => eq_not_mem_encPath addr (List.mem_of_mem_drop h)⟩

theorem typeSplits_scalarLine {pre r : Str} (hpre : '=' ∉ pre) (hsuf : ¬ tyKey <:+ pre)
    (hr : hasInfix tyMark r = false) : typeSplits (scalarLine pre r) = [] :=
  typeSplits_keyval hpre hsuf hr

/-! ## The matcher on a type line followed by the node's own `_hash` / `_pos` lines -/

theorem drop_pre_slash (pre Y : Str) : (pre ++ '/' :: Y).drop (pre.length + 1) = Y := by
  have : pre ++ '/' :: Y = (pre ++ ['/']) ++ Y := by simp
  rw [this]; exact List.drop_left' (by simp)

theorem pre_slash_prefix (pre Y : Str) : (pre ++ ['/']).isPrefixOf (pre ++ '/' :: Y) = true := by
  rw [List.isPrefixOf_iff_prefix]; exact ⟨Y, by simp⟩

/-- On the node's own position line, the first `POS` is the text after `_pos=`. -/
theorem firstPos_posLine (pre X : Str) (hX : X ≠ []) :
    firstPos? pre (pre ++ cs!"/_pos=" ++ X) = some X := by
  have hl : pre ++ cs!"/_pos=" ++ X = pre ++ '/' :: (cs!"_pos=" ++ X) := by simp
  have hlen : 0 < X.length := List.length_pos_iff.mpr hX
  rw [hl]
  unfold firstPos?
  rw [if_pos (pre_slash_prefix pre _), drop_pre_slash]
  have hw : List.takeWhile isWordC (cs!"_pos=" ++ X) = cs!"_pos" := by
    simp [List.takeWhile, isWordC, isDigitC]
  simp only [hw]
  simp [hlen]

/-- The `_hash` line is neither a position line… -/
theorem firstPos_hashLine (pre hx : Str) : firstPos? pre (hashLine pre hx) = none := by
  have hl : hashLine pre hx = pre ++ '/' :: (cs!"_hash=" ++ hx) := by simp [hashLine]
  rw [hl]
  unfold firstPos?
  rw [if_pos (pre_slash_prefix pre _), drop_pre_slash]
  have hw : List.takeWhile isWordC (cs!"_hash=" ++ hx) = cs!"_hash" := by
    simp [List.takeWhile, isWordC, isDigitC]
  simp only [hw]
  simp

/-- … and it string-starts with the prefix (so the lazy loop skips it). -/
theorem startsWithMore_hashLine (pre hx : Str) : startsWithMore pre (hashLine pre hx) = true := by
  simp [startsWithMore, hashLine, List.isPrefixOf_iff_prefix]

theorem posLine_eq (pre : Str) (n : Nat) (addr : List Nat) :
    posLine pre n (encPath addr) = pre ++ cs!"/_pos=" ++ posText n addr := by
  simp [posLine, posText, posPath]

theorem posText_ne_nil (n : Nat) (addr : List Nat) : posText n addr ≠ [] := by
  intro h
  have := congrArg List.length h
  simp [posText] at this

/-- **Key lemma.** At the type line of a positioned node the matcher succeeds, with the node's type
as SUFFIX and the text of the node's own `_pos` as first POS — whatever follows. -/
theorem nodeMatchAt_positioned (h : Str → Str) (pre ty r : Str) (isE : Bool) (n : Nat) (addr : List Nat)
    (rest : List Str) (hpre : '=' ∉ pre) (hty : '=' ∉ ty) (hne : ty ≠ []) :
    ∃ t, nodeMatchAt (typeLine pre ty :: ((if isE then [hashLine pre (h r)] else []) ++
      [posLine pre n (encPath addr)] ++ rest)) = some (ty, posText n addr :: t) := by
  obtain ⟨hm, hall⟩ := typeSplits_typeLine hpre hty hne
  have hnn : typeSplits (typeLine pre ty) ≠ [] := fun e => by rw [e] at hm; cases hm
  simp only [nodeMatchAt]
  rw [firstSome_of_all_eq _ (pre, ty) _ hnn hall]
  have hfp : findFirstPos pre ((if isE then [hashLine pre (h r)] else []) ++
      [posLine pre n (encPath addr)] ++ rest) = some (posText n addr, rest) := by
    have hp : firstPos? pre (posLine pre n (encPath addr)) = some (posText n addr) := by
      rw [posLine_eq]; exact firstPos_posLine pre _ (posText_ne_nil n addr)
    cases isE with
    | false => simp [findFirstPos, hp]
    | true => simp [findFirstPos, hp, firstPos_hashLine, startsWithMore_hashLine]
  simp only [nodeTry, hfp]
  cases findLastPos pre rest with
  | none => exact ⟨[], rfl⟩
  | some p2 => exact ⟨[p2], rfl⟩

/-- At any type line, a match (if any) has the type as SUFFIX. -/
theorem nodeMatchAt_typeLine_suffix (pre ty : Str) (rest : List Str)
    (hpre : '=' ∉ pre) (hty : '=' ∉ ty) (hne : ty ≠ []) :
    nodeMatchAt (typeLine pre ty :: rest) = none ∨
      ∃ ps, nodeMatchAt (typeLine pre ty :: rest) = some (ty, ps) := by
  obtain ⟨hm, hall⟩ := typeSplits_typeLine hpre hty hne
  have hnn : typeSplits (typeLine pre ty) ≠ [] := fun e => by rw [e] at hm; cases hm
  simp only [nodeMatchAt]
  rw [firstSome_of_all_eq _ (pre, ty) _ hnn hall]
  simp only [nodeTry]
  cases findFirstPos pre rest with
  | none => exact Or.inl rfl
  | some pr =>
    obtain ⟨p1, rest'⟩ := pr
    right
    simp only
    cases findLastPos pre rest' with
    | none => exact ⟨_, rfl⟩
    | some p2 => exact ⟨_, rfl⟩

/-! ## The whole dump -/

theorem nodeStarts_cons_nosplit {l : Str} (R : List Str) (h : typeSplits l = []) :
    nodeStarts (l :: R) = nodeStarts R := by
  simp [nodeStarts, nodeMatches_cons_nosplit R h]

theorem nodeStarts_cons_some {l : Str} (R : List Str) {sfx p : Str} {t : List Str}
    (h : nodeMatchAt (l :: R) = some (sfx, p :: t)) : nodeStarts (l :: R) = (sfx, p) :: nodeStarts R := by
  simp [nodeStarts, nodeMatches, h]

theorem Entry.ok_pre {e : Entry} (h : e.ok = true) : '=' ∉ encNames e.names := by
  unfold Entry.ok at h
  simp only [Bool.and_eq_true] at h
  simpa using h.1

/-- The matches starting on the lines of one well-formed entry, seen through the positioned-type
filter: the entry's own `(type, position text)` if it is a positioned node, nothing otherwise. -/
theorem nodeStarts_entry (h : Str → Str) (hh : ∀ r, '=' ∉ h r) (P : Str → Bool) (e : Entry)
    (hok : e.ok = true) (hty : e.typed P = true) (R : List Str) :
    (nodeStarts (e.lines h ++ R)).filter (fun x => P x.1) =
      e.posStart.toList ++ (nodeStarts R).filter (fun x => P x.1) := by
  have hpre := Entry.ok_pre hok
  obtain ⟨addr, names, item⟩ := e
  cases item with
  | node ty isE r ln =>
    have hok' : '=' ∉ ty ∧ ty ≠ [] := by
      unfold Entry.ok at hok
      simp only [Bool.and_eq_true] at hok
      obtain ⟨_, h2, h3⟩ := hok
      exact ⟨by simpa using h2, by simpa using h3⟩
    -- the lines after the type line offer no candidate
    have hskip : ∀ (tail : List Str) (R' : List Str), (∀ l ∈ tail, typeSplits l = []) →
        nodeStarts (tail ++ R') = nodeStarts R' := by
      intro tail R' ht
      induction tail with
      | nil => rfl
      | cons l tl ih =>
        rw [List.cons_append, nodeStarts_cons_nosplit _ (ht l (by simp))]
        exact ih (fun l' hl' => ht l' (List.mem_cons_of_mem _ hl'))
    have hhash : ∀ l ∈ (if isE then [hashLine (encNames names) (h r)] else []), typeSplits l = [] := by
      intro l hl
      cases isE with
      | false => simp at hl
      | true => simp at hl; rw [hl]; exact typeSplits_hashLine hpre (hh r)
    cases ln with
    | some n =>
      obtain ⟨t, hm⟩ := nodeMatchAt_positioned h (encNames names) ty r isE n addr R hpre hok'.1 hok'.2
      have hP : P ty = true := by simpa [Entry.typed] using hty
      simp only [Entry.lines, Entry.posStart, List.cons_append, Option.toList]
      have hm' : nodeMatchAt (typeLine (encNames names) ty ::
          (((if isE then [hashLine (encNames names) (h r)] else []) ++
            [posLine (encNames names) n (encPath addr)]) ++ R)) = some (ty, posText n addr :: t) := by
        simpa [List.append_assoc] using hm
      rw [nodeStarts_cons_some _ hm']
      rw [List.filter_cons_of_pos (by simpa using hP)]
      have hs2 := hskip ((if isE then [hashLine (encNames names) (h r)] else []) ++
          [posLine (encNames names) n (encPath addr)]) R (by
        intro l hl
        rcases List.mem_append.mp hl with hl | hl
        · exact hhash l hl
        · simp at hl; rw [hl]; exact typeSplits_posLine n addr hpre)
      rw [hs2]
      simp
    | none =>
      have hP : P ty = false := by simpa [Entry.typed] using hty
      simp only [Entry.lines, Entry.posStart, List.cons_append, Option.toList, List.append_nil, List.nil_append]
      have hrest : nodeStarts ((if isE then [hashLine (encNames names) (h r)] else []) ++ R) = nodeStarts R :=
        hskip _ R hhash
      rcases nodeMatchAt_typeLine_suffix (encNames names) ty
          ((if isE then [hashLine (encNames names) (h r)] else []) ++ R) hpre hok'.1 hok'.2 with hn | ⟨ps, hs⟩
      · simp only [nodeStarts, nodeMatches, hn, List.nil_append]
        exact congrArg _ hrest
      · cases ps with
        | nil =>
          simp only [nodeStarts, nodeMatches, hs, List.cons_append, List.nil_append, List.filterMap_cons,
            List.head?_nil, Option.map_none]
          exact congrArg _ hrest
        | cons p t =>
          rw [nodeStarts_cons_some _ hs, List.filter_cons_of_neg (by simp [hP]), hrest]
  | list q n =>
    simp only [Entry.lines, Entry.posStart, Option.toList, List.nil_append]
    cases q with
    | true => simp
    | false =>
      simp only [Bool.false_eq_true, if_false, List.cons_append, List.nil_append]
      rw [nodeStarts_cons_nosplit _ (typeSplits_lengthLine n hpre)]
  | scalar r =>
    simp only [Entry.lines, Entry.posStart, Option.toList, List.nil_append, List.cons_append]
    have hok' : ¬ tyKey <:+ encNames names ∧ hasInfix tyMark r = false := by
      unfold Entry.ok at hok
      simp only [Bool.and_eq_true] at hok
      obtain ⟨_, h2, h3⟩ := hok
      refine ⟨?_, by simpa using h3⟩
      intro hs
      rw [← List.isSuffixOf_iff_suffix] at hs
      simp only [tyKey] at hs
      rw [hs] at h2
      cases h2
    rw [nodeStarts_cons_nosplit _ (typeSplits_scalarLine hpre hok'.1 hok'.2)]

theorem nodeStarts_entries (h : Str → Str) (hh : ∀ r, '=' ∉ h r) (P : Str → Bool) :
    ∀ (es : List Entry) (R : List Str), (∀ e ∈ es, e.ok = true) → (∀ e ∈ es, e.typed P = true) →
    (nodeStarts (es.flatMap (Entry.lines h) ++ R)).filter (fun x => P x.1) =
      es.filterMap Entry.posStart ++ (nodeStarts R).filter (fun x => P x.1)
  | [], R, _, _ => by simp
  | e :: es, R, hok, hty => by
    rw [List.flatMap_cons, List.append_assoc,
      nodeStarts_entry h hh P e (hok e (by simp)) (hty e (by simp)),
      nodeStarts_entries h hh P es R (fun e' he' => hok e' (List.mem_cons_of_mem _ he'))
        (fun e' he' => hty e' (List.mem_cons_of_mem _ he'))]
    cases hp : e.posStart <;> simp [List.filterMap_cons, hp]

/-! ## Reading the line number back (`pos_to_span`) -/

theorem splitColon_of_not_mem : ∀ (b : Str), ':' ∉ b → splitColon b = [b]
  | [], _ => rfl
  | c :: t, h => by
    have hc : c ≠ ':' := fun e => h (by simp [e])
    have ht : ':' ∉ t := fun e => h (List.mem_cons_of_mem _ e)
    simp [splitColon, splitColon_of_not_mem t ht, hc]

theorem splitColon_append : ∀ (a b : Str), ':' ∉ a → splitColon (a ++ ':' :: b) = a :: splitColon b
  | [], b, _ => by
    cases hb : splitColon b with
    | nil => simp [splitColon, hb]
    | cons x xs => simp [splitColon, hb]
  | c :: t, b, h => by
    have hc : c ≠ ':' := fun e => h (by simp [e])
    have ht : ':' ∉ t := fun e => h (List.mem_cons_of_mem _ e)
    simp [splitColon, splitColon_append t b ht, hc]

theorem isDigitC_of_isDigit {c : Char} (h : c.isDigit = true) : isDigitC c = true := by
  simp only [Char.isDigit, Bool.and_eq_true, decide_eq_true_eq] at h
  simp only [isDigitC, Bool.and_eq_true, decide_eq_true_eq]
  exact ⟨Char.le_def.mpr h.1, Char.le_def.mpr h.2⟩

theorem parseNat_dec (n : Nat) : parseNat? (dec n) = some n := by
  unfold parseNat?
  have h1 : (dec n).isEmpty = false := by
    cases h : dec n with
    | nil => exact absurd h (dec_ne_nil n)
    | cons _ _ => rfl
  have h2 : (dec n).all isDigitC = true := by
    rw [List.all_eq_true]; intro c hc; exact isDigitC_of_isDigit (isDigit_of_mem_dec hc)
  simp only [h1, h2, Bool.not_false, Bool.and_self, if_true, Option.some.injEq]
  have := @Nat.ofDigitChars_ten_toDigits n
  simpa [Nat.ofDigitChars, dec] using this

theorem colon_not_mem_dec (n : Nat) : ':' ∉ dec n := fun h => by
  have := isDigit_of_mem_dec h
  revert this; decide

theorem colon_not_mem_encPath : ∀ p : List Nat, ':' ∉ encPath p
  | [] => by simp [encPath]
  | i :: p => by
    simp only [encPath, List.mem_append, List.mem_cons, not_or]
    exact ⟨colon_not_mem_dec i, by decide, colon_not_mem_encPath p⟩

/-- `pos_to_span` reads the node's own line number (and shown path) back from its position text. -/
theorem parsePos_posText (n : Nat) (addr : List Nat) : parsePos? (posText n addr) = some (n, posPath addr) := by
  have hp : ':' ∉ posPath addr := fun h => colon_not_mem_encPath addr (List.mem_of_mem_drop h)
  simp [parsePos?, posText, splitColon_append _ _ (colon_not_mem_dec n), splitColon_of_not_mem _ hp,
    parseNat_dec]

/-! ## The hash texts contain no `=` -/

theorem mem_toDigits16 (c : Char) : ∀ n, c ∈ Nat.toDigits 16 n → ∃ d, d < 16 ∧ c = Nat.digitChar d := by
  intro n
  induction n using Nat.strongRecOn with
  | _ n ih =>
    rw [Nat.toDigits_eq_if (by decide)]
    split
    · rename_i h; intro hc; simp at hc; exact ⟨n, h, hc⟩
    · rename_i h
      intro hc
      rcases List.mem_append.mp hc with hc | hc
      · exact ih (n / 16) (Nat.div_lt_self (by omega) (by decide)) hc
      · simp at hc; exact ⟨n % 16, Nat.mod_lt _ (by decide), hc⟩

theorem eq_not_mem_hex4 (n : Nat) : '=' ∉ hex4 n := by
  intro h
  simp only [hex4, List.mem_cons, List.mem_append, List.mem_replicate] at h
  rcases h with h | h | ⟨_, h⟩ | h
  · revert h; decide
  · revert h; decide
  · revert h; decide
  · obtain ⟨d, hd, e⟩ := mem_toDigits16 _ _ h
    have : ∀ d, d < 16 → '=' ≠ Nat.digitChar d := by decide
    exact this d hd e

theorem eq_not_mem_hashFn (t : Val) (r : Str) : '=' ∉ hashFn t r := eq_not_mem_hex4 _

end Paroxy.Flat
