/-
Helper lemmas for C12, token level: the two-buffer machine of `collect_hints` seen label by label.

* `St1`, `step1`, `run1`: the machine restricted to ONE label (two stacks of line numbers).
* `run1_bal`: on properly nested marks (`Bal`) the one-label machine returns the spans `Bal` names.
* `proj`: the state of the real machine seen from one label; `stepEv` acts on `proj t.label`
  as `step1` and leaves every other projection untouched; hence `runH_of_labels`.
-/
import Paroxy.Spec.Hints
namespace Paroxy.Hints

variable {O : CharOracle}

/-! ### One label -/

structure St1 where
  sa : List Nat := []
  sd : List Nat := []
  ra : List (Nat × Nat) := []
  rd : List (Nat × Nat) := []
  deriving DecidableEq, Repr

def step1 (st : St1) : Ev → Except Err St1
  | .one false i => .ok { st with ra := st.ra ++ [(i, i)] }
  | .one true i => .ok { st with rd := st.rd ++ [(i, i)] }
  | .opn false i => .ok { st with sa := i :: st.sa }
  | .opn true i => .ok { st with sd := i :: st.sd }
  | .cls j =>
    match st.sa.head?, st.sd.head? with
    | none, none => .error .valueError
    | some x, none => .ok { st with sa := st.sa.tail, ra := st.ra ++ [(x, j)] }
    | none, some y => .ok { st with sd := st.sd.tail, rd := st.rd ++ [(y, j)] }
    | some x, some y =>
      if x < y then .ok { st with sd := st.sd.tail, rd := st.rd ++ [(y, j)] }
      else .ok { st with sa := st.sa.tail, ra := st.ra ++ [(x, j)] }

def run1 : St1 → List Ev → Except Err St1
  | st, [] => .ok st
  | st, e :: w =>
    match step1 st e with
    | .ok st' => run1 st' w
    | .error x => .error x

theorem run1_append_ok {st st' : St1} {a b : List Ev} (h : run1 st a = .ok st') :
    run1 st (a ++ b) = run1 st' b := by
  induction a generalizing st with
  | nil =>
    have : st = st' := by simpa [run1] using h
    subst this; rfl
  | cons e a ih =>
    simp only [run1, List.cons_append] at h ⊢
    split at h
    · rename_i s1 hs
      first | exact ih h | (simp only [hs]; exact ih h)
    · cases h

def adds (r : List SSpan) : List (Nat × Nat) := r.filterMap fun p => if p.1 = false then some p.2 else none
def dels (r : List SSpan) : List (Nat × Nat) := r.filterMap fun p => if p.1 = true then some p.2 else none

@[simp] theorem adds_nil : adds [] = [] := rfl
@[simp] theorem dels_nil : dels [] = [] := rfl
@[simp] theorem adds_append (a b : List SSpan) : adds (a ++ b) = adds a ++ adds b := by simp [adds]
@[simp] theorem dels_append (a b : List SSpan) : dels (a ++ b) = dels a ++ dels b := by simp [dels]
@[simp] theorem adds_cons_false (x : Nat × Nat) (r : List SSpan) : adds ((false, x) :: r) = x :: adds r := by simp [adds]
@[simp] theorem adds_cons_true (x : Nat × Nat) (r : List SSpan) : adds ((true, x) :: r) = adds r := by simp [adds]
@[simp] theorem dels_cons_false (x : Nat × Nat) (r : List SSpan) : dels ((false, x) :: r) = dels r := by simp [dels]
@[simp] theorem dels_cons_true (x : Nat × Nat) (r : List SSpan) : dels ((true, x) :: r) = x :: dels r := by simp [dels]

/-- Line numbers never decrease along the marks. -/
def Mono (w : List Ev) : Prop := w.Pairwise fun a b => a.line ≤ b.line

/-- No line opens the label both for addition and for deletion. -/
def NoTie (w : List Ev) : Prop := ∀ i, Ev.opn false i ∈ w → Ev.opn true i ∈ w → False

/-- The entries already on the stacks are strictly above every opening of the other sign to come. -/
def Pre (st : St1) (w : List Ev) : Prop :=
  (∀ x ∈ st.sa, ∀ i, Ev.opn true i ∈ w → x < i) ∧ (∀ x ∈ st.sd, ∀ i, Ev.opn false i ∈ w → x < i)

theorem Mono.tail {e : Ev} {w : List Ev} (h : Mono (e :: w)) : Mono w := (List.pairwise_cons.mp h).2
theorem Mono.head {e : Ev} {w : List Ev} (h : Mono (e :: w)) : ∀ b ∈ w, e.line ≤ b.line :=
  (List.pairwise_cons.mp h).1
theorem Mono.left {a b : List Ev} (h : Mono (a ++ b)) : Mono a := (List.pairwise_append.mp h).1
theorem Mono.right {a b : List Ev} (h : Mono (a ++ b)) : Mono b := (List.pairwise_append.mp h).2.1

theorem NoTie.sub {w v : List Ev} (h : NoTie w) (hs : ∀ e ∈ v, e ∈ w) : NoTie v :=
  fun i h1 h2 => h i (hs _ h1) (hs _ h2)

theorem Pre.sub {st : St1} {w v : List Ev} (h : Pre st w) (hs : ∀ e ∈ v, e ∈ w) : Pre st v :=
  ⟨fun x hx i hi => h.1 x hx i (hs _ hi), fun x hx i hi => h.2 x hx i (hs _ hi)⟩

/-- **The one-label machine on properly nested marks** returns exactly the spans `Bal` names and
restores the stacks. -/
theorem run1_bal {w : List Ev} {r : List SSpan} (hb : Bal w r) :
    ∀ st : St1, Mono w → NoTie w → Pre st w →
      run1 st w = .ok { st with ra := st.ra ++ adds r, rd := st.rd ++ dels r } := by
  induction hb with
  | nil => intro st _ _ _; simp [run1]
  | @one s i w r _ ih =>
    intro st hm hn hp
    have hsub : ∀ e ∈ w, e ∈ Ev.one s i :: w := fun e he => List.mem_cons_of_mem _ he
    cases s with
    | false =>
      simp only [run1, step1]
      rw [ih { st with ra := st.ra ++ [(i, i)] } hm.tail (hn.sub hsub) ⟨fun x hx j hj => hp.1 x hx j (hsub _ hj), fun x hx j hj => hp.2 x hx j (hsub _ hj)⟩]
      simp
    | true =>
      simp only [run1, step1]
      rw [ih { st with rd := st.rd ++ [(i, i)] } hm.tail (hn.sub hsub) ⟨fun x hx j hj => hp.1 x hx j (hsub _ hj), fun x hx j hj => hp.2 x hx j (hsub _ hj)⟩]
      simp
  | @pair s i j u ru w rw _ _ ihu ihw =>
    intro st hm hn hp
    have hsubu : ∀ e ∈ u, e ∈ Ev.opn s i :: (u ++ Ev.cls j :: w) := fun e he => by simp [he]
    have hsubw : ∀ e ∈ w, e ∈ Ev.opn s i :: (u ++ Ev.cls j :: w) := fun e he => by simp [he]
    have hmu : Mono u := hm.tail.left
    have hmw : Mono w := (List.pairwise_cons.mp hm.tail.right).2
    have hself : Ev.opn s i ∈ Ev.opn s i :: (u ++ Ev.cls j :: w) := by simp
    cases s with
    | false =>
      simp only [run1, step1]
      have hpu : Pre { st with sa := i :: st.sa } u := by
        refine ⟨fun x hx k hk => ?_, fun x hx k hk => hp.2 x hx k (hsubu _ hk)⟩
        rcases List.mem_cons.mp hx with rfl | hx
        · have hle : x ≤ k := by
            have := hm.head (Ev.opn true k) (by simp [hk])
            simpa [Ev.line] using this
          have hne : x ≠ k := fun h => hn x hself (by subst h; exact hsubu _ hk)
          omega
        · exact hp.1 x hx k (hsubu _ hk)
      rw [run1_append_ok (ihu { st with sa := i :: st.sa } hmu (hn.sub hsubu) hpu)]
      have hlt : ∀ y ∈ st.sd, y < i := fun y hy => hp.2 y hy i hself
      have hstep : step1 { st with sa := i :: st.sa, ra := st.ra ++ adds ru, rd := st.rd ++ dels ru } (.cls j) =
          .ok { st with ra := st.ra ++ adds ru ++ [(i, j)], rd := st.rd ++ dels ru } := by
        cases hsd : st.sd with
        | nil => simp [step1, hsd]
        | cons y t =>
          have := hlt y (by simp [hsd])
          have h2 : ¬ i < y := by omega
          simp [step1, hsd, h2]
      simp only [run1, hstep]
      rw [ihw { st with ra := st.ra ++ adds ru ++ [(i, j)], rd := st.rd ++ dels ru } hmw (hn.sub hsubw) (hp.sub hsubw)]
      simp
    | true =>
      simp only [run1, step1]
      have hpu : Pre { st with sd := i :: st.sd } u := by
        refine ⟨fun x hx k hk => hp.1 x hx k (hsubu _ hk), fun x hx k hk => ?_⟩
        rcases List.mem_cons.mp hx with rfl | hx
        · have hle : x ≤ k := by
            have := hm.head (Ev.opn false k) (by simp [hk])
            simpa [Ev.line] using this
          have hne : x ≠ k := fun h => hn x (by subst h; exact hsubu _ hk) hself
          omega
        · exact hp.2 x hx k (hsubu _ hk)
      rw [run1_append_ok (ihu { st with sd := i :: st.sd } hmu (hn.sub hsubu) hpu)]
      have hlt : ∀ y ∈ st.sa, y < i := fun y hy => hp.1 y hy i hself
      have hstep : step1 { st with sd := i :: st.sd, ra := st.ra ++ adds ru, rd := st.rd ++ dels ru } (.cls j) =
          .ok { st with ra := st.ra ++ adds ru, rd := st.rd ++ dels ru ++ [(i, j)] } := by
        cases hsa : st.sa with
        | nil => simp [step1, hsa]
        | cons y t =>
          have := hlt y (by simp [hsa])
          simp [step1, hsa, this]
      simp only [run1, hstep]
      rw [ihw { st with ra := st.ra ++ adds ru, rd := st.rd ++ dels ru ++ [(i, j)] } hmw (hn.sub hsubw) (hp.sub hsubw)]
      simp

/-! ### The real machine seen from one label -/

def linesOf (L : Str) (stk : List (Str × Nat)) : List Nat :=
  stk.filterMap fun p => if p.1 = L then some p.2 else none

def proj (L : Str) (st : Bufs) : St1 :=
  { sa := linesOf L st.add.stack, sd := linesOf L st.del.stack,
    ra := spansOf L st.add.result, rd := spansOf L st.del.result }

theorem top_eq (L : Str) (stk : List (Str × Nat)) : top L stk = (linesOf L stk).head? := by
  induction stk with
  | nil => rfl
  | cons p t ih =>
    obtain ⟨l, x⟩ := p
    by_cases h : l = L <;> simp [top, linesOf, h] <;> simpa [linesOf] using ih

theorem linesOf_pop_same (L : Str) (stk : List (Str × Nat)) :
    linesOf L (pop L stk) = (linesOf L stk).tail := by
  induction stk with
  | nil => rfl
  | cons p t ih =>
    obtain ⟨l, x⟩ := p
    by_cases h : l = L
    · simp [pop, linesOf, h]
    · simp only [pop, h, if_false]
      simpa [linesOf, h] using ih

theorem linesOf_pop_other {L L' : Str} (hne : L' ≠ L) (stk : List (Str × Nat)) :
    linesOf L' (pop L stk) = linesOf L' stk := by
  induction stk with
  | nil => rfl
  | cons p t ih =>
    obtain ⟨l, x⟩ := p
    by_cases h : l = L
    · subst h
      have : ¬ l = L' := fun h => hne h.symm
      simp [pop, linesOf, this]
    · simp only [pop, h, if_false]
      by_cases h2 : l = L' <;> simpa [linesOf, h2] using ih

theorem spansOf_append_same (L : Str) (res : List Entry) (x i : Nat) :
    spansOf L (res ++ [(L, x, i)]) = spansOf L res ++ [(x, i)] := by
  simp [spansOf]

theorem spansOf_append_other {L L' : Str} (hne : L' ≠ L) (res : List Entry) (x i : Nat) :
    spansOf L' (res ++ [(L, x, i)]) = spansOf L' res := by
  have : ¬ L = L' := fun h => hne h.symm
  simp [spansOf, this]

/-- What `match_label` returns on the rendering of a hint. -/
def tokOf (h : Hint) : Tok :=
  match h.mark with
  | .one false => ⟨if h.style.plus then .plus else .none, h.label, false⟩
  | .one true => ⟨.minus, h.label, false⟩
  | .opn false => ⟨if h.style.plus then .plus else .none, h.label, true⟩
  | .opn true => ⟨.minus, h.label, true⟩
  | .cls => ⟨.dots, h.label, false⟩

/-- The machine on structured hints. -/
def runH : Bufs → List (Nat × Hint) → Except Err Bufs
  | st, [] => .ok st
  | st, (i, h) :: rest =>
    match stepEv i st (tokOf h) with
    | .ok st' => runH st' rest
    | .error e => .error e

def evsOf (L : Str) (toks : List (Nat × Hint)) : List Ev :=
  toks.filterMap fun p => if p.2.label = L then some (p.2.mark.ev p.1) else none

theorem stepEv_plusNone (i : Nat) (st : Bufs) (p : Bool) (L : Str) (a : Bool) :
    stepEv i st ⟨if p then .plus else .none, L, a⟩ = stepEv i st ⟨.none, L, a⟩ := by
  cases p <;> cases a <;> rfl

/-- One step of the real machine is one step of the one-label machine on the projection of the
token's label, and nothing changes for the other labels (both directions). -/
theorem stepEv_proj (i : Nat) (st : Bufs) (h : Hint) :
    (∀ s1, step1 (proj h.label st) (h.mark.ev i) = .ok s1 →
      ∃ st', stepEv i st (tokOf h) = .ok st' ∧ proj h.label st' = s1 ∧
        ∀ L', L' ≠ h.label → proj L' st' = proj L' st) ∧
    (∀ st', stepEv i st (tokOf h) = .ok st' →
      step1 (proj h.label st) (h.mark.ev i) = .ok (proj h.label st') ∧
        ∀ L', L' ≠ h.label → proj L' st' = proj L' st) ∧
    (∀ e, stepEv i st (tokOf h) = .error e → step1 (proj h.label st) (h.mark.ev i) = .error e) := by
  obtain ⟨mark, L, sty⟩ := h
  cases mark with
  | one s =>
    cases s
    · simp only [tokOf, stepEv_plusNone]
      refine ⟨fun s1 h1 => ⟨_, rfl, ?_, fun L' hne => ?_⟩, fun st' h1 => ?_, fun e h1 => by simp [stepEv] at h1⟩
      · simp only [Mark.ev, step1] at h1; cases h1
        simp [proj, Buf.append, spansOf_append_same]
      · simp [proj, Buf.append, spansOf_append_other hne]
      · simp only [stepEv] at h1; cases h1
        refine ⟨by simp [proj, Mark.ev, step1, Buf.append, spansOf_append_same], fun L' hne => ?_⟩
        simp [proj, Buf.append, spansOf_append_other hne]
    · simp only [tokOf]
      refine ⟨fun s1 h1 => ⟨_, rfl, ?_, fun L' hne => ?_⟩, fun st' h1 => ?_, fun e h1 => by simp [stepEv] at h1⟩
      · simp only [Mark.ev, step1] at h1; cases h1
        simp [proj, Buf.append, spansOf_append_same]
      · simp [proj, Buf.append, spansOf_append_other hne]
      · simp only [stepEv] at h1; cases h1
        refine ⟨by simp [proj, Mark.ev, step1, Buf.append, spansOf_append_same], fun L' hne => ?_⟩
        simp [proj, Buf.append, spansOf_append_other hne]
  | opn s =>
    cases s
    · simp only [tokOf, stepEv_plusNone]
      refine ⟨fun s1 h1 => ⟨_, rfl, ?_, fun L' hne => ?_⟩, fun st' h1 => ?_, fun e h1 => by simp [stepEv] at h1⟩
      · simp only [Mark.ev, step1] at h1; cases h1
        simp [proj, Buf.open, linesOf]
      · have : ¬ L = L' := fun h => hne h.symm
        simp [proj, Buf.open, linesOf, this]
      · simp only [stepEv] at h1; cases h1
        refine ⟨by simp [proj, Mark.ev, step1, Buf.open, linesOf], fun L' hne => ?_⟩
        have : ¬ L = L' := fun h => hne h.symm
        simp [proj, Buf.open, linesOf, this]
    · simp only [tokOf]
      refine ⟨fun s1 h1 => ⟨_, rfl, ?_, fun L' hne => ?_⟩, fun st' h1 => ?_, fun e h1 => by simp [stepEv] at h1⟩
      · simp only [Mark.ev, step1] at h1; cases h1
        simp [proj, Buf.open, linesOf]
      · have : ¬ L = L' := fun h => hne h.symm
        simp [proj, Buf.open, linesOf, this]
      · simp only [stepEv] at h1; cases h1
        refine ⟨by simp [proj, Mark.ev, step1, Buf.open, linesOf], fun L' hne => ?_⟩
        have : ¬ L = L' := fun h => hne h.symm
        simp [proj, Buf.open, linesOf, this]
  | cls =>
    have hA : ∀ x, proj L { st with add := st.add.close L x i } =
        { proj L st with sa := (proj L st).sa.tail, ra := (proj L st).ra ++ [(x, i)] } := by
      intro x; simp [proj, Buf.close, linesOf_pop_same, spansOf_append_same]
    have hD : ∀ y, proj L { st with del := st.del.close L y i } =
        { proj L st with sd := (proj L st).sd.tail, rd := (proj L st).rd ++ [(y, i)] } := by
      intro y; simp [proj, Buf.close, linesOf_pop_same, spansOf_append_same]
    have hA' : ∀ x L', L' ≠ L → proj L' { st with add := st.add.close L x i } = proj L' st := by
      intro x L' hne; simp [proj, Buf.close, linesOf_pop_other hne, spansOf_append_other hne]
    have hD' : ∀ y L', L' ≠ L → proj L' { st with del := st.del.close L y i } = proj L' st := by
      intro y L' hne; simp [proj, Buf.close, linesOf_pop_other hne, spansOf_append_other hne]
    have ht1 := top_eq L st.add.stack
    have ht2 := top_eq L st.del.stack
    have hsa : (proj L st).sa = linesOf L st.add.stack := rfl
    have hsd : (proj L st).sd = linesOf L st.del.stack := rfl
    cases ha : (linesOf L st.add.stack).head? <;> cases hd : (linesOf L st.del.stack).head?
    · simp [tokOf, Mark.ev, stepEv, step1, ht1, ht2, ha, hd, hsa, hsd]
    · rename_i y
      simp only [tokOf, Mark.ev, stepEv, step1, ht1, ht2, ha, hd, hsa, hsd]
      refine ⟨fun s1 h1 => ⟨_, rfl, ?_, hD' y⟩, fun st' h1 => ?_, fun e h1 => by cases h1⟩
      · cases h1; exact hD y
      · cases h1; exact ⟨by rw [hD y]; rfl, hD' y⟩
    · rename_i x
      simp only [tokOf, Mark.ev, stepEv, step1, ht1, ht2, ha, hd, hsa, hsd]
      refine ⟨fun s1 h1 => ⟨_, rfl, ?_, hA' x⟩, fun st' h1 => ?_, fun e h1 => by cases h1⟩
      · cases h1; exact hA x
      · cases h1; exact ⟨by rw [hA x]; rfl, hA' x⟩
    · rename_i x y
      simp only [tokOf, Mark.ev, stepEv, step1, ht1, ht2, ha, hd, hsa, hsd]
      by_cases h1 : x < y
      · simp only [h1, if_true]
        refine ⟨fun s1 h1 => ⟨_, rfl, ?_, hD' y⟩, fun st' h1 => ?_, fun e h1 => by cases h1⟩
        · cases h1; exact hD y
        · cases h1; exact ⟨by rw [hD y]; rfl, hD' y⟩
      · simp only [h1, if_false]
        refine ⟨fun s1 h1 => ⟨_, rfl, ?_, hA' x⟩, fun st' h1 => ?_, fun e h1 => by cases h1⟩
        · cases h1; exact hA x
        · cases h1; exact ⟨by rw [hA x]; rfl, hA' x⟩

theorem evsOf_cons_same (i : Nat) (h : Hint) (rest : List (Nat × Hint)) :
    evsOf h.label ((i, h) :: rest) = h.mark.ev i :: evsOf h.label rest := by
  simp [evsOf]

theorem evsOf_cons_other {L : Str} (i : Nat) (h : Hint) (rest : List (Nat × Hint)) (hne : L ≠ h.label) :
    evsOf L ((i, h) :: rest) = evsOf L rest := by
  have : ¬ h.label = L := fun e => hne e.symm
  simp [evsOf, this]

/-- If every label's marks, taken alone, are accepted by the one-label machine, the real machine
accepts the whole sequence, and its final state projects on the one-label final states. -/
theorem runH_of_labels (toks : List (Nat × Hint)) :
    ∀ st : Bufs, (∀ L, ∃ s, run1 (proj L st) (evsOf L toks) = .ok s) →
      ∃ st', runH st toks = .ok st' ∧ ∀ L, run1 (proj L st) (evsOf L toks) = .ok (proj L st') := by
  induction toks with
  | nil => intro st _; exact ⟨st, rfl, fun L => rfl⟩
  | cons p rest ih =>
    obtain ⟨i, h⟩ := p
    intro st hall
    obtain ⟨s, hs⟩ := hall h.label
    rw [evsOf_cons_same] at hs
    simp only [run1] at hs
    split at hs
    · rename_i s1 hs1
      obtain ⟨st1, hst1, hp1, hother⟩ := (stepEv_proj i st h).1 s1 hs1
      have hall' : ∀ L, ∃ s, run1 (proj L st1) (evsOf L rest) = .ok s := by
        intro L
        by_cases hL : L = h.label
        · subst hL; rw [hp1]; exact ⟨s, hs⟩
        · obtain ⟨s', hs'⟩ := hall L
          rw [evsOf_cons_other i h rest hL] at hs'
          rw [hother L hL]; exact ⟨s', hs'⟩
      obtain ⟨st', hrun, hfin⟩ := ih st1 hall'
      refine ⟨st', by simp [runH, hst1, hrun], fun L => ?_⟩
      by_cases hL : L = h.label
      · subst hL
        rw [evsOf_cons_same]; simp only [run1, hs1]; rw [← hp1]; exact hfin _
      · rw [evsOf_cons_other i h rest hL, ← hother L hL]; exact hfin L
    · cases hs

/-- Conversely, a run of the real machine is, label by label, a run of the one-label machine. -/
theorem runH_proj (toks : List (Nat × Hint)) :
    ∀ st st' : Bufs, runH st toks = .ok st' → ∀ L, run1 (proj L st) (evsOf L toks) = .ok (proj L st') := by
  induction toks with
  | nil => intro st st' h L; simp [runH] at h; subst h; rfl
  | cons p rest ih =>
    obtain ⟨i, h⟩ := p
    intro st st' hrun L
    simp only [runH] at hrun
    split at hrun
    · rename_i st1 hst1
      obtain ⟨hstep, hother⟩ := (stepEv_proj i st h).2.1 st1 hst1
      by_cases hL : L = h.label
      · subst hL
        rw [evsOf_cons_same]; simp only [run1, hstep]; exact ih _ _ hrun _
      · rw [evsOf_cons_other i h rest hL, ← hother L hL]; exact ih _ _ hrun L
    · cases hrun

end Paroxy.Hints
