/-
C15 helper lemmas: the hashed text of an expression depends only on the expression up to its load/store
context.
-/
import Paroxy.Proofs.FlatHash
import Paroxy.Proofs.FlatEntries
namespace Paroxy.Flat

mutual
theorem dumpNoCtx_stripCtx : ∀ v : Val, dumpNoCtx (stripCtx v) = dumpNoCtx v
  | .node ty e r ln fs => by simp only [stripCtx, dumpNoCtx, dumpNoCtxFields_stripCtx ty true fs]
  | .list q xs => by simp only [stripCtx, dumpNoCtx, dumpNoCtxItems_stripCtx true xs]
  | .scalar r k => rfl
theorem dumpNoCtxFields_stripCtx (ty : Str) : ∀ (first : Bool) (fs : List (Str × Val)),
    dumpNoCtxFields ty first (stripCtxFields fs) = dumpNoCtxFields ty first fs
  | _, [] => rfl
  | first, (n, v) :: rest => by
    by_cases hn : (n == cs!"ctx") = true
    · simp only [stripCtxFields, dumpNoCtxFields, hn, if_true, Bool.true_or]
      exact dumpNoCtxFields_stripCtx ty first rest
    · have hn' : (n == cs!"ctx") = false := by simpa using hn
      have hnone : isNoneScalar (stripCtx v) = isNoneScalar v := by cases v <;> rfl
      simp only [stripCtxFields, hn', Bool.false_eq_true, if_false, dumpNoCtxFields, Bool.false_or, hnone,
        dumpNoCtx_stripCtx v, dumpNoCtxFields_stripCtx ty first rest, dumpNoCtxFields_stripCtx ty false rest]
theorem dumpNoCtxItems_stripCtx : ∀ (first : Bool) (xs : List Val),
    dumpNoCtxItems first (stripCtxItems xs) = dumpNoCtxItems first xs
  | _, [] => rfl
  | first, v :: rest => by
    simp only [stripCtxItems, dumpNoCtxItems, dumpNoCtx_stripCtx v, dumpNoCtxItems_stripCtx false rest]
end

mutual
theorem dumpNoCtx_of_sameShape : ∀ (a b : Val), sameShape a b = true → dumpNoCtx a = dumpNoCtx b
  | .node t1 e1 r1 l1 f1, .node t2 e2 r2 l2 f2, h => by
    simp only [sameShape, Bool.and_eq_true, beq_iff_eq] at h
    obtain ⟨rfl, hf⟩ := h
    simp only [dumpNoCtx, dumpNoCtxFields_of_sameShape t1 true f1 f2 hf]
  | .list _ x1, .list _ x2, h => by
    simp only [sameShape] at h
    simp only [dumpNoCtx, dumpNoCtxItems_of_sameShape true x1 x2 h]
  | .scalar r1 _, .scalar r2 _, h => by
    simp only [sameShape, beq_iff_eq] at h
    simp [dumpNoCtx, h]
  | .node _ _ _ _ _, .list _ _, h => by simp [sameShape] at h
  | .node _ _ _ _ _, .scalar _ _, h => by simp [sameShape] at h
  | .list _ _, .node _ _ _ _ _, h => by simp [sameShape] at h
  | .list _ _, .scalar _ _, h => by simp [sameShape] at h
  | .scalar _ _, .node _ _ _ _ _, h => by simp [sameShape] at h
  | .scalar _ _, .list _ _, h => by simp [sameShape] at h
theorem dumpNoCtxFields_of_sameShape (ty : Str) : ∀ (first : Bool) (f1 f2 : List (Str × Val)),
    sameShapeFields f1 f2 = true → dumpNoCtxFields ty first f1 = dumpNoCtxFields ty first f2
  | _, [], [], _ => rfl
  | first, (n1, v1) :: r1, (n2, v2) :: r2, h => by
    simp only [sameShapeFields, Bool.and_eq_true, beq_iff_eq] at h
    obtain ⟨⟨rfl, hv⟩, hr⟩ := h
    have hnone : isNoneScalar v1 = isNoneScalar v2 := by
      cases v1 <;> cases v2 <;> simp_all [sameShape, isNoneScalar]
    simp only [dumpNoCtxFields, hnone, dumpNoCtx_of_sameShape v1 v2 hv,
      dumpNoCtxFields_of_sameShape ty first r1 r2 hr, dumpNoCtxFields_of_sameShape ty false r1 r2 hr]
  | _, [], _ :: _, h => by simp [sameShapeFields] at h
  | _, _ :: _, [], h => by simp [sameShapeFields] at h
theorem dumpNoCtxItems_of_sameShape : ∀ (first : Bool) (x1 x2 : List Val),
    sameShapeItems x1 x2 = true → dumpNoCtxItems first x1 = dumpNoCtxItems first x2
  | _, [], [], _ => rfl
  | first, v1 :: r1, v2 :: r2, h => by
    simp only [sameShapeItems, Bool.and_eq_true] at h
    simp only [dumpNoCtxItems, dumpNoCtx_of_sameShape v1 v2 h.1, dumpNoCtxItems_of_sameShape false r1 r2 h.2]
  | _, [], _ :: _, h => by simp [sameShapeItems] at h
  | _, _ :: _, [], h => by simp [sameShapeItems] at h
end

/-- The same expression up to load/store context has the same context-free dump. -/
theorem dumpNoCtx_of_sameUpToCtx {a b : Val} (h : sameUpToCtx a b = true) : dumpNoCtx a = dumpNoCtx b := by
  rw [← dumpNoCtx_stripCtx a, ← dumpNoCtx_stripCtx b]
  exact dumpNoCtx_of_sameShape _ _ h

/-! ## Sub-values of a tree whose hash sources are dumps -/

theorem reprsAreDumpsFields_get {fs : List (Str × Val)} : ∀ {k : Nat} {n : Str} {c : Val},
    reprsAreDumpsFields fs = true → fs[k]? = some (n, c) → reprsAreDumps c = true := by
  induction fs with
  | nil => intro k n c _ h; simp at h
  | cons f rest ih =>
    obtain ⟨n0, v0⟩ := f
    intro k n c hw hk
    simp only [reprsAreDumpsFields, Bool.and_eq_true] at hw
    cases k with
    | zero =>
      simp only [List.getElem?_cons_zero, Option.some.injEq, Prod.mk.injEq] at hk
      rw [← hk.2]; exact hw.1
    | succ k =>
      simp only [List.getElem?_cons_succ] at hk
      exact ih hw.2 hk

theorem reprsAreDumpsItems_get {xs : List Val} : ∀ {k : Nat} {c : Val},
    reprsAreDumpsItems xs = true → xs[k]? = some c → reprsAreDumps c = true := by
  induction xs with
  | nil => intro k c _ h; simp at h
  | cons v rest ih =>
    intro k c hw hk
    simp only [reprsAreDumpsItems, Bool.and_eq_true] at hw
    cases k with
    | zero =>
      simp only [List.getElem?_cons_zero, Option.some.injEq] at hk
      rw [← hk]; exact hw.1
    | succ k =>
      simp only [List.getElem?_cons_succ] at hk
      exact ih hw.2 hk

theorem reprsAreDumps_of_at {v w : Val} {q : List Nat} {ns : List Str} (h : At v q ns w) :
    reprsAreDumps v = true → reprsAreDumps w = true := by
  induction h with
  | here v => exact id
  | field hk _ ih =>
    intro hv
    simp only [reprsAreDumps, Bool.and_eq_true] at hv
    exact ih (reprsAreDumpsFields_get hv.2 hk)
  | item hk _ ih =>
    intro hv
    simp only [reprsAreDumps] at hv
    exact ih (reprsAreDumpsItems_get hv hk)

end Paroxy.Flat
