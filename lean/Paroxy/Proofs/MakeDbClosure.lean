/-
Helper lemmas for C11/C14: the iterative visited-set traversal `closureLoop` computes exactly the
transitive closure of the direct-importation relation, for every dictionary (cycles, self-imports
and dangling targets included). Termination is part of the definition (Model/MakeDb.lean).
-/
import Paroxy.Proofs.MakeDbSort
import Mathlib.Logic.Relation
namespace Paroxy.DB

theorem Reach.head {α : Type} {r : α → α → Prop} {a b c : α} (h : r a b) (h' : Reach r b c) :
    Reach r a c := by
  induction h' with
  | single hbc => exact Reach.tail (Reach.single h) hbc
  | tail _ hcd ih => exact Reach.tail ih hcd

theorem Reach.trans {α : Type} {r : α → α → Prop} {a b c : α} (h : Reach r a b) (h' : Reach r b c) :
    Reach r a c := by
  induction h' with
  | single hbc => exact Reach.tail h hbc
  | tail _ hcd ih => exact Reach.tail ih hcd

/-- `Reach` is Mathlib's `Relation.TransGen`. -/
theorem reach_iff_transGen {α : Type} {r : α → α → Prop} {a b : α} :
    Reach r a b ↔ Relation.TransGen r a b := by
  constructor
  · intro h
    induction h with
    | single h => exact Relation.TransGen.single h
    | tail _ h ih => exact Relation.TransGen.tail ih h
  · intro h
    induction h with
    | single h => exact Reach.single h
    | tail _ h ih => exact Reach.tail ih h

/-- Everything the loop establishes about its final value `F`:
(a) the visited set only grows, (b) the whole stack ends up visited, (c) every newly visited node
is a stack element or reachable from one, (d) the successors of every newly visited node are
visited. -/
theorem closureLoop_spec (d : List (Name × List Name)) (stack result : List Name) :
    (∀ y ∈ result, y ∈ closureLoop d stack result) ∧
    (∀ y ∈ stack, y ∈ closureLoop d stack result) ∧
    (∀ y ∈ closureLoop d stack result, y ∉ result →
      ∃ s ∈ stack, s = y ∨ Reach (Direct d) s y) ∧
    (∀ y ∈ closureLoop d stack result, y ∉ result →
      ∀ z ∈ succs d y, z ∈ closureLoop d stack result) := by
  fun_induction closureLoop d stack result with
  | case1 result =>
    refine ⟨fun y h => h, fun y h => absurd h (by simp), fun y h hn => absurd h hn,
      fun y h hn => absurd h hn⟩
  | case2 result x rest hx ih =>
    obtain ⟨ha, hb, hc, hd⟩ := ih
    refine ⟨ha, ?_, ?_, hd⟩
    · intro y hy
      rcases List.mem_cons.mp hy with e | h
      · rw [e]; exact ha x hx
      · exact hb y h
    · intro y hy hn
      obtain ⟨s, hs, hr⟩ := hc y hy hn
      exact ⟨s, List.mem_cons_of_mem _ hs, hr⟩
  | case3 result x rest hx ih =>
    obtain ⟨ha, hb, hc, hd⟩ := ih
    refine ⟨fun y h => ha y (List.mem_cons_of_mem _ h), ?_, ?_, ?_⟩
    · intro y hy
      rcases List.mem_cons.mp hy with e | h
      · rw [e]; exact ha x List.mem_cons_self
      · exact hb y (List.mem_append_right _ h)
    · intro y hy hn
      by_cases hyx : y = x
      · exact ⟨x, List.mem_cons_self, Or.inl hyx.symm⟩
      · have hn' : y ∉ x :: result := by
          intro h; rcases List.mem_cons.mp h with e | h
          · exact hyx e
          · exact hn h
        obtain ⟨s, hs, hr⟩ := hc y hy hn'
        rcases List.mem_append.mp hs with h | h
        · have hxs : Direct d x s := List.mem_reverse.mp h
          refine ⟨x, List.mem_cons_self, Or.inr ?_⟩
          rcases hr with e | hr
          · rw [← e]; exact Reach.single hxs
          · exact Reach.head hxs hr
        · exact ⟨s, List.mem_cons_of_mem _ h, hr⟩
    · intro y hy hn z hz
      by_cases hyx : y = x
      · rw [hyx] at hz
        exact hb z (List.mem_append_left _ (List.mem_reverse.mpr hz))
      · have hn' : y ∉ x :: result := by
          intro h; rcases List.mem_cons.mp h with e | h
          · exact hyx e
          · exact hn h
        exact hd y hy hn' z hz

/-- **The closure is exact**: `complete_internal_imports(p)` is the set of programs reachable from
`p` by one or more direct importations — for every dictionary. -/
theorem mem_closureOf {d : List (Name × List Name)} {p y : Name} :
    y ∈ closureOf d p ↔ Reach (Direct d) p y := by
  obtain ⟨_, hb, hc, hd⟩ := closureLoop_spec d (succs d p).reverse []
  constructor
  · intro hy
    obtain ⟨s, hs, hr⟩ := hc y hy (by simp)
    have hps : Direct d p s := List.mem_reverse.mp hs
    rcases hr with e | hr
    · rw [← e]; exact Reach.single hps
    · exact Reach.head hps hr
  · intro h
    induction h with
    | single h => exact hb _ (List.mem_reverse.mpr h)
    | tail _ hbc ih => exact hd _ ih (by simp) _ hbc

end Paroxy.DB
