/-
Helper lemmas for C16, part 1: facts about the generated name dictionary (kernel-checked).
-/
import Paroxy.Gen.CompareSpans
import Paroxy.Spec.NormalizePredicate
import Paroxy.Proofs.SpecKeys
import Paroxy.Proofs.Dict
namespace Paroxy.NP
open Paroxy Paroxy.Spec Paroxy.Spec.NP

/-- The dictionary `compare_spans` after the alias updates, as name ↦ key (from the generated
table). -/
def names : List (Codes × Codes) :=
  (resolveUpdates (Gen.table.map fun p => (p.1, p.1)) Gen.updates).getD []

def isLetter (c : Nat) : Bool := (65 ≤ c && c ≤ 90) || (97 ≤ c && c ≤ 122)
/-- A letter other than `x`/`y` (lower case). -/
def otherLetter (c : Nat) : Bool := isLetter c && c != 120 && c != 121

def valueOk (v : Codes) : Bool :=
  match parseKey v with
  | some k => k.balanced
  | none => false

theorem names_values : names.all (fun p => valueOk p.2) = true := by decide +kernel
theorem names_keys : allKeys.all (fun k => dictGet? names k.codes == some k.codes) = true := by
  decide +kernel
theorem names_shape :
    names.all (fun p => (p.1 == p.2 && valueOk p.1) || p.1.any otherLetter) = true := by
  decide +kernel

theorem valueOk_spec {v : Codes} (h : valueOk v = true) : ∃ k ∈ allKeys, v = k.codes := by
  unfold valueOk at h
  split at h
  · rename_i k hk
    exact ⟨k, (mem_allKeys k).mpr h, parseKey_some hk⟩
  · cases h

theorem normalize_total (s : Str) (r : Codes × Bool) (h : normalize names s = some r) :
    ∃ k ∈ allKeys, r.1 = k.codes := by
  have key : ∀ p v, dictGet? names p = some v → ∃ k ∈ allKeys, v = k.codes := by
    intro p v hv
    have hm := dictGet?_mem hv
    exact valueOk_spec (List.all_eq_true.mp names_values (p, v) hm)
  unfold normalize finish at h
  simp only at h
  split at h
  · rename_i v hv; cases h; exact key _ _ hv
  · split at h
    · rename_i v hv; cases h; exact key _ _ hv
    · cases h

end Paroxy.NP
