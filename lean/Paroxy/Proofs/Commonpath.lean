/-
`posixpath.commonpath` on clean names: what the two tests of the inner loop of `deduplicated_taxa`
compute ("the previous name is a proper segment-prefix of the current one"), the forest structure
of taxon names, and the fact that the code-point order puts a name after all its ancestors —
whatever characters sort between a name and its descendants.
-/
import Paroxy.Spec.Dedup
import Paroxy.Proofs.DedupZ
import Paroxy.Proofs.DedupLift
namespace Paroxy.Commonpath
open Paroxy Paroxy.Dedup Paroxy.Spec.Dedup
set_option linter.unusedSectionVars false
set_option linter.unusedSimpArgs false

section Generic
variable {α : Type} [DecidableEq α]

theorem splitOn_ne_nil (sep : α) (l : List α) : splitOn sep l ≠ [] := by
  induction l with
  | nil => simp [splitOn]
  | cons c t ih =>
    simp only [splitOn]
    split
    · simp
    · split <;> simp

theorem join_cons_head (sep c : α) (h : List α) (r : List (List α)) :
    join sep ((c :: h) :: r) = c :: join sep (h :: r) := by
  cases r <;> rfl

theorem join_nil_cons (sep : α) (r : List (List α)) (hr : r ≠ []) :
    join sep ([] :: r) = sep :: join sep r := by
  cases r with
  | nil => exact absurd rfl hr
  | cons a t => rfl

theorem join_splitOn (sep : α) (l : List α) : join sep (splitOn sep l) = l := by
  induction l with
  | nil => rfl
  | cons c t ih =>
    simp only [splitOn]
    split
    · rename_i h
      rw [join_nil_cons sep _ (splitOn_ne_nil sep t), ih, h]
    · split
      · rename_i h r heq
        rw [join_cons_head, ← heq, ih]
      · rename_i heq
        exact absurd heq (splitOn_ne_nil sep t)

theorem splitOn_injective (sep : α) {a b : List α} (h : splitOn sep a = splitOn sep b) : a = b := by
  rw [← join_splitOn sep a, ← join_splitOn sep b, h]

theorem sep_not_mem_splitOn (sep : α) (l : List α) : ∀ s ∈ splitOn sep l, sep ∉ s := by
  induction l with
  | nil => intro s hs; simp [splitOn] at hs; simp [hs]
  | cons c t ih =>
    intro s hs
    simp only [splitOn] at hs
    split at hs
    · rcases List.mem_cons.mp hs with h | h
      · simp [h]
      · exact ih s h
    · rename_i hc
      split at hs
      · rename_i h r heq
        rw [heq] at ih
        rcases List.mem_cons.mp hs with h' | h'
        · subst h'
          have := ih h (by simp)
          simp [Ne.symm hc, this]
        · exact ih s (by simp [h'])
      · simp only [List.mem_singleton] at hs
        subst hs
        simp [Ne.symm hc]

theorem splitOn_append_sep (sep : α) (a t : List α) (ha : sep ∉ a) :
    splitOn sep (a ++ sep :: t) = a :: splitOn sep t := by
  induction a with
  | nil => simp [splitOn]
  | cons c a' ih =>
    simp only [List.mem_cons, not_or] at ha
    simp only [List.cons_append, splitOn, Ne.symm ha.1, if_false, ih ha.2]

theorem splitOn_of_not_mem (sep : α) (a : List α) (ha : sep ∉ a) : splitOn sep a = [a] := by
  induction a with
  | nil => rfl
  | cons c a' ih =>
    simp only [List.mem_cons, not_or] at ha
    simp only [splitOn, Ne.symm ha.1, if_false, ih ha.2]

theorem splitOn_join (sep : α) (ls : List (List α)) (hne : ls ≠ []) (h : ∀ s ∈ ls, sep ∉ s) :
    splitOn sep (join sep ls) = ls := by
  induction ls with
  | nil => exact absurd rfl hne
  | cons a rest ih =>
    cases rest with
    | nil => exact splitOn_of_not_mem sep a (h a (by simp))
    | cons b r =>
      simp only [join]
      rw [splitOn_append_sep sep a _ (h a (by simp)), ih (by simp) fun s hs => h s (by simp [hs])]

theorem join_append (sep : α) (l₁ l₂ : List (List α)) (h₁ : l₁ ≠ []) (h₂ : l₂ ≠ []) :
    join sep (l₁ ++ l₂) = join sep l₁ ++ sep :: join sep l₂ := by
  induction l₁ with
  | nil => exact absurd rfl h₁
  | cons a rest ih =>
    cases rest with
    | nil =>
      cases l₂ with
      | nil => exact absurd rfl h₂
      | cons b r => rfl
    | cons b r =>
      simp only [List.cons_append, join] at ih ⊢
      rw [ih (by simp)]
      simp

theorem lcp_comm (a b : List α) : lcp a b = lcp b a := by
  induction a generalizing b with
  | nil => cases b <;> simp [lcp]
  | cons x s ih =>
    cases b with
    | nil => simp [lcp]
    | cons y t =>
      simp only [lcp]
      by_cases h : x = y
      · subst h; simp [ih]
      · simp [h, Ne.symm h]

theorem lcp_prefix_left (a b : List α) : lcp a b <+: a := by
  induction a generalizing b with
  | nil => cases b <;> simp [lcp]
  | cons x s ih =>
    cases b with
    | nil => simp [lcp]
    | cons y t =>
      simp only [lcp]
      split
      · exact List.prefix_cons_inj x |>.mpr (ih t)
      · simp

theorem lcp_of_prefix {a b : List α} (h : b <+: a) : lcp a b = b := by
  induction b generalizing a with
  | nil => cases a <;> simp [lcp]
  | cons y t ih =>
    cases a with
    | nil => simp at h
    | cons x s =>
      rw [List.cons_prefix_cons] at h
      simp only [lcp, h.1, if_true, ih h.2]

theorem lcp_self (a : List α) : lcp a a = a := lcp_of_prefix (List.prefix_refl a)

theorem properPrefix_iff (l₁ l₂ : List α) :
    properPrefix l₁ l₂ = true ↔ l₁ <+: l₂ ∧ l₁.length < l₂.length := by
  simp [properPrefix, List.isPrefixOf_iff_prefix]

end Generic

/-! ### the order on names -/

theorem lt_append_cons (y : Name) (c : Char) (t : Name) : y < y ++ c :: t := by
  induction y with
  | nil => exact List.nil_lt_cons c t
  | cons a y ih => exact List.cons_lt_cons_iff.mpr (Or.inr ⟨rfl, ih⟩)

/-- A name sorts strictly after each of its proper ancestors. -/
theorem lt_of_descB {y x : Name} (h : descB y x = true) : y < x := by
  rw [descB, properPrefix_iff] at h
  obtain ⟨⟨more, hmore⟩, hlen⟩ := h
  have hne : more ≠ [] := by
    intro h0; subst h0; simp at hmore; rw [hmore] at hlen; omega
  have : x = y ++ '/' :: join '/' more := by
    rw [← join_splitOn '/' x, ← hmore, join_append '/' _ _ (splitOn_ne_nil _ _) hne, join_splitOn]
  rw [this]
  exact lt_append_cons y '/' _

theorem order_of_sorted {names : List Name} (h : StrictSorted names) :
    names.Pairwise fun x y => descB y x = false := by
  refine List.Pairwise.imp ?_ h
  intro x y hxy
  cases hd : descB y x
  · rfl
  · exact absurd (lt_of_descB hd) (List.lt_asymm hxy)

theorem nodup_of_sorted {names : List Name} (h : StrictSorted names) : names.Nodup := by
  refine List.Pairwise.imp ?_ h
  intro x y hxy hEq
  subst hEq
  exact List.lt_irrefl x hxy

/-! ### taxon names form a forest -/

theorem ancRel_descB : DedupZ.AncRel descB where
  irrefl a := by
    cases h : descB a a
    · rfl
    · rw [descB, properPrefix_iff] at h; omega
  trans := by
    intro a b c hab hbc
    rw [descB, properPrefix_iff] at *
    exact ⟨List.IsPrefix.trans hab.1 hbc.1, by omega⟩
  chain := by
    intro a b c hac hbc
    rw [descB, properPrefix_iff] at hac hbc
    rcases List.prefix_or_prefix_of_prefix hac.1 hbc.1 with h | h
    · by_cases hl : (splitOn '/' a).length < (splitOn '/' b).length
      · exact Or.inr (Or.inl (by rw [descB, properPrefix_iff]; exact ⟨h, hl⟩))
      · exact Or.inl (splitOn_injective '/' (h.eq_of_length_le (by omega)))
    · by_cases hl : (splitOn '/' b).length < (splitOn '/' a).length
      · exact Or.inr (Or.inr (by rw [descB, properPrefix_iff]; exact ⟨h, hl⟩))
      · exact Or.inl (splitOn_injective '/' (h.eq_of_length_le (by omega))).symm

/-! ### `commonpath` on clean names -/

theorem segments_clean {n : Name} (h : cleanB n = true) : segments n = splitOn '/' n := by
  unfold segments
  rw [List.filter_eq_self]
  simpa [cleanB, List.all_eq_true] using h

theorem ne_nil_of_clean {n : Name} (h : cleanB n = true) : n ≠ [] := by
  intro h0; subst h0; simp [cleanB, splitOn] at h

theorem isAbs_clean {n : Name} (h : cleanB n = true) : isAbs n = false := by
  cases n with
  | nil => rfl
  | cons c t =>
    by_cases hc : c = '/'
    · subst hc; simp [cleanB, splitOn] at h
    · simp [isAbs, hc]

theorem minmax_lcp (sa sb : List Name) :
    lcp (if sb < sa then sb else sa) (if sa < sb then sb else sa) = lcp sa sb := by
  by_cases h1 : sb < sa
  · have h2 : ¬ sa < sb := List.lt_asymm h1
    simp only [h1, h2, if_true, if_false]
    exact lcp_comm sb sa
  · by_cases h2 : sa < sb
    · simp only [h1, h2, if_true, if_false]
    · have : sa = sb := List.le_antisymm h1 h2
      subst this
      simp only [h1, if_false]

/-! ### names with one trailing `/` -/

theorem splitOn_snoc_sep {α : Type} [DecidableEq α] (sep : α) (m : List α) :
    splitOn sep (m ++ [sep]) = splitOn sep m ++ [[]] := by
  induction m with
  | nil => simp [splitOn]
  | cons c t ih =>
    simp only [List.cons_append, splitOn]
    split
    · rw [ih]; rfl
    · rw [ih]
      cases h : splitOn sep t with
      | nil => exact absurd h (splitOn_ne_nil sep t)
      | cons a r => rfl

/-- The shape of an admissible name: a clean base `b`, the name being `b` or `b/`. -/
structure Shape (n b : Name) : Prop where
  base : cleanB b = true
  name : n = b ∨ n = b ++ ['/']

theorem shape_of_cleanTB {n : Name} (h : cleanTB n = true) : ∃ b, Shape n b := by
  unfold cleanTB at h
  rw [Bool.or_eq_true] at h
  rcases h with h | h
  · exact ⟨n, h, Or.inl rfl⟩
  · split at h
    · rename_i r hr
      refine ⟨r.reverse, h, Or.inr ?_⟩
      have := congrArg List.reverse hr
      simpa using this
    · cases h

theorem nil_not_mem_of_clean {b : Name} (h : cleanB b = true) : [] ∉ splitOn '/' b := by
  intro hmem
  have := (List.all_eq_true.mp h) [] hmem
  simp at this

theorem Shape.segs {n b : Name} (h : Shape n b) : segments n = splitOn '/' b := by
  rcases h.name with rfl | rfl
  · exact segments_clean h.base
  · unfold segments
    rw [splitOn_snoc_sep, List.filter_append]
    have h1 := segments_clean h.base
    unfold segments at h1
    rw [h1]; simp

theorem Shape.notAbs {n b : Name} (h : Shape n b) : isAbs n = false := by
  have hb := isAbs_clean h.base
  have hne := ne_nil_of_clean h.base
  rcases h.name with rfl | rfl
  · exact hb
  · cases b with
    | nil => exact absurd rfl hne
    | cons c t => simpa [Dedup.isAbs] using hb

theorem Shape.split {n b : Name} (h : Shape n b) :
    splitOn '/' n = splitOn '/' b ∨ splitOn '/' n = splitOn '/' b ++ [[]] := by
  rcases h.name with rfl | rfl
  · exact Or.inl rfl
  · exact Or.inr (splitOn_snoc_sep '/' b)

/-- The two tests of the inner loop, on admissible names, in terms of the clean bases. -/
theorem actE_shape {n p bn bp : Name} (hn : Shape n bn) (hp : Shape p bp) :
    actE n p = .ok (!(join '/' (lcp (splitOn '/' bn) (splitOn '/' bp)) == []) &&
      p == join '/' (lcp (splitOn '/' bn) (splitOn '/' bp))) := by
  unfold actE commonpath
  simp only [hn.notAbs, hp.notAbs, bne_self_eq_false, Bool.false_eq_true, if_false,
    hn.segs, hp.segs, minmax_lcp, List.nil_append]

/-- `p = join (lcp sn sp)` (non-empty) exactly when the segments of `p` are a prefix of `sn`. -/
theorem test_eq_prefix {bn p : Name} (hp : cleanB p = true) :
    (!(join '/' (lcp (splitOn '/' bn) (splitOn '/' p)) == []) &&
      p == join '/' (lcp (splitOn '/' bn) (splitOn '/' p)))
      = decide (splitOn '/' p <+: splitOn '/' bn) := by
  by_cases hpre : splitOn '/' p <+: splitOn '/' bn
  · rw [lcp_of_prefix hpre, join_splitOn]
    simp [ne_nil_of_clean hp, hpre]
  · simp only [hpre, decide_false]
    by_cases hnil : lcp (splitOn '/' bn) (splitOn '/' p) = []
    · simp [hnil, join]
    · have hsplit : splitOn '/' (join '/' (lcp (splitOn '/' bn) (splitOn '/' p)))
          = lcp (splitOn '/' bn) (splitOn '/' p) := by
        apply splitOn_join _ _ hnil
        intro s hs
        exact sep_not_mem_splitOn '/' bn s ((lcp_prefix_left _ _).subset hs)
      have : p ≠ join '/' (lcp (splitOn '/' bn) (splitOn '/' p)) := by
        intro hEq
        apply hpre
        have := congrArg (splitOn '/') hEq
        rw [hsplit] at this
        rw [this]
        exact lcp_prefix_left _ _
      simp [this]

/-- A name with a trailing `/` is never equal to a joined list of non-empty segments. -/
theorem test_trailing_false {bn bp : Name} (hbn : cleanB bn = true) :
    (!(join '/' (lcp (splitOn '/' bn) (splitOn '/' bp)) == []) &&
      (bp ++ ['/']) == join '/' (lcp (splitOn '/' bn) (splitOn '/' bp))) = false := by
  by_cases hnil : lcp (splitOn '/' bn) (splitOn '/' bp) = []
  · simp [hnil, join]
  · have hsplit : splitOn '/' (join '/' (lcp (splitOn '/' bn) (splitOn '/' bp)))
        = lcp (splitOn '/' bn) (splitOn '/' bp) := by
      apply splitOn_join _ _ hnil
      intro s hs
      exact sep_not_mem_splitOn '/' bn s ((lcp_prefix_left _ _).subset hs)
    have : bp ++ ['/'] ≠ join '/' (lcp (splitOn '/' bn) (splitOn '/' bp)) := by
      intro hEq
      have := congrArg (splitOn '/') hEq
      rw [hsplit, splitOn_snoc_sep] at this
      have hmem : ([] : Name) ∈ lcp (splitOn '/' bn) (splitOn '/' bp) := by rw [← this]; simp
      exact nil_not_mem_of_clean hbn ((lcp_prefix_left _ _).subset hmem)
    simp [this]

/-- On admissible, distinct names the two tests of the inner loop say: "the previous name is a
proper segment-prefix of the current one" (a trailing `/` counts as a last, empty segment). In
particular `commonpath` does not raise. -/
theorem actE_clean {n p : Name} (hn : cleanTB n = true) (hp : cleanTB p = true) (hne : p ≠ n) :
    actE n p = .ok (descB p n) := by
  obtain ⟨bn, hsn⟩ := shape_of_cleanTB hn
  obtain ⟨bp, hsp⟩ := shape_of_cleanTB hp
  rw [actE_shape hsn hsp]
  congr 1
  have hbn0 := nil_not_mem_of_clean hsn.base
  rcases hsp.name with hpe | hpe
  · -- the previous name is clean
    subst hpe
    rw [test_eq_prefix hsp.base]
    rcases hsn.name with hne' | hne'
    · subst hne'
      -- both clean: prefix and different, i.e. proper prefix
      by_cases hpre : splitOn '/' p <+: splitOn '/' n
      · have hlen : (splitOn '/' p).length < (splitOn '/' n).length := by
          rcases Nat.lt_or_ge (splitOn '/' p).length (splitOn '/' n).length with h | h
          · exact h
          · exact absurd (splitOn_injective '/' (hpre.eq_of_length_le h)) hne
        have hd : descB p n = true := by rw [descB, properPrefix_iff]; exact ⟨hpre, hlen⟩
        simp [hd, hpre]
      · have hd : descB p n = false := by
          cases h : descB p n
          · rfl
          · rw [descB, properPrefix_iff] at h; exact absurd h.1 hpre
        simp [hd, hpre]
    · subst hne'
      -- current name `bn/`: its segment list is `splitOn bn ++ [[]]`
      by_cases hpre : splitOn '/' p <+: splitOn '/' bn
      · have hd : descB p (bn ++ ['/']) = true := by
          rw [descB, properPrefix_iff, splitOn_snoc_sep]
          exact ⟨hpre.trans (List.prefix_append _ _), by
            have := hpre.length_le; simp; omega⟩
        simp [hd, hpre]
      · have hd : descB p (bn ++ ['/']) = false := by
          cases h : descB p (bn ++ ['/'])
          · rfl
          · rw [descB, properPrefix_iff, splitOn_snoc_sep] at h
            exfalso; apply hpre
            exact List.prefix_of_prefix_length_le h.1 (List.prefix_append _ _) (by
              have := h.2; simp at this; omega)
        simp [hd, hpre]
  · -- the previous name has a trailing `/`: never an ancestor
    subst hpe
    rw [test_trailing_false hsn.base]
    symm
    cases h : descB (bp ++ ['/']) n
    · rfl
    · exfalso
      rw [descB, properPrefix_iff, splitOn_snoc_sep] at h
      rcases hsn.split with hs | hs
      · rw [hs] at h
        exact hbn0 (h.1.subset (by simp))
      · rw [hs] at h
        have : splitOn '/' bp ++ [[]] <+: splitOn '/' bn :=
          List.prefix_of_prefix_length_le h.1 (List.prefix_append _ _) (by
            have := h.2; simp at this ⊢; omega)
        exact hbn0 (this.subset (by simp))

/-- The model of `deduplicated_taxa` on strictly sorted admissible names: no exception, and the pure
loops with the test "proper segment-prefix". -/
theorem actE_pairwise {names : List Name} (hs : StrictSorted names) (hc : CleanNames names) :
    names.Pairwise fun p n => actE n p = .ok (DedupLift.actOf descB n p) := by
  rw [List.pairwise_iff_forall_sublist]
  intro p n hsub
  have hp : p ∈ names := hsub.subset (by simp)
  have hn : n ∈ names := hsub.subset (by simp)
  have hlt : p < n := (List.pairwise_iff_forall_sublist.mp hs) hsub
  have hne : p ≠ n := fun h => by subst h; exact List.lt_irrefl p hlt
  exact actE_clean (hc n hn) (hc p hp) hne

end Paroxy.Commonpath
