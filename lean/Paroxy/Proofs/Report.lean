/- Helper lemmas for C17. -/
import Paroxy.Model.Report
import Paroxy.Proofs.Costs
import Paroxy.Proofs.Filter
import Paroxy.Proofs.FilterOrder
namespace Paroxy.Report
open Paroxy Paroxy.Filter Paroxy.Costs

theorem costBucket_contains (c : Rat) (h : 0 ≤ c) : (costBucket c).Contains c := by
  unfold costBucket
  split
  · rename_i h0; exact h0
  · rename_i h0
    split
    · rename_i h1; exact ⟨by grind, h1⟩
    · rename_i h1
      split
      · rename_i h2; exact ⟨by grind, h2⟩
      · rename_i h2
        split
        · rename_i h3; exact ⟨by grind, h3⟩
        · rename_i h3
          -- c ≥ 1
          have hc1 : (1 : Rat) ≤ c := by grind
          have hfl : (1 : Int) ≤ c.floor := Rat.le_floor_iff.mpr (by simpa using hc1)
          have hn : c.floor.toNat ≠ 0 := by omega
          have e : ((c.floor.toNat : Nat) : Int) = c.floor := by omega
          have lo := Nat.log2_self_le hn
          have hi := @Nat.lt_log2_self c.floor.toNat
          simp only [Bucket.Contains]
          constructor
          · have : ((2 ^ c.floor.toNat.log2 : Nat) : Int) ≤ c.floor := by omega
            have h2 : (((2 ^ c.floor.toNat.log2 : Nat) : Int) : Rat) ≤ c := Rat.le_floor_iff.mp this
            simpa using h2
          · have : c.floor < ((2 * 2 ^ c.floor.toNat.log2 : Nat) : Int) := by
              rw [Nat.pow_succ] at hi; omega
            have h2 := Rat.floor_lt_iff.mp this
            simpa using h2

/-! ### Grouping -/

/-- Invariant of `groupBy`: every member of a group has the group's key, and the groups partition
the elements seen so far (as a permutation of their concatenation). -/
theorem insertGroup_spec {κ α} [DecidableEq κ] (key : α → κ) (g : List (κ × List α)) (a : α)
    (hkey : ∀ p ∈ g, ∀ x ∈ p.2, key x = p.1) :
    (∀ p ∈ insertGroup g (key a) a, ∀ x ∈ p.2, key x = p.1) ∧
    ((insertGroup g (key a) a).flatMap (·.2)).Perm (g.flatMap (·.2) ++ [a]) := by
  induction g with
  | nil => simp [insertGroup]
  | cons q t ih =>
    obtain ⟨k', l⟩ := q
    have ht : ∀ p ∈ t, ∀ x ∈ p.2, key x = p.1 := fun p hp => hkey p (List.mem_cons_of_mem _ hp)
    obtain ⟨ih1, ih2⟩ := ih ht
    unfold insertGroup
    by_cases hk : k' = key a
    · simp only [hk, if_true]
      constructor
      · intro p hp x hx
        rcases List.mem_cons.mp hp with rfl | hp'
        · rcases List.mem_append.mp hx with hx' | hx'
          · have := hkey (k', l) List.mem_cons_self x hx'; simpa [hk] using this
          · simp only [List.mem_singleton] at hx'; subst hx'; rfl
        · exact ht p hp' x hx
      · simp only [List.flatMap_cons, List.append_assoc]
        exact List.Perm.append_left l (List.perm_append_comm)
    · simp only [hk, if_false]
      constructor
      · intro p hp x hx
        rcases List.mem_cons.mp hp with rfl | hp'
        · exact hkey (k', l) List.mem_cons_self x hx
        · exact ih1 p hp' x hx
      · simp only [List.flatMap_cons, List.append_assoc]
        exact List.Perm.append_left l ih2

theorem groupBy_spec {κ α} [DecidableEq κ] (key : α → κ) (l : List α) :
    (∀ p ∈ groupBy key l, ∀ x ∈ p.2, key x = p.1) ∧ ((groupBy key l).flatMap (·.2)).Perm l := by
  unfold groupBy
  have gen : ∀ (l : List α) (g : List (κ × List α)), (∀ p ∈ g, ∀ x ∈ p.2, key x = p.1) →
      (∀ p ∈ l.foldl (fun g a => insertGroup g (key a) a) g, ∀ x ∈ p.2, key x = p.1) ∧
      ((l.foldl (fun g a => insertGroup g (key a) a) g).flatMap (·.2)).Perm (g.flatMap (·.2) ++ l) := by
    intro l
    induction l with
    | nil => intro g hg; exact ⟨hg, by simp⟩
    | cons a t ih =>
      intro g hg
      obtain ⟨s1, s2⟩ := insertGroup_spec key g a hg
      obtain ⟨i1, i2⟩ := ih _ s1
      refine ⟨i1, i2.trans ?_⟩
      have : (g.flatMap (·.2) ++ [a]) ++ t = g.flatMap (·.2) ++ a :: t := by simp
      rw [← this]
      exact List.Perm.append_right t s2
  have := gen l [] (by simp)
  simpa using this

/-! ### mapM over Option -/

theorem mapM_some_spec {α β} (f : α → Option β) (l : List α) (r : List β) (h : l.mapM f = some r) :
    r.length = l.length ∧ ∀ i (hi : i < l.length) (hr : i < r.length), f l[i] = some r[i] := by
  induction l generalizing r with
  | nil => simp at h; subst h; simp
  | cons a t ih =>
    simp only [List.mapM_cons, Option.bind_eq_bind] at h
    cases hfa : f a with
    | none => simp [hfa] at h
    | some b =>
      simp only [hfa, Option.bind_some] at h
      cases hm : t.mapM f with
      | none => simp [hm] at h
      | some bs =>
        simp only [hm, Option.bind_some, Option.pure_def, Option.some.injEq] at h
        subst h
        obtain ⟨l1, l2⟩ := ih bs hm
        refine ⟨by simp [l1], fun i hi hr => ?_⟩
        cases i with
        | zero => simpa using hfa
        | succ j => simpa using l2 j (by simpa using hi) (by simpa using hr)

theorem mapM_some_map {α β γ} (f : α → Option β) (g : α → γ) (g' : β → γ) (l : List α) (r : List β)
    (h : l.mapM f = some r) (hfg : ∀ a b, f a = some b → g' b = g a) : r.map g' = l.map g := by
  obtain ⟨hl, hi⟩ := mapM_some_spec f l r h
  apply List.ext_getElem (by simp [hl])
  intro i h1 h2
  simp only [List.getElem_map]
  exact hfg _ _ (hi i (by simpa using h2) (by simpa using h1))

theorem mapM_some_all2 {α β} (f : α → Option β) (l : List α) (r : List β) (h : l.mapM f = some r) :
    All2 (fun a b => f a = some b) l r := by
  induction l generalizing r with
  | nil => simp at h; subst h; exact .nil
  | cons a t ih =>
    simp only [List.mapM_cons, Option.bind_eq_bind] at h
    cases hfa : f a with
    | none => simp [hfa] at h
    | some b =>
      simp only [hfa, Option.bind_some] at h
      cases hm : t.mapM f with
      | none => simp [hm] at h
      | some bs =>
        simp only [hm, Option.bind_some, Option.pure_def, Option.some.injEq] at h
        subst h
        exact .cons hfa (ih bs hm)

theorem body_eq (i : Input) : body i = (groupBy (groupKey i) (visible i)).mapM (groupSections i) := rfl

theorem groupSections_spec (i : Input) (g : Bucket × List (Rat × Codes)) (r : Bucket × List Section)
    (h : groupSections i g = some r) :
    r.1 = g.1 ∧ r.2.map (fun s => (s.cost, s.path)) = g.2.mergeSort (leMember i.sorting i.sloc) ∧
    ∀ s ∈ r.2, ∃ rec, dictGet? i.programs s.path = some rec ∧
      s.rows = rowsOf i.strat i.knowledge i.hiddenTaxa rec := by
  unfold groupSections at h
  cases hm : (g.2.mergeSort (leMember i.sorting i.sloc)).mapM (sectionOf i) with
  | none => simp [hm] at h
  | some secs =>
    simp only [hm, Option.map_some, Option.some.injEq] at h
    subst h
    refine ⟨rfl, ?_, ?_⟩
    · have := mapM_some_map (sectionOf i) id (fun s : Section => (s.cost, s.path)) _ secs hm (by
        intro a b hab
        unfold sectionOf at hab
        cases hd : dictGet? i.programs a.2 with
        | none => simp [hd] at hab
        | some rec => simp [hd] at hab; subst hab; rfl)
      simpa using this
    · intro s hs
      obtain ⟨cp, _, hcp⟩ := Filter.forall₂_mem_right (mapM_some_all2 _ _ _ hm) hs
      unfold sectionOf at hcp
      cases hd : dictGet? i.programs cp.2 with
      | none => simp [hd] at hcp
      | some rec => simp [hd] at hcp; subst hcp; exact ⟨rec, hd, rfl⟩

theorem all2_flatMap_perm {α β γ} {R : α → β → Prop} {l : List α} {r : List β} (f : α → List γ) (g : β → List γ)
    (h : All2 R l r) (hR : ∀ a b, R a b → (g b).Perm (f a)) : (r.flatMap g).Perm (l.flatMap f) := by
  induction h with
  | nil => simp
  | cons hab _ ih => simp only [List.flatMap_cons]; exact List.Perm.append (hR _ _ hab) ih

/-- What the body of the report contains. -/
theorem body_spec (i : Input) (b : List (Bucket × List Section)) (h : body i = some b) :
    ((b.flatMap fun g => g.2.map fun s => (s.cost, s.path)).Perm (visible i)) ∧
    (∀ g ∈ b, ∀ s ∈ g.2, groupKey i (s.cost, s.path) = g.1 ∧
      ∃ rec, dictGet? i.programs s.path = some rec ∧ s.rows = rowsOf i.strat i.knowledge i.hiddenTaxa rec) ∧
    (∀ g ∈ b, (g.2.map fun s => (s.cost, s.path)).Pairwise fun x y => leMember i.sorting i.sloc x y = true) := by
  rw [body_eq] at h
  have ha := mapM_some_all2 _ _ _ h
  obtain ⟨gk, gp⟩ := groupBy_spec (groupKey i) (visible i)
  refine ⟨?_, ?_, ?_⟩
  · refine (all2_flatMap_perm (fun g => g.2) (fun g => g.2.map fun s => (s.cost, s.path)) ha ?_).trans gp
    intro g r hr
    rw [(groupSections_spec i g r hr).2.1]
    exact List.mergeSort_perm _ _
  · intro r hr s hs
    obtain ⟨g, hg, hgr⟩ := Filter.forall₂_mem_right ha hr
    obtain ⟨e1, e2, e3⟩ := groupSections_spec i g r hgr
    refine ⟨?_, e3 s hs⟩
    have : (s.cost, s.path) ∈ g.2 := by
      have hm : (s.cost, s.path) ∈ r.2.map (fun s => (s.cost, s.path)) := List.mem_map_of_mem hs
      rw [e2] at hm
      exact (List.mergeSort_perm _ _).mem_iff.mp hm
    rw [e1]
    exact gk g hg _ this
  · intro r hr
    obtain ⟨g, _, hgr⟩ := Filter.forall₂_mem_right ha hr
    rw [(groupSections_spec i g r hgr).2.1]
    apply List.pairwise_mergeSort
    · intro a b c h1 h2
      cases hs : i.sorting with
      | byCostAndSloc =>
        simp only [leMember, hs, Bool.or_eq_true, Bool.and_eq_true, decide_eq_true_eq] at *
        rcases h1 with h1 | ⟨e1, l1⟩ <;> rcases h2 with h2 | ⟨e2, l2⟩
        · exact Or.inl (by grind)
        · exact Or.inl (e2 ▸ h1)
        · exact Or.inl (e1 ▸ h2)
        · exact Or.inr ⟨e1.trans e2, Nat.le_trans l1 l2⟩
      | lexicographic =>
        simp only [leMember, hs, decide_eq_true_eq] at *
        exact List.le_trans h1 h2
    · intro a b
      cases hs : i.sorting with
      | byCostAndSloc =>
        simp only [leMember, Bool.or_eq_true, Bool.and_eq_true, decide_eq_true_eq]
        have tri : a.1 < b.1 ∨ a.1 = b.1 ∨ b.1 < a.1 := by grind
        rcases tri with h | h | h
        · exact Or.inl (Or.inl h)
        · rcases Nat.le_total (i.sloc a.2) (i.sloc b.2) with h2 | h2
          · exact Or.inl (Or.inr ⟨h, h2⟩)
          · exact Or.inr (Or.inr ⟨h.symm, h2⟩)
        · exact Or.inr (Or.inl h)
      | lexicographic =>
        simp only [leMember, Bool.or_eq_true, decide_eq_true_eq]
        exact List.le_total a.2 b.2

/-! ### Rows -/

theorem mem_rowsOf (strat : Strategy) (K hidden : List Codes) (rec : TaxaSpans) (r : Row) :
    r ∈ rowsOf strat K hidden rec ↔
      (r.taxon, r.spans) ∈ rec ∧ r.taxon ∉ hidden ∧ r.cost = taxonCost strat K r.taxon := by
  unfold rowsOf
  simp only [List.mem_map, List.mem_filter, Bool.not_eq_true', Filter.contains_false_iff]
  constructor
  · rintro ⟨ts, ⟨hm, hh⟩, rfl⟩
    exact ⟨(List.mergeSort_perm _ _).mem_iff.mp hm, hh, rfl⟩
  · rintro ⟨hm, hh, hc⟩
    refine ⟨(r.taxon, r.spans), ⟨(List.mergeSort_perm _ _).mem_iff.mpr hm, hh⟩, ?_⟩
    cases r; simp_all

/-! ### Summary -/

def removedTotal (log : List LogEntry) : Nat := (log.map (·.removed.length)).sum

theorem removedTotal_append (a b : List LogEntry) : removedTotal (a ++ b) = removedTotal a + removedTotal b := by
  simp [removedTotal, List.sum_append]

/-- The `k`-th summary line announces `n − (number of programs removed by the first k+1 entries)`. -/
theorem summary_spec (n : Nat) (log : List LogEntry) :
    summary n log = (List.range log.length).map fun k =>
      (((n : Int) - (removedTotal (log.take (k + 1)) : Nat)), (log[k]?.getD default).index,
        (log[k]?.getD default).op, (log[k]?.getD default).removed.length) := by
  unfold summary
  have gen : ∀ (log pre : List LogEntry) (acc : List (Int × Nat × Operation × Nat)),
      (log.foldl (fun (acc : Int × List (Int × Nat × Operation × Nat)) e =>
        (acc.1 - e.removed.length, acc.2 ++ [(acc.1 - e.removed.length, e.index, e.op, e.removed.length)]))
        (((n : Int) - (removedTotal pre : Nat)), acc)).2 =
      acc ++ (List.range log.length).map fun k =>
        (((n : Int) - (removedTotal (pre ++ log.take (k + 1)) : Nat)), (log[k]?.getD default).index,
          (log[k]?.getD default).op, (log[k]?.getD default).removed.length) := by
    intro log
    induction log with
    | nil => intro pre acc; simp
    | cons e t ih =>
      intro pre acc
      simp only [List.foldl_cons]
      have e1 : ((n : Int) - (removedTotal pre : Nat)) - (e.removed.length : Nat) =
          (n : Int) - (removedTotal (pre ++ [e]) : Nat) := by
        rw [removedTotal_append]; simp [removedTotal]; omega
      rw [e1, ih (pre ++ [e])]
      simp only [List.length_cons, List.range_succ_eq_map, List.map_cons, List.map_map, List.append_assoc]
      congr 1
  have := gen log [] []
  simpa [removedTotal] using this

theorem filter_not_mem_length (current sel : List Codes) (keep : Codes → Bool) (h : sel = current.filter keep) :
    (current.filter fun p => !sel.contains p).length + sel.length = current.length := by
  subst h
  have : (current.filter fun p => !(current.filter keep).contains p) = current.filter fun p => !keep p := by
    apply List.filter_congr
    intro x hx
    cases hk : keep x
    · simp [List.mem_filter, hk]
    · simp [List.mem_filter, hk, hx]
  rw [this]
  clear this
  induction current with
  | nil => rfl
  | cons a t ih =>
    cases hk : keep a <;> simp [List.filter_cons, hk] <;> omega

theorem updateFilter_selected (c : Ctx) (r : Relations) (st st' : State) (cs : List Criterion) (op : Operation)
    (q : Bool) (h : updateFilter c r st cs op q = .ok st') : ∃ keep, st'.selected = st.selected.filter keep := by
  rw [updateFilter_effect] at h
  cases he : effectOf c r cs op q with
  | error e => rw [he] at h; cases h
  | ok eff => rw [he] at h; cases h; exact ⟨eff.keep, rfl⟩

/-- Invariant of the `result` log: with `N` programs initially, after every logged command the
number the summary announces (`N` minus everything removed so far) is the size of the selection
right after that command. -/
theorem go_spec (c : Ctx) (r : Relations) (N : Nat) (cmds : List Command) :
    ∀ (st : State) (idx : Nat) (log : List LogEntry) (st' : State) (log' : List LogEntry),
      runLogged.go c r st st.selected idx cmds log = .ok (st', log') →
      (N : Int) - (removedTotal log : Nat) = st.selected.length →
      (∀ k (hk : k < log.length), (N : Int) - (removedTotal (log.take (k + 1)) : Nat) = log[k].selectedAfter) →
      ((N : Int) - (removedTotal log' : Nat) = st'.selected.length) ∧
      (∀ k (hk : k < log'.length), (N : Int) - (removedTotal (log'.take (k + 1)) : Nat) = log'[k].selectedAfter) := by
  induction cmds with
  | nil =>
    intro st idx log st' log' h h1 h2
    simp only [runLogged.go] at h
    cases h
    exact ⟨h1, h2⟩
  | cons cmd t ih =>
    intro st idx log st' log' h h1 h2
    unfold runLogged.go at h
    cases hp : parseOperation cmd.operation with
    | none => rw [hp] at h; exact ih st (idx + 1) log st' log' h h1 h2
    | some v =>
      obtain ⟨op, q⟩ := v
      rw [hp] at h
      simp only at h
      by_cases hd : cmd.data.isEmpty = true
      · simp only [hd, if_true] at h
        exact ih st (idx + 1) log st' log' h h1 h2
      · simp only [hd, Bool.false_eq_true, if_false] at h
        cases hu : updateFilter c r st cmd.data op q with
        | error e => rw [hu] at h; cases h
        | ok sm =>
          rw [hu] at h
          simp only at h
          obtain ⟨keep, hk⟩ := updateFilter_selected c r st sm cmd.data op q hu
          have hlen := filter_not_mem_length st.selected sm.selected keep hk
          obtain ⟨E, hE1, hE2, hgo⟩ : ∃ E : LogEntry, E.removed.length + sm.selected.length = st.selected.length ∧
              E.selectedAfter = sm.selected.length ∧
              runLogged.go c r sm sm.selected (idx + 1) t (log ++ [E]) = .ok (st', log') := ⟨_, hlen, rfl, h⟩
          refine ih sm (idx + 1) _ st' log' hgo ?_ ?_
          · rw [removedTotal_append]
            simp only [removedTotal, List.map_cons, List.map_nil, List.sum_cons, List.sum_nil]
            simp only [removedTotal] at h1
            omega
          · intro k hk'
            simp only [List.length_append, List.length_cons, List.length_nil] at hk'
            rcases Nat.lt_or_ge k log.length with hlt | hge
            · have : (log ++ [E]).take (k + 1) = log.take (k + 1) := by
                rw [List.take_append_of_le_length (by omega)]
              rw [this, List.getElem_append_left hlt]
              exact h2 k hlt
            · have hk2 : k = log.length := by omega
              subst hk2
              have : (log ++ [E]).take (log.length + 1) = log ++ [E] := by
                rw [List.take_of_length_le (by simp)]
              rw [this, removedTotal_append]
              simp only [removedTotal, List.map_cons, List.map_nil, List.sum_cons, List.sum_nil,
                List.getElem_concat_length]
              simp only [removedTotal] at h1
              omega

end Paroxy.Report
