/-
The executable (`…B`) forms of the three clauses of C10 are equivalent to the clauses: spans that
occur nowhere have count 0 on both sides, so bounding the quantifier over spans loses nothing.
-/
import Paroxy.Spec.Dedup
import Paroxy.Proofs.Bag
import Paroxy.Proofs.DedupLift
namespace Paroxy.DedupSpec
open Paroxy Paroxy.Dedup Paroxy.Spec.Dedup
set_option linter.unusedSectionVars false
set_option linter.unusedSimpArgs false
variable {ν σ : Type} [DecidableEq ν] [DecidableEq σ]

theorem noInventionB_iff (T out : List (ν × Bag σ)) :
    noInventionB T out = true ↔ NoInvention T out := by
  simp only [noInventionB, NoInvention, List.all_eq_true, Bool.and_eq_true, decide_eq_true_eq,
    List.contains_iff_mem]

theorem keys_bagOf_subset (T : List (ν × Bag σ)) (n : ν) :
    ∀ s ∈ (bagOf T n).map Prod.fst, s ∈ spansOf T := by
  induction T with
  | nil => intro s hs; simp [bagOf] at hs
  | cons e t ih =>
    obtain ⟨m, b⟩ := e
    intro s hs
    simp only [bagOf] at hs
    simp only [spansOf, List.flatMap_cons, List.mem_append]
    split at hs
    · exact Or.inl hs
    · exact Or.inr (ih s hs)

theorem cnt_eq_zero_of_not_mem {T : List (ν × Bag σ)} {s : σ} (h : s ∉ spansOf T) (n : ν) :
    cnt T n s = 0 :=
  Bag.count_eq_zero_of_not_mem fun hs => h (keys_bagOf_subset T n s hs)

variable (desc : ν → ν → Bool)

theorem unsharedKeptB_iff (T out : List (ν × Bag σ)) :
    unsharedKeptB desc T out = true ↔ UnsharedKept desc T out := by
  simp only [unsharedKeptB, UnsharedKept, List.all_eq_true, Bool.or_eq_true, Bool.not_eq_true',
    decide_eq_true_eq, List.mem_append]
  constructor
  · intro h n hn s hU
    by_cases hs : s ∈ spansOf T ∨ s ∈ spansOf out
    · rcases h n hn s hs with h' | h'
      · rw [← Bool.not_eq_true, List.all_eq_true] at h'
        exfalso; apply h'
        intro d hd
        cases hdd : desc n d
        · simp
        · simp [hU d hd hdd]
      · exact h'
    · simp only [not_or] at hs
      rw [cnt_eq_zero_of_not_mem hs.1, cnt_eq_zero_of_not_mem hs.2]
  · intro h n hn s _
    by_cases hU : ∀ d ∈ T.map Prod.fst, desc n d = true → cnt T d s = 0
    · exact Or.inr (h n hn s hU)
    · refine Or.inl ?_
      rw [← Bool.not_eq_true, List.all_eq_true]
      intro hall
      apply hU
      intro d hd hdd
      have := hall d hd
      simpa [hdd] using this

theorem coveredLostB_iff (T out : List (ν × Bag σ)) :
    coveredLostB desc T out = true ↔ CoveredLost desc T out := by
  simp only [coveredLostB, CoveredLost, List.all_eq_true, Bool.or_eq_true, Bool.not_eq_true',
    Bool.and_eq_false_iff, decide_eq_false_iff_not, decide_eq_true_eq, List.mem_append]
  constructor
  · intro h n hn s hpos hcov
    by_cases hs : s ∈ spansOf T ∨ s ∈ spansOf out
    · rcases h n hn s hs with (h' | h') | h'
      · exact absurd hpos h'
      · exact absurd hcov h'
      · exact h'
    · simp only [not_or] at hs
      exact cnt_eq_zero_of_not_mem hs.2 n
  · intro h n hn s _
    by_cases hpos : 0 < cnt T n s
    · by_cases hcov : cnt T n s ≤ nearestTotal desc T n s
      · exact Or.inr (h n hn s hpos hcov)
      · exact Or.inl (Or.inr hcov)
    · exact Or.inl (Or.inl hpos)

theorem goodBagsB_iff (T : List (ν × Bag σ)) : goodBagsB T = true ↔ GoodBags T := by
  simp [goodBagsB, GoodBags, List.all_eq_true]

theorem names_finalize_sublist (l : List (ν × Bag σ)) :
    List.Sublist ((finalize l).map Prod.fst) (l.map Prod.fst) := by
  induction l with
  | nil => exact List.Sublist.refl _
  | cons e t ih =>
    obtain ⟨m, c⟩ := e
    rw [DedupLift.finalize_cons]
    split
    · exact List.Sublist.cons _ ih
    · exact List.Sublist.cons_cons _ ih

end Paroxy.DedupSpec
