/- Helper lemmas for the end-to-end statement of C17: the recommender as a whole. -/
import Paroxy.Proofs.Report
import Paroxy.Proofs.ReportOrder
import Paroxy.Proofs.Dict
namespace Paroxy.Report
open Paroxy Paroxy.Filter Paroxy.Costs

/-- The filter state after a logged run is the one `run_pipeline` computes (the log is bookkeeping). -/
theorem go_state (c : Ctx) (r : Relations) (cmds : List Command) :
    ∀ (st : State) (cur : List Codes) (idx : Nat) (log : List LogEntry) (st' : State) (log' : List LogEntry),
      runLogged.go c r st cur idx cmds log = .ok (st', log') → runPipeline c r st cmds = .ok st' := by
  induction cmds with
  | nil =>
    intro st cur idx log st' log' h
    simp only [runLogged.go] at h
    cases h
    rfl
  | cons cmd t ih =>
    intro st cur idx log st' log' h
    unfold runLogged.go at h
    simp only [runPipeline, foldE, runCommand]
    cases hp : parseOperation cmd.operation with
    | none =>
      rw [hp] at h
      exact ih st cur (idx + 1) log st' log' h
    | some v =>
      obtain ⟨op, q⟩ := v
      rw [hp] at h
      simp only at h ⊢
      by_cases hd : cmd.data.isEmpty = true
      · simp only [hd, if_true] at h ⊢
        exact ih st cur (idx + 1) log st' log' h
      · simp only [hd, Bool.false_eq_true, if_false] at h ⊢
        cases hu : updateFilter c r st cmd.data op q with
        | error e => rw [hu] at h; cases h
        | ok sm =>
          rw [hu] at h
          simp only at h ⊢
          exact ih sm _ (idx + 1) _ st' log' h

theorem runLogged_state (c : Ctx) (r : Relations) (st st' : State) (cmds : List Command) (log : List LogEntry)
    (h : runLogged c r st cmds = .ok (st', log)) : runPipeline c r st cmds = .ok st' :=
  go_state c r cmds st st.selected 1 [] st' log h

theorem foldE_append {σ α ε : Type} (f : σ → α → Except ε σ) (s : σ) (a b : List α) :
    foldE f s (a ++ b) = match foldE f s a with
      | .error e => .error e
      | .ok s' => foldE f s' b := by
  induction a generalizing s with
  | nil => simp [foldE]
  | cons x t ih =>
    simp only [List.cons_append, foldE]
    cases f s x with
    | error e => rfl
    | ok s' => exact ih s'

/-- `run_pipeline` called n times on one recommender = one call on the concatenated commands. -/
theorem runsLogged_state (c : Ctx) (r : Relations) (runs : List (List Command)) :
    ∀ (st : State) (log : List LogEntry) (st' : State) (log' : List LogEntry),
      runsLogged c r st log runs = .ok (st', log') → runPipeline c r st runs.flatten = .ok st' := by
  induction runs with
  | nil =>
    intro st log st' log' h
    simp only [runsLogged] at h
    cases h
    rfl
  | cons cmds t ih =>
    intro st log st' log' h
    simp only [runsLogged] at h
    cases hr : runLogged c r st cmds with
    | error e => rw [hr] at h; cases h
    | ok v =>
      obtain ⟨sm, l⟩ := v
      rw [hr] at h
      simp only at h
      have h1 := runLogged_state c r st sm cmds l hr
      have h2 := ih sm (log ++ l) st' log' h
      simp only [List.flatten_cons, runPipeline] at h1 h2 ⊢
      rw [foldE_append, h1]
      exact h2

/-- What `assess` returns: a permutation of the selection, each path with the cost of its record. -/
theorem assess_spec (strat : Strategy) (progs : List (Codes × TaxaSpans)) (K sel : List Codes)
    (l : List (Rat × Codes)) (h : assess strat progs K sel = some l) :
    (l.map (·.2)).Perm sel ∧
    ∀ cp ∈ l, ∃ rec, dictGet? progs cp.2 = some rec ∧ cp.1 = programCost strat K rec := by
  unfold assess at h
  cases hm : sel.mapM (fun p => (dictGet? progs p).map fun rec => (programCost strat K rec, p)) with
  | none => rw [hm] at h; cases h
  | some costs =>
    rw [hm] at h
    simp only [bind, Option.bind, pure, Option.some.injEq] at h
    subst h
    have hperm := List.mergeSort_perm costs leCostPath
    have hmap : costs.map (·.2) = sel.map id :=
      mapM_some_map _ id (·.2) sel costs hm (by
        intro a b hab
        cases hd : dictGet? progs a with
        | none => simp [hd] at hab
        | some rec => simp [hd] at hab; subst hab; rfl)
    refine ⟨?_, fun cp hcp => ?_⟩
    · have := hperm.map (·.2)
      rw [hmap, List.map_id] at this
      exact this
    · have hc : cp ∈ costs := hperm.mem_iff.mp hcp
      obtain ⟨hl, hi⟩ := mapM_some_spec _ sel costs hm
      obtain ⟨i, hi', rfl⟩ := List.getElem_of_mem hc
      have := hi i (by omega) hi'
      cases hd : dictGet? progs sel[i] with
      | none => simp [hd] at this
      | some rec =>
        simp only [hd, Option.map_some, Option.some.injEq] at this
        refine ⟨rec, ?_, ?_⟩
        · rw [← this]; exact hd
        · rw [← this]

/-! ### Totality: a report is always produced -/

theorem mapM_some_of_forall {α β} (f : α → Option β) (l : List α) (h : ∀ a ∈ l, ∃ b, f a = some b) :
    ∃ r, l.mapM f = some r := by
  induction l with
  | nil => exact ⟨[], rfl⟩
  | cons a t ih =>
    obtain ⟨b, hb⟩ := h a List.mem_cons_self
    obtain ⟨r, hr⟩ := ih fun x hx => h x (List.mem_cons_of_mem _ hx)
    exact ⟨b :: r, by simp [List.mapM_cons, hb, hr]⟩

/-- `assess` succeeds when every selected path is a program. -/
theorem assess_total (strat : Strategy) (progs : List (Codes × TaxaSpans)) (K sel : List Codes)
    (h : ∀ p ∈ sel, p ∈ progs.map (·.1)) : ∃ l, assess strat progs K sel = some l := by
  unfold assess
  obtain ⟨r, hr⟩ := mapM_some_of_forall
    (fun p => (dictGet? progs p).map fun rec => (programCost strat K rec, p)) sel (by
      intro p hp
      obtain ⟨v, hv⟩ := dictGet?_of_key_mem (h p hp)
      exact ⟨_, by rw [hv]; rfl⟩)
  exact ⟨r.mergeSort leCostPath, by rw [hr]; rfl⟩

/-- `body` succeeds when every assessed path is a program. -/
theorem body_total (i : Input) (h : ∀ cp ∈ i.assessed, cp.2 ∈ i.programs.map (·.1)) : ∃ b, body i = some b := by
  rw [body_eq]
  apply mapM_some_of_forall
  intro g hg
  have hmem : ∀ x ∈ g.2, x ∈ visible i := by
    intro x hx
    have hp := (groupBy_spec (groupKey i) (visible i)).2
    exact hp.mem_iff.mp (List.mem_flatMap.mpr ⟨g, hg, hx⟩)
  obtain ⟨secs, hs⟩ := mapM_some_of_forall (sectionOf i) (g.2.mergeSort (leMember i.sorting i.sloc)) (by
    intro cp hcp
    have h1 : cp ∈ g.2 := (List.mergeSort_perm g.2 _).mem_iff.mp hcp
    have h2 : cp ∈ i.assessed := (List.mem_filter.mp (hmem cp h1)).1
    obtain ⟨v, hv⟩ := dictGet?_of_key_mem (h cp h2)
    exact ⟨_, by unfold sectionOf; rw [hv]; rfl⟩)
  exact ⟨(g.1, secs), by unfold groupSections; rw [hs]; rfl⟩

end Paroxy.Report
