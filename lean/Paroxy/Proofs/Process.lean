/-
Helper lemmas for C03: invariants of the SQL connection and of the taxonomy memo.
-/
import Paroxy.Model.Process
import Paroxy.Proofs.MakeDbDict
namespace Paroxy.Proc
open Paroxy Paroxy.DB

instance exceptDecEq {ε α : Type} [DecidableEq ε] [DecidableEq α] : DecidableEq (Except ε α) :=
  fun a b => match a, b with
  | .ok x, .ok y => if h : x = y then isTrue (by rw [h]) else isFalse (fun e => by cases e; exact h rfl)
  | .error x, .error y =>
    if h : x = y then isTrue (by rw [h]) else isFalse (fun e => by cases e; exact h rfl)
  | .ok _, .error _ => isFalse (fun e => by cases e)
  | .error _, .ok _ => isFalse (fun e => by cases e)

/-- At a program boundary: no main table, no sub-table left in the connection. -/
def SqlInv (s : SqlState) : Prop := s.t = none ∧ s.physical = []

/-- Inside a program: every physical sub-table is known (so that `delete` drops it). -/
def LoopInv (s : SqlState) : Prop := ∀ e ∈ s.physical, e.1 ∈ s.known

/-- The specification of `get_taxon_name_list`: a pure function of the label and of the taxonomy
*as loaded* (`lit0`). -/
def pureTranslate (E : Engines) (lit0 : List (Name × List Name)) (l : Name) : List Name :=
  if E.looksLikeTaxon l then [l] else (get? lit0 l).getD [] ++ E.compiled l

/-- The memo only holds specified values, and the lists of `literal_labels` not yet translated are
untouched. -/
def TaxoInv (E : Engines) (lit0 : List (Name × List Name)) (T : TaxoState) : Prop :=
  ∀ l, (∀ r, get? T.memo l = some r → r = pureTranslate E lit0 l) ∧
       (get? T.memo l = none → get? T.literal l = get? lit0 l)

def Inv (E : Engines) (lit0 : List (Name × List Name)) (S : State) : Prop :=
  SqlInv S.sql ∧ TaxoInv E lit0 S.taxo

/-! ## SQL -/

theorem ensure_ok {s : SqlState} (h : LoopInv s) (pre : List Name) :
    ∃ s', s.ensure pre = .ok s' ∧ LoopInv s' ∧ s'.t = s.t := by
  induction pre generalizing s with
  | nil => exact ⟨s, rfl, h, rfl⟩
  | cons n ns ih =>
    unfold SqlState.ensure
    by_cases hk : n ∈ s.known
    · simp only [hk, if_true]; exact ih h
    · have hp : n ∉ s.physical.map (·.1) := by
        intro hm
        obtain ⟨e, he, hen⟩ := List.mem_map.mp hm
        exact hk (hen ▸ h e he)
      simp only [hk, hp, if_false]
      have h' : LoopInv { s with physical := s.physical ++ [(n, rowsWithPrefix n (s.t.getD []))],
                                  known := s.known ++ [n] } := by
        intro e he
        simp only [List.mem_append, List.mem_singleton] at he ⊢
        rcases he with he | he
        · exact Or.inl (h e he)
        · exact Or.inr (by rw [he])
      obtain ⟨s', hs', hl, ht⟩ := ih h'
      exact ⟨s', hs', hl, ht⟩

theorem update_loopInv {s : SqlState} (h : LoopInv s) (ls : List Label) : LoopInv (s.update ls) := h

theorem queryLoop_ok (E : Engines) {s : SqlState} (h : LoopInv s) (qs : List (Name × List Name))
    (acc : List Label) : ∃ s' r, queryLoop E s qs acc = (s', .ok r) ∧ LoopInv s' := by
  induction qs generalizing s acc with
  | nil => exact ⟨s, acc, rfl, h⟩
  | cons q qs ih =>
    obtain ⟨qn, pre⟩ := q
    obtain ⟨s1, hs1, hl1, -⟩ := ensure_ok h pre
    unfold queryLoop
    rw [hs1]
    simp only
    split
    · exact ih hl1 acc
    · exact ih (update_loopInv hl1 _) _

theorem delete_sqlInv {s : SqlState} (h : LoopInv s) : SqlInv s.delete := by
  refine ⟨rfl, ?_⟩
  unfold SqlState.delete
  simp only
  rw [List.filter_eq_nil_iff]
  intro e he
  simp [h e he]

theorem create_of_inv {s : SqlState} (h : SqlInv s) (labels : List Label) :
    s.create labels = .ok { t := some labels, physical := [], known := [] } := by
  obtain ⟨t, ph, kn⟩ := s
  obtain ⟨ht, hp⟩ := h
  simp only at ht hp
  subst ht hp
  rfl

/-- From a boundary state, `ProgramParser.__call__` does not look at the previous hash state, nor at
anything of the SQL state; it leaves a boundary state and does not touch the taxonomy. -/
theorem parseStep_spec (E : Engines) {S S' : State} (h : SqlInv S.sql) (h' : SqlInv S'.sql)
    (p : Program) :
    (parseStep E S p).2 = (parseStep E S' p).2 ∧ SqlInv (parseStep E S p).1.sql ∧
      (parseStep E S p).1.taxo = S.taxo ∧ (parseStep E S p).1.hash = (parseStep E S' p).1.hash ∨
      (parseStep E S p).2 = (parseStep E S' p).2 ∧ SqlInv (parseStep E S p).1.sql ∧
      (parseStep E S p).1.taxo = S.taxo ∧ (∃ e, p.parsed = .invalid e ∨ p.parsed = .empty) := by
  unfold parseStep parseStepG
  simp only [if_true]
  cases hp : p.parsed with
  | invalid e => exact Or.inr ⟨rfl, h, rfl, e, Or.inl rfl⟩
  | empty => exact Or.inr ⟨rfl, h, rfl, [], Or.inr rfl⟩
  | tree reprs =>
    left
    simp only
    cases hr : p.regexLabels (HashState.reset.callAll reprs).2 with
    | error e => exact ⟨rfl, h, rfl, rfl⟩
    | ok labels0 =>
      simp only [create_of_inv h, create_of_inv h']
      have hl : LoopInv { t := some labels0, physical := [], known := [] } := by
        intro e he; cases he
      obtain ⟨s2, r, hq, hl2⟩ := queryLoop_ok E hl E.queries labels0
      rw [hq]
      exact ⟨rfl, delete_sqlInv hl2, rfl, rfl⟩

theorem parseStep_out (E : Engines) {S S' : State} (h : SqlInv S.sql) (h' : SqlInv S'.sql)
    (p : Program) : (parseStep E S p).2 = (parseStep E S' p).2 := by
  rcases parseStep_spec E h h' p with ⟨a, -⟩ | ⟨a, -⟩ <;> exact a

theorem parseStep_sqlInv (E : Engines) {S : State} (h : SqlInv S.sql) (p : Program) :
    SqlInv (parseStep E S p).1.sql := by
  rcases parseStep_spec E h h p with ⟨-, a, -⟩ | ⟨-, a, -⟩ <;> exact a

theorem parseStep_taxo (E : Engines) {S : State} (h : SqlInv S.sql) (p : Program) :
    (parseStep E S p).1.taxo = S.taxo := by
  rcases parseStep_spec E h h p with ⟨-, -, a, -⟩ | ⟨-, -, a, -⟩ <;> exact a

/-! ## Taxonomy -/

theorem get?_append_single {β : Type} (m : List (Name × β)) (l : Name) (r : β) (k : Name) :
    get? (m ++ [(l, r)]) k =
      match get? m k with
      | some v => some v
      | none => if l = k then some r else none := by
  induction m with
  | nil => simp [get?]
  | cons e t ih =>
    obtain ⟨k0, v0⟩ := e
    simp only [List.cons_append, get?_cons]
    by_cases h0 : k0 = k
    · simp [h0]
    · simp only [h0, if_false]; exact ih

theorem translate_spec (E : Engines) {lit0 : List (Name × List Name)} {T : TaxoState}
    (h : TaxoInv E lit0 T) (l : Name) :
    (translate E T l).2 = pureTranslate E lit0 l ∧ TaxoInv E lit0 (translate E T l).1 := by
  unfold translate
  cases hm : get? T.memo l with
  | some r => exact ⟨(h l).1 r hm, h⟩
  | none =>
    have hlit := (h l).2 hm
    simp only
    by_cases ht : E.looksLikeTaxon l = true
    · simp only [ht, if_true]
      refine ⟨by simp [pureTranslate, ht], ?_⟩
      intro k
      simp only [get?_append_single]
      constructor
      · intro r hr
        cases hk : get? T.memo k with
        | some v => rw [hk] at hr; simp only [Option.some.injEq] at hr; exact hr ▸ (h k).1 v hk
        | none =>
          rw [hk] at hr
          simp only at hr
          split at hr
          · rename_i hlk
            simp only [Option.some.injEq] at hr
            rw [← hr, ← hlk]; simp [pureTranslate, ht]
          · cases hr
      · intro hn
        cases hk : get? T.memo k with
        | some v => rw [hk] at hn; cases hn
        | none => exact (h k).2 hk
    · simp only [ht, Bool.false_eq_true, if_false]
      cases hl : get? T.literal l with
      | some lit =>
        simp only
        have hval : lit ++ E.compiled l = pureTranslate E lit0 l := by
          simp [pureTranslate, ht, ← hlit, hl]
        refine ⟨hval, ?_⟩
        intro k
        simp only [get?_append_single]
        constructor
        · intro r hr
          cases hk : get? T.memo k with
          | some v => rw [hk] at hr; simp only [Option.some.injEq] at hr; exact hr ▸ (h k).1 v hk
          | none =>
            rw [hk] at hr
            simp only at hr
            split at hr
            · rename_i hlk
              simp only [Option.some.injEq] at hr
              rw [← hr, ← hlk]; exact hval
            · cases hr
        · intro hn
          cases hk : get? T.memo k with
          | some v => rw [hk] at hn; cases hn
          | none =>
            rw [hk] at hn
            simp only at hn
            have hlk : ¬ l = k := by
              intro e; simp [e] at hn
            rw [get?_set]
            have : ¬ k = l := fun e => hlk e.symm
            simp only [this, if_false]
            exact (h k).2 hk
      | none =>
        simp only
        have hval : E.compiled l = pureTranslate E lit0 l := by
          simp [pureTranslate, ht, ← hlit, hl]
        refine ⟨hval, ?_⟩
        intro k
        simp only [get?_append_single]
        constructor
        · intro r hr
          cases hk : get? T.memo k with
          | some v => rw [hk] at hr; simp only [Option.some.injEq] at hr; exact hr ▸ (h k).1 v hk
          | none =>
            rw [hk] at hr
            simp only at hr
            split at hr
            · rename_i hlk
              simp only [Option.some.injEq] at hr
              rw [← hr, ← hlk]; exact hval
            · cases hr
        · intro hn
          cases hk : get? T.memo k with
          | some v => rw [hk] at hn; cases hn
          | none => exact (h k).2 hk

theorem translateAll_spec (E : Engines) {lit0 : List (Name × List Name)} {T : TaxoState}
    (h : TaxoInv E lit0 T) (ls : List Label) :
    (translateAll E T ls).2 = ls.map (fun l => (l, pureTranslate E lit0 l.name)) ∧
      TaxoInv E lit0 (translateAll E T ls).1 := by
  induction ls generalizing T with
  | nil => exact ⟨rfl, h⟩
  | cons l ls ih =>
    obtain ⟨h1, h2⟩ := translate_spec E h l.name
    obtain ⟨h3, h4⟩ := ih h2
    unfold translateAll
    simp only [List.map_cons]
    exact ⟨by rw [h1, h3], h4⟩

theorem taxaStep_spec (E : Engines) {lit0 : List (Name × List Name)} {S : State}
    (h : TaxoInv E lit0 S.taxo) (labels : List Label) :
    (taxaStep E S labels).2 = E.assemble (labels.map fun l => (l, pureTranslate E lit0 l.name)) ∧
      TaxoInv E lit0 (taxaStep E S labels).1.taxo ∧ (taxaStep E S labels).1.sql = S.sql := by
  obtain ⟨h1, h2⟩ := translateAll_spec E h labels
  unfold taxaStep
  simp only
  exact ⟨by rw [h1], h2, trivial⟩

end Paroxy.Proc
