/-
C15 helper lemmas, part 2: the pseudo-hash factory (`HashState`) and the equality of the stateful
dump `dumpS` with the pure dump `dumpP` for the hash function of the final state.
-/
import Paroxy.Proofs.FlatPath
namespace Paroxy.Flat

/-! ## Hexadecimal rendering is injective -/

/-- Value of a hexadecimal digit character as produced by `Nat.digitChar`. -/
def hexVal (c : Char) : Nat :=
  if c.toNat ≤ 57 then c.toNat - 48 else c.toNat - 87

def ofHex (l : Str) (init : Nat) : Nat := l.foldl (fun a c => 16 * a + hexVal c) init

theorem hexVal_digitChar : ∀ d, d < 16 → hexVal (Nat.digitChar d) = d := by decide

theorem ofHex_append (l m : Str) (init : Nat) : ofHex (l ++ m) init = ofHex m (ofHex l init) := by
  simp [ofHex]

theorem ofHex_toDigits (n : Nat) : ofHex (Nat.toDigits 16 n) 0 = n := by
  induction n using Nat.strongRecOn with
  | _ n ih =>
    rw [Nat.toDigits_eq_if (by decide)]
    split
    · rename_i h
      simp [ofHex, hexVal_digitChar n h]
    · rename_i h
      rw [ofHex_append, ih (n / 16) (Nat.div_lt_self (by omega) (by decide))]
      simp only [ofHex, List.foldl_cons, List.foldl_nil]
      rw [hexVal_digitChar _ (Nat.mod_lt _ (by decide))]
      omega

theorem ofHex_replicate_zero (k : Nat) (l : Str) : ofHex (List.replicate k '0' ++ l) 0 = ofHex l 0 := by
  induction k with
  | zero => rfl
  | succ k ih =>
    rw [List.replicate_succ, List.cons_append]
    have : ofHex ('0' :: (List.replicate k '0' ++ l)) 0 = ofHex (List.replicate k '0' ++ l) 0 := by
      simp [ofHex, hexVal]
    rw [this, ih]

/-- `f"0x{n:04x}"` determines `n` (also beyond four digits). -/
theorem hex4_injective {a b : Nat} (h : hex4 a = hex4 b) : a = b := by
  unfold hex4 at h
  simp only [List.cons.injEq, true_and] at h
  have ha := ofHex_replicate_zero (4 - (Nat.toDigits 16 a).length) (Nat.toDigits 16 a)
  have hb := ofHex_replicate_zero (4 - (Nat.toDigits 16 b).length) (Nat.toDigits 16 b)
  rw [h, hb, ofHex_toDigits] at ha
  rw [ofHex_toDigits] at ha
  exact ha.symm

/-! ## The factory -/

def HashState.keys (s : HashState) : List Str := s.cache.map (·.1)

/-- Invariant of the factory: keys are distinct and numbered 1, 2, …, `i` in insertion order. -/
structure HashState.Inv (s : HashState) : Prop where
  nodup : s.keys.Nodup
  vals : s.cache.map (·.2) = List.range' 1 s.i

theorem HashState.inv_reset : HashState.reset.Inv := ⟨by simp [HashState.keys, HashState.reset], by simp [HashState.reset]⟩

theorem lookup_eq_none_iff {x : Str} {l : List (Str × Nat)} : l.lookup x = none ↔ x ∉ l.map (·.1) := by
  induction l with
  | nil => simp
  | cons p l ih =>
    obtain ⟨k, v⟩ := p
    simp only [List.lookup_cons, List.map_cons, List.mem_cons, not_or]
    by_cases h : x == k
    · simp [h]
      intro h'; exact absurd (beq_iff_eq.mp h) h'
    · simp only [h]
      rw [ih]
      have : x ≠ k := fun e => h (beq_iff_eq.mpr e)
      simp [this]

theorem lookup_append_of_mem {x : Str} {l m : List (Str × Nat)} (h : x ∈ l.map (·.1)) :
    (l ++ m).lookup x = l.lookup x := by
  induction l with
  | nil => simp at h
  | cons p l ih =>
    obtain ⟨k, v⟩ := p
    simp only [List.cons_append, List.lookup_cons]
    by_cases hk : x == k
    · simp [hk]
    · simp only [hk]
      apply ih
      simp only [List.map_cons, List.mem_cons] at h
      rcases h with h | h
      · exact absurd (beq_iff_eq.mpr h) hk
      · exact h

theorem lookup_append_of_not_mem {x : Str} {l m : List (Str × Nat)} (h : x ∉ l.map (·.1)) :
    (l ++ m).lookup x = m.lookup x := by
  induction l with
  | nil => rfl
  | cons p l ih =>
    obtain ⟨k, v⟩ := p
    simp only [List.map_cons, List.mem_cons, not_or] at h
    have hk : (x == k) = false := by
      cases hb : x == k with
      | false => rfl
      | true => exact absurd (beq_iff_eq.mp hb) h.1
    simp only [List.cons_append, List.lookup_cons, hk]
    exact ih h.2

theorem HashState.mem_keys_touch (s : HashState) (x : Str) : x ∈ (s.touch x).keys := by
  unfold HashState.touch
  cases h : s.cache.lookup x with
  | some v =>
    simp only [HashState.keys]
    by_cases hc : x ∈ s.cache.map (·.1)
    · exact hc
    · rw [lookup_eq_none_iff.mpr hc] at h
      cases h
  | none => simp [HashState.keys]

theorem HashState.keys_touch_mono (s : HashState) (x y : Str) (h : y ∈ s.keys) : y ∈ (s.touch x).keys := by
  unfold HashState.touch
  cases s.cache.lookup x with
  | some v => exact h
  | none =>
    simp only [HashState.keys, List.map_append, List.mem_append]
    exact Or.inl h

/-- A number once given is never changed. -/
theorem HashState.get_touch_of_mem (s : HashState) (x y : Str) (h : y ∈ s.keys) :
    (s.touch x).get y = s.get y := by
  unfold HashState.touch HashState.get
  cases s.cache.lookup x with
  | some v => rfl
  | none => simp only; rw [lookup_append_of_mem h]

theorem HashState.keys_touchAll_mono (s : HashState) (rs : List Str) (y : Str) (h : y ∈ s.keys) :
    y ∈ (touchAll s rs).keys := by
  induction rs generalizing s with
  | nil => exact h
  | cons r rs ih => exact ih (s.touch r) (s.keys_touch_mono r y h)

theorem HashState.get_touchAll_of_mem (s : HashState) (rs : List Str) (y : Str) (h : y ∈ s.keys) :
    (touchAll s rs).get y = s.get y := by
  induction rs generalizing s with
  | nil => rfl
  | cons r rs ih =>
    show (touchAll (s.touch r) rs).get y = s.get y
    rw [ih (s.touch r) (s.keys_touch_mono r y h), s.get_touch_of_mem r y h]

theorem HashState.mem_keys_touchAll (s : HashState) (rs : List Str) (y : Str) (h : y ∈ rs) :
    y ∈ (touchAll s rs).keys := by
  induction rs generalizing s with
  | nil => cases h
  | cons r rs ih =>
    show y ∈ (touchAll (s.touch r) rs).keys
    rcases List.mem_cons.mp h with h | h
    · subst h; exact (s.touch y).keys_touchAll_mono rs y (s.mem_keys_touch y)
    · exact ih (s.touch r) h

theorem touchAll_append (s : HashState) (a b : List Str) :
    touchAll s (a ++ b) = touchAll (touchAll s a) b := by
  simp [touchAll]

theorem HashState.inv_touch (s : HashState) (x : Str) (h : s.Inv) : (s.touch x).Inv := by
  unfold HashState.touch
  cases hl : s.cache.lookup x with
  | some v => exact h
  | none =>
    have hx : x ∉ s.keys := lookup_eq_none_iff.mp hl
    refine ⟨?_, ?_⟩
    · simp only [HashState.keys, List.map_append, List.map_cons, List.map_nil]
      exact List.nodup_append.mpr ⟨h.nodup, by simp, by
        intro a ha b hb
        simp only [List.mem_singleton] at hb
        subst hb
        exact fun e => hx (e ▸ ha)⟩
    · simp only [List.map_append, List.map_cons, List.map_nil, h.vals]
      rw [List.range'_1_concat, Nat.add_comm]

theorem HashState.inv_touchAll (s : HashState) (rs : List Str) (h : s.Inv) : (touchAll s rs).Inv := by
  induction rs generalizing s with
  | nil => exact h
  | cons r rs ih => exact ih (s.touch r) (s.inv_touch r h)

theorem mem_of_lookup {x : Str} {v : Nat} : ∀ {l : List (Str × Nat)}, l.lookup x = some v → (x, v) ∈ l
  | [], h => by simp at h
  | (k, w) :: l, h => by
    simp only [List.lookup_cons] at h
    by_cases hk : x == k
    · simp only [hk, Option.some.injEq] at h
      rw [beq_iff_eq.mp hk, h]; exact List.mem_cons_self
    · simp only [hk] at h
      exact List.mem_cons_of_mem _ (mem_of_lookup h)

theorem inj_of_nodup_map {α β : Type} (f : α → β) : ∀ {l : List α}, (l.map f).Nodup →
    ∀ {a b}, a ∈ l → b ∈ l → f a = f b → a = b
  | [], _, a, _, ha, _, _ => by cases ha
  | c :: l, h, a, b, ha, hb, e => by
    simp only [List.map_cons, List.nodup_cons, List.mem_map, not_exists, not_and] at h
    rcases List.mem_cons.mp ha with ha | ha <;> rcases List.mem_cons.mp hb with hb | hb
    · rw [ha, hb]
    · rw [ha] at e; exact absurd e.symm (h.1 b hb)
    · rw [hb] at e; exact absurd e (h.1 a ha)
    · exact inj_of_nodup_map f h.2 ha hb e

/-- Under the invariant, distinct keys have distinct numbers. -/
theorem HashState.get_injective (s : HashState) (h : s.Inv) {x y : Str} (hx : x ∈ s.keys) (hy : y ∈ s.keys)
    (e : s.get x = s.get y) : x = y := by
  unfold HashState.get at e
  cases hlx : s.cache.lookup x with
  | none => exact absurd hx (lookup_eq_none_iff.mp hlx)
  | some vx =>
    cases hly : s.cache.lookup y with
    | none => exact absurd hy (lookup_eq_none_iff.mp hly)
    | some vy =>
      rw [hlx, hly] at e
      simp only [Option.getD_some] at e
      subst e
      have hv : (s.cache.map (·.2)).Nodup := by rw [h.vals]; exact List.nodup_range'
      have := inj_of_nodup_map (·.2) hv (mem_of_lookup hlx) (mem_of_lookup hly) rfl
      exact (Prod.mk.injEq .. ▸ this).1

/-! ## The stateful dump equals the pure dump for the hash function of the final state -/

mutual
theorem dumpS_spec (pre path : Str) : ∀ (v : Val) (s : HashState) (later : List Str),
    (dumpS pre path v s).2 = touchAll s (exprReprs v) ∧
    (dumpS pre path v s).1 =
      dumpP (fun r => hex4 ((touchAll s (exprReprs v ++ later)).get r)) pre path v
  | .node ty e r ln fs, s, later => by
    cases e with
    | false =>
      have ih := dumpSFields_spec pre path 0 fs s later
      simp only [dumpS, dumpP, exprReprs, Bool.false_eq_true, if_false, List.nil_append]
      exact ⟨ih.1, by rw [ih.2]⟩
    | true =>
      have ih := dumpSFields_spec pre path 0 fs (s.touch r) later
      simp only [dumpS, dumpP, exprReprs, if_true, pseudoHash, List.cons_append, List.nil_append]
      refine ⟨ih.1, ?_⟩
      rw [ih.2]
      have : (touchAll s (r :: (exprReprsFields fs ++ later))).get r = (s.touch r).get r :=
        (s.touch r).get_touchAll_of_mem _ r (s.mem_keys_touch r)
      simp only [touchAll, List.foldl_cons] at this ⊢
      rw [this]
  | .list q xs, s, later => by
    have ih := dumpSItems_spec pre path 1 xs s later
    simp only [dumpS, dumpP, exprReprs]
    exact ⟨ih.1, by rw [ih.2]⟩
  | .scalar r k, s, later => by
    simp [dumpS, dumpP, exprReprs, touchAll]
theorem dumpSFields_spec (pre path : Str) (i : Nat) : ∀ (fs : List (Str × Val)) (s : HashState) (later : List Str),
    (dumpSFields pre path i fs s).2 = touchAll s (exprReprsFields fs) ∧
    (dumpSFields pre path i fs s).1 =
      dumpPFields (fun r => hex4 ((touchAll s (exprReprsFields fs ++ later)).get r)) pre path i fs
  | [], s, later => by simp [dumpSFields, dumpPFields, exprReprsFields, touchAll]
  | (n, v) :: rest, s, later => by
    have h1 := dumpS_spec (subPre pre n) (subPath path i) v s (exprReprsFields rest ++ later)
    have h2 := dumpSFields_spec pre path (i + 1) rest (dumpS (subPre pre n) (subPath path i) v s).2 later
    simp only [dumpSFields, dumpPFields, exprReprsFields]
    rw [h1.1] at h2 ⊢
    refine ⟨by rw [h2.1, touchAll_append], ?_⟩
    rw [h1.2, h2.2, List.append_assoc, ← touchAll_append]
theorem dumpSItems_spec (pre path : Str) (i : Nat) : ∀ (xs : List Val) (s : HashState) (later : List Str),
    (dumpSItems pre path i xs s).2 = touchAll s (exprReprsItems xs) ∧
    (dumpSItems pre path i xs s).1 =
      dumpPItems (fun r => hex4 ((touchAll s (exprReprsItems xs ++ later)).get r)) pre path i xs
  | [], s, later => by simp [dumpSItems, dumpPItems, exprReprsItems, touchAll]
  | v :: rest, s, later => by
    have h1 := dumpS_spec (subPre pre (dec i)) (subPath path i) v s (exprReprsItems rest ++ later)
    have h2 := dumpSItems_spec pre path (i + 1) rest (dumpS (subPre pre (dec i)) (subPath path i) v s).2 later
    simp only [dumpSItems, dumpPItems, exprReprsItems]
    rw [h1.1] at h2 ⊢
    refine ⟨by rw [h2.1, touchAll_append], ?_⟩
    rw [h1.2, h2.2, List.append_assoc, ← touchAll_append]
end

/-- `flatten_node` from a fresh factory = the pure dump with the first-occurrence numbering. -/
theorem dumpS_reset (v : Val) :
    dumpS [] [] v HashState.reset = (dumpP (hashFn v) [] [] v, touchAll HashState.reset (exprReprs v)) := by
  have h := dumpS_spec [] [] v HashState.reset []
  simp only [List.append_nil] at h
  exact Prod.ext h.2 h.1

/-- The numbering of one flattening: equal hash texts iff equal context-free reprs. -/
theorem hashFn_eq_iff (t : Val) {r1 r2 : Str} (h1 : r1 ∈ exprReprs t) (h2 : r2 ∈ exprReprs t) :
    hashFn t r1 = hashFn t r2 ↔ r1 = r2 := by
  constructor
  · intro h
    have inv := HashState.inv_touchAll HashState.reset (exprReprs t) HashState.inv_reset
    exact HashState.get_injective _ inv (HashState.mem_keys_touchAll _ _ _ h1)
      (HashState.mem_keys_touchAll _ _ _ h2) (hex4_injective h)
  · intro h; rw [h]

/-! ## Every expression node of the tree is numbered -/

theorem mem_exprReprsFields {r : Str} {n : Str} {c : Val} : ∀ {fs : List (Str × Val)} {k : Nat},
    fs[k]? = some (n, c) → r ∈ exprReprs c → r ∈ exprReprsFields fs
  | [], k, h, _ => by simp at h
  | (n0, v0) :: rest, 0, h, hr => by
    simp only [List.getElem?_cons_zero, Option.some.injEq, Prod.mk.injEq] at h
    obtain ⟨rfl, rfl⟩ := h
    simp only [exprReprsFields, List.mem_append]; exact Or.inl hr
  | (n0, v0) :: rest, k + 1, h, hr => by
    simp only [List.getElem?_cons_succ] at h
    simp only [exprReprsFields, List.mem_append]; exact Or.inr (mem_exprReprsFields h hr)

theorem mem_exprReprsItems {r : Str} {c : Val} : ∀ {xs : List Val} {k : Nat},
    xs[k]? = some c → r ∈ exprReprs c → r ∈ exprReprsItems xs
  | [], k, h, _ => by simp at h
  | v0 :: rest, 0, h, hr => by
    simp only [List.getElem?_cons_zero, Option.some.injEq] at h
    subst h
    simp only [exprReprsItems, List.mem_append]; exact Or.inl hr
  | v0 :: rest, k + 1, h, hr => by
    simp only [List.getElem?_cons_succ] at h
    simp only [exprReprsItems, List.mem_append]; exact Or.inr (mem_exprReprsItems h hr)

theorem mem_exprReprs_of_at {v w : Val} {q : List Nat} {ns : List Str} (h : At v q ns w)
    {ty r ln fs} (hw : w = .node ty true r ln fs) : r ∈ exprReprs v := by
  induction h with
  | here v => subst hw; simp [exprReprs]
  | field hk _ ih =>
    simp only [exprReprs, List.mem_append]
    exact Or.inr (mem_exprReprsFields hk (ih hw))
  | item hk _ ih =>
    simp only [exprReprs]
    exact mem_exprReprsItems hk (ih hw)

end Paroxy.Flat
