/-
Helper lemmas for C12: the preparation steps of the repaired `get_program` (marker trimmed line
by line, blank ends trimmed) turn the text of a decorated program with freely spelled markers into
the text of its trimmed form.
-/
import Paroxy.Proofs.HintsRound
namespace Paroxy.Hints

variable {O : CharOracle}

/-- Hygiene of every line of a decorated program (before centrifugation, markers spelled freely). -/
structure LinesOk (O : CharOracle) (d : Decorated) : Prop where
  ok : ∀ c ∈ codeLines d, (OkCode O) c
  whole : ∀ L ∈ wholeLabels d, (Clean O) L
  loose : ∀ l ∈ d, (LooseOk O) l

theorem mem_codeLines {d : Decorated} {c : CodeLine} (h : Line.code c ∈ d) : c ∈ codeLines d := by
  induction d with
  | nil => simp at h
  | cons l t ih =>
    cases l with
    | code c' =>
      rcases List.mem_cons.mp h with h | h
      · cases h; simp [codeLines]
      · simp [codeLines, ih h]
    | isolated n L =>
      rcases List.mem_cons.mp h with h | h
      · cases h
      · simpa [codeLines] using ih h

theorem mem_wholeLabels {d : Decorated} {n : Nat} {L : Str} (h : Line.isolated n L ∈ d) : L ∈ wholeLabels d := by
  induction d with
  | nil => simp at h
  | cons l t ih =>
    cases l with
    | code c' =>
      rcases List.mem_cons.mp h with h | h
      · cases h
      · simpa [wholeLabels] using ih h
    | isolated n' L' =>
      rcases List.mem_cons.mp h with h | h
      · cases h; simp [wholeLabels]
      · simp [wholeLabels, ih h]

theorem linesOk_of (d : Decorated)
    (h : ((codeLines d).all (okCode O) && (wholeLabels d).all (cleanLabel O) && (looseOk O) d) = true) : (LinesOk O) d := by
  simp only [Bool.and_eq_true, List.all_eq_true, looseOk] at h
  obtain ⟨⟨h1, h2⟩, h3, h4⟩ := h
  refine ⟨fun c hc => okCode_of c (h1 c hc), fun L hL => clean_of L (h2 L hL), fun l hl => ⟨?_, ?_⟩⟩
  · intro c hc; subst hc
    have hc := mem_codeLines hl
    have := h3 c hc
    try simp only [Bool.and_eq_true, List.all_eq_true] at this
    exact ⟨this.1, fun x hx => ⟨(noHash_iff _).mp (this.2 x hx), (okCode_of c (h1 c hc)).clean x hx⟩⟩
  · intro n L hL; subst hL
    have hm := mem_wholeLabels hl
    exact ⟨(noHash_iff _).mp (h4 L hm), clean_of L (h2 L hm)⟩

/-! ### Lines of the trimmed rendering are tight -/

theorem renderHints_getLast (hs : List Hint) (hne : hs ≠ []) (hc : ∀ h ∈ hs, (Clean O) h.label) :
    ∀ x, (renderHints hs).getLast? = some x → (isSpacePy O) x = false := by
  induction hs with
  | nil => exact absurd rfl hne
  | cons h t ih =>
    intro x hx
    rw [renderHints_cons] at hx
    by_cases ht : t = []
    · subst ht
      simp only [renderHints, List.flatMap_nil, List.append_nil] at hx
      rw [List.getLast?_append] at hx
      have hne' := renderHint_ne h (hc h (by simp))
      cases hl : (renderHint h).getLast? with
      | none => simp at hl; exact absurd hl hne'
      | some y =>
        rw [hl] at hx; simp at hx; subst hx
        exact renderHint_nosp h (hc h (by simp)) _ (List.mem_of_getLast? hl)
    · have := ih ht (fun y hy => hc y (List.mem_cons_of_mem _ hy))
      rw [← List.append_assoc, List.getLast?_append] at hx
      obtain ⟨R, hR⟩ := renderHints_head t ht
      cases hl : (renderHints t).getLast? with
      | none => rw [hR] at hl; simp at hl
      | some y => rw [hl] at hx; simp at hx; subst hx; exact this _ hl

theorem tight_renderLine (l : Line) (hc : ∀ c, l = .code c → (OkCode O) c) (hi : ∀ n L, l = .isolated n L → (Clean O) L) :
    (TightLine O) (renderLine l) := by
  cases l with
  | code c =>
    have ok := hc c rfl
    refine ⟨renderCode_noNL c ok, fun x hx => ?_⟩
    apply not_isSpacePy_of
    simp only [renderLine] at hx
    by_cases h : c.hints = []
    · rw [renderCode_plain c h] at hx; exact ok.notrail x hx
    · rw [renderCode_hinted c h, hintPart, ← List.append_assoc, ← List.append_assoc, List.getLast?_append] at hx
      obtain ⟨R, hR⟩ := renderHints_head c.hints h
      cases hl : (renderHints c.hints).getLast? with
      | none => rw [hR] at hl; simp at hl
      | some y => rw [hl] at hx; simp at hx; subst hx; exact renderHints_getLast _ h ok.clean _ hl
  | isolated n L =>
    have hL := hi n L rfl
    refine ⟨?_, fun x hx => ?_⟩
    · simp only [renderLine, List.mem_append, not_or]
      refine ⟨by simp [List.mem_replicate], by simp [m14, m13], fun hm => ?_⟩
      have := hL.nosp _ hm
      simp [isSpacePy, isSpaceRe] at this
    · apply not_isSpacePy_of
      simp only [renderLine] at hx
      rw [← List.append_assoc, List.getLast?_append] at hx
      cases hl : L.getLast? with
      | none => simp at hl; exact absurd hl hL.ne
      | some y => rw [hl] at hx; simp at hx; subst hx; exact hL.nosp _ (List.mem_of_getLast? hl)

theorem renderLine_isEmpty (l : Line) (hc : ∀ c, l = .code c → (OkCode O) c) :
    (renderLine l).isEmpty = isBlankLine l := by
  cases l with
  | code c =>
    have ok := hc c rfl
    simp only [renderLine, isBlankLine]
    by_cases h : c.hints = []
    · simp [renderCode_plain c h, h]
    · have hne := ok.hinted h
      cases hcode : c.code with
      | nil => exact absurd hcode hne
      | cons x t => simp [renderCode_hinted c h, hcode]
  | isolated n L => simp [renderLine, isBlankLine, m14, m13]

theorem map_dropWhile_congr {α β : Type} (f : α → β) (p : β → Bool) (q : α → Bool) (l : List α)
    (h : ∀ x ∈ l, p (f x) = q x) : (l.map f).dropWhile p = (l.dropWhile q).map f := by
  induction l with
  | nil => rfl
  | cons x t ih =>
    have hx := h x (by simp)
    simp only [List.map_cons, List.dropWhile_cons, hx]
    split
    · exact ih (fun y hy => h y (List.mem_cons_of_mem _ hy))
    · rfl

theorem coreLines_map (d : Decorated) (hc : ∀ c ∈ codeLines d, (OkCode O) c) :
    coreLines (d.map renderLine) = (core d).map renderLine := by
  have hp : ∀ l ∈ d, (renderLine l).isEmpty = isBlankLine l :=
    fun l hl => renderLine_isEmpty l (fun c e => hc c (mem_codeLines (e ▸ hl)))
  unfold coreLines core
  rw [map_dropWhile_congr renderLine (·.isEmpty) isBlankLine d hp, ← List.map_reverse,
    map_dropWhile_congr renderLine (·.isEmpty) isBlankLine _ (by
      intro l hl
      exact hp l ((List.dropWhile_sublist _).subset (List.mem_reverse.mp hl))),
    List.map_reverse]

/-! ### Hygiene is insensitive to the spelling details -/

theorem okCode_gap0 (c : CodeLine) (ok : (OkCode O) c) :
    ∀ c', gap0 (.code c) = .code c' → (OkCode O) c' := by
  intro c' h
  simp only [gap0, Line.code.injEq] at h
  subst h
  cases hh : c.hints with
  | nil => exact ⟨ok.nonl, ok.nom, ok.notrail, by simp [hh], by simp [hh]⟩
  | cons h1 t =>
    refine ⟨ok.nonl, ok.nom, ok.notrail, fun _ => ok.hinted (by simp [hh]), fun h hm => ?_⟩
    simp only [hh, List.mem_cons] at hm
    rcases hm with rfl | hm
    · exact ok.clean h1 (by simp [hh])
    · exact ok.clean h (by simp [hh, hm])

theorem codeLines_map_gap0 (d : Decorated) :
    ∀ c' ∈ codeLines (d.map gap0), ∃ c ∈ codeLines d, gap0 (.code c) = .code c' := by
  induction d with
  | nil => simp [codeLines]
  | cons l t ih =>
    intro c' hc'
    cases l with
    | code c =>
      simp only [List.map_cons, gap0, codeLines, List.mem_cons] at hc'
      rcases hc' with rfl | hc'
      · exact ⟨c, by simp [codeLines], rfl⟩
      · obtain ⟨c0, h0, h1⟩ := ih c' hc'
        exact ⟨c0, by simp [codeLines, h0], h1⟩
    | isolated n L =>
      simp only [List.map_cons, gap0, codeLines] at hc'
      obtain ⟨c0, h0, h1⟩ := ih c' hc'
      exact ⟨c0, by simpa [codeLines] using h0, h1⟩

theorem wholeLabels_map_gap0 (d : Decorated) : wholeLabels (d.map gap0) = wholeLabels d := by
  induction d with
  | nil => rfl
  | cons l t ih => cases l <;> simp [gap0, wholeLabels, ih]

theorem renderLineS_noNL (l : Line) (ms : MarkerStyle) (hc : ∀ c, l = .code c → (OkCode O) c)
    (hi : ∀ n L, l = .isolated n L → (Clean O) L) : '\n' ∉ renderLineS (l, ms) := by
  have hmk : '\n' ∉ renderMarker ms := by
    simp only [renderMarker, List.mem_cons, List.mem_append, List.mem_map, List.mem_range, not_or]
    refine ⟨by cdec, by simp [List.mem_replicate], ?_, by simp [List.mem_replicate], by cdec⟩
    rintro ⟨k, hk, he⟩
    have : spellAt ms.caps k ≠ '\n' := by
      interval_cases k <;> (simp only [spellAt, pletters]; cases ms.caps _ <;> cdec)
    exact this he
  cases l with
  | code c =>
    have ok := hc c rfl
    simp only [renderLineS]
    split
    · exact ok.nonl
    · simp only [List.mem_append, not_or]
      refine ⟨ok.nonl, by simp [List.mem_replicate], hmk, by simp [List.mem_replicate], fun hm => ?_⟩
      exact renderHints_noNL _ ok.clean ((List.drop_sublist 1 _).subset hm)
  | isolated n L =>
    have hL := hi n L rfl
    simp only [renderLineS, List.mem_append, not_or]
    refine ⟨by simp [List.mem_replicate], hmk, by simp [List.mem_replicate], fun hm => ?_⟩
    have := hL.nosp _ hm
    simp [isSpacePy, isSpaceRe] at this

/-- **Preparation of a decorated text**: normalising the markers and trimming the blank ends of
`decorateS d` gives the trimmed text of the decorated program without its blank end lines. -/
theorem prepare_decorateS (d : List (Line × MarkerStyle)) (hok : (LinesOk O) (d.map Prod.fst))
    (hne : codeLines (trimmed d) ≠ []) :
    (prepare O) (decorateS d) = decorate (trimmed d) := by
  have hcode : ∀ p ∈ d, ∀ c, p.1 = .code c → (OkCode O) c := by
    intro p hp c hc
    exact hok.ok c (mem_codeLines (hc ▸ List.mem_map_of_mem (f := Prod.fst) hp))
  have hiso : ∀ p ∈ d, ∀ n L, p.1 = .isolated n L → (Clean O) L := by
    intro p hp n L hc
    exact hok.whole L (mem_wholeLabels (hc ▸ List.mem_map_of_mem (f := Prod.fst) hp))
  have hdne : d ≠ [] := by
    intro e; subst e; simp [trimmed, core, codeLines] at hne
  have hsplit : splitNL (decorateS d) = d.map renderLineS :=
    splitNL_joinNL _ (by simpa using hdne) (by
      intro l hl
      simp only [List.mem_map] at hl
      obtain ⟨p, hp, rfl⟩ := hl
      obtain ⟨l0, ms⟩ := p
      exact renderLineS_noNL l0 ms (hcode _ hp) (hiso _ hp))
  have hnorm : (d.map renderLineS).map (normLine O) = (d.map fun p => gap0 p.1).map renderLine := by
    rw [List.map_map, List.map_map]
    apply List.map_congr_left
    intro p hp
    obtain ⟨l0, ms⟩ := p
    exact normLine_renderLineS l0 ms (hok.loose l0 (List.mem_map_of_mem (f := Prod.fst) hp))
  have hok0 : ∀ c ∈ codeLines (d.map fun p => gap0 p.1), (OkCode O) c := by
    intro c' hc'
    have : (d.map fun p => gap0 p.1) = (d.map Prod.fst).map gap0 := by simp [List.map_map, Function.comp_def]
    rw [this] at hc'
    obtain ⟨c, hc, hg⟩ := codeLines_map_gap0 _ c' hc'
    exact okCode_gap0 c (hok.ok c hc) c' hg
  have hwl0 : ∀ L ∈ wholeLabels (d.map fun p => gap0 p.1), (Clean O) L := by
    have : (d.map fun p => gap0 p.1) = (d.map Prod.fst).map gap0 := by simp [List.map_map, Function.comp_def]
    rw [this, wholeLabels_map_gap0]; exact hok.whole
  unfold prepare
  rw [hsplit, hnorm, trimEnds_joinNL _ (by
      intro l hl
      obtain ⟨l0, hl0, rfl⟩ := List.mem_map.mp hl
      exact tight_renderLine l0 (fun c e => hok0 c (mem_codeLines (e ▸ hl0)))
        (fun n L e => hwl0 L (mem_wholeLabels (e ▸ hl0))))
    (by
      rw [coreLines_map _ hok0]
      intro e
      have : core (d.map fun p => gap0 p.1) = [] := by simpa using e
      exact hne (by simp [trimmed, this, codeLines])),
    coreLines_map _ hok0]
  rfl

end Paroxy.Hints
