/-
C15 — The flat AST is a faithful, deterministic encoding of the syntax tree.

Property theorems only, on the tree model of `Paroxy/Model/FlatAst.lean` (`Val`; the harness exports
the real `ast` tree into it and compares `flatten_ast` with the model line by line).
Vocabulary: `dumpS` = `flatten_node` with the hash factory as state; `dumpP h` = the same dump for a
given hash function; `entries` = pre-order enumeration of the tree with addresses (child numbers:
fields from 0, list items from 1) and name paths; `flattenAst` = reset, dump, post-process.
-/
import Paroxy.Proofs.FlatPath
import Paroxy.Proofs.FlatHash
import Paroxy.Proofs.FlatEntries
import Paroxy.Proofs.FlatTweaks
import Paroxy.Proofs.FlatAlias
import Paroxy.Proofs.FlatBackport
import Paroxy.Proofs.FlatNeg
import Paroxy.Proofs.FlatEscape
import Paroxy.Proofs.FlatCtx
import Paroxy.Proofs.FlatFuse
import Paroxy.Proofs.FlatInjective
namespace Paroxy.Props.C15
open Paroxy.Flat

/-- What `flatten_ast` computes: the post-processing of the *pure* dump of the tree (after the
on-the-fly reordering / renaming), hashes numbered by first occurrence from a fresh factory. -/
theorem C15_flatten_eq (cfg : Cfg) (s : HashState) (t : Val) :
    (flattenAst cfg s t).1 = postProcess (dumpP (hashFn (prep cfg t)) [] [] (prep cfg t)) := by
  simp [flattenAst, flattenAstG, startState, dumpS_reset]

/-- **C15 (pre-order, exactly once).** The dump of any tree is the concatenation, over the pre-order
enumeration of the tree, of the lines of each entry — and the enumeration contains every node, list
and scalar of the tree exactly once, under its own address and name path:
* an entry is in the enumeration iff its address leads, in the tree, to a value with exactly that
  local content (type / hash source / line number, or list length, or scalar repr) reached through
  exactly those names;
* no address occurs twice;
* addresses increase strictly in lexicographic order (pre-order). -/
theorem C15_preorder_once (h : Str → Str) (v : Val) :
    dumpP h [] [] v = (entries [] [] v).flatMap (Entry.lines h) ∧
    (∀ e : Entry, e ∈ entries [] [] v ↔
      ∃ w, v.at? e.addr = some w ∧ v.namesAt? e.addr = some e.names ∧ e.item = w.item) ∧
    ((entries [] [] v).map (·.addr)).Nodup ∧
    (entries [] [] v).Pairwise (fun a b => a.addr < b.addr) := by
  refine ⟨dumpP_eq_entries h [] [] v, ?_, entries_addr_nodup [] [] v, entries_sorted [] [] v⟩
  intro e
  rw [mem_entries_iff]
  constructor
  · rintro ⟨q, ns, w, hat, rfl⟩
    exact ⟨w, by simpa using ((at_iff v q ns w).mp hat).1, by simpa using ((at_iff v q ns w).mp hat).2, rfl⟩
  · rintro ⟨w, h1, h2, h3⟩
    refine ⟨e.addr, e.names, w, (at_iff v _ _ w).mpr ⟨h1, h2⟩, ?_⟩
    cases e; simp_all

example : (entries [] [] (.node cs!"Expr" false [] (some 1)
    [(cs!"value", .list false [.scalar cs!"1" .num])])).map (·.addr) = [[], [0], [0, 1]] := by decide

/-- **C15 (path code).** The path printed in `_pos` before `[2:]` — child numbers in decimal, each
followed by a hyphen — is a prefix-free code: one encoding is a string prefix of another iff the
first address is a prefix of the second. -/
theorem C15_path_code (p q : List Nat) : encPath p <+: encPath q ↔ p <+: q :=
  encPath_prefix_iff p q

/-- **C15 (path ⇔ nesting).** For two positions of a tree lying under the same root field `k`
(one decimal digit: for a `Module` all positioned nodes are under field 0, `body`), the path shown
in the `_pos` of the first is a string prefix of the path shown in the `_pos` of the second **iff**
the second value is nested in the first, i.e. is reached from it by the remaining child steps. -/
theorem C15_path_nesting (v : Val) (k : Nat) (hk : k < 10) (p1 p2 : List Nat) (n1 n2 : Val)
    (h1 : v.at? (k :: p1) = some n1) (h2 : v.at? (k :: p2) = some n2) :
    posPath (k :: p1) <+: posPath (k :: p2) ↔ ∃ q, p2 = p1 ++ q ∧ n1.at? q = some n2 := by
  rw [posPath_cons hk, posPath_cons hk, encPath_prefix_iff]
  constructor
  · rintro ⟨q, rfl⟩
    refine ⟨q, rfl, ?_⟩
    have := Val.at?_append v (k :: p1) q
    rw [List.cons_append, h2, h1] at this
    simpa using this.symm
  · rintro ⟨q, rfl, _⟩
    exact ⟨q, rfl⟩

example : posPath [0, 3, 1] = cs!"3-1-" ∧ posPath [0, 3, 12, 0] = cs!"3-12-0-" := by decide

/-- Non-vacuity of the hypotheses of `C15_path_nesting`: in `Module(body=[Expr(value=Name)])` the `Expr`
is at `[0, 1]`, the `Name` at `[0, 1, 0]`; the path of the first (`1-`) is a prefix of the path of the
second (`1-0-`). -/
example :
    let t : Val := .node cs!"Module" false [] none
      [(cs!"body", .list false [.node cs!"Expr" false [] (some 1)
        [(cs!"value", .node cs!"Name" true cs!"Name(id='x')" (some 1) [])]])]
    (t.at? [0, 1]).isSome = true ∧ (t.at? [0, 1, 0]).isSome = true ∧
      posPath [0, 1] = cs!"1-" ∧ posPath [0, 1, 0] = cs!"1-0-" := by decide

/-- The root itself (empty path) contains everything, and its shown path is empty. -/
theorem C15_path_root (p : List Nat) : posPath [] <+: posPath p := by simp [posPath, encPath]

/-- **C15 (hash).** Within one flattening, two expression nodes of the tree get the same `_hash`
text iff the context-free reprs the code hashes for them are equal (the counter never reuses a
number, `0x%04x` is injective even beyond four digits). -/
theorem C15_hash (t : Val) (p1 p2 : List Nat) {ty1 ty2 r1 r2 : Str} {ln1 ln2 : Option Nat}
    {fs1 fs2 : List (Str × Val)}
    (h1 : t.at? p1 = some (.node ty1 true r1 ln1 fs1)) (h2 : t.at? p2 = some (.node ty2 true r2 ln2 fs2)) :
    hashFn t r1 = hashFn t r2 ↔ r1 = r2 := by
  obtain ⟨ns1, hn1⟩ : ∃ ns, At t p1 ns (.node ty1 true r1 ln1 fs1) := at_exists h1
  obtain ⟨ns2, hn2⟩ : ∃ ns, At t p2 ns (.node ty2 true r2 ln2 fs2) := at_exists h2
  exact hashFn_eq_iff t (mem_exprReprs_of_at hn1 rfl) (mem_exprReprs_of_at hn2 rfl)

/-- **C15 (hash, structural form — one direction).** In a tree whose expression nodes carry their own
context-free dump as hash source (`reprsAreDumps`: `Type(field=value, …)` without `ctx` and without the
optional fields that are `None` — checked by the driver on every real expression), two expression nodes
that are **the same expression up to load/store context** (`sameUpToCtx`: same types, field names and
terminal values once the `ctx` fields are removed) get the same `_hash`.
The converse — different expressions get different hashes — is `C15_hash_iff` below (it needs the injectivity
of Python's `repr`-based dump text: `C15_dump_injective`, under `wfDump`). -/
theorem C15_hash_structural (t : Val) (hd : reprsAreDumps t = true) (p1 p2 : List Nat)
    {ty1 ty2 r1 r2 : Str} {ln1 ln2 : Option Nat} {fs1 fs2 : List (Str × Val)}
    (h1 : t.at? p1 = some (.node ty1 true r1 ln1 fs1)) (h2 : t.at? p2 = some (.node ty2 true r2 ln2 fs2))
    (hs : sameUpToCtx (.node ty1 true r1 ln1 fs1) (.node ty2 true r2 ln2 fs2) = true) :
    hashFn t r1 = hashFn t r2 := by
  obtain ⟨ns1, hn1⟩ := at_exists h1
  obtain ⟨ns2, hn2⟩ := at_exists h2
  have e1 := reprsAreDumps_of_at hn1 hd
  have e2 := reprsAreDumps_of_at hn2 hd
  simp only [reprsAreDumps, Bool.not_true, Bool.false_or, Bool.and_eq_true, beq_iff_eq] at e1 e2
  rw [e1.1, e2.1, dumpNoCtx_of_sameUpToCtx hs]

/-- Non-vacuity: `a[i]` stored and `a[i]` loaded are the same expression up to context, and the dump of
the first is `Subscript(value=Name(id='a'), slice=Name(id='i'))`. -/
example :
    let sub (c : Str) : Val := .node cs!"Subscript" true [] (some 1)
      [(cs!"value", .node cs!"Name" true [] (some 1) [(cs!"id", .scalar cs!"'a'" .str), (cs!"ctx", .node cs!"Load" false [] none [])]),
       (cs!"slice", .node cs!"Name" true [] (some 1) [(cs!"id", .scalar cs!"'i'" .str), (cs!"ctx", .node cs!"Load" false [] none [])]),
       (cs!"ctx", .node c false [] none [])]
    sameUpToCtx (sub cs!"Store") (sub cs!"Load") = true ∧
      dumpNoCtx (sub cs!"Store") = cs!"Subscript(value=Name(id='a'), slice=Name(id='i'))" := by decide

/-! ### The converse: the dump text is injective, so different expressions get different hashes

`wfDump` (Spec/FlatDump.lean) is what makes the text of `ast.dump` unambiguous: type and field names without
any of the characters of the syntax (`( ) [ ] , =`, space, quotes — identifiers), terminal reprs that are either
a Python string / bytes literal (same quote at both ends, every inner quote of that kind or backslash escaped)
or a non-empty delimiter-free token (`12`, `-1`, `1e+22`, `inf`, `1j`, `None`, `True`, `Ellipsis`). The driver
evaluates it on every real tree (`c15.wf_dump`). `eraseCtx` removes from a tree exactly what `dumpNoCtx`
(= `remove_context("", ast.dump(node))`) does not print — the `ctx` fields and the optional fields that are
`None` — and `sameExpr a b = sameShape (eraseCtx a) (eraseCtx b)`: same types, field names and terminal values
on what remains. -/

/-- **C15 (the dump text is injective).** Two well-formed trees with the same context-free dump text are the same
tree once the unprinted fields are erased: same types, same field names, same terminal reprs, same list lengths
(`sameShape` ignores only what the text never shows: positions, stored hash sources, flags). Direct structural
induction on the two trees with a continuation (prefix-freeness: `Paroxy.Flat.dump_inj`). -/
theorem C15_dump_injective (t1 t2 : Val) (w1 : wfDump t1 = true) (w2 : wfDump t2 = true)
    (h : dumpNoCtx t1 = dumpNoCtx t2) : sameShape (eraseCtx t1) (eraseCtx t2) = true :=
  dumpNoCtx_injective w1 w2 h

/-- … and conversely, for all trees: the dump text is a function of the erased tree. -/
theorem C15_dump_iff (t1 t2 : Val) (w1 : wfDump t1 = true) (w2 : wfDump t2 = true) :
    dumpNoCtx t1 = dumpNoCtx t2 ↔ sameExpr t1 t2 = true :=
  dumpNoCtx_eq_iff w1 w2

/-- **C15 (hash, both directions).** Within one flattening (hash function of the tree from the reset), in a
well-formed tree (`wfDump`) whose expression nodes carry their own context-free dump as hash source
(`reprsAreDumps`), two expression nodes get the same `_hash` **iff** they are the same expression up to
load/store context (`sameExpr`). -/
theorem C15_hash_iff (t : Val) (hw : wfDump t = true) (hd : reprsAreDumps t = true) (p1 p2 : List Nat)
    {ty1 ty2 r1 r2 : Str} {ln1 ln2 : Option Nat} {fs1 fs2 : List (Str × Val)}
    (h1 : t.at? p1 = some (.node ty1 true r1 ln1 fs1)) (h2 : t.at? p2 = some (.node ty2 true r2 ln2 fs2)) :
    hashFn t r1 = hashFn t r2 ↔ sameExpr (.node ty1 true r1 ln1 fs1) (.node ty2 true r2 ln2 fs2) = true := by
  obtain ⟨ns1, hn1⟩ := at_exists h1
  obtain ⟨ns2, hn2⟩ := at_exists h2
  have e1 := reprsAreDumps_of_at hn1 hd
  have e2 := reprsAreDumps_of_at hn2 hd
  simp only [reprsAreDumps, Bool.not_true, Bool.false_or, Bool.and_eq_true, beq_iff_eq] at e1 e2
  rw [C15_hash t p1 p2 h1 h2, ← dumpNoCtx_eq_iff (wfDump_of_at hn1 hw) (wfDump_of_at hn2 hw)]
  constructor
  · intro h; rw [← e1.1, ← e2.1]; exact h
  · intro h; rw [e1.1, e2.1]; exact h

/-- **C15 (hash, converse in the vocabulary of `C15_hash_structural`).** Two expression nodes with the same
`_hash` are the same expression up to context; and `sameUpToCtx` (which compares *all* the non-`ctx` fields,
absent optional ones included) implies `sameExpr`, so that with `C15_hash_structural`:
`sameUpToCtx a b → same hash → sameExpr a b`. The two relations coincide on trees in which nodes of one type
have the same field names (every real tree: the harness compares them on every pair of expressions of every
exported tree, `c15.wf_dump`); on arbitrary `Val` trees `sameExpr` is the coarser one, and it is the exact one
(`C15_sameUpToCtx_too_fine`). -/
theorem C15_hash_converse (t : Val) (hw : wfDump t = true) (hd : reprsAreDumps t = true) (p1 p2 : List Nat)
    {ty1 ty2 r1 r2 : Str} {ln1 ln2 : Option Nat} {fs1 fs2 : List (Str × Val)}
    (h1 : t.at? p1 = some (.node ty1 true r1 ln1 fs1)) (h2 : t.at? p2 = some (.node ty2 true r2 ln2 fs2))
    (hne : sameExpr (.node ty1 true r1 ln1 fs1) (.node ty2 true r2 ln2 fs2) = false) :
    hashFn t r1 ≠ hashFn t r2 := by
  intro h
  rw [(C15_hash_iff t hw hd p1 p2 h1 h2).mp h] at hne
  cases hne

/-- `sameUpToCtx` (the relation of `C15_hash_structural`) is included in `sameExpr` on well-formed trees. -/
theorem C15_sameExpr_of_sameUpToCtx (a b : Val) (wa : wfDump a = true) (wb : wfDump b = true)
    (h : sameUpToCtx a b = true) : sameExpr a b = true :=
  dumpNoCtx_injective wa wb (dumpNoCtx_of_sameUpToCtx h)

/-- On arbitrary `Val` trees `sameUpToCtx` is strictly finer than "same hashed text": a node with an optional
field that is `None` and the same node without that field print the same text (`Foo(b=1)`), hence get the same
hash, and are not `sameUpToCtx`. (No real tree contains such a pair: a class has one list of fields.) This is why
`C15_hash_iff` is stated with `sameExpr`. -/
theorem C15_sameUpToCtx_too_fine :
    ∃ a b : Val, wfDump a = true ∧ wfDump b = true ∧ dumpNoCtx a = dumpNoCtx b ∧ sameExpr a b = true ∧
      sameUpToCtx a b = false :=
  ⟨.node cs!"Foo" true [] none [(cs!"a", .scalar cs!"None" .nameConst), (cs!"b", .scalar cs!"1" .num)],
   .node cs!"Foo" true [] none [(cs!"b", .scalar cs!"1" .num)], by decide⟩

/-- **C15 (hash ⇔ same expression up to load/store context, in the vocabulary of the property).** If moreover the
tree has one list of field names per node type (`conforms sch`, for some schema `sch` — every real tree has: an `ast`
class has one `_fields` tuple; the driver evaluates it with the schema read off the tree itself), then the relation
is `sameUpToCtx`, the one of `C15_hash_structural`: within one flattening two expression nodes get the same `_hash`
**iff** they have the same types, field names and terminal values once the `ctx` fields are removed. -/
theorem C15_hash_iff_sameUpToCtx (t : Val) (sch : List (Str × List Str)) (hw : wfDump t = true)
    (hd : reprsAreDumps t = true) (hs : conforms sch t = true) (p1 p2 : List Nat)
    {ty1 ty2 r1 r2 : Str} {ln1 ln2 : Option Nat} {fs1 fs2 : List (Str × Val)}
    (h1 : t.at? p1 = some (.node ty1 true r1 ln1 fs1)) (h2 : t.at? p2 = some (.node ty2 true r2 ln2 fs2)) :
    hashFn t r1 = hashFn t r2 ↔ sameUpToCtx (.node ty1 true r1 ln1 fs1) (.node ty2 true r2 ln2 fs2) = true := by
  obtain ⟨ns1, hn1⟩ := at_exists h1
  obtain ⟨ns2, hn2⟩ := at_exists h2
  constructor
  · intro h
    exact sameUpToCtx_of_sameExpr (conforms_of_at hn1 hs) (conforms_of_at hn2 hs)
      ((C15_hash_iff t hw hd p1 p2 h1 h2).mp h)
  · exact C15_hash_structural t hd p1 p2 h1 h2

/-- Non-vacuity of `conforms`: a tuple of two slices `x[:2]` (lower absent) and `x[1:]` (upper absent), all three
fields present in each `Slice` node as in a real tree; the schema is the one read off the tree. The two slices are
not `sameUpToCtx`; `Foo(a=None, b=1)` next to `Foo(b=1)` does not conform to any schema. -/
example :
    let mk (ty : Str) (fs : List (Str × Val)) : Val := .node ty true (dumpNoCtx (.node ty true [] none fs)) none fs
    let none : Val := .scalar cs!"None" .nameConst
    let k (r : Str) : Val := mk cs!"Constant" [(cs!"value", .scalar r .num), (cs!"kind", none)]
    let a := mk cs!"Slice" [(cs!"lower", none), (cs!"upper", k cs!"2"), (cs!"step", none)]
    let b := mk cs!"Slice" [(cs!"lower", k cs!"1"), (cs!"upper", none), (cs!"step", none)]
    let t := mk cs!"Tuple" [(cs!"elts", .list false [a, b]), (cs!"ctx", .node cs!"Load" false [] Option.none [])]
    let bad : Val := .list false [.node cs!"Foo" true [] Option.none [(cs!"a", none), (cs!"b", .scalar cs!"1" .num)],
      .node cs!"Foo" true [] Option.none [(cs!"b", .scalar cs!"1" .num)]]
    wfDump t = true ∧ reprsAreDumps t = true ∧ conforms (schemaOf t) t = true ∧
      dumpNoCtx a = cs!"Slice(upper=Constant(value=2))" ∧ dumpNoCtx b = cs!"Slice(lower=Constant(value=1))" ∧
      sameUpToCtx a b = false ∧ sameExpr a b = false ∧ hashFn t (dumpNoCtx a) ≠ hashFn t (dumpNoCtx b) ∧
      conforms (schemaOf bad) bad = false := by decide

/-- Non-vacuity, shared prefix: `f(x)` and `f(x, y)` in one tuple. The tree is well-formed, its hash sources are
its dumps (`Call(func=Name(id='f'), args=[Name(id='x')], keywords=[])` is a proper prefix-sharing sibling of the
other), the two calls are not the same expression and get different hashes; the two `x` get the same. -/
example :
    let mk (ty : Str) (fs : List (Str × Val)) : Val := .node ty true (dumpNoCtx (.node ty true [] none fs)) none fs
    let nm (x c : Str) : Val := mk cs!"Name" [(cs!"id", .scalar x .str), (cs!"ctx", .node c false [] none [])]
    let call (args : List Val) : Val :=
      mk cs!"Call" [(cs!"func", nm cs!"'f'" cs!"Load"), (cs!"args", .list false args), (cs!"keywords", .list false [])]
    let a := call [nm cs!"'x'" cs!"Load"]
    let b := call [nm cs!"'x'" cs!"Load", nm cs!"'y'" cs!"Load"]
    let t := mk cs!"Tuple" [(cs!"elts", .list false [a, b]), (cs!"ctx", .node cs!"Load" false [] none [])]
    wfDump t = true ∧ reprsAreDumps t = true ∧ (t.at? [0, 1]).isSome = true ∧ (t.at? [0, 2]).isSome = true ∧
      dumpNoCtx a = cs!"Call(func=Name(id='f'), args=[Name(id='x')], keywords=[])" ∧
      dumpNoCtx b = cs!"Call(func=Name(id='f'), args=[Name(id='x'), Name(id='y')], keywords=[])" ∧
      sameExpr a b = false ∧ hashFn t (dumpNoCtx a) ≠ hashFn t (dumpNoCtx b) ∧
      sameExpr (nm cs!"'x'" cs!"Load") (nm cs!"'x'" cs!"Store") = true := by decide

/-- Non-vacuity, a string that looks like a dump: the constant `"Name(id='x')"` (Python writes it with double
quotes) and the node `Name(id='x')` in the same field of the same type are told apart — as are the constant
`'a, b'` and two items `a`, `b`; all the trees are well-formed. -/
example :
    let k (v : Val) : Val := .node cs!"Constant" true [] none [(cs!"value", v)]
    let s := k (.scalar cs!"\"Name(id='x')\"" .str)
    let n := k (.node cs!"Name" true [] none [(cs!"id", .scalar cs!"'x'" .str)])
    let l1 : Val := .list false [.scalar cs!"'a, b'" .str]
    let l2 : Val := .list false [.scalar cs!"a" .num, .scalar cs!"b" .num]
    wfDump s = true ∧ wfDump n = true ∧ wfDump l1 = true ∧ wfDump l2 = true ∧
      dumpNoCtx s = cs!"Constant(value=\"Name(id='x')\")" ∧ dumpNoCtx n = cs!"Constant(value=Name(id='x'))" ∧
      sameExpr s n = false ∧ sameExpr l1 l2 = false ∧ dumpNoCtx l1 ≠ dumpNoCtx l2 := by decide

/-- Non-vacuity, the twins of round 9: the set `{e}` and the f-string `f"{e}"` have one unparsed text and are
different expressions — different dumps, different hashes. Also: escaped quotes and backslashes inside literals
(`'it\'s"'`, `'\\'`, `b'\'"'`), tokens (`-1`, `1e+22`, `infj`, `Ellipsis`) are well-formed; an unescaped inner
quote, a dangling backslash, a token with a space or a parenthesis (`(1+2j)`) are not. -/
example :
    let mk (ty : Str) (fs : List (Str × Val)) : Val := .node ty true (dumpNoCtx (.node ty true [] none fs)) none fs
    let e : Val := mk cs!"Name" [(cs!"id", .scalar cs!"'e'" .str), (cs!"ctx", .node cs!"Load" false [] none [])]
    let a := mk cs!"Set" [(cs!"elts", .list false [e])]
    let b := mk cs!"JoinedStr" [(cs!"values", .list false [mk cs!"FormattedValue"
      [(cs!"value", e), (cs!"conversion", .scalar cs!"-1" .num), (cs!"format_spec", .scalar cs!"None" .nameConst)]])]
    let t := mk cs!"Tuple" [(cs!"elts", .list false [a, b]), (cs!"ctx", .node cs!"Load" false [] none [])]
    wfDump t = true ∧ reprsAreDumps t = true ∧ sameExpr a b = false ∧
      dumpNoCtx b = cs!"JoinedStr(values=[FormattedValue(value=Name(id='e'), conversion=-1)])" ∧
      hashFn t (dumpNoCtx a) ≠ hashFn t (dumpNoCtx b) ∧
      wfScalar cs!"'it\\'s\"'" = true ∧ wfScalar cs!"'\\\\'" = true ∧ wfScalar cs!"b'\\'\"'" = true ∧
      wfScalar cs!"-1" = true ∧ wfScalar cs!"1e+22" = true ∧ wfScalar cs!"infj" = true ∧
      wfScalar cs!"Ellipsis" = true ∧
      wfScalar cs!"'it's'" = false ∧ wfScalar cs!"'a\\'" = false ∧ wfScalar cs!"(1+2j)" = false ∧
      wfScalar cs!"a b" = false ∧ wfScalar cs!"" = false := by decide

/-- The numbers are 1, 2, 3, … in order of first occurrence: the first expression gets `0x0001`. -/
example : hashFn (.node cs!"Name" true cs!"Name(id='a')" (some 1) []) cs!"Name(id='a')" = cs!"0x0001" := by
  decide

/-- **C15 (stateless).** Because `flatten_ast` first resets the factory (`startState true`), its result
does not depend on the state left by earlier flattenings. -/
theorem C15_stateless (cfg : Cfg) (s s' : HashState) (t : Val) :
    (flattenAst cfg s t).1 = (flattenAst cfg s' t).1 := by
  simp [flattenAst, flattenAstG, startState]

/-- The reset is what makes it so: without it (`doReset = false`) the dump of the same tree depends on
the incoming state — here a factory that has already numbered one other expression. -/
theorem C15_reset_needed :
    ∃ (s : HashState) (t : Val),
      (dumpS [] [] t (startState false s)).1 ≠ (dumpS [] [] t (startState false HashState.reset)).1 := by
  refine ⟨HashState.reset.touch cs!"Name(id='b')", .node cs!"Name" true cs!"Name(id='a')" (some 1) [], ?_⟩
  decide

/-- **C15 (any sequence).** Flattening any sequence of trees in one process, from any initial
state, gives for each tree the text of a single flattening from a fresh factory. -/
theorem C15_sequence (cfg : Cfg) (s : HashState) (ts : List Val) :
    (flattenSeq cfg s ts).1 = ts.map fun t => (flattenAst cfg HashState.reset t).1 := by
  induction ts generalizing s with
  | nil => rfl
  | cons t ts ih =>
    simp only [flattenSeq, List.map_cons, ih]
    simp [flattenAst, flattenAstG, startState]

/-! ## "With the documented tweaks only": line-level passes are tree-level tweaks

Each of the six passes of `post_process`, applied to the dump of a tree, is the dump of a tree-level
tweak, under *local* clauses (`wfKinds`, `wfAlias`, `wfPosonly`, `wfBackport`, `wfNeg`, `wfUnquote`: per
name / type / scalar line / node shape; Bool-valued). `C15_tweaks_full` composes the six: under
`wfStages6` (each pass's clauses on the tree that pass receives; evaluated by the driver on every real
tree) post-processing the dump is the dump of `stage6 t`, the six tree-level tweaks in pipeline order.
`C15_stage6_eq_tweak`: under `wfTweak` (shape of `Constant` and `UnaryOp` nodes, agreement of the repr prefix
with the real kind of a constant, field names without `/`; one Bool predicate, evaluated on every real
tree) the six staged tweaks are the one-shot specification `tweak` — which renames constants after their
*real* kind and keys `posonlyargs` on the name path. Hence `C15_tweaks_full` / `C15_flatten_tweaked` speak
about `tweak`. -/

/-- **C15 (tweak: unquote), partial.** On the dump of a tree satisfying the local clauses of
`wfUnquote` (no `=` in names; types untouched by the pass; a `str` repr is delimited by quotes, no
other repr both starts and ends with a quote), the line-level pass `unquote` is exactly the dump of the tree in which every
`str` scalar has lost its two delimiters — and nothing else has changed. -/
theorem C15_tweak_unquote_partial (t0 t : Val) (hwf : wfUnquote t = true) :
    unquote (dumpP (hashFn t0) [] [] t) = dumpP (hashFn t0) [] [] (unquoteTree t) :=
  unquote_dumpP (hashFn t0) (hashNoQuote_hashFn t0) t [] [] (by simp) (by simp) hwf

/-- **C15 (tweak: suppress_kinds), partial.** On the dump of a tree satisfying `wfKinds` (no `=` or
`/` in names, no `=` in types, a scalar field `kind` is the last field of its node), the line-level pass `suppress_kinds` is exactly the dump of the tree from which the scalar
fields called `kind` have been removed below the root. -/
theorem C15_tweak_kinds_partial (t0 : Val) (ty : Str) (e : Bool) (r : Str) (ln : Option Nat)
    (fs : List (Str × Val)) (hwf : wfKinds (.node ty e r ln fs) = true) :
    suppressKinds (dumpP (hashFn t0) [] [] (.node ty e r ln fs)) =
      dumpP (hashFn t0) [] [] (dropKinds false (.node ty e r ln fs)) :=
  suppressKinds_dumpP (hashFn t0) (eq_not_mem_hashFn t0) _ [] [] (by simp) (by simp) hwf (by intro r k; simp)

/-- **C15 (tweak: suppress_posonlyargs), partial.** On the dump of a tree satisfying `wfPosonly` (no
`=` in names and types, no scalar line that itself looks like a `posonlyargs` length line), the pass
`suppress_posonlyargs` is exactly the dump of the tree in which every list hanging under
`…/args/posonlyargs` (with a non-empty path before) no longer prints its `_length` — its items, and
everything else, are unchanged. -/
theorem C15_tweak_posonly_partial (t0 t : Val) (hwf : wfPosonly [] t = true) :
    suppressPosonlyargs (dumpP (hashFn t0) [] [] t) = dumpP (hashFn t0) [] [] (quietPosonly [] t) :=
  suppressPosonlyargs_dumpP (hashFn t0) (eq_not_mem_hashFn t0) t [] [] (by simp) (by simp) hwf

/-- **C15 (tweak: suppress_alias_pos), partial.** On the dump of a tree satisfying `wfAlias` (no `=` in
names and types; no scalar line ending with `/_type=alias` or looking like a position line), the pass
`suppress_alias_pos` is exactly the dump of the tree in which every non-expression node of type `alias`
below the root has lost its position — nothing else changes. -/
theorem C15_tweak_alias_partial (t0 t : Val) (hwf : wfAlias [] t = true) :
    suppressAliasPos (dumpP (hashFn t0) [] [] t) = dumpP (hashFn t0) [] [] (dropAliasPos false t) := by
  have := (alias_dumpP (hashFn t0) (eq_not_mem_hashFn t0) t [] [] [] (by simp) (by simp) hwf rfl).1
  simpa [suppressAliasPos] using this

/-- **C15 (the first three passes composed), partial.** `suppress_posonlyargs ∘ suppress_alias_pos ∘
suppress_kinds` on the dump of a tree = the dump of the tree after the three tree-level tweaks, under
the local clauses of each pass on its own input tree. -/
theorem C15_tweak_first_three_partial (t0 : Val) (ty : Str) (e : Bool) (r : Str) (ln : Option Nat)
    (fs : List (Str × Val))
    (h1 : wfKinds (.node ty e r ln fs) = true)
    (h2 : wfAlias [] (dropKinds false (.node ty e r ln fs)) = true)
    (h3 : wfPosonly [] (dropAliasPos false (dropKinds false (.node ty e r ln fs))) = true) :
    suppressPosonlyargs (suppressAliasPos (suppressKinds (dumpP (hashFn t0) [] [] (.node ty e r ln fs)))) =
      dumpP (hashFn t0) [] []
        (quietPosonly [] (dropAliasPos false (dropKinds false (.node ty e r ln fs)))) := by
  rw [C15_tweak_kinds_partial t0 ty e r ln fs h1, C15_tweak_alias_partial t0 _ h2,
    C15_tweak_posonly_partial t0 _ h3]

/-- **C15 (tweak: backport_all_constants), partial.** On the dump of a tree satisfying `wfBackport`
(names without `=` and `/`, pairwise distinct among siblings; a `Constant` node is an expression or has a
line number, its first field is the scalar `value` with a non-empty repr and its other fields are
scalars; no scalar line ends with `/_type=Constant`), the pass — whose pattern looks for the **last**
`…/value=` line of the whole rest of the text — is exactly the dump of the tree in which every `Constant`
is renamed after the text of its value and its `value` field is renamed (`s`, `n`, `value`) or dropped
(`Ellipsis`). -/
theorem C15_tweak_backport_partial (t0 t : Val) (hwf : wfBackport [] t = true) :
    backportAllConstants (dumpP (hashFn t0) [] [] t) = dumpP (hashFn t0) [] [] (backportTree t) := by
  have := bp_dumpP (hashFn t0) (eq_not_mem_hashFn t0) t [] [] [] (by simp) (by simp) hwf
    (by intro l hl; cases hl)
  simpa [backportAllConstants] using this

/-- **C15 (the first four passes composed), partial.** -/
theorem C15_tweak_first_four_partial (t0 : Val) (ty : Str) (e : Bool) (r : Str) (ln : Option Nat)
    (fs : List (Str × Val)) (hwf : wfStages4 (.node ty e r ln fs) = true) :
    backportAllConstants (suppressPosonlyargs (suppressAliasPos (suppressKinds
        (dumpP (hashFn t0) [] [] (.node ty e r ln fs))))) =
      dumpP (hashFn t0) [] [] (stage4 (.node ty e r ln fs)) := by
  simp only [wfStages4, Bool.and_eq_true] at hwf
  obtain ⟨⟨⟨h1, h2⟩, h3⟩, h4⟩ := hwf
  rw [C15_tweak_first_three_partial t0 ty e r ln fs h1 h2 h3]
  exact C15_tweak_backport_partial t0 _ h4

/-- **C15 (tweak: simplify_negative_literals), partial.** On the dump of a tree satisfying `wfNeg` (names
as for `wfBackport`; a `UnaryOp` has the fields `op`, a bare operator node, and `operand`, a node which —
when the operator is `USub` — either is exactly `(n = scalar)` or has no field `n`; no scalar line ends
with `/_type=UnaryOp`), the pass — two nested lazy searches over the rest of the text — is exactly the
dump of the tree in which every `-literal` has become a `Num` whose `n` carries the minus sign. -/
theorem C15_tweak_neg_partial (t0 t : Val) (hwf : wfNeg [] t = true) :
    simplifyNegativeLiterals (dumpP (hashFn t0) [] [] t) = dumpP (hashFn t0) [] [] (foldNeg t) := by
  have := neg_dumpP (hashFn t0) (eq_not_mem_hashFn t0) t [] [] [] (by simp) (by simp) hwf
    (by intro l hl; cases hl)
  simpa [simplifyNegativeLiterals] using this

/-- **C15 (the documented tweaks only).** Under `wfStages6` (the local clauses of the six passes),
post-processing the dump of a tree is the dump of the tree after the six tree-level tweaks:
`kind` fields dropped, alias positions dropped, `posonlyargs` lengths dropped, constants renamed by the
text of their value, `-literal` folded, strings unquoted — and nothing else. -/
theorem C15_tweaks_staged (t0 : Val) (ty : Str) (e : Bool) (r : Str) (ln : Option Nat)
    (fs : List (Str × Val)) (hwf : wfStages6 (.node ty e r ln fs) = true) :
    postProcess (dumpP (hashFn t0) [] [] (.node ty e r ln fs)) =
      dumpP (hashFn t0) [] [] (stage6 (.node ty e r ln fs)) := by
  simp only [wfStages6, Bool.and_eq_true] at hwf
  obtain ⟨⟨h4, h5⟩, h6⟩ := hwf
  unfold postProcess
  rw [C15_tweak_first_four_partial t0 ty e r ln fs h4, C15_tweak_neg_partial t0 _ h5]
  exact C15_tweak_unquote_partial t0 _ h6

/-- **C15 (the real pipeline).** What `flatten_ast` returns for a tree whose on-the-fly form is
well-formed is the plain dump of the six tree-level tweaks of that form, hashes numbered by first
occurrence in the untweaked tree. -/
theorem C15_flatten_staged (cfg : Cfg) (s : HashState) (t : Val) (ty : Str) (e : Bool) (r : Str)
    (ln : Option Nat) (fs : List (Str × Val)) (ht : prep cfg t = .node ty e r ln fs)
    (hwf : wfStages6 (prep cfg t) = true) :
    (flattenAst cfg s t).1 = dumpP (hashFn (prep cfg t)) [] [] (stage6 (prep cfg t)) := by
  rw [C15_flatten_eq, ht] at *
  exact C15_tweaks_staged _ ty e r ln fs hwf

/-- **C15 (staged = one-shot).** Under `wfTweak` the six staged tree-level tweaks are the one-shot
specification `tweak`. -/
theorem C15_stage6_eq_tweak (t : Val) (h : wfTweak t = true) : stage6 t = tweak [] t := stage6_eq_tweak t h

/-- **C15 (the documented tweaks only), on the specification.** Under `wfStages6` and `wfTweak`,
post-processing the dump of a tree is the dump of `tweak [] t`: constants renamed by their real kind, a
minus sign folded into a numeric literal, `kind` fields / `posonlyargs` lengths / alias positions dropped,
strings unquoted — and nothing else. -/
theorem C15_tweaks_full (t0 : Val) (ty : Str) (e : Bool) (r : Str) (ln : Option Nat)
    (fs : List (Str × Val)) (hwf : wfStages6 (.node ty e r ln fs) = true)
    (hwt : wfTweak (.node ty e r ln fs) = true) :
    postProcess (dumpP (hashFn t0) [] [] (.node ty e r ln fs)) =
      dumpP (hashFn t0) [] [] (tweak [] (.node ty e r ln fs)) := by
  rw [C15_tweaks_staged t0 ty e r ln fs hwf, stage6_eq_tweak _ hwt]

/-- **C15 (the real pipeline), on the specification.** -/
theorem C15_flatten_tweaked (cfg : Cfg) (s : HashState) (t : Val) (ty : Str) (e : Bool) (r : Str)
    (ln : Option Nat) (fs : List (Str × Val)) (ht : prep cfg t = .node ty e r ln fs)
    (hwf : wfStages6 (prep cfg t) = true) (hwt : wfTweak (prep cfg t) = true) :
    (flattenAst cfg s t).1 = dumpP (hashFn (prep cfg t)) [] [] (tweak [] (prep cfg t)) := by
  rw [C15_flatten_staged cfg s t ty e r ln fs ht hwf, stage6_eq_tweak _ hwt]

/-- Non-vacuity: `x = u'a'` (exported shape) satisfies the sets of clauses. -/
def sampleConst : Val :=
  .node cs!"Module" false [] none
    [(cs!"body", .list false
      [.node cs!"Expr" false [] (some 1)
        [(cs!"value", .node cs!"Constant" true cs!"Constant(value='a', kind='u')" (some 1)
          [(cs!"value", .scalar cs!"'a'" .str), (cs!"kind", .scalar cs!"'u'" .str)])]])]

example : wfUnquote sampleConst = true ∧ wfKinds sampleConst = true ∧ wfPosonly [] sampleConst = true ∧
    wfAlias [] sampleConst = true ∧ wfStages4 sampleConst = true ∧ wfStages6 sampleConst = true ∧
    wfTweak sampleConst = true := by
  decide

example : dumpP id [] [] (stage4 sampleConst) =
    [cs!"/_type=Module", cs!"/body/_length=1", cs!"/body/1/_type=Expr", cs!"/body/1/_pos=1:1-",
     cs!"/body/1/value/_type=Str", cs!"/body/1/value/_hash=Constant(value='a', kind='u')",
     cs!"/body/1/value/_pos=1:1-0-", cs!"/body/1/value/s='a'"] := by decide
example : suppressKinds (dumpP id [] [] sampleConst) =
    [cs!"/_type=Module", cs!"/body/_length=1", cs!"/body/1/_type=Expr", cs!"/body/1/_pos=1:1-",
     cs!"/body/1/value/_type=Constant", cs!"/body/1/value/_hash=Constant(value='a', kind='u')",
     cs!"/body/1/value/_pos=1:1-0-", cs!"/body/1/value/value='a'"] := by decide

/-- Non-vacuity of `C15_tweaks_full`: the exported tree of `-5` satisfies `wfStages6`, and its six staged
tweaks give a `Num` with `n=-5` at the place of the `UnaryOp`. -/
def sampleNeg : Val :=
  .node cs!"Module" false [] none
    [(cs!"body", .list false
      [.node cs!"Expr" false [] (some 1)
        [(cs!"value", .node cs!"UnaryOp" true cs!"UnaryOp(op=USub(), operand=Constant(value=5))" (some 1)
          [(cs!"op", .node cs!"USub" false [] none []),
           (cs!"operand", .node cs!"Constant" true cs!"Constant(value=5)" (some 1)
             [(cs!"value", .scalar cs!"5" .num), (cs!"kind", .scalar cs!"None" .nameConst)])])]])]

example : wfStages6 sampleNeg = true ∧ wfTweak sampleNeg = true := by decide
example : dumpP id [] [] (stage6 sampleNeg) =
    [cs!"/_type=Module", cs!"/body/_length=1", cs!"/body/1/_type=Expr", cs!"/body/1/_pos=1:1-",
     cs!"/body/1/value/_type=Num", cs!"/body/1/value/_hash=UnaryOp(op=USub(), operand=Constant(value=5))",
     cs!"/body/1/value/_pos=1:1-0-", cs!"/body/1/value/n=-5"] := by decide

/-! ## Escaped terminal values (fix b1d74a8; former findings F17 / F32) -/

/-- The dump that escapes `_pos=` in its scalar case — what `flatten_node` does — is the plain dump of the
tree whose terminal values are escaped (`prep` = on-the-fly tweaks, then `escapeTree`). -/
theorem C15_escape_at_dump (h : Str → Str) (v : Val) (pre path : Str) :
    dumpPE h pre path v = dumpP h pre path (escapeTree v) := dumpPE_eq h v pre path

/-- No `_pos=` survives in an escaped value… -/
theorem C15_escapePos_no_pos (r : Str) : hasInfix cs!"_pos=" (escapePos r) = false := escapePos_no_pos r

/-- … hence the line of an escaped value is never taken for a position line (the clause of `wfAlias`
about scalar lines holds whatever a string constant contains), as long as the *field name* does not end
with `_pos`. -/
theorem C15_escaped_value_not_poslike (pre r : Str) (hpre : '=' ∉ pre) (hsuf : ¬ cs!"_pos" <:+ pre) :
    isPosLike (scalarLine pre (escapePos r)) = false := not_posLike_escaped r hpre hsuf

/-! ## The repaired findings: regression instances (`example`s, not counted as obligations) -/

def asyncDef : Val :=
  .node cs!"AsyncFunctionDef" false [] (some 1)
    [(cs!"name", .scalar cs!"'f'" .str), (cs!"body", .list false []), (cs!"decorator_list", .list false [])]

/-- Former finding 9 (repaired by d0d94f6): the code as written moves the body of every definition
last, `AsyncFunctionDef` included — it is the documented reordering. -/
example :
    implCfg = specCfg ∧
      dumpP id [] [] (onTheFly implCfg asyncDef) =
        [cs!"/_type=AsyncFunctionDef", cs!"/_pos=1:", cs!"/name='f'", cs!"/decorator_list/_length=0",
         cs!"/body/_length=0"] :=
  ⟨rfl, by decide⟩

/-- Former finding 11 (repaired by c370a5d): the repr-prefix test of `replace_one_constant` agrees
with the real kind for bytes literals of both spellings (`b'…'` and `b"…"`). -/
example :
    (constantKindOfRepr cs!"b\"it's\"").1 = kindTypeName .bytes ∧
      (constantKindOfRepr cs!"b'ab'").1 = kindTypeName .bytes := by decide

/-- Former findings 15a/15d (repaired by 83ae3f3): a value containing `/kind=` satisfies the clauses
of `wfKinds` and its line is kept by the pass; only the `kind` attribute line goes. -/
example :
    wfKinds (.scalar cs!"'a/kind=b'" .str) = true ∧
      suppressKinds [cs!"/body/1/value/_type=Constant", cs!"/body/1/value/value='a/kind=b'",
          cs!"/body/1/value/kind=None"] =
        [cs!"/body/1/value/_type=Constant", cs!"/body/1/value/value='a/kind=b'"] := by decide

/-- Former finding 15c (repaired by 0ac09ad): quotes inside a bytes repr are left alone (the clause of
`wfUnquote` holds for it), a `str` loses exactly its two delimiters. -/
example :
    wfUnquote (.scalar cs!"b'=\"'" .bytes) = true ∧
      unquote [cs!"/body/1/value/s=b'=\"'", cs!"/body/1/value/s='a=\"b\"'"] =
        [cs!"/body/1/value/s=b'=\"'", cs!"/body/1/value/s=a=\"b\""] := by decide

end Paroxy.Props.C15
