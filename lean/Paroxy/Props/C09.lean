/-
C09 — Label-to-taxon translation is exactly the taxonomy table.

Property theorems only. They are about the model of `Taxonomy.__init__`, `is_literal`,
`get_taxon_name_list` (memo + in-place extension of the literal lists) and the accumulation loop of
`to_taxa` (`Model/Taxonomy.lean`), for EVERY regex oracle `o` (`o.full (T, P) L` = the expansion of
`T` when `P` matches `L` entirely; `o.looks L` = "`L` looks like a taxon"), every table `rows`
(literal rows, regex rows, several rows per label, duplicated rows — any list), every label and
every history of calls on one instance. The specification is `Spec.Taxo.translate` / `rawCount`.
-/
import Paroxy.Spec.Taxonomy
import Paroxy.Spec.TaxonomyDefault
import Paroxy.Proofs.Taxonomy
import Paroxy.Proofs.ToTaxa
namespace Paroxy.Props.C09
open Paroxy Paroxy.Taxo Paroxy.Spec.Taxo Paroxy.TaxoProofs

/-- **C09 (translation, all histories).** On a fresh instance, every call of every history of
`get_taxon_name_list` calls — repeats and interleavings included — returns the specification's
translation of its label: the memo and the aliasing of `literal_labels[L]` are unobservable. -/
theorem C09_translation (o : Oracle) (rows : List Row) (hist : List Str) :
    run o (init rows) hist = hist.map (translate o rows) :=
  run_ok o rows hist (init rows) (init_ok o rows)

/-- **C09 (same on every call).** In whatever state the instance is (after any calls and any
`to_taxa`), a call returns the specification's translation, which depends on the label only. -/
theorem C09_same_on_every_call (o : Oracle) (rows : List Row) (st : State)
    (h : Reachable o rows st) (L : Str) : (call o st L).2 = translate o rows L :=
  (call_ok o rows st h.ok L).1

/-- **C09 (exactly the table).** A taxon name is in the translation of `L` iff `L` looks like a
taxon and it is `L` itself, or `L` does not and some row of the table applies to `L` with that
result (`rowResult`: literal pattern equal to `L`, or regex pattern matching `L` entirely, expanded).
Nothing else is in the translation. -/
theorem C09_exact (o : Oracle) (rows : List Row) (L x : Str) :
    x ∈ translate o rows L ↔
      (o.looks L = true ∧ x = L) ∨ (o.looks L = false ∧ ∃ r ∈ rows, rowResult o r L = some x) :=
  mem_translate o rows L x

/-- **C09 (a literal pattern matches only itself).** `is_literal` holds exactly of the patterns made
of dots and of characters `regex.escape` leaves alone; the row of such a pattern applies to a label
iff the label IS the pattern (dots are not wildcards), and then yields its taxon unchanged. -/
theorem C09_literal_only_itself (o : Oracle) (r : Row) (L x : Str) :
    (isLiteral r.2 = true ↔ ∀ c ∈ r.2, plainOrDot c = true) ∧
    (isLiteral r.2 = true → (rowResult o r L = some x ↔ r.2 = L ∧ x = r.1)) := by
  refine ⟨isLiteral_iff r.2, ?_⟩
  intro hl
  unfold rowResult
  rw [if_pos hl]
  by_cases hP : r.2 = L
  · rw [if_pos hP]
    simp only [Option.some.injEq, hP, true_and]
    exact eq_comm
  · simp [hP]

/-- **C09 (bag).** Whatever the instance went through before, the bag accumulated by `to_taxa` for
a taxon `t`, before deduplication, counts a span `s` exactly
Σ_{(L, spans) ∈ labels} (multiplicity of `t` in the translation of `L`) × (occurrences of `s` in
`spans`): the multiset union of the spans of the labels translated to `t`. -/
theorem C09_bag {σ : Type} [DecidableEq σ] (o : Oracle) (rows : List Row) (st : State)
    (h : Reachable o rows st) (labels : List (Str × List σ)) (t : Str) (s : σ) :
    accCount (accumulate o st [] labels).2 t s = rawCount o rows labels t s := by
  have := (accumulate_ok o rows labels t s st [] h.ok).1
  simpa [accCount, dget] using this

/-- **C09 (keys).** The accumulator of `to_taxa` has exactly one key per taxon some label translates
to — also when the label's span list is empty (`acc[t]` is then an empty Counter) — and no other. -/
theorem C09_keys {σ : Type} [DecidableEq σ] (o : Oracle) (rows : List Row) (st : State)
    (h : Reachable o rows st) (labels : List (Str × List σ)) :
    ((accumulate o st [] labels).2.map Prod.fst).Nodup ∧
      ∀ t, t ∈ (accumulate o st [] labels).2.map Prod.fst ↔ t ∈ rawKeys o rows labels := by
  refine ⟨(ToTaxa.accOK_accumulate o labels st [] ⟨by simp, by intro e he; cases he⟩).1, fun t => ?_⟩
  have := ToTaxa.keys_accumulate o rows labels t st [] h.ok
  simpa using this

/-- **C09 (reading the table).** A taxonomy text that passes the executable check `tableOk` (every
data line before `-- EOF` has at least two fields, no row twice, at least one row) is read without
error into exactly the rows of its data lines — in sorted-line order — all distinct.
NOT PROVED HERE: that the default table satisfies `tableOk`. That is only *evaluated* by the native
driver on `Gen.TaxonomyCodes` (regenerated from /repo) on every run and reported in the evidence
(`default_table_ok`); in the kernel the computation takes minutes (`List.mergeSort` does not reduce,
`Char` arithmetic is slow), so there is no `decide` of it. -/
theorem C09_table_wf (text : Str) (h : tableOk text = true) :
    ∃ rows, parseTsv text = .ok rows ∧ rows.Perm ((rawLines text).map parseLineD) ∧ rows.Nodup ∧
      rows ≠ [] :=
  parseTsv_of_tableOk text h

example : tableOk "T\tL\nb/x\tfoo\na/y\tbar(.*) comment\n-- EOF\nzz".toList = true := by decide

/-! ### Non-vacuity: the aliasing case. Table: literal row `(t/lit, foo)` and regex row
`(t/\1, (fo+))`; the label `foo` is both a literal key and matched by the regex, so the first call
extends `literal_labels["foo"]` in place. Called three times, interleaved with another label. -/

def exRows : List Row := [("t/lit".toList, "foo".toList), ("t/\\1".toList, "(fo+)".toList)]
def exOracle : Oracle where
  looks := fun L => L == "a/b".toList
  full := fun r L =>
    if r.2 == "(fo+)".toList && (L == "foo".toList || L == "fo".toList) then some ("t/".toList ++ L)
    else none

example : isLiteral "foo".toList = true ∧ isLiteral "(fo+)".toList = false := by decide
example : run exOracle (init exRows) ["foo".toList, "fo".toList, "foo".toList, "a/b".toList, "foo".toList]
    = [["t/lit".toList, "t/foo".toList], ["t/fo".toList], ["t/lit".toList, "t/foo".toList],
       ["a/b".toList], ["t/lit".toList, "t/foo".toList]] := by decide

end Paroxy.Props.C09
