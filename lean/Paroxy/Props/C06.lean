/-
C06 — Pipelines are monotone, order-independent and obey the documented equivalences.

Every theorem is about the model `Filter.runPipeline` / `Filter.updateFilter`, for every database,
every regex oracle and every command list; `SameSets` compares the four filter sets as sets.
-/
import Paroxy.Proofs.FilterOrder
import Paroxy.Proofs.Costs
import Paroxy.Props.C05
namespace Paroxy.Props.C06
open Paroxy Paroxy.Filter

variable (c : Ctx) (r : Relations)

/-- **Monotone.** After every command the selection is a subset of what it was, and the imparted
knowledge and the hidden sets are supersets. -/
theorem C06_monotone (st st' : State) (cmd : Command) (h : runCommand c r st cmd = .ok st') :
    (∀ p, p ∈ st'.selected → p ∈ st.selected) ∧ (∀ t, t ∈ st.knowledge → t ∈ st'.knowledge) ∧
    (∀ t, t ∈ st.hiddenTaxa → t ∈ st'.hiddenTaxa) ∧
    (∀ p, p ∈ st.hiddenPrograms → p ∈ st'.hiddenPrograms) := by
  rw [runCommand_effect] at h
  cases he : commandEffect c r cmd with
  | error e => rw [he] at h; cases h
  | ok eff =>
    rw [he] at h; cases h
    refine ⟨fun p hp => ?_, fun t ht => ?_, fun t ht => ?_, fun p hp => ?_⟩
    · exact (List.mem_filter.mp hp).1
    · exact List.mem_append_left _ ht
    · exact List.mem_append_left _ ht
    · exact List.mem_append_left _ hp

/-- **Order-independent.** Running any permutation of the commands succeeds iff the original order
does, and yields the same selection, knowledge and hidden sets. -/
theorem C06_order_independent (st : State) (cmds cmds' : List Command) (hperm : cmds'.Perm cmds) :
    ((∃ s, runPipeline c r st cmds = .ok s) ↔ ∃ s', runPipeline c r st cmds' = .ok s') ∧
    ∀ s s', runPipeline c r st cmds = .ok s → runPipeline c r st cmds' = .ok s' → SameSets s s' := by
  constructor
  · rw [runPipeline_ok_iff, runPipeline_ok_iff]
    exact ⟨fun h cmd hc => h cmd (hperm.mem_iff.mp hc), fun h cmd hc => h cmd (hperm.mem_iff.mpr hc)⟩
  · intro s s' h h'
    obtain ⟨a1, a2, a3, a4⟩ := runPipeline_spec c r cmds st s h
    obtain ⟨b1, b2, b3, b4⟩ := runPipeline_spec c r cmds' st s' h'
    refine ⟨fun x => ?_, fun x => ?_, fun x => ?_, fun x => ?_⟩
    · rw [a1, b1]
      exact ⟨fun ⟨u, v⟩ => ⟨u, fun cmd hc => v cmd (hperm.mem_iff.mp hc)⟩,
        fun ⟨u, v⟩ => ⟨u, fun cmd hc => v cmd (hperm.mem_iff.mpr hc)⟩⟩
    · rw [a2, b2]
      exact ⟨fun h => h.imp id fun ⟨cmd, hc, w⟩ => ⟨cmd, hperm.mem_iff.mpr hc, w⟩,
        fun h => h.imp id fun ⟨cmd, hc, w⟩ => ⟨cmd, hperm.mem_iff.mp hc, w⟩⟩
    · rw [a3, b3]
      exact ⟨fun h => h.imp id fun ⟨cmd, hc, w⟩ => ⟨cmd, hperm.mem_iff.mpr hc, w⟩,
        fun h => h.imp id fun ⟨cmd, hc, w⟩ => ⟨cmd, hperm.mem_iff.mp hc, w⟩⟩
    · rw [a4, b4]
      exact ⟨fun h => h.imp id fun ⟨cmd, hc, w⟩ => ⟨cmd, hperm.mem_iff.mpr hc, w⟩,
        fun h => h.imp id fun ⟨cmd, hc, w⟩ => ⟨cmd, hperm.mem_iff.mp hc, w⟩⟩

/-- Successive single-criterion commands. -/
def seq (op : Operation) (st : State) (cs : List Criterion) : Except Err State :=
  foldE (fun s crit => updateFilter c r s [crit] op false) st cs

/-- **`include all [c1..cn]` = n successive `include [ci]`.** -/
theorem C06_include_all_split (wf : c.WF) (st s1 s2 : State) (cs : List Criterion) (hne : cs ≠ [])
    (h1 : updateFilter c r st cs .include true = .ok s1) (h2 : seq c r .include st cs = .ok s2) :
    SameSets s1 s2 := by
  obtain ⟨a, a2, a3, a4⟩ := include_all_spec c wf r st s1 cs hne h1
  have key : ∀ (cs : List Criterion) (st s2 : State), seq c r .include st cs = .ok s2 →
      (∀ p, p ∈ s2.selected ↔ p ∈ st.selected ∧ ∀ crit ∈ cs, Meets c r crit p) ∧
      s2.knowledge = st.knowledge ∧ s2.hiddenTaxa = st.hiddenTaxa ∧
      s2.hiddenPrograms = st.hiddenPrograms := by
    intro cs
    induction cs with
    | nil => intro st s2 h; simp only [seq, foldE] at h; cases h; simp
    | cons crit t ih =>
      intro st s2 h
      simp only [seq, foldE] at h
      cases hu : updateFilter c r st [crit] .include false with
      | error e => rw [hu] at h; cases h
      | ok sm =>
        rw [hu] at h
        obtain ⟨b, b2, b3, b4⟩ := include_any_spec c wf r st sm [crit] hu
        obtain ⟨d, d2, d3, d4⟩ := ih sm s2 h
        refine ⟨fun p => ?_, d2.trans b2, d3.trans b3, d4.trans b4⟩
        have b' : p ∈ sm.selected ↔ p ∈ st.selected ∧ Meets c r crit p := by
          rw [b p]; simp only [List.mem_singleton, exists_eq_left]
        rw [d p, b']
        simp only [List.mem_cons, forall_eq_or_imp]
        exact ⟨fun ⟨⟨u, v⟩, w⟩ => ⟨u, v, w⟩, fun ⟨u, v, w⟩ => ⟨⟨u, v⟩, w⟩⟩
  obtain ⟨b, b2, b3, b4⟩ := key cs st s2 h2
  refine ⟨fun x => ?_, fun x => ?_, fun x => ?_, fun x => ?_⟩
  · rw [a, b]
  · rw [a2, b2]
  · rw [a3, b3]
  · rw [a4, b4]

/-- **`exclude [c1..cn]` = n successive `exclude [ci]`.** -/
theorem C06_exclude_split (wf : c.WF) (st s1 s2 : State) (cs : List Criterion)
    (h1 : updateFilter c r st cs .exclude false = .ok s1) (h2 : seq c r .exclude st cs = .ok s2) :
    SameSets s1 s2 := by
  obtain ⟨a, a2, a3, a4⟩ := exclude_any_spec c wf r st s1 cs h1
  have key : ∀ (cs : List Criterion) (st s2 : State), seq c r .exclude st cs = .ok s2 →
      (∀ p, p ∈ s2.selected ↔ p ∈ st.selected ∧
        ¬ ∃ q, (∃ crit ∈ cs, MeetsExcl c r crit q) ∧ (q = p ∨ Imports c p q)) ∧
      s2.knowledge = st.knowledge ∧ s2.hiddenTaxa = st.hiddenTaxa ∧
      s2.hiddenPrograms = st.hiddenPrograms := by
    intro cs
    induction cs with
    | nil => intro st s2 h; simp only [seq, foldE] at h; cases h; simp
    | cons crit t ih =>
      intro st s2 h
      simp only [seq, foldE] at h
      cases hu : updateFilter c r st [crit] .exclude false with
      | error e => rw [hu] at h; cases h
      | ok sm =>
        rw [hu] at h
        obtain ⟨b, b2, b3, b4⟩ := exclude_any_spec c wf r st sm [crit] hu
        obtain ⟨d, d2, d3, d4⟩ := ih sm s2 h
        refine ⟨fun p => ?_, d2.trans b2, d3.trans b3, d4.trans b4⟩
        have b' : p ∈ sm.selected ↔ p ∈ st.selected ∧
            ¬ ∃ q, MeetsExcl c r crit q ∧ (q = p ∨ Imports c p q) := by
          rw [b p]; simp only [List.mem_singleton, exists_eq_left]
        rw [d p, b']
        simp only [List.mem_cons, exists_eq_or_imp]
        constructor
        · rintro ⟨⟨u, v⟩, w⟩
          refine ⟨u, ?_⟩
          rintro ⟨q, hq | hq, ho⟩
          · exact v ⟨q, hq, ho⟩
          · exact w ⟨q, hq, ho⟩
        · rintro ⟨u, v⟩
          exact ⟨⟨u, fun ⟨q, hq, ho⟩ => v ⟨q, Or.inl hq, ho⟩⟩, fun ⟨q, hq, ho⟩ => v ⟨q, Or.inr hq, ho⟩⟩
  obtain ⟨b, b2, b3, b4⟩ := key cs st s2 h2
  refine ⟨fun x => ?_, fun x => ?_, fun x => ?_, fun x => ?_⟩
  · rw [a, b]
  · rw [a2, b2]
  · rw [a3, b3]
  · rw [a4, b4]

/-- **`hide` never changes the selection or the knowledge** (hence no cost, see C07). -/
theorem C06_hide_neutral (st st' : State) (pats : List Codes) (qa : Bool)
    (h : updateFilter c r st (pats.map .pattern) .hide qa = .ok st') :
    st'.selected = st.selected ∧ st'.knowledge = st.knowledge :=
  let ⟨a, b, _⟩ := hide_spec c r st st' pats qa h; ⟨a, b⟩

/-- The hypotheses of the `meta/program` equivalences, made precise: no imports; every program
features exactly one occurrence of a taxon matched by the `meta/program` pattern `pm`, and that
occurrence is in relation `pred` (= contains) with every occurrence of the program; the pattern
`X` matches nothing that `pm` matches; the selection only holds programs. -/
structure MetaHyp (pm X : Codes) (pred : Span → Span → Bool) (st : State) : Prop where
  noImports : ∀ p q, ¬ Imports c p q
  metaOcc : ∀ p, IsProgram c p → ∃ tm s, c.orc.matchTaxon pm tm = true ∧ Occ c p tm 0 s ∧
    (∀ t j s', c.orc.matchTaxon pm t = true → Occ c p t j s' → t = tm ∧ j = 0) ∧
    (∀ t j s', Occ c p t j s' → pred s s' = true)
  disjoint : ∀ t, c.orc.matchTaxon X t = true → c.orc.matchTaxon pm t = false
  selPrograms : ∀ p, p ∈ st.selected → IsProgram c p

theorem negTriple_iff_not_featuring (pm X : Codes) (pred : Span → Span → Bool) (st : State)
    (H : MetaHyp c pm X pred st) (p : Codes) (hp : IsProgram c p) :
    MeetsNegTriple c pm pred X p ↔ ¬ ∃ t, c.orc.matchTaxon X t = true ∧ Features c p t := by
  obtain ⟨tm, s, hm, ho, huniq, hall⟩ := H.metaOcc p hp
  constructor
  · rintro ⟨t1, i, s1, hm1, ho1, hnone⟩ ⟨t, hX, j, s', hoX⟩
    obtain ⟨rfl, rfl⟩ := huniq t1 i s1 hm1 ho1
    have hs : s1 = s := by
      obtain ⟨rec, spans, hr, hs1, hi1⟩ := ho1
      obtain ⟨rec', spans', hr', hs2, hi2⟩ := ho
      rw [hr] at hr'; cases hr'; rw [hs1] at hs2; cases hs2; rw [hi1] at hi2; exact Option.some.inj hi2
    subst hs
    have hne : ¬(t1 = t ∧ 0 = j) := by
      rintro ⟨rfl, _⟩
      rw [H.disjoint t1 hX] at hm; cases hm
    have := hnone t j s' hX hoX hne
    rw [hall t j s' hoX] at this; cases this
  · intro hno
    exact ⟨tm, 0, s, hm, ho, fun t2 j s2 hX ho2 _ => absurd ⟨t2, hX, j, s2, ho2⟩ hno⟩

namespace Example

def M : Codes := [109]   -- "m" stands for meta/program
def X : Codes := [120]
def P : Codes := [112]

def exCtx : Ctx := {
  orc := { matchTaxon := fun p t => p == t, matchProg := fun p t => p == t }
  programs := [(P, [(M, [((1, 3) : Span)]), (X, [(2, 2)])])]
  taxa := [(M, [P]), (X, [P])]
  exportations := [(P, [])] }

def contains (s s' : Span) : Bool := decide (s.1 ≤ s'.1 ∧ s'.2 ≤ s.2)

theorem occ_cases (t : Codes) (j : Nat) (s' : Span) (ho : Occ exCtx P t j s') :
    (t = M ∧ j = 0 ∧ s' = (1, 3)) ∨ (t = X ∧ j = 0 ∧ s' = (2, 2)) := by
  obtain ⟨rec, spans, h1, h2, h3⟩ := ho
  have hr : rec = [(M, [((1, 3) : Span)]), (X, [(2, 2)])] := by
    have : dictGet? exCtx.programs P = some [(M, [((1, 3) : Span)]), (X, [(2, 2)])] := rfl
    rw [this] at h1; exact (Option.some.inj h1).symm
  subst hr
  by_cases hM : M = t
  · subst hM
    have : spans = [((1, 3) : Span)] := by
      have : dictGet? [(M, [((1, 3) : Span)]), (X, [(2, 2)])] M = some [(1, 3)] := rfl
      rw [this] at h2; exact (Option.some.inj h2).symm
    subst this
    left
    cases j with
    | zero => simp at h3; exact ⟨rfl, rfl, h3.symm⟩
    | succ j => simp at h3
  · by_cases hX : X = t
    · subst hX
      have : spans = [((2, 2) : Span)] := by
        have : dictGet? [(M, [((1, 3) : Span)]), (X, [(2, 2)])] X = some [(2, 2)] := rfl
        rw [this] at h2; exact (Option.some.inj h2).symm
      subst this
      right
      cases j with
      | zero => simp at h3; exact ⟨rfl, rfl, h3.symm⟩
      | succ j => simp at h3
    · simp [dictGet?, hM, hX] at h2

/-- Non-vacuity of `MetaHyp` (hence of the two equivalences below): one program `p` with `m` (standing
for `meta/program`) on lines 1-3 and `x` on line 2, literal oracle, the relation `contains`. -/
theorem metaHyp_example : MetaHyp exCtx M X contains (initState exCtx.programs) where
  noImports := by
    intro p q h
    unfold Imports at h
    by_cases hq : P = q
    · subst hq; simp [exCtx, dictGet?, P] at h
    · simp [exCtx, dictGet?, hq] at h
  metaOcc := by
    intro p hp
    have hp' : p = P := by simpa [IsProgram, exCtx] using hp
    subst hp'
    refine ⟨M, (1, 3), by decide, ⟨_, _, rfl, rfl, rfl⟩, ?_, ?_⟩
    · intro t j s' hm ho
      have ht : M = t := beq_iff_eq.mp hm
      subst ht
      rcases occ_cases _ j s' ho with ⟨_, hj, _⟩ | ⟨hx, _, _⟩
      · exact ⟨rfl, hj⟩
      · exact absurd hx (by decide)
    · intro t j s' ho
      rcases occ_cases t j s' ho with ⟨_, _, hs⟩ | ⟨_, _, hs⟩ <;> subst hs <;> decide
  disjoint := by
    intro t h
    have ht : X = t := beq_iff_eq.mp h
    subst ht
    decide
  selPrograms := by
    intro p hp
    exact hp

end Example

open Paroxy.Spec Paroxy.Spec.NP Paroxy.NP in
/-- The relation of the documented equivalences: `not contains` denotes, NEGATED, the key `x≤y≤y≤x`
(C16 for the spelling, C08 for the meaning), i.e. `pred` of `MetaHyp` is "the span of `meta/program`
contains the other span". -/
theorem C06_not_contains :
    ∃ pred, C05.genRelations.predicate (codesOf "not contains") = .ok (pred, true) ∧
      ∀ s s' : Span, pred s s' = true ↔ (⟨.x, .y, .y, .x, .le, .le, .le⟩ : Key).Holds s s' := by
  have h : (codesOf "contains", (⟨.x, .y, .y, .x, .le, .le, .le⟩ : Key)) ∈ aliases := by decide +kernel
  have hd : ((codesOf "not ", codesOf "", true) : Str × Str × Bool) ∈ decorations := by decide +kernel
  have := C05.C05_named_relation (codesOf "contains") _ h _ hd []
  have e : codesOf "not " ++ renderName (codesOf "contains") [] ++ codesOf "" = codesOf "not contains" := by
    decide +kernel
  simp only [e] at this
  exact this

open Paroxy.Spec in
example : (⟨.x, .y, .y, .x, .le, .le, .le⟩ : Key).Holds (1, 5) (2, 3) ∧
    ¬ (⟨.x, .y, .y, .x, .le, .le, .le⟩ : Key).Holds (2, 3) (1, 5) := by decide

/-- **`include [X]` = `exclude [(meta/program, not contains, X)]`**, under `MetaHyp`. -/
theorem C06_include_iff_exclude_not (wf : c.WF) (pm X raw : Codes) (pred : Span → Span → Bool)
    (st s1 s2 : State) (hX : endsWithPy X = false) (hp : r.predicate raw = .ok (pred, true))
    (H : MetaHyp c pm X pred st)
    (h1 : updateFilter c r st [.pattern X] .include false = .ok s1)
    (h2 : updateFilter c r st [.triple pm raw X] .exclude false = .ok s2) : SameSets s1 s2 := by
  obtain ⟨a, a2, a3, a4⟩ := include_any_spec c wf r st s1 _ h1
  obtain ⟨b, b2, b3, b4⟩ := exclude_any_spec c wf r st s2 _ h2
  refine ⟨fun p => ?_, fun x => by rw [a2, b2], fun x => by rw [a3, b3], fun x => by rw [a4, b4]⟩
  rw [a, b]
  simp only [List.mem_singleton, exists_eq_left, Meets, MeetsExcl, hX, hp, Bool.false_eq_true, if_false]
  constructor
  · rintro ⟨hs, hf⟩
    refine ⟨hs, ?_⟩
    rintro ⟨q, hq, rfl | hi⟩
    · exact (negTriple_iff_not_featuring c pm X pred st H q (H.selPrograms q hs)).mp hq hf
    · exact H.noImports _ _ hi
  · rintro ⟨hs, hn⟩
    refine ⟨hs, ?_⟩
    by_cases hf : ∃ t, c.orc.matchTaxon X t = true ∧ Features c p t
    · exact hf
    · exact absurd ⟨p, (negTriple_iff_not_featuring c pm X pred st H p (H.selPrograms p hs)).mpr hf,
        Or.inl rfl⟩ hn

/-- **`exclude [X]` = `include [(meta/program, not contains, X)]`**, under `MetaHyp`. -/
theorem C06_exclude_iff_include_not (wf : c.WF) (pm X raw : Codes) (pred : Span → Span → Bool)
    (st s1 s2 : State) (hX : endsWithPy X = false) (hp : r.predicate raw = .ok (pred, true))
    (H : MetaHyp c pm X pred st)
    (h1 : updateFilter c r st [.pattern X] .exclude false = .ok s1)
    (h2 : updateFilter c r st [.triple pm raw X] .include false = .ok s2) : SameSets s1 s2 := by
  obtain ⟨a, a2, a3, a4⟩ := exclude_any_spec c wf r st s1 _ h1
  obtain ⟨b, b2, b3, b4⟩ := include_any_spec c wf r st s2 _ h2
  refine ⟨fun p => ?_, fun x => by rw [a2, b2], fun x => by rw [a3, b3], fun x => by rw [a4, b4]⟩
  rw [a, b]
  simp only [List.mem_singleton, exists_eq_left, Meets, MeetsExcl, hX, hp, Bool.false_eq_true, if_false]
  constructor
  · rintro ⟨hs, hn⟩
    refine ⟨hs, (negTriple_iff_not_featuring c pm X pred st H p (H.selPrograms p hs)).mpr ?_⟩
    intro hf
    exact hn ⟨p, Or.inl hf, Or.inl rfl⟩
  · rintro ⟨hs, hq⟩
    refine ⟨hs, ?_⟩
    rintro ⟨q, hf | ⟨q', _, hi⟩, ho⟩
    · rcases ho with rfl | hi
      · exact (negTriple_iff_not_featuring c pm X pred st H q (H.selPrograms q hs)).mp hq hf
      · exact H.noImports _ _ hi
    · exact H.noImports _ _ hi

/-- **Order-independent, as lists.** When the initial selection has no duplicate (it is the key list of
the database), any permutation of the commands yields the very same selection *list* — not only the
same set — so that anything computed from it in order (the ranking, the report) is the same. -/
theorem C06_selection_order_independent (st s s' : State) (cmds cmds' : List Command)
    (hperm : cmds'.Perm cmds) (hn : st.selected.Nodup)
    (h : runPipeline c r st cmds = .ok s) (h' : runPipeline c r st cmds' = .ok s') :
    s.selected = s'.selected :=
  sublist_ext hn (runPipeline_sublist c r cmds st s h) (runPipeline_sublist c r cmds' st s' h')
    ((C06_order_independent c r st cmds cmds' hperm).2 s s' h h').1

/-- **Costs are order-independent.** After any permutation of the commands, every taxon and every
program record has the same learning cost, and the assessment of the final selection (the ranked
`(cost, path)` list of C07) is the same list. -/
theorem C06_costs_order_independent (strat : Costs.Strategy) (progs : List (Codes × TaxaSpans))
    (st s s' : State) (cmds cmds' : List Command)
    (hperm : cmds'.Perm cmds) (hn : st.selected.Nodup)
    (h : runPipeline c r st cmds = .ok s) (h' : runPipeline c r st cmds' = .ok s') :
    (∀ t, Costs.taxonCost strat s.knowledge t = Costs.taxonCost strat s'.knowledge t) ∧
    (∀ rec, Costs.programCost strat s.knowledge rec = Costs.programCost strat s'.knowledge rec) ∧
    Costs.assess strat progs s.knowledge s.selected = Costs.assess strat progs s'.knowledge s'.selected := by
  have hk := ((C06_order_independent c r st cmds cmds' hperm).2 s s' h h').2.1
  have ht : ∀ t, Costs.taxonCost strat s.knowledge t = Costs.taxonCost strat s'.knowledge t :=
    fun t => Costs.taxonCost_congr strat _ _ hk t
  have hf : (fun (acc : Rat) (ts : Codes × List Span) => acc + Costs.taxonCost strat s.knowledge ts.1) =
      (fun acc ts => acc + Costs.taxonCost strat s'.knowledge ts.1) := by
    funext acc ts; rw [ht]
  have hp : ∀ rec, Costs.programCost strat s.knowledge rec = Costs.programCost strat s'.knowledge rec := by
    intro rec; unfold Costs.programCost; rw [hf]
  refine ⟨ht, hp, ?_⟩
  rw [C06_selection_order_independent c r st s s' cmds cmds' hperm hn h h']
  unfold Costs.assess
  have : (fun p => (dictGet? progs p).map fun rec => (Costs.programCost strat s.knowledge rec, p)) =
      (fun p => (dictGet? progs p).map fun rec => (Costs.programCost strat s'.knowledge rec, p)) := by
    funext p; simp only [hp]
  rw [this]

end Paroxy.Props.C06
