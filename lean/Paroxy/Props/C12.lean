/-
C12 — Manual hints add and delete exactly what they say.

Property theorems only (helper lemmas: Proofs/HintsChars, HintsSched, HintsRound, HintsMalformed,
GlueCount). The model (Model/Hints.lean, Model/ParseGlue.lean) mirrors /repo as it is now and is
tied to it by the correspondence harness harness/c12.py.

Reading (DESIGN §5/C12): a *decorated program* (`Decorated`) is a list of code lines, each with
its trailing hint tokens in any tolerated spelling (`+` optional, `…` for `...`, several spaces,
several hints per line, any number of spaces — or none — between the code and the hint comment),
and of hints alone on a line anywhere between them; `decorate` writes it down. What the hints *say* is, label by label, the proper nesting `Bal` of their marks (a closing
mark closes the latest still-open opening of that label, whatever its sign), a hint alone on a
line being an addition opened on the first line and closed on the last one.
-/
import Paroxy.Proofs.HintsCore2
import Paroxy.Proofs.HintsSame
import Paroxy.Proofs.HintsMalformed
import Paroxy.Proofs.GlueCount
import Paroxy.Proofs.HintsNoMarker
/-
Character classes. The classes `\w` and white space are fixed on ASCII and on `…`; for every other
character they are the oracle parameter `O : CharOracle`, universally quantified in every theorem
below (treatment R1): labels such as `été`, `λ`, `变量`, separators such as NBSP or U+2028 are covered,
whatever the real engines answer for them. The concrete `example`s use `asciiOracle` or say which
oracle they use.

Limit (outside the property): `ProgramParser.__call__` consumes `program.deletion` IN PLACE
(`list.remove`); parsing the same `Program` object a second time finds the deletions already
consumed and deletes nothing. The model returns the schedule left over (`(parse …).2`); the
theorems are about one call on a fresh `get_program` result.
-/
namespace Paroxy.Props.C12
open Paroxy Paroxy.Hints Paroxy.Glue

variable {O : CharOracle}

/-! ## Round trip: decorate → `get_program` -/

/-- Hygiene of the lines, whatever the spelling of the markers: code lines are single lines without
trailing white space and without any look-alike of the marker (`(?i)#\s*paroxython\s*:`), not blank
when they carry hints; labels start with a word character, contain neither white space nor `#`,
do not end with an ellipsis. -/
def linesOk (O : CharOracle) (d : Decorated) : Bool :=
  (codeLines d).all (okCode O) && (wholeLabels d).all (cleanLabel O) && (looseOk O) d

/-- **C12 (round trip).** For every decorated program `d` — code lines with trailing hints in any
tolerated spelling (`+` optional, `…`, several spaces, several hints per line, the hint comment
separated from the code by any number of spaces or **glued to it**, `pad = 0`, F45), hints alone on
a line anywhere, **each marker spelled freely** (`#`, spaces, `paroxython` in any case, spaces, `:`,
spaces or none), **blank lines anywhere**, in particular at both ends of the text and between a
hint alone on a line and the code — whose lines are hygienic (`linesOk`), which has a code line
that is not blank, and whose marks are, label by label, properly nested (`Bal`, LIFO):
`get_program (decorateS d)` succeeds; the stored source is the program without its hints and
without its blank end lines (`base (normalised d)`, stripped by `str.strip()`, i.e. minus the
indentation of its first line if any); the scheduled additions / deletions are, as multisets per
label, exactly the spans the nesting names, numbered on the lines of that stored source.

The only hypothesis left beyond hygiene and proper nesting is `noTie`: no label opened for addition
and deletion on the same line — on such a tie the code closes the addition first whatever the order
of the two openings on the line, which is the LIFO reading of `-L... L...` but not of `L... -L...`
(`C12_roundtrip_needs_noTie`). -/
theorem C12_roundtrip (d : List (Line × MarkerStyle)) (r : Str → List SSpan)
    (hlines : (linesOk O) (d.map Prod.fst) = true)
    (hcode : (codeLines (normalised d)).isEmpty = false)
    (hbal : ∀ L, Bal (events (normalised d) L) (r L))
    (hnotie : ∀ L, noTie (events (normalised d) L) = true) :
    ∃ p, (getProgram O) (decorateS d) = .ok p ∧ p.source = (stripPy O) (joinNL (base (normalised d))) ∧
      (∀ L s e, p.addition.count L (s, e) = (r L).count (false, s, e)) ∧
      (∀ L s e, p.deletion.count L (s, e) = (r L).count (true, s, e)) := by
  have hok := linesOk_of _ hlines
  obtain ⟨okt, hwt⟩ := trimmed_ok d hok
  have hne2 : codeLines (core2 (trimmed d)) ≠ [] := by simpa [normalised] using hcode
  have hne1 : codeLines (trimmed d) ≠ [] := by
    intro e
    apply hne2
    have hsub := core2_sublist (trimmed d)
    cases hc : codeLines (core2 (trimmed d)) with
    | nil => rfl
    | cons c t =>
      have : c ∈ codeLines (trimmed d) :=
        (mem_codeLines_iff _ c).mpr (hsub.subset ((mem_codeLines_iff _ c).mp (by rw [hc]; simp)))
      rw [e] at this; cases this
  have hprep := prepare_decorateS d hok hne1
  have hy : (Hyg O) (normalised d) := hyg_core2 (trimmed d) okt hwt hne2
  obtain ⟨p, h1, h2, h3, h4⟩ :=
    getProgram_decorate (normalised d) r hy hbal (fun L => noTie_of _ (hnotie L))
  refine ⟨p, ?_, h2, fun L s e => h3 L (s, e), fun L s e => h4 L (s, e)⟩
  rw [getProgram, hprep]
  unfold getProgramFrom at h1 ⊢
  rw [centrifugate_core2 (trimmed d) okt hwt hne2]
  exact h1

/-- **C12 (marker spelling).** `# paroxython:` is neither space- nor case-sensitive: whatever the
spelling of each marker, `get_program` answers as for the normalised spelling. -/
theorem C12_marker_tolerance (d : List (Line × MarkerStyle))
    (hlines : (linesOk O) (d.map Prod.fst) = true) (hne : (codeLines (trimmed d)).isEmpty = false) :
    (getProgram O) (decorateS d) = (getProgram O) (decorateS (d.map fun p => (p.1, {}))) := by
  have hne' : codeLines (trimmed d) ≠ [] := by simpa using hne
  have e : trimmed (d.map fun p => (p.1, ({} : MarkerStyle))) = trimmed d := by
    simp [trimmed, List.map_map, Function.comp_def]
  have h1 := prepare_decorateS d (linesOk_of _ hlines) hne'
  have h2 := prepare_decorateS (d.map fun p => (p.1, ({} : MarkerStyle)))
    (by simpa [List.map_map, Function.comp_def] using linesOk_of _ hlines) (by rw [e]; exact hne')
  rw [getProgram, getProgram, h1, h2, e]

/-- **C12 (stored source).** The stored source of a decorated program is the stored source of the
same program written without any hint (and `get_program` schedules nothing for the latter): "the
stored source text [is that] of the program without the hint". No nesting hypothesis is needed. -/
theorem C12_source_same (d : List (Line × MarkerStyle))
    (hlines : (linesOk O) (d.map Prod.fst) = true)
    (hcode : (codeLines (normalised d)).isEmpty = false)
    (p : Program) (hp : (getProgram O) (decorateS d) = .ok p) :
    (getProgram O) (joinNL (base (normalised d))) = .ok ⟨p.source, [], []⟩ := by
  have hok := linesOk_of _ hlines
  obtain ⟨okt, hwt⟩ := trimmed_ok d hok
  have hne2 : codeLines (core2 (trimmed d)) ≠ [] := by simpa [normalised] using hcode
  have hsub2 := core2_sublist (trimmed d)
  have hne1 : codeLines (trimmed d) ≠ [] := by
    intro e
    apply hne2
    cases hc : codeLines (core2 (trimmed d)) with
    | nil => rfl
    | cons c t =>
      have : c ∈ codeLines (trimmed d) :=
        (mem_codeLines_iff _ c).mpr (hsub2.subset ((mem_codeLines_iff _ c).mp (by rw [hc]; simp)))
      rw [e] at this; cases this
  have hy : (Hyg O) (normalised d) := hyg_core2 (trimmed d) okt hwt hne2
  -- the stored source of the decorated text
  have hprep := prepare_decorateS d hok hne1
  have hp' : (getProgramFrom O) (decorate (normalised d)) = .ok p := by
    rw [getProgram, hprep] at hp
    unfold getProgramFrom at hp ⊢
    rw [centrifugate_core2 (trimmed d) okt hwt hne2] at hp
    exact hp
  have hsrc := source_of_decorate (normalised d) hy p hp'
  -- no look-alike of the marker in the code lines that are left
  have hloose : ∀ c ∈ codeLines (normalised d), (noLoose O) c.code = true := by
    intro c hc
    have h1 : Line.code c ∈ trimmed d := hsub2.subset ((mem_codeLines_iff _ c).mp hc)
    have h2 : Line.code c ∈ (d.map fun q => gap0 q.1) := (core_sublist _).subset h1
    obtain ⟨q, hq, hg⟩ := List.mem_map.mp h2
    cases hl : q.1 with
    | isolated n L => rw [hl] at hg; simp [gap0] at hg
    | code c0 =>
      rw [hl] at hg
      simp only [gap0, Line.code.injEq] at hg
      have := (hok.loose q.1 (List.mem_map_of_mem (f := Prod.fst) hq)).code c0 hl
      rw [← hg]; exact this.1
  rw [getProgram_undecorated (normalised d) hy hloose, hsrc]

/-- The executable reading of `Bal` used by the driver (`c12.spec_*`) is sound: the spans it
returns are spans of a proper nesting. -/
theorem C12_balSpans_sound (w : List Ev) (r : List SSpan) (h : balSpans w = some r) : Bal w r := by
  have key : ∀ fuel w r rest, parseBal fuel w = some (r, rest) → ∃ u, w = u ++ rest ∧ Bal u r := by
    intro fuel
    induction fuel with
    | zero => intro w r rest h; simp [parseBal] at h
    | succ n ih =>
      intro w r rest h
      cases w with
      | nil => simp [parseBal] at h; obtain ⟨rfl, rfl⟩ := h; exact ⟨[], rfl, .nil⟩
      | cons e w' =>
        cases e with
        | one s i =>
          simp only [parseBal] at h
          split at h
          · rename_i r' rest' h'
            simp only [Option.some.injEq, Prod.mk.injEq] at h
            obtain ⟨rfl, rfl⟩ := h
            obtain ⟨u, hu, hb⟩ := ih _ _ _ h'
            exact ⟨.one s i :: u, by simp [hu], .one hb⟩
          · cases h
        | opn s i =>
          simp only [parseBal] at h
          split at h
          · rename_i ru j v h1
            split at h
            · rename_i rw rest' h2
              simp only [Option.some.injEq, Prod.mk.injEq] at h
              obtain ⟨rfl, rfl⟩ := h
              obtain ⟨u1, hu1, hb1⟩ := ih _ _ _ h1
              obtain ⟨u2, hu2, hb2⟩ := ih _ _ _ h2
              exact ⟨.opn s i :: (u1 ++ .cls j :: u2), by simp [hu1, hu2], .pair hb1 hb2⟩
            · cases h
          · cases h
        | cls j =>
          simp only [parseBal, Option.some.injEq, Prod.mk.injEq] at h
          obtain ⟨rfl, rfl⟩ := h
          exact ⟨[], rfl, .nil⟩
  unfold balSpans at h
  split at h
  · rename_i r' h'
    simp only [Option.some.injEq] at h; subst h
    obtain ⟨u, hu, hb⟩ := key _ _ _ _ h'
    simp only [List.append_nil] at hu
    subst hu; exact hb
  · cases h

/-- The manual's example (docs/md/preparing.md, "Multiple lines"), with a single-line deletion and
addition, `…`, an extra space, a hint alone on a line, two free spellings of the marker, a
blank line at each end of the text, and the first hint comment glued to its code (`pad := 0`, the
shape of the repaired finding F45) added. -/
def manualExample : List (Line × MarkerStyle) :=
  [ (.code { code := [] }, {}),
    (.code { code := "for am in ifera:".toList, pad := 0,
             hints := [⟨.opn true, "loop:for".toList, { gap := 1 }⟩,
                       ⟨.opn false, "amoeboid_protist".toList, { plus := true }⟩] },
      { sp1 := 2, caps := fun k => k == 0, sp2 := 1, after := 0 }),
    (.isolated 4 "meta/topic/fun".toList, { sp1 := 0 }),
    (.code { code := "    catch(a + b)".toList, pad := 2,
             hints := [⟨.one true, "addition_operator".toList, {}⟩,
                       ⟨.one false, "concatenation_operator".toList, { plus := true }⟩] }, {}),
    (.code { code := "    eat()".toList,
             hints := [⟨.cls, "loop:for".toList, {}⟩, ⟨.cls, "amoeboid_protist".toList, { uni := true }⟩] }, {}),
    (.code { code := [] }, {}) ]

/-- Non-vacuity of `C12_roundtrip`: the example is hygienic, and its marks are properly nested
(shown for the four labels it mentions; for every other label there is no mark at all). -/
example : (linesOk asciiOracle) (manualExample.map Prod.fst) = true := by decide
example : (codeLines (normalised manualExample)).isEmpty = false := by decide
example : balSpans (events (normalised manualExample) "loop:for".toList) = some [(true, 1, 3)] := by decide
example : balSpans (events (normalised manualExample) "amoeboid_protist".toList) = some [(false, 1, 3)] := by decide
example : balSpans (events (normalised manualExample) "meta/topic/fun".toList) = some [(false, 1, 3)] := by decide
example : balSpans (events (normalised manualExample) "addition_operator".toList) = some [(true, 2, 2)] := by decide
example : noTie (events (normalised manualExample) "loop:for".toList) = true := by decide
/- `decorateS manualExample` is the text
```
⏎
for am in ifera:#  Paroxython :-loop:for... +amoeboid_protist...
    #paroxython: meta/topic/fun
    catch(a + b)  # paroxython: -addition_operator +concatenation_operator
    eat() # paroxython: ...loop:for …amoeboid_protist
⏎
``` -/
example : (getProgram asciiOracle) (decorateS manualExample) = .ok
    ⟨"for am in ifera:\n    catch(a + b)\n    eat()".toList,
     [("concatenation_operator".toList, [(2, 2)]), ("amoeboid_protist".toList, [(1, 3)]),
      ("meta/topic/fun".toList, [(1, 3)])],
     [("addition_operator".toList, [(2, 2)]), ("loop:for".toList, [(1, 3)])]⟩ := by rfl

/-- **C12 (stored source, all texts).** Whatever the text: the source `get_program` stores shows no
hint marker `# paroxython:` any more — every hint comment is removed, with or without a space after
the colon, empty or not, glued to the code or not (repaired finding F46: an empty hint comment at the
end of the last line used to survive, the final trimming having eaten the space the regex of
`remove_hints` required). -/
theorem C12_source_no_marker (src : Str) (p : Program) (h : (getProgram O) src = .ok p) :
    hasInfix m13 p.source = false :=
  source_noMarker src p h

/-- The inputs of the repaired findings F45 (a hint comment glued to the code and a hint alone on a
line: used to be a `ValueError` "Malformed hint '#'") and F46 (an empty hint comment at the end of the
last line: used to stay in the stored source). -/
example : (getProgram asciiOracle) "x = 1#paroxython:a\n# paroxython: b\ny = 2\n".toList =
    .ok ⟨"x = 1\ny = 2".toList, [("a".toList, [(1, 1)]), ("b".toList, [(1, 2)])], []⟩ := by rfl
example : (getProgram asciiOracle) "x = 1\ny = 2 # paroxython:\n".toList =
    .ok ⟨"x = 1\ny = 2".toList, [], []⟩ := by rfl
example : (getProgram asciiOracle) "x = 1 #paroxython:\n#  Paroxython :   \ny = 2#paroxython:".toList =
    .ok ⟨"x = 1\ny = 2".toList, [], []⟩ := by rfl

/-- **C12 (shape of a schedule).** Whatever the text, a schedule returned by `get_program` is a
dictionary: label names are distinct, and each label's list of spans is sorted. Together with the
counts of `C12_roundtrip` this determines `Program.addition` / `Program.deletion` completely. -/
theorem C12_schedule_shape (src : Str) (p : Program) (h : (getProgram O) src = .ok p) :
    (p.addition.map (·.1)).Nodup ∧ (p.deletion.map (·.1)).Nodup ∧
      (∀ e ∈ p.addition, e.2.Pairwise (fun a b => spanLe a b = true)) ∧
      (∀ e ∈ p.deletion, e.2.Pairwise (fun a b => spanLe a b = true)) := by
  have hshape : ∀ res : List Entry, ((getResult res).map (·.1)).Nodup ∧
      ∀ e ∈ getResult res, e.2.Pairwise (fun a b => spanLe a b = true) := by
    intro res
    refine ⟨by simpa [getResult, Function.comp_def] using nodup_labelsOf res, fun e he => ?_⟩
    simp only [getResult, List.mem_map] at he
    obtain ⟨L, _, rfl⟩ := he
    apply isort_pairwise
    · intro a b c hab hbc
      simp only [spanLe, Bool.or_eq_true, decide_eq_true_eq, Bool.and_eq_true, beq_iff_eq] at hab hbc ⊢
      omega
    · intro a b
      simp only [spanLe, Bool.or_eq_true, decide_eq_true_eq, Bool.and_eq_true, beq_iff_eq]
      omega
  unfold getProgram getProgramFrom at h
  split at h
  · cases h
  · rename_i c hc
    split at h
    · cases h
    · rename_i a d hcol
      cases h
      unfold collectHints collectToks at hcol
      split at hcol
      · rename_i st hst
        unfold finish at hcol
        split at hcol
        · cases hcol
        · split at hcol
          · cases hcol
          · cases hcol
            exact ⟨(hshape _).1, (hshape _).1, (hshape _).2, (hshape _).2⟩
      · cases hcol

/-- `noTie` cannot be dropped: here is the round-trip statement (normalised spellings) without it … -/
def C12_roundtrip_without_noTie : Prop :=
  ∀ (d : Decorated) (r : Str → List SSpan),
    ((linesOk asciiOracle) d && (hygienic asciiOracle) d) = true → (∀ L, Bal (events d L) (r L)) →
    ∃ p, (getProgram asciiOracle) (decorate d) = .ok p ∧
      (∀ L s e, p.addition.count L (s, e) = (r L).count (false, s, e)) ∧
      (∀ L s e, p.deletion.count L (s, e) = (r L).count (true, s, e))

def foo : Str := ['f', 'o', 'o']

def tieProgram : Decorated :=
  [ .code { code := ['x'], hints := [⟨.opn false, foo, {}⟩, ⟨.opn true, foo, {}⟩] },
    .code { code := ['y'], hints := [⟨.cls, foo, {}⟩] },
    .code { code := ['z'], hints := [⟨.cls, foo, {}⟩] } ]

/-- … and it is false: `x # paroxython: foo... -foo...`, `y # paroxython: ...foo`,
`z # paroxython: ...foo`. Proper nesting (LIFO) closes the deletion on line 2 and the addition on
line 3; the code, on the tie of line 1, closes the addition first (addition 1–2, deletion 1–3). -/
theorem C12_roundtrip_needs_noTie : ¬ C12_roundtrip_without_noTie := by
  intro h
  let r : Str → List SSpan := fun L => if L = foo then [(true, 1, 2), (false, 1, 3)] else []
  have hev : ∀ L, events tieProgram L =
      if L = foo then [Ev.opn false 1, Ev.opn true 1, Ev.cls 2, Ev.cls 3] else [] := by
    intro L
    by_cases hL : L = foo
    · subst hL; decide
    · have h1 : ¬ foo = L := fun e => hL e.symm
      simp [events, tieProgram, codeLines, wholeLabels, eventsFrom, hintEvs, hL, h1]
  obtain ⟨p, hp, hadd, _⟩ := h tieProgram r (by decide)
    (by
      intro L; rw [hev L]
      by_cases hL : L = foo
      · simp only [hL, if_true, r]
        exact .pair (u := [Ev.opn true 1, Ev.cls 2]) (w := []) (.pair (u := []) (w := []) .nil .nil) .nil
      · simp only [hL, if_false, r]; exact .nil)
  have hreal : (getProgram asciiOracle) (decorate tieProgram) =
      .ok ⟨['x', '\n', 'y', '\n', 'z'], [(foo, [(1, 2)])], [(foo, [(1, 3)])]⟩ := by rfl
  rw [hreal] at hp
  cases hp
  have := hadd foo 1 2
  revert this
  decide

/-! ## Malformed hint comments -/

/-- **C12 (malformed ⇒ `ValueError`).** Whatever the text: if, among the hint tokens of the text
`collect_hints` reads (markers normalised, blank ends trimmed, isolated hints centrifugated), one is
rejected by the token regex (or has the illegal form `...L...`), or for some label a closing mark
has no opening mark still open before it, or an opening mark is never closed, then `get_program`
raises `ValueError` — it never returns a schedule, and raises nothing else. -/
theorem C12_malformed (src c : Str) (hc : (centrifugate O) ((prepare O) src) = .ok c) (hm : (Malformed O) ((hintToks O) c)) :
    (getProgram O) src = .error .valueError := by
  unfold getProgram getProgramFrom
  simp only [hc]
  cases hcol : (collectHints O) c with
  | ok r => exact absurd hm (collectToks_ok_not_malformed _ r hcol)
  | error e => rw [collectToks_error_value _ e hcol]

/-- The only other exception of `get_program` is the `IndexError` of a text made only of hints
alone on their line (no line is left to carry them): every error is one of the two. -/
theorem C12_error_classes (src : Str) (e : Err) (h : (getProgram O) src = .error e) :
    e = .valueError ∨ (e = .indexError ∧ (centrifugate O) ((prepare O) src) = .error .indexError) := by
  unfold getProgram getProgramFrom at h
  cases hc : (centrifugate O) ((prepare O) src) with
  | error e' =>
    simp only [hc] at h; cases h
    cases e
    · exact Or.inl rfl
    · exact Or.inr ⟨rfl, rfl⟩
  | ok c =>
    simp only [hc] at h
    cases hcol : (collectHints O) c with
    | ok r => obtain ⟨a, d⟩ := r; simp [hcol] at h
    | error e' =>
      simp only [hcol] at h; cases h
      exact Or.inl (collectToks_error_value _ e hcol)

/-- The executable form the driver evaluates (`c12.spec_malformed`) is sound for the hypothesis
above, so a `true` answer of the driver is an instance of the theorem. -/
theorem C12_spec_malformed_sound (toks : List (Nat × Str)) (h : (malformedB O) toks = true) : (Malformed O) toks :=
  malformed_of_B toks h

/-- Non-vacuity: an unmatched closing mark, a rejected token, a label opened for addition and
deletion on one line and closed once (the `TypeError` of the unrepaired tree). -/
example : (malformedB asciiOracle) ((hintToks asciiOracle) "x = 1 # paroxython: ...foo".toList) = true := by decide
example : (malformedB asciiOracle) ((hintToks asciiOracle) "x = 1 # paroxython: +-foo".toList) = true := by decide
example : (getProgram asciiOracle) "x = 1\n# paroxython: -foo".toList = .error .valueError := by rfl
example : (getProgram asciiOracle) "a # paroxython: foo... -foo...\nb # paroxython: ...foo".toList = .error .valueError := by rfl
example : (getProgram asciiOracle) "# paroxython: foo".toList = .error .indexError := by rfl

/-- Beyond ASCII the answer depends on the oracle, as it does on the engine: with an oracle for which
`é` is a word character `été` is scheduled, with one for which it is not the token is rejected;
NBSP separates two tokens exactly when the oracle calls it white space. -/
example : (getProgram ⟨fun c => c == 'é', fun _ => false⟩) "x = 1 # paroxython: été".toList =
    .ok ⟨"x = 1".toList, [("été".toList, [(1, 1)])], []⟩ := by rfl
example : (getProgram asciiOracle) "x = 1 # paroxython: été".toList = .error .valueError := by rfl
example : (getProgram ⟨fun _ => false, fun c => c == '\u00a0'⟩) "x = 1 # paroxython: a\u00a0b".toList =
    .ok ⟨"x = 1".toList, [("a".toList, [(1, 1)]), ("b".toList, [(1, 1)])], []⟩ := by rfl

/-! ## Scheduled deletions and additions in the parser -/

/-- **C12 (deletion exact), regex stage.** For every list of computed occurrences (whatever the
`regex` engine answered), every schedule of deletions (a dictionary: distinct names) and of
additions: in the labels of the regex stage, the number of occurrences of name `n` with range `x`
is the number computed, minus one per scheduled deletion of exactly (`n`, `x`) as far as there are
such occurrences, plus the scheduled additions of (`n`, `x`); and the deletions left for the
SQL stages are those that found no occurrence. -/
theorem C12_deletion_exact (del add : Sched) (hnd : (keys del).Nodup) (computed : List Occ)
    (n : Str) (x : Nat × Nat) :
    Labels.count (regexStage del add computed).1 n x =
        (occCount computed n x - Sched.count del n x) + Sched.count add n x ∧
      Sched.count (regexStage del add computed).2 n x = Sched.count del n x - occCount computed n x := by
  obtain ⟨_, h⟩ := stage_count computed del hnd
  obtain ⟨a, b⟩ := h n x
  simp only [regexStage]
  rw [mergeAdditions_count, group_count, a, b]
  exact ⟨rfl, rfl⟩

/-- **C12 (deletion exact), each SQL stage**, on what SQLite derived at that stage and on the
deletions left by the previous stages; names are kept distinct for the next stage. -/
theorem C12_sql_stage_exact (del : Sched) (hnd : (keys del).Nodup) (derived : List Occ)
    (n : Str) (x : Nat × Nat) :
    Labels.count (sqlStage del derived).1 n x = occCount derived n x - Sched.count del n x ∧
      Sched.count (sqlStage del derived).2 n x = Sched.count del n x - occCount derived n x ∧
      (keys (sqlStage del derived).2).Nodup := by
  obtain ⟨hk, h⟩ := stage_count derived del hnd
  obtain ⟨a, b⟩ := h n x
  simp only [sqlStage]
  rw [group_count, a, b]
  exact ⟨rfl, rfl, by rw [hk]; exact hnd⟩

/-- **C12 (deletion exact), all the stages together.** Over the regex stage and every SQL stage
(whatever SQLite derived at each of them): the labels returned hold, for every name and range, the
occurrences computed at all the stages, minus one per scheduled deletion of exactly that name and
range as far as there are occurrences — whichever stage they show up at —, plus the scheduled
additions; what is left of the schedule is what found no occurrence at any stage. -/
theorem C12_all_stages_exact (del add : Sched) (hnd : (keys del).Nodup) (computed : List Occ)
    (derived : List (List Occ)) (n : Str) (x : Nat × Nat) :
    Labels.count (parse del add computed derived).1 n x =
        ((occCount computed n x + derivedCount derived n x) - Sched.count del n x) + Sched.count add n x ∧
      Sched.count (parse del add computed derived).2 n x =
        Sched.count del n x - (occCount computed n x + derivedCount derived n x) := by
  obtain ⟨hk, h⟩ := stage_count computed del hnd
  have hnd' : (keys (regexStage del add computed).2).Nodup := by simp only [regexStage]; rw [hk]; exact hnd
  obtain ⟨_, hf⟩ := stages_fold_count derived (regexStage del add computed).1 (regexStage del add computed).2 hnd'
  obtain ⟨a, b⟩ := hf n x
  obtain ⟨c1, c2⟩ := C12_deletion_exact del add hnd computed n x
  simp only [parse]
  rw [a, b, c1, c2]
  omega

/-- **C12 (other labels untouched).** A name no deletion hint mentions keeps every computed
occurrence, paths included, in the computed order; and the loop never invents an occurrence. -/
theorem C12_deletion_untouched (del : Sched) (hnd : (keys del).Nodup) (occs : List Occ) (name : Str)
    (h : name ∉ keys del) :
    (stage del occs).1.filter (fun o => o.1 == name) = occs.filter (fun o => o.1 == name) ∧
      ((stage del occs).1).Sublist occs :=
  ⟨stage_untouched name occs del hnd h, stage_sublist occs del⟩

/-- Non-vacuity: `-L` on a line where `L` was computed twice removes exactly one of the two. -/
example :
    (regexStage [("L".toList, [(2, 2)])] [("M".toList, [(2, 2)])]
      [("L".toList, (2, 2, "1-".toList)), ("L".toList, (2, 2, "1-2-".toList)), ("L".toList, (3, 3, "2-".toList))]).1
    = [("L".toList, [(2, 2, "1-2-".toList), (3, 3, "2-".toList)]), ("M".toList, [(2, 2, [])])] := by decide

end Paroxy.Props.C12
