import Paroxy.Spec.MakeDb
namespace Paroxy.Props.C11
theorem tmp_placeholder : True := trivial
end Paroxy.Props.C11
