/-
C11 — The tag database is a faithful, self-consistent record of the collection.

Property theorems only, about the model `Paroxy.DB.makeDb` (Model/MakeDb.lean) of
`TagDatabase.__init__` + the data of `get_json` + the rows of `write_sqlite`, for ALL collections:
any number of programs, any labels and spans, any taxonomy (`toTaxa` is an arbitrary function), any
import graph (cycles, self-imports, dangling targets).

`Imports progs p q` : an `import_internally:…` label of `p` (after the relabelling loop of
`labelled_programs`) names the path `q`.

The JSON TEXT of `get_json` (`json.dumps(data, indent=2)` + the span-compaction `regex.sub`) is modelled in
Model/JsonText.lean; section "B1" at the end of this file: the compaction never touches a string literal, deletes
white space only and preserves the parsed value of every text; the text lexes to the tokens of the data.

`C11_json_roundtrip`: it parses back to the data.

Not proved here, only exercised by the harness: `sqlite3`, and the agreement of the models with the Python
(correspondence; for the text layer BYTE FOR BYTE against the real `get_json`).
-/
import Paroxy.Proofs.MakeDbResolved
import Paroxy.Spec.Filter
import Paroxy.Proofs.Imported
import Paroxy.Proofs.JsonText
import Paroxy.Proofs.JsonDb
namespace Paroxy.Props.C11
open Paroxy Paroxy.DB

variable {toTaxa : Name → List Label → List Taxon} {progs : List Prog} {db : Db}

/-- **C11 (importations).** `importations` has exactly the program paths as keys, and
`importations[p]` is THE sorted, duplicate-free list of `{q | p imports⁺ q}` (transitive closure
`Relation.TransGen` of the direct-importation relation) — for every import graph, cycles and
self-imports included. -/
theorem C11_importations (h : makeDb toTaxa progs = .ok db) :
    keys db.importations = pathsOf progs ∧
    ∀ p ∈ pathsOf progs, ∃ l, get? db.importations p = some l ∧ StrictSorted l ∧
      (∀ q, q ∈ l ↔ Relation.TransGen (Imports progs) p q) ∧
      (∀ l', StrictSorted l' → (∀ q, q ∈ l' ↔ Relation.TransGen (Imports progs) p q) → l' = l) := by
  obtain ⟨himp, -, -, -, -⟩ := makeDb_ok h
  rw [himp]
  refine ⟨by rw [keys_completeImportations, keys_directD], ?_⟩
  intro p hp
  have hk : p ∈ keys (directD progs) := by rw [keys_directD]; exact hp
  obtain ⟨v, hv⟩ := get?_isSome.mpr hk
  have hmem : ∀ q, q ∈ sortU (closureOf (directD progs) p) ↔ Relation.TransGen (Imports progs) p q := by
    intro q
    rw [mem_sortU, mem_closureOf, reach_iff_transGen]
    rfl
  refine ⟨sortU (closureOf (directD progs) p), ?_, strictSorted_sortU _, hmem, ?_⟩
  · rw [get?_completeImportations, hv]; rfl
  · intro l' hs hl'
    exact strictSorted_ext hs (strictSorted_sortU _) (fun q => by rw [hl', hmem])

/-- **C11 (no dangling importation).** Everything listed in `importations` is a collected program. -/
theorem C11_importations_internal (h : makeDb toTaxa progs = .ok db) :
    ∀ p q, InAt db.importations p q → q ∈ pathsOf progs := by
  obtain ⟨himp, hexp, -, -, -⟩ := makeDb_ok h
  obtain ⟨-, hin, -, -⟩ := exportations_spec hexp
  rintro p q ⟨l, hl, hq⟩
  rw [himp] at hl
  exact hin (p, l) (get?_mem hl) q hq

/-- **C11 (exportations).** `exportations` has the program paths as keys, is the exact inverse of
`importations`, and every list is sorted without duplicates. -/
theorem C11_exportations (h : makeDb toTaxa progs = .ok db) (hn : (pathsOf progs).Nodup) :
    keys db.exportations = pathsOf progs ∧
    (∀ p q, InAt db.exportations p q ↔ InAt db.importations q p) ∧
    (∀ e ∈ db.exportations, StrictSorted e.2) := by
  obtain ⟨himp, hexp, -, -, -⟩ := makeDb_ok h
  obtain ⟨hk, -, hmem, hs⟩ := exportations_spec hexp
  refine ⟨hk, ?_, hs⟩
  intro p q
  rw [hmem, himp]
  have hnk : (keys (completeImportations (directD progs))).Nodup := by
    rw [keys_completeImportations, keys_directD]; exact hn
  constructor
  · rintro ⟨e, he, hq, hp⟩
    exact ⟨e.2, by rw [← hq]; exact get?_of_mem_nodup hnk he, hp⟩
  · rintro ⟨l, hl, hp⟩
    exact ⟨(q, l), get?_mem hl, rfl, hp⟩

/-- **C11 (program records).** One record per program, in collection order; timestamp and source
are stored verbatim; the stored labels (taxa) are those computed — the relabelled labels of the
program (the taxonomy's answer on them). A label name is stored once, with the sorted list of the
distinct spans of ALL the entries the parser returned under that name (`spansNamed`: a hinted label may
bear the name of a label an SQL query also derives — fix F47), projected on (start, end). -/
theorem C11_records (h : makeDb toTaxa progs = .ok db) (hn : (pathsOf progs).Nodup) :
    db.programs = progs.map (fun p => (p.path, recordOf toTaxa (internalOf progs) p)) ∧
    ∀ p ∈ progs, ∃ r, get? db.programs p.path = some r ∧
      r.timestamp = p.timestamp ∧ r.source = p.source ∧
      (∀ e ∈ r.labels, e.1 ∈ (labelsOf (internalOf progs) p).map (·.name) ∧
        e.2 = preparedSpans (spansNamed (labelsOf (internalOf progs) p) e.1)) ∧
      (∀ k, k ∈ keys r.labels ↔ k ∈ (labelsOf (internalOf progs) p).map (·.name)) ∧
      (∀ e ∈ r.taxa, ∃ t ∈ toTaxa p.path (labelsOf (internalOf progs) p),
        t.name = e.1 ∧ e.2 = preparedSpans t.spans) ∧
      (∀ k, k ∈ keys r.taxa ↔ k ∈ (toTaxa p.path (labelsOf (internalOf progs) p)).map (·.name)) := by
  obtain ⟨-, -, -, -, hprog⟩ := makeDb_ok h
  rw [programs_eq progs hn] at hprog
  refine ⟨hprog, ?_⟩
  intro p hp
  refine ⟨recordOf toTaxa (internalOf progs) p, ?_, rfl, rfl, ?_, ?_, ?_, ?_⟩
  · rw [hprog]
    apply get?_of_mem_nodup
    · simpa [keys, pathsOf, List.map_map, Function.comp_def] using hn
    · exact List.mem_map.mpr ⟨p, hp, rfl⟩
  · exact (preparedLabels_props _).1
  · exact (preparedLabels_props _).2.1
  · exact (preparedTaxa_props _).1
  · exact (preparedTaxa_props _).2.1

/-- **C11 (record lookup).** Every label the parser returned is found under its name, with exactly the
sorted distinct spans of all the entries of that name — no hypothesis on the names (full strength since
fix F47). For taxa (distinct names by construction of `to_taxa`) each taxon is found under its name
with its own sorted spans. -/
theorem C11_record_lookup (h : makeDb toTaxa progs = .ok db) (hn : (pathsOf progs).Nodup)
    {p : Prog} (hp : p ∈ progs) :
    ∃ r, get? db.programs p.path = some r ∧
      (∀ l ∈ labelsOf (internalOf progs) p,
        get? r.labels l.name = some (preparedSpans (spansNamed (labelsOf (internalOf progs) p) l.name))) ∧
      (((toTaxa p.path (labelsOf (internalOf progs) p)).map (·.name)).Nodup →
        ∀ t ∈ toTaxa p.path (labelsOf (internalOf progs) p),
          get? r.taxa t.name = some (preparedSpans t.spans)) := by
  obtain ⟨hprog, -⟩ := C11_records h hn
  refine ⟨recordOf toTaxa (internalOf progs) p, ?_, ?_, ?_⟩
  · rw [hprog]
    apply get?_of_mem_nodup
    · simpa [keys, pathsOf, List.map_map, Function.comp_def] using hn
    · exact List.mem_map.mpr ⟨p, hp, rfl⟩
  · intro l hl; exact get?_preparedLabels _ hl
  · intro hnn t ht; exact get?_preparedTaxa hnn ht

/-- **C11 (no occurrence is lost).** Every span of every entry of the parser's result — computed or
added by a hint — appears (as its (start, end)) in the list stored under the entry's name, and nothing
else does. -/
theorem C11_labels_complete (h : makeDb toTaxa progs = .ok db) (hn : (pathsOf progs).Nodup)
    {p : Prog} (hp : p ∈ progs) :
    ∃ r, get? db.programs p.path = some r ∧
      ∀ k s, (∃ sp, get? r.labels k = some sp ∧ s ∈ sp) ↔
        ∃ l ∈ labelsOf (internalOf progs) p, l.name = k ∧ ∃ t ∈ l.spans, Span3.poor t = s := by
  obtain ⟨r, hr, hlab, -⟩ := C11_record_lookup h hn hp
  obtain ⟨hprog, -⟩ := C11_records h hn
  have hreq : r = recordOf toTaxa (internalOf progs) p := by
    have : get? db.programs p.path = some (recordOf toTaxa (internalOf progs) p) := by
      rw [hprog]
      apply get?_of_mem_nodup
      · simpa [keys, pathsOf, List.map_map, Function.comp_def] using hn
      · exact List.mem_map.mpr ⟨p, hp, rfl⟩
    rw [this] at hr; exact (Option.some.inj hr).symm
  refine ⟨r, hr, ?_⟩
  intro k s
  constructor
  · rintro ⟨sp, hsp, hs⟩
    have hk : k ∈ keys r.labels := get?_isSome.mp ⟨sp, hsp⟩
    rw [hreq] at hk
    have hk' := ((preparedLabels_props _).2.1 k).mp hk
    obtain ⟨l0, hl0, hname⟩ := List.mem_map.mp hk'
    have := hlab l0 hl0
    rw [hname, hsp] at this
    simp only [Option.some.injEq] at this
    rw [this, mem_preparedSpans] at hs
    obtain ⟨t, ht, hts⟩ := hs
    simp only [spansNamed, List.mem_flatMap, List.mem_filter, decide_eq_true_eq] at ht
    obtain ⟨l, ⟨hl, hlk⟩, htl⟩ := ht
    exact ⟨l, hl, hlk, t, htl, hts⟩
  · rintro ⟨l, hl, hlk, t, htl, hts⟩
    refine ⟨_, by rw [← hlk]; exact hlab l hl, ?_⟩
    rw [mem_preparedSpans]
    refine ⟨t, ?_, hts⟩
    simp only [spansNamed, List.mem_flatMap, List.mem_filter, decide_eq_true_eq]
    exact ⟨l, ⟨hl, by rw [hlk]⟩, htl⟩

/-- **C11 (sorted spans).** Every span list stored in a program record is sorted (non-decreasing for
Python's order on pairs) and consists of the (start, end) of computed spans. -/
theorem C11_spans_sorted (h : makeDb toTaxa progs = .ok db) (hn : (pathsOf progs).Nodup) :
    ∀ e ∈ db.programs, (∀ l ∈ e.2.labels, Sorted l.2) ∧ (∀ t ∈ e.2.taxa, Sorted t.2) := by
  obtain ⟨hprog, -⟩ := C11_records h hn
  intro e he
  rw [hprog] at he
  obtain ⟨p, -, rfl⟩ := List.mem_map.mp he
  constructor
  · intro l hl
    obtain ⟨-, hv⟩ := (preparedLabels_props _).1 l hl
    rw [hv]; exact sorted_preparedSpans _
  · intro t ht
    obtain ⟨t', -, -, hv⟩ := (preparedTaxa_props _).1 t ht
    rw [hv]; exact sorted_preparedSpans _

/-- **C11 (inverted indexes).** `labels` and `taxa` have strictly sorted keys; `labels[l]` is exactly
the list of the paths of the programs featuring `l`, in collection order, EACH PATH ONCE (fix F47: the
parser may return several entries of one name for a program; `dedupAdj` drops the repeats, and the list
is duplicate-free), and is absent when no program features `l`; consequently
`p ∈ labels[l] ↔ l is a key of p's record`. Same for `taxa`. -/
theorem C11_indexes (h : makeDb toTaxa progs = .ok db) (hn : (pathsOf progs).Nodup) :
    StrictSorted (keys db.labels) ∧ StrictSorted (keys db.taxa) ∧
    (∀ l, get? db.labels l =
      if occOf (labelOcc (labelled progs)) l = [] then none
      else some (dedupAdj (occOf (labelOcc (labelled progs)) l))) ∧
    (∀ l ps, get? db.labels l = some ps → ps.Nodup) ∧
    (∀ t, get? db.taxa t =
      if occOf (taxonOcc (taxaed toTaxa progs)) t = [] then none
      else some (occOf (taxonOcc (taxaed toTaxa progs)) t)) ∧
    (∀ l p, InAt db.labels l p ↔ ∃ r, get? db.programs p = some r ∧ l ∈ keys r.labels) ∧
    (∀ t p, InAt db.taxa t p ↔ ∃ r, get? db.programs p = some r ∧ t ∈ keys r.taxa) := by
  obtain ⟨-, -, hlab, htax, -⟩ := makeDb_ok h
  obtain ⟨hprog, -⟩ := C11_records h hn
  have hnk : (keys (progs.map fun p => (p.path, recordOf toTaxa (internalOf progs) p))).Nodup := by
    simpa [keys, pathsOf, List.map_map, Function.comp_def] using hn
  have hrec : ∀ p r, get? db.programs p = some r ↔
      ∃ q ∈ progs, q.path = p ∧ r = recordOf toTaxa (internalOf progs) q := by
    intro p r
    rw [hprog]
    constructor
    · intro hg
      obtain ⟨q, hq, e⟩ := List.mem_map.mp (get?_mem hg)
      simp only [Prod.mk.injEq] at e
      exact ⟨q, hq, e.1, e.2.symm⟩
    · rintro ⟨q, hq, rfl, rfl⟩
      exact get?_of_mem_nodup hnk (List.mem_map.mpr ⟨q, hq, rfl⟩)
  refine ⟨?_, ?_, ?_, ?_, ?_, ?_, ?_⟩
  · rw [hlab]; exact (sortKeys_props _ (nodup_keys_collectNew _)).1
  · rw [htax]; exact (sortKeys_props _ (nodup_keys_collect _)).1
  · intro l; rw [hlab]; exact indexNew_get? _ l
  · intro l ps hps
    rw [hlab, indexNew_get?] at hps
    split at hps
    · cases hps
    · simp only [Option.some.injEq] at hps
      rw [← hps]
      exact nodup_dedupAdj_labelOcc _ l (by rw [keys_labelled]; exact hn)
  · intro t; rw [htax]; exact index_get? _ t
  · intro l p
    rw [hlab, indexNew_inAt, mem_labelOcc]
    constructor
    · rintro ⟨e, he, hp, hl⟩
      obtain ⟨q, hq, rfl⟩ := List.mem_map.mp he
      refine ⟨recordOf toTaxa (internalOf progs) q, (hrec _ _).mpr ⟨q, hq, hp, rfl⟩, ?_⟩
      exact ((preparedLabels_props _).2.1 l).mpr hl
    · rintro ⟨r, hr, hl⟩
      obtain ⟨q, hq, hp, rfl⟩ := (hrec _ _).mp hr
      exact ⟨(q.path, labelsOf (internalOf progs) q), List.mem_map.mpr ⟨q, hq, rfl⟩, hp,
        ((preparedLabels_props _).2.1 l).mp hl⟩
  · intro t p
    rw [htax, index_inAt, mem_taxonOcc]
    constructor
    · rintro ⟨e, he, hp, hl⟩
      obtain ⟨q, hq, rfl⟩ := List.mem_map.mp he
      refine ⟨recordOf toTaxa (internalOf progs) q, (hrec _ _).mpr ⟨q, hq, hp, rfl⟩, ?_⟩
      exact ((preparedTaxa_props _).2.1 t).mpr hl
    · rintro ⟨r, hr, hl⟩
      obtain ⟨q, hq, hp, rfl⟩ := (hrec _ _).mp hr
      exact ⟨(q.path, toTaxa q.path (labelsOf (internalOf progs) q)),
        List.mem_map.mpr ⟨q, hq, rfl⟩, hp, ((preparedTaxa_props _).2.1 t).mp hl⟩

/-- **makeDb_wf.** Every database the model builds is well-formed (`DB.WF`): exactly what the filter
properties C04–C07/C17 assume of a tag database. -/
theorem makeDb_wf (h : makeDb toTaxa progs = .ok db) (hn : (pathsOf progs).Nodup) : WF db := by
  obtain ⟨himpk, himp⟩ := C11_importations h
  obtain ⟨hexpk, hexpinv, hexps⟩ := C11_exportations h hn
  obtain ⟨hprog, -⟩ := C11_records h hn
  obtain ⟨-, -, -, -, -, hli, hti⟩ := C11_indexes h hn
  have hkeys : keys db.programs = pathsOf progs := by
    rw [hprog]; simp [keys, pathsOf, List.map_map, Function.comp_def]
  obtain ⟨himpeq, -, -, -, -⟩ := makeDb_ok h
  refine ⟨by rw [hkeys]; exact hn, hli, hti, by rw [himpk, hkeys], by rw [hexpk, hkeys], ?_, hexps,
    ?_, ?_, hexpinv⟩
  · intro e he
    rw [himpeq] at he
    exact mem_completeImportations_sorted e he
  · intro p q hpq
    rw [hkeys]; exact C11_importations_internal h p q hpq
  · intro p q r hpq hqr
    rw [himpeq] at hpq hqr ⊢
    rw [inAt_completeImportations] at hpq hqr ⊢
    exact ⟨hpq.1, Reach.trans hpq.2 hqr.2⟩

/-- **C11 (collecting always returns).** For EVERY collection — any labels (hint-introduced
`import_internally:…` labels included), any file and directory names, any import graph — the model
(like `TagDatabase.__init__`) returns a database: the closure is a total function and, since fix
0c1b93c, `compute_and_collect_exportations` only meets collected paths (no `KeyError`). -/
theorem C11_total : ∃ db, makeDb toTaxa progs = .ok db := by
  have hx : ∀ e ∈ completeImportations (directD progs), ∀ x ∈ e.2, x ∈ pathsOf progs := by
    intro e he x hx
    simp only [completeImportations, List.mem_map] at he
    obtain ⟨f, -, rfl⟩ := he
    rw [mem_sortU, mem_closureOf] at hx
    obtain ⟨b, -, hb⟩ := reach_last hx
    exact resolved_all progs b x hb
  obtain ⟨exps, he⟩ := exportations_ok hx
  exact makeDb_isOk_of he

/-- **C11 (which imports count), from the RAW labels.** For a collection with distinct paths whose raw
labels are parser labels (none already of the form `import_internally:…` — only a hint can make one),
`p` directly imports `q` **iff** `q` is a collected path and some label of `p` is `import:M` or
`import:M:<name>` (`M` = the characters up to the next colon, non-empty) with `q = M'.py`, `M'` being `M`
with `/` for `.`. So: exactly the modules that `p`'s `import M` / `from M import …` statements name by
their absolute dotted path, when that path is a collected file. `import_module:M` labels, relative forms
(`from . import x`: empty `M`) and `from pkg import q` (names `pkg.py`, not `pkg/q.py`) never count.
This is stated with plain string equations: `searchImport?`, `tweakFirstColon` and `internalTarget?` are
no longer part of the specification. -/
theorem C11_direct (hn : (pathsOf progs).Nodup) (hraw : NoRawInternal progs) (p q : Name) :
    Imports progs p q ↔
      q ∈ pathsOf progs ∧ ∃ prog ∈ progs, prog.path = p ∧ ∃ l ∈ prog.labels, ∃ rest,
        l.name = sImport ++ cColon :: rest ∧ takeNoColon rest ≠ [] ∧
        q = replaceChar cDot cSlash (takeNoColon rest) ++ sPy := by
  have hkeys : List.map (fun x => x.1) (labelled progs) = pathsOf progs := keys_labelled progs
  have hget : ∀ prog ∈ progs, get? (directD progs) prog.path =
      some (directOf (pathsOf progs) (labelsOf (internalOf progs) prog)) := by
    intro prog hprog
    apply get?_of_mem_nodup
    · rw [keys_directD]; exact hn
    · simp only [directD, directImportations, labelled, List.map_map, List.mem_map,
        Function.comp_apply, Prod.mk.injEq]
      refine ⟨prog, hprog, rfl, ?_⟩
      have : List.map ((fun x => x.1) ∘ fun p => (p.path, labelsOf (internalOf progs) p)) progs =
          pathsOf progs := by simp [pathsOf, Function.comp_def]
      rw [this]
  constructor
  · intro hpq
    have hq : q ∈ pathsOf progs := resolved_all progs p q hpq
    refine ⟨hq, ?_⟩
    unfold Imports Direct succs at hpq
    cases hg : get? (directD progs) p with
    | none => rw [hg] at hpq; cases hpq
    | some v =>
      have hmem := get?_mem hg
      simp only [directD, directImportations, labelled, List.map_map, List.mem_map,
        Function.comp_apply, Prod.mk.injEq] at hmem
      obtain ⟨prog, hprog, hpath, -⟩ := hmem
      rw [← hpath, hget prog hprog] at hpq
      simp only [Option.getD_some, directOf, labelsOf, relabel, List.mem_filterMap,
        List.mem_map] at hpq
      obtain ⟨l, ⟨l0, hl0, rfl⟩, ht⟩ := hpq
      simp only at ht
      cases hit : internalTarget? (relabelName (internalOf progs) l0.name) with
      | none => rw [hit] at ht; cases ht
      | some t =>
        rw [hit] at ht
        simp only at ht
        split at ht
        · simp only [Option.some.injEq] at ht
          subst ht
          obtain ⟨-, -, rest, h1, h2, h3⟩ := relabel_target (hraw prog hprog l0 hl0) hit
          exact ⟨prog, hprog, hpath, l0, hl0, rest, h1, h2, h3⟩
        · cases ht
  · rintro ⟨hq, prog, hprog, hpath, l, hl, rest, h1, h2, h3⟩
    unfold Imports Direct succs
    rw [← hpath, hget prog hprog]
    simp only [Option.getD_some, directOf, labelsOf, relabel, List.mem_filterMap, List.mem_map]
    refine ⟨{ l with name := relabelName (internalOf progs) l.name }, ⟨l, hl, rfl⟩, ?_⟩
    simp only
    have hin : replaceChar cDot cSlash (takeNoColon rest) ++ sPy ∈ internalOf progs := by
      rw [← h3]
      simp only [internalOf, internalPaths, List.mem_append]
      exact Or.inl hq
    rw [h1, internalTarget_of_import h2 hin, ← h3]
    simp [hq]

/-! ### SQLite rows -/

/-- `name.partition(":")`: the prefix has no colon, and the name is the prefix alone (no colon at
all, empty suffix) or prefix + ":" + suffix. -/
theorem partitionColon_spec (n : Name) :
    cColon ∉ (partitionColon n).1 ∧
    ((n = (partitionColon n).1 ∧ (partitionColon n).2 = []) ∨
      n = (partitionColon n).1 ++ cColon :: (partitionColon n).2) := by
  induction n with
  | nil => simp [partitionColon]
  | cons c cs ih =>
    unfold partitionColon
    by_cases hc : c = cColon
    · simp [hc]
    · simp only [hc, if_false, List.mem_cons, not_or, List.cons_append, List.cons.injEq, true_and]
      refine ⟨⟨fun e => hc e.symm, ih.1⟩, ?_⟩
      rcases ih.2 with h | h
      · exact Or.inl h
      · exact Or.inr h

/-- **C11 (SQLite rows) — row construction restated.** This theorem cannot fail for the model: `labelFacts`
/ `taxonFacts` are the same comprehension as `labelRows` / `taxonRows` with fewer columns, and the proofs
are `simp`/`rfl`. It only documents, in one place, what the rows built by `write_sqlite` are: one
`program` row per program record (same order, verbatim timestamp, numbered source), one `label` row per
(program, label, span) occurrence, one `taxon` row per (program, taxon, span) occurrence, the derived
columns being functions of those (span text, prefix/suffix partition). That the SQLite FILE holds these
rows (sqlite3 write and read back) is exercised by the harness only. -/
theorem C11_sqlite_rows (db : Db) :
    (programRows db).map (fun r => (r.program, r.timestamp)) =
      db.programs.map (fun e => (e.1, e.2.timestamp)) ∧
    (∀ r ∈ programRows db, ∃ e ∈ db.programs, r.program = e.1 ∧
      r.source = e.1 ++ [10, 10] ++ addLineNumbers e.2.source) ∧
    (labelRows db).map (fun r => (r.program, r.label, (r.start, r.stop))) = labelFacts db ∧
    (taxonRows db).map (fun r => (r.program, r.taxon, (r.start, r.stop))) = taxonFacts db ∧
    (∀ r ∈ labelRows db, r.span = spanText (r.start, r.stop) ∧
      (r.pre, r.suf) = partitionColon r.label) ∧
    (∀ r ∈ taxonRows db, r.span = spanText (r.start, r.stop)) := by
  refine ⟨?_, ?_, ?_, ?_, ?_, ?_⟩
  · simp [programRows, List.map_map, Function.comp_def]
  · intro r hr
    simp only [programRows, List.mem_map] at hr
    obtain ⟨e, he, rfl⟩ := hr
    exact ⟨e, he, rfl, rfl⟩
  · simp [labelRows, labelFacts, List.map_flatMap, List.map_map, Function.comp_def]
  · simp [taxonRows, taxonFacts, List.map_flatMap, List.map_map, Function.comp_def]
  · intro r hr
    simp only [labelRows, List.mem_flatMap, List.mem_map] at hr
    obtain ⟨e, -, l, -, s, -, rfl⟩ := hr
    exact ⟨rfl, rfl⟩
  · intro r hr
    simp only [taxonRows, List.mem_flatMap, List.mem_map] at hr
    obtain ⟨e, -, l, -, s, -, rfl⟩ := hr
    rfl

/-! ### Examples -/

def exA : Name := [97, 46, 112, 121]          -- "a.py"
def exB : Name := [98, 46, 112, 121]          -- "b.py"
def exC : Name := [99, 46, 112, 121]          -- "c.py"
def exAB : Name := [97, 46, 98, 46, 112, 121] -- "a.b.py"
def impA : Name := [105, 109, 112, 111, 114, 116, 58, 97]   -- "import:a"
def impB : Name := [105, 109, 112, 111, 114, 116, 58, 98]   -- "import:b"
def impAB : Name := [105, 109, 112, 111, 114, 116, 58, 97, 46, 98]  -- "import:a.b"
def intZ : Name := sInternalPrefix ++ [122]   -- "import_internally:z"

/-- The input of the repaired finding F26: `a.b.py` and `c.py` containing `import a.b`. The import is
no longer taken for an internal one (`a/b.py` is not collected), and a database is returned. -/
def dottedProgs : List Prog :=
  [{ path := exAB, timestamp := [], source := [], labels := [] },
   { path := exC, timestamp := [], source := [], labels := [{ name := impAB, spans := [(1, 1, [])] }] }]

theorem dotted_ok : directD dottedProgs = [(exAB, []), (exC, [])] ∧
    ∃ db, makeDb toTaxa dottedProgs = .ok db :=
  ⟨by decide, C11_total⟩

/-- The input of the repaired finding F29: a raw label `import_internally:z` (what the hint comment
`# paroxython: import_internally:z` produces) naming a program that is not collected is no longer an
importation, and a database is returned. -/
def hintProgs : List Prog :=
  [{ path := exA, timestamp := [], source := [], labels := [{ name := intZ, spans := [] }] }]

theorem hint_ok : directD hintProgs = [(exA, [])] ∧ ∃ db, makeDb toTaxa hintProgs = .ok db :=
  ⟨by decide, C11_total⟩

/-- Non-vacuity: a two-program import cycle (`a.py`: `import b`, `b.py`: `import a`). -/
def cycleProgs : List Prog :=
  [{ path := exA, timestamp := [], source := [], labels := [{ name := impB, spans := [(1, 1, [])] }] },
   { path := exB, timestamp := [], source := [], labels := [{ name := impA, spans := [(1, 1, [])] }] }]

theorem cycle_directD : directD cycleProgs = [(exA, [exB]), (exB, [exA])] := by decide

example : (pathsOf cycleProgs).Nodup ∧
    Relation.TransGen (Imports cycleProgs) exA exA := by
  have hab : Imports cycleProgs exA exB := by
    unfold Imports Direct; rw [cycle_directD]; decide
  have hba : Imports cycleProgs exB exA := by
    unfold Imports Direct; rw [cycle_directD]; decide
  exact ⟨by decide, Relation.TransGen.tail (Relation.TransGen.single hab) hba⟩

/-- Non-vacuity of `C11_direct`: the cycle satisfies its hypotheses, and the theorem recovers
`a.py imports b.py` from the raw label `import:b`. -/
example : NoRawInternal cycleProgs ∧ Imports cycleProgs exA exB :=
  ⟨by decide, (C11_direct (progs := cycleProgs) (by decide) (by decide) exA exB).mpr
    ⟨by decide, cycleProgs.head!, by decide, rfl, { name := impB, spans := [(1, 1, [])] }, by decide,
      [98], by decide, by decide, by decide⟩⟩

/-! ### Bridge to the filter properties (C04–C07) -/

/-- The tag database as the filter reads it: per program its `taxa` record, the `taxa` index, and
the importation / exportation dictionaries. Names are the same code-point lists. -/
def toFilterDB (db : Db) : Paroxy.Filter.DB :=
  { programs := db.programs.map fun e => (e.1, e.2.taxa)
    taxa := db.taxa
    importations := db.importations
    exportations := db.exportations }

theorem dictGet?_eq_get? {β : Type} (d : List (Name × β)) (k : Name) : dictGet? d k = get? d k := by
  induction d with
  | nil => rfl
  | cons e t ih =>
    obtain ⟨k', v⟩ := e
    simp only [dictGet?, get?, ih]

theorem mem_getD_iff {d : List (Name × List Name)} {k p : Name} :
    p ∈ (dictGet? d k).getD [] ↔ InAt d k p := by
  rw [dictGet?_eq_get?]
  unfold InAt
  cases get? d k with
  | none => simp
  | some l => simp

/-- The taxonomy oracle returns no taxon with an empty bag of spans (what `deduplicated_taxa`
guarantees: "if spans:  # if any item remains in the bag"). -/
def TaxaNonempty (toTaxa : Name → List Label → List Taxon) (progs : List Prog) : Prop :=
  ∀ p ∈ progs, ∀ t ∈ toTaxa p.path (labelsOf (internalOf progs) p), t.spans ≠ []

/-- **makeDb_filter_wf.** Every database the model builds — from distinct paths and a taxonomy whose
taxa all have at least one span — satisfies `Paroxy.Filter.DB.WF`, the hypothesis under which
`add_imported_taxa` succeeds and the filter theorems C04–C07 hold (`C04_ctx_wf_of_db_wf`,
`addImported_spec`). The uniqueness of the taxon keys of a record needs no hypothesis: it is
established by `prepared_taxa` (dictionary assignment). -/
theorem makeDb_filter_wf (h : makeDb toTaxa progs = .ok db) (hn : (pathsOf progs).Nodup)
    (hne : TaxaNonempty toTaxa progs) : Paroxy.Filter.DB.WF (toFilterDB db) := by
  have wf := makeDb_wf h hn
  obtain ⟨hprog, -⟩ := C11_records h hn
  have hkeys : (toFilterDB db).programs.map (·.1) = keys db.programs := by
    simp [toFilterDB, keys, List.map_map, Function.comp_def]
  have hrec : ∀ p rec, (p, rec) ∈ (toFilterDB db).programs →
      ∃ q ∈ progs, q.path = p ∧ rec = preparedTaxa (toTaxa q.path (labelsOf (internalOf progs) q)) := by
    intro p rec hm
    simp only [toFilterDB, hprog, List.map_map, List.mem_map, Function.comp_apply,
      Prod.mk.injEq] at hm
    obtain ⟨q, hq, e1, e2⟩ := hm
    exact ⟨q, hq, e1, e2.symm⟩
  have hget : ∀ p rec, (p, rec) ∈ (toFilterDB db).programs ↔
      ∃ r, get? db.programs p = some r ∧ rec = r.taxa := by
    intro p rec
    constructor
    · intro hm
      simp only [toFilterDB, List.mem_map, Prod.mk.injEq] at hm
      obtain ⟨e, he, e1, e2⟩ := hm
      refine ⟨e.2, ?_, e2.symm⟩
      rw [← e1]
      exact get?_of_mem_nodup wf.paths_nodup he
    · rintro ⟨r, hr, rfl⟩
      simp only [toFilterDB, List.mem_map, Prod.mk.injEq]
      exact ⟨(p, r), get?_mem hr, rfl, rfl⟩
  have hexp : ∀ q p, (toFilterDB db).Exp q p ↔ InAt db.exportations p q := by
    intro q p; exact mem_getD_iff
  refine ⟨by rw [hkeys]; exact wf.paths_nodup, ?_, ?_, ?_, ?_, ?_, ?_, ?_, ?_⟩
  · intro p rec hm
    obtain ⟨q, -, -, rfl⟩ := hrec p rec hm
    exact (preparedTaxa_props _).2.2
  · show (keys db.exportations).Nodup
    rw [wf.exp_keys]; exact wf.paths_nodup
  · intro p rec t spans hm ht
    obtain ⟨q, hq, -, rfl⟩ := hrec p rec hm
    obtain ⟨t', ht', -, hv⟩ := (preparedTaxa_props _).1 (t, spans) ht
    simp only at hv
    intro hnil
    rw [hnil] at hv
    have hs := hne q hq t' ht'
    cases hsp : t'.spans with
    | nil => exact hs hsp
    | cons x xs =>
      have : Span3.poor x ∈ preparedSpans t'.spans :=
        mem_preparedSpans.mpr ⟨x, by rw [hsp]; exact List.mem_cons_self, rfl⟩
      rw [← hv] at this
      cases this
  · intro t p
    show p ∈ (dictGet? db.taxa t).getD [] ↔ _
    rw [mem_getD_iff, wf.taxa_index]
    constructor
    · rintro ⟨r, hr, ht⟩
      obtain ⟨e, he, hk⟩ := List.mem_map.mp ht
      exact ⟨r.taxa, e.2, (hget p r.taxa).mpr ⟨r, hr, rfl⟩, by rw [← hk]; exact he⟩
    · rintro ⟨rec, spans, hm, ht⟩
      obtain ⟨r, hr, rfl⟩ := (hget p rec).mp hm
      exact ⟨r, hr, List.mem_map.mpr ⟨(t, spans), ht, rfl⟩⟩
  · intro t p rec spans hm ht
    obtain ⟨r, hr, rfl⟩ := (hget p rec).mp hm
    have hin : InAt db.taxa t p :=
      (wf.taxa_index t p).mpr ⟨r, hr, List.mem_map.mpr ⟨(t, spans), ht, rfl⟩⟩
    obtain ⟨l, hl, -⟩ := hin
    exact get?_isSome.mp ⟨l, hl⟩
  · intro p
    show p ∈ keys db.exportations ↔ p ∈ (toFilterDB db).programs.map (·.1)
    rw [hkeys, wf.exp_keys]
  · intro p q hq
    rw [hexp, wf.exp_inverse] at hq
    obtain ⟨l, hl, -⟩ := hq
    rw [hkeys, ← wf.imp_keys]
    exact get?_isSome.mp ⟨l, hl⟩
  · intro a b d hab hbd
    rw [hexp, wf.exp_inverse] at hab hbd ⊢
    exact wf.imp_trans a b d hab hbd

/-- Non-vacuity of the bridge: the two-program cycle, with a taxonomy giving every program one taxon
with one span, yields a database to which the filter theorems apply. -/
example : ∃ db, makeDb (fun _ _ => [{ name := [120], spans := [(1, 1, [])] }]) cycleProgs = .ok db ∧
    Paroxy.Filter.DB.WF (toFilterDB db) := by
  obtain ⟨db, h⟩ := C11_total (toTaxa := fun _ _ => [{ name := [120], spans := [(1, 1, [])] }])
    (progs := cycleProgs)
  refine ⟨db, h, makeDb_filter_wf h (by decide) ?_⟩
  intro p _ t ht
  simp only [List.mem_singleton] at ht
  rw [ht]; simp

/-- **The chain collect → recommend.** For every collection (distinct paths, a taxonomy whose taxa
all have at least one span) the database `make_db` builds can be loaded by the filter:
`add_imported_taxa` succeeds on it, keeps its programs, and yields a context satisfying `Ctx.WF` —
the one hypothesis of the filter theorems C04–C07 and C17 — for EVERY regex oracle. So those theorems
apply to every database that `collect` writes, not only to hand-made ones. -/
theorem C11_feeds_filter (h : makeDb toTaxa progs = .ok db) (hn : (pathsOf progs).Nodup)
    (hne : TaxaNonempty toTaxa progs) (orc : Paroxy.Filter.Oracle) :
    ∃ ps, Paroxy.Filter.addImported (toFilterDB db) = some ps ∧
      ps.map (·.1) = (toFilterDB db).programs.map (·.1) ∧
      Paroxy.Filter.Ctx.WF { orc := orc, programs := ps, taxa := (toFilterDB db).taxa,
                             exportations := (toFilterDB db).exportations } :=
  let ⟨ps, h1, h2, h3, _⟩ := Paroxy.Filter.addImported_spec (toFilterDB db) (makeDb_filter_wf h hn hne) orc
  ⟨ps, h1, h2, h3⟩

/-! ## B1 — the JSON text written by `get_json` (Model/JsonText.lean)

`getJsonText v = compact (dumps2 v ++ "\n")` where `dumps2` is `json.dumps(·, indent=2)` (`ensure_ascii=True`) and
`compact` the `regex.sub(r"\s*\[\n\s*(\d+),\n\s*(\d+)\n\s*\](,?)\s+", r"[\1,\2]\3", ·)` of `get_json`. -/
section JsonTextLayer
open Paroxy.JsonText

/-- **No raw newline in a string literal.** Whatever the string (a source text containing `"[\n 1,\n 2\n]"` included),
its JSON literal consists of printable ASCII only: a newline is written `\n` (two characters), so the literal
newlines the compaction regex requires after `[` cannot occur inside a string. -/
theorem dumps_string_has_no_raw_newline (s : Str) :
    (∀ x ∈ quote s, 32 ≤ x ∧ x ≤ 126) ∧ (10 : Nat) ∉ quote s :=
  ⟨quote_printable s, fun h => by have := quote_printable s 10 h; omega⟩

/-- **The compaction changes span lists only** — three facts, each for EVERY text `t`, not only those `dumps2` writes:
(1) what it deletes is white space (the text without white space is unchanged);
(2) from every lexer state — inside a string literal included — the token sequence of a text that lexes is unchanged
    (so no character of a string literal is deleted: a match cannot start or end inside one);
(3) where no match starts, the character is copied. -/
theorem C11_compact_only_span_lists :
    (∀ t : Str, noWs (compact t) = noWs t) ∧
    (∀ (t : Str) (st : St) (toks : List Tok), lex st t = some toks → lex st (compact t) = some toks) ∧
    (∀ (n c : Nat) (t : Str), matchAt (c :: t) = none → compactF (n + 1) (c :: t) = c :: compactF n t) :=
  ⟨fun t => noWs_compactF _ t, lex_compact, fun n c t h => by simp [compactF, h]⟩

/-- The scanner is well defined: a match consumes at least one character, so the fuel `t.length` of `compact` is never
exhausted — any larger fuel gives the same text. -/
theorem C11_compact_fuel (n : Nat) (t : Str) (h : t.length ≤ n) : compactF n t = compact t :=
  compactF_eq_compact n t h

/-- **Compaction preserves the parsed value**, for every text that parses. -/
theorem C11_compact_preserves_loads (t : Str) (v : J) (h : loads t = some v) : loads (compact t) = some v :=
  loads_compact t v h

/-- **The text of `get_json` lexes to the tokens of the data**, for every value: each string literal of the file is
exactly the escaped form `escStr s` of the string it stands for (sources are never altered by the compaction), each
number its decimal digits, in the order of the data. -/
theorem C11_text_tokens (v : J) :
    lex .out (dumps2 v ++ [10]) = some (toksV v) ∧ lex .out (getJsonText v) = some (toksV v) :=
  ⟨lex_dumps2 v, lex_getJsonText v⟩

/-- Token-level form: the text layer (layout, escaping into printable ASCII, compaction) for every value, without
hypothesis on its strings: the text parses back to `v` as soon as the tokens of `v` do. -/
theorem C11_json_roundtrip_of_tokens (v : J) (h : parseToks (toksV v) = some v) : loads (getJsonText v) = some v := by
  unfold loads; rw [lex_getJsonText v]; exact h

/-- Strings and numbers come back: `decode (escStr s) = s` (all escapes of `ensure_ascii=True`: `\"`, `\\`, `\n`, `\r`,
`\t`, `\b`, `\f`, `\u00XX`, `\uXXXX`, surrogate pairs of astral characters, lone surrogates) and `int(str(n)) = n`. -/
theorem C11_leaves_roundtrip :
    (∀ s : Str, strOk s = true → decode (escStr s) = some s) ∧ (∀ n : Nat, numOf (JsonText.natDigits n) = some n) :=
  ⟨decodeEsc, numRoundtrip⟩

/-- **The JSON written by `collect` parses back to exactly what was computed.** For every value `v` of the database
shape — any size and nesting, any strings (sources containing laid-out look-alike span lists, quotes, backslashes,
control characters, non-ASCII and astral characters, lone surrogates) — `loads (compact (dumps2 v ++ "\n")) = some v`.
`J.ok`: every code point is below 0x110000 and no high surrogate code point is directly followed by a low one inside a
string — Python's own `json.loads(json.dumps(s))` merges such a pair into one astral character (`example` below);
texts decoded from UTF-8 files hold no surrogate at all. -/
theorem C11_json_roundtrip (v : J) (hok : J.ok v = true) : loads (getJsonText v) = some v :=
  C11_json_roundtrip_of_tokens v (parseToks_toksV decodeEsc v hok)

/-- the hypothesis `J.ok` is needed, in the model as in Python: two surrogate items come back as one character. -/
example : loadsIs (getJsonText (.str [55296, 56320])) (.str [65536]) = true ∧ J.ok (.str [55296, 56320]) = false := by
  decide +kernel

/-- Non-vacuity: a database value whose source string contains a laid-out look-alike span list, next to a real span
list. The look-alike survives character for character; the real one is compacted; the text parses back to the value. -/
def demoSource : Str := codesOf "t = \"[\n 1,\n 2\n]\"\n[\n      3,\n      8\n    ],\n"
def demoDb : J :=
  .obj [(codesOf "programs", .obj [(codesOf "a.py", .obj [
          (codesOf "timestamp", .str (codesOf "2021")),
          (codesOf "source", .str demoSource),
          (codesOf "labels", .obj [(codesOf "flow/loop", .arr [.arr [.num 3, .num 8], .arr [.num 6, .num 7]])]),
          (codesOf "taxa", .obj [])])]),
        (codesOf "labels", .obj [(codesOf "flow/loop", .arr [.str (codesOf "a.py")])]),
        (codesOf "importations", .obj [(codesOf "a.py", .arr [])])]

example : J.ok demoDb = true := by decide +kernel
example : loadsIs (getJsonText demoDb) demoDb = true := by decide +kernel
example : (parseToks (toksV demoDb)).isSome = true := by decide +kernel
/-- the compaction did act (the text got shorter) and the real span list is on one line. -/
example : (getJsonText demoDb).length < (dumps2 demoDb ++ [10]).length := by decide +kernel
example : strOf (dumpsV 6 (.arr [.arr [.num 3, .num 8], .arr [.num 6, .num 7]])) =
    "[\n        [\n          3,\n          8\n        ],\n        [\n          6,\n          7\n        ]\n      ]" := by
  decide +kernel
example : compact (codesOf "{\n  \"k\": [\n    [\n      3,\n      8\n    ],\n    [\n      6,\n      7\n    ]\n  ],\n  \"s\": \"[\\n 1,\\n 2\\n]\"\n}\n")
    = codesOf "{\n  \"k\": [[3,8],[6,7]],\n  \"s\": \"[\\n 1,\\n 2\\n]\"\n}\n" := by decide +kernel
/-- before the fix 1a46ae2 (F05) the pattern used `\s+` and matched inside sources; a RAW look-alike outside a string
is still compacted (this is what the pattern is for), inside a lexable string literal it cannot be raw. -/
example : compact (codesOf "[\n 1,\n 2\n] ") = codesOf "[1,2]" := by decide +kernel

/-! ### X3 — the round trip, about the model's database (Model/JsonDb.lean, Proofs/JsonDb.lean)

`dbToJson db` is the `data` dictionary `get_json` assembles from the fields of a `TagDatabase` (keys `programs` — per
program `timestamp`, `source`, `labels`, `taxa` —, `labels`, `taxa`, `importations`, `exportations`, in the orders of
the code); `dbOk db` says that every string of the database is free of a high surrogate directly followed by a low one;
the spans being pairs of naturals, numbers need no hypothesis for the round trip. -/
section JsonDbLayer
open Paroxy.JsonDb

/-- `J.ok (dbToJson db)` is exactly the string-by-string hygiene of the database. -/
theorem C11_db_json_ok (db : Db) : J.ok (dbToJson db) = dbOk db := ok_dbToJson db

/-- **The JSON written by `collect` parses back to exactly the database that was computed**, for every database
produced by `makeDb` whose strings are hygienic. -/
theorem C11_db_json_roundtrip (h : makeDb toTaxa progs = .ok db) (hok : dbOk db = true) :
    loads (getJsonText (dbToJson db)) = some (dbToJson db) :=
  have _ := h
  C11_json_roundtrip (dbToJson db) ((ok_dbToJson db).trans hok)

/-- FULL statement (not proved in this round): the hygiene derived from the INPUTS of `makeDb` — the strings of the
programs (paths, time stamps, sources, raw label names, span paths are not written) and the taxon names the oracle
returns. What is missing: `strOk` is preserved by the relabelling (`replaceChar 46 47`, `tweakFirstColon`: both only
write ASCII characters), and every string of the five fields is one of those (membership lemmas through `sortKeys`,
`collectNew`, `collect`, the closure and `exportations`). -/
def C11_db_json_roundtrip_from_inputs : Prop :=
  ∀ (toTaxa : Name → List Label → List Taxon) (progs : List Prog) (db : Db), makeDb toTaxa progs = .ok db →
    (∀ p ∈ progs, strOk p.path = true ∧ strOk p.timestamp = true ∧ strOk p.source = true ∧
      ∀ l ∈ p.labels, strOk l.name = true) →
    (∀ p ls, ∀ t ∈ toTaxa p ls, strOk t.name = true) →
    loads (getJsonText (dbToJson db)) = some (dbToJson db)

/-- **The JSON value determines the database**: two databases whose spans are naturals (line numbers) and that have
the same `data` value have the same records, indexes and import tables. With `C11_db_json_roundtrip`: what
`json.loads` returns on the file written by `collect` determines the database that was computed. -/
theorem C11_dbToJson_injective {a b : Db} (ha : spansNat a) (hb : spansNat b) (h : dbToJson a = dbToJson b) : a = b :=
  dbToJson_inj ha hb h

/-- Non-vacuity on a `makeDb` output: `a.py` (non-ASCII source, an `import:b` label that the relabelling turns into
`import_internally:b`) imports `b.py`; the database is hygienic, and the theorem applies to it. -/
example : makeDb demoTaxa demoProgs = .ok demoOut ∧ dbOk demoOut = true ∧
    loads (getJsonText (dbToJson demoOut)) = some (dbToJson demoOut) :=
  ⟨demo_makeDb, by decide +kernel, C11_db_json_roundtrip demo_makeDb (by decide +kernel)⟩
example : loadsIs (getJsonText (dbToJson demoOut)) (dbToJson demoOut) = true ∧
    demoOut.importations = [(codesOf "a.py", [codesOf "b.py"]), (codesOf "b.py", [])] := by decide +kernel

end JsonDbLayer

end JsonTextLayer

end Paroxy.Props.C11
