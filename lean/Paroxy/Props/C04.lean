/-
C04 — include / exclude / impart / hide implement the documented set algebra.

Theorems about the model `Filter.updateFilter` (Model/Filter.lean), for EVERY database satisfying
`Ctx.WF`, every regex oracle, every criteria list and every filter state. `Meets`/`MeetsExcl`
(Spec/Filter.lean) are the property's wording.
-/
import Paroxy.Proofs.Filter
import Paroxy.Proofs.Imported
import Paroxy.Proofs.Prefixes
namespace Paroxy.Props.C04
open Paroxy Paroxy.Filter

variable (c : Ctx) (r : Relations)

/-- `include [c1 … cn]` keeps exactly the selected programs that meet at least one criterion;
nothing else changes. -/
theorem C04_include (wf : c.WF) (st st' : State) (cs : List Criterion)
    (h : updateFilter c r st cs .include false = .ok st') :
    (∀ p, p ∈ st'.selected ↔ p ∈ st.selected ∧ ∃ crit ∈ cs, Meets c r crit p) ∧
      st'.knowledge = st.knowledge ∧ st'.hiddenTaxa = st.hiddenTaxa ∧
      st'.hiddenPrograms = st.hiddenPrograms :=
  include_any_spec c wf r st st' cs h

/-- `include all [c1 … cn]` (n ≥ 1) keeps exactly the selected programs that meet every criterion. -/
theorem C04_include_all (wf : c.WF) (st st' : State) (cs : List Criterion) (hne : cs ≠ [])
    (h : updateFilter c r st cs .include true = .ok st') :
    (∀ p, p ∈ st'.selected ↔ p ∈ st.selected ∧ ∀ crit ∈ cs, Meets c r crit p) ∧
      st'.knowledge = st.knowledge ∧ st'.hiddenTaxa = st.hiddenTaxa ∧
      st'.hiddenPrograms = st.hiddenPrograms :=
  include_all_spec c wf r st st' cs hne h

/-- `exclude [c1 … cn]` removes exactly the programs that meet at least one criterion (a taxon
pattern being also met by the importers of the programs featuring it) together with every program
importing one of them. -/
theorem C04_exclude (wf : c.WF) (st st' : State) (cs : List Criterion)
    (h : updateFilter c r st cs .exclude false = .ok st') :
    (∀ p, p ∈ st'.selected ↔ p ∈ st.selected ∧
        ¬ ∃ q, (∃ crit ∈ cs, MeetsExcl c r crit q) ∧ (q = p ∨ Imports c p q)) ∧
      st'.knowledge = st.knowledge ∧ st'.hiddenTaxa = st.hiddenTaxa ∧
      st'.hiddenPrograms = st.hiddenPrograms :=
  exclude_any_spec c wf r st st' cs h

/-- `exclude all [c1 … cn]` (n ≥ 1): the same with "meets every criterion". -/
theorem C04_exclude_all (wf : c.WF) (st st' : State) (cs : List Criterion) (hne : cs ≠ [])
    (h : updateFilter c r st cs .exclude true = .ok st') :
    (∀ p, p ∈ st'.selected ↔ p ∈ st.selected ∧
        ¬ ∃ q, (∀ crit ∈ cs, MeetsExcl c r crit q) ∧ (q = p ∨ Imports c p q)) ∧
      st'.knowledge = st.knowledge ∧ st'.hiddenTaxa = st.hiddenTaxa ∧
      st'.hiddenPrograms = st.hiddenPrograms :=
  exclude_all_spec c wf r st st' cs hne h

/-- `include`/`exclude` raise (ValueError) exactly when some triple's predicate string is
rejected by `normalize_predicate`; `impart` and `hide` never raise. -/
theorem C04_error (wf : c.WF) (st : State) (cs : List Criterion) (op : Operation) (q : Bool) :
    (∃ e, updateFilter c r st cs op q = .error e) ↔
      (op = .include ∨ op = .exclude) ∧
        ∃ p1 raw p2 e, Criterion.triple p1 raw p2 ∈ cs ∧ r.predicate raw = .error e :=
  updateFilter_error c wf r st cs op q

/-- `impart` deselects exactly the programs matched by a `.py` pattern (NOT their importers) and
adds to the imparted knowledge the matched taxa, or every taxon directly featured by a matched
program, with all their ancestors (`/`-prefixes). -/
theorem C04_impart (st st' : State) (pats : List Codes) (qa : Bool)
    (h : updateFilter c r st (pats.map .pattern) .impart qa = .ok st') :
    (∀ p, p ∈ st'.selected ↔ p ∈ st.selected ∧
        ¬ ∃ pat ∈ pats, endsWithPy pat = true ∧ IsProgram c p ∧ c.orc.matchProg pat p = true) ∧
    (∀ t, t ∈ st'.knowledge ↔ t ∈ st.knowledge ∨ ∃ pat ∈ pats, ∃ u, t ∈ prefixes u ∧
        (if endsWithPy pat then
          ∃ p, IsProgram c p ∧ c.orc.matchProg pat p = true ∧ FeaturesRec c p u
         else u ∈ c.taxa.map (·.1) ∧ c.orc.matchTaxon pat u = true)) ∧
      st'.hiddenTaxa = st.hiddenTaxa ∧ st'.hiddenPrograms = st.hiddenPrograms :=
  impart_spec c r st st' pats qa h

/-- "With all their ancestors", made independent of the code's `split`/`join`: `t ∈ prefixes u` (the
set `impart` adds for a matched taxon `u`, see `C04_impart`) iff `t` is `u` itself or `t/` is a string
prefix of `u` — the taxon and its ancestors in the taxonomy tree, nothing else. -/
theorem C04_ancestors (t u : Codes) : t ∈ prefixes u ↔ t = u ∨ (t ++ [47]) <+: u :=
  mem_prefixes t u

example : prefixes (codesOf "a/b/c") = [codesOf "a", codesOf "a/b", codesOf "a/b/c"] := by decide +kernel

/-- `hide` only accumulates programs / taxa to omit from the report. -/
theorem C04_hide (st st' : State) (pats : List Codes) (qa : Bool)
    (h : updateFilter c r st (pats.map .pattern) .hide qa = .ok st') :
    st'.selected = st.selected ∧ st'.knowledge = st.knowledge ∧
    (∀ p, p ∈ st'.hiddenPrograms ↔ p ∈ st.hiddenPrograms ∨
        ∃ pat ∈ pats, endsWithPy pat = true ∧ IsProgram c p ∧ c.orc.matchProg pat p = true) ∧
    (∀ t, t ∈ st'.hiddenTaxa ↔ t ∈ st.hiddenTaxa ∨
        ∃ pat ∈ pats, endsWithPy pat = false ∧ t ∈ c.taxa.map (·.1) ∧ c.orc.matchTaxon pat t = true) :=
  hide_spec c r st st' pats qa h

/-- The operation strings of the manual: `X`, `X any`, `X all` for the four operations. -/
theorem C04_parse :
    parseOperation (codesOf "include") = some (.include, false) ∧
    parseOperation (codesOf "include any") = some (.include, false) ∧
    parseOperation (codesOf "include all") = some (.include, true) ∧
    parseOperation (codesOf "exclude") = some (.exclude, false) ∧
    parseOperation (codesOf "exclude any") = some (.exclude, false) ∧
    parseOperation (codesOf "exclude all") = some (.exclude, true) ∧
    parseOperation (codesOf "impart") = some (.impart, false) ∧
    parseOperation (codesOf "hide") = some (.hide, false) ∧
    parseOperation (codesOf "exclude all all") = some (.exclude, false) ∧
    parseOperation (codesOf "delete") = none := by decide +kernel

/-- The hypothesis `Ctx.WF` of the theorems above is not an extra assumption on the filter: on a
tag database that is well-formed as stored (`DB.WF`, what `make_db` writes), `add_imported_taxa`
succeeds (no `KeyError`), keeps the programs and their order, and the filter context it builds
satisfies `Ctx.WF` — for every regex oracle. -/
theorem C04_ctx_wf_of_db_wf (db : DB) (wf : db.WF) (orc : Oracle) :
    ∃ progs, addImported db = some progs ∧ progs.map (·.1) = db.programs.map (·.1) ∧
      Ctx.WF { orc := orc, programs := progs, taxa := db.taxa, exportations := db.exportations } :=
  let ⟨progs, h1, h2, h3, _⟩ := addImported_spec db wf orc
  ⟨progs, h1, h2, h3⟩

-- Non-vacuity: `exampleDB` (Proofs/Imported.lean) has two programs, `b.py` importing `a.py`; it
-- satisfies `DB.WF` (`exampleDB_wf`), `add_imported_taxa` copies `x` (not `meta/m`) under `b.py`,
-- and the resulting context is well-formed.
example : addImported exampleDB = some
    [([97, 46, 112, 121], [([120], [(1, 1)]), ([109, 101, 116, 97, 47, 109], [(2, 2)])]),
     ([98, 46, 112, 121], [([121], [(1, 3), (5, 5)]), ([120], [])])] := rfl
example (orc : Oracle) : Ctx.WF {
    orc := orc
    programs := [([97, 46, 112, 121], [([120], [(1, 1)]), ([109, 101, 116, 97, 47, 109], [(2, 2)])]),
                 ([98, 46, 112, 121], [([121], [(1, 3), (5, 5)]), ([120], [])])]
    taxa := exampleDB.taxa
    exportations := exampleDB.exportations } := by
  obtain ⟨progs, h, _, wf⟩ := C04_ctx_wf_of_db_wf exampleDB exampleDB_wf orc
  cases h
  exact wf

end Paroxy.Props.C04
