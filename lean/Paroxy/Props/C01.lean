/-
C01 — Structural tags match the syntax tree of the stored source.

Property theorems only. The `node` feature is the hand matcher of `Paroxy/Model/NodeFeature.lean`
(validated against the real `regex` engine with the pattern of `spec.md` on every run); the flat AST is
the dump `dumpP h [] [] t` of a tree `t` (C15: `flatten_ast` = post-processing of such a dump; the
harness checks that the real flat AST is the dump of the tweaked tree, `c15.spec`).
-/
import Paroxy.Proofs.NodeFeature
import Paroxy.Proofs.FlatEntries
import Paroxy.Proofs.NodeStarts
import Paroxy.Props.C15
namespace Paroxy.Props.C01
open Paroxy.Flat

/-- **C01 (node labels), on any well-formed enumeration.** Searching the `node` pattern (overlapped)
in the lines of well-formed entries and keeping the matches whose SUFFIX is a positioned type gives
exactly, in order, one match per positioned node: SUFFIX = its type, first POS = the text of its own
`_pos` line. Nothing else is reported for those types. -/
theorem C01_node_labels_entries (h : Str → Str) (hh : ∀ r, '=' ∉ h r) (P : Str → Bool)
    (es : List Entry) (hok : ∀ e ∈ es, e.ok = true) (hty : ∀ e ∈ es, e.typed P = true) :
    (nodeStarts (es.flatMap (Entry.lines h))).filter (fun x => P x.1) = es.filterMap Entry.posStart := by
  have := nodeStarts_entries h hh P es [] hok hty
  simpa [nodeStarts, nodeMatches] using this

/-- **C01 (node labels).** For a well-formed tree `t` (`treeOk`: no `=` in names and types, no
`/_type=` inside scalars, being positioned is a property of the type) and the hash function of any
flattening, the `node:` occurrences found in the dump of `t` whose type is a positioned type are, in
pre-order, exactly one per node of `t` that carries a line number — with that node's type — and
`pos_to_span` reads from each the node's **own line number** (and its path). -/
theorem C01_node_labels (t0 t : Val) (hwf : treeOk t = true) :
    ((nodeStarts (dumpP (hashFn t0) [] [] t)).filter (fun x => (posTypes t).contains x.1)).map
        (fun x => (x.1, (parsePos? x.2).map (·.1))) =
      (positionedNodes t).map (fun x => (x.1, some x.2)) := by
  have hall : ∀ e ∈ entries [] [] t, e.ok = true ∧ e.typed (posTypes t).contains = true := by
    intro e he
    have := List.all_eq_true.mp hwf e he
    simpa using this
  have hd : dumpP (hashFn t0) [] [] t = (entries [] [] t).flatMap (Entry.lines (hashFn t0)) :=
    dumpP_eq_entries (hashFn t0) [] [] t
  rw [hd]
  rw [C01_node_labels_entries (hashFn t0) (eq_not_mem_hashFn t0) _ (entries [] [] t)
    (fun e he => (hall e he).1) (fun e he => (hall e he).2)]
  unfold positionedNodes
  generalize entries [] [] t = es
  induction es with
  | nil => rfl
  | cons e es ih =>
    obtain ⟨addr, names, item⟩ := e
    cases item with
    | node ty isE r ln =>
      cases ln with
      | none => simpa [List.filterMap_cons, Entry.posStart, positionedOfEntries] using ih
      | some n => simpa [List.filterMap_cons, Entry.posStart, positionedOfEntries, parsePos_posText] using ih
    | list q n => simpa [List.filterMap_cons, Entry.posStart, positionedOfEntries] using ih
    | scalar r => simpa [List.filterMap_cons, Entry.posStart, positionedOfEntries] using ih

/-- **C01 (node labels, on the real pipeline).** For a tree `t` as exported from `ast.parse`, whose
on-the-fly form satisfies the local clauses of the six post-processing passes (`wfStages6`) and the
shape / repr-kind agreement clauses (`wfTweak`), and whose tweaked form `tweak [] …` — the one-shot
specification — is well formed for the `node` feature (`treeOk`) — both Bool-valued and evaluated on
every real tree —, searching the `node` pattern in **what `flatten_ast` returns** and keeping the positioned
types gives, in pre-order, exactly one occurrence per node of the tweaked tree that carries a line number,
with its type and its own line. -/
theorem C01_node_labels_pipeline (cfg : Cfg) (s : HashState) (t : Val) (ty : Str) (e : Bool) (r : Str)
    (ln : Option Nat) (fs : List (Str × Val)) (ht : prep cfg t = .node ty e r ln fs)
    (hwf : wfStages6 (prep cfg t) = true) (hwt : wfTweak (prep cfg t) = true)
    (hok : treeOk (tweak [] (prep cfg t)) = true) :
    ((nodeStarts (flattenAst cfg s t).1).filter
        (fun x => (posTypes (tweak [] (prep cfg t))).contains x.1)).map
        (fun x => (x.1, (parsePos? x.2).map (·.1))) =
      (positionedNodes (tweak [] (prep cfg t))).map (fun x => (x.1, some x.2)) := by
  rw [Paroxy.Props.C15.C15_flatten_tweaked cfg s t ty e r ln fs ht hwf hwt]
  exact C01_node_labels (prep cfg t) (tweak [] (prep cfg t)) hok

/-- Non-vacuity with a string constant containing `_pos=` (the former finding F17, `s = '_pos=3:1-:2'`, as
exported): the hypotheses of `C01_node_labels_pipeline` hold, the value is dumped escaped. -/
def samplePosString : Val :=
  .node cs!"Module" false [] none
    [(cs!"body", .list false
      [.node cs!"Assign" false [] (some 1)
        [(cs!"targets", .list false [.node cs!"Name" true cs!"Name(id='s')" (some 1)
            [(cs!"id", .scalar cs!"'s'" .str), (cs!"ctx", .node cs!"Store" false [] none [])]]),
         (cs!"value", .node cs!"Constant" true cs!"Constant(value='_pos=3:1-:2')" (some 1)
            [(cs!"value", .scalar cs!"'_pos=3:1-:2'" .str), (cs!"kind", .scalar cs!"None" .nameConst)]),
         (cs!"type_comment", .scalar cs!"None" .nameConst)]]),
     (cs!"type_ignores", .list false [])]

example : wfStages6 (prep implCfg samplePosString) = true ∧ wfTweak (prep implCfg samplePosString) = true ∧
    treeOk (tweak [] (prep implCfg samplePosString)) = true := by decide
example : positionedNodes (tweak [] (prep implCfg samplePosString)) =
    [(cs!"Assign", 1), (cs!"Name", 1), (cs!"Str", 1)] := by decide
example : cs!"/body/1/assignvalue/s=_pos\\=3:1-:2" ∈ dumpP id [] [] (tweak [] (prep implCfg samplePosString)) := by
  decide

/-- Non-vacuity: a small module `x = 1` (already tweaked) is well formed, and the theorem's right-hand
side lists its three positioned nodes. -/
def sample : Val :=
  .node cs!"Module" false [] none
    [(cs!"body", .list false
      [.node cs!"Assign" false [] (some 1)
        [(cs!"assigntargets", .list false [.node cs!"Name" true cs!"Name(id='x')" (some 1) [(cs!"id", .scalar cs!"x" .str)]]),
         (cs!"assignvalue", .node cs!"Num" true cs!"Constant(value=1)" (some 1) [(cs!"n", .scalar cs!"1" .num)])]])]

example : treeOk sample = true := by decide
example : positionedNodes sample = [(cs!"Assign", 1), (cs!"Name", 1), (cs!"Num", 1)] := by decide
example : (nodeStarts (dumpP (hashFn sample) [] [] sample)).map (·.1) =
    [cs!"Assign", cs!"Name", cs!"Num"] := by decide

/-- The positioned occurrences start on the node's own line: the binding computed by `get_bindings`
for a one-POS match of a positioned node has `start = end = lineno`. -/
theorem C01_binding_own_line (ty : Str) (n : Nat) (addr : List Nat) :
    nodeBinding? (ty, [posText n addr]) = some (cs!"node:" ++ ty, ⟨n, n, posPath addr⟩) := by
  simp [nodeBinding?, posToSpan?, parsePos_posText]

/-- … and for a two-POS match — the second capture `p2` being a position on line `n2` — the span goes from
the smaller to the larger of the two lines (fix 44b0b15: `pos_to_span` sorts them): `start = min n n2`. -/
theorem C01_binding_start_min (ty p2 x2 : Str) (n n2 : Nat) (addr : List Nat) (b : Str × SpanP)
    (hp2 : parsePos? p2 = some (n2, x2))
    (h : nodeBinding? (ty, [posText n addr, p2]) = some b) :
    b.1 = cs!"node:" ++ ty ∧ b.2.start = min n n2 ∧ b.2.stop = max n n2 ∧ b.2.path = posPath addr := by
  simp only [nodeBinding?, posToSpan?, List.head?_cons, List.getLast?_cons_cons, List.getLast?_singleton,
    parsePos_posText, hp2, Option.map_some, Option.some.injEq] at h
  rw [← h]; exact ⟨rfl, rfl, rfl, rfl⟩

/-- Corollary: the occurrence **starts on the node's own line** as soon as that line is not after the line of
the second capture. For a positioned node the second capture is its last positioned strict descendant in
dump order, so this hypothesis is what `lastDescMono` gives (`C02_node_span`: `GoodSpan`); it holds on every
real tree seen (a positioned node's line is the first line of its text, decorators apart, and the body comes
last). Without it the start would be the line of that descendant. -/
theorem C01_binding_start (ty p2 x2 : Str) (n n2 : Nat) (addr : List Nat) (b : Str × SpanP)
    (hp2 : parsePos? p2 = some (n2, x2)) (hle : n ≤ n2)
    (h : nodeBinding? (ty, [posText n addr, p2]) = some b) : b.1 = cs!"node:" ++ ty ∧ b.2.start = n := by
  obtain ⟨h1, h2, _, _⟩ := C01_binding_start_min ty p2 x2 n n2 addr b hp2 h
  exact ⟨h1, by rw [h2]; exact Nat.min_eq_left hle⟩

/-- **C01 (where the occurrences start, on the whole tree).** `nodeStartsSpec` is what the sorted span gives:
for every positioned node, the smaller of its own line and the line of its last positioned strict descendant in
dump order. Under `lastDescMono` (Bool-valued, evaluated on every real tree: holds on all of them) it is the
list of the positioned nodes **with their own lines** — the clause "it starts on that node's own line". The
harness compares the starts of the reported `node:` labels with `nodeStartsSpec` on every tree, whether the
hypothesis holds or not. -/
theorem C01_node_starts (t : Val) (h : lastDescMono [] [] t = true) :
    nodeStartsSpec [] [] t = positionedNodes t := nodeStartsSpec_eq [] [] t h

example : lastDescMono [] [] sample = true ∧
    nodeStartsSpec [] [] sample = [(cs!"Assign", 1), (cs!"Name", 1), (cs!"Num", 1)] := by decide

/-- "Same text" clause of the property (tagging parses exactly the source that Paroxython stores and
shows): in this model it is a mere congruence — `tagNodes` reads `program.source` only — hence an
`example`, not a theorem. The clause is **exercised only**: harness/c01.py records the text given to
`ast.parse` during `TagDatabase(...)` and compares it with `programs_infos[path]["source"]`. -/
example (parse : Str → Option Val) (cfg : Cfg) (p q : ProgramRec)
    (h : storedSource p = storedSource q) : tagNodes parse cfg p = tagNodes parse cfg q := by
  simp only [storedSource] at h
  simp [tagNodes, h]

end Paroxy.Props.C01
