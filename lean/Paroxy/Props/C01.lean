import Paroxy.Spec.NodeFeature
import Paroxy.Model.NodeFeature
namespace Paroxy.Props.C01
open Paroxy.Flat

/-- placeholder so that the build and the audit run while the proofs are being written -/
theorem C01_placeholder : positionedOfEntries [] = [] := rfl

end Paroxy.Props.C01
