/-
C08 — Each span relation means exactly the chain its key spells.

Property theorems only. `Gen.table` / `Gen.updates` are regenerated from
`/repo/paroxython/compare_spans.py` on every run by /verif/translator/gen.py, so these theorems are
re-checked against what the code says now. Names are lists of Unicode code points (`Codes`).
-/
import Paroxy.Gen.CompareSpans
import Paroxy.Gen.Manual
import Paroxy.Spec.CompareSpans
import Paroxy.Proofs.Rank
import Paroxy.Proofs.SpecKeys
import Paroxy.Proofs.Dict
namespace Paroxy.Props.C08
open Paroxy Paroxy.Spec

/-- The translator covered the whole source file. -/
theorem C08_translated : Gen.translatorOk = true := by decide

def keysOk : Bool :=
  let ks := Gen.table.map (·.1)
  let sk := allKeys.map Key.codes
  ks == sk || ks.isPerm sk

theorem keysOk_true : keysOk = true := by decide +kernel

/-- **C08 (keys).** The keys of the table are exactly the 162 keys (6 arrangements of `xxyy` × 27
operator triples), each once. -/
theorem C08_keys :
    (Gen.table.map (·.1)).Perm (allKeys.map Key.codes) ∧ (Gen.table.map (·.1)).Nodup ∧
      Gen.table.length = 162 := by
  have hp : (Gen.table.map (·.1)).Perm (allKeys.map Key.codes) := by
    have h := keysOk_true
    simp only [keysOk, Bool.or_eq_true, beq_iff_eq] at h
    rcases h with h | h
    · rw [h]
    · exact List.isPerm_iff.mp h
  refine ⟨hp, hp.nodup_iff.mpr allKeys_codes_nodup, ?_⟩
  have := hp.length_eq
  simpa [allKeys_length] using this

/-- One entry is syntactically the chain its key spells, or agrees with it on the 256 rank
environments. -/
def entryOk (p : Codes × PyExpr) : Bool :=
  match parseKey p.1 with
  | some k => k.balanced && (p.2 == k.chain || agree p.2 k.chain)
  | none => false

theorem tableOk : Gen.table.all entryOk = true := by decide +kernel

/-- **C08 (meaning), entry-wise.** Every entry of the table is filed under one of the 162 keys and
holds of integer spans `x`, `y` exactly when the endpoints satisfy the chain that key spells —
for *all* pairs of integer spans. -/
theorem C08_meaning_entry (p : Codes × PyExpr) (hp : p ∈ Gen.table) :
    ∃ k ∈ allKeys, p.1 = k.codes ∧ ∀ x y : Span, p.2.holds x y = true ↔ k.Holds x y := by
  have h := List.all_eq_true.mp tableOk p hp
  unfold entryOk at h
  split at h
  · rename_i k hk
    simp only [Bool.and_eq_true] at h
    refine ⟨k, (mem_allKeys k).mpr h.1, parseKey_some hk, fun x y => ?_⟩
    rw [← Key.chain_holds]
    have : p.2.holds x y = k.chain.holds x y := by
      rcases (Bool.or_eq_true _ _).mp h.2 with h1 | h2
      · rw [beq_iff_eq.mp h1]
      · exact agree_sound _ _ h2 _
    rw [this]
  · cases h

/-- **C08 (meaning).** For every one of the 162 keys, looking the key up in the table succeeds,
and the predicate found holds for spans `x`, `y` exactly when the chain of `<`, `≤`, `=` spelled by
the key holds of the endpoints (first letter = start, second = end). -/
theorem C08_meaning (k : Key) (hk : k ∈ allKeys) :
    ∃ e, dictGet? Gen.table k.codes = some e ∧ ∀ x y : Span, e.holds x y = true ↔ k.Holds x y := by
  have hmem : k.codes ∈ Gen.table.map (·.1) :=
    C08_keys.1.mem_iff.mpr (List.mem_map_of_mem hk)
  obtain ⟨e, he⟩ := dictGet?_of_key_mem hmem
  obtain ⟨k', _, hc, hm⟩ := C08_meaning_entry (k.codes, e) (dictGet?_mem he)
  have : k = k' := Key.codes_injective hc
  subst this
  exact ⟨e, he, hm⟩

/-- The dictionary after the alias updates, as name ↦ expression. -/
def fullTable : Option (List (Codes × PyExpr)) := applyUpdates Gen.table Gen.updates
/-- The dictionary after the alias updates, as name ↦ key of the original table. -/
def fullNames : Option (List (Codes × Codes)) :=
  resolveUpdates (Gen.table.map fun p => (p.1, p.1)) Gen.updates

def aliasesOk : Bool :=
  match fullNames with
  | some d =>
    d.length == 181 && d.take 162 == Gen.table.map (fun p => (p.1, p.1)) &&
      (d.drop 162).isPerm (aliases.map fun (n, k) => (n, k.codes))
  | none => false

theorem aliasesOk_true : aliasesOk = true := by decide +kernel

/-- **C08 (aliases).** Resolving the `update` calls in order (Python `dict.update`: an existing
name is rebound in place, a new one appended) leaves the 162 keys untouched and adds exactly the
13 Allen names and the 6 synonyms with the keys given in the user manual: 181 entries in all. -/
theorem C08_aliases :
    ∃ d, fullNames = some d ∧ d.length = 181 ∧
      d.take 162 = Gen.table.map (fun p => (p.1, p.1)) ∧
      (d.drop 162).Perm (aliases.map fun (n, k) => (n, k.codes)) := by
  have h := aliasesOk_true
  unfold aliasesOk at h
  split at h
  · rename_i d hd
    simp only [Bool.and_eq_true, beq_iff_eq] at h
    exact ⟨d, hd, h.1.1, h.1.2, List.isPerm_iff.mp h.2⟩
  · cases h

def aliasValuesOk : Bool :=
  match fullTable with
  | some d => aliases.all fun p => dictGet? d p.1 == dictGet? Gen.table p.2.codes
  | none => false

theorem aliasValuesOk_true : aliasValuesOk = true := by decide +kernel

/-- Each of the 19 names is bound to the *same predicate* as the key the manual gives for it, hence
means the chain of that key, for all integer spans. -/
theorem C08_alias_meaning (n : Codes) (k : Key) (h : (n, k) ∈ aliases) :
    ∃ d e, fullTable = some d ∧ dictGet? d n = some e ∧
      ∀ x y : Span, e.holds x y = true ↔ k.Holds x y := by
  have hv := aliasValuesOk_true
  unfold aliasValuesOk at hv
  split at hv
  · rename_i d hd
    have h1 := beq_iff_eq.mp (List.all_eq_true.mp hv (n, k) h)
    have hk : k ∈ allKeys := by
      have : aliases.all (fun p => p.2.balanced) = true := by decide +kernel
      exact (mem_allKeys k).mpr (List.all_eq_true.mp this (n, k) h)
    obtain ⟨e, he, hm⟩ := C08_meaning k hk
    exact ⟨d, e, hd, by rw [h1]; exact he, hm⟩
  · cases hv

def mirrorOk : Bool :=
  match fullTable with
  | some d =>
    converses.all fun (r, r') =>
      match dictGet? d r, dictGet? d r' with
      | some e, some e' => agree e e'.swap
      | _, _ => false
  | none => false

theorem mirrorOk_true : mirrorOk = true := by decide +kernel

/-- **C08 (mirror).** Each Allen relation and its converse are mirror images:
`x R y ↔ y R' x` for all integer spans. -/
theorem C08_mirror (r r' : Codes) (h : (r, r') ∈ converses) :
    ∃ d e e', fullTable = some d ∧ dictGet? d r = some e ∧ dictGet? d r' = some e' ∧
      ∀ x y : Span, e.holds x y = e'.holds y x := by
  have hm := mirrorOk_true
  unfold mirrorOk at hm
  split at hm
  · rename_i d hd
    have h2 := List.all_eq_true.mp hm (r, r') h
    simp only at h2
    split at h2
    · rename_i e e' he he'
      refine ⟨d, e, e', hd, he, he', fun x y => ?_⟩
      have := agree_sound _ _ h2 (spanEnv x y)
      rw [PyExpr.holds, this, PyExpr.eval_swap, swapEnv_spanEnv]; rfl
    · cases h2
  · cases hm

/-- The two readings of a converse name coincide: the key with `x` and `y` exchanged spells the
mirrored chain (a sanity lemma on the specification itself). -/
theorem C08_spec_swap (k : Key) (x y : Span) : k.swap.Holds x y ↔ k.Holds y x := by
  cases k with | mk l1 l2 l3 l4 o1 o2 o3 =>
  cases l1 <;> cases l2 <;> cases l3 <;> cases l4 <;> rfl

-- Non-vacuity: concrete instances.
example : (⟨.x, .y, .x, .y, .eq, .le, .le⟩ : Key) ∈ allKeys := by decide
example : (⟨.x, .y, .x, .y, .eq, .le, .le⟩ : Key).Holds (2, 3) (2, 7) := by decide
example : ¬ (⟨.x, .y, .x, .y, .eq, .le, .le⟩ : Key).Holds (2, 8) (2, 7) := by decide
example : (codesOf "started by", (⟨.y, .x, .y, .x, .eq, .le, .le⟩ : Key)) ∈ aliases := by decide +kernel
example : (codesOf "overlaps", codesOf "overlapped by") ∈ converses := by decide +kernel

/-- **The manual's table.** The seven rows `X name Y | Y converse X | key` of
docs/md/pipeline_documentation.md — re-read from /repo by the translator on every run
(`Gen.manualRows`) — are exactly the specification's `manualDirect` / `converses` the theorems above
are stated against: "the keys given in the user manual" is not a transcription that can drift. -/
theorem C08_manual_table :
    Gen.manualOk = true ∧
    Gen.manualRows = (manualDirectS.zip conversesS).map fun p => (codesOf p.1.1, codesOf p.2.2, p.1.2.codes) := by
  decide +kernel

end Paroxy.Props.C08
