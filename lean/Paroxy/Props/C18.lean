/-
C18 — The command line does what the library does, for every option.   (PARTIAL)

Property theorems only. Model: lean/Paroxy/Model/Cli.lean — pure decision functions from the option
record (what docopt returns) and facts about the file system to a *plan* (which library call, with which
arguments, writing what where). The documented rules are stated outright on the plans, for ALL option
records and ALL file-system facts.

NOT provable here — exercised only by harness/c18.py: docopt's parsing of the command line, `pathlib.glob`,
the `regex` engine on the user's skip pattern, file I/O, and that the real entry points do what the plan
says (files / stdout compared with the library call the plan prescribes).
-/
import Paroxy.Model.Cli
import Paroxy.Proofs.Cli
namespace Paroxy.Props.C18
open Paroxy.Cli

/-! ## collect -/

/-- `collect` runs iff DIRECTORY is a directory; then the keyword arguments are the options, unchanged.
(This restates `collectPlan`: an `example`, not an obligation — the wiring is tied by the harness.) -/
example (a : CollectArgs) (w : World) :
    (w.isDir (PPath.parse a.directory) = false → collectPlan a w = .exit .noDirectory) ∧
    (w.isDir (PPath.parse a.directory) = true → ∃ p, collectPlan a w = .run p ∧
      p.directory = PPath.parse a.directory ∧ p.ignoreTimestamps = a.noTimestamp ∧
      p.cleanup = a.cleanup ∧ p.skip = a.skip ∧ p.glob = a.glob ∧ p.printPerformances = a.log) := by
  constructor
  · intro h; simp [collectPlan, h]
  · intro h; simp [collectPlan, h]

/-- **C18 (taxonomy precedence).** Explicit path, else `DIRECTORY/../taxonomy.tsv` if it is a file, else
the bundled taxonomy (`none`) — whatever else is on the file system. -/
theorem C18_taxonomy_precedence (a : CollectArgs) (w : World) (p : CollectPlan)
    (h : collectPlan a w = .run p) :
    let sibling := (PPath.parse a.directory).parent.child "taxonomy.tsv".toList
    (a.taxonomy ≠ [] → p.taxonomy = some (PPath.parse a.taxonomy)) ∧
    (a.taxonomy = [] → w.isFile sibling = true → p.taxonomy = some sibling) ∧
    (a.taxonomy = [] → w.isFile sibling = false → p.taxonomy = none) := by
  have hp : p.taxonomy = taxonomyFor w (PPath.parse a.directory) a.taxonomy := by
    unfold collectPlan at h
    simp only at h
    split at h
    · cases h
    · cases h; rfl
  simp only [hp]
  exact taxonomyFor_spec w _ _

/-- **C18 (domain of the documented taxonomy rule).** The sibling taxonomy the code looks for is
`parent(DIRECTORY)/taxonomy.tsv` with the LEXICAL parent of the path as typed. This is the documented
`DIRECTORY/../taxonomy.tsv` exactly when the last component of DIRECTORY is a real name: neither empty
(`.`, `./`, the empty string) nor `..` (`..`, `a/..`). Outside this domain the code deviates from the
documentation — finding F35, notes/findings/C18-collect-dot.md. -/
theorem C18_taxonomy_documented (d : PPath) (cwd : List Str) (h1 : d.name ≠ []) (h2 : d.name ≠ ['.', '.']) :
    (d.parent.child "taxonomy.tsv".toList).resolve cwd =
      ((d.child ['.', '.']).child "taxonomy.tsv".toList).resolve cwd ∧
    d.parent.resolve cwd = (d.child ['.', '.']).resolve cwd := by
  obtain ⟨abs, parts⟩ := d
  have hne : parts ≠ [] := by
    intro h; subst h; simp [PPath.name] at h1
  have hsplit := List.dropLast_concat_getLast hne
  have hlast : parts.getLast hne = PPath.name ⟨abs, parts⟩ := by
    simp [PPath.name, List.getLast?_eq_some_getLast hne]
  have hl : parts.getLast hne ≠ ['.', '.'] := by rw [hlast]; exact h2
  simp only [PPath.resolve, PPath.parent, PPath.child]
  constructor
  · congr 1
    cases abs
    · simp only [Bool.false_eq_true, if_false]
      conv => rhs; rw [← hsplit]
      have := collapse_snoc_dotdot [] (cwd ++ parts.dropLast) (parts.getLast hne) hl ["taxonomy.tsv".toList]
      simp only [List.append_assoc, List.cons_append, List.nil_append] at this ⊢
      exact this.symm
    · simp only [if_true]
      conv => rhs; rw [← hsplit]
      have := collapse_snoc_dotdot [] parts.dropLast (parts.getLast hne) hl ["taxonomy.tsv".toList]
      simp only [List.append_assoc, List.cons_append, List.nil_append] at this ⊢
      exact this.symm
  · congr 1
    cases abs
    · simp only [Bool.false_eq_true, if_false]
      conv => rhs; rw [← hsplit]
      have := collapse_snoc_dotdot [] (cwd ++ parts.dropLast) (parts.getLast hne) hl []
      simp only [List.append_assoc, List.cons_append, List.nil_append, List.append_nil] at this ⊢
      exact this.symm
    · simp only [if_true]
      conv => rhs; rw [← hsplit]
      have := collapse_snoc_dotdot [] parts.dropLast (parts.getLast hne) hl []
      simp only [List.append_assoc, List.cons_append, List.nil_append, List.append_nil] at this ⊢
      exact this.symm

example : (PPath.parse "progs/sub".toList).name ≠ [] ∧ (PPath.parse "progs/sub".toList).name ≠ ['.', '.'] := by decide
/-- outside the domain: for `.` the lexical parent is `.` itself, not `..` (finding F35) -/
example : (PPath.parse ".".toList).parent.resolve ["w".toList, "progs".toList] ≠
    ((PPath.parse ".".toList).child ['.', '.']).resolve ["w".toList, "progs".toList] := by decide

theorem collect_out (a : CollectArgs) (w : World) (p : CollectPlan) (h : collectPlan a w = .run p) :
    p.out = collectOut (PPath.parse a.directory) a.output := by
  unfold collectPlan at h
  simp only at h
  split at h
  · cases h
  · cases h; rfl

/-- **C18 (default output of collect).** Without `--output`: a JSON file `DIRECTORY_db.json` next to
DIRECTORY. -/
theorem C18_output_default_collect (a : CollectArgs) (w : World) (p : CollectPlan)
    (h : collectPlan a w = .run p) (ho : a.output = []) :
    p.out = .json ((PPath.parse a.directory).parent.child
      ((PPath.parse a.directory).name ++ "_db.json".toList)) := by
  rw [collect_out a w p h]; exact (collectOut_spec _ _).1 ho

/-- **C18 (format by extension).** With `--output=PATH`: `.json` → JSON at PATH; `.sqlite` or `.sql` →
SQLite at PATH; any other extension: nothing is written (as the code stands). -/
theorem C18_format_by_extension (a : CollectArgs) (w : World) (p : CollectPlan)
    (h : collectPlan a w = .run p) (ho : a.output ≠ []) :
    ((∃ stem, a.output = stem ++ ".json".toList) → p.out = .json (PPath.parse a.output)) ∧
    ((¬ ∃ stem, a.output = stem ++ ".json".toList) →
      ((∃ stem, a.output = stem ++ ".sqlite".toList) ∨ (∃ stem, a.output = stem ++ ".sql".toList)) →
      p.out = .sqlite (PPath.parse a.output)) ∧
    ((¬ ∃ stem, a.output = stem ++ ".json".toList) → (¬ ∃ stem, a.output = stem ++ ".sqlite".toList) →
      (¬ ∃ stem, a.output = stem ++ ".sql".toList) → p.out = .nothing) := by
  rw [collect_out a w p h]
  obtain ⟨_, c2, c3, c4⟩ := collectOut_spec (PPath.parse a.directory) a.output
  refine ⟨?_, ?_, ?_⟩
  · intro hj; exact c2 ho ((endsWith_iff _ _).mpr hj)
  · intro hj hs
    refine c3 ho ((endsWith_false_iff _ _).mpr hj) ?_
    rcases hs with h | h
    · exact Or.inl ((endsWith_iff _ _).mpr h)
    · exact Or.inr ((endsWith_iff _ _).mpr h)
  · intro hj hs1 hs2
    exact c4 ho ((endsWith_false_iff _ _).mpr hj) ((endsWith_false_iff _ _).mpr hs1)
      ((endsWith_false_iff _ _).mpr hs2)

example : collectOut (PPath.parse "a/progs".toList) [] = .json (PPath.parse "a/progs_db.json".toList) := by
  decide
example : collectOut (PPath.parse "a/progs".toList) "out/x.sql".toList =
    .sqlite (PPath.parse "out/x.sql".toList) := by decide

/-! ## recommend -/

/-- **C18 (database lookup).** DB_PATH must exist. A file is the database itself. A directory `D` stands
for `D_db.json` next to `D` (the documented shortcut). As the code stands its fallback candidate is
`D_db.json-db.json` — the loop appends `-db` to the path it has just rebound — so a database named
`D-db.json` is never found (observation recorded in notes/findings/C18-dash-db-fallback.md; the
documented rule only promises `D_db.json`). If neither candidate is a file the command stops. -/
theorem C18_db_lookup (a : RecArgs) (w : World) :
    let given := PPath.parse a.dbPath
    let c1 := given.parent.child (given.name ++ "_db.json".toList)
    let c2 := given.parent.child (c1.name ++ "-db.json".toList)
    (w.exists given = false → recommendPlan a w = .exit .noDbPath) ∧
    (w.isDir given = true → w.isFile c1 = false → w.isFile c2 = false →
      recommendPlan a w = .exit .noDatabase) ∧
    (∀ p, recommendPlan a w = .run p →
      (w.isDir given = false → p.db = given ∧ p.announcedDb = false) ∧
      (w.isDir given = true → w.isFile c1 = true → p.db = c1 ∧ p.announcedDb = true) ∧
      (w.isDir given = true → w.isFile c1 = false → p.db = c2 ∧ p.announcedDb = true)) := by
  refine ⟨?_, ?_, ?_⟩
  · intro h; simp [recommendPlan, h]
  · intro hd h1 h2
    have he : w.exists (PPath.parse a.dbPath) = true := by simp [World.exists, hd]
    simp [recommendPlan, he, findDb_none w _ hd h1 h2]
  · intro p hp
    obtain ⟨_, hf, _⟩ := recommendPlan_run a w p hp
    obtain ⟨f1, f2, f3⟩ := findDb_spec w _ _ _ hf
    exact ⟨f1, f2, fun hd h1 => ⟨(f3 hd h1).1, (f3 hd h1).2.1⟩⟩

/-- **C18 (prefix).** The prefix is what precedes `db.json` in the name of the database, provided it
ends with `_` or `-` and has something before; otherwise it is empty. -/
theorem C18_prefix :
    (∀ (y : Str) (c : Char), y ≠ [] → '\n' ∉ y → (c = '_' ∨ c = '-') →
      prefixOf (y ++ [c] ++ "db.json".toList) = y ++ [c]) ∧
    (∀ name : Str, prefixOf name = [] ∨
      (name = prefixOf name ++ "db.json".toList ∧
        ∃ y c, prefixOf name = y ++ [c] ∧ y ≠ [] ∧ (c = '_' ∨ c = '-'))) :=
  ⟨prefixOf_of_shape, prefixOf_shape⟩

example : prefixOf "programs_db.json".toList = "programs_".toList := by decide
example : prefixOf "programs-db.json".toList = "programs-".toList := by decide
example : prefixOf "db.json".toList = [] := by decide
example : prefixOf "_db.json".toList = [] := by decide
example : prefixOf "programs.json".toList = [] := by decide

/-- **C18 (pipeline, base, output of recommend).** For a plan that runs: the pipeline is `--pipe` or
`PREFIXpipe.py` next to DB_PATH when that is a readable file, the empty pipeline for `--pipe=[]`
otherwise; the base path is `--base` or DB_PATH's parent; the cost strategy is `--cost`; the output is
stdout for `--output=STDOUT` (any case), else `--output`, else `PREFIXrecommendations.md` next to DB_PATH. -/
theorem C18_output_default_recommend (a : RecArgs) (w : World) (p : RecPlan)
    (h : recommendPlan a w = .run p) :
    let parent := (PPath.parse a.dbPath).parent
    let pp := if a.pipe = [] then parent.child (p.pfx ++ "pipe.py".toList) else PPath.parse a.pipe
    p.pfx = prefixOf p.db.name ∧
    (w.isFile pp = true → p.pipe = .file pp ∧ w.pipelineParses pp = true) ∧
    (w.isFile pp = false → p.pipe = .empty ∧ a.pipe = "[]".toList) ∧
    p.base = (if a.base = [] then parent else PPath.parse a.base) ∧
    p.cost = a.cost ∧
    (a.output.map asciiUpper = "STDOUT".toList → p.out = .stdout) ∧
    (a.output = [] → p.out = .file (parent.child (p.pfx ++ "recommendations.md".toList))) ∧
    (a.output ≠ [] → a.output.map asciiUpper ≠ "STDOUT".toList → p.out = .file (PPath.parse a.output)) := by
  obtain ⟨_, _, hpfx, hpipe, hbase, hcost, _, hout⟩ := recommendPlan_run a w p h
  obtain ⟨p1, p2⟩ := pipeFor_spec w a _ _ _ hpipe
  obtain ⟨o1, o2, o3⟩ := recOut_spec a p.pfx (PPath.parse a.dbPath).parent
  have hpp : pipePath a p.pfx (PPath.parse a.dbPath).parent =
      (if a.pipe = [] then (PPath.parse a.dbPath).parent.child (p.pfx ++ "pipe.py".toList)
       else PPath.parse a.pipe) := by
    unfold pipePath; cases a.pipe <;> rfl
  have hb : baseFor a (PPath.parse a.dbPath).parent =
      (if a.base = [] then (PPath.parse a.dbPath).parent else PPath.parse a.base) := by
    unfold baseFor; cases a.base <;> rfl
  simp only
  rw [← hpp, hout, hbase, hb]
  exact ⟨hpfx, p1, p2, rfl, hcost, o1, o2, o3⟩

/-- **C18 (stdout mode)** — repair 8fecc4f (finding 24). The messages of the command go to stderr
exactly when the program list goes to stdout: in STDOUT mode the standard output is the selection
the library produces and nothing else. -/
theorem C18_stdout_mode (a : RecArgs) (w : World) (p : RecPlan) (h : recommendPlan a w = .run p) :
    (p.messagesOnStderr = true ↔ p.out = .stdout) ∧
    (p.out = .stdout ↔ a.output.map asciiUpper = "STDOUT".toList) := by
  obtain ⟨_, _, _, _, _, _, _, hout⟩ := recommendPlan_run a w p h
  have hm : p.messagesOnStderr = decide (a.output.map asciiUpper = "STDOUT".toList) := by
    unfold recommendPlan at h
    simp only at h
    split at h
    · cases h
    · split at h
      · cases h
      · split at h
        · cases h
        · split at h
          · cases h
          · cases h; rfl
  have ho : p.out = .stdout ↔ a.output.map asciiUpper = "STDOUT".toList := by
    rw [hout]
    unfold recOut
    constructor
    · intro h'
      split at h'
      · assumption
      · split at h' <;> cases h'
    · intro h'; rw [if_pos h']
  refine ⟨?_, ho⟩
  rw [hm, ho]
  simp

/-- Non-vacuity of the hypotheses `recommendPlan a w = .run p`: the directory shortcut with
`-o stdout`, in a world where `progs` is a directory next to `progs_db.json` and `progs_pipe.py`. -/
def exampleWorld : World where
  isDir := fun p => p == PPath.parse "progs".toList
  isFile := fun p => p == PPath.parse "progs_db.json".toList || p == PPath.parse "progs_pipe.py".toList
  pipelineParses := fun _ => true
  readable := fun _ => true
  cwd := ["w".toList]

def exampleArgs : RecArgs :=
  ⟨"progs".toList, [], "zeno".toList, "stdout".toList, [], "`{name}`".toList⟩

example : ∃ p, recommendPlan exampleArgs exampleWorld = .run p ∧
    p.db = PPath.parse "progs_db.json".toList ∧ p.announcedDb = true ∧ p.pfx = "progs_".toList ∧
    p.pipe = .file (PPath.parse "progs_pipe.py".toList) ∧ p.out = .stdout ∧ p.messagesOnStderr = true :=
  ⟨_, rfl, by decide, by decide, by decide, by decide, by decide, by decide⟩

/-! ## tag -/

/-- `tag` calls `cli_tag.main` on the file's text with: labels iff `--labels`, the file's parent as
relative path, Markdown iff `--format` is `md`, the given taxonomy or the bundled one.
(This restates `tagPlan`: an `example`, not an obligation — tied by the harness.) -/
example (a : TagArgs) (w : World) :
    (w.readable (PPath.parse a.filename) = false → tagPlan a w = .exit .unreadable) ∧
    (w.readable (PPath.parse a.filename) = true → ∃ p, tagPlan a w = .run p ∧
      p.file = PPath.parse a.filename ∧ p.labelsNotTaxa = a.labels ∧
      p.relativePath = (PPath.parse a.filename).parent ∧
      (p.markdown = true ↔ a.format = "md".toList) ∧
      (a.taxonomy = [] → p.taxonomy = none) ∧
      (a.taxonomy ≠ [] → p.taxonomy = some (PPath.parse a.taxonomy))) := by
  constructor
  · intro h; simp [tagPlan, h]
  · intro h
    refine ⟨_, by simp only [tagPlan, h]; rfl, rfl, rfl, rfl, by simp, ?_, ?_⟩
    · intro ht; simp [ht]
    · intro ht; simp [ht]

/-! ## list_programs -/

/-- **C18 (listing).** Whatever `glob` returns and whatever the skip pattern matches: the listed files
are exactly the globbed files whose NAME the skip pattern does not fully match (with multiplicity),
in `pathlib`'s order. -/
theorem C18_listing (globbed : List PPath) (skips : Str → Bool) :
    let r := selectPrograms globbed skips
    r.Pairwise (fun p q => pathLe p q = true) ∧
    r.Perm (globbed.filter fun p => !skips p.name) ∧
    (∀ p, p ∈ r ↔ p ∈ globbed ∧ skips p.name = false) :=
  selectPrograms_spec globbed skips

/-- The default patterns apply exactly when the option is empty. -/
theorem C18_default_patterns (given dflt : Str) :
    (given = [] → effectivePattern given dflt = dflt) ∧
    (given ≠ [] → effectivePattern given dflt = given) := by
  constructor
  · intro h; simp [effectivePattern, h]
  · intro h; simp [effectivePattern, h]

example : pathLe (PPath.parse "d/a/x.py".toList) (PPath.parse "d/a-b.py".toList) = true := by decide
example : pathLe (PPath.parse "d/a-b.py".toList) (PPath.parse "d/a/x.py".toList) = false := by decide
example : defaultSkips "a_test.py".toList = true ∧ defaultSkips "__init__.py".toList = true ∧
    defaultSkips "test.py".toList = false ∧ defaultSkips "setup.py.py".toList = false := by decide

end Paroxy.Props.C18
