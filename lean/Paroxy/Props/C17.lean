/-
C17 — The recommendation report shows exactly the filter's result.

Theorems about the STRUCTURED report of Model/Report.lean (`body`, `summary`, `stdoutSelection`),
for every input (assessed list, hidden sets, records, strategies). The harness parses the real
Markdown back into this structure. Then the TEXT of the Location cell (Model/ReportCell.lean); last section: the TEXT of the
whole body, line by line (Model/ReportText.lean), and the proof that the structure is read back from it.
-/
import Paroxy.Proofs.Report
import Paroxy.Proofs.ReportOrder
import Paroxy.Proofs.Recommend
import Paroxy.Proofs.ReportCell
import Paroxy.Proofs.ReportCellUnwrap
import Paroxy.Proofs.ReportText
namespace Paroxy.Props.C17
open Paroxy Paroxy.Filter Paroxy.Costs Paroxy.Report Paroxy.ReportCell Paroxy.ReportText

/-- **Membership.** The report lists each assessed (= selected), non-hidden program exactly once
and no other program: the listed `(cost, path)` pairs are a permutation of the visible ones. -/
theorem C17_membership (i : Input) (b : List (Bucket × List Section)) (h : body i = some b) :
    (b.flatMap fun g => g.2.map fun s => (s.cost, s.path)).Perm
      (i.assessed.filter fun cp => !i.hiddenPrograms.contains cp.2) :=
  (body_spec i b h).1

/-- **Bucket.** Every program is listed under the heading `cost_bucket(cost)`, … -/
theorem C17_bucket (i : Input) (hg : i.grouping = true) (b : List (Bucket × List Section)) (h : body i = some b)
    (g : Bucket × List Section) (hgm : g ∈ b) (s : Section) (hs : s ∈ g.2) : g.1 = costBucket s.cost := by
  have := ((body_spec i b h).2.1 g hgm s hs).1
  simpa [groupKey, hg] using this.symm

/-- … whose interval contains the cost (costs are non-negative). -/
theorem C17_bucket_contains (c : Rat) (h : 0 ≤ c) : (costBucket c).Contains c :=
  costBucket_contains c h

/-- **Order inside a heading.** Sections are sorted by the chosen key: non-decreasing
`(cost, sloc)`, or increasing path under the lexicographic strategy. -/
theorem C17_order (i : Input) (b : List (Bucket × List Section)) (h : body i = some b)
    (g : Bucket × List Section) (hgm : g ∈ b) :
    (g.2.map fun s => (s.cost, s.path)).Pairwise fun x y => leMember i.sorting i.sloc x y = true :=
  (body_spec i b h).2.2 g hgm

/-- **Rows.** A program's table lists exactly the taxa of its record that are not hidden, each with
the spans of the record (an empty list is rendered `_imported_`) and the assessed taxon cost. -/
theorem C17_rows (i : Input) (b : List (Bucket × List Section)) (h : body i = some b)
    (g : Bucket × List Section) (hgm : g ∈ b) (s : Section) (hs : s ∈ g.2) :
    ∃ rec, dictGet? i.programs s.path = some rec ∧ ∀ r : Row, r ∈ s.rows ↔
      (r.taxon, r.spans) ∈ rec ∧ r.taxon ∉ i.hiddenTaxa ∧ r.cost = taxonCost i.strat i.knowledge r.taxon := by
  obtain ⟨rec, hr, hrows⟩ := ((body_spec i b h).2.1 g hgm s hs).2
  exact ⟨rec, hr, fun r => by rw [hrows]; exact mem_rowsOf ..⟩

/-- **Total.** When the assessed list is what `assess` returns, the cost stated for a program is the
sum over ALL the taxa of its record, hidden ones included. -/
theorem C17_total (i : Input) (sel : List Codes) (ha : assess i.strat i.programs i.knowledge sel = some i.assessed)
    (b : List (Bucket × List Section)) (h : body i = some b)
    (g : Bucket × List Section) (hgm : g ∈ b) (s : Section) (hs : s ∈ g.2) :
    ∃ rec, dictGet? i.programs s.path = some rec ∧
      s.cost = (rec.map fun ts => taxonCost i.strat i.knowledge ts.1).sum := by
  have hmem : (s.cost, s.path) ∈ i.assessed := by
    have h1 : (s.cost, s.path) ∈ b.flatMap fun g => g.2.map fun s => (s.cost, s.path) :=
      List.mem_flatMap.mpr ⟨g, hgm, List.mem_map_of_mem hs⟩
    exact (List.mem_filter.mp ((C17_membership i b h).mem_iff.mp h1)).1
  unfold assess at ha
  cases hm : sel.mapM (fun p => (dictGet? i.programs p).map fun rec => (programCost i.strat i.knowledge rec, p)) with
  | none => simp [hm] at ha
  | some costs =>
    simp only [hm, bind, Option.bind, pure, Option.some.injEq] at ha
    rw [← ha] at hmem
    have hmem' := (List.mergeSort_perm _ _).mem_iff.mp hmem
    obtain ⟨p, _, hp⟩ := Filter.forall₂_mem_right (mapM_some_all2 _ _ _ hm) hmem'
    cases hd : dictGet? i.programs p with
    | none => simp [hd] at hp
    | some rec =>
      simp only [hd, Option.map_some, Option.some.injEq, Prod.mk.injEq] at hp
      obtain ⟨hc, rfl⟩ := hp
      exact ⟨rec, hd, by rw [← hc, programCost_eq_sum]⟩

/-- **Summary.** Whatever commands are run by one or several `run_pipeline` calls on a recommender
with `N` programs, the count announced after each logged command (`N` minus everything filtered out
so far) is the size of the selection right after that command. -/
theorem C17_summary (c : Ctx) (r : Relations) (cmds : List Command) (st st' : State) (log0 log' : List LogEntry)
    (N idx : Nat)
    (h : runLogged.go c r st st.selected idx cmds log0 = .ok (st', log'))
    (h1 : (N : Int) - (removedTotal log0 : Nat) = st.selected.length)
    (h2 : ∀ k (hk : k < log0.length), (N : Int) - (removedTotal (log0.take (k + 1)) : Nat) = log0[k].selectedAfter) :
    (∀ k (hk : k < log'.length), ((summary N log')[k]?.map (·.1)) = some (log'[k].selectedAfter : Int)) ∧
      (N : Int) - (removedTotal log' : Nat) = st'.selected.length := by
  obtain ⟨a, b⟩ := go_spec c r N cmds st idx log0 st' log' h h1 h2
  refine ⟨fun k hk => ?_, a⟩
  rw [summary_spec]
  simp [hk, b k hk]

/-- … in particular for a fresh recommender and a single call (`N` = number of programs). -/
theorem C17_summary_fresh (c : Ctx) (r : Relations) (cmds : List Command) (st st' : State) (log' : List LogEntry)
    (h : runLogged c r st cmds = .ok (st', log')) :
    ∀ k (hk : k < log'.length),
      ((summary st.selected.length log')[k]?.map (·.1)) = some (log'[k].selectedAfter : Int) :=
  (C17_summary c r cmds st st' [] log' st.selected.length 1 h (by simp [removedTotal])
    (fun k hk => by simp at hk)).1

/-- **`-o stdout`.** Exactly the selected, non-hidden paths. -/
theorem C17_stdout (st : State) (p : Codes) :
    p ∈ stdoutSelection st ↔ p ∈ st.selected ∧ p ∉ st.hiddenPrograms := by
  simp [stdoutSelection, List.mem_filter, Filter.contains_false_iff]

/-- **Order across the whole listing.** Under `by_cost_and_sloc`, when the assessed list is sorted by
non-decreasing, non-negative cost (which is what `assess` returns: `C07_ranking`, `programCost_nonneg`),
the costs of ALL the sections of the report, read top to bottom across the headings, are
non-decreasing — with `by_cost_bucket` grouping (the buckets appear in increasing order since
`cost_bucket` is monotone) as well as without grouping (a single heading). -/
theorem C17_order_across (i : Input) (hs : i.sorting = .byCostAndSloc)
    (hsorted : i.assessed.Pairwise (fun a b => a.1 ≤ b.1))
    (hnonneg : ∀ cp ∈ i.assessed, 0 ≤ cp.1)
    (b : List (Bucket × List Section)) (h : body i = some b) :
    (b.flatMap fun g => g.2.map fun s => s.cost).Pairwise (· ≤ ·) :=
  body_costs_sorted i hs hsorted hnonneg b h

/-- … in particular when the assessed list is the one `assess` returns for some selection. -/
theorem C17_order_across_assess (i : Input) (hs : i.sorting = .byCostAndSloc) (sel : List Codes)
    (ha : assess i.strat i.programs i.knowledge sel = some i.assessed)
    (b : List (Bucket × List Section)) (h : body i = some b) :
    (b.flatMap fun g => g.2.map fun s => s.cost).Pairwise (· ≤ ·) := by
  unfold assess at ha
  cases hm : sel.mapM (fun p => (dictGet? i.programs p).map fun rec => (programCost i.strat i.knowledge rec, p)) with
  | none => simp [hm] at ha
  | some costs =>
    simp only [hm, bind, Option.bind, pure, Option.some.injEq] at ha
    refine C17_order_across i hs ?_ ?_ b h
    · rw [← ha]
      refine (List.pairwise_mergeSort (fun a b c => leCostPath_trans a b c) leCostPath_total costs).imp ?_
      intro x y hxy
      simp only [leCostPath, Bool.or_eq_true, Bool.and_eq_true, decide_eq_true_eq] at hxy
      rcases hxy with hlt | ⟨he, _⟩
      · exact Rat.le_of_lt hlt
      · rw [he]; exact Rat.le_refl
    · intro cp hcp
      rw [← ha] at hcp
      have hcp' := (List.mergeSort_perm _ _).mem_iff.mp hcp
      obtain ⟨p, _, hp⟩ := Filter.forall₂_mem_right (mapM_some_all2 _ _ _ hm) hcp'
      cases hd : dictGet? i.programs p with
      | none => simp [hd] at hp
      | some rec =>
        simp only [hd, Option.map_some, Option.some.injEq] at hp
        rw [← hp]
        exact programCost_nonneg i.strat i.knowledge rec

-- Non-vacuity: three programs of costs 0, 1/2, 5/4 (what `assess` returns for them), listed under
-- three headings (resp. one heading without grouping); all the hypotheses hold.
-- (`mergeSort` does not reduce in the kernel, hence `mergeSort_of_pairwise` / `body_of_presorted`.)
example : (exampleInput true).sorting = .byCostAndSloc ∧
    (exampleInput true).assessed.Pairwise (fun a b => a.1 ≤ b.1) ∧
    (∀ cp ∈ (exampleInput true).assessed, 0 ≤ cp.1) := by decide +kernel
example : assess (exampleInput true).strat (exampleInput true).programs (exampleInput true).knowledge
    [codesOf "c.py", codesOf "a.py", codesOf "b.py"] = some (exampleInput true).assessed := by
  have hm : [codesOf "c.py", codesOf "a.py", codesOf "b.py"].mapM (fun p =>
      (dictGet? (exampleInput true).programs p).map fun rec =>
        (programCost (exampleInput true).strat (exampleInput true).knowledge rec, p)) =
      some (exampleInput true).assessed := by decide +kernel
  unfold assess
  rw [hm]
  simp only [bind, Option.bind, pure]
  rw [List.mergeSort_of_pairwise (by decide +kernel)]
example : (body (exampleInput true)).map listing =
    some [(.zero, [(0, codesOf "c.py")]), (.q3, [(1 / 2, codesOf "a.py")]), (.pow 1, [(5 / 4, codesOf "b.py")])] := by
  rw [body_of_presorted _ (by decide +kernel)]
  decide +kernel
example : (body (exampleInput false)).map listing =
    some [(.noGroup, [(0, codesOf "c.py"), (1 / 2, codesOf "a.py"), (5 / 4, codesOf "b.py")])] := by
  rw [body_of_presorted _ (by decide +kernel)]
  decide +kernel

/-- **End to end.** For one recommender — `Recommendations(db)`, any number of `run_pipeline` calls,
then `get_markdown` — with every database, oracle, strategy and option: when a report is produced,
(1) the filter state it is built from is the one the concatenated commands compute (C04–C06 describe it);
(2) the listed programs are exactly the selected, non-hidden ones of that state, each as often as it
    is selected (once: the selection has no duplicates, `C17_listed_once`);
(3) every section is under `cost_bucket(cost)`, its stated cost is the sum of the taxon costs of the
    whole record of the program under the FINAL knowledge, and its table lists exactly the non-hidden
    taxa of that record with their spans and that taxon cost. -/
theorem C17_end_to_end (c : Ctx) (r : Relations) (strat : Strategy) (sloc : Codes → Nat) (sorting : Sorting)
    (grouping : Bool) (runs : List (List Command)) (rep : Recommendation)
    (h : recommend c r strat sloc sorting grouping runs = .ok rep) :
    runPipeline c r (initState c.programs) runs.flatten = .ok rep.final ∧
    (rep.body.flatMap fun g => g.2.map (·.path)).Perm
      (rep.final.selected.filter fun p => !rep.final.hiddenPrograms.contains p) ∧
    ∀ g ∈ rep.body, ∀ s ∈ g.2, ∃ rec, dictGet? c.programs s.path = some rec ∧
      (grouping = true → g.1 = costBucket s.cost) ∧
      s.cost = (rec.map fun ts => taxonCost strat rep.final.knowledge ts.1).sum ∧
      ∀ row : Row, row ∈ s.rows ↔ (row.taxon, row.spans) ∈ rec ∧ row.taxon ∉ rep.final.hiddenTaxa ∧
        row.cost = taxonCost strat rep.final.knowledge row.taxon := by
  unfold recommend at h
  cases hr : runsLogged c r (initState c.programs) [] runs with
  | error e => rw [hr] at h; cases h
  | ok v =>
    obtain ⟨st, log⟩ := v
    rw [hr] at h
    simp only at h
    cases ha : assess strat c.programs st.knowledge st.selected with
    | none => rw [ha] at h; cases h
    | some assessed =>
      rw [ha] at h
      simp only at h
      generalize hi : (⟨strat, c.programs, sloc, st.knowledge, st.hiddenTaxa, st.hiddenPrograms, assessed, sorting,
        grouping⟩ : Input) = i at h
      cases hb : body i with
      | none => rw [hb] at h; cases h
      | some b =>
        rw [hb] at h
        cases h
        subst hi
        refine ⟨runsLogged_state c r runs _ [] st log hr, ?_, ?_⟩
        · have hm := (C17_membership _ b hb).map (·.2)
          have hp := (assess_spec strat c.programs st.knowledge st.selected assessed ha).1
          have e1 : (b.flatMap fun g => g.2.map fun s => (s.cost, s.path)).map (·.2) =
              b.flatMap fun g => g.2.map (·.path) := by
            simp [List.map_flatMap, Function.comp_def]
          have e2 : (assessed.filter fun cp => !st.hiddenPrograms.contains cp.2).map (·.2) =
              (assessed.map (·.2)).filter fun p => !st.hiddenPrograms.contains p := by
            rw [List.filter_map]; rfl
          simp only at hm
          rw [e1, e2] at hm
          exact hm.trans (hp.filter _)
        · intro g hg s hs
          obtain ⟨rec, hrec, hrows⟩ := C17_rows _ b hb g hg s hs
          obtain ⟨rec', hrec', hcost⟩ := C17_total _ st.selected ha b hb g hg s hs
          have : rec' = rec := Option.some.inj (hrec'.symm.trans hrec)
          subst this
          exact ⟨rec', hrec, fun hgr => C17_bucket _ hgr b hb g hg s hs, hcost, hrows⟩

/-- … and each listed program appears once: the selection of a well-formed database has no duplicate,
and commands only ever remove programs. -/
theorem C17_listed_once (c : Ctx) (r : Relations) (strat : Strategy) (sloc : Codes → Nat) (sorting : Sorting)
    (grouping : Bool) (runs : List (List Command)) (rep : Recommendation)
    (hn : (c.programs.map (·.1)).Nodup)
    (h : recommend c r strat sloc sorting grouping runs = .ok rep) :
    (rep.body.flatMap fun g => g.2.map (·.path)).Nodup := by
  obtain ⟨h1, h2, _⟩ := C17_end_to_end c r strat sloc sorting grouping runs rep h
  refine h2.nodup_iff.mpr (List.Nodup.sublist List.filter_sublist ?_)
  exact List.Nodup.sublist (runPipeline_sublist c r _ _ _ h1) hn

/-- **Headings in increasing cost order, under BOTH sorting strategies.** With `by_cost_bucket`
grouping, when the assessed list is sorted by non-negative cost (what `assess` returns), every
program listed under an earlier heading costs strictly less than every program under a later one —
also under the lexicographic strategy, where the order INSIDE a heading is by path (`C17_order`). -/
theorem C17_headings_increasing (i : Input) (hg : i.grouping = true)
    (hsorted : i.assessed.Pairwise (fun a b => a.1 ≤ b.1)) (hnonneg : ∀ cp ∈ i.assessed, 0 ≤ cp.1)
    (b : List (Bucket × List Section)) (h : body i = some b) :
    b.Pairwise fun g1 g2 => ∀ s1 ∈ g1.2, ∀ s2 ∈ g2.2, s1.cost < s2.cost := by
  have hk := body_keys_strict i hsorted hnonneg b h
  have hmem : ∀ g ∈ b, ∀ s ∈ g.2, 0 ≤ s.cost ∧ g.1 = costBucket s.cost := by
    intro g hgm s hs
    have h1 : (s.cost, s.path) ∈ b.flatMap fun g => g.2.map fun s => (s.cost, s.path) :=
      List.mem_flatMap.mpr ⟨g, hgm, List.mem_map_of_mem hs⟩
    have h2 := (List.mem_filter.mp ((C17_membership i b h).mem_iff.mp h1)).1
    exact ⟨hnonneg _ h2, C17_bucket i hg b h g hgm s hs⟩
  refine hk.imp_of_mem ?_
  intro g1 g2 hg1 hg2 hr s1 hs1 s2 hs2
  obtain ⟨_, e1⟩ := hmem g1 hg1 s1 hs1
  obtain ⟨n2, e2⟩ := hmem g2 hg2 s2 hs2
  rw [e1, e2] at hr
  by_cases hlt : s1.cost < s2.cost
  · exact hlt
  · have hge : s2.cost ≤ s1.cost := by grind
    exact absurd (costBucket_rank_mono n2 hge) (by omega)

/-- **A report is always produced.** Whenever the commands are accepted (no rejected predicate string:
`runPipeline` on the concatenated commands succeeds — `C04_error` says exactly when), `recommend` returns a
report: no `KeyError` can come from the assessment or from the rendering loop, for any database, oracle,
strategy and option. (This is also the non-vacuity of `C17_end_to_end`: with no command at all there is
always a report, listing every program of the database.) -/
theorem C17_report_total (c : Ctx) (r : Relations) (strat : Strategy) (sloc : Codes → Nat) (sorting : Sorting)
    (grouping : Bool) (runs : List (List Command)) (st : State) (log : List LogEntry)
    (h : runsLogged c r (initState c.programs) [] runs = .ok (st, log)) :
    ∃ rep, recommend c r strat sloc sorting grouping runs = .ok rep ∧ rep.final = st ∧ rep.log = log := by
  have hsub := runPipeline_sublist c r runs.flatten (initState c.programs) st
    (runsLogged_state c r runs _ [] st log h)
  have hsel : ∀ p ∈ st.selected, p ∈ c.programs.map (·.1) := fun p hp => hsub.subset hp
  obtain ⟨assessed, ha⟩ := assess_total strat c.programs st.knowledge st.selected hsel
  have hass : ∀ cp ∈ assessed, cp.2 ∈ c.programs.map (·.1) := by
    intro cp hcp
    have := (assess_spec strat c.programs st.knowledge st.selected assessed ha).1
    exact hsel cp.2 (this.mem_iff.mp (List.mem_map_of_mem hcp))
  obtain ⟨b, hb⟩ := body_total ⟨strat, c.programs, sloc, st.knowledge, st.hiddenTaxa, st.hiddenPrograms, assessed,
    sorting, grouping⟩ hass
  refine ⟨⟨b, log, st, assessed⟩, ?_, rfl, rfl⟩
  unfold recommend
  rw [h]
  simp only [ha, hb]

example (c : Ctx) (r : Relations) (strat : Strategy) (sloc : Codes → Nat) (sorting : Sorting) (grouping : Bool) :
    ∃ rep, recommend c r strat sloc sorting grouping [] = .ok rep ∧ rep.final = initState c.programs :=
  let ⟨rep, h1, h2, _⟩ := C17_report_total c r strat sloc sorting grouping [] (initState c.programs) [] rfl
  ⟨rep, h1, h2⟩

/-! ### The text of the Location cell (Model/ReportCell.lean: `couple_to_string`, `", ".join`,
`enumeration_to_txt_factory(width, "_imported_")` with its `textwrap.wrap`) -/

/-- **The Location cell loses nothing.** For every column width ≥ 1 and every list of spans of natural
numbers (any length, any magnitudes — numbers longer than the column, which `textwrap` cuts in the
middle or after their hyphen, included), reading the rendered cell back (`parseCell`: delete the tags,
split on commas and spaces, read `a` / `a-b`) gives exactly the spans of the row.
(With a reader that takes `<br>` for a separator the statement is false for numbers longer than the
line: see the example `12345678901` below; `parseCell` therefore deletes `<br>`.) -/
theorem C17_cell_roundtrip (width : Nat) (hw : 0 < width) (spans : List Span)
    (hn : ∀ sp ∈ spans, 0 ≤ sp.1 ∧ 0 ≤ sp.2) : parseCell (renderCell width spans) = some spans := by
  rw [← toSpan_of_nonneg spans hn]
  exact parse_render width hw _

/-- The empty span list (an imported taxon) is rendered `_imported_`, for every width … -/
theorem C17_cell_imported (width : Nat) : renderCell width [] = "_imported_".toList := rfl

/-- … and no other list is: a row with spans never reads `_imported_`. -/
theorem C17_cell_not_imported (width : Nat) (spans : List Span) (hne : spans ≠ [])
    (hn : ∀ sp ∈ spans, 0 ≤ sp.1 ∧ 0 ≤ sp.2) : renderCell width spans ≠ "_imported_".toList := by
  rw [← toSpan_of_nonneg spans hn]
  cases h : spans.map fun sp => (sp.1.toNat, sp.2.toNat) with
  | nil => simp at h; exact absurd h hne
  | cons p t => exact render_ne_imported width p t

/-- **Wrapping only deletes spaces and cuts lines.** For every width ≥ 1 and every text that does not
start with a space, the contents of the lines of `textwrap.wrap(s, width, initial_indent="   ")`, put
end to end, are `s` with some spaces deleted (`SpDel`): no other character is lost, added or moved —
long-word cuts included. -/
theorem C17_cell_wrap_keeps_text (width : Nat) (hw : 0 < width) (s : Str) (h : ∀ x t, s = x :: t → x ≠ ' ') :
    SpDel s (wrapContents width 3 s).flatten :=
  wrapContents_spdel width 3 hw s h

/-- FULL STATEMENT (left open in round 10, PROVED in round 13: `C17_cell_unwrap` below; still compared by
the harness stream `cell`, key `unwrap`): when no chunk of
the enumeration is longer than the first line (`width - 3`), wrapping replaces single spaces by line
breaks and does nothing else — the lines joined by one space are the enumeration.
The piece that was missing, the description of `fill` on an alternating word / space chunk list (no
long-word cut then happens; each line ends before a space, which is the only thing dropped), is
`fill_alt` / `step_alt` / `wrapLoop_alt` of Proofs/ReportCellUnwrap.lean. What is proved for every
width, long words included, is `C17_cell_wrap_keeps_text` (only spaces are deleted) and, through it,
`C17_cell_roundtrip`. Without the hypothesis the statement is false: see the example below. -/
def C17_cell_unwrap_statement : Prop :=
  ∀ (width : Nat) (spans : List Span), (∀ sp ∈ spans, 0 ≤ sp.1 ∧ 0 ≤ sp.2) →
    chunksWithin (width - 3) (joinSpans spans) = true →
    unwrap (wrapContents width 3 (joinSpans spans)) = joinSpans spans

/-- **Wrapping replaces single spaces by line breaks and does nothing else** when no chunk of the
enumeration (`a,` / `a-b,`) is longer than the first line: for every column width and every list of
spans of natural numbers, the lines of `textwrap.wrap` joined by ONE space are the enumeration. -/
theorem C17_cell_unwrap : C17_cell_unwrap_statement := by
  intro width spans hn h
  rw [← toSpan_of_nonneg spans hn] at h ⊢
  exact unwrap_wrapContents width 3 _ h

-- Non-vacuity: fourteen spans, column width 30: five lines; read back exactly; the lines joined by
-- one space are the enumeration.
def exampleSpans : List Span :=
  [(1, 1), (3, 17), (20, 20), (25, 140), (141, 141), (150, 1520), (1600, 1600), (1700, 1800), (2000, 2000),
   (2100, 2101), (2200, 2200), (2300, 99999), (100000, 100000), (100001, 100002)]

example : (wrapLines 30 3 (joinSpans exampleSpans)).length = 5 ∧
    parseCell (renderCell 30 exampleSpans) = some exampleSpans ∧
    (∀ sp ∈ exampleSpans, 0 ≤ sp.1 ∧ 0 ≤ sp.2) ∧
    chunksWithin (30 - 3) (joinSpans exampleSpans) = true ∧
    unwrap (wrapContents 30 3 (joinSpans exampleSpans)) = joinSpans exampleSpans := by decide +kernel

example : renderCell 7 [(1, 1), (2, 2), (3, 3), (4, 4), (5, 6), (7, 7), (8, 8), (9, 9)] =
    "<details><summary>1,</summary>2, 3,<br>4, 5-6,<br>7, 8, 9</details>".toList := by decide +kernel

-- A number longer than the column is cut in the middle (width 8: first line 5 characters) or after its
-- hyphen: the lines joined by a space are NOT the enumeration (so the hypothesis of
-- `C17_cell_unwrap_statement` is needed, and a reader must not take `<br>` for a separator), yet the
-- cell reads back (`C17_cell_roundtrip`).
example : renderCell 8 [(12345678901, 12345678901)] = "<details><summary>12345</summary>678901</details>".toList ∧
    renderCell 8 [(123, 45678901)] = "<details><summary>123-</summary>45678901</details>".toList ∧
    unwrap (wrapContents 8 3 (joinSpans [(12345678901, 12345678901)])) ≠ joinSpans [(12345678901, 12345678901)] ∧
    parseCell (renderCell 8 [(12345678901, 12345678901)]) = some [(12345678901, 12345678901)] := by decide +kernel

/-! ### The text of the body (round 10, B5)

`renderBody showCost rowCost width b` is the list of the lines `get_markdown` writes for the structured
body `b` (heading lines with their counts, title lines with path and cost, table header, one row line
per row with cost, taxon in backquotes and Location cell, rule), the source listings excepted.
Hygiene, all decidable and evaluated by the harness (through the driver) on every generated database:
`okBody` — taxon names are made of valid code points other than backquote and newline, paths of valid
code points other than newline, spans are non-negative — and `costsOK` — the text printed for each cost
of the body is made of digits `.` `e` `-` `+` and is read back by `readCost` as that cost. -/

/-- **The text determines the report.** The structured body — which programs, in which order, under which
heading, the count announced by each heading, each program's path and cost, each row's taxon, cost and
spans (`_imported_` for none) — is read back from the lines by `parseBody`. -/
theorem C17_text_roundtrip (showCost : Rat → Str) (rowCost : Codes → Rat → Str) (readCost : Str → Option Rat)
    (width : Nat) (hw : 0 < width) (b : List (Bucket × List Section))
    (hb : okBody b = true) (hc : costsOK showCost rowCost readCost b = true) :
    parseBody readCost (renderBody showCost rowCost width b) = some b :=
  parse_render_body showCost rowCost readCost width hw b hb hc

/-- … down to the characters: no line the model writes contains a newline, so the body TEXT —
`"\n".join(lines)` — splits back (`split("\n")`) into those lines, and the structured body is read back from the
text itself. -/
theorem C17_text_roundtrip_string (showCost : Rat → Str) (rowCost : Codes → Rat → Str) (readCost : Str → Option Rat)
    (width : Nat) (hw : 0 < width) (b : List (Bucket × List Section))
    (hb : okBody b = true) (hc : costsOK showCost rowCost readCost b = true) :
    (∀ l ∈ renderBody showCost rowCost width b, '\n' ∉ l) ∧
      parseBody readCost (splitLines (joinLines (renderBody showCost rowCost width b))) = some b :=
  ⟨renderBody_no_nl showCost rowCost readCost width hw b hb hc,
    parse_render_text showCost rowCost readCost width hw b hb hc⟩

/-- **The same with the strict reader**, which also checks that the lines follow the grammar of the body
(`bucket = blank heading section*`, `section = blank title blank header rule row* blank ---`): the model writes
texts of that grammar, as lines and as one text. This is the reader the driver runs on the real reports. -/
theorem C17_text_roundtrip_strict (showCost : Rat → Str) (rowCost : Codes → Rat → Str) (readCost : Str → Option Rat)
    (width : Nat) (hw : 0 < width) (b : List (Bucket × List Section))
    (hb : okBody b = true) (hc : costsOK showCost rowCost readCost b = true) :
    parseBodyStrict readCost (renderBody showCost rowCost width b) = some b ∧
      parseBodyStrict readCost (splitLines (joinLines (renderBody showCost rowCost width b))) = some b :=
  ⟨parse_render_body_strict showCost rowCost readCost width hw b hb hc,
    parse_render_text_strict showCost rowCost readCost width hw b hb hc⟩

/-- What the strict reader returns is what `parseBody` returns (so `C17_text_reader_counts` and
`C17_text_reader_sound` hold for it). -/
theorem C17_text_strict_le (readCost : Str → Option Rat) (lines : List Str) (b : List (Bucket × List Section))
    (h : parseBodyStrict readCost lines = some b) : parseBody readCost lines = some b :=
  parseBodyStrict_le readCost lines b h

/-- Two reports with the same body text have the same structured body. -/
theorem C17_text_injective (showCost : Rat → Str) (rowCost : Codes → Rat → Str) (readCost : Str → Option Rat)
    (width : Nat) (hw : 0 < width) (b b' : List (Bucket × List Section))
    (hb : okBody b = true) (hc : costsOK showCost rowCost readCost b = true)
    (hb' : okBody b' = true) (hc' : costsOK showCost rowCost readCost b' = true)
    (h : renderBody showCost rowCost width b = renderBody showCost rowCost width b') : b = b' := by
  have h1 := C17_text_roundtrip showCost rowCost readCost width hw b hb hc
  have h2 := C17_text_roundtrip showCost rowCost readCost width hw b' hb' hc'
  rw [h, h2] at h1
  exact (Option.some.inj h1).symm

/-- The hygiene of the body follows from the hygiene of the DATABASE: every path shown is the path of a
record, every row a (taxon, spans) entry of that record. -/
theorem C17_text_okBody_of_db (i : Input) (b : List (Bucket × List Section)) (h : body i = some b)
    (hp : okPrograms i.programs = true) : okBody b = true := by
  simp only [okBody, List.all_eq_true]
  intro g hg s hs
  obtain ⟨rec, hrec, hrows⟩ := C17_rows i b h g hg s hs
  have hmem := dictGet?_mem hrec
  simp only [okPrograms, List.all_eq_true, Bool.and_eq_true] at hp
  obtain ⟨h1, h2⟩ := hp _ hmem
  simp only [okSection, okRow, Bool.and_eq_true, List.all_eq_true]
  refine ⟨h1, fun r hr => ?_⟩
  have := h2 _ ((hrows r).mp hr).1
  simpa [Bool.and_eq_true, List.all_eq_true] using this

/-- **Membership, on the text.** What is read from the text of the report of `i` lists each assessed,
non-hidden program exactly once and no other. -/
theorem C17_text_membership (i : Input) (b : List (Bucket × List Section)) (h : body i = some b)
    (showCost : Rat → Str) (rowCost : Codes → Rat → Str) (readCost : Str → Option Rat) (width : Nat) (hw : 0 < width)
    (hb : okBody b = true) (hc : costsOK showCost rowCost readCost b = true)
    (b' : List (Bucket × List Section)) (hp : parseBody readCost (renderBody showCost rowCost width b) = some b') :
    (b'.flatMap fun g => g.2.map fun s => (s.cost, s.path)).Perm
      (i.assessed.filter fun cp => !i.hiddenPrograms.contains cp.2) := by
  rw [C17_text_roundtrip showCost rowCost readCost width hw b hb hc] at hp
  cases hp
  exact C17_membership i b h

/-- **Rows, on the text.** The rows read under a program title are exactly the non-hidden taxa of its
record, with the spans of the record and the assessed taxon cost. -/
theorem C17_text_rows (i : Input) (b : List (Bucket × List Section)) (h : body i = some b)
    (showCost : Rat → Str) (rowCost : Codes → Rat → Str) (readCost : Str → Option Rat) (width : Nat) (hw : 0 < width)
    (hb : okBody b = true) (hc : costsOK showCost rowCost readCost b = true)
    (b' : List (Bucket × List Section)) (hp : parseBody readCost (renderBody showCost rowCost width b) = some b')
    (g : Bucket × List Section) (hgm : g ∈ b') (s : Section) (hs : s ∈ g.2) :
    ∃ rec, dictGet? i.programs s.path = some rec ∧ ∀ r : Row, r ∈ s.rows ↔
      (r.taxon, r.spans) ∈ rec ∧ r.taxon ∉ i.hiddenTaxa ∧ r.cost = taxonCost i.strat i.knowledge r.taxon := by
  rw [C17_text_roundtrip showCost rowCost readCost width hw b hb hc] at hp
  cases hp
  exact C17_rows i b h g hgm s hs

/-- **Heading, interval and count, on the text.** Each group read from the text comes with its heading
line in the text, announcing exactly the number of programs read under it; with `by_cost_bucket` the
heading is `cost_bucket` of the cost of each of them (whose interval contains it: `C17_bucket_contains`). -/
theorem C17_text_bucket_count (i : Input) (b : List (Bucket × List Section)) (h : body i = some b)
    (showCost : Rat → Str) (rowCost : Codes → Rat → Str) (readCost : Str → Option Rat) (width : Nat) (hw : 0 < width)
    (hb : okBody b = true) (hc : costsOK showCost rowCost readCost b = true)
    (b' : List (Bucket × List Section)) (hp : parseBody readCost (renderBody showCost rowCost width b) = some b')
    (g : Bucket × List Section) (hgm : g ∈ b') :
    headingLine g.1 g.2.length ∈ renderBody showCost rowCost width b ∧
      (i.grouping = true → ∀ s ∈ g.2, g.1 = costBucket s.cost) := by
  rw [C17_text_roundtrip showCost rowCost readCost width hw b hb hc] at hp
  cases hp
  refine ⟨?_, fun hgr s hs => C17_bucket i hgr b h g hgm s hs⟩
  simp only [renderBody, List.mem_flatMap]
  exact ⟨g, hgm, by simp [renderBucket]⟩

/-- **The reader never invents a count**, whatever the lines (rendered by the model or not): every group
of a text that reads back comes from a heading line of that text whose announced count is the number of
programs read under it. -/
theorem C17_text_reader_counts (readCost : Str → Option Rat) (lines : List Str) (b : List (Bucket × List Section))
    (h : parseBody readCost lines = some b) (g : Bucket × List Section) (hg : g ∈ b) :
    ∃ l ∈ lines, classify readCost l = some (.heading g.1 g.2.length) :=
  parseBody_counts readCost lines b h g hg

/-- **The reader invents nothing**, whatever the lines: each group of a text that reads back comes from a heading
line of that text (with the right count), each of its programs from a title line of the text showing that path
and that cost, each row of a program from a row line of the text showing that taxon, cost and spans. So when the
harness finds the filter's result by reading a REAL report with `parseBody`, every item of it is written in the
report. -/
theorem C17_text_reader_sound (readCost : Str → Option Rat) (lines : List Str) (b : List (Bucket × List Section))
    (h : parseBody readCost lines = some b) (g : Bucket × List Section) (hg : g ∈ b) :
    (∃ l ∈ lines, classify readCost l = some (.heading g.1 g.2.length)) ∧
      ∀ s ∈ g.2, (∃ l ∈ lines, classify readCost l = some (.title s.path s.cost)) ∧
        ∀ r ∈ s.rows, ∃ l ∈ lines, classify readCost l = some (.row r) :=
  parseBody_sound readCost lines b h g hg

-- Non-vacuity: a report of three programs under two headings (zeno costs). `b.py` has a hidden taxon `h`
-- (absent from its rows, present in its cost 1.375 = 5/4 + 1/8) and an imported taxon (no span: `_imported_`).
def exampleBody : List (Bucket × List Section) :=
  [(.q3, [⟨codesOf "a.py", 1 / 2, [⟨codesOf "x", 1 / 2, [(1, 1), (3, 4)]⟩, ⟨codesOf "meta/q", 0, [(1, 4)]⟩]⟩,
          ⟨codesOf "d/c.py", 3 / 4, [⟨codesOf "x/y", 3 / 4, [(2, 2)]⟩]⟩]),
   (.pow 1, [⟨codesOf "b.py", 11 / 8, [⟨codesOf "x/y", 3 / 4, [(1, 2), (5, 5)]⟩, ⟨codesOf "z", 1 / 2, []⟩]⟩])]

example : okBody exampleBody = true ∧ costsOK showFloat (rowCostText true) readDecimal exampleBody = true := by
  decide +kernel

example : (renderBody showFloat (rowCostText true) 30 exampleBody).map String.ofList =
    ["", "## 2 programs of learning cost in [0.5, 1[",
     "", "### Program a.py (learning cost 0.5)", "", "| Cost  | Taxon | Location |", "|----|----|----|",
     "| 0.5 | `x` | 1, 3-4 |", "| 0 | `meta/q` | 1-4 |", "", "---",
     "", "### Program d/c.py (learning cost 0.75)", "", "| Cost  | Taxon | Location |", "|----|----|----|",
     "| 0.75 | `x/y` | 2 |", "", "---",
     "", "## 1 program of learning cost in [1, 2[",
     "", "### Program b.py (learning cost 1.375)", "", "| Cost  | Taxon | Location |", "|----|----|----|",
     "| 0.75 | `x/y` | 1-2, 5 |", "| 0.5 | `z` | _imported_ |", "", "---"] := by decide +kernel

example : okPrograms (exampleInput true).programs = true := by decide +kernel

example : (splitLines (joinLines (renderBody showFloat (rowCostText true) 30 exampleBody))).length = 30 := by
  decide +kernel

example : parseBody readDecimal (renderBody showFloat (rowCostText true) 30 exampleBody) = some exampleBody :=
  C17_text_roundtrip _ _ _ 30 (by decide) _ (by decide +kernel) (by decide +kernel)

-- A heading announcing a wrong count, or a row above every title, is unreadable.
example : parseBody readDecimal (["", "## 2 programs of learning cost 0", "", "### Program a.py (learning cost 0.0)",
    "", "---"].map String.toList) = none := by decide +kernel
example : (parseBody readDecimal (["", "## 1 program of learning cost 0", "", "### Program a.py (learning cost 0.0)",
    "", "---"].map String.toList)).isSome = true := by decide +kernel
example : parseBody readDecimal (["| 0.5 | `z` | _imported_ |"].map String.toList) = none := by decide +kernel
-- A table rule before the table header: read by `parseBody`, refused by the strict reader; in order: accepted.
example : (parseBody readDecimal (["", "## 1 program of learning cost 0", "", "### Program a.py (learning cost 0.0)", "",
      "|----|----|----|", "| Cost  | Taxon | Location |", "", "---"].map String.toList)).isSome = true ∧
    parseBodyStrict readDecimal (["", "## 1 program of learning cost 0", "", "### Program a.py (learning cost 0.0)", "",
      "|----|----|----|", "| Cost  | Taxon | Location |", "", "---"].map String.toList) = none ∧
    (parseBodyStrict readDecimal (["", "## 1 program of learning cost 0", "", "### Program a.py (learning cost 0.0)", "",
      "| Cost  | Taxon | Location |", "|----|----|----|", "", "---"].map String.toList)).isSome = true := by
  decide +kernel

end Paroxy.Props.C17
