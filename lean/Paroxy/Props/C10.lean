/-
C10 — An occurrence is counted at its most specific taxa only.

Property theorems only. They are about `Dedup.deduplicatedTaxa`, the model of
`paroxython/map_taxonomy.py: deduplicated_taxa` (loops, Counter operations and POSIX `commonpath`
transcribed in `Model/Bag.lean`, `Model/Dedup.lean`), for **every** list of taxa whose names are
strictly sorted (code-point order, as `sorted(acc.items())` yields) and clean (no empty or `.`
segment, except that ONE trailing `/` is allowed: the default taxonomy produces
`flow/exception/catch/`), and whose bags are dicts with positive counts — any number of roots, any characters in the
names, in particular punctuation sorting before `/` between a taxon and its descendants.

`cnt T n s` is the raw count of span `s` for name `n`; "more specific" = proper segment-prefix
(`Spec.Dedup.descB`). The clauses are defined in `Spec/Dedup.lean`.
-/
import Paroxy.Spec.Dedup
import Paroxy.Proofs.DedupLift
import Paroxy.Proofs.Commonpath
import Paroxy.Proofs.DedupSpec
import Paroxy.Proofs.ToTaxa
namespace Paroxy.Props.C10
open Paroxy Paroxy.Dedup Paroxy.Spec.Dedup
variable {σ : Type} [DecidableEq σ]

/-- On strictly sorted clean names the model is the pure double loop whose test is "the previous
name is a proper segment-prefix of the current one": `commonpath` never raises. -/
theorem C10_model_clean (T : List (Name × Bag σ))
    (hs : StrictSorted (T.map Prod.fst)) (hc : CleanNames (T.map Prod.fst)) :
    deduplicatedTaxa T = .ok (dedup (DedupLift.actOf descB) T) :=
  DedupLift.dedupE_eq actE (DedupLift.actOf descB) T (Commonpath.actE_pairwise hs hc)

/-- **C10 (no count is invented).** Every entry remaining in the output belongs to an input taxon,
is positive, and is at most the raw count of that taxon on that span. -/
theorem C10_no_invention (T : List (Name × Bag σ))
    (hs : StrictSorted (T.map Prod.fst)) (hc : CleanNames (T.map Prod.fst)) (hg : GoodBags T) :
    ∃ out, deduplicatedTaxa T = .ok out ∧ NoInvention T out :=
  ⟨_, C10_model_clean T hs hc,
    DedupLift.noInvention_dedup Commonpath.ancRel_descB T (Commonpath.nodup_of_sorted hs)
      (Commonpath.order_of_sorted hs) hg⟩

/-- **C10 (unshared spans are kept).** A taxon keeps its full raw count on every span that no more
specific taxon of the program has. -/
theorem C10_unshared_kept (T : List (Name × Bag σ))
    (hs : StrictSorted (T.map Prod.fst)) (hc : CleanNames (T.map Prod.fst)) (hg : GoodBags T) :
    ∃ out, deduplicatedTaxa T = .ok out ∧ UnsharedKept descB T out :=
  ⟨_, C10_model_clean T hs hc,
    DedupLift.unsharedKept_dedup Commonpath.ancRel_descB T (Commonpath.nodup_of_sorted hs)
      (Commonpath.order_of_sorted hs) hg⟩

/-- **C10 (covered spans are lost).** A taxon loses a span entirely when its raw count there does
not exceed the total raw count of its nearest more specific taxa on that span. -/
theorem C10_covered_lost (T : List (Name × Bag σ))
    (hs : StrictSorted (T.map Prod.fst)) (hc : CleanNames (T.map Prod.fst)) (hg : GoodBags T) :
    ∃ out, deduplicatedTaxa T = .ok out ∧ CoveredLost descB T out :=
  ⟨_, C10_model_clean T hs hc,
    DedupLift.coveredLost_dedup Commonpath.ancRel_descB T (Commonpath.nodup_of_sorted hs)
      (Commonpath.order_of_sorted hs) hg⟩

/-- The output lists the surviving taxa in the input order, each at most once; with at least two
taxa no empty bag survives. -/
theorem C10_names_kept_in_order (T : List (Name × Bag σ))
    (hs : StrictSorted (T.map Prod.fst)) (hc : CleanNames (T.map Prod.fst)) :
    ∃ out, deduplicatedTaxa T = .ok out ∧ List.Sublist (out.map Prod.fst) (T.map Prod.fst) ∧
      (2 ≤ T.length → ∀ e ∈ out, e.2 ≠ []) := by
  refine ⟨_, C10_model_clean T hs hc, ?_, ?_⟩
  · unfold dedup
    split
    · exact List.Sublist.refl _
    · have := DedupSpec.names_finalize_sublist (outer (DedupLift.actOf descB) [] T)
      rwa [DedupLift.names_outer, List.map_nil, List.reverse_nil, List.nil_append] at this
  · intro h2 e he
    unfold dedup at he
    rw [if_neg (by omega)] at he
    obtain ⟨e₀, _, rfl, hne⟩ := DedupLift.mem_finalize.mp he
    exact hne

/-- The executable forms run by the driver on the implementation's output decide the clauses. -/
theorem C10_exec_forms (T out : List (Name × Bag σ)) :
    (noInventionS T out = true ↔ NoInvention T out) ∧
    (unsharedKeptS T out = true ↔ UnsharedKept descB T out) ∧
    (coveredLostS T out = true ↔ CoveredLost descB T out) :=
  ⟨DedupSpec.noInventionB_iff T out, DedupSpec.unsharedKeptB_iff descB T out,
    DedupSpec.coveredLostB_iff descB T out⟩

/-- **C10 (through `Taxonomy.to_taxa`).** What `to_taxa` feeds to `deduplicated_taxa` —
`sorted(acc.items())` after the accumulation loop, from ANY state of the instance, any oracle, any
labels — is strictly sorted by name and has dict bags with positive counts. So the three clauses hold
of the result of `to_taxa` as soon as the taxon names the taxonomy produces are admissible
(`CleanNames`: the only hypothesis left, a property of the taxonomy's replacement patterns). -/
theorem C10_to_taxa (o : Taxo.Oracle) (st : Taxo.State) (labels : List (Taxo.Str × List σ)) :
    let raw := Taxo.sortTaxa (Taxo.accumulate o st [] labels).2
    StrictSorted (raw.map Prod.fst) ∧ GoodBags raw ∧
      (CleanNames (raw.map Prod.fst) →
        ∃ out, (Taxo.toTaxa o st labels).2 = .ok out ∧
          NoInvention raw out ∧ UnsharedKept descB raw out ∧ CoveredLost descB raw out) := by
  intro raw
  have hacc : ToTaxa.AccOK (Taxo.accumulate o st [] labels).2 :=
    ToTaxa.accOK_accumulate o labels st [] ⟨by simp, by intro e he; cases he⟩
  have hs : StrictSorted (raw.map Prod.fst) := ToTaxa.strictSorted_sortTaxa hacc.1
  have hg : GoodBags raw := by
    intro e he
    exact hacc.2 e ((ToTaxa.sortTaxa_perm _).mem_iff.mp he)
  refine ⟨hs, hg, fun hc => ?_⟩
  refine ⟨_, C10_model_clean raw hs hc, ?_, ?_, ?_⟩
  · exact DedupLift.noInvention_dedup Commonpath.ancRel_descB raw (Commonpath.nodup_of_sorted hs)
      (Commonpath.order_of_sorted hs) hg
  · exact DedupLift.unsharedKept_dedup Commonpath.ancRel_descB raw (Commonpath.nodup_of_sorted hs)
      (Commonpath.order_of_sorted hs) hg
  · exact DedupLift.coveredLost_dedup Commonpath.ancRel_descB raw (Commonpath.nodup_of_sorted hs)
      (Commonpath.order_of_sorted hs) hg

/-! ### Non-vacuity: the input on which the early `break` of the original code was wrong.

Names `a`, `a-b/x`, `a/y` (`-` sorts before `/`, so the unrelated root `a-b` sits between `a` and its
descendant `a/y`), all on the same span `7`. The hypotheses hold, `a` is covered by `a/y` and
disappears. -/

def ex : List (Name × Bag Nat) :=
  [(['a'], [(7, 1)]), (['a', '-', 'b', '/', 'x'], [(7, 1)]), (['a', '/', 'y'], [(7, 1)])]

example : StrictSorted (ex.map Prod.fst) := by unfold StrictSorted; decide
example : CleanNames (ex.map Prod.fst) := by
  have : cleanNamesB (ex.map Prod.fst) = true := by decide
  simpa [cleanNamesB, CleanNames, List.all_eq_true] using this
example : GoodBags ex := (DedupSpec.goodBagsB_iff ex).mp (by decide)
example : deduplicatedTaxa ex
    = .ok [(['a', '-', 'b', '/', 'x'], [(7, 1)]), (['a', '/', 'y'], [(7, 1)])] := by
  rfl
example : cnt ex ['a'] 7 = 1 ∧ nearestTotal descB ex ['a'] 7 = 1 := by decide

/-! ### Non-vacuity: a trailing `/`, as the default taxonomy produces for `except MyError:`
(`flow/exception/catch/\\1` with a non-participating group). `flow/exception/catch/` is a child of
`flow/exception/catch` and a sibling of `flow/exception/catch/ValueError`. -/

def exCatch : List (Name × Bag Nat) :=
  [("flow/exception/catch".toList, [(3, 2)]), ("flow/exception/catch/".toList, [(3, 1)]),
   ("flow/exception/catch/ValueError".toList, [(3, 1), (5, 1)])]

example : StrictSorted (exCatch.map Prod.fst) := by unfold StrictSorted; decide
example : CleanNames (exCatch.map Prod.fst) := by
  have : cleanNamesB (exCatch.map Prod.fst) = true := by decide
  simpa [cleanNamesB, CleanNames, List.all_eq_true] using this
example : GoodBags exCatch := (DedupSpec.goodBagsB_iff exCatch).mp (by decide)
example : cleanB "flow/exception/catch/".toList = false := by decide
example : deduplicatedTaxa exCatch
    = .ok [("flow/exception/catch/".toList, [(3, 1)]),
           ("flow/exception/catch/ValueError".toList, [(3, 1), (5, 1)])] := by
  rfl

end Paroxy.Props.C10
