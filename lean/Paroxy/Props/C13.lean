/-
C13 — Full cleaning removes only noise and keeps the program's structure.   (PARTIAL)

Property theorems only. The model is lean/Paroxy/Model/Cleanup.lean: the text passes of `Cleanup` as
structural functions (R2), the token loop of `full_cleaning` taking the TOKEN LIST as input, and
`suppress_main_guard` taking the parser's answer (line ranges of the top-level `if`s) as input. It mirrors
/repo after the repairs e959b88 (F08), ff0b849 (F18), decc026 (F21), 2488bc4 (F19), 466f14f (F22+F23),
55c4b14 (F33), 9ee7189 (F20), 4b0a4d7 (F36), 643e8d6 (F37),
and the repairs F42 (injection on the last line), F43 (guard recognised by its test), F44 (\\N{…} in f-strings),
F50 (an injection STATEMENT goes with all its lines: `suppress_sys_path_injection` takes the parser's statements as input).

PROVED here, for every text and every token list (not only those CPython's tokenizer can produce):
  * no line of the result is empty or blank                                   (C13_no_blank_line)
  * a COMMENT token is emitted iff it carries a hint, then in normal form     (C13_only_hint_comments,
    C13_hint_comment_normal_form, C13_hint_tokens_kept)
  * the STRING tokens that become `pass` are exactly the docstring-like string statements of the
    code-independent specification `DocStmt` (a string literal that is a whole statement, with or
    without a trailing comment)                                               (C13_docstring_to_pass)
  * literal braces of f-strings are re-doubled                                (C13_fstring_braces)
  * `suppress_first_comments` deletes leading `#` lines that carry no hint
    marker, and nothing else                                                  (C13_first_comments_only),
    hence keeps every line carrying a hint marker, first line included        (C13_hints_kept)
  * the two final passes are idempotent                                       (C13_blank_pass_idempotent,
                                                                               C13_pass_pass_idempotent)
  * `suppress_main_guard` (parser as an oracle) removes exactly the lines of the guarded top-level
    `if` blocks and keeps every other line in order — repair 9ee7189          (C13_main_guard,
                                                                               an unparsable source is unchanged)
  * `suppress_sys_path_injection` (parser as an oracle) removes exactly the lines of the column-0
    top-level statements whose first line is an injection, all of them — repair F50 (C13_injection_statements,
                                                                               C13_injection_marks, C13_injections)
  * a token on a later row inside an open logical line (backslash continuation) is kept apart from
    the previous one, column 0 included — repair 55c4b14                     (C13_rows_not_glued)

NOT provable here (CPython's tokenizer and parser are outside the model) — exercised only by
harness/c13.py: the result is valid Python with the same AST modulo the four kinds of noise, invariance
under insertion of comments / blank lines / docstrings, idempotence of the whole cleaning.
-/
import Paroxy.Model.Cleanup
import Paroxy.Spec.Cleanup
import Paroxy.Proofs.Cleanup
import Paroxy.Proofs.CleanupLoop
import Paroxy.Proofs.CleanupInj
namespace Paroxy.Props.C13
open Paroxy.Cleanup Paroxy.Cleanup.Spec

/-! ## No blank line -/

/-- **C13 (no blank line).** Whatever the token list, the text that `full_cleaning` returns has no
empty or blank line (it may be the empty text). -/
theorem C13_no_blank_line (ts : List Token) : NoBlankLine (postprocess ts) :=
  finish_noBlankLine (loopText ts)

/-- The same for `full_cleaning` itself, whatever the tokenizer answers (it may raise). -/
theorem C13_no_blank_line_full {ε : Type} (parse : Text → Option (List IfStmt))
    (parseStmts : Text → Option (List Stmt))
    (tokenize : Text → Except ε (List Token)) (src out : Text)
    (h : fullCleaning parse parseStmts tokenize src = .ok out) : NoBlankLine out := by
  unfold fullCleaning at h
  split at h
  · cases h
  · cases h
    exact C13_no_blank_line _

/-- The executable form used by the harness on the implementation's outputs is the same predicate. -/
theorem C13_noBlankLineB_iff (t : Text) : noBlankLineB t = true ↔ NoBlankLine t := by
  simp [noBlankLineB, NoBlankLine, List.isEmpty_iff]

example : NoBlankLine "x = 1\n  y".toList := (C13_noBlankLineB_iff _).mp (by decide)
example : ¬ NoBlankLine "x = 1\n  \ny".toList := fun h => by
  have := (C13_noBlankLineB_iff _).mpr h
  revert this
  decide

/-! ## Comments -/

/-- **C13 (only hint comments).** For every token list and every position `i`: a COMMENT token is
dropped when it carries no hint marker and is emitted in normal form when it does; no other token
is emitted as a comment or dropped. -/
theorem C13_only_hint_comments (ts : List Token) (i : Nat) (h : i < ts.length) :
    let e := (loop ts)[i]'(by rw [loop, loopFrom_length]; exact h)
    (ts[i].kind = .comment →
        e.piece = if isHint ts[i].str then .hint (normalizeComment ts[i].str).1 else .dropped) ∧
    (ts[i].kind ≠ .comment → e.piece ≠ .dropped ∧ ∀ s, e.piece ≠ .hint s) := by
  simp only [loop]
  rw [loopFrom_getElem _ _ _ h, step_piece]
  constructor
  · intro hc
    simp only [hc, if_true, isHint, bne_iff_ne, ne_eq, ite_not]
  · intro hc
    simp only [hc, if_false]
    split
    · simp
    · split <;> simp

/-- `isHint`, declaratively: the marker regex `#\s*paroxython\s*:\s*` (any case; `markerRest?` is its
structural transcription) matches at some position of the comment. -/
theorem C13_isHint_iff (s : Text) :
    isHint s = true ↔ ∃ a b, s = a ++ b ∧ (markerRest? b).isSome = true := by
  rw [← normAux_zero_count]
  simp [isHint, normalizeComment]

/-- **C13 (normal form).** The emitted form of a hint comment contains `# paroxython: ` literally. -/
theorem C13_hint_comment_normal_form (s : Text) (h : isHint s = true) :
    ∃ a b, (normalizeComment s).1 = a ++ "# paroxython: ".toList ++ b := by
  have : (normAux 0 s).2 ≠ 0 := by simpa [isHint, normalizeComment] using h
  exact normAux_marker 0 s this

example : isHint "#Paroxython :  foo".toList = true := by decide
example : (normalizeComment "x #Paroxython :  foo".toList).1 = "x # paroxython: foo".toList := by decide
example : isHint "# paroxython foo".toList = false := by decide

/-- **C13 (hints kept by the loop).** Every hint comment of the token list is in the joined output of
the loop, in normal form. -/
theorem C13_hint_tokens_kept (ts : List Token) (i : Nat) (h : i < ts.length)
    (hc : ts[i].kind = .comment) (hh : isHint ts[i].str = true) :
    ∃ a b, loopText ts = a ++ (normalizeComment ts[i].str).1 ++ b := by
  obtain ⟨before, after, hsplit⟩ := loopFrom_split .init ts i h
  have hp : (step (stateAfter .init (ts.take i) (ts.drop i)) ts[i] (lookAhead (ts.drop (i + 1)))).2.piece =
      .hint (normalizeComment ts[i].str).1 := by
    rw [step_piece]
    have : (normalizeComment ts[i].str).2 ≠ 0 := by simpa [isHint] using hh
    simp [hc, this]
  unfold loopText loop
  rw [hsplit, List.flatMap_append]
  simp only [List.flatMap_cons, Emit.text, hp, Piece.text]
  exact ⟨before.flatMap Emit.text ++ List.replicate
      (step (stateAfter .init (ts.take i) (ts.drop i)) ts[i] (lookAhead (ts.drop (i + 1)))).2.pad ' ',
    after.flatMap Emit.text, by simp only [List.append_assoc]⟩

/-! ## Docstrings -/

/-- **C13 (docstring ⇔ pass)** — FULL since repairs ff0b849 (finding 18) and 4b0a4d7 (finding 36).
Token `i` is replaced by `pass` exactly when it is a docstring-like string STATEMENT in the sense of
the specification `DocStmt`, which does not mention the code's look-ahead: a STRING standing at a
statement start (`AtStmtStart`) such that, comments apart, the next token is the NEWLINE closing the
logical line — a string literal that is a whole statement, with or without a trailing comment.
A statement that merely begins with a string literal (`"abc".join(x)`, `"a" if x else "b"`) is left
alone. -/
theorem C13_docstring_to_pass (ts : List Token) (i : Nat) (h : i < ts.length) :
    ((loop ts)[i]'(by rw [loop, loopFrom_length]; exact h)).piece = .pass ↔ DocStmt ts i := by
  simp only [loop]
  rw [loopFrom_getElem _ _ _ h, step_piece, lookAhead_eq]
  unfold DocStmt
  rw [← atStmtStartB_iff, ← stateAfter_init_opens _ (ts.drop i)]
  constructor
  · intro h'
    by_cases hc : ts[i].kind = .comment
    · simp only [hc, if_true] at h'; split at h' <;> cases h'
    · simp only [hc, if_false] at h'
      split at h'
      · rename_i hd
        exact ⟨ts[i], by simp [h], hd.1, hd.2.1, hd.2.2⟩
      · split at h' <;> cases h'
  · rintro ⟨t, ht, h1, h2, h3⟩
    have : t = ts[i] := by
      rw [List.getElem?_eq_getElem h] at ht; exact (Option.some.inj ht).symm
    subst this
    have hc : ¬ ts[i].kind = .comment := by rw [h1]; decide
    simp only [hc, if_false]
    rw [if_pos ⟨h1, h2, h3⟩]

/-- `"abc".join` at the beginning of a file: STRING, `.`, NAME, NEWLINE — finding 18's shape. -/
def joinWitness : List Token :=
  [⟨.string, "\"abc\"".toList, 1, 0, 1, 5⟩, ⟨.other, ".".toList, 1, 5, 1, 6⟩,
   ⟨.other, "join".toList, 1, 6, 1, 10⟩, ⟨.newline, "\n".toList, 1, 10, 1, 11⟩]

example : postprocess joinWitness = "\"abc\".join".toList := by decide
example : docStmtB joinWitness 0 = false := by decide

/-- A module docstring after a blank first line (finding 21, repaired by decc026): NL, STRING, NEWLINE. -/
def blankThenDocstring : List Token :=
  [⟨.nl, "\n".toList, 1, 0, 1, 1⟩, ⟨.string, "\"doc\"".toList, 2, 0, 2, 5⟩,
   ⟨.newline, "\n".toList, 2, 5, 2, 6⟩, ⟨.other, "x".toList, 3, 0, 3, 1⟩]

example : postprocess blankThenDocstring = "x".toList := by decide

/-- A docstring followed by a trailing comment (finding 36, repaired by 4b0a4d7):
STRING, COMMENT, NEWLINE, `x` — the STRING is a `DocStmt` and goes at the first cleaning. -/
def docstringThenComment : List Token :=
  [⟨.string, "\"doc\"".toList, 1, 0, 1, 5⟩, ⟨.comment, "# c".toList, 1, 6, 1, 9⟩,
   ⟨.newline, "\n".toList, 1, 9, 1, 10⟩, ⟨.other, "x".toList, 2, 0, 2, 1⟩]

example : docStmtB docstringThenComment 0 = true := by decide
example : postprocess docstringThenComment = "x".toList := by decide

/-- **C13 (the loop never raises)** — since 4b0a4d7 the look-ahead is total: `full_cleaning` fails only
when the tokenizer does. (This restates the shape of `fullCleaning`; kept as a reminder that the former
IndexError on a last STRING token is gone.) -/
theorem C13_cleaning_total {ε : Type} (parse : Text → Option (List IfStmt))
    (parseStmts : Text → Option (List Stmt))
    (tokenize : Text → Except ε (List Token)) (src : Text) (ts : List Token)
    (h : tokenize (preprocess parse parseStmts src) = .ok ts) :
    fullCleaning parse parseStmts tokenize src = .ok (postprocess ts) := by
  simp [fullCleaning, h]

/-- **C13 (f-string braces)** — repair 2488bc4 (finding 19). An FSTRING_MIDDLE token is emitted with
each of its (halved) braces doubled again. -/
theorem C13_fstring_braces (ts : List Token) (i : Nat) (h : i < ts.length)
    (hk : ts[i].kind = .fstringMiddle) :
    ((loop ts)[i]'(by rw [loop, loopFrom_length]; exact h)).piece = .verbatim (doubleBraces ts[i].str) := by
  simp only [loop]
  rw [loopFrom_getElem _ _ _ h, step_piece]
  simp [hk]

example : doubleBraces "{a}".toList = "{{a}}".toList := by decide
/-- the braces of a named escape are left alone (finding 44, `f"\N{DIGIT ONE}"`) -/
example : doubleBraces "{\\N{DIGIT ONE}}x}".toList = "{{\\N{DIGIT ONE}}}x}}".toList := by decide

/-! ## Hints and the first lines -/

/-- **C13 (first comments).** `suppress_first_comments` removes a block of leading lines that all
begin with `#` and none of which carries the hint marker (anywhere), and nothing else: the lines of the
text are the removed block followed by the lines of the result. -/
theorem C13_first_comments_only (t : Text) :
    ∃ dropped, splitNl t = dropped ++ splitNl (suppressFirstComments t) ∧
      ∀ l ∈ dropped, l ∈ (splitNl t).takeWhile startsWithHash ∧ isHintLine l = false := by
  obtain ⟨d, hd, hmem, hne⟩ := dropLeadingComments_spec (splitNl t) (splitNl_no_nl t)
  refine ⟨d, ?_, hmem⟩
  unfold suppressFirstComments
  rw [splitNl_joinNl _ (hne (splitNl_ne_nil t))]
  · exact hd
  · intro l hl
    apply splitNl_no_nl t l
    rw [hd]
    exact List.mem_append_right _ hl

/-- **C13 (hints kept, first line included)** — FULL since repairs e959b88 (finding 8) and 643e8d6
(finding 37). Every line that carries a hint marker — wherever the marker stands in the line,
`# paroxython: foo` and `# x # paroxython: foo` on the first line included — is a line of the result
of `suppress_first_comments`. -/
theorem C13_hints_kept (t : Text) (l : Line) (hl : l ∈ splitNl t) (hh : isHintLine l = true) :
    l ∈ splitNl (suppressFirstComments t) := by
  obtain ⟨d, hd, hmem⟩ := C13_first_comments_only t
  rw [hd] at hl
  rcases List.mem_append.mp hl with h | h
  · have := (hmem l h).2
    rw [hh] at this
    cases this
  · exact h

example : suppressFirstComments "# paroxython: foo\nx = 1\n".toList = "# paroxython: foo\nx = 1\n".toList := by
  decide
example : suppressFirstComments "#!shebang\n# c\n#Paroxython : foo\n# d\nx".toList =
    "#Paroxython : foo\n# d\nx".toList := by decide
/-- finding 37's shape: the marker after a later `#` of the first line -/
example : suppressFirstComments "# x # paroxython: foo\ny".toList = "# x # paroxython: foo\ny".toList := by
  decide
example : isHintLine "# x # paroxython: foo".toList = true := by decide

/-! ## The main guard (findings F20 and F43, repaired by 9ee7189 and the structural recognition) -/

/-- **C13 (main guard)** — FULL. The parser being an oracle that reports the top-level `if` statements
with their line ranges (`RangesOk`: in bounds, one after the other) and whether their TEST is
`__name__ == '__main__'` — however it is spelled: tabs, several spaces, a backslash continuation,
parentheses, any quotes — the pass removes exactly the lines of the guarded `if` statements and keeps
every other line, in order (`keepOutsideGuards`): what FOLLOWS a guarded block survives, and a guard
is removed at the FIRST cleaning whatever its layout. -/
theorem C13_main_guard (t : Text) (ifs : List IfStmt) (hok : RangesOk 0 (splitNl t).length ifs) :
    suppressMainGuard (some ifs) t = joinNl (keepOutsideGuards 0 (splitNl t) ifs) := by
  have := dropGuards_reverse ifs 0 (splitNl t) [] rfl hok
  simp only [List.nil_append] at this
  simp only [suppressMainGuard, this]

/-- A source that the parser rejects is left unchanged (restates the model: an `example`). -/
example (t : Text) : suppressMainGuard none t = t := rfl

/-- the code after the guarded block survives (finding 20's shape) -/
example : suppressMainGuard (some [⟨1, 2, true⟩]) "if __name__ == \"__main__\":\n    main()\nx = 2\n".toList =
    "x = 2\n".toList := by decide
/-- a guard written with a tab and a backslash continuation goes at once (finding 43's shape) -/
example : suppressMainGuard (some [⟨1, 3, true⟩]) "if\t__name__ == \\\n  \"__main__\":\n    main()\nx = 2".toList =
    "x = 2".toList := by decide
set_option maxRecDepth 4000 in
/-- an ordinary `if` is kept; a guard with an `else:` branch goes as a whole; two guards -/
example : suppressMainGuard (some [⟨1, 2, false⟩, ⟨4, 7, true⟩, ⟨9, 9, true⟩])
    "if x:\n    y = 1\nz = 1\nif __name__ == '__main__':\n    a()\nelse:\n    b()\n# paroxython: foo\nif __name__==\"__main__\": main()\nw = 1".toList =
    "if x:\n    y = 1\nz = 1\n# paroxython: foo\nw = 1".toList := by decide

/-! ## `sys.path` injections (findings F42 and F50) -/

/-- **C13 (injection statements)** — FULL since repair F50. The parser being an oracle that reports ALL
the top-level statements with their line ranges and whether they start at column 0 (`RangesOk` on those
at column 0: in bounds, one after the other), the pass removes exactly the lines `lineno … end_lineno`
of the column-0 statements whose FIRST LINE is an injection (`__import__("sys").path[0:0] = …`), and
keeps every other line, in order (`keepOutsideGuards` on `injectionMarks`): a statement written on
several lines goes with ALL its lines, and the test of the first line — which the loop makes on the
list of lines as it is after the deletions already done — is the test on the line of the SOURCE. -/
theorem C13_injection_statements (t : Text) (ss : List Stmt)
    (hok : RangesOk 0 (splitNl t).length (injectionMarks (splitNl t) ss)) :
    suppressSysPath (some ss) t = joinNl (keepOutsideGuards 0 (splitNl t) (injectionMarks (splitNl t) ss)) := by
  have := dropInjectionStmts_reverse ss 0 (splitNl t) [] rfl (by simpa using hok)
  simp only [List.nil_append] at this
  simp only [suppressSysPath, this]

/-- A source that the parser rejects is left unchanged (restates the model). -/
example (t : Text) : suppressSysPath none t = t := rfl

/-- **C13 (no injection statement is kept, no other statement is dropped).** The ranges the pass walks
through are the column-0 statements, and a range is dropped iff the first line of the statement is an
injection: a kept top-level statement is not an injection, a dropped one is. -/
theorem C13_injection_marks (ls : List Line) (ss : List Stmt) (r : IfStmt) (hr : r ∈ injectionMarks ls ss) :
    (∃ s ∈ ss, s.col0 = true ∧ r.lineno = s.lineno ∧ r.endLineno = s.endLineno) ∧
    (r.isGuard = true ↔ isInjection (ls.getD (r.lineno - 1) []) = true) := by
  simp only [injectionMarks, List.mem_map, List.mem_filter] at hr
  obtain ⟨s, ⟨hs, hc⟩, rfl⟩ := hr
  exact ⟨⟨s, hs, hc, rfl, rfl⟩, Iff.rfl⟩

/-- **C13 (a multi-line injection goes with ALL its lines)**: the only statement of the text, at
column 0, spanning every line, its first line an injection — nothing is left. -/
theorem C13_injection_whole_statement (t : Text) (n : Nat) (hn : (splitNl t).length = n)
    (h1 : isInjection ((splitNl t).getD 0 []) = true) :
    suppressSysPath (some [⟨1, n, true⟩]) t = [] := by
  subst hn
  have hpos : 0 < (splitNl t).length := List.length_pos_iff.mpr (splitNl_ne_nil t)
  rw [C13_injection_statements]
  · rw [List.getD_eq_getElem?_getD] at h1
    simp [injectionMarks, keepOutsideGuards, h1, joinNl]
  · simp only [injectionMarks, List.filter_cons, List.filter_nil, List.map_cons, List.map_nil, if_true,
      RangesOk, and_true]
    omega

/-- **C13 (injection lines — the single-line case, the former `C13_injections`)**. When every injection
statement is written on ONE line and every injection line of the text is the first line of a column-0
statement (no injection-looking line inside a string or a continuation), the statement-level pass does
what the former line-level theorem said: no line of the result is an injection, and the lines kept are
the lines of the text that are not injections, in order (here without the "modulo empty lines" of the
former statement: the last line goes like the others). -/
theorem C13_injections (t : Text) (ss : List Stmt)
    (hok : RangesOk 0 (splitNl t).length (injectionMarks (splitNl t) ss))
    (hone : ∀ r ∈ injectionMarks (splitNl t) ss, r.isGuard = true → r.lineno = r.endLineno)
    (hall : ∀ i, i < (splitNl t).length → isInjection ((splitNl t).getD i []) = true →
      ∃ r ∈ injectionMarks (splitNl t) ss, r.lineno = i + 1) :
    suppressSysPath (some ss) t = joinNl ((splitNl t).filter fun l => !isInjection l) ∧
    (∀ l ∈ splitNl (suppressSysPath (some ss) t), isInjection l = false) ∧
    (splitNl (suppressSysPath (some ss) t)).filter (fun l => !l.isEmpty) =
      ((splitNl t).filter fun l => !isInjection l).filter (fun l => !l.isEmpty) := by
  have hk := keepOutside_single_line (injectionMarks (splitNl t) ss) 0 (splitNl t) hok hone
    (fun r hr => by
      simp only [injectionMarks, List.mem_map, List.mem_filter] at hr
      obtain ⟨s, _, rfl⟩ := hr
      rfl)
    (fun i hi h => by simpa using hall i hi h)
  have heq : suppressSysPath (some ss) t = joinNl ((splitNl t).filter fun l => !isInjection l) := by
    rw [C13_injection_statements t ss hok, hk]
  refine ⟨heq, ?_⟩
  rw [heq]
  by_cases hnil : ((splitNl t).filter fun l => !isInjection l) = []
  · rw [hnil]
    simp [joinNl, splitNl, isInjection_nil]
  · rw [splitNl_joinNl _ hnil (fun l hl => splitNl_no_nl t l (List.mem_filter.mp hl).1)]
    exact ⟨fun l hl => by simpa using (List.mem_filter.mp hl).2, rfl⟩

/-- the former example: hypotheses hold, the last line goes -/
example : suppressSysPath (some [⟨1, 1, true⟩, ⟨2, 2, true⟩]) "x = 1\n__import__(\"sys\").path[0:0] = [\"a\"]".toList =
    joinNl ((splitNl "x = 1\n__import__(\"sys\").path[0:0] = [\"a\"]".toList).filter fun l => !isInjection l) := by decide

/-- the three inputs of finding F50 (the parser's answer is what `ast.parse` reports) -/
example : suppressSysPath (some [⟨1, 4, true⟩, ⟨6, 6, true⟩])
    "__import__(\"sys\").path[0:0] = [\n    \"a\",\n    \"b\",\n]\n# comment\nx = 1\n".toList =
    "# comment\nx = 1\n".toList := by decide
example : suppressSysPath (some [⟨1, 2, true⟩, ⟨4, 4, true⟩])
    "__import__(\"sys\").path[0:0] = [\"a\",\n \"b\"]\n# comment\nx = 1\n".toList =
    "# comment\nx = 1\n".toList := by decide
/-- ragged continuation lines -/
example : suppressSysPath (some [⟨1, 3, true⟩, ⟨5, 5, true⟩])
    "__import__(\"sys\").path[0:0] = [\n        \"a\",\n    \"b\"]\n# comment\nx = 1\n".toList =
    "# comment\nx = 1\n".toList := by decide
/-- a triple-quoted right-hand side; `; y = 2` after the injection goes with its line; an
injection-looking line inside a triple-quoted string (second statement, lines 4-6) is KEPT -/
example : suppressSysPath (some [⟨1, 3, true⟩, ⟨3, 3, false⟩, ⟨4, 6, true⟩])
    "__import__(\"sys\").path[0:0] = \"\"\"a\nb\n\"\"\".split(); y = 2\ns = \"\"\"\n__import__(\"sys\").path[0:0] = [\"a\"]\n\"\"\"".toList =
    "s = \"\"\"\n__import__(\"sys\").path[0:0] = [\"a\"]\n\"\"\"".toList := by decide
/-- the last line of a text without final newline (finding F42's shape) -/
example : suppressSysPath (some [⟨1, 1, true⟩, ⟨2, 2, true⟩]) "x = 1\n__import__(\"sys\").path[0:0] = [\"a\"]".toList =
    "x = 1".toList := by decide
example : RangesOk 0 6 (injectionMarks (splitNl "__import__(\"sys\").path[0:0] = [\n    \"a\",\n    \"b\",\n]\n# comment\nx = 1\n".toList)
    [⟨1, 4, true⟩, ⟨6, 6, true⟩]) := by simp [injectionMarks, RangesOk]

/-! ## Explicit line joining (finding F33, repaired by 55c4b14) -/

/-- **C13 (rows not glued)** — FULL since repair 55c4b14. A token that starts on a later row than the
previous one ended while the logical line is still open (a backslash continuation: no NEWLINE / NL
token in between) is preceded by at least one space, whatever its column — column 0 included. -/
theorem C13_rows_not_glued (st : LoopState) (t : Token) (nx : Option Kind)
    (ho : st.lineOpen = true) (hr : t.srow > st.perow) : 0 < (step st t nx).2.pad := by
  have hp : (step st t nx).2.pad =
      (if t.srow > st.perow ∧ st.lineOpen = true then 1 else 0) +
        (t.scol - (if t.srow > st.perow then 0 else st.pecol)).toNat := by
    unfold step
    simp only
    split
    · split <;> rfl
    · split
      · rfl
      · split <;> rfl
  rw [hp, if_pos ⟨hr, ho⟩]
  omega

/-- The logical line is open exactly after a token that is neither NEWLINE nor NL (a dropped comment
leaves the flag as it was). -/
theorem C13_line_open (st : LoopState) (t : Token) (nx : Option Kind) :
    (step st t nx).1.lineOpen =
      if t.kind = .comment ∧ isHint t.str = false then st.lineOpen
      else !(t.kind == .newline || t.kind == .nl) := by
  unfold step
  simp only [isHint]
  by_cases hc : t.kind = .comment
  · by_cases hn : (normalizeComment t.str).2 = 0
    · simp [hc, hn]
    · simp [hc, hn]
  · simp only [hc, if_false, false_and]
    split
    · rfl
    · split <;> rfl

/-- `else \` / `second` at column 0: the former counter-example. -/
example : loopText [⟨.other, "else".toList, 1, 0, 1, 4⟩, ⟨.other, "second".toList, 2, 0, 2, 6⟩] =
    "else second".toList := by decide
/-- a token at column 0 after a NEWLINE gets no extra space -/
example : loopText [⟨.other, "x".toList, 1, 0, 1, 1⟩, ⟨.newline, "\n".toList, 1, 1, 1, 2⟩,
    ⟨.other, "y".toList, 2, 0, 2, 1⟩] = "x\ny".toList := by decide

/-! ## The two final text passes -/

/-- **C13 (idempotence of `suppress_blank_lines`).** -/
theorem C13_blank_pass_idempotent (t : Text) :
    suppressBlankLines (suppressBlankLines t) = suppressBlankLines t :=
  suppressBlankLines_idem t

/-- **C13 (idempotence of `suppress_useless_pass_statements`)** — FULL since repair 466f14f (findings
22 and 23): the regex looks ahead instead of consuming the next line's indentation. -/
theorem C13_pass_pass_idempotent (t : Text) :
    suppressUselessPass (suppressUselessPass t) = suppressUselessPass t :=
  suppressUselessPass_idem t

example : suppressUselessPass "  pass\n  pass\n  x".toList = "  x".toList := by decide
/-- finding 23: a hint comment line is not the sibling that makes a `pass` useless -/
example : suppressUselessPass "while x:\n    pass\n    # paroxython: foo".toList =
    "while x:\n    pass\n    # paroxython: foo".toList := by decide
example : suppressUselessPass "pass\n# paroxython: foo\nx".toList = "# paroxython: foo\nx".toList := by decide

end Paroxy.Props.C13
