/-
C13 — Full cleaning removes only noise and keeps the program's structure.   (PARTIAL)

Property theorems only. The model is lean/Paroxy/Model/Cleanup.lean: the text passes of `Cleanup` as
structural functions (R2) and the token loop of `full_cleaning` taking the TOKEN LIST as input.

PROVED here, for every text and every token list (not only those CPython's tokenizer can produce):
  * no line of the result is empty or blank                                   (C13_no_blank_line)
  * a COMMENT token is emitted iff it carries a hint, then in normal form     (C13_only_hint_comments,
    C13_hint_comment_normal_form, C13_hint_tokens_kept)
  * which STRING tokens become `pass` — those at a statement start            (C13_docstring_to_pass)
    and the witness that this is NOT "docstring-like statements only"         (C13_docstring_only_counterexample)
  * `suppress_first_comments` deletes leading `#` lines and nothing else      (C13_first_comments_only),
    hence keeps every hint line unless it stands in that leading block        (C13_hints_kept_partial);
    the witness that a first-line hint is lost                                (C13_hints_kept_counterexample)
  * the two final passes: `suppress_blank_lines` is idempotent                (C13_blank_pass_idempotent);
    `suppress_useless_pass_statements` is not                                 (C13_pass_pass_idempotent_counterexample)
    unless no `pass` line is indented                                         (C13_pass_pass_idempotent_partial)

NOT provable here (CPython's tokenizer and parser are outside the model) — exercised only by
harness/c13.py: the result is valid Python with the same AST modulo the four kinds of noise, invariance
under insertion of comments / blank lines / docstrings, idempotence of the whole cleaning.
-/
import Paroxy.Model.Cleanup
import Paroxy.Spec.Cleanup
import Paroxy.Proofs.Cleanup
import Paroxy.Proofs.CleanupLoop
namespace Paroxy.Props.C13
open Paroxy.Cleanup Paroxy.Cleanup.Spec

/-! ## No blank line -/

/-- **C13 (no blank line).** Whatever the token list, the text that `full_cleaning` returns has no
empty or blank line (it may be the empty text). -/
theorem C13_no_blank_line (ts : List Token) : NoBlankLine (postprocess ts) :=
  finish_noBlankLine (loopText ts)

/-- The same for `full_cleaning` itself, whatever the tokenizer answers (it may raise). -/
theorem C13_no_blank_line_full {ε : Type} (tokenize : Text → Except ε (List Token)) (src out : Text)
    (h : fullCleaning tokenize src = .ok out) : NoBlankLine out := by
  unfold fullCleaning at h
  cases ht : tokenize (preprocess src) with
  | error e => simp [ht, bind, Except.bind] at h
  | ok ts =>
    simp only [ht, bind, Except.bind, pure, Except.pure, Except.ok.injEq] at h
    rw [← h]
    exact C13_no_blank_line ts

/-- The executable form used by the harness on the implementation's outputs is the same predicate. -/
theorem C13_noBlankLineB_iff (t : Text) : noBlankLineB t = true ↔ NoBlankLine t := by
  simp [noBlankLineB, NoBlankLine, List.isEmpty_iff]

example : NoBlankLine "x = 1\n  y".toList := (C13_noBlankLineB_iff _).mp (by decide)
example : ¬ NoBlankLine "x = 1\n  \ny".toList := fun h => by
  have := (C13_noBlankLineB_iff _).mpr h
  revert this
  decide

/-! ## Comments -/

/-- **C13 (only hint comments).** For every token list and every position `i`: a COMMENT token is
dropped when it carries no hint marker and is emitted in normal form when it does; no other token
is emitted as a comment or dropped. -/
theorem C13_only_hint_comments (ts : List Token) (i : Nat) (h : i < ts.length) :
    let e := (loop ts)[i]'(by rw [loop, loopFrom_length]; exact h)
    (ts[i].kind = .comment →
        e.piece = if isHint ts[i].str then .hint (normalizeComment ts[i].str).1 else .dropped) ∧
    (ts[i].kind ≠ .comment → e.piece ≠ .dropped ∧ ∀ s, e.piece ≠ .hint s) := by
  simp only [loop]
  rw [loopFrom_getElem _ _ _ h, step_piece]
  constructor
  · intro hc
    simp only [hc, if_true, isHint, bne_iff_ne, ne_eq, ite_not]
  · intro hc
    simp only [hc, if_false]
    split <;> simp

/-- `isHint`, declaratively: the marker regex `#\s*paroxython\s*:\s*` (any case; `markerRest?` is its
structural transcription) matches at some position of the comment. -/
theorem C13_isHint_iff (s : Text) :
    isHint s = true ↔ ∃ a b, s = a ++ b ∧ (markerRest? b).isSome = true := by
  rw [← normAux_zero_count]
  simp [isHint, normalizeComment]

/-- **C13 (normal form).** The emitted form of a hint comment contains `# paroxython: ` literally. -/
theorem C13_hint_comment_normal_form (s : Text) (h : isHint s = true) :
    ∃ a b, (normalizeComment s).1 = a ++ "# paroxython: ".toList ++ b := by
  have : (normAux 0 s).2 ≠ 0 := by simpa [isHint, normalizeComment] using h
  exact normAux_marker 0 s this

example : isHint "#Paroxython :  foo".toList = true := by decide
example : (normalizeComment "x #Paroxython :  foo".toList).1 = "x # paroxython: foo".toList := by decide
example : isHint "# paroxython foo".toList = false := by decide

/-- **C13 (hints kept by the loop).** Every hint comment of the token list is in the joined output of
the loop, in normal form. -/
theorem C13_hint_tokens_kept (ts : List Token) (i : Nat) (h : i < ts.length)
    (hc : ts[i].kind = .comment) (hh : isHint ts[i].str = true) :
    ∃ a b, loopText ts = a ++ (normalizeComment ts[i].str).1 ++ b := by
  have hsplit : ts = ts.take i ++ ts[i] :: ts.drop (i + 1) := by
    rw [List.getElem_cons_drop, List.take_append_drop]
  have hp : (step (stateAfter .init (ts.take i)) ts[i]).2.piece = .hint (normalizeComment ts[i].str).1 := by
    rw [step_piece]
    have : (normalizeComment ts[i].str).2 ≠ 0 := by simpa [isHint] using hh
    simp [hc, this]
  have key : loopFrom .init ts = loopFrom .init (ts.take i) ++
      loopFrom (stateAfter .init (ts.take i)) (ts[i] :: ts.drop (i + 1)) := by
    conv => lhs; rw [hsplit]
    exact loopFrom_append _ _ _
  unfold loopText loop
  rw [key, List.flatMap_append]
  simp only [loopFrom, List.flatMap_cons, Emit.text, hp, Piece.text]
  exact ⟨List.flatMap Emit.text (loopFrom .init (ts.take i)) ++
      List.replicate (step (stateAfter .init (ts.take i)) ts[i]).2.pad ' ',
    List.flatMap Emit.text (loopFrom (step (stateAfter .init (ts.take i)) ts[i]).1 (ts.drop (i + 1))),
    by simp only [List.append_assoc]⟩

/-! ## Docstrings -/

/-- **C13 (docstring → pass).** What the loop really does with STRING tokens: token `i` is replaced
by `pass` exactly when it is a STRING at a statement start (`AtStmtStart`: nothing but dropped
comments before it, or the last token seen is INDENT / DEDENT / NEWLINE, or a run of NL after a
NEWLINE). What FOLLOWS the string is not looked at. -/
theorem C13_docstring_to_pass (ts : List Token) (i : Nat) (h : i < ts.length) :
    ((loop ts)[i]'(by rw [loop, loopFrom_length]; exact h)).piece = .pass ↔
      (ts[i].kind = .string ∧ AtStmtStart (ts.take i)) := by
  simp only [loop]
  rw [loopFrom_getElem _ _ _ h, step_piece, ← atStmtStartB_iff, ← stateAfter_init_opens]
  by_cases hc : ts[i].kind = .comment
  · simp only [hc, if_true]
    constructor
    · intro h'; split at h' <;> cases h'
    · rintro ⟨h', _⟩; cases h'
  · simp only [hc, if_false]
    constructor
    · intro h'
      split at h'
      · assumption
      · cases h'
    · intro h'; simp [h']

/-- What the property needs: only docstring-like string *statements* are replaced. -/
def C13_docstring_only : Prop :=
  ∀ (ts : List Token) (i : Nat) (h : i < ts.length),
    ((loop ts)[i]'(by rw [loop, loopFrom_length]; exact h)).piece = .pass → docstringLikeB ts i = true

/-- `"abc".join` at the beginning of a file: STRING, `.`, NAME, NEWLINE. -/
def joinWitness : List Token :=
  [⟨.string, "\"abc\"".toList, 1, 0, 1, 5⟩, ⟨.other, ".".toList, 1, 5, 1, 6⟩,
   ⟨.other, "join".toList, 1, 6, 1, 10⟩, ⟨.newline, "\n".toList, 1, 10, 1, 11⟩]

/-- **Finding 18 at model level.** A statement that merely *begins* with a string literal loses it:
`"abc".join` becomes `pass` / `.join`, of which the last pass then removes the `pass`: `.join`. -/
theorem C13_docstring_only_counterexample : ¬ C13_docstring_only := by
  intro h
  have := h joinWitness 0 (by decide) (by decide)
  revert this
  decide

example : loopText joinWitness = "pass\n.join\n".toList := by decide
example : postprocess joinWitness = ".join".toList := by decide

/-! ## Hints and the first lines -/

/-- **C13 (first comments).** `suppress_first_comments` removes a block of leading lines that all
begin with `#`, and nothing else: the lines of the text are the removed block followed by the lines of
the result. -/
theorem C13_first_comments_only (t : Text) :
    ∃ dropped, splitNl t = dropped ++ splitNl (suppressFirstComments t) ∧
      ∀ l ∈ dropped, l ∈ (splitNl t).takeWhile startsWithHash := by
  obtain ⟨d, hd, hmem, hne⟩ := dropLeadingComments_spec (splitNl t)
  refine ⟨d, ?_, hmem⟩
  unfold suppressFirstComments
  rw [splitNl_joinNl _ (hne (splitNl_ne_nil t))]
  · exact hd
  · intro l hl
    apply splitNl_no_nl t l
    rw [hd]
    exact List.mem_append_right _ hl

/-- What the property says ("keeps every hint wherever its comment was, first line included"), for
the first text pass. -/
def C13_hints_kept : Prop :=
  ∀ (t : Text) (l : Line), l ∈ splitNl t → isHintLine l = true → l ∈ splitNl (suppressFirstComments t)

/-- **C13 (hints kept), partial.** Hypothesis = complement of finding 8's input class: no hint in the
leading block of `#` lines. -/
theorem C13_hints_kept_partial (t : Text)
    (hyp : ∀ l ∈ (splitNl t).takeWhile startsWithHash, isHintLine l = false) (l : Line)
    (hl : l ∈ splitNl t) (hh : isHintLine l = true) : l ∈ splitNl (suppressFirstComments t) := by
  obtain ⟨d, hd, hmem⟩ := C13_first_comments_only t
  rw [hd] at hl
  rcases List.mem_append.mp hl with h | h
  · have := hyp l (hmem l h)
    rw [hh] at this
    cases this
  · exact h

example : ∀ l ∈ (splitNl "# c\nx = 1 # paroxython: foo\n".toList).takeWhile startsWithHash,
    isHintLine l = false := by decide

/-- **Finding 8 at model level.** `# paroxython: foo` on the first line is deleted. -/
theorem C13_hints_kept_counterexample : ¬ C13_hints_kept := by
  intro h
  have := h "# paroxython: foo\nx = 1\n".toList "# paroxython: foo".toList (by decide) (by decide)
  revert this
  decide

/-! ## The two final text passes -/

/-- **C13 (idempotence of `suppress_blank_lines`).** -/
theorem C13_blank_pass_idempotent (t : Text) :
    suppressBlankLines (suppressBlankLines t) = suppressBlankLines t :=
  suppressBlankLines_idem t

/-- What idempotence of the whole needs from the last pass. -/
def C13_pass_pass_idempotent : Prop :=
  ∀ t : Text, suppressUselessPass (suppressUselessPass t) = suppressUselessPass t

/-- **New finding at model level.** Two equally indented `pass` lines before a sibling: the regex
consumes the indentation of the second one, which is then no longer at a line start; one cleaning
removes only the first, the next cleaning removes the second. -/
theorem C13_pass_pass_idempotent_counterexample : ¬ C13_pass_pass_idempotent := by
  intro h
  have := h "  pass\n  pass\n  x".toList
  revert this
  decide

/-- **C13 (idempotence of `suppress_useless_pass_statements`), partial.** Hypothesis = complement of
the finding's input class: no `pass` line of the text is indented. -/
theorem C13_pass_pass_idempotent_partial (t : Text) (h : NoIndentedPass (splitNl t)) :
    suppressUselessPass (suppressUselessPass t) = suppressUselessPass t :=
  suppressUselessPass_idem t h

example : NoIndentedPass (splitNl "pass\npass\nif x:\n    y = 1\npass".toList) := by
  intro l hl k hk
  have : ∀ l ∈ splitNl "pass\npass\nif x:\n    y = 1\npass".toList,
      passIndent? l = none ∨ passIndent? l = some 0 := by decide
  rcases this l hl with h | h <;> rw [h] at hk <;> simp at hk
  exact hk.symm

example : suppressUselessPass "pass\npass\nif x:\n    y = 1\npass".toList = "if x:\n    y = 1\npass".toList := by
  decide

end Paroxy.Props.C13
