/-
C16 — Predicate spellings normalise to the intended relation or are rejected.

`names` is the dictionary of the *generated* table (162 keys + alias updates resolved in order),
so the theorems are re-checked against compare_spans.py on every run; `NP.normalize` is the
hand-written model of normalize_predicate.py (tied by correspondence, harness/c16.py).
-/
import Paroxy.Gen.CompareSpans
import Paroxy.Spec.NormalizePredicate
import Paroxy.Proofs.NormalizePredicate
import Paroxy.Proofs.NormalizeAbbrev
import Paroxy.Proofs.NormalizeSpace
namespace Paroxy.Props.C16
open Paroxy Paroxy.Spec Paroxy.NP Paroxy.Spec.NP

/-- **C16 (total).** Whatever the input string, the model either fails (`ValueError`) or returns
one of the 162 keys of the table: no other outcome. -/
theorem C16_total (s : Str) (r : Codes × Bool) (h : normalize names s = some r) :
    ∃ k ∈ allKeys, r.1 = k.codes :=
  normalize_total s r h

/-- **C16 (canonical).** Each of the 162 canonical keys resolves to itself, not negated: no silent
change of relation. -/
theorem C16_canonical (k : Key) (hk : k ∈ allKeys) : normalize names k.codes = some (k.codes, false) := by
  have h : allKeys.all (fun k => normalize names k.codes == some (k.codes, false)) = true := by
    decide +kernel
  exact beq_iff_eq.mp (List.all_eq_true.mp h k hk)

/-- **C16 (names).** Each of the 13 Allen names and 6 synonyms resolves to the key the manual gives
for it, not negated. -/
theorem C16_names (n : Codes) (k : Key) (h : (n, k) ∈ aliases) :
    normalize names n = some (k.codes, false) := by
  have h' : aliases.all (fun p => normalize names p.1 == some (p.2.codes, false)) = true := by
    decide +kernel
  exact beq_iff_eq.mp (List.all_eq_true.mp h' (n, k) h)

/-- **C16 (abbreviations).** `x=y`, `y=x` and formulas with a single `x` and/or a single `y`. -/
theorem C16_abbrev (s : Str) (k : Key) (h : (s, k) ∈ abbreviations) :
    normalize names s = some (k.codes, false) := by
  have h' : abbreviations.all (fun p => normalize names p.1 == some (p.2.codes, false)) = true := by
    decide +kernel
  exact beq_iff_eq.mp (List.all_eq_true.mp h' (s, k) h)

/-- **C16 (abbreviations, all keys).** Every key that has an adjacent pair `x≤x` (resp. `y≤y`) may be
written with a single `x` (resp. `y`), or both: all 58 such spellings of the 162 keys resolve to their
key, not negated — not only the samples of `abbreviations`. (`x=y` and `y=x`, which would abbreviate
`x≤x=y≤y` and `y≤y=x≤x`, are the manual's spelling of the identity: `C16_abbrev`.) -/
theorem C16_abbrev_all (s : Codes) (k : Key) (h : (s, k) ∈ allAbbrevs) :
    normalize names s = some (k.codes, false) := by
  have h' : allAbbrevs.all (fun p => normalize names p.1 == some (p.2.codes, false)) = true := by
    decide +kernel
  exact beq_iff_eq.mp (List.all_eq_true.mp h' (s, k) h)

example : allAbbrevs.length = 58 := by decide +kernel
example : (codesOf "x<y≤y", (⟨.x, .x, .y, .y, .le, .lt, .le⟩ : Key)) ∈ allAbbrevs := by decide +kernel

/-- **C16 (formula spellings, all junk).** Every formula spelling of every key — operands in
either case with optional index digits, operators canonical or `<=`/`==`, *arbitrary* junk
(spaces, parentheses, digits, … : any ASCII non-letters other than `< = !`) around and between the
tokens — resolves to that key, not negated. Unbounded in the junk strings. -/
theorem C16_formula (k : Key) (hk : k ∈ allKeys) (st : FormulaStyle) (hj : st.junkOk = true) :
    normalize names (renderFormula k st) = some (k.codes, false) :=
  normalize_formula k hk st hj

/-- The same with a leading `!` (and any spaces around it): negated. -/
theorem C16_formula_bang (k : Key) (hk : k ∈ allKeys) (st : FormulaStyle) (hj : st.junkOk = true)
    (a b : Nat) :
    normalize names (List.replicate a 32 ++ 33 :: List.replicate b 32 ++ renderFormula k st) =
      some (k.codes, true) :=
  normalize_formula_bang k hk st hj a b

-- Non-vacuity: `Y1 <  x1 ==(X2) <= y2` is a formula spelling of `y<x=x≤y`.
example : renderFormula ⟨.y, .x, .x, .y, .lt, .eq, .le⟩
    { s1 := { upper := true, index := some 1 }, s2 := { index := some 1 },
      s3 := { upper := true, index := some 2 }, s4 := { index := some 2 },
      p2 := .ascii, p3 := .ascii,
      j1 := [32], j2 := [32, 32], j3 := [32], j4 := [40], j5 := [41, 32], j6 := [32] } =
    codesOf "Y1 <  x1 ==(X2) <= y2" := by decide +kernel
example : (⟨.y, .x, .x, .y, .lt, .eq, .le⟩ : Key) ∈ allKeys := by decide

/-! ### Decorated formula spellings (negation words, the verb `is`)

In all of the following: `k` any of the 162 keys, `st` any style with arbitrary junk strings
(`junkOk`: ASCII non-letters other than `< = !`, so digits, `_`, spaces, tabs, parentheses … are
allowed, also adjacent to the decoration — extra spaces before/after the formula are part of
`st.j0`/`st.j7`); `ws`, `ws'`, `ws2` any strings of ASCII whitespace; `wN` ANY string whose
lower-casing is `not` (`not`, `NOT`, `Not`, …), `wI` any string whose lower-casing is `is`.
The single literal space (32) next to `not`/`is` is the one the Python code removes with the word.
No side condition on the junk adjacent to the decoration is needed (see the adversarial examples
at the end of the section). -/

/-- `not F` ↦ negated. -/
theorem C16_formula_not_prefix (k : Key) (hk : k ∈ allKeys) (st : FormulaStyle) (hj : st.junkOk = true)
    {ws wN : Str} (hws : ws.all isSpace = true) (hN : lower wN = sNot) :
    normalize names (ws ++ wN ++ 32 :: renderFormula k st) = some (k.codes, true) :=
  formula_not_prefix k hk st (styleOk_of_junkOk hj) hws hN

/-- The same in the concrete form `a` spaces, `not`, `b+1` spaces, formula. -/
theorem C16_formula_not_prefix_spaces (k : Key) (hk : k ∈ allKeys) (st : FormulaStyle) (hj : st.junkOk = true)
    (a b : Nat) :
    normalize names (List.replicate a 32 ++ codesOf "not" ++ List.replicate (b + 1) 32 ++ renderFormula k st) =
      some (k.codes, true) :=
  formula_not_prefix_spaces k hk st (styleOk_of_junkOk hj) a b

/-- `F not` ↦ negated (trailing whitespace after `not` is stripped first, so `not\s+` never fires). -/
theorem C16_formula_not_suffix (k : Key) (hk : k ∈ allKeys) (st : FormulaStyle) (hj : st.junkOk = true)
    {ws wN : Str} (hws : ws.all isSpace = true) (hN : lower wN = sNot) :
    normalize names (renderFormula k st ++ 32 :: wN ++ ws) = some (k.codes, true) :=
  formula_not_suffix k hk st (styleOk_of_junkOk hj) hws hN

/-- `is F` ↦ not negated: the verb is ignored. -/
theorem C16_formula_is_prefix (k : Key) (hk : k ∈ allKeys) (st : FormulaStyle) (hj : st.junkOk = true)
    {ws wI : Str} (hws : ws.all isSpace = true) (hI : lower wI = sIs) :
    normalize names (ws ++ wI ++ 32 :: renderFormula k st) = some (k.codes, false) :=
  formula_is_prefix k hk st (styleOk_of_junkOk hj) hws hI

/-- `F is` ↦ not negated. -/
theorem C16_formula_is_suffix (k : Key) (hk : k ∈ allKeys) (st : FormulaStyle) (hj : st.junkOk = true)
    {ws wI : Str} (hws : ws.all isSpace = true) (hI : lower wI = sIs) :
    normalize names (renderFormula k st ++ 32 :: wI ++ ws) = some (k.codes, false) :=
  formula_is_suffix k hk st (styleOk_of_junkOk hj) hws hI

/-- `is not F` ↦ negated. -/
theorem C16_formula_is_not (k : Key) (hk : k ∈ allKeys) (st : FormulaStyle) (hj : st.junkOk = true)
    {ws ws2 wI wN : Str} (hws : ws.all isSpace = true) (hws2 : ws2.all isSpace = true)
    (hI : lower wI = sIs) (hN : lower wN = sNot) :
    normalize names (ws ++ wI ++ 32 :: ws2 ++ wN ++ 32 :: renderFormula k st) = some (k.codes, true) :=
  formula_is_not_prefix k hk st (styleOk_of_junkOk hj) hws hws2 hI hN

/-- `is F not` ↦ negated. -/
theorem C16_formula_is_prefix_not_suffix (k : Key) (hk : k ∈ allKeys) (st : FormulaStyle)
    (hj : st.junkOk = true) {ws ws' wI wN : Str} (hws : ws.all isSpace = true)
    (hws' : ws'.all isSpace = true) (hI : lower wI = sIs) (hN : lower wN = sNot) :
    normalize names (ws ++ wI ++ 32 :: renderFormula k st ++ 32 :: wN ++ ws') = some (k.codes, true) :=
  formula_is_prefix_not_suffix k hk st (styleOk_of_junkOk hj) hws hws' hI hN

/-- `F is not` ↦ negated. -/
theorem C16_formula_is_not_suffix (k : Key) (hk : k ∈ allKeys) (st : FormulaStyle) (hj : st.junkOk = true)
    {ws ws2 wI wN : Str} (hws : ws.all isSpace = true) (hws2 : ws2.all isSpace = true)
    (hI : lower wI = sIs) (hN : lower wN = sNot) :
    normalize names (renderFormula k st ++ 32 :: wI ++ ws2 ++ 32 :: wN ++ ws) = some (k.codes, true) :=
  formula_is_not_suffix k hk st (styleOk_of_junkOk hj) hws hws2 hI hN

/-- `not is F` ↦ negated. -/
theorem C16_formula_not_is (k : Key) (hk : k ∈ allKeys) (st : FormulaStyle) (hj : st.junkOk = true)
    {ws ws2 wI wN : Str} (hws : ws.all isSpace = true) (hws2 : ws2.all isSpace = true)
    (hI : lower wI = sIs) (hN : lower wN = sNot) :
    normalize names (ws ++ wN ++ 32 :: ws2 ++ wI ++ 32 :: renderFormula k st) = some (k.codes, true) :=
  formula_not_is_prefix k hk st (styleOk_of_junkOk hj) hws hws2 hI hN

/-- `! is F` ↦ negated. -/
theorem C16_formula_bang_is (k : Key) (hk : k ∈ allKeys) (st : FormulaStyle) (hj : st.junkOk = true)
    {ws ws2 wI : Str} (hws : ws.all isSpace = true) (hws2 : ws2.all isSpace = true) (hI : lower wI = sIs) :
    normalize names (ws ++ 33 :: ws2 ++ wI ++ 32 :: renderFormula k st) = some (k.codes, true) :=
  formula_bang_is_prefix k hk st (styleOk_of_junkOk hj) hws hws2 hI

/-- `! F is` ↦ negated. -/
theorem C16_formula_bang_is_suffix (k : Key) (hk : k ∈ allKeys) (st : FormulaStyle) (hj : st.junkOk = true)
    {ws ws' wI : Str} (hws : ws.all isSpace = true) (hws' : ws'.all isSpace = true) (hI : lower wI = sIs) :
    normalize names (ws ++ 33 :: renderFormula k st ++ 32 :: wI ++ ws') = some (k.codes, true) :=
  formula_bang_is_suffix k hk st (styleOk_of_junkOk hj) hws hws' hI

/-- **Every decoration of the specification's list** (`Spec.NP.decorations`, the 18 forms the
harness renders: `!`, `not `, ` not`, `is `, ` is`, `is not `, ` is not`, `is … not`, `!is `, with
case and spacing variants) **around every formula spelling** gives the key and the decoration's
negation flag. -/
theorem C16_formula_decorated (k : Key) (hk : k ∈ allKeys) (st : FormulaStyle) (hj : st.junkOk = true)
    (d : Str × Str × Bool) (hd : d ∈ decorations) :
    normalize names (d.1 ++ renderFormula k st ++ d.2.1) = some (k.codes, d.2.2) :=
  formula_spec_decorated k hk st (styleOk_of_junkOk hj) d hd

-- Non-vacuity of the hypotheses.
example : lower (codesOf "NoT") = sNot := by decide
example : lower (codesOf "IS") = sIs := by decide
example : (codesOf " \t").all isSpace = true := by decide
example : (codesOf "Is Not ", codesOf " ", true) ∈ decorations := by decide +kernel
-- `\tNOT  (x1<X2)==y1<= Y2_` is an instance of `C16_formula_not_prefix`.
example : codesOf "\t" ++ codesOf "NOT" ++ 32 :: renderFormula ⟨.x, .x, .y, .y, .lt, .eq, .le⟩
    { s1 := { index := some 1 }, s2 := { upper := true, index := some 2 }, s3 := { index := some 1 },
      s4 := { upper := true, index := some 2 }, p2 := .ascii, p3 := .ascii,
      j0 := [32, 40], j3 := [41], j6 := [32], j7 := [95] } =
    codesOf "\tNOT  (x1<X2)==y1<= Y2_" := by decide +kernel
-- Adversarial neighbours of the decoration (digits and `_` are word characters for `\b`; tabs are
-- `\s` but not the literal space that `replace` removes): the results are still the expected ones,
-- which is why the theorems above need no side condition on `st.j0` / `st.j7`.
example : normalize names (codesOf "is 1_x<x<y<y_9 not") = some (codesOf "x<x<y<y", true) := by decide +kernel
example : normalize names (codesOf "x<x<y<y_ is") = some (codesOf "x<x<y<y", false) := by decide +kernel
example : normalize names (codesOf "not _0x<x<y<y\t") = some (codesOf "x<x<y<y", true) := by decide +kernel
example : normalize names (codesOf "x<x<y<y 9 not  ") = some (codesOf "x<x<y<y", true) := by decide +kernel

/-! ### Names under every case mask and decoration -/

/-- **C16 (names, every case).** For each of the 19 names, ANY string `w` whose lower-casing is
the name (every upper/lower-case mask), surrounded by any whitespace, resolves to the name's key. -/
theorem C16_name_case (n : Codes) (k : Key) (h : (n, k) ∈ aliases) {w ws ws' : Str} (hw : lower w = n)
    (hws : ws.all isSpace = true) (hws' : ws'.all isSpace = true) :
    normalize names (ws ++ w ++ ws') = some (k.codes, false) :=
  name_decorated n k h ([], [], false) (by decide +kernel) (by simpa using hw) hws hws'

/-- The case-mask rendering of the specification is such a string. -/
theorem C16_name_mask (n : Codes) (k : Key) (h : (n, k) ∈ aliases) (mask : List Bool) {ws ws' : Str}
    (hws : ws.all isSpace = true) (hws' : ws'.all isSpace = true) :
    normalize names (ws ++ renderName n mask ++ ws') = some (k.codes, false) :=
  C16_name_case n k h
    (renderName_lower n mask (List.all_eq_true.mp aliases_lower (n, k) h)) hws hws'

/-- **C16 (names, decorated).** For each of the 19 names (including the name `is` itself) and
each of the 12 decorations `(pre, post, neg)` of `coreDecorations` (none, `is `, ` is`, `!`, `! `,
`!is `, `! is `, `not `, ` not`, `is not `, ` is not`, `is … not`): ANY string `w` whose
lower-casing is `pre ++ name ++ post` (every case mask of the name and of the words `is`/`not`),
surrounded by any whitespace, resolves to the name's key with the flag `neg`.
(Inner spacing is exactly that of the decoration: extra spaces BETWEEN decoration and name are
not covered by a theorem.) -/
theorem C16_name_decorated (n : Codes) (k : Key) (h : (n, k) ∈ aliases) (d : Str × Str × Bool)
    (hd : d ∈ coreDecorations) {w ws ws' : Str} (hw : lower w = d.1 ++ n ++ d.2.1)
    (hws : ws.all isSpace = true) (hws' : ws'.all isSpace = true) :
    normalize names (ws ++ w ++ ws') = some (k.codes, d.2.2) :=
  name_decorated n k h d hd hw hws hws'

/-- Every decoration of the specification's list (the 18 forms rendered by the harness, with
their own case and spacing) around every case-mask spelling of every name. -/
theorem C16_name_spec_decorated (n : Codes) (k : Key) (h : (n, k) ∈ aliases) (d : Str × Str × Bool)
    (hd : d ∈ decorations) (mask : List Bool) :
    normalize names (d.1 ++ renderName n mask ++ d.2.1) = some (k.codes, d.2.2) :=
  name_spec_decorated n k h d hd mask

-- Non-vacuity: `  Is NOT Started BY ` is covered by `C16_name_decorated`.
example : (codesOf "started by", (⟨.y, .x, .y, .x, .eq, .le, .le⟩ : Key)) ∈ aliases := by decide +kernel
example : (codesOf "is not ", codesOf "", true) ∈ coreDecorations := by decide +kernel
example : lower (codesOf "Is NOT Started BY") = codesOf "is not " ++ codesOf "started by" ++ codesOf "" := by
  decide +kernel
example : renderName (codesOf "inside") [true, false, true] = codesOf "InSide" := by decide +kernel

/-! ### Abbreviated spellings under every decoration (round 10, E3)

`C16_abbrev` / `C16_abbrev_all` above are kernel evaluations over the 60 BARE abbreviations. The
theorems below are general: `k` any of the 162 keys, `ab` any abbreviation the key has
(`ab.applies k`: a single letter for the adjacent pair `c≤c` at letters 1-2, 2-3 or 3-4, for both outer
pairs, or `x=y` / `y=x` for the identity — 60 pairs `(ab, k)` in all, `abbrevPairs`), `st` ANY style:
arbitrary junk strings around and between the kept tokens (`junkOk`), operands in either case with
an optional index digit (the code erases digits, so `X1<y2` is `x<y`), operators canonical or
`<=` / `==`. Same negation markers, `is` variants and side conditions as the `C16_formula_*` family.
They are derived from one fact (`body_lower_abbrev`): the code's expansion step maps the bare
abbreviation to the key (`C16_abbrev_expands`), hence an abbreviated spelling goes through the
pipeline exactly as the full spelling with the same decoration does. -/

/-- The expansion step of the code (`x=y` ↦ `x=y≤x=y`, single `x` ↦ `x≤x`, single `y` ↦ `y≤y`) sends the
salvaged abbreviated spelling where it sends the salvaged FULL spelling with the same decoration: to
the key. Unbounded in the junk. -/
theorem C16_abbrev_expands (k : Key) (hk : k ∈ allKeys) (ab : Abbrev) (ha : ab.applies k = true)
    (st : FormulaStyle) (hj : st.junkOk = true) :
    salvage (lower (renderAbbrev k ab st)) = k.codes ∧
    salvage (lower (renderAbbrev k ab st)) = salvage (lower (renderFormula k st)) := by
  have ok := styleOk_of_junkOk hj
  have h1 := body_salvage (body_lower_abbrev k hk ab ha st ok)
  refine ⟨h1, ?_⟩
  rw [h1, lower_formula k st ok, salvage_formula k hk _ (styleOk_low ok) (isLower_low st)]

/-- **C16 (abbreviations, all junk).** Every abbreviated spelling of every key that has one, under
every admissible decoration, resolves to that key, not negated. -/
theorem C16_abbrev_formula (k : Key) (hk : k ∈ allKeys) (ab : Abbrev) (ha : ab.applies k = true)
    (st : FormulaStyle) (hj : st.junkOk = true) :
    normalize names (renderAbbrev k ab st) = some (k.codes, false) :=
  body_plain hk (body_lower_abbrev k hk ab ha st (styleOk_of_junkOk hj))

/-- With a leading `!` (any white space around it): negated. -/
theorem C16_abbrev_bang (k : Key) (hk : k ∈ allKeys) (ab : Abbrev) (ha : ab.applies k = true)
    (st : FormulaStyle) (hj : st.junkOk = true) {ws ws2 : Str} (hws : ws.all isSpace = true)
    (hws2 : ws2.all isSpace = true) :
    normalize names (ws ++ 33 :: ws2 ++ renderAbbrev k ab st) = some (k.codes, true) :=
  body_bang hk (body_lower_abbrev k hk ab ha st (styleOk_of_junkOk hj)) hws hws2

/-- `not A` ↦ negated. -/
theorem C16_abbrev_not_prefix (k : Key) (hk : k ∈ allKeys) (ab : Abbrev) (ha : ab.applies k = true)
    (st : FormulaStyle) (hj : st.junkOk = true) {ws wN : Str} (hws : ws.all isSpace = true)
    (hN : lower wN = sNot) :
    normalize names (ws ++ wN ++ 32 :: renderAbbrev k ab st) = some (k.codes, true) :=
  body_not_prefix hk (body_lower_abbrev k hk ab ha st (styleOk_of_junkOk hj)) hws hN

/-- `A not` ↦ negated. -/
theorem C16_abbrev_not_suffix (k : Key) (hk : k ∈ allKeys) (ab : Abbrev) (ha : ab.applies k = true)
    (st : FormulaStyle) (hj : st.junkOk = true) {ws wN : Str} (hws : ws.all isSpace = true)
    (hN : lower wN = sNot) :
    normalize names (renderAbbrev k ab st ++ 32 :: wN ++ ws) = some (k.codes, true) :=
  body_not_suffix hk (body_lower_abbrev k hk ab ha st (styleOk_of_junkOk hj)) hws hN

/-- `is A` ↦ not negated. -/
theorem C16_abbrev_is_prefix (k : Key) (hk : k ∈ allKeys) (ab : Abbrev) (ha : ab.applies k = true)
    (st : FormulaStyle) (hj : st.junkOk = true) {ws wI : Str} (hws : ws.all isSpace = true)
    (hI : lower wI = sIs) :
    normalize names (ws ++ wI ++ 32 :: renderAbbrev k ab st) = some (k.codes, false) :=
  body_is_prefix hk (body_lower_abbrev k hk ab ha st (styleOk_of_junkOk hj)) hws hI

/-- `A is` ↦ not negated. -/
theorem C16_abbrev_is_suffix (k : Key) (hk : k ∈ allKeys) (ab : Abbrev) (ha : ab.applies k = true)
    (st : FormulaStyle) (hj : st.junkOk = true) {ws wI : Str} (hws : ws.all isSpace = true)
    (hI : lower wI = sIs) :
    normalize names (renderAbbrev k ab st ++ 32 :: wI ++ ws) = some (k.codes, false) :=
  body_is_suffix hk (body_lower_abbrev k hk ab ha st (styleOk_of_junkOk hj)) hws hI

/-- `is not A` ↦ negated. -/
theorem C16_abbrev_is_not (k : Key) (hk : k ∈ allKeys) (ab : Abbrev) (ha : ab.applies k = true)
    (st : FormulaStyle) (hj : st.junkOk = true) {ws ws2 wI wN : Str} (hws : ws.all isSpace = true)
    (hws2 : ws2.all isSpace = true) (hI : lower wI = sIs) (hN : lower wN = sNot) :
    normalize names (ws ++ wI ++ 32 :: ws2 ++ wN ++ 32 :: renderAbbrev k ab st) = some (k.codes, true) :=
  body_is_not_prefix hk (body_lower_abbrev k hk ab ha st (styleOk_of_junkOk hj)) hws hws2 hI hN

/-- `is A not` ↦ negated. -/
theorem C16_abbrev_is_prefix_not_suffix (k : Key) (hk : k ∈ allKeys) (ab : Abbrev)
    (ha : ab.applies k = true) (st : FormulaStyle) (hj : st.junkOk = true) {ws ws' wI wN : Str}
    (hws : ws.all isSpace = true) (hws' : ws'.all isSpace = true) (hI : lower wI = sIs) (hN : lower wN = sNot) :
    normalize names (ws ++ wI ++ 32 :: renderAbbrev k ab st ++ 32 :: wN ++ ws') = some (k.codes, true) :=
  body_is_prefix_not_suffix hk (body_lower_abbrev k hk ab ha st (styleOk_of_junkOk hj)) hws hws' hI hN

/-- `A is not` ↦ negated. -/
theorem C16_abbrev_is_not_suffix (k : Key) (hk : k ∈ allKeys) (ab : Abbrev) (ha : ab.applies k = true)
    (st : FormulaStyle) (hj : st.junkOk = true) {ws ws2 wI wN : Str} (hws : ws.all isSpace = true)
    (hws2 : ws2.all isSpace = true) (hI : lower wI = sIs) (hN : lower wN = sNot) :
    normalize names (renderAbbrev k ab st ++ 32 :: wI ++ ws2 ++ 32 :: wN ++ ws) = some (k.codes, true) :=
  body_is_not_suffix hk (body_lower_abbrev k hk ab ha st (styleOk_of_junkOk hj)) hws hws2 hI hN

/-- `not is A` ↦ negated. -/
theorem C16_abbrev_not_is (k : Key) (hk : k ∈ allKeys) (ab : Abbrev) (ha : ab.applies k = true)
    (st : FormulaStyle) (hj : st.junkOk = true) {ws ws2 wI wN : Str} (hws : ws.all isSpace = true)
    (hws2 : ws2.all isSpace = true) (hI : lower wI = sIs) (hN : lower wN = sNot) :
    normalize names (ws ++ wN ++ 32 :: ws2 ++ wI ++ 32 :: renderAbbrev k ab st) = some (k.codes, true) :=
  body_not_is_prefix hk (body_lower_abbrev k hk ab ha st (styleOk_of_junkOk hj)) hws hws2 hI hN

/-- `! is A` ↦ negated. -/
theorem C16_abbrev_bang_is (k : Key) (hk : k ∈ allKeys) (ab : Abbrev) (ha : ab.applies k = true)
    (st : FormulaStyle) (hj : st.junkOk = true) {ws ws2 wI : Str} (hws : ws.all isSpace = true)
    (hws2 : ws2.all isSpace = true) (hI : lower wI = sIs) :
    normalize names (ws ++ 33 :: ws2 ++ wI ++ 32 :: renderAbbrev k ab st) = some (k.codes, true) :=
  body_bang_is_prefix hk (body_lower_abbrev k hk ab ha st (styleOk_of_junkOk hj)) hws hws2 hI

/-- `! A is` ↦ negated. -/
theorem C16_abbrev_bang_is_suffix (k : Key) (hk : k ∈ allKeys) (ab : Abbrev) (ha : ab.applies k = true)
    (st : FormulaStyle) (hj : st.junkOk = true) {ws ws' wI : Str} (hws : ws.all isSpace = true)
    (hws' : ws'.all isSpace = true) (hI : lower wI = sIs) :
    normalize names (ws ++ 33 :: renderAbbrev k ab st ++ 32 :: wI ++ ws') = some (k.codes, true) :=
  body_bang_is_suffix hk (body_lower_abbrev k hk ab ha st (styleOk_of_junkOk hj)) hws hws' hI

/-- **Every decoration of the specification's list around every abbreviated spelling**: the key and
the decoration's negation flag (negated exactly when the decoration carries `!`, `not ` or ` not`). -/
theorem C16_abbrev_decorated (k : Key) (hk : k ∈ allKeys) (ab : Abbrev) (ha : ab.applies k = true)
    (st : FormulaStyle) (hj : st.junkOk = true) (d : Str × Str × Bool) (hd : d ∈ decorations) :
    normalize names (d.1 ++ renderAbbrev k ab st ++ d.2.1) = some (k.codes, d.2.2) :=
  body_spec_decorated hk (body_lower_abbrev k hk ab ha st (styleOk_of_junkOk hj)) d hd

/-- The general theorems do cover the finite tables: each of the 58 single-letter spellings of
`allAbbrevs` (and `x=y`, `y=x`) is the undecorated rendering of an abbreviation its key has. -/
theorem C16_abbrev_covers (s : Codes) (k : Key) (h : (s, k) ∈ allAbbrevs ∨ (s, k) ∈ abbreviations.take 2) :
    ∃ ab : Abbrev, ab.applies k = true ∧ renderAbbrev k ab {} = s := by
  have h' : (allAbbrevs ++ abbreviations.take 2).all (fun p =>
      allAbbrevKinds.any fun ab => ab.applies p.2 && (abbrevCodes ab p.2 == p.1)) = true := by decide +kernel
  have hm : (s, k) ∈ allAbbrevs ++ abbreviations.take 2 := List.mem_append.mpr h
  obtain ⟨ab, _, hab⟩ := List.any_eq_true.mp (List.all_eq_true.mp h' (s, k) hm)
  simp only [Bool.and_eq_true, beq_iff_eq] at hab
  exact ⟨ab, hab.1, by rw [abbrev_bare]; exact hab.2⟩

-- Non-vacuity: 60 (abbreviation, key) pairs; `NOT  (X1) <= y2_` is `C16_abbrev_not_prefix` for `x≤x≤y≤y`.
example : abbrevPairs.length = 60 := by decide +kernel
example : Abbrev.both.applies ⟨.x, .x, .y, .y, .le, .le, .le⟩ = true := by decide
example : Abbrev.both.applies ⟨.x, .x, .y, .y, .le, .eq, .le⟩ = false := by decide
example : Abbrev.identYX.applies identityKey = true := by decide
example : codesOf "NOT" ++ 32 :: renderAbbrev ⟨.x, .x, .y, .y, .le, .le, .le⟩ .both
    { s1 := { upper := true, index := some 1 }, s3 := { index := some 2 }, p2 := .ascii,
      j0 := [32, 40], j1 := [41, 32], j4 := [32], j7 := [95] } = codesOf "NOT  (X1) <= y2_" := by decide +kernel
example : renderAbbrev identityKey .identYX { s1 := { upper := true }, p1 := .ascii, j2 := [32] } =
    codesOf "Y== x" := by decide +kernel
example : renderAbbrev ⟨.y, .x, .x, .y, .lt, .le, .le⟩ .p2 { j1 := [32], p3 := .ascii } = codesOf "y <x<=y" := by
  decide +kernel

/-! ### Decoration words and negation markers separated by ANY white space (round 11, B3)

The theorems above fix the single literal space next to `not` / `is` (the one the code removes with the
word). The code detects the negation with `not\s+` / `\s+not` but removes the word only next to a literal
space, and removes `is` only next to a literal space: with a tab, a newline, … the word STAYS in the text
and is erased by the salvage pipeline with every other character outside `xy<=≤`. So, for formulas and
abbreviated formulas, ANY decoration text works: `P`, `Q` are arbitrary strings over white space (space,
tab, LF, VT, FF, CR), `!` and the letters of `not` / `is` in either case (`decoChar`) — unbounded, any
number of words, any white space between them, outer white space included. The result is the key, and
the flag is the property's own clause `carriesNeg`: the stripped lower-cased spelling starts with `!`, or
carries `not` followed by a white-space character, or a white-space character followed by `not`.
Derived from one normalisation lemma (`keeps_normalizeLow`: every stage of the code only deletes
characters of the dead outer parts; the salvage pipeline ignores dead characters at both ends). -/

/-- **C16 (formulas, any white space).** -/
theorem C16_formula_spaced (k : Key) (hk : k ∈ allKeys) (st : FormulaStyle) (hj : st.junkOk = true)
    {P Q : Str} (hP : P.all decoChar = true) (hQ : Q.all decoChar = true) :
    normalize names (P ++ renderFormula k st ++ Q) =
      some (k.codes, carriesNeg (P ++ renderFormula k st ++ Q)) :=
  spaced_body hk (body_lower_formula k hk st (styleOk_of_junkOk hj)) hP hQ

/-- **C16 (abbreviated formulas, any white space).** -/
theorem C16_abbrev_spaced (k : Key) (hk : k ∈ allKeys) (ab : Abbrev) (ha : ab.applies k = true)
    (st : FormulaStyle) (hj : st.junkOk = true) {P Q : Str} (hP : P.all decoChar = true)
    (hQ : Q.all decoChar = true) :
    normalize names (P ++ renderAbbrev k ab st ++ Q) =
      some (k.codes, carriesNeg (P ++ renderAbbrev k ab st ++ Q)) :=
  spaced_body hk (body_lower_abbrev k hk ab ha st (styleOk_of_junkOk hj)) hP hQ

/-- **C16 (formulas, spaced decorations, explicit flag).** `d` any spaced decoration (`Spaced.ok`: outer white
space, an optional `!` followed by any white space, any number of prefix words `not` / `is` in any case each
followed by an ARBITRARY non-empty white-space string, any number of suffix words each preceded by one):
every formula spelling resolves to its key and is negated exactly when the decoration carries `!`, a prefix
`not<ws>` or a suffix `<ws>not` (`Spaced.neg`). -/
theorem C16_formula_spaced_render (k : Key) (hk : k ∈ allKeys) (st : FormulaStyle) (hj : st.junkOk = true)
    (d : Spaced) (hd : d.ok = true) :
    normalize names (renderSpaced d (renderFormula k st)) = some (k.codes, d.neg) :=
  spaced_render hk (body_lower_formula k hk st (styleOk_of_junkOk hj)) d hd

/-- **C16 (abbreviated formulas, spaced decorations, explicit flag).** -/
theorem C16_abbrev_spaced_render (k : Key) (hk : k ∈ allKeys) (ab : Abbrev) (ha : ab.applies k = true)
    (st : FormulaStyle) (hj : st.junkOk = true) (d : Spaced) (hd : d.ok = true) :
    normalize names (renderSpaced d (renderAbbrev k ab st)) = some (k.codes, d.neg) :=
  spaced_render hk (body_lower_abbrev k hk ab ha st (styleOk_of_junkOk hj)) d hd

/-- The negation variants in the concrete form of the single-space theorems: `not<W>F`, `F<W>not`, `is<W>F`,
`F<W>is` with `W` ANY non-empty white-space string (`c :: W` / `W ++ [c]`, `c` a white-space character). -/
theorem C16_formula_spaced_not_prefix (k : Key) (hk : k ∈ allKeys) (st : FormulaStyle) (hj : st.junkOk = true)
    {ws wN W : Str} {c : Nat} (hws : ws.all isSpace = true) (hN : lower wN = sNot) (hc : isSpace c = true)
    (hW : W.all isSpace = true) :
    normalize names (ws ++ (wN ++ c :: W) ++ renderFormula k st) = some (k.codes, true) := by
  have := C16_formula_spaced_render k hk st hj { outerL := ws, pre := [⟨wN, c :: W⟩] }
    (by simp [Spaced.ok, SpWord.ok, hws, hN, hc, hW])
  simpa [renderSpaced, Spaced.before, Spaced.after, Spaced.neg, SpWord.isNot, hN] using this

theorem C16_formula_spaced_not_suffix (k : Key) (hk : k ∈ allKeys) (st : FormulaStyle) (hj : st.junkOk = true)
    {ws wN W : Str} {c : Nat} (hws : ws.all isSpace = true) (hN : lower wN = sNot) (hc : isSpace c = true)
    (hW : W.all isSpace = true) :
    normalize names (renderFormula k st ++ ((W ++ [c]) ++ wN ++ ws)) = some (k.codes, true) := by
  have := C16_formula_spaced_render k hk st hj { outerR := ws, post := [⟨wN, W ++ [c]⟩] }
    (by simp [Spaced.ok, SpWord.ok, hws, hN, hc, hW])
  simpa [renderSpaced, Spaced.before, Spaced.after, Spaced.neg, SpWord.isNot, hN] using this

theorem C16_formula_spaced_is_prefix (k : Key) (hk : k ∈ allKeys) (st : FormulaStyle) (hj : st.junkOk = true)
    {ws wI W : Str} {c : Nat} (hws : ws.all isSpace = true) (hI : lower wI = sIs) (hc : isSpace c = true)
    (hW : W.all isSpace = true) :
    normalize names (ws ++ (wI ++ c :: W) ++ renderFormula k st) = some (k.codes, false) := by
  have := C16_formula_spaced_render k hk st hj { outerL := ws, pre := [⟨wI, c :: W⟩] }
    (by simp [Spaced.ok, SpWord.ok, hws, hI, hc, hW, sIs])
  simpa [renderSpaced, Spaced.before, Spaced.after, Spaced.neg, SpWord.isNot, hI, sIs, sNot] using this

theorem C16_formula_spaced_is_suffix (k : Key) (hk : k ∈ allKeys) (st : FormulaStyle) (hj : st.junkOk = true)
    {ws wI W : Str} {c : Nat} (hws : ws.all isSpace = true) (hI : lower wI = sIs) (hc : isSpace c = true)
    (hW : W.all isSpace = true) :
    normalize names (renderFormula k st ++ ((W ++ [c]) ++ wI ++ ws)) = some (k.codes, false) := by
  have := C16_formula_spaced_render k hk st hj { outerR := ws, post := [⟨wI, W ++ [c]⟩] }
    (by simp [Spaced.ok, SpWord.ok, hws, hI, hc, hW, sIs])
  simpa [renderSpaced, Spaced.before, Spaced.after, Spaced.neg, SpWord.isNot, hI, sIs, sNot] using this

/-- **C16 (names, white space after `not `).** For names the code is NOT insensitive to the white space:
what is tolerated is any white space AFTER the literal space of `not ` (it is stripped after the word is
removed). Every case of the name and of `not`, any outer white space. -/
theorem C16_names_spaced (n : Codes) (k : Key) (h : (n, k) ∈ aliases) {w ws ws' wN W : Str} (hw : lower w = n)
    (hN : lower wN = sNot) (hws : ws.all isSpace = true) (hws' : ws'.all isSpace = true)
    (hW : W.all isSpace = true) :
    normalize names (ws ++ wN ++ 32 :: W ++ w ++ ws') = some (k.codes, true) :=
  name_not_spaced n k h hw hN hws hws' hW

/-- **C16 (names, white space before ` not`).** Symmetrically, any white space BEFORE the literal space of a
trailing ` not`. -/
theorem C16_names_spaced_suffix (n : Codes) (k : Key) (h : (n, k) ∈ aliases) {w ws ws' wN W : Str}
    (hw : lower w = n) (hN : lower wN = sNot) (hws : ws.all isSpace = true) (hws' : ws'.all isSpace = true)
    (hW : W.all isSpace = true) :
    normalize names (ws ++ w ++ W ++ 32 :: wN ++ ws') = some (k.codes, true) :=
  name_not_suffix_spaced n k h hw hN hws hws' hW

/-- **C16 (names, any white space after `!`).** -/
theorem C16_names_spaced_bang (n : Codes) (k : Key) (h : (n, k) ∈ aliases) {w ws ws' W : Str} (hw : lower w = n)
    (hws : ws.all isSpace = true) (hws' : ws'.all isSpace = true) (hW : W.all isSpace = true) :
    normalize names (ws ++ 33 :: W ++ w ++ ws') = some (k.codes, true) :=
  name_bang_spaced n k h hw hws hws' hW

/-- **The limits of the code on NAMES** (finding B3, not a violation of the theorems above): a white-space
character other than the literal space next to `not`, or more than one white-space character next to
`is`, makes a decorated name a `ValueError`, although the same decoration is accepted around a formula. -/
theorem C16_names_spaced_limits :
    normalize names (codesOf "not\tafter") = none ∧ normalize names (codesOf "after\tnot") = none ∧
    normalize names (codesOf "is  after") = none ∧ normalize names (codesOf "after  is") = none ∧
    normalize names (codesOf "is\tafter") = none ∧ normalize names (codesOf "not\nafter") = none ∧
    normalize names (codesOf "not  after") = some (codesOf "y≤y≤x≤x", true) ∧
    normalize names (codesOf "after  not") = some (codesOf "y≤y≤x≤x", true) ∧
    normalize names (codesOf "not\tx<y") = some (codesOf "x≤x<y≤y", true) ∧
    normalize names (codesOf "is  x<y") = some (codesOf "x≤x<y≤y", false) := by
  decide +kernel

-- Non-vacuity: `\t Not\n\ris\x0b(x1 <= Y2)\x0c\tNOT ` is a spaced rendering of an abbreviation of `x≤x≤y≤y`, negated.
example : Spaced.ok ⟨[9, 32], none, [⟨codesOf "Not", [10, 13]⟩, ⟨codesOf "is", [11]⟩], [⟨codesOf "NOT", [12, 9]⟩], [32]⟩ = true := by
  decide +kernel
example : renderSpaced ⟨[9, 32], none, [⟨codesOf "Not", [10, 13]⟩, ⟨codesOf "is", [11]⟩], [⟨codesOf "NOT", [12, 9]⟩], [32]⟩
    (codesOf "(x1 <= Y2)") = codesOf "\t Not\n\ris\x0b(x1 <= Y2)\x0c\tNOT " := by decide +kernel
example : Spaced.neg ⟨[], some [9], [⟨codesOf "IS", [10]⟩], [], []⟩ = true := by decide +kernel
example : Spaced.neg ⟨[], none, [⟨codesOf "IS", [10]⟩], [⟨codesOf "is", [9, 9]⟩], []⟩ = false := by decide +kernel
-- Non-vacuity: decoration texts, and the flag of the property's clause on them.
example : (codesOf " Is\tNOT\n").all decoChar = true := by decide +kernel
example : (codesOf "\x0b\x0cnot").all decoChar = true := by decide +kernel
example : carriesNeg (codesOf "is\tnot\nx<y") = true := by decide +kernel
example : carriesNeg (codesOf "x<y\r\x0bNot ") = true := by decide +kernel
example : carriesNeg (codesOf "is\t\tx<y \nis") = false := by decide +kernel
example : carriesNeg (codesOf "\t!\nx<y") = true := by decide +kernel
-- `isnot x<y` carries no marker in the sense of the clause? It does: `not` followed by a space.
example : carriesNeg (codesOf "isnot x<y") = true := by decide +kernel
example : carriesNeg (codesOf "notx<y") = false := by decide +kernel
example : (codesOf "after", (⟨.y, .y, .x, .x, .le, .le, .le⟩ : Key)) ∈ aliases := by decide +kernel

end Paroxy.Props.C16
